import F3.Proofs.RoundNetNode
import F3.Proofs.SyncNet
/-!
# The network invariant of a round `r ≥ 1` whose best ticket's value is admissible everywhere (`round_r_decides`)

Network level of `F3/Proofs/RoundNetNode.lean`, in the architecture of `F3/Proofs/SyncNet.lean`: `NInvR` is preserved by
every admissible (`opOk`), round-synchronous (`syncOpOkR`) event of `NetRanked.netStepR`; it holds at a `RoundStart`
whose best ticket's value is admissible everywhere (`admAllB`); a complete execution in which nobody is left waiting
for the CONVERGE timer has terminated with `val w` at every member.
-/
namespace F3.Liveness
open F3.Instance F3.Net F3.NetRanked F3.Sync

/-- the pool holds a relevant message of phase `ph` sent by `q` -/
def hasMsgR (r : Nat) (pool : List Msg) (q : Pid) (ph : Phase) : Prop :=
  ∃ m ∈ pool, relevant r m = true ∧ m.sender = q ∧ m.phase = ph

theorem hasMsgR_append (r : Nat) (a b : List Msg) (q : Pid) (ph : Phase) :
    hasMsgR r (a ++ b) q ph ↔ hasMsgR r a q ph ∨ hasMsgR r b q ph := by
  unfold hasMsgR
  constructor
  · rintro ⟨m, hm, h⟩
    rcases List.mem_append.1 hm with hm | hm
    · exact Or.inl ⟨m, hm, h⟩
    · exact Or.inr ⟨m, hm, h⟩
  · rintro (⟨m, hm, h⟩ | ⟨m, hm, h⟩)
    · exact ⟨m, List.mem_append_left _ hm, h⟩
    · exact ⟨m, List.mem_append_right _ hm, h⟩

/-- what a transition says about phases and the messages put on the wire -/
theorem TransR.facts {g : RCtx} {p : Pid} {a b : Phase} {ms : List Msg} (h : TransR g p a b ms) (hp : p ∈ g.H) :
    (∀ m ∈ ms, relevant g.r m = true ∧ m.sender = p ∧ ShapeR g m) ∧
    (b = .prepare ∨ b = .commit → (a = .prepare ∨ a = .commit) ∨ hasMsgR g.r ms p .prepare) ∧
    (b = .commit → a = .commit ∨ hasMsgR g.r ms p .commit) ∧
    (b = .decide ∨ b = .terminated → (a = .decide ∨ a = .terminated) ∨ hasMsgR g.r ms p .decide) ∧
    (hasMsgR g.r ms p .prepare → b ≠ .converge) ∧
    (a ≠ .converge → b ≠ .converge) ∧
    (b ≠ .terminated → a ≠ .terminated) := by
  cases h with
  | same a => simp [hasMsgR]
  | c2p j => simp [hasMsgR, mkR, ShapeR, relevant, hp]
  | p2c j => simp [hasMsgR, mkR, ShapeR, relevant, hp]
  | x2d a b ha hb j =>
    rcases ha with rfl | rfl | rfl <;> rcases hb with rfl | rfl <;> simp [hasMsgR, mkR, ShapeR, relevant, hp]
  | d2t => simp [hasMsgR]

/-! ## the invariant -/

structure NodeOKR (g : RCtx) (pool : List Msg) (dl : List (Pid × Msg)) (q : Pid) (x : State) : Prop where
  inv : RInv g x
  pi : PIR g q x x.phase
  deliv : ∀ m, (q, m) ∈ dl → relevant g.r m = true → x.phase ≠ .terminated → m.sender ∈ sendersR g x m.phase
  sentV : hasMsgR g.r pool q .converge
  sentP : x.phase = .prepare ∨ x.phase = .commit → hasMsgR g.r pool q .prepare
  sentC : x.phase = .commit → hasMsgR g.r pool q .commit
  sentD : x.phase = .decide ∨ x.phase = .terminated → hasMsgR g.r pool q .decide
  prepSelf : hasMsgR g.r pool q .prepare → x.phase ≠ .converge

/-- `f0`: the failures recorded before the round (nothing is added) -/
structure NInvR (g : RCtx) (f0 : List (Pid × Eff)) (n : Net) : Prop where
  nodup : (n.nodes.map (·.1)).Nodup
  mem : ∀ q ∈ g.H, q ∈ n.nodes.map (·.1)
  fails : n.fails = f0
  pool : ∀ m ∈ n.pool, relevant g.r m = true → ShapeR g m
  node : ∀ q x, q ∈ g.H → (q, x) ∈ n.nodes → NodeOKR g n.pool n.delivered q x

variable {g : RCtx} {f0 : List (Pid × Eff)}

/-- a node other than the one that moved -/
theorem NodeOKR.other {pool pool' : List Msg} {dl dl' : List (Pid × Msg)} {q : Pid} {x : State}
    (h : NodeOKR g pool dl q x)
    (hpool : ∀ ph, hasMsgR g.r pool' q ph ↔ hasMsgR g.r pool q ph) (hdl : ∀ m, (q, m) ∈ dl' ↔ (q, m) ∈ dl) :
    NodeOKR g pool' dl' q x :=
  ⟨h.inv, h.pi, fun m hm => h.deliv m ((hdl m).1 hm), (hpool _).2 h.sentV,
   fun hx => (hpool _).2 (h.sentP hx), fun hx => (hpool _).2 (h.sentC hx), fun hx => (hpool _).2 (h.sentD hx),
   fun hx => h.prepSelf ((hpool _).1 hx)⟩

/-- the node that moved -/
theorem NodeOKR.step {pool : List Msg} {dl dl' : List (Pid × Msg)} {p : Pid} {s : State}
    (h : NodeOKR g pool dl p s) (hp : p ∈ g.H) (r : R) (gd : GoodR g p s r)
    (hdl : ∀ m, (p, m) ∈ dl' → relevant g.r m = true → r.1.phase ≠ .terminated → m.sender ∈ sendersR g r.1 m.phase) :
    NodeOKR g (pool ++ sentR g.rankOf p r.2) dl' p r.1 := by
  obtain ⟨_, f2, f3, f4, f5, f6, _⟩ := gd.trans.facts hp
  refine ⟨gd.inv, gd.pi, hdl, ?_, ?_, ?_, ?_, ?_⟩
  · rw [hasMsgR_append]; exact Or.inl h.sentV
  · intro hx
    rw [hasMsgR_append]
    rcases f2 hx with h1 | h1
    · exact Or.inl (h.sentP h1)
    · exact Or.inr h1
  · intro hx
    rw [hasMsgR_append]
    rcases f3 hx with h1 | h1
    · exact Or.inl (h.sentC h1)
    · exact Or.inr h1
  · intro hx
    rw [hasMsgR_append]
    rcases f4 hx with h1 | h1
    · exact Or.inl (h.sentD h1)
    · exact Or.inr h1
  · intro hx
    rw [hasMsgR_append] at hx
    rcases hx with h1 | h1
    · exact f6 (h.prepSelf h1)
    · exact f5 h1

/-- the common part of every event that runs the model on member `p` -/
theorem NInvR.apply {n : Net} (hn : NInvR g f0 n) {p : Pid} {s : State} (hpH : p ∈ g.H) (hp : (p, s) ∈ n.nodes) (op : Op)
    (gd : GoodR g p s (step s op)) (n' : Net) (hnodes : n'.nodes = n.nodes) (hpool : n'.pool = n.pool)
    (hfails : n'.fails = n.fails)
    (hdlo : ∀ q m, q ≠ p → ((q, m) ∈ n'.delivered ↔ (q, m) ∈ n.delivered))
    (hdl : ∀ m, (p, m) ∈ n'.delivered → relevant g.r m = true → (step s op).1.phase ≠ .terminated →
      m.sender ∈ sendersR g (step s op).1 m.phase) :
    NInvR g f0 (applyR g.rankOf n' p s op) := by
  have hsent := (gd.trans.facts hpH).1
  refine ⟨?_, ?_, ?_, ?_, ?_⟩
  · show ((setNode n'.nodes p (step s op).1).map (·.1)).Nodup
    rw [setNode_ids, hnodes]; exact hn.nodup
  · intro q hq
    show q ∈ (setNode n'.nodes p (step s op).1).map (·.1)
    rw [setNode_ids, hnodes]; exact hn.mem q hq
  · show n'.fails ++ failuresOf p (step s op).2 = f0
    rw [hfails, hn.fails, failuresOf_nil p _ gd.nofail]; exact List.append_nil _
  · intro m hm hrel
    have hm' : m ∈ n'.pool ++ sentR g.rankOf p (step s op).2 := hm
    rw [hpool] at hm'
    rcases List.mem_append.1 hm' with h | h
    · exact hn.pool m h hrel
    · exact (hsent m h).2.2
  · intro q x hqH hq
    have hq' : (q, x) ∈ setNode n'.nodes p (step s op).1 := hq
    rw [hnodes] at hq'
    show NodeOKR g (n'.pool ++ sentR g.rankOf p (step s op).2) n'.delivered q x
    rw [hpool]
    rcases mem_setNode hq' with ⟨rfl, rfl⟩ | ⟨hne, hmem⟩
    · exact (hn.node q s hqH hp).step hqH _ gd hdl
    · refine (hn.node q x hqH hmem).other ?_ (fun m => hdlo q m hne)
      intro ph
      rw [hasMsgR_append]
      constructor
      · rintro (h | ⟨m, hm, _, h1, _⟩)
        · exact h
        · exact absurd ((hsent m hm).2.1.symm.trans h1).symm hne
      · exact Or.inl

theorem node?_of_mem {n : Net} (hnd : (n.nodes.map (·.1)).Nodup) {p : Pid} {s : State} (h : (p, s) ∈ n.nodes) :
    n.node? p = some s := by
  unfold Net.node?
  cases hf : n.nodes.find? (fun e => e.1 == p) with
  | none =>
    rw [List.find?_eq_none] at hf
    have := hf (p, s) h
    simp at this
  | some e =>
    have h1 := List.mem_of_find?_eq_some hf
    have h2 := List.find?_some hf
    simp only [beq_iff_eq] at h2
    have : (p, e.2) ∈ n.nodes := by rw [← h2]; exact h1
    simp only [Option.map_some, Option.some.injEq]
    exact nodes_unique hnd this h

theorem node?_ex {n : Net} (hn : NInvR g f0 n) {p : Pid} (hp : p ∈ g.H) : ∃ s, n.node? p = some s ∧ (p, s) ∈ n.nodes := by
  obtain ⟨e, he, rfl⟩ := List.mem_map.1 (hn.mem p hp)
  exact ⟨e.2, node?_of_mem hn.nodup he, he⟩

/-- what `syncAtR` gives once its guard holds -/
theorem sync_handedR {n : Net} {p : Pid} {s : State} (hnode : n.node? p = some s)
    (dl : List (Pid × Msg)) (now : Int) (hsy : syncAtR g.r g.H n dl p now = true) (hr : s.round = g.r)
    (hph : s.phase = .converge) (hel : s.phaseTimeoutElapsed now = true) :
    ∀ h ∈ g.H, ∃ m, (p, m) ∈ dl ∧ m.sender = h ∧ m.phase = .converge ∧ m.round = g.r := by
  unfold syncAtR at hsy
  rw [hnode] at hsy
  dsimp only at hsy
  rw [if_pos (by simp [hr, hph, hel])] at hsy
  unfold allHandedR at hsy
  rw [List.all_eq_true] at hsy
  intro h hh
  have := hsy h hh
  rw [List.any_eq_true] at this
  obtain ⟨d, hd, hcond⟩ := this
  simp only [Bool.and_eq_true, beq_iff_eq] at hcond
  refine ⟨d.2, ?_, hcond.1.1.2, hcond.1.2, hcond.2⟩
  rw [← hcond.1.1.1]
  exact hd

theorem relevant_converge {r : Nat} {m : Msg} (hp : m.phase = .converge) (hr : m.round = r) : relevant r m = true := by
  simp [relevant, hp, hr]

theorem netStepR_deliver {n : Net} (hn : NInvR g f0 n) (p : Pid) (now : Int) (m : Msg)
    (hok : opOk n (.deliver p now m) = true) (hsy : syncOpOkR g.r g.H n (.deliver p now m) = true) :
    NInvR g f0 (netStepR g.rankOf n (.deliver p now m)) := by
  unfold syncOpOkR at hsy
  simp only [Bool.and_eq_true, List.contains_eq_mem, decide_eq_true_eq] at hsy
  obtain ⟨⟨hpH, hrel⟩, hsy⟩ := hsy
  obtain ⟨s, hnode, hp⟩ := node?_ex hn hpH
  simp only [netStepR, hnode]
  have hno := hn.node p s hpH hp
  unfold opOk at hok
  simp only [Bool.and_eq_true, List.contains_eq_mem, decide_eq_true_eq] at hok
  have hm := hn.pool m hok.2 hrel
  by_cases hterm : s.phase = .terminated
  · rw [if_pos (by simp [hterm])]
    refine ⟨hn.nodup, hn.mem, hn.fails, hn.pool, ?_⟩
    intro q x hqH hq
    have hqo := hn.node q x hqH hq
    refine ⟨hqo.inv, hqo.pi, ?_, hqo.sentV, hqo.sentP, hqo.sentC, hqo.sentD, hqo.prepSelf⟩
    intro m' hm' hrel' hnt
    have hm'' : (q, m') ∈ n.delivered ++ [(p, m)] := hm'
    rcases List.mem_append.1 hm'' with h | h
    · exact hqo.deliv m' h hrel' hnt
    · simp only [List.mem_singleton, Prod.mk.injEq] at h
      obtain ⟨rfl, rfl⟩ := h
      have := nodes_unique hn.nodup hq hp
      rw [this] at hnt
      exact absurd hterm hnt
  · rw [if_neg (by simp [hterm])]
    have hself : m.phase = .prepare → m.sender = p → s.phase ≠ .converge := by
      intro h1 h2
      exact hno.prepSelf ⟨m, hok.2, hrel, h2, h1⟩
    have hsm : SyncedMR g s now m := by
      intro hph hel h hh
      obtain ⟨m', hm', h1, h2, h3⟩ := sync_handedR hnode _ now hsy hno.inv.round hph hel h hh
      rcases List.mem_append.1 hm' with hin | hin
      · left
        have := hno.deliv m' hin (relevant_converge h2 h3) hterm
        rw [h2, h1] at this
        exact this
      · right
        simp only [List.mem_singleton, Prod.mk.injEq] at hin
        rw [← hin.2]
        exact ⟨h2, h1⟩
    obtain ⟨gd, hin⟩ := step_recv_goodR now m hno.inv hno.pi hterm hm hself hsm
    obtain ⟨_, _, _, _, _, _, f8⟩ := gd.trans.facts hpH
    refine hn.apply hpH hp (.recv now m) gd { n with delivered := n.delivered ++ [(p, m)] } rfl rfl rfl ?_ ?_
    · intro q m' hq
      show (q, m') ∈ n.delivered ++ [(p, m)] ↔ _
      simp [hq]
    · intro m' hm' hrel' hnt
      have hm'' : (p, m') ∈ n.delivered ++ [(p, m)] := hm'
      rcases List.mem_append.1 hm'' with h | h
      · exact gd.mono _ _ (hno.deliv m' h hrel' (f8 hnt))
      · simp only [List.mem_singleton, Prod.mk.injEq] at h
        rw [h.2]; exact hin

theorem netStepR_alarm {n : Net} (hn : NInvR g f0 n) (p : Pid) (now : Int)
    (hsy : syncOpOkR g.r g.H n (.alarm p now) = true) :
    NInvR g f0 (netStepR g.rankOf n (.alarm p now)) := by
  unfold syncOpOkR at hsy
  simp only [Bool.and_eq_true, List.contains_eq_mem, decide_eq_true_eq] at hsy
  obtain ⟨hpH, hsy⟩ := hsy
  obtain ⟨s, hnode, hp⟩ := node?_ex hn hpH
  simp only [netStepR, hnode]
  have hno := hn.node p s hpH hp
  have hnq : (s.phase == .quality && s.phaseTimeoutElapsed now) = false := by
    have hpi := hno.pi
    cases hph : s.phase <;> rw [hph] at hpi <;> first | exact hpi.elim | rfl
  rw [if_neg (by simp [hnq])]
  have hsd : SyncedR g s now := by
    intro hph hel h hh
    obtain ⟨m', hm', h1, h2, h3⟩ := sync_handedR hnode _ now hsy hno.inv.round hph hel h hh
    have hnt : s.phase ≠ .terminated := by rw [hph]; simp
    have := hno.deliv m' hm' (relevant_converge h2 h3) hnt
    rw [h2, h1] at this
    exact this
  have gd := step_alarm_goodR now hno.inv hno.pi hsd
  obtain ⟨_, _, _, _, _, _, f8⟩ := gd.trans.facts hpH
  exact hn.apply hpH hp (.alarm now) gd n rfl rfl rfl (fun _ _ _ => Iff.rfl)
    (fun m' hm' hrel' hnt => gd.mono _ _ (hno.deliv m' hm' hrel' (f8 hnt)))

theorem netStepR_inv {n : Net} (hn : NInvR g f0 n) (op : NetOp)
    (hok : opOk n op = true) (hsy : syncOpOkR g.r g.H n op = true) : NInvR g f0 (netStepR g.rankOf n op) := by
  cases op with
  | start p now => simp [syncOpOkR] at hsy
  | deliver p now m => exact netStepR_deliver hn p now m hok hsy
  | alarm p now => exact netStepR_alarm hn p now hsy

theorem runNetR_inv (ops : List NetOp) {n : Net} (hn : NInvR g f0 n)
    (hok : execOkR g.rankOf n ops = true) (hsy : syncOkR g.rankOf g.r g.H n ops = true) :
    NInvR g f0 (runNetR g.rankOf n ops) := by
  induction ops generalizing n with
  | nil => exact hn
  | cons op ops ih =>
    unfold execOkR at hok
    unfold syncOkR at hsy
    simp only [Bool.and_eq_true] at hok hsy
    exact ih (netStepR_inv hn op hok.1 hsy.1) hok.2 hsy.2

/-! ## a complete execution has decided -/

theorem complete_terminatedR {n : Net} (hn : NInvR g f0 n) (hc : completeR g.r g.H n = true)
    (hnc : noneInConverge g.H n = true) :
    ∀ q x, q ∈ g.H → (q, x) ∈ n.nodes → x.phase = .terminated := by
  unfold completeR at hc
  simp only [List.all_eq_true, Bool.or_eq_true, Bool.not_eq_true', List.contains_eq_mem, decide_eq_true_eq] at hc
  have hdl : ∀ m ∈ n.pool, relevant g.r m = true → ∀ q ∈ g.H, (q, m) ∈ n.delivered := by
    intro m hm hrel q hq
    rcases hc m hm with h | h
    · rw [hrel] at h; cases h
    · exact h q hq
  -- every relevant message of the pool has been tallied by every member that has not terminated
  have F : ∀ q x, q ∈ g.H → (q, x) ∈ n.nodes → x.phase ≠ .terminated → ∀ y ph, hasMsgR g.r n.pool y ph →
      y ∈ sendersR g x ph := by
    intro q x hqH hq hnt y ph ⟨m, hm, hrel, h1, h2⟩
    have := (hn.node q x hqH hq).deliv m (hdl m hm hrel q hqH) hrel hnt
    rw [h1, h2] at this
    exact this
  have hnode : ∀ h ∈ g.H, ∃ x, (h, x) ∈ n.nodes := fun h hh => by
    obtain ⟨s, _, hs⟩ := node?_ex hn hh
    exact ⟨s, hs⟩
  have G : ∀ ph, (∀ q x, q ∈ g.H → (q, x) ∈ n.nodes → hasMsgR g.r n.pool q ph) →
      ∀ q x, q ∈ g.H → (q, x) ∈ n.nodes → x.phase ≠ .terminated → ∀ h ∈ g.H, h ∈ sendersR g x ph := by
    intro ph hall q x hqH hq hnt h hh
    obtain ⟨y, hy⟩ := hnode h hh
    exact F q x hqH hq hnt h ph (hall h y hh hy)
  have hncv : ∀ q x, q ∈ g.H → (q, x) ∈ n.nodes → x.phase ≠ .converge := by
    intro q x hqH hq
    unfold noneInConverge at hnc
    rw [List.all_eq_true] at hnc
    have := hnc q hqH
    rw [node?_of_mem hn.nodup hq] at this
    simpa using this
  have hni : ∀ q x, q ∈ g.H → (q, x) ∈ n.nodes → x.phase ≠ .initial ∧ x.phase ≠ .quality := by
    intro q x hqH hq
    have hpi := (hn.node q x hqH hq).pi
    constructor <;> intro hph <;> rw [hph] at hpi <;> exact hpi
  -- somebody has reached DECIDE
  have hD : ∃ q x, q ∈ g.H ∧ (q, x) ∈ n.nodes ∧ (x.phase = .decide ∨ x.phase = .terminated) := by
    by_cases hex : ∃ q x, q ∈ g.H ∧ (q, x) ∈ n.nodes ∧ (x.phase = .decide ∨ x.phase = .terminated)
    · exact hex
    · exfalso
      have hpc : ∀ q x, q ∈ g.H → (q, x) ∈ n.nodes → x.phase = .prepare ∨ x.phase = .commit := by
        intro q x hqH hq
        have h1 := hni q x hqH hq
        have h3 := hncv q x hqH hq
        have h4 : ¬ (x.phase = .decide ∨ x.phase = .terminated) := fun h => hex ⟨q, x, hqH, hq, h⟩
        cases hp : x.phase <;> simp_all
      have hP := G .prepare (fun q x hqH hq => (hn.node q x hqH hq).sentP (hpc q x hqH hq))
      have hcm : ∀ q x, q ∈ g.H → (q, x) ∈ n.nodes → x.phase = .commit := by
        intro q x hqH hq
        rcases hpc q x hqH hq with hp | hp
        · exfalso
          have hno := hn.node q x hqH hq
          have hall := hP q x hqH hq (by rw [hp]; simp)
          have hs := hno.inv.prep.strong_of_all g.ctx g.Hne hall
          have h1 := hno.pi
          rw [hp] at h1
          rw [h1.2.1 (hall q hqH)] at hs
          cases hs
        · exact hp
      have hC := G .commit (fun q x hqH hq => (hn.node q x hqH hq).sentC (hcm q x hqH hq))
      obtain ⟨xw, hxw⟩ := hnode g.w g.wH
      have hno := hn.node g.w xw g.wH hxw
      have hp := hcm g.w xw g.wH hxw
      have hall := hC g.w xw g.wH hxw (by rw [hp]; simp)
      have hs := hno.inv.comm.strong_of_all g.ctx g.Hne hall
      have h1 := hno.pi
      rw [hp] at h1
      rw [h1.1] at hs
      cases hs
  intro q x hqH hq
  obtain ⟨q0, x0, hq0H, hq0, hph0⟩ := hD
  have hm0 := (hn.node q0 x0 hq0H hq0).sentD hph0
  -- everybody is in DECIDE or beyond
  have hdt : ∀ q x, q ∈ g.H → (q, x) ∈ n.nodes → x.phase = .decide ∨ x.phase = .terminated := by
    intro q x hqH hq
    have hno := hn.node q x hqH hq
    by_cases ht : x.phase = .terminated
    · exact Or.inr ht
    · have hin : q0 ∈ x.decision.senders := F q x hqH hq ht q0 .decide hm0
      have h1 := hni q x hqH hq
      have h3 := hncv q x hqH hq
      have hpi := hno.pi
      cases hp : x.phase <;> rw [hp] at hpi <;> simp_all [PIR, B4]
  have hDall := G .decide (fun q x hqH hq => (hn.node q x hqH hq).sentD (hdt q x hqH hq))
  rcases hdt q x hqH hq with hp | hp
  · exfalso
    have hno := hn.node q x hqH hq
    have hall := hDall q x hqH hq (by rw [hp]; simp)
    have hs := hno.inv.dec.strong_of_all g.ctx g.Hne hall
    have h1 := hno.pi
    rw [hp] at h1
    rw [show x.decision.hasStrongFor g.v = false from h1] at hs
    cases hs
  · exact hp

theorem terminated_valueR {n : Net} (hn : NInvR g f0 n) {q : Pid} {x : State} (hqH : q ∈ g.H) (hq : (q, x) ∈ n.nodes)
    (hp : x.phase = .terminated) : ∃ d, x.termination = some d ∧ d.value = g.v := by
  have hno := hn.node q x hqH hq
  have h1 := hno.pi
  rw [hp] at h1
  obtain ⟨d, hd⟩ := h1
  exact ⟨d, hd, hno.inv.term d hd⟩

end F3.Liveness
