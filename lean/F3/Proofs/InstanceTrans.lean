import F3.Model.Participant
/-!
# Transition skeleton of the instance model: progress points and broadcasts

Every `begin*` function of `gpbft.go` notifies progress and then broadcasts for the slot it entered.
`WP c evs d`: the (progress, broadcast) skeleton `evs` of an effect list is a sequence of entries into
strictly increasing progress points starting above `c` and ending at `d`, each optionally followed by
the broadcast for that point (DECIDE is labelled round 0); once DECIDE is reached the round is frozen.
-/
namespace F3.Instance

inductive Ev
  | prog (r : Nat) (ph : Phase)
  | bc (r : Nat) (ph : Phase)
  deriving DecidableEq, Repr

def Eff.ev? : Eff → Option Ev
  | .progress r ph => some (.prog r ph)
  | .broadcast r ph _ _ _ => some (.bc r ph)
  | _ => none

def evs (es : List Eff) : List Ev := es.filterMap Eff.ev?

@[simp] theorem evs_nil : evs [] = [] := rfl
@[simp] theorem evs_append (a b : List Eff) : evs (a ++ b) = evs a ++ evs b := by
  simp [evs, List.filterMap_append]

abbrev Pt := Nat × Nat
def State.pt (s : State) : Pt := (s.round, s.phase.toNat)

/-- strict lexicographic order, with the round frozen once DECIDE (5) has been reached -/
def ptLt (c d : Pt) : Prop := (c.1 < d.1 ∨ (c.1 = d.1 ∧ c.2 < d.2)) ∧ (5 ≤ c.2 → d.1 = c.1)

def ptLe (c d : Pt) : Prop := c = d ∨ ptLt c d

theorem ptLt_trans {a b c : Pt} (h1 : ptLt a b) (h2 : ptLt b c) : ptLt a c := by
  unfold ptLt at *
  obtain ⟨h1a, h1b⟩ := h1
  obtain ⟨h2a, h2b⟩ := h2
  refine ⟨by omega, ?_⟩
  intro h5
  have := h1b h5
  have hb : 5 ≤ b.2 := by omega
  have := h2b hb
  omega

theorem ptLe_trans {a b c : Pt} (h1 : ptLe a b) (h2 : ptLe b c) : ptLe a c := by
  rcases h1 with rfl | h1
  · exact h2
  · rcases h2 with rfl | h2
    · exact Or.inr h1
    · exact Or.inr (ptLt_trans h1 h2)

theorem ptLt_of_le_of_lt {a b c : Pt} (h1 : ptLe a b) (h2 : ptLt b c) : ptLt a c := by
  rcases h1 with rfl | h1
  · exact h2
  · exact ptLt_trans h1 h2

inductive WP : Pt → List Ev → Pt → Prop
  | nil (c : Pt) : WP c [] c
  | enter (c : Pt) (r : Nat) (ph : Phase) (rest : List Ev) (d : Pt) :
      ptLt c (r, ph.toNat) → WP (r, ph.toNat) rest d → WP c (.prog r ph :: rest) d
  | enterB (c : Pt) (r : Nat) (ph : Phase) (r' : Nat) (rest : List Ev) (d : Pt) :
      ptLt c (r, ph.toNat) → (r' = r ∨ (ph = .decide ∧ r' = 0)) → WP (r, ph.toNat) rest d →
      WP c (.prog r ph :: .bc r' ph :: rest) d

theorem WP.append {a b c : Pt} {x y : List Ev} (h1 : WP a x b) (h2 : WP b y c) : WP a (x ++ y) c := by
  induction h1 with
  | nil _ => simpa using h2
  | enter c r ph rest d hlt _ ih => exact WP.enter c r ph _ _ hlt (ih h2)
  | enterB c r ph r' rest d hlt hr _ ih => exact WP.enterB c r ph r' _ _ hlt hr (ih h2)

theorem WP.le {a b : Pt} {x : List Ev} (h : WP a x b) : ptLe a b := by
  induction h with
  | nil _ => exact Or.inl rfl
  | enter c r ph rest d hlt _ ih => exact Or.inr (by
      rcases ih with h | h
      · rw [← h]; exact hlt
      · exact ptLt_trans hlt h)
  | enterB c r ph r' rest d hlt _ _ ih => exact Or.inr (by
      rcases ih with h | h
      · rw [← h]; exact hlt
      · exact ptLt_trans hlt h)

/-- weakening the start point -/
theorem WP.weaken {a a' b : Pt} {x : List Ev} (hle : ptLe a' a) (h : WP a x b) : WP a' x b ∨ (x = [] ∧ a = b) := by
  cases h with
  | nil _ => exact Or.inr ⟨rfl, rfl⟩
  | enter c r ph rest d hlt h' => exact Or.inl (WP.enter _ r ph _ _ (ptLt_of_le_of_lt hle hlt) h')
  | enterB c r ph r' rest d hlt hr h' => exact Or.inl (WP.enterB _ r ph r' _ _ (ptLt_of_le_of_lt hle hlt) hr h')

end F3.Instance
