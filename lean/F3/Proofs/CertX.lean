import F3.Model.CertX
/-! Lemmas for C16: the served range and the client's receive loop. -/
namespace F3.CertX
open F3.Certs

/-- when the pending instance does not wrap it is the store's next instance -/
theorem pending_eq {s : Store} (hs : s.first + s.certs.length < 2 ^ 64) :
    s.pending = if s.certs.isEmpty then 0 else s.first + s.certs.length := by
  unfold Store.pending Store.latest?
  cases hc : s.certs with
  | nil => simp
  | cons c cs =>
    rw [hc] at hs
    simp only [List.isEmpty_cons, Bool.false_eq_true, if_false, List.length_cons] at hs ⊢
    unfold u64
    rw [Nat.mod_eq_of_lt] <;> omega

/-- the inclusive end of the served range is `min (first+limit-1) (pending-1)`, wrap-around included -/
theorem serveEnd_eq {first limit pending : Nat} (hl : 0 < limit) (hl2 : limit ≤ 256)
    (hf : first < pending) (hp : pending < 2 ^ 64) :
    serveEnd first limit pending = min (first + limit - 1) (pending - 1) := by
  unfold serveEnd u64
  simp only [Bool.or_eq_true, decide_eq_true_eq]
  by_cases hw : first + limit - 1 < 2 ^ 64
  · rw [Nat.mod_eq_of_lt hw]
    split <;> omega
  · have hm : (first + limit - 1) % 2 ^ 64 = first + limit - 1 - 2 ^ 64 := by
      rw [Nat.mod_eq_sub_mod (by omega), Nat.mod_eq_of_lt (by omega)]
    rw [hm]
    split <;> omega

theorem getRange_length (s : Store) (start stop : Nat) (h1 : start ≤ stop) (h2 : s.first ≤ start) :
    (s.getRange start stop).length = min (stop - start + 1) (s.certs.length - (start - s.first)) := by
  unfold Store.getRange
  have a : ¬ stop < start := by omega
  have b : ¬ start < s.first := by omega
  simp only [a, b, if_false, List.length_take, List.length_drop]

theorem getRange_get (s : Store) (start stop i : Nat) (h1 : start ≤ stop) (h2 : s.first ≤ start)
    (hi : i < (s.getRange start stop).length) :
    (s.getRange start stop)[i]? = s.certs[start - s.first + i]? := by
  have hlen := getRange_length s start stop h1 h2
  unfold Store.getRange at hi ⊢
  have a : ¬ stop < start := by omega
  have b : ¬ start < s.first := by omega
  simp only [a, b, if_false] at hi ⊢
  rw [List.getElem?_take, List.getElem?_drop]
  have : i < stop - start + 1 := by
    simp only [List.length_take, List.length_drop] at hi; omega
  simp [this]

theorem getRange_below (s : Store) (start stop : Nat) (h : start < s.first) :
    s.getRange start stop = [] := by
  unfold Store.getRange
  by_cases a : stop < start
  · simp [a]
  · simp [a, h]

/-! ## client -/

theorem clientRecv_ok {first limit i : Nat} {c : Cert} {rest : List (Option Cert)}
    (h1 : i < limit) (h2 : c.inst = u64 (first + i)) :
    clientRecv first limit i (some c :: rest) = c :: clientRecv first limit (i + 1) rest := by
  have a : ¬ limit ≤ i := by omega
  have b : (c.inst != u64 (first + i)) = false := by simpa using h2
  simp [clientRecv, a, b]

theorem clientRecv_stop_here {first limit i : Nat} {c : Cert} {rest : List (Option Cert)}
    (h : limit ≤ i ∨ c.inst ≠ u64 (first + i)) :
    clientRecv first limit i (some c :: rest) = [] := by
  unfold clientRecv
  by_cases a : limit ≤ i
  · simp [a]
  · have b : (c.inst != u64 (first + i)) = true := by
      rcases h with h | h
      · exact absurd h a
      · simpa using h
    simp [a, b]

theorem clientRecv_cases (first limit i : Nat) (c : Cert) (rest : List (Option Cert)) :
    (i < limit ∧ c.inst = u64 (first + i) ∧
      clientRecv first limit i (some c :: rest) = c :: clientRecv first limit (i + 1) rest) ∨
    ((limit ≤ i ∨ c.inst ≠ u64 (first + i)) ∧ clientRecv first limit i (some c :: rest) = []) := by
  by_cases h1 : i < limit
  · by_cases h2 : c.inst = u64 (first + i)
    · exact Or.inl ⟨h1, h2, clientRecv_ok h1 h2⟩
    · exact Or.inr ⟨Or.inr h2, clientRecv_stop_here (Or.inr h2)⟩
  · exact Or.inr ⟨Or.inl (by omega), clientRecv_stop_here (Or.inl (by omega))⟩

theorem clientRecv_length (first limit i : Nat) (items : List (Option Cert)) :
    (clientRecv first limit i items).length + i ≤ max limit i := by
  induction items generalizing i with
  | nil => simp [clientRecv]; omega
  | cons x xs ih =>
    cases x with
    | none => simp [clientRecv]; omega
    | some c =>
      rcases clientRecv_cases first limit i c xs with ⟨h1, _, he⟩ | ⟨_, he⟩
      · rw [he, List.length_cons]; have := ih (i + 1); omega
      · rw [he]; simp; omega

theorem clientRecv_seq (first limit i : Nat) (items : List (Option Cert)) :
    ∀ j (hj : j < (clientRecv first limit i items).length),
      ((clientRecv first limit i items)[j]).inst = u64 (first + (i + j)) := by
  induction items generalizing i with
  | nil => intro j hj; simp [clientRecv] at hj
  | cons x xs ih =>
    cases x with
    | none => intro j hj; simp [clientRecv] at hj
    | some c =>
      intro j hj
      rcases clientRecv_cases first limit i c xs with ⟨h1, h2, he⟩ | ⟨_, he⟩
      · simp only [he] at hj ⊢
        cases j with
        | zero => simpa using h2
        | succ k =>
          simp only [List.getElem_cons_succ]
          have := ih (i + 1) k (by simpa using hj)
          rw [this]; congr 1; omega
      · rw [he] at hj; simp at hj

theorem clientRecv_prefix (first limit i : Nat) (items : List (Option Cert)) :
    ((clientRecv first limit i items).map some) <+: items := by
  induction items generalizing i with
  | nil => simp [clientRecv]
  | cons x xs ih =>
    cases x with
    | none => simp [clientRecv]
    | some c =>
      rcases clientRecv_cases first limit i c xs with ⟨h1, h2, he⟩ | ⟨_, he⟩
      · rw [he, List.map_cons]
        exact (List.prefix_cons_inj _).mpr (ih (i + 1))
      · rw [he]; simp

/-- the client stops only for a reason: end of stream, limit reached, undecodable or out-of-sequence item -/
theorem clientRecv_stop (first limit i : Nat) (items : List (Option Cert)) :
    (clientRecv first limit i items).length = items.length ∨
      limit ≤ i + (clientRecv first limit i items).length ∨
      items[(clientRecv first limit i items).length]? = some none ∨
      ∃ c, items[(clientRecv first limit i items).length]? = some (some c) ∧
        c.inst ≠ u64 (first + (i + (clientRecv first limit i items).length)) := by
  induction items generalizing i with
  | nil => simp [clientRecv]
  | cons x xs ih =>
    cases x with
    | none => simp [clientRecv]
    | some c =>
      rcases clientRecv_cases first limit i c xs with ⟨h1, h2, he⟩ | ⟨hs, he⟩
      · rw [he]
        simp only [List.length_cons, List.getElem?_cons_succ]
        rcases ih (i + 1) with h | h | h | ⟨c', hc', hne⟩
        · left; omega
        · right; left; omega
        · right; right; left; exact h
        · right; right; right
          refine ⟨c', hc', ?_⟩
          rw [show i + ((clientRecv first limit (i + 1) xs).length + 1) = i + 1 + (clientRecv first limit (i + 1) xs).length by omega]
          exact hne
      · rw [he]
        simp only [List.length_nil, List.length_cons, Nat.add_zero, List.getElem?_cons_zero]
        rcases hs with hs | hs
        · right; left; exact hs
        · right; right; right; exact ⟨c, rfl, hs⟩

end F3.CertX
