import F3.Gen.SkelPoll
/-!
# Expected statement skeletons (SkelPoll)

Hand-pinned expectations for the REGENERATED skeletons of `F3.Gen.SkelPoll` (tools/go2lean/skel.go): the pre-order
list of the statements of a Go function as `<depth>:<kind>`. The expression-level tie theorems pin what single
conditions say; these pin that nothing was added around them (an extra early return, a cap, a dropped branch). A
structural change of the function — harmful or not — breaks the `rfl` below and with it the obligation of every
property importing this file; the check then searches for a failing input as for any broken obligation.
-/
namespace F3.SkelTie.SkelPoll
open F3.Gen.SkelPoll

/-- the structure the model of `SubscriberPoll` was written against -/
def skelSubscriberPollExpected : List String :=
  ["0:decl", "0:defer", "0:assign:=", "0:call:log.Debugf", "0:assign:=", "0:assign:=", "0:decl", "0:range",
   "1:assign:=", "1:if", "2:return3", "1:call:log.Debugf", "1:if", "2:assign=", "2:assign=", "1:switch",
   "2:case1", "3:assign=", "3:call:s.peerTracker.updateLatency", "2:case1", "3:assign=",
   "3:call:s.peerTracker.updateLatency", "2:case1", "3:call:s.peerTracker.recordFailure", "2:case1",
   "3:call:s.peerTracker.recordInvalid", "2:default", "3:call:panic", "1:if", "2:incdec++", "1:else",
   "2:assign=", "1:assign+=", "1:assign+=", "0:if", "1:range", "2:call:s.peerTracker.recordMiss", "1:range",
   "2:call:s.peerTracker.recordHit", "0:call:metrics.peersPolled.Record", "0:if", "1:assign:=",
   "1:call:metrics.peersRequiredPerPoll.Record", "1:assign:=", "1:call:metrics.pollEfficiency.Record",
   "0:return3"]

theorem skelSubscriberPoll_expected : skelSubscriberPoll = skelSubscriberPollExpected := rfl

/-- the structure the model of `CatchUp` was written against -/
def skelCatchUpExpected : List String :=
  ["0:assign:=", "0:if", "1:return2", "0:assign:=", "0:assign:=", "0:if", "1:return2", "0:assign:=", "0:if",
   "1:return2", "0:assign=", "0:assign=", "0:return2"]

theorem skelCatchUp_expected : skelCatchUp = skelCatchUpExpected := rfl

/-- the structure the model of `PredictorUpdate` was written against -/
def skelPredictorUpdateExpected : List String :=
  ["0:if", "1:if", "2:assign=", "0:elseif", "1:if", "2:assign/=", "1:elseif", "2:assign*=", "1:else",
   "2:assign/=", "2:assign=", "1:if", "2:assign=", "1:elseif", "2:assign=", "1:if", "2:assign=", "2:assign+=",
   "2:assign=", "1:else", "2:assign-=", "2:assign=", "1:if", "2:assign=", "1:elseif", "2:assign=",
   "0:assign:=", "0:if", "1:assign=", "1:assign=", "0:return1"]

theorem skelPredictorUpdate_expected : skelPredictorUpdate = skelPredictorUpdateExpected := rfl

end F3.SkelTie.SkelPoll
