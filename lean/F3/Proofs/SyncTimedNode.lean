import F3.Proofs.SyncNode
/-!
# One honest node in a unanimous run: what a step does to timers and tallies (helpers for `C02.timed_sync_ordered`)

`F3.Sync.Good` (in `SyncNode`) says what an API call of the model guarantees about phases and messages in a
unanimous run. The real-time argument needs more about the same call: the phase timer is re-armed exactly when the
phase changes (to `now + 2δ`), the configuration never changes, tallies only grow by the sender of the message
being received, and *why* QUALITY / PREPARE were left (`PX`, `SX`).
-/
namespace F3.Sync
open F3.Instance F3.Net

/-! ## configuration and tallies -/

def talOf (s : State) := (s.cfg, s.rounds, s.quality, s.decision)

/-- same configuration and same tallies -/
def TC (s s' : State) : Prop := talOf s' = talOf s

macro "tc_rfl" : tactic => `(tactic| (show talOf _ = talOf _; rfl))

theorem TC.refl (s : State) : TC s s := Eq.refl _

theorem TC.fields {s s' : State} (h : TC s s') :
    s'.cfg = s.cfg ∧ s'.rounds = s.rounds ∧ s'.quality = s.quality ∧ s'.decision = s.decision := by
  unfold TC talOf at h
  simp only [Prod.mk.injEq] at h
  exact h

theorem TC.getRound {s s' : State} (h : TC s s') (r : Nat) : s'.getRound r = s.getRound r := by
  unfold State.getRound
  rw [h.fields.2.1]

theorem TC.senders {s s' : State} (h : TC s s') (ph : Phase) : sendersOf s' ph = sendersOf s ph := by
  obtain ⟨_, _, hq, hd⟩ := h.fields
  cases ph <;> simp only [sendersOf, h.getRound, hq, hd]

theorem TC.of_core_cfg {s s' : State} (h : Core s s') (hc : s'.cfg = s.cfg) : TC s s' := by
  obtain ⟨_, _, _, h4, h5, h6, _⟩ := h.fields
  show talOf s' = talOf s
  unfold talOf
  rw [hc, h4, h5, h6]

theorem tryRebroadcast_phaseTimeout (s : State) (now : Int) : (s.tryRebroadcast now).1.phaseTimeout = s.phaseTimeout := by
  unfold State.tryRebroadcast State.resetReb
  dsimp only
  repeat' (first | rfl | split)

theorem tryRebroadcast_tc (s : State) (now : Int) : TC s (s.tryRebroadcast now).1 :=
  TC.of_core_cfg (tryRebroadcast_core s now) (tryRebroadcast_cfg s now)

/-- a COMMIT justification is only ever stored together with its sender -/
def JS (s : State) : Prop := (s.getRound 0).committed.justs ≠ [] → (s.getRound 0).committed.senders ≠ []

theorem getJustOf_nil (T : Tally) (ph : Phase) (c : Chain) (h : T.justs = []) : T.getJustOf ph c = none := by
  unfold Tally.getJustOf
  rw [h]
  split <;> rfl

/-! ## the phase functions -/

/-- extra facts about a call that receives no message -/
structure PX (c : Chain) (now : Int) (s : State) (r : R) : Prop where
  tc : TC s r.1
  same : r.1.phase = s.phase → r.1.phaseTimeout = s.phaseTimeout
  toP : s.phase = .quality → r.1.phase = .prepare →
    r.1.phaseTimeout = now + tableGet s.cfg.timeout2 0 ∧ s.quality.hasStrongFor c = true
  toC : s.phase = .prepare → r.1.phase = .commit →
    r.1.phaseTimeout = now + tableGet s.cfg.timeout2 0 ∧
      ((s.getRound 0).prepared.hasStrongFor c = true ∨ (s.getRound 0).committed.justs ≠ [])

section
variable {t : Table} {c : Chain} {H : List Pid}

theorem PX.stay (c : Chain) (now : Int) (s : State) : PX c now s (s, []) :=
  ⟨TC.refl s, fun _ => rfl, fun h1 h2 => (by rw [h1] at h2; cases h2), fun h1 h2 => (by rw [h1] at h2; cases h2)⟩

theorem PX.reb (c : Chain) (now : Int) (s : State) : PX c now s (s.tryRebroadcast now) := by
  have hph := tryRebroadcast_phase' s now
  refine ⟨tryRebroadcast_tc s now, fun _ => tryRebroadcast_phaseTimeout s now, ?_, ?_⟩
  · intro h1 h2; rw [hph, h1] at h2; cases h2
  · intro h1 h2; rw [hph, h1] at h2; cases h2

theorem tryQuality_px (hctx : Ctx t c H) (hlen : 2 ≤ c.length) {p : Pid} (hpH : p ∈ H) {s : State} (now : Int)
    (hs : SInv t c H s) (hph : s.phase = .quality)
    (hsync : s.phaseTimeoutElapsed now = true → ∀ h ∈ H, h ∈ s.quality.senders) :
    PX c now s (s.tryQuality now) := by
  by_cases hcond : (s.quality.hasStrongFor s.proposal || s.phaseTimeoutElapsed now) = true
  · obtain ⟨cs, heq⟩ := tryQuality_go s now hph hcond
    rw [heq]
    refine ⟨by tc_rfl, ?_, ?_, ?_⟩
    · intro h
      have h' : Phase.prepare = s.phase := h
      rw [hph] at h'; cases h'
    · intro _ _
      refine ⟨?_, ?_⟩
      · show now + tableGet s.cfg.timeout2 s.round = _
        rw [hs.round]
      · rw [hs.proposal, Bool.or_eq_true] at hcond
        rcases hcond with hf | he
        · exact hf
        · exact hs.qt.strong_of_all hctx hlen (List.ne_nil_of_mem hpH) (hsync he)
    · intro h; rw [hph] at h; cases h
  · rw [tryQuality_stay s now hph hcond]
    exact PX.stay c now s

theorem tryPrepare_px (hctx : Ctx t c H) {p : Pid} (hpH : p ∈ H) {s : State} (now : Int) (hs : SInv t c H s)
    (hph : s.phase = .prepare)
    (hsync : s.phaseTimeoutElapsed now = true → ∀ h ∈ H, h ∈ (s.getRound 0).prepared.senders) :
    PX c now s (s.tryPrepare now) := by
  have hnp : s.prepNotPossible = false := by
    unfold State.prepNotPossible
    rw [hs.round, hs.tbl, hs.proposal, hs.prep.couldReach]; rfl
  have hfq : s.prepFoundQuorum = (s.getRound 0).prepared.hasStrongFor c := by
    unfold State.prepFoundQuorum; rw [hs.round, hs.proposal]
  by_cases hfound : (s.prepFoundQuorum || s.prepFoundJust) = true
  · have hcond : (s.prepFoundQuorum || s.prepFoundJust || s.prepNotPossible || s.prepComplete now) = true := by
      rw [hfound]; rfl
    rw [tryPrepare_go s now hph hcond, prepareValue_found s now hfound]
    have hs' : SInv t c H ({ s with value := s.proposal } : State) := hs.core (by core_rfl) hs.proposal
    obtain ⟨j, hj, _⟩ := commitJust_ok hctx hs' hs.proposal hfound
    rw [beginCommit_eq _ now j (by show s.proposal.isEmpty = false; rw [hs.proposal]; exact isEmpty_false_of_ne hctx.cne) hj]
    refine ⟨by tc_rfl, ?_, ?_, ?_⟩
    · intro h
      have h' : Phase.commit = s.phase := h
      rw [hph] at h'; cases h'
    · intro h; rw [hph] at h; cases h
    · intro _ _
      refine ⟨?_, ?_⟩
      · show now + tableGet s.cfg.timeout2 s.round = _
        rw [hs.round]
      · by_cases hq : (s.getRound 0).prepared.hasStrongFor c = true
        · exact Or.inl hq
        · right
          intro hje
          have hq' : (s.getRound 0).prepared.hasStrongFor c = false := by simpa using hq
          unfold State.prepFoundQuorum State.prepFoundJust at hfound
          rw [hs.round, hs.proposal, hq'] at hfound
          simp only [Nat.zero_add, hs.getRound1] at hfound
          rw [getJustOf_empty, conv_getJustOf_empty, getJustOf_nil _ _ _ hje] at hfound
          simp at hfound
  · have hfound' : (s.prepFoundQuorum || s.prepFoundJust) = false := by simpa using hfound
    have hnq : (s.getRound 0).prepared.hasStrongFor c = false := by
      rw [← hfq]
      cases hx : s.prepFoundQuorum
      · rfl
      · rw [hx] at hfound'; simp at hfound'
    have hpc : s.prepComplete now = false := by
      cases hx : s.prepComplete now
      · rfl
      · exfalso
        unfold State.prepComplete at hx
        simp only [Bool.and_eq_true] at hx
        have := hs.prep.strong_of_all hctx (List.ne_nil_of_mem hpH) (hsync hx.1)
        rw [hnq] at this; cases this
    have hcond : (s.prepFoundQuorum || s.prepFoundJust || s.prepNotPossible || s.prepComplete now) = false := by
      rw [hfound', hnp, hpc]; rfl
    rw [tryPrepare_stay s now hph hcond]
    split
    · exact PX.reb c now s
    · exact PX.stay c now s

/-- `tryCommit` for round 0, from QUALITY, PREPARE or COMMIT -/
theorem tryCommit_px (hctx : Ctx t c H) {p : Pid} (hpH : p ∈ H) {s : State} (now : Int) (hs : SInv t c H s)
    (hph : s.phase = .quality ∨ s.phase = .prepare ∨ s.phase = .commit)
    (hsync : s.phase = .commit → s.phaseTimeoutElapsed now = true → ∀ h ∈ H, h ∈ (s.getRound 0).committed.senders) :
    PX c now s (s.tryCommit now 0) := by
  have hv := hs.comm.fsqv
  by_cases hq : (s.getRound 0).committed.hasStrongFor c = true
  · rw [if_pos hq] at hv
    rw [tryCommit_one s now 0 c (isEmpty_false_of_ne hctx.cne) hv]
    obtain ⟨sg, hsg⟩ := hs.comm.fsqf hctx hq
    have hsg' : (State.getRound ({ s with value := c } : State) 0).committed.findStrongQuorumFor
        ({ s with value := c } : State).tbl ({ s with value := c } : State).value = .found sg := by
      show (s.getRound 0).committed.findStrongQuorumFor s.tbl c = .found sg
      rw [hs.tbl]; exact hsg
    rw [beginDecide_eq _ 0 sg hsg']
    refine ⟨by tc_rfl, ?_, ?_, ?_⟩
    · intro h
      have h' : Phase.decide = s.phase := h
      rcases hph with h1 | h1 | h1 <;> rw [h1] at h' <;> cases h'
    · intro _ h; cases h
    · intro _ h; cases h
  · rw [if_neg hq] at hv
    by_cases hc : s.phase = .commit
    · have hb : s.foundJustBottom 0 = false := by
        unfold State.foundJustBottom
        simp only [Nat.zero_add, hs.getRound1]
        rw [getJustOf_empty, conv_getJustOf_empty]
        rfl
      have hcs : (s.phaseTimeoutElapsed now && (s.getRound 0).committed.fromStrong s.tbl) = false := by
        cases hx : s.phaseTimeoutElapsed now
        · rfl
        · exfalso
          have := hs.comm.strong_of_all hctx (List.ne_nil_of_mem hpH) (hsync hc hx)
          exact hq this
      rw [tryCommit_none_commit s now hc hs.round hv hb hcs]
      split
      · exact PX.reb c now s
      · exact PX.stay c now s
    · rw [tryCommit_none_other s now 0 hc hv]
      exact PX.stay c now s

theorem tryDecide_px (hctx : Ctx t c H) {s : State} (now : Int) (hs : SInv t c H s)
    (hph : s.phase = .decide) : PX c now s (s.tryDecide now) := by
  have hv := hs.dec.fsqv
  by_cases hq : s.decision.hasStrongFor c = true
  · rw [if_pos hq] at hv
    obtain ⟨sg, hsg⟩ := hs.dec.fsqf hctx hq
    rw [← hs.tbl] at hsg
    rw [tryDecide_one s now c sg hv hsg]
    unfold State.terminate State.resetReb
    dsimp only
    refine ⟨by tc_rfl, ?_, ?_, ?_⟩
    · intro h
      have h' : Phase.terminated = s.phase := h
      exact absurd (h'.trans hph) (by decide)
    · intro h; rw [hph] at h; cases h
    · intro h; rw [hph] at h; cases h
  · rw [if_neg hq] at hv
    rw [tryDecide_none s now hv]
    exact PX.reb c now s

theorem tryCurrentPhase_px (hctx : Ctx t c H) (hlen : 2 ≤ c.length) {p : Pid} (hpH : p ∈ H) {s : State} (now : Int)
    (hs : SInv t c H s) (hw : WPI c p s s.phase) (hsync : Synced H s now) : PX c now s (s.tryCurrentPhase now) := by
  unfold Synced at hsync
  unfold State.tryCurrentPhase
  cases hph : s.phase <;> rw [hph] at hw hsync <;> dsimp only
  · exact hw.elim
  · exact tryQuality_px hctx hlen hpH now hs hph (hsync rfl)
  · exact hw.elim
  · exact tryPrepare_px hctx hpH now hs hph (hsync rfl)
  · rw [hs.round]
    exact tryCommit_px hctx hpH now hs (Or.inr (Or.inr hph)) (fun _ => hsync rfl)
  · exact tryDecide_px hctx now hs hph
  · exact PX.stay c now s


end

/-! ## receiving -/

theorem receiveInner_senders (t : Table) (Q Q' : Tally) (x : Pid) (k : Chain) (pw : Nat) (sig : Bool)
    (h : Q.receiveInner t x k pw sig = some Q') : Q'.senders = Q.senders := by
  unfold Tally.receiveInner at h
  dsimp only at h
  split at h
  · cases h
  · cases h; rfl

theorem fold_senders (t : Table) (x : Pid) (pw : Nat) (l : List Chain) (Q : Tally) :
    (l.foldl (fun acc k => (acc.receiveInner t x k pw false).getD acc) Q).senders = Q.senders := by
  induction l generalizing Q with
  | nil => rfl
  | cons a as ih =>
    simp only [List.foldl_cons]
    rw [ih]
    cases h : Q.receiveInner t x a pw false with
    | none => rfl
    | some Q' => exact receiveInner_senders t Q Q' x a pw false h

theorem receiveEachPrefix_senders (t : Table) (Q : Tally) (x : Pid) (k : Chain) :
    (Q.receiveEachPrefix t x k).senders = if Q.senders.contains x then Q.senders else Q.senders ++ [x] := by
  unfold Tally.receiveEachPrefix
  split
  · rfl
  · dsimp only
    rw [fold_senders]

theorem receiveEachPrefix_mem (t : Table) (Q : Tally) (x : Pid) (k : Chain) (y : Pid)
    (h : y ∈ (Q.receiveEachPrefix t x k).senders) : y ∈ Q.senders ∨ y = x := by
  rw [receiveEachPrefix_senders] at h
  split at h
  · exact Or.inl h
  · simpa using h

theorem receiveEachPrefix_nodup (t : Table) (Q : Tally) (x : Pid) (k : Chain) (h : Q.senders.Nodup) :
    (Q.receiveEachPrefix t x k).senders.Nodup := by
  rw [receiveEachPrefix_senders]
  split
  · exact h
  · rename_i hc
    have hn : x ∉ Q.senders := by simpa using hc
    rw [List.nodup_append]
    exact ⟨h, by simp, fun a ha b hb => by simp at hb; subst hb; intro e; subst e; exact hn ha⟩

/-- extra facts about one API call (`om`: the message being received, if any) -/
structure SX (c : Chain) (now : Int) (om : Option Msg) (s : State) (r : R) : Prop where
  cfg : r.1.cfg = s.cfg
  same : r.1.phase = s.phase → r.1.phaseTimeout = s.phaseTimeout
  toP : s.phase = .quality → r.1.phase = .prepare →
    r.1.phaseTimeout = now + tableGet s.cfg.timeout2 0 ∧ r.1.quality.hasStrongFor c = true
  toC : s.phase = .prepare → r.1.phase = .commit →
    r.1.phaseTimeout = now + tableGet s.cfg.timeout2 0 ∧
      ((r.1.getRound 0).prepared.hasStrongFor c = true ∨ (r.1.getRound 0).committed.justs ≠ [])
  conv : ∀ ph x, x ∈ sendersOf r.1 ph → x ∈ sendersOf s ph ∨ (∃ m, om = some m ∧ x = m.sender ∧ ph = m.phase)
  qn : s.quality.senders.Nodup → r.1.quality.senders.Nodup
  js : JS s → JS r.1

theorem JS.of_tc {s s' : State} (h : TC s s') (hj : JS s) : JS s' := by
  unfold JS
  rw [h.getRound]
  exact hj

theorem SX.of_px {c : Chain} {now : Int} {om : Option Msg} {s s1 : State} {r : R}
    (px : PX c now s1 r)
    (hph : s1.phase = s.phase) (hto : s1.phaseTimeout = s.phaseTimeout) (hcfg : s1.cfg = s.cfg)
    (hconv : ∀ ph x, x ∈ sendersOf s1 ph → x ∈ sendersOf s ph ∨ (∃ m, om = some m ∧ x = m.sender ∧ ph = m.phase))
    (hqn : s.quality.senders.Nodup → s1.quality.senders.Nodup) (hjs : JS s → JS s1) : SX c now om s r := by
  obtain ⟨h1, _, h3, _⟩ := px.tc.fields
  refine ⟨h1.trans hcfg, ?_, ?_, ?_, ?_, ?_, ?_⟩
  · intro h
    rw [← hto]
    exact px.same (h.trans hph.symm)
  · intro ha hb
    obtain ⟨e1, e2⟩ := px.toP (hph.trans ha) hb
    rw [hcfg] at e1
    exact ⟨e1, by rw [h3]; exact e2⟩
  · intro ha hb
    obtain ⟨e1, e2⟩ := px.toC (hph.trans ha) hb
    rw [hcfg] at e1
    exact ⟨e1, by rw [px.tc.getRound]; exact e2⟩
  · intro ph x hx
    rw [px.tc.senders] at hx
    exact hconv ph x hx
  · intro h
    rw [h3]; exact hqn h
  · intro h
    exact JS.of_tc px.tc (hjs h)

section
variable {t : Table} {c : Chain} {H : List Pid}

theorem after_tally_px (hctx : Ctx t c H) (hlen : 2 ≤ c.length) {p : Pid} (hpH : p ∈ H) {s s1 : State} (now : Int) (m : Msg)
    (hs1 : SInv t c H s1) (hph : s1.phase = s.phase) (hto : s1.phaseTimeout = s.phaseTimeout)
    (hmono : ∀ ph x, x ∈ sendersOf s ph → x ∈ sendersOf s1 ph) (hx : m.sender ∈ sendersOf s1 m.phase)
    (hw : WPI c p s1 s1.phase) (hsync : SyncedM H s now m) : PX c now s1 (s1.tryCurrentPhase now) := by
  have hsy : Synced H s1 now := by
    intro htp hel h hh
    rw [hph] at htp ⊢
    have hel' : s.phaseTimeoutElapsed now = true := by
      unfold State.phaseTimeoutElapsed at hel ⊢
      rw [← hto]; exact hel
    rcases hsync htp hel' h hh with h1 | ⟨h1, h2⟩
    · exact hmono _ _ h1
    · rw [← h1, ← h2]; exact hx
  exact tryCurrentPhase_px hctx hlen hpH now hs1 hw hsy

theorem PX.cand (c : Chain) (now : Int) (s : State) (cs : List Chain) : PX c now s ({ s with candidates := cs }, []) := by
  refine ⟨by tc_rfl, fun _ => rfl, ?_, ?_⟩
  · intro h1 h2
    have h2' : s.phase = .prepare := h2
    rw [h1] at h2'; cases h2'
  · intro h1 h2
    have h2' : s.phase = .commit := h2
    rw [h1] at h2'; cases h2'

theorem recvQuality_sx (hctx : Ctx t c H) (hlen : 2 ≤ c.length) {p : Pid} (hpH : p ∈ H) {s : State} (now : Int) (m : Msg)
    (hs : SInv t c H s) (hpi : PI c p s s.phase) (hm : Shape c m)
    (hmp : m.phase = .quality) (hsync : SyncedM H s now m) :
    SX c now (some m) s (s.recvQuality now m) := by
  obtain ⟨hq', hxin, hsub⟩ := hs.qt.receive m.sender
  have e1 : s.quality.receiveEachPrefix s.tbl m.sender m.value = s.quality.receiveEachPrefix t m.sender c := by
    rw [hs.tbl, hm.2.1]
  unfold State.recvQuality
  dsimp only
  rw [e1]
  have hs1 : SInv t c H ({ s with quality := s.quality.receiveEachPrefix t m.sender c } : State) :=
    ⟨hs.tbl, hs.input, hs.round, hs.proposal, hs.rounds, hq', hs.prep, hs.comm, hs.dec, hs.term⟩
  have hmono : ∀ ph x, x ∈ sendersOf s ph →
      x ∈ sendersOf ({ s with quality := s.quality.receiveEachPrefix t m.sender c } : State) ph := by
    intro ph x hx
    cases ph
    case quality => exact hsub x hx
    all_goals exact hx
  have hx1 : m.sender ∈ sendersOf ({ s with quality := s.quality.receiveEachPrefix t m.sender c } : State) m.phase := by
    rw [hmp]; exact hxin
  have hconv : ∀ ph x, x ∈ sendersOf ({ s with quality := s.quality.receiveEachPrefix t m.sender c } : State) ph →
      x ∈ sendersOf s ph ∨ (∃ m', some m = some m' ∧ x = m'.sender ∧ ph = m'.phase) := by
    intro ph x hx
    cases ph
    case quality =>
      rcases receiveEachPrefix_mem t _ _ _ x hx with h | h
      · exact Or.inl h
      · exact Or.inr ⟨m, rfl, h, hmp.symm⟩
    all_goals exact Or.inl hx
  have hqn : s.quality.senders.Nodup →
      ({ s with quality := s.quality.receiveEachPrefix t m.sender c } : State).quality.senders.Nodup :=
    fun h => receiveEachPrefix_nodup t _ _ _ h
  have hjs : JS s → JS ({ s with quality := s.quality.receiveEachPrefix t m.sender c } : State) := fun h => h
  by_cases hph : s.phase = .quality
  · rw [if_neg (by simp [hph])]
    refine SX.of_px (s := s) (after_tally_px (s := s) hctx hlen hpH now m hs1 rfl rfl hmono hx1 ?_ hsync) rfl rfl rfl hconv hqn hjs
    show WPI c p _ s.phase
    rw [hph] at hpi ⊢
    exact hpi.2
  · rw [if_pos (by simp [hph])]
    unfold State.updateCandidatesFromQuality
    obtain ⟨cs, hcs⟩ := addCandidatePrefixes_only ({ s with quality := s.quality.receiveEachPrefix t m.sender c } : State)
      ((s.quality.receiveEachPrefix t m.sender c).longestPrefixWithQuorum s.input)
    dsimp only at hcs ⊢
    rw [hcs]
    exact SX.of_px (s := s) (s1 := ({ s with quality := s.quality.receiveEachPrefix t m.sender c } : State))
      (PX.cand c now _ cs) rfl rfl rfl hconv hqn hjs

theorem recvPrepare_sx (hctx : Ctx t c H) (hlen : 2 ≤ c.length) {p : Pid} (hpH : p ∈ H) {s : State} (now : Int) (m : Msg)
    (hs : SInv t c H s) (hpi : PI c p s s.phase) (hni : s.phase ≠ .initial) (hm : Shape c m) (hmH : m.sender ∈ H)
    (hmp : m.phase = .prepare) (hself : m.sender = p → s.phase ≠ .quality) (hsync : SyncedM H s now m) :
    SX c now (some m) s (s.recvPrepare now m) := by
  obtain ⟨P', hrecv, hP', hxin, hsub, hsup, _⟩ := hs.prep.receive m.sender hmH
  have e1 : (s.getRound 0).prepared.receive s.tbl m.sender m.value = some P' := by
    rw [hs.tbl, hm.2.1]; exact hrecv
  unfold State.recvPrepare
  dsimp only
  rw [hm.1, e1]
  dsimp only
  unfold storePrepareJust
  rw [(shape_just hm).2.1 hmp]
  dsimp only
  obtain ⟨hs1, hg1⟩ := hs.setRound { s.getRound 0 with prepared := P' } hP' hs.comm
  refine SX.of_px (s := s) (after_tally_px (s := s) hctx hlen hpH now m hs1 rfl rfl ?_ ?_ ?_ hsync) rfl rfl rfl ?_ (fun h => h) ?_
  · intro ph x hx
    cases ph
    case prepare => show x ∈ (State.getRound _ 0).prepared.senders; rw [hg1]; exact hsub x hx
    case commit => show x ∈ (State.getRound _ 0).committed.senders; rw [hg1]; exact hx
    all_goals exact hx
  · rw [hmp]; show m.sender ∈ (State.getRound _ 0).prepared.senders; rw [hg1]; exact hxin
  · show WPI c p _ s.phase
    cases hp : s.phase <;> rw [hp] at hpi
    · exact absurd hp hni
    · refine ⟨?_, ?_, hpi.2.2.2⟩
      · show p ∉ (State.getRound _ 0).prepared.senders
        rw [hg1]
        intro hin
        rcases hsup p hin with h | h
        · exact hpi.2.1 h
        · exact hself h.symm hp
      · show (State.getRound _ 0).committed.hasStrongFor c = false
        rw [hg1]; exact hpi.2.2.1
    · exact hpi.elim
    · refine ⟨?_, hpi.2.2⟩
      show (State.getRound _ 0).committed.hasStrongFor c = false
      rw [hg1]; exact hpi.2.1
    · exact hpi.2
    · trivial
    · exact hpi
  · intro ph x hx
    cases ph
    case prepare =>
      have hx' : x ∈ (State.getRound _ 0).prepared.senders := hx
      rw [hg1] at hx'
      rcases hsup x hx' with h | h
      · exact Or.inl h
      · exact Or.inr ⟨m, rfl, h, hmp.symm⟩
    case commit =>
      have hx' : x ∈ (State.getRound _ 0).committed.senders := hx
      rw [hg1] at hx'
      exact Or.inl hx'
    all_goals exact Or.inl hx
  · intro hj
    unfold JS
    rw [hg1]
    exact hj


theorem recvCommit_sx (hctx : Ctx t c H) (hlen : 2 ≤ c.length) {p : Pid} (hpH : p ∈ H) {s : State} (now : Int) (m : Msg)
    (hs : SInv t c H s) (hpi : PI c p s s.phase) (hni : s.phase ≠ .initial) (hnt : s.phase ≠ .terminated)
    (hm : Shape c m) (hmH : m.sender ∈ H) (hmp : m.phase = .commit) (hsync : SyncedM H s now m) :
    SX c now (some m) s (s.recvCommit now m) := by
  obtain ⟨C', hrecv, hC', hxin, hsub, hsup, _⟩ := hs.comm.receive m.sender hmH
  obtain ⟨j, hj, hjf⟩ := (shape_just hm).2.2.1 hmp
  have e1 : (s.getRound 0).committed.receive s.tbl m.sender m.value = some C' := by
    rw [hs.tbl, hm.2.1]; exact hrecv
  have hve : m.value.isEmpty = false := by rw [hm.2.1]; exact isEmpty_false_of_ne hctx.cne
  have e2 : storeCommitJust C' m = C'.receiveJust c j := by
    unfold storeCommitJust
    rw [hj]
    dsimp only
    rw [if_neg (by simp [hve]), hm.2.1]
  unfold State.recvCommit
  dsimp only
  rw [hm.1, e1]
  dsimp only
  rw [if_neg (by simp [hj]), e2]
  have hC'' : UT t c H .prepare (C'.receiveJust c j) := hC'.receiveJust j hjf
  obtain ⟨hs1, hg1⟩ := hs.setRound { s.getRound 0 with committed := C'.receiveJust c j } hs.prep hC''
  have hph1 : (s.setRound 0 { s.getRound 0 with committed := C'.receiveJust c j }).phase = s.phase := rfl
  have hto1 : (s.setRound 0 { s.getRound 0 with committed := C'.receiveJust c j }).phaseTimeout = s.phaseTimeout := rfl
  have hdec1 : (s.setRound 0 { s.getRound 0 with committed := C'.receiveJust c j }).decision = s.decision := rfl
  have hq1 : (s.setRound 0 { s.getRound 0 with committed := C'.receiveJust c j }).quality = s.quality := rfl
  have hcfg1 : (s.setRound 0 { s.getRound 0 with committed := C'.receiveJust c j }).cfg = s.cfg := rfl
  generalize s.setRound 0 { s.getRound 0 with committed := C'.receiveJust c j } = s1 at *
  have hP1 : (s1.getRound 0).prepared = (s.getRound 0).prepared := by rw [hg1]
  have hC1 : (s1.getRound 0).committed.senders = C'.senders := by rw [hg1]; exact receiveJust_senders _ _ _
  have hmono : ∀ ph x, x ∈ sendersOf s ph → x ∈ sendersOf s1 ph := by
    intro ph x hx
    cases ph
    case prepare => show x ∈ (s1.getRound 0).prepared.senders; rw [hP1]; exact hx
    case commit => show x ∈ (s1.getRound 0).committed.senders; rw [hC1]; exact hsub x hx
    case quality => show x ∈ s1.quality.senders; rw [hq1]; exact hx
    case decide => show x ∈ s1.decision.senders; rw [hdec1]; exact hx
    all_goals exact hx
  have hx1 : m.sender ∈ sendersOf s1 m.phase := by
    rw [hmp]; show m.sender ∈ (s1.getRound 0).committed.senders; rw [hC1]; exact hxin
  have hconv : ∀ ph x, x ∈ sendersOf s1 ph →
      x ∈ sendersOf s ph ∨ (∃ m', some m = some m' ∧ x = m'.sender ∧ ph = m'.phase) := by
    intro ph x hx
    cases ph
    case prepare =>
      have hx' : x ∈ (s1.getRound 0).prepared.senders := hx
      rw [hP1] at hx'; exact Or.inl hx'
    case commit =>
      have hx' : x ∈ (s1.getRound 0).committed.senders := hx
      rw [hC1] at hx'
      rcases hsup x hx' with h | h
      · exact Or.inl h
      · exact Or.inr ⟨m, rfl, h, hmp.symm⟩
    case quality =>
      have hx' : x ∈ s1.quality.senders := hx
      rw [hq1] at hx'; exact Or.inl hx'
    case decide =>
      have hx' : x ∈ s1.decision.senders := hx
      rw [hdec1] at hx'; exact Or.inl hx'
    all_goals exact Or.inl hx
  have hqn : s.quality.senders.Nodup → s1.quality.senders.Nodup := by
    intro h; rw [hq1]; exact h
  have hjs : JS s → JS s1 := by
    intro _ _
    rw [hC1]
    exact List.ne_nil_of_mem hxin
  by_cases hd : s.phase = .decide
  · rw [if_neg (by simp [hph1, hd])]
    refine SX.of_px (s := s) (after_tally_px (s := s) hctx hlen hpH now m hs1 hph1 hto1 hmono hx1 ?_ hsync)
      hph1 hto1 hcfg1 hconv hqn hjs
    rw [hph1, hd]; trivial
  · rw [if_pos (by simp [hph1, hd])]
    have hph' : s1.phase = .quality ∨ s1.phase = .prepare ∨ s1.phase = .commit := by
      rw [hph1]
      cases hp : s.phase <;> rw [hp] at hpi <;> simp_all [PI]
    have h4 : A4 s1 := by
      show s1.decision.senders = []
      rw [hdec1]
      cases hp : s.phase <;> rw [hp] at hpi
      · exact hpi.2.2.2
      · exact hpi.2.2.2
      · exact hpi.elim
      · exact hpi.2.2
      · exact hpi.2
      · exact absurd hp hd
      · exact absurd hp hnt
    have hpi' : A3 c s1 → PI c p s1 s1.phase := by
      intro h3
      rw [hph1]
      cases hp : s.phase <;> rw [hp] at hpi
      · exact absurd hp hni
      · refine ⟨?_, ?_, h3, h4⟩
        · show s1.quality.hasStrongFor c = false
          rw [hq1]; exact hpi.1
        · show p ∉ (s1.getRound 0).prepared.senders
          rw [hP1]; exact hpi.2.1
      · exact hpi.elim
      · refine ⟨?_, h3, h4⟩
        show p ∈ (s1.getRound 0).prepared.senders → (s1.getRound 0).prepared.hasStrongFor c = false
        rw [hP1]; exact hpi.1
      · exact ⟨h3, h4⟩
      · exact absurd hp hd
      · exact absurd hp hnt
    have hsy : s1.phase = .commit → s1.phaseTimeoutElapsed now = true → ∀ h ∈ H, h ∈ (s1.getRound 0).committed.senders := by
      intro hc hel h hh
      rw [hph1] at hc
      have hel' : s.phaseTimeoutElapsed now = true := by
        unfold State.phaseTimeoutElapsed at hel ⊢
        rw [← hto1]; exact hel
      rw [hC1]
      rcases hsync (by rw [hc]; rfl) hel' h hh with h1 | ⟨_, h2⟩
      · rw [hc] at h1; exact hsub h h1
      · rw [← h2]; exact hxin
    obtain ⟨g, hcase⟩ := tryCommit_good hctx hpH now hs1 hph' h4 hpi' hsy
    have px := tryCommit_px hctx hpH now hs1 hph' hsy
    rcases hcase with ⟨heq, h3⟩ | hc | hdc
    · rw [heq]
      dsimp only
      by_cases hp : s.phase = .prepare
      · rw [if_pos (by simp [hph1, hp, hs1.round, hve])]
        rw [andThen_nil]
        refine SX.of_px (s := s) (after_tally_px (s := s) hctx hlen hpH now m hs1 hph1 hto1 hmono hx1 ?_ hsync)
          hph1 hto1 hcfg1 hconv hqn hjs
        rw [hph1, hp]; exact ⟨h3, h4⟩
      · rw [if_neg (by simp [hph1, hp])]
        exact SX.of_px (s := s) (PX.stay c now s1) hph1 hto1 hcfg1 hconv hqn hjs
    · have hne : (s1.tryCommit now 0).1.phase ≠ .prepare := by
        have := g.trans
        rw [hc] at this
        rcases this.from_commit with h | h | h <;> rw [h] <;> simp
      rw [if_neg (by simp [hne])]
      exact SX.of_px (s := s) px hph1 hto1 hcfg1 hconv hqn hjs
    · rw [if_neg (by simp [hdc])]
      exact SX.of_px (s := s) px hph1 hto1 hcfg1 hconv hqn hjs

theorem recvDecide_sx (hctx : Ctx t c H) (hlen : 2 ≤ c.length) {p : Pid} (hpH : p ∈ H) {s : State} (now : Int) (m : Msg)
    (hs : SInv t c H s) (hpi : PI c p s s.phase) (hni : s.phase ≠ .initial) (hnt : s.phase ≠ .terminated)
    (hm : Shape c m) (hmH : m.sender ∈ H) (hmp : m.phase = .decide) (hsync : SyncedM H s now m) :
    SX c now (some m) s (s.recvDecide now m) := by
  obtain ⟨D', hrecv, hD', hxin, hsub, hsup, _⟩ := hs.dec.receive m.sender hmH
  obtain ⟨j, hj, hjf⟩ := (shape_just hm).2.2.2 hmp
  have e1 : s.decision.receive s.tbl m.sender m.value = some D' := by
    rw [hs.tbl, hm.2.1]; exact hrecv
  unfold State.recvDecide
  rw [e1]
  dsimp only
  have hs1 : SInv t c H ({ s with decision := D' } : State) :=
    ⟨hs.tbl, hs.input, hs.round, hs.proposal, hs.rounds, hs.qt, hs.prep, hs.comm, hD', hs.term⟩
  have hmono : ∀ ph x, x ∈ sendersOf s ph → x ∈ sendersOf ({ s with decision := D' } : State) ph := by
    intro ph x hx
    cases ph
    case decide => exact hsub x hx
    all_goals exact hx
  have hx1 : m.sender ∈ sendersOf ({ s with decision := D' } : State) m.phase := by
    rw [hmp]; exact hxin
  have hconv : ∀ ph x, x ∈ sendersOf ({ s with decision := D' } : State) ph →
      x ∈ sendersOf s ph ∨ (∃ m', some m = some m' ∧ x = m'.sender ∧ ph = m'.phase) := by
    intro ph x hx
    cases ph
    case decide =>
      rcases hsup x hx with h | h
      · exact Or.inl h
      · exact Or.inr ⟨m, rfl, h, hmp.symm⟩
    all_goals exact Or.inl hx
  by_cases hd : s.phase = .decide
  · rw [if_neg (by simp [hd])]
    refine SX.of_px (s := s) (after_tally_px (s := s) hctx hlen hpH now m hs1 rfl rfl hmono hx1 ?_ hsync)
      rfl rfl rfl hconv (fun h => h) (fun h => h)
    show WPI c p _ s.phase
    rw [hd]; trivial
  · rw [if_pos (by simp [hd])]
    have hph' : s.phase = .quality ∨ s.phase = .prepare ∨ s.phase = .commit := by
      cases hp : s.phase <;> rw [hp] at hpi <;> simp_all [PI]
    rw [hm.2.1, hj]
    have hsk : State.skipToDecide ({ s with decision := D' } : State) c (some j) =
        (afterSkip s D' c, [.progress s.round .decide, .broadcast 0 .decide c false (some j)]) := rfl
    rw [hsk, andThen_ok _ _ rfl]
    dsimp only
    have hs2 : SInv t c H (afterSkip s D' c) := hs1.core (by core_rfl) rfl
    have htc : State.tryCurrentPhase (afterSkip s D' c) now = State.tryDecide (afterSkip s D' c) now := rfl
    rw [htc]
    have g2 := tryDecide_good (p := p) hctx now hs2 rfl
    have px2 := tryDecide_px hctx now hs2 rfl
    generalize State.tryDecide (afterSkip s D' c) now = r2 at g2 px2 ⊢
    obtain ⟨hb, _⟩ := g2.trans.from_decide
    obtain ⟨f1, _, f3, _⟩ := px2.tc.fields
    refine ⟨f1, ?_, ?_, ?_, ?_, ?_, ?_⟩
    · intro h
      have h' : r2.1.phase = s.phase := h
      exfalso
      rcases hb with hb | hb <;> rcases hph' with h1 | h1 | h1 <;> (rw [hb, h1] at h'; cases h')
    · intro _ h
      have h' : r2.1.phase = .prepare := h
      exfalso
      rcases hb with hb | hb <;> (rw [hb] at h'; cases h')
    · intro _ h
      have h' : r2.1.phase = .commit := h
      exfalso
      rcases hb with hb | hb <;> (rw [hb] at h'; cases h')
    · intro ph x hx
      have hx' : x ∈ sendersOf r2.1 ph := hx
      rw [px2.tc.senders] at hx'
      exact hconv ph x (by cases ph <;> exact hx')
    · intro h
      show r2.1.quality.senders.Nodup
      rw [f3]; exact h
    · intro h
      exact JS.of_tc px2.tc h

/-! ## the three API calls -/

theorem step_recv_sx (hctx : Ctx t c H) (hlen : 2 ≤ c.length) {p : Pid} (hpH : p ∈ H) {s : State} (now : Int) (m : Msg)
    (hs : SInv t c H s) (hpi : PI c p s s.phase) (hni : s.phase ≠ .initial) (hnt : s.phase ≠ .terminated)
    (hm : Shape c m) (hmH : m.sender ∈ H) (hself : m.phase = .prepare → m.sender = p → s.phase ≠ .quality)
    (hsync : SyncedM H s now m) : SX c now (some m) s (step s (.recv now m)) := by
  have hpre := recvPre_accept hs hctx.cne hnt hm
  have key : ∀ r : R, (s.receiveOne now m).1 = r → Good t c H p s r → SX c now (some m) s r →
      SX c now (some m) s (step s (.recv now m)) := by
    intro r hr hg hx
    have : step s (.recv now m) = r := by
      rw [step_recv_eq s now m hnt (by rw [hr]; exact hg.nofail) (by rw [hr, hm.1]; exact Nat.zero_le _), hr]
    rw [this]; exact hx
  have hcases : m.phase = .quality ∨ m.phase = .prepare ∨ m.phase = .commit ∨ m.phase = .decide := by
    have hsh := hm.2.2.2.2
    cases hmp : m.phase <;> rw [hmp] at hsh <;> simp_all
  rcases hcases with hmp | hmp | hmp | hmp
  · exact key _ (by unfold State.receiveOne; rw [hpre, hmp]) (recvQuality_good hctx hpH now m hs hpi hni hm hmp hsync).1
      (recvQuality_sx hctx hlen hpH now m hs hpi hm hmp hsync)
  · exact key _ (by unfold State.receiveOne; rw [hpre, hmp])
      (recvPrepare_good hctx hpH now m hs hpi hni hm hmH hmp (hself hmp) hsync).1
      (recvPrepare_sx hctx hlen hpH now m hs hpi hni hm hmH hmp (hself hmp) hsync)
  · exact key _ (by unfold State.receiveOne; rw [hpre, hmp])
      (recvCommit_good hctx hpH now m hs hpi hni hnt hm hmH hmp hsync).1
      (recvCommit_sx hctx hlen hpH now m hs hpi hni hnt hm hmH hmp hsync)
  · exact key _ (by unfold State.receiveOne; rw [hpre, hmp])
      (recvDecide_good hctx hpH now m hs hpi hni hnt hm hmH hmp hsync).1
      (recvDecide_sx hctx hlen hpH now m hs hpi hni hnt hm hmH hmp hsync)

theorem step_alarm_sx (hctx : Ctx t c H) (hlen : 2 ≤ c.length) {p : Pid} (hpH : p ∈ H) {s : State} (now : Int)
    (hs : SInv t c H s) (hpi : PI c p s s.phase) (hni : s.phase ≠ .initial) (hsync : Synced H s now) :
    SX c now none s (step s (.alarm now)) :=
  SX.of_px (s := s) (s1 := s) (tryCurrentPhase_px hctx hlen hpH now hs (hpi.weak hni) hsync) rfl rfl rfl
    (fun _ _ hx => Or.inl hx) (fun h => h) (fun h => h)

theorem step_start_sx {s : State} (now : Int) (hph : s.phase = .initial) :
    SX c now none s (step s (.start now)) ∧ (step s (.start now)).1.phaseTimeout = now + s.cfg.qualityTimeout2 := by
  show SX c now none s (s.beginQuality now) ∧ (s.beginQuality now).1.phaseTimeout = now + s.cfg.qualityTimeout2
  unfold State.beginQuality
  rw [if_neg (by simp [hph])]
  unfold State.alarmAfter State.resetReb
  dsimp only
  refine ⟨⟨rfl, ?_, ?_, ?_, ?_, fun h => h, fun h => h⟩, rfl⟩
  · intro h
    have h' : Phase.quality = s.phase := h
    rw [hph] at h'; cases h'
  · intro h; rw [hph] at h; cases h
  · intro h; rw [hph] at h; cases h
  · intro ph x hx
    left
    cases ph <;> exact hx

end

end F3.Sync
