import F3.Model.Validator
import F3.Spec.ValidMsg
import F3.Props.C08
/-!
Rule-by-rule equivalences between the executable checks of `F3.Validator` (loops, table look-ups,
generated quorum predicate) and the declarative clauses of `F3.Spec.ValidMsg`.
-/
namespace F3.Validator
open F3.Msg F3.Spec.ValidMsg

/-! ### chains -/

theorem tipValid_iff (t : Tip) : tipValid t = true ↔ tipOK t := by
  unfold tipValid tipOK
  simp only [Bool.and_eq_true, decide_eq_true_eq]
  omega

theorem epochsOk_iff (last : Int) (c : Chain) :
    epochsOk last c = true ↔
      (∀ t ∈ c, tipOK t ∧ last < t.epoch) ∧ c.Pairwise (fun a b => a.epoch < b.epoch) := by
  induction c generalizing last with
  | nil => simp [epochsOk]
  | cons t ts ih =>
    simp only [epochsOk, Bool.and_eq_true, decide_eq_true_eq, tipValid_iff, ih, List.mem_cons,
      forall_eq_or_imp, List.pairwise_cons]
    constructor
    · rintro ⟨⟨h1, h2⟩, h3, h4⟩
      refine ⟨⟨⟨h1, h2⟩, fun a ha => ⟨(h3 a ha).1, ?_⟩⟩, fun a ha => (h3 a ha).2, h4⟩
      have := (h3 a ha).2
      omega
    · rintro ⟨⟨⟨h1, h2⟩, h3⟩, h4, h5⟩
      exact ⟨⟨h1, h2⟩, fun a ha => ⟨(h3 a ha).1, h4 a ha⟩, h5⟩

/-- `ECChain.Validate` accepts exactly the well-formed values. -/
theorem chainValid_iff (c : Chain) : chainValid c = true ↔ chainWF c := by
  unfold chainValid chainWF
  cases c with
  | nil => simp
  | cons t ts =>
    simp only [List.isEmpty_cons, Bool.false_or, Bool.and_eq_true, decide_eq_true_eq, epochsOk_iff]
    constructor
    · rintro ⟨h1, h2, h3⟩
      refine ⟨h1, fun a ha => ⟨(h2 a ha).1, ?_⟩, h3⟩
      have := (h2 a ha).2
      omega
    · rintro ⟨h1, h2, h3⟩
      refine ⟨h1, fun a ha => ⟨(h2 a ha).1, ?_⟩, h3⟩
      have := (h2 a ha).2
      omega

/-! ### committee look-up -/

theorem findEntry_some {es : List Entry} {id : Nat} {e : Entry} (h : findEntry es id = some e) :
    e ∈ es ∧ e.id = id := by
  induction es with
  | nil => simp [findEntry] at h
  | cons x t ih =>
    unfold findEntry at h
    split at h
    · cases h
      exact ⟨List.mem_cons_self, by assumption⟩
    · exact ⟨List.mem_cons_of_mem _ (ih h).1, (ih h).2⟩

theorem findEntry_none {es : List Entry} {id : Nat} (h : findEntry es id = none) :
    ∀ e ∈ es, e.id ≠ id := by
  induction es with
  | nil => simp
  | cons x t ih =>
    unfold findEntry at h
    split at h
    · cases h
    · rename_i hx
      intro e he
      rcases List.mem_cons.mp he with h1 | h1
      · subst h1; exact hx
      · exact ih h e h1

/-- Actor ids of a power table are unique (`PowerTable.Add` / `Validate` enforce it). -/
def Committee.uniqueIds (c : Committee) : Prop := (c.entries.map (·.id)).Nodup

theorem findEntry_of_mem {es : List Entry} (hu : (es.map (·.id)).Nodup) {e : Entry} (he : e ∈ es) :
    findEntry es e.id = some e := by
  induction es with
  | nil => simp at he
  | cons x t ih =>
    simp only [List.map_cons, List.nodup_cons, List.mem_map, not_exists, not_and] at hu
    unfold findEntry
    rcases List.mem_cons.mp he with h1 | h1
    · subst h1; simp
    · have hne : x.id ≠ e.id := fun hx => hu.1 e h1 hx.symm
      simp only [hne, if_false]
      exact ih hu.2 h1

/-! ### signers and quorum -/

theorem signersPower_iff (c : Committee) (l : List Nat) (p : Nat) :
    signersPower c l = some p ↔
      (∀ i ∈ l, i < c.entries.length ∧ 0 < powerAt c i) ∧ p = sumNat (l.map (powerAt c)) := by
  induction l generalizing p with
  | nil => simp [signersPower, sumNat, eq_comm]
  | cons i is ih =>
    unfold signersPower
    cases hi : c.entries[i]? with
    | none =>
      simp only [List.mem_cons, forall_eq_or_imp, false_iff, reduceCtorEq]
      rintro ⟨⟨h1, _⟩, _⟩
      have := List.getElem?_eq_none_iff.mp hi
      omega
    | some e =>
      have hlt : i < c.entries.length := by
        rcases Nat.lt_or_ge i c.entries.length with h | h
        · exact h
        · have := List.getElem?_eq_none_iff.mpr h
          rw [this] at hi; cases hi
      have hpw : powerAt c i = e.power := by simp [powerAt, hi]
      simp only
      by_cases hz : e.power = 0
      · simp only [hz, if_true, List.mem_cons, forall_eq_or_imp, false_iff, reduceCtorEq]
        rintro ⟨⟨_, h2⟩, _⟩
        omega
      · simp only [hz, if_false, List.mem_cons, forall_eq_or_imp, List.map_cons, sumNat]
        cases hrest : signersPower c is with
        | none =>
          simp only [Option.map_none, false_iff, reduceCtorEq]
          rintro ⟨⟨_, h2⟩, _⟩
          have := (ih (sumNat (is.map (powerAt c)))).mpr ⟨h2, rfl⟩
          rw [hrest] at this; cases this
        | some q =>
          have hq := (ih q).mp hrest
          simp only [Option.map_some, Option.some.injEq]
          constructor
          · intro h
            refine ⟨⟨⟨hlt, by omega⟩, hq.1⟩, ?_⟩
            rw [← h, hq.2, hpw]
          · rintro ⟨_, h⟩
            rw [h, hq.2, hpw]

theorem total_nonneg (c : Committee) : (0 : Int) ≤ (c.total : Int) := Int.natCast_nonneg _

/-- The generated `IsStrongQuorum` is the specification's two-thirds rule (C08 `strong_iff`). -/
theorem isStrongQuorum_iff_spec (p w : Nat) :
    F3.Gen.isStrongQuorum (p : Int) (w : Int) = true ↔
      F3.Spec.Quorum.strong (Int.ofNat p) (Int.ofNat w) = true := by
  rw [F3.Props.C08.strong_iff _ _ (Int.natCast_nonneg w)]
  simp [F3.Spec.Quorum.strong]

theorem pubAt_eq (c : Committee) (i : Nat) : c.pubAt i = F3.Spec.ValidMsg.pubAt c i := rfl

/-- `validateJustificationSignature` = strong signers + aggregate over the payload with key `ek`
(signers additionally ascending, which a bit set's iteration order guarantees). -/
theorem sigJust_iff (cfg : Cfg) (c : Committee) (j : Just) (ek : VKey)
    (hsorted : j.signers.Pairwise (· < ·)) :
    sigJust cfg c j ek = true ↔
      strongSigners c j.signers ∧
        j.agg = Agg.tok (j.signers.map (fun i => (i, F3.Spec.ValidMsg.pubAt c i)))
          (SigMsg.vote cfg.net j.vote.inst j.vote.round j.vote.phase j.vote.supp ek) := by
  unfold sigJust strongSigners
  cases hp : signersPower c j.signers with
  | none =>
    simp only [false_iff, reduceCtorEq, not_and, Bool.false_eq_true]
    rintro ⟨_, h1, _⟩
    have := (signersPower_iff c j.signers _).mpr ⟨h1, rfl⟩
    rw [hp] at this; cases this
  | some p =>
    have hq := (signersPower_iff c j.signers p).mp hp
    simp only [Bool.and_eq_true, beq_iff_eq, isStrongQuorum_iff_spec, votePayload]
    rw [hq.2]
    constructor
    · rintro ⟨h1, h2⟩
      exact ⟨⟨hsorted, hq.1, h1⟩, h2⟩
    · rintro ⟨⟨_, _, h1⟩, h2⟩
      exact ⟨h1, h2⟩

end F3.Validator
