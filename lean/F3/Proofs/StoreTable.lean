import F3.Model.Store
import F3.Spec.Store
/-! Laws of the power-table arithmetic used by the store proofs: canonical tables, the map/array
round trip and "folding single deltas = applying all deltas at once". -/
namespace F3.Store

/-- Canonical map representation: strictly increasing ids. -/
def IdSorted (m : PMap) : Prop := m.Pairwise (fun a b => a.id < b.id)

theorem mem_pmInsert {m : PMap} {e x : Entry} (h : x ∈ pmInsert m e) : x = e ∨ x ∈ m := by
  induction m with
  | nil => simp [pmInsert] at h; exact Or.inl h
  | cons y r ih =>
    unfold pmInsert at h
    split at h
    · simp only [List.mem_cons] at h ⊢
      rcases h with h | h | h
      · exact Or.inl h
      · exact Or.inr (Or.inl h)
      · exact Or.inr (Or.inr h)
    · split at h
      · simp only [List.mem_cons] at h ⊢
        rcases h with h | h
        · exact Or.inl h
        · exact Or.inr (Or.inr h)
      · simp only [List.mem_cons] at h ⊢
        rcases h with h | h
        · exact Or.inr (Or.inl h)
        · rcases ih h with h | h
          · exact Or.inl h
          · exact Or.inr (Or.inr h)

theorem idSorted_pmInsert {m : PMap} (hm : IdSorted m) (e : Entry) : IdSorted (pmInsert m e) := by
  induction m with
  | nil => simp [pmInsert, IdSorted]
  | cons y r ih =>
    unfold IdSorted at hm ih ⊢
    rw [List.pairwise_cons] at hm
    obtain ⟨hy, hr⟩ := hm
    unfold pmInsert
    split
    · rename_i hlt
      refine List.pairwise_cons.2 ⟨?_, List.pairwise_cons.2 ⟨hy, hr⟩⟩
      intro x hx
      rcases List.mem_cons.1 hx with h | h
      · subst h; exact hlt
      · exact Nat.lt_trans hlt (hy x h)
    · split
      · rename_i _ heq
        refine List.pairwise_cons.2 ⟨?_, hr⟩
        intro x hx
        rw [heq]; exact hy x hx
      · rename_i hnlt hne
        refine List.pairwise_cons.2 ⟨?_, ih hr⟩
        intro x hx
        rcases mem_pmInsert hx with h | h
        · subst h; omega
        · exact hy x h

theorem pmErase_sublist (m : PMap) (i : Nat) : (pmErase m i).Sublist m := by
  induction m with
  | nil => exact List.Sublist.refl _
  | cons y r ih =>
    unfold pmErase
    split
    · exact List.sublist_cons_self _ _
    · exact ih.cons₂ _

theorem idSorted_pmErase {m : PMap} (hm : IdSorted m) (i : Nat) : IdSorted (pmErase m i) :=
  List.Pairwise.sublist (pmErase_sublist m i) hm

theorem idSorted_finishEntry {m m' : PMap} {pe : Entry} (hm : IdSorted m) (h : finishEntry m pe = .ok m') :
    IdSorted m' := by
  unfold finishEntry at h
  split at h
  · cases h; exact idSorted_pmErase hm _
  · split at h
    · cases h; exact idSorted_pmInsert hm _
    · cases h

theorem idSorted_applyDelta {m m' : PMap} {d : Delta} (hm : IdSorted m) (h : applyDelta m d = .ok m') :
    IdSorted m' := by
  unfold applyDelta at h
  split at h
  · cases h
  · split at h
    · split at h
      · cases h
      · split at h
        · cases h
        · exact idSorted_finishEntry hm h
    · split at h
      · cases h
      · split at h
        · cases h
        · exact idSorted_finishEntry hm h

theorem idSorted_applyDiffFrom {m m' : PMap} {last : Option Nat} {d : Diff} (hm : IdSorted m)
    (h : applyDiffFrom m last d = .ok m') : IdSorted m' := by
  induction d generalizing m last with
  | nil => simp [applyDiffFrom] at h; cases h; exact hm
  | cons x r ih =>
    unfold applyDiffFrom at h
    by_cases hc : outOfOrder last x.id = true
    · simp only [hc, if_true] at h; cases h
    · simp only [hc] at h
      cases h1 : applyDelta m x with
      | error e => rw [h1] at h; cases h
      | ok m1 => rw [h1] at h; exact ih (idSorted_applyDelta hm h1) h

theorem idSorted_applyDiffMap {m m' : PMap} {d : Diff} (hm : IdSorted m) (h : applyDiffMap m d = .ok m') :
    IdSorted m' := idSorted_applyDiffFrom hm h

theorem idSorted_applyDiffsMap {m m' : PMap} {ds : List Diff} (hm : IdSorted m) (h : applyDiffsMap m ds = .ok m') :
    IdSorted m' := by
  induction ds generalizing m with
  | nil => simp [applyDiffsMap] at h; cases h; exact hm
  | cons d r ih =>
    unfold applyDiffsMap at h
    split at h
    · cases h
    · rename_i m1 h1
      exact ih (idSorted_applyDiffMap hm h1) h

/-! ### map/array round trip -/

theorem pmInsert_perm_of_not_mem {m : PMap} {e : Entry} (h : ∀ x ∈ m, x.id ≠ e.id) :
    (pmInsert m e).Perm (e :: m) := by
  induction m with
  | nil => simp [pmInsert]
  | cons y r ih =>
    unfold pmInsert
    split
    · exact List.Perm.refl _
    · split
      · rename_i heq
        exact absurd heq.symm (h y (List.mem_cons_self ..))
      · have := ih (fun x hx => h x (List.mem_cons_of_mem _ hx))
        exact (List.Perm.cons y this).trans (List.Perm.swap e y r)

theorem toMap_aux (l : List Entry) (acc : PMap) (hacc : IdSorted acc)
    (hl : l.Pairwise (fun a b => a.id ≠ b.id)) (hd : ∀ x ∈ l, ∀ y ∈ acc, y.id ≠ x.id) :
    IdSorted (l.foldl pmInsert acc) ∧ (l.foldl pmInsert acc).Perm (l ++ acc) := by
  induction l generalizing acc with
  | nil => exact ⟨hacc, List.Perm.refl _⟩
  | cons e r ih =>
    rw [List.pairwise_cons] at hl
    have hp := pmInsert_perm_of_not_mem (m := acc) (e := e) (fun y hy => hd e (List.mem_cons_self ..) y hy)
    have := ih (pmInsert acc e) (idSorted_pmInsert hacc e) hl.2 (by
      intro x hx y hy
      rcases mem_pmInsert hy with h | h
      · subst h; exact (hl.1 x hx)
      · exact hd x (List.mem_cons_of_mem _ hx) y h)
    refine ⟨this.1, this.2.trans ?_⟩
    simp only [List.cons_append]
    exact (List.Perm.append_left r hp).trans (List.perm_middle)

theorem idSorted_eq_of_perm {a b : PMap} (ha : IdSorted a) (hb : IdSorted b) (h : a.Perm b) : a = b :=
  @List.Perm.eq_of_pairwise _ (fun x y : Entry => x.id < y.id) a b
    (fun _ _ _ _ h1 h2 => absurd h1 (Nat.lt_asymm h2)) ha hb h

theorem idSorted_ne {m : PMap} (hm : IdSorted m) : m.Pairwise (fun a b => a.id ≠ b.id) :=
  List.Pairwise.imp (fun h => Nat.ne_of_lt h) hm

/-- `toMap` of any arrangement of a canonical map gives the map back. -/
theorem toMap_of_perm {m : PMap} (hm : IdSorted m) {l : List Entry} (hl : l.Perm m) : toMap l = m := by
  have hne : l.Pairwise (fun a b => a.id ≠ b.id) :=
    (List.Perm.pairwise_iff (fun {a b} (h : a.id ≠ b.id) => fun e => h e.symm) hl.symm).1 (idSorted_ne hm) |> id
  have := toMap_aux l [] (by simp [IdSorted]) hne (by simp)
  unfold toMap
  refine idSorted_eq_of_perm this.1 hm ?_
  have h2 := this.2
  rw [List.append_nil] at h2
  exact h2.trans hl

theorem insertEntry_perm (e : Entry) (l : Table) : (insertEntry e l).Perm (e :: l) := by
  induction l with
  | nil => exact List.Perm.refl _
  | cons x r ih =>
    unfold insertEntry
    split
    · exact List.Perm.refl _
    · exact (List.Perm.cons x ih).trans (List.Perm.swap e x r)

theorem toArray_perm (m : PMap) : (toArray m).Perm m := by
  induction m with
  | nil => exact List.Perm.refl _
  | cons e r ih =>
    show (insertEntry e (toArray r)).Perm (e :: r)
    exact (insertEntry_perm e _).trans (List.Perm.cons e ih)

theorem toMap_toArray {m : PMap} (hm : IdSorted m) : toMap (toArray m) = m :=
  toMap_of_perm hm (toArray_perm m)

/-! ### canonical tables -/

/-- A canonical power table: what `PowerTableMapToArray` produces from a duplicate-free map. -/
def Canon (t : Table) : Prop := ∃ m, IdSorted m ∧ t = toArray m

theorem toArray_nil : toArray [] = [] := by simp [toArray]

theorem canon_nil : Canon [] := ⟨[], by simp [IdSorted], toArray_nil.symm⟩

/-- On canonical tables the store's per-certificate step is the map-level application of the delta. -/
theorem tableStep_canon {m : PMap} (hm : IdSorted m) (d : Diff) :
    tableStep (toArray m) d = (match applyDiffMap m d with | .ok m' => .ok (toArray m') | .error e => .error e) := by
  unfold tableStep
  split
  · rename_i h; subst h
    simp [applyDiffMap, applyDiffFrom]
  · unfold applyDiffs
    rw [toMap_toArray hm]
    unfold applyDiffsMap
    cases applyDiffMap m d <;> simp [applyDiffsMap]

theorem applyDiffs_canon_eq {m : PMap} (hm : IdSorted m) (ds : List Diff) :
    applyDiffs (toArray m) ds = (match applyDiffsMap m ds with | .ok m' => .ok (toArray m') | .error e => .error e) := by
  unfold applyDiffs; rw [toMap_toArray hm]
  cases applyDiffsMap m ds <;> rfl

theorem canon_tableStep {t t' : Table} {d : Diff} (ht : Canon t) (h : tableStep t d = .ok t') : Canon t' := by
  obtain ⟨m, hm, rfl⟩ := ht
  rw [tableStep_canon hm] at h
  split at h
  · rename_i m' hm'
    cases h
    exact ⟨m', idSorted_applyDiffMap hm hm', rfl⟩
  · cases h

/-- Folding single certificate steps from a canonical table = `ApplyPowerTableDiffs` with all the
deltas at once (as options: both fail together). -/
theorem foldTables_eq_applyDiffs {m : PMap} (hm : IdSorted m) (cs : List Cert) :
    Spec.foldTables (toArray m) cs =
      (match applyDiffs (toArray m) (cs.map (·.delta)) with | .ok t => some t | .error _ => none) := by
  induction cs generalizing m with
  | nil =>
    simp [Spec.foldTables, applyDiffs_canon_eq hm, applyDiffsMap]
  | cons c r ih =>
    simp only [Spec.foldTables, List.foldl_cons, List.map_cons] at ih ⊢
    rw [applyDiffs_canon_eq hm]
    unfold applyDiffsMap
    unfold Spec.stepOpt
    simp only
    rw [tableStep_canon hm]
    cases hd : applyDiffMap m c.delta with
    | error e =>
      simp only
      -- all later steps stay `none`
      have : ∀ l : List Cert, List.foldl Spec.stepOpt none l = none := by
        intro l; induction l with
        | nil => rfl
        | cons x xs ihx => simpa [Spec.stepOpt] using ihx
      exact this r
    | ok m' =>
      simp only
      have := ih (idSorted_applyDiffMap hm hd)
      rw [applyDiffs_canon_eq (idSorted_applyDiffMap hm hd)] at this
      exact this

theorem foldTables_none (l : List Cert) : List.foldl Spec.stepOpt none l = none := by
  induction l with
  | nil => rfl
  | cons x xs ih => simpa [Spec.stepOpt] using ih

theorem foldTables_append (t : Table) (a b : List Cert) :
    Spec.foldTables t (a ++ b) = (match Spec.foldTables t a with | some t' => Spec.foldTables t' b | none => none) := by
  unfold Spec.foldTables
  rw [List.foldl_append]
  cases List.foldl Spec.stepOpt (some t) a with
  | none => simp [foldTables_none]
  | some t' => rfl

theorem canon_foldTables {t t' : Table} (ht : Canon t) {cs : List Cert} (h : Spec.foldTables t cs = some t') : Canon t' := by
  induction cs generalizing t with
  | nil => simp [Spec.foldTables] at h; cases h; exact ht
  | cons c r ih =>
    simp only [Spec.foldTables, List.foldl_cons] at h
    cases hs : tableStep t c.delta with
    | error e =>
      have h0 : Spec.stepOpt (some t) c = none := by simp [Spec.stepOpt, hs]
      rw [h0, foldTables_none] at h; cases h
    | ok t1 =>
      have h0 : Spec.stepOpt (some t) c = some t1 := by simp [Spec.stepOpt, hs]
      rw [h0] at h
      exact ih (canon_tableStep ht hs) h

end F3.Store

namespace F3.Store

/-! ### `toArray` really sorts -/

theorem entryLe_iff (a b : Entry) : entryLe a b = true ↔ (b.power < a.power ∨ (a.power = b.power ∧ a.id ≤ b.id)) := by
  simp [entryLe]

theorem entryLe_total (a b : Entry) : entryLe a b = true ∨ entryLe b a = true := by
  rw [entryLe_iff, entryLe_iff]; omega

theorem entryLe_trans {a b c : Entry} (h1 : entryLe a b = true) (h2 : entryLe b c = true) : entryLe a c = true := by
  rw [entryLe_iff] at *; omega

theorem insertEntry_sorted (e : Entry) {l : Table} (h : l.Pairwise (fun a b => entryLe a b = true)) :
    (insertEntry e l).Pairwise (fun a b => entryLe a b = true) := by
  induction l with
  | nil => simp [insertEntry]
  | cons x r ih =>
    rw [List.pairwise_cons] at h
    unfold insertEntry
    split
    · rename_i hle
      refine List.pairwise_cons.2 ⟨?_, List.pairwise_cons.2 h⟩
      intro y hy
      rcases List.mem_cons.1 hy with rfl | hy
      · exact hle
      · exact entryLe_trans hle (h.1 y hy)
    · rename_i hnle
      refine List.pairwise_cons.2 ⟨?_, ih h.2⟩
      intro y hy
      rcases List.mem_cons.1 ((insertEntry_perm e r).mem_iff.1 hy) with rfl | hy
      · rcases entryLe_total y x with h' | h'
        · exact absurd h' hnle
        · exact h'
      · exact h.1 y hy

/-- The array handed out for a map is ordered by power descending, then id ascending. -/
theorem toArray_sorted (m : PMap) : (toArray m).Pairwise (fun a b => entryLe a b = true) := by
  induction m with
  | nil => simp [toArray]
  | cons e r ih => exact insertEntry_sorted e ih

end F3.Store
