import F3.Proofs.EmittedValidParticipant
import F3.Proofs.MultiParticipantProj
/-!
# The run-level theorems of `F3.EmittedValid`, per instance of a multi-instance participant run (`mprun`)

`instance_projection` (`F3.Proofs.MultiParticipantProj`): in a `forwardOnly` run of the multi-instance participant, the
effects tagged `k` are those of the single-instance participant run
`prun order_k (pinit cfg tbl_k input_k) (opsOf cfg c0 k ops)` — power table, proposal and drain order being what the host
supplied to the alarm that began instance `k`. Every instance has its own table, proposal and evidence set: the
hypothesis on deliveries is per instance (`MPOpK k`: the messages *addressed to instance `k`* are `PMsgOK W_k tbl_k`),
and says nothing about messages of other instances.

Core-only.
-/
namespace F3.EmittedValid
open F3.Instance

/-- the delivery, if it is addressed to instance `k`, satisfies `P` -/
def MPOpK (k : Nat) (P : Msg → Prop) : MPOp → Prop
  | .recv _ m => m.inst = k → P m.msg
  | _ => True

theorem sel_PK (P : Msg → Prop) (k : Nat) (s : MState) (op : MPOp) (h : MPOpK k P op) :
    ∀ o ∈ sel k s op, POpP P o := by
  intro o ho
  cases op with
  | recv now m =>
    simp only [sel] at ho
    split at ho
    · rename_i hc
      simp only [Bool.and_eq_true, beq_iff_eq] at hc
      simp only [List.mem_singleton] at ho
      subst ho; exact h hc.1
    · cases ho
  | alarm now tbl input order =>
    simp only [sel] at ho
    split at ho
    · simp only [List.mem_singleton] at ho
      subst ho; trivial
    · cases ho
  | startAt j => cases ho

theorem opsOfFrom_PK (P : Msg → Prop) (k : Nat) (s : MState) (ops : List MPOp) (h : ∀ op ∈ ops, MPOpK k P op) :
    ∀ o ∈ opsOfFrom k s ops, POpP P o := by
  induction ops generalizing s with
  | nil => intro o ho; cases ho
  | cons op ops ih =>
    intro o ho
    simp only [opsOfFrom, List.mem_append] at ho
    rcases ho with ho | ho
    · exact sel_PK P k s op (h op List.mem_cons_self) o ho
    · exact ih _ (fun op' hop' => h op' (List.mem_cons_of_mem _ hop')) o ho

/-- if every delivery of the run addressed to instance `k` satisfies `P`, so does every call that concerns `k` -/
theorem opsOf_PK (P : Msg → Prop) (cfg : Cfg) (c0 k : Nat) (ops : List MPOp) (h : ∀ op ∈ ops, MPOpK k P op) :
    ∀ o ∈ opsOf cfg c0 k ops, POpP P o := opsOfFrom_PK P k _ ops h

section
variable (cfg : Cfg) (c0 : Nat) (ops : List MPOp) (k : Nat) (tbl : Table) (input : Chain) (order : List Pid)
  (W : Votes)

/-- **`emitted_shapes`, per instance.** -/
theorem mprun_shaped (p : Pid) (hfw : forwardOnly (minit cfg c0) ops = true)
    (hbeg : begunWith cfg c0 k ops = some (tbl, input, order)) (hin : input ≠ []) (hT : 0 < tbl.total)
    (hvalid : ∀ op ∈ ops, MPOpK k (PMsgOK W tbl) op)
    (hown : ∀ r ph v tk j, (k, Eff.broadcast r ph v tk j) ∈ (mprun (minit cfg c0) ops).2 → W p r ph v) :
    Shaped W tbl (effsOf k (mprun (minit cfg c0) ops).2) := by
  have hp := (instance_projection cfg c0 ops k tbl input order hfw hbeg).1
  have hown' : OwnIn W p (prun order (pinit cfg tbl input) (opsOf cfg c0 k ops)).2 := by
    intro r ph v tk j hm
    rw [← hp, mem_effsOf] at hm
    exact hown r ph v tk j hm
  rw [hp]
  exact prun_shaped cfg tbl input W p order _ hin hT (opsOf_PK _ cfg c0 k ops hvalid) hown'

/-- **`emitted_valid`, per instance of a multi-instance run.** -/
theorem emitted_valid_mprun (p : Pid) (hfw : forwardOnly (minit cfg c0) ops = true)
    (hbeg : begunWith cfg c0 k ops = some (tbl, input, order)) (hin : input ≠ []) (hT : 0 < tbl.total)
    (hpos : 0 < tbl.power p) (hvalid : ∀ op ∈ ops, MPOpK k (PMsgOK W tbl) op)
    (hown : ∀ r ph v tk j, (k, Eff.broadcast r ph v tk j) ∈ (mprun (minit cfg c0) ops).2 → W p r ph v) :
    ∀ r ph v tk j, (k, Eff.broadcast r ph v tk j) ∈ (mprun (minit cfg c0) ops).2 →
      MsgValid W tbl (msgOf p r ph v j) := fun r ph v tk j hm =>
  msgValid_of_shape (hown r ph v tk j hm) hpos
    (mprun_shaped cfg c0 ops k tbl input order W p hfw hbeg hin hT hvalid hown r ph v tk j
      ((mem_effsOf k _ _).2 hm))

/-- **The wire, per instance**: what instance `k` sent or re-sent (rebroadcast requests expanded against the broadcasts
of instance `k` so far) is valid. -/
theorem wire_valid_mprun (p : Pid) (hfw : forwardOnly (minit cfg c0) ops = true)
    (hbeg : begunWith cfg c0 k ops = some (tbl, input, order)) (hin : input ≠ []) (hT : 0 < tbl.total)
    (hpos : 0 < tbl.power p) (hvalid : ∀ op ∈ ops, MPOpK k (PMsgOK W tbl) op)
    (hown : ∀ r ph v tk j, (k, Eff.broadcast r ph v tk j) ∈ (mprun (minit cfg c0) ops).2 → W p r ph v) :
    ∀ m ∈ wireOf p (effsOf k (mprun (minit cfg c0) ops).2), MsgValid W tbl m := by
  intro m hm
  obtain ⟨r, ph, v, tk, j, he, rfl⟩ := mem_wireOf hm
  exact emitted_valid_mprun cfg c0 ops k tbl input order W p hfw hbeg hin hT hpos hvalid hown r ph v tk j
    ((mem_effsOf k _ _).1 he)

/-- **The round-0 PREPARE value, per instance**: over the QUALITY votes counted by instance `k` — those among the calls
that concern `k` (`opsOf`), queued ones from the drain on. -/
theorem prepare0_mprun (hfw : forwardOnly (minit cfg c0) ops = true)
    (hbeg : begunWith cfg c0 k ops = some (tbl, input, order)) (hin : input ≠ []) (hT : 0 < tbl.total)
    (hvalid : ∀ op ∈ ops, MPOpK k (PMsgOK W tbl) op) (r : Nat) (v : Chain) (tk : Bool)
    (hm : (k, Eff.broadcast r .prepare v tk none) ∈ (mprun (minit cfg c0) ops).2) :
    r = 0 ∧ v = (qTally tbl (pvotesQ order (pinit cfg tbl input) (opsOf cfg c0 k ops))).longestPrefixWithQuorum input := by
  have hp := (instance_projection cfg c0 ops k tbl input order hfw hbeg).1
  have hm' : Eff.broadcast r .prepare v tk none ∈ (prun order (pinit cfg tbl input) (opsOf cfg c0 k ops)).2 := by
    rw [← hp, mem_effsOf]; exact hm
  obtain ⟨h1, _, _, h4⟩ := prepare0_prun cfg tbl input W order _ hin hT (opsOf_PK _ cfg c0 k ops hvalid) r v tk hm'
  exact ⟨h1, h4⟩

/-- **Completeness of the candidates, per instance**: while instance `k` is the current one, of its running
instance. -/
theorem candidates_complete_mprun (hfw : forwardOnly (minit cfg c0) ops = true)
    (hbeg : begunWith cfg c0 k ops = some (tbl, input, order)) (hin : input ≠ []) (hT : 0 < tbl.total)
    (hvalid : ∀ op ∈ ops, MPOpK k (PMsgOK W tbl) op)
    (hcur : (mprun (minit cfg c0) ops).1.cur = k) :
    ∃ p, (mprun (minit cfg c0) ops).1.active = some p ∧
      (p.inst.phase = .converge ∨ p.inst.phase = .prepare ∨ p.inst.phase = .commit →
        ∀ x, x ≠ [] → x <+: p.inst.quality.longestPrefixWithQuorum input → p.inst.isCandidate x = true) ∧
      (∀ r v tk, (k, Eff.broadcast r .prepare v tk none) ∈ (mprun (minit cfg c0) ops).2 →
        ∀ x, x ≠ [] → x <+: v → p.inst.isCandidate x = true) := by
  obtain ⟨hp, _, hact, _⟩ := instance_projection cfg c0 ops k tbl input order hfw hbeg
  obtain ⟨h1, h2⟩ := candidates_complete_prun cfg tbl input W order _ hin hT (opsOf_PK _ cfg c0 k ops hvalid)
  refine ⟨_, hact hcur, h1, fun r v tk hm => h2 r v tk ?_⟩
  rw [← hp, mem_effsOf]; exact hm

/-- **The best ticket is adopted, per instance**: at an alarm of the multi-instance participant while instance `k` is
current and in CONVERGE with the timeout elapsed (whatever the host would supply for a beginning, it is not asked). -/
theorem converge_adopts_best_ticket_mprun (hfw : forwardOnly (minit cfg c0) ops = true)
    (hbeg : begunWith cfg c0 k ops = some (tbl, input, order)) (hin : input ≠ []) (hT : 0 < tbl.total)
    (hvalid : ∀ op ∈ ops, MPOpK k (PMsgOK W tbl) op)
    (hcur : (mprun (minit cfg c0) ops).1.cur = k) (p : PState)
    (hact : (mprun (minit cfg c0) ops).1.active = some p) (now : Int) (b : ConvVal)
    (hph : p.inst.phase = .converge) (hto : p.inst.phaseTimeoutElapsed now = true)
    (hb : (p.inst.getRound p.inst.round).converged.findBest (fun _ => true) = some b)
    (hpre : b.chain <+: p.inst.quality.longestPrefixWithQuorum input ∨
      ∃ r v tk, (k, Eff.broadcast r .prepare v tk none) ∈ (mprun (minit cfg c0) ops).2 ∧ b.chain <+: v)
    (tbl' : Table) (input' : Chain) (order' : List Pid) :
    Eff.broadcast p.inst.round .prepare b.chain false (some b.just) ∈
      (mpstep (mprun (minit cfg c0) ops).1 (.alarm now tbl' input' order')).2 := by
  obtain ⟨hp, _, hact', _⟩ := instance_projection cfg c0 ops k tbl input order hfw hbeg
  have hpe : p = (prun order (pinit cfg tbl input) (opsOf cfg c0 k ops)).1 := by
    have := hact' hcur
    rw [hact] at this
    exact Option.some.inj this
  have hpre' : b.chain <+: p.inst.quality.longestPrefixWithQuorum input ∨
      ∃ r v tk, Eff.broadcast r .prepare v tk none ∈ (prun order (pinit cfg tbl input) (opsOf cfg c0 k ops)).2 ∧
        b.chain <+: v := by
    rcases hpre with h | ⟨r, v, tk, hm, h⟩
    · exact Or.inl h
    · exact Or.inr ⟨r, v, tk, by rw [← hp, mem_effsOf]; exact hm, h⟩
  subst hpe
  have hst : (prun order (pinit cfg tbl input) (opsOf cfg c0 k ops)).1.started = true :=
    (prun_pcq cfg tbl input W order _ hin hT (opsOf_PK _ cfg c0 k ops hvalid)).started_of_phase (by rw [hph]; decide)
  have := converge_adopts_best_ticket_prun cfg tbl input W order _ hin hT (opsOf_PK _ cfg c0 k ops hvalid) now b
    hph hto hb hpre'
  rw [alarm_active_eq _ now tbl' input' order' _ hact, pstepWith_order_irrel order' order _ _ hst]
  exact this

end

end F3.EmittedValid
