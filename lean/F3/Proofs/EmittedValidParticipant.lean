import F3.Proofs.EmittedValidQuality
import F3.Proofs.NoFailureParticipant
import F3.Proofs.ParticipantInv
import F3.Proofs.MultiParticipantProj
/-!
# The run-level theorems of `F3.EmittedValid`, at the participant API (`pstepWith`, `prun`)

The instance-level theorems (`emitted_valid_run`, `run_cci`, `prepare0_run`, …) are about `run (init …) (Start :: ops)`.
The Go code is driven through `gpbft.Participant`: messages that arrive before the instance has begun are queued
(`messageQueue.Add`) and handed to the instance by `ReceiveMany` when it begins, in some map order; `ReceiveMany` is
*not* a sequence of `Receive` calls (the round skip is tried once, after all messages, for the highest round first).

* Part A — shapes: a participant run is a failure-free micro-run (`prun_micro`), and the shape lemmas of
  `F3.Proofs.EmittedValid` are per micro-step (`receiveOne_shaped`, `postReceive_shaped`, …): `mrun_shaped`,
  `prun_shaped`, `emitted_valid_prun`.
* Part B — wire level: `Eff.rebroadcast r ph` asks the host to re-send the own message of that slot; `wireOf` expands
  the requests against the broadcasts made so far; everything on the wire was broadcast (`mem_wireOf`), hence is valid.
* Part C — the QUALITY votes that count (`pvotesQ`: handed to the instance while it is in QUALITY — from the drain on,
  in drain order, for queued ones), the candidate set and the round-0 PREPARE value: `PCQ` is an invariant of
  participant runs (`prun_cq`); the drain is treated directly on the loop of `ReceiveMany` (`rmFold_cq`).

Core-only (no Mathlib), so that `F3.Props.C07` can import it. No global simp lemmas.
-/
namespace F3.EmittedValid
open F3.Instance

/-! ## Part A: shapes along micro-runs and participant runs -/

section Shapes
variable {W : Votes} {me : Pid}

theorem mstep_shaped {s : State} (op : MOp) (h : GInv W me s) (hq : DQ s) (hop : MOpOK (MsgValid W s.tbl) s op)
    (hown : OwnIn W me (mstep s op).2) : Shaped W s.tbl (mstep s op).2 := by
  cases op with
  | start now => exact step_shaped (me := me) (.start now) h hq trivial hown
  | alarm now => exact tryCurrentPhase_shaped now h
  | one now m => exact receiveOne_shaped now m h hop hown
  | post now r => exact postReceive_shaped now r h

/-- **Shapes along micro-runs.** -/
theorem mrun_shaped {s : State} (ops : List MOp) (h : GInv W me s) (hq : DQ s)
    (hok : MOK (MsgValid W s.tbl) s ops) (hown : OwnIn W me (mrun s ops).2)
    (hnf : hasFailure (mrun s ops).2 = false) : Shaped W s.tbl (mrun s ops).2 := by
  induction ops generalizing s with
  | nil => simpa using (Shaped_nil (W := W) (t := s.tbl))
  | cons op ops ih =>
    rw [mrun_cons] at hown hnf ⊢
    simp only [Instance.hasFailure_append, Bool.or_eq_false_iff] at hnf
    obtain ⟨ho1, ho2⟩ := OwnIn_append hown
    have hs1 := mstep_shaped (me := me) op h hq hok.1 ho1
    rcases mstep_gok (me := me) op h hq hok.1 with hf | hk
    · exact absurd (hf.symm.trans hnf.1) (by decide)
    · obtain ⟨hi1, _⟩ := hk ho1
      have hq1 : DQ (mstep s op).1 := by
        rcases mstep_ok s op hq (hok.1.mono (fun _ _ => trivial)) with hf | ⟨_, hq'⟩
        · exact absurd (hf.symm.trans hnf.1) (by decide)
        · exact hq'
      obtain ⟨htb, _⟩ := mstep_tbl_input s op
      have := ih hi1 hq1 (by rw [htb]; exact hok.2) ho2 hnf.2
      rw [htb] at this
      exact Shaped_append hs1 this

theorem POpP.foreign_or_valid {t : Table} {op : POp} (h : POpP (PMsgOK W t) op) :
    pforeign op = true ∨ POpP (MsgValid W t) op := by
  cases op with
  | recv now m => exact PMsgOK.foreign_or h
  | alarm _ => exact Or.inr trivial

/-- **Shapes along participant runs** (any drain order, no failure hypothesis). -/
theorem prun_shaped (cfg : Cfg) (t : Table) (input : Chain) (W : Votes) (p : Pid) (order : List Pid) (ops : List POp)
    (hin : input ≠ []) (hT : 0 < t.total) (hvalid : ∀ op ∈ ops, POpP (PMsgOK W t) op)
    (hown : OwnIn W p (prun order (pinit cfg t input) ops).2) :
    Shaped W t (prun order (pinit cfg t input) ops).2 := by
  have hok := prun_ok cfg t input W order ops hin hT hvalid
  obtain ⟨mops, hmok, hnf, _, heff⟩ :=
    prun_micro (MsgValid W t) (fun _ hm => MsgValid.msgOk (W := W) hm) order (pinit cfg t input) ops
      (DQ_pinit cfg t input) (by simp [pinit]) (fun op hop => POpP.foreign_or_valid (hvalid op hop)) hok
  have hinst : (pinit cfg t input).inst = init cfg t input := rfl
  rw [hinst] at hmok hnf heff
  have hown' : OwnIn W p (mrun (init cfg t input) mops).2 := by
    intro r ph v tk j hm
    rw [heff, bc_mem_filter_nonErr] at hm
    exact hown r ph v tk j hm
  have hsh := mrun_shaped (W := W) (me := p) (s := init cfg t input) mops (GInv_init W p cfg t input hin hT)
    (DQ_init _ _ _) hmok hown' hnf
  intro r ph v tk j hm
  exact hsh r ph v tk j (by rw [heff, bc_mem_filter_nonErr]; exact hm)

/-- **`emitted_valid` at the participant API.** -/
theorem emitted_valid_prun (cfg : Cfg) (t : Table) (input : Chain) (W : Votes) (p : Pid) (order : List Pid)
    (ops : List POp) (hin : input ≠ []) (hT : 0 < t.total) (hpos : 0 < t.power p)
    (hvalid : ∀ op ∈ ops, POpP (PMsgOK W t) op)
    (hown : ∀ r ph v tk j, Eff.broadcast r ph v tk j ∈ (prun order (pinit cfg t input) ops).2 → W p r ph v) :
    ∀ r ph v tk j, Eff.broadcast r ph v tk j ∈ (prun order (pinit cfg t input) ops).2 →
      MsgValid W t (msgOf p r ph v j) := fun r ph v tk j hm =>
  msgValid_of_shape (hown r ph v tk j hm) hpos
    (prun_shaped cfg t input W p order ops hin hT hvalid hown r ph v tk j hm)

end Shapes

/-! ## Part B: the wire, rebroadcast requests expanded

`Eff.rebroadcast r ph` is `host.RequestRebroadcast(Instant{id, r, ph})`: the host re-publishes the participant's own
message of that instance, round and phase if it has one (`host.go`: `selfMessages[instance][round][phase]`;
`F3.Equiv.step (.rebroadcast i r p)`: the own messages `m` with `m.inst == i && m.round == r && m.phase == p`). The
instance model emits only the request; here it is expanded against the broadcasts requested so far. -/

/-- what a rebroadcast request for `(r, ph)` re-sends after the effects `sent`: the own broadcasts of that slot -/
def resent (p : Pid) (sent : List Eff) (r : Nat) (ph : Phase) : List Msg :=
  sent.filterMap (fun e => match e with
    | .broadcast r' ph' v _ j => if r' = r ∧ ph' = ph then some (msgOf p r' ph' v j) else none
    | _ => none)

/-- the messages the effects `es` put on the wire, after the effects `sent` -/
def wireFrom (p : Pid) : List Eff → List Eff → List Msg
  | _, [] => []
  | sent, e :: es =>
    (match e with
     | .broadcast r ph v _ j => [msgOf p r ph v j]
     | .rebroadcast r ph => resent p sent r ph
     | _ => []) ++ wireFrom p (sent ++ [e]) es

/-- everything participant `p` puts on the wire in the course of the effects `es`, rebroadcasts included -/
def wireOf (p : Pid) (es : List Eff) : List Msg := wireFrom p [] es

theorem mem_resent {p : Pid} {sent : List Eff} {r : Nat} {ph : Phase} {m : Msg} (h : m ∈ resent p sent r ph) :
    ∃ v tk j, Eff.broadcast r ph v tk j ∈ sent ∧ m = msgOf p r ph v j := by
  simp only [resent, List.mem_filterMap] at h
  obtain ⟨e, he, hm⟩ := h
  cases e with
  | broadcast r' ph' v tk j =>
    simp only at hm
    split at hm
    · rename_i hc
      obtain ⟨rfl, rfl⟩ := hc
      exact ⟨v, tk, j, he, by cases hm; rfl⟩
    · cases hm
  | _ => simp at hm

/-- **Whatever is on the wire was broadcast**: a message sent or re-sent is `msgOf` of a broadcast effect -/
theorem mem_wireFrom {p : Pid} {m : Msg} (es sent : List Eff) (h : m ∈ wireFrom p sent es) :
    ∃ r ph v tk j, Eff.broadcast r ph v tk j ∈ sent ++ es ∧ m = msgOf p r ph v j := by
  induction es generalizing sent with
  | nil => simp [wireFrom] at h
  | cons e es ih =>
    simp only [wireFrom, List.mem_append] at h
    rcases h with h | h
    · cases e with
      | broadcast r ph v tk j =>
        simp only [List.mem_singleton] at h
        exact ⟨r, ph, v, tk, j, by simp, h⟩
      | rebroadcast r ph =>
        obtain ⟨v, tk, j, hs, hm⟩ := mem_resent h
        exact ⟨r, ph, v, tk, j, List.mem_append_left _ hs, hm⟩
      | setAlarm _ => simp at h
      | progress _ _ => simp at h
      | err _ => simp at h
      | panic _ => simp at h
    · obtain ⟨r, ph, v, tk, j, hs, hm⟩ := ih (sent ++ [e]) h
      exact ⟨r, ph, v, tk, j, by simpa [List.append_assoc] using hs, hm⟩

theorem mem_wireOf {p : Pid} {m : Msg} {es : List Eff} (h : m ∈ wireOf p es) :
    ∃ r ph v tk j, Eff.broadcast r ph v tk j ∈ es ∧ m = msgOf p r ph v j := by
  simpa using mem_wireFrom es [] h

theorem bc_mem_wireFrom {p : Pid} {r : Nat} {ph : Phase} {v : Chain} {tk : Bool} {j : Option Just} (es sent : List Eff)
    (h : Eff.broadcast r ph v tk j ∈ es) : msgOf p r ph v j ∈ wireFrom p sent es := by
  induction es generalizing sent with
  | nil => cases h
  | cons e es ih =>
    simp only [wireFrom, List.mem_append]
    rcases List.mem_cons.1 h with rfl | h
    · exact Or.inl (by simp)
    · exact Or.inr (ih _ h)

/-- every broadcast is on the wire -/
theorem bc_mem_wireOf {p : Pid} {r : Nat} {ph : Phase} {v : Chain} {tk : Bool} {j : Option Just} {es : List Eff}
    (h : Eff.broadcast r ph v tk j ∈ es) : msgOf p r ph v j ∈ wireOf p es := bc_mem_wireFrom es [] h

/-- a rebroadcast request re-sends only what was broadcast **before** it -/
theorem rebroadcast_resends_earlier {p : Pid} {a b : List Eff} {r : Nat} {ph : Phase} {m : Msg}
    (h : m ∈ resent p a r ph) :
    ∃ v tk j, Eff.broadcast r ph v tk j ∈ a ∧ m = msgOf p r ph v j ∧ m ∈ wireOf p (a ++ Eff.rebroadcast r ph :: b) := by
  obtain ⟨v, tk, j, hs, hm⟩ := mem_resent h
  refine ⟨v, tk, j, hs, hm, ?_⟩
  suffices key : ∀ (a sent : List Eff), m ∈ resent p (sent ++ a) r ph →
      m ∈ wireFrom p sent (a ++ Eff.rebroadcast r ph :: b) from key a [] (by simpa using h)
  intro a
  induction a with
  | nil =>
    intro sent hm'
    simp only [List.nil_append, wireFrom, List.mem_append]
    exact Or.inl (by simpa using hm')
  | cons e a ih =>
    intro sent hm'
    simp only [List.cons_append, wireFrom, List.mem_append]
    exact Or.inr (ih (sent ++ [e]) (by simpa [List.append_assoc] using hm'))

/-- with at most one broadcast per slot (`emit_once`), a rebroadcast request re-sends at most one message -/
theorem resent_length_le_one {α : Type} [DecidableEq α] (f : Eff → Option α) (slot : Nat → Phase → α)
    (hf : ∀ r ph v tk j, f (.broadcast r ph v tk j) = some (slot r ph)) (p : Pid) (sent : List Eff)
    (hnd : (sent.filterMap f).Nodup) (r : Nat) (ph : Phase) : (resent p sent r ph).length ≤ 1 := by
  induction sent with
  | nil => simp [resent]
  | cons e es ih =>
    have hnd' : (es.filterMap f).Nodup := by
      rw [List.filterMap_cons] at hnd
      split at hnd
      · exact hnd
      · exact (List.nodup_cons.1 hnd).2
    have hrest := ih hnd'
    by_cases hhit : ∃ v tk j, e = Eff.broadcast r ph v tk j
    · obtain ⟨v, tk, j, rfl⟩ := hhit
      have hnil : resent p es r ph = [] := by
        cases hre : resent p es r ph with
        | nil => rfl
        | cons m ms =>
          exfalso
          obtain ⟨v', tk', j', hs, _⟩ := mem_resent (m := m) (by rw [hre]; exact List.mem_cons_self)
          rw [List.filterMap_cons, hf] at hnd
          have hmem : slot r ph ∈ es.filterMap f := List.mem_filterMap.2 ⟨_, hs, hf r ph v' tk' j'⟩
          exact (List.nodup_cons.1 hnd).1 hmem
      have : resent p (Eff.broadcast r ph v tk j :: es) r ph = msgOf p r ph v j :: resent p es r ph := by
        simp [resent]
      rw [this, hnil]; simp
    · have : resent p (e :: es) r ph = resent p es r ph := by
        cases e with
        | broadcast r' ph' v tk j =>
          have hne : ¬ (r' = r ∧ ph' = ph) := fun hc => hhit ⟨v, tk, j, by rw [hc.1, hc.2]⟩
          simp [resent, hne]
        | _ => simp [resent]
      rw [this]; exact hrest

/-! ## Part C: the QUALITY votes that count, the candidates, the round-0 PREPARE value -/

/-- the QUALITY vote `receiveOne` hands to the tally, if any (`tallied` for a delivery, as a list) -/
def talliedL (s : State) (m : Msg) : List QVote :=
  if s.recvPre m = .accept ∧ m.phase = .quality then [(m.sender, m.value)] else []

/-- … counted only if the instance is (still) in QUALITY when it arrives -/
def talliedQ (s : State) (m : Msg) : List QVote := if s.phase = .quality then talliedL s m else []

theorem tallied_toList (s : State) (now : Int) (m : Msg) : (tallied s (.recv now m)).toList = talliedL s m := by
  simp only [tallied, talliedL]
  split <;> rfl

/-- the QUALITY votes counted in the course of the loop of `ReceiveMany` over `ms` from state `st`: messages dropped as
late-binding rejects leave the state alone, a failure ends the loop -/
def drainVotes (now : Int) : State → List Msg → List QVote
  | _, [] => []
  | st, m :: ms =>
    if isLateBinding (st.receiveOne now m).1.2 then drainVotes now st ms
    else if hasFailure (st.receiveOne now m).1.2 then talliedQ st m
    else talliedQ st m ++ drainVotes now (st.receiveOne now m).1.1 ms

def _root_.F3.Instance.POp.toOp : POp → Op
  | .alarm now => .alarm now
  | .recv now m => .recv now m

/-- **The QUALITY votes one participant call hands to the instance while it is in QUALITY.** Before the instance has
begun a delivery is only queued (nothing is counted); the alarm that begins the instance counts what the drain of the
queue hands over, in drain order; afterwards a delivered QUALITY message is counted if it passes the door checks. -/
def ptalliedQ (order : List Pid) (p : PState) (op : POp) : List QVote :=
  if p.started then (if p.inst.phase = .quality then (tallied p.inst op.toOp).toList else [])
  else match op with
    | .alarm now =>
      if hasFailure (p.inst.beginQuality now).2 then []
      else drainVotes now (p.inst.beginQuality now).1 (drainWith order p.queue)
    | .recv _ _ => []

/-- **the QUALITY votes that count** in a participant run, in the order in which the instance saw them -/
def pvotesQ (order : List Pid) : PState → List POp → List QVote
  | _, [] => []
  | p, op :: ops => ptalliedQ order p op ++ pvotesQ order (pstepWith order p op).1 ops

/-- the tally `q` after the further votes `tv` -/
def foldQ (t : Table) (tv : List QVote) (q : Tally) : Tally := tv.foldl (fun q v => q.receiveEachPrefix t v.1 v.2) q

theorem qTally_append (t : Table) (vs tv : List QVote) : qTally t (vs ++ tv) = foldQ t tv (qTally t vs) := by
  unfold qTally foldQ; rw [List.foldl_append]

/-- the link between the counted votes `vs`, the tally and the justification-free PREPAREs among `effs` -/
structure QInv (t : Table) (input : Chain) (s : State) (vs : List QVote) (effs : List Eff) : Prop where
  inQ : s.phase = .quality → s.quality = qTally t vs ∧ NoPrepNone effs
  after : s.phase ≠ .quality → ∀ r v tk, Eff.broadcast r .prepare v tk none ∈ effs →
    v = (qTally t vs).longestPrefixWithQuorum input

/-- one function of the model that hands the votes `tv` to the tally -/
theorem QInv.step {t : Table} {input : Chain} {s : State} {r : R} {vs : List QVote} {effs : List Eff}
    (hI : QInv t input s vs effs) (tv : List QVote) (hc : CCI s) (hs : CStepQ s r) (hin : s.input = input)
    (hq : r.1.quality = foldQ t tv s.quality) :
    QInv t input r.1 (vs ++ if s.phase = .quality then tv else []) (effs ++ r.2) := by
  have hqq : s.phase = .quality → r.1.quality = qTally t (vs ++ tv) := by
    intro hsq; rw [qTally_append, hq, (hI.inQ hsq).1]
  constructor
  · intro hrq
    have hsq := hs.qphase hc hrq
    rw [if_pos hsq]
    refine ⟨hqq hsq, NoPrepNone_append (hI.inQ hsq).2 ?_⟩
    intro r' v tk hm
    exact (hs.prep hc r' v tk hm).2.2.1 hrq
  · intro hrq r' v tk hm
    rcases List.mem_append.1 hm with hm | hm
    · by_cases hsq : s.phase = .quality
      · exact absurd hm ((hI.inQ hsq).2 r' v tk)
      · rw [if_neg hsq, List.append_nil]
        exact hI.after hsq r' v tk hm
    · obtain ⟨hsq, hv, _, _⟩ := hs.prep hc r' v tk hm
      rw [if_pos hsq, hv]
      unfold LP
      rw [hqq hsq, hs.input, hin]

/-- a refused delivery hands nothing to the tally -/
theorem tallied_refused {s : State} {op : Op} (h : refusedOp s op = true) : tallied s op = none := by
  cases op with
  | recv now m =>
    simp only [refusedOp, refusedM, Bool.or_eq_true, beq_iff_eq] at h
    have hne : s.recvPre m ≠ .accept := by
      intro hacc
      rcases h with h | h
      · exact recvPre_accept_not_terminated s m hacc h
      · rw [hacc] at h; cases h
    simp [tallied, hne]
  | start _ => rfl
  | alarm _ => rfl

/-- **One call on the running instance.** -/
theorem step_cq (t : Table) (input : Chain) {s : State} (op : Op) (vs : List QVote) (effs : List Eff)
    (hdq : DQ s) (hc : CCI s) (hI : QInv t input s vs effs) (hpc : PrepC s effs) (hinp : s.input = input)
    (htb : s.tbl = t) (hop : foreignOp op = true ∨ OpValidG WT t op) :
    CCI (step s op).1 ∧
    QInv t input (step s op).1 (vs ++ if s.phase = .quality then (tallied s op).toList else []) (effs ++ (step s op).2) ∧
    PrepC (step s op).1 (effs ++ (step s op).2) ∧ (step s op).1.input = input := by
  by_cases hr : refusedOp s op = true
  · obtain ⟨k, hk, _⟩ := step_refusedOp hr
    have hcs : CStepQ s (s, [Eff.err k]) := (Plain.same (fun r v tk hm => by simp at hm)).cstep.toCStepQ
    have := hI.step (r := (s, [Eff.err k])) [] hc hcs hinp rfl
    rw [hk, tallied_refused hr]
    exact ⟨hc, by simpa using this, PrepC_append hpc (hcs.prep hc).toC, hinp⟩
  · have hmsg : OpOk op := by
      cases op with
      | recv now m =>
        rcases hop with hf | hv
        · exact absurd (foreignM_refusedM s m hf) hr
        · exact MsgValid.msgOk (W := WT) hv
      | start _ => trivial
      | alarm _ => trivial
    have hcs := step_cstep s op hdq hmsg
    have hqual : (step s op).1.quality = foldQ t (tallied s op).toList s.quality := by
      rw [step_quality, htb]
      cases tallied s op <;> rfl
    exact ⟨hcs.cci hc, hI.step _ hc hcs hinp hqual, PrepC_append (PrepC_mono hpc hcs.cands) (hcs.prep hc).toC,
      hcs.input.trans hinp⟩

/-! ### the drain: the loop of `ReceiveMany`, then at most one round skip -/

/-- the loop of `ReceiveMany` over messages of this instance, from an accumulator whose state satisfies the
invariants: `pre` are the effects before the drain, `vs` the votes counted before the state `st` -/
theorem rmFold_cq (now : Int) (t : Table) (input : Chain) (pre : List Eff) (ms : List Msg) (st : State)
    (effs : List Eff) (rounds : List Nat) (vs : List QVote)
    (h : NFI st) (hq : DQ st) (htb : st.tbl = t) (hinp : st.input = input) (hc : CCI st)
    (hI : QInv t input st vs (pre ++ effs)) (hpc : PrepC st (pre ++ effs))
    (hP : ∀ m ∈ ms, PMsgOK WT t m) :
    CCI (ms.foldl (rmStep now) (st, effs, rounds, false)).1 ∧
    QInv t input (ms.foldl (rmStep now) (st, effs, rounds, false)).1 (vs ++ drainVotes now st ms)
      (pre ++ (ms.foldl (rmStep now) (st, effs, rounds, false)).2.1) ∧
    PrepC (ms.foldl (rmStep now) (st, effs, rounds, false)).1
      (pre ++ (ms.foldl (rmStep now) (st, effs, rounds, false)).2.1) ∧
    (ms.foldl (rmStep now) (st, effs, rounds, false)).1.input = input := by
  induction ms generalizing st effs rounds vs with
  | nil => exact ⟨hc, by simpa [drainVotes] using hI, hpc, hinp⟩
  | cons m ms ih =>
    rw [List.foldl_cons]
    have hP' : ∀ m' ∈ ms, PMsgOK WT t m' := fun m' hm' => hP m' (List.mem_cons_of_mem _ hm')
    have hPm : PMsgOK WT st.tbl m := by rw [htb]; exact hP m List.mem_cons_self
    rcases receiveOne_pm now m h hPm with hlb | ⟨hf', hi'⟩
    · have hstep : rmStep now (st, effs, rounds, false) m = (st, effs, rounds, false) := by simp [rmStep, hlb]
      have hdv : drainVotes now st (m :: ms) = drainVotes now st ms := by simp [drainVotes, hlb]
      rw [hstep, hdv]
      exact ih st effs rounds vs h hq htb hinp hc hI hpc hP'
    · have hlb : isLateBinding (st.receiveOne now m).1.2 = false := isLateBinding_of_nofail _ hf'
      have hstep : rmStep now (st, effs, rounds, false) m =
          ((st.receiveOne now m).1.1, effs ++ (st.receiveOne now m).1.2,
           if (st.receiveOne now m).2 && !rounds.contains m.round then rounds ++ [m.round] else rounds, false) := by
        simp [rmStep, hlb, hf']
      have hdv : drainVotes now st (m :: ms) = talliedQ st m ++ drainVotes now (st.receiveOne now m).1.1 ms := by
        simp [drainVotes, hlb, hf']
      rw [hstep, hdv, ← List.append_assoc]
      have hcs := receiveOne_cstep st now m
      have hqual : (st.receiveOne now m).1.1.quality = foldQ t (talliedL st m) st.quality := by
        rw [receiveOne_quality, htb]
        unfold talliedL
        split <;> rfl
      have hI' := hI.step (talliedL st m) hc hcs hinp hqual
      refine ih _ _ _ _ hi' (receiveOne_dq st now m hq hf') ((receiveOne_tbl_input st now m).1.trans htb)
        (hcs.input.trans hinp) (hcs.cci hc) ?_ ?_ hP'
      · rw [← List.append_assoc]; exact hI'
      · rw [← List.append_assoc]; exact PrepC_append (PrepC_mono hpc hcs.cands) (hcs.prep hc).toC

/-- **The drain keeps the invariants**, and counts exactly `drainVotes`. -/
theorem receiveMany_cq (now : Int) (t : Table) (input : Chain) (pre : List Eff) (s : State) (ms : List Msg)
    (vs : List QVote) (h : NFI s) (hq : DQ s) (hnt : s.phase ≠ .terminated) (htb : s.tbl = t) (hinp : s.input = input)
    (hc : CCI s) (hI : QInv t input s vs pre) (hpc : PrepC s pre)
    (hP : ∀ m ∈ ms, PMsgOK WT t m) (hsorted : RoundSorted ms) :
    CCI (s.receiveMany now ms).1 ∧
    QInv t input (s.receiveMany now ms).1 (vs ++ drainVotes now s ms) (pre ++ (s.receiveMany now ms).2) ∧
    PrepC (s.receiveMany now ms).1 (pre ++ (s.receiveMany now ms).2) ∧ (s.receiveMany now ms).1.input = input := by
  rw [receiveMany_eq]
  have hnt' : (s.phase == .terminated) = false := by simpa using hnt
  simp only [hnt', Bool.false_eq_true, if_false]
  obtain ⟨hfail, hi, hq', _, _, hterm⟩ :=
    rmFold_nf now s.tbl ms s [] [] h hq rfl rfl (fun m hm => by rw [htb]; exact hP m hm) hsorted (by simp) (by simp)
  obtain ⟨c1, c2, c3, c4⟩ := rmFold_cq now t input pre ms s [] [] vs h hq htb hinp hc (by simpa using hI)
    (by simpa using hpc) hP
  simp only [hfail, Bool.false_eq_true, if_false]
  generalize ms.foldl (rmStep now) (s, [], [], false) = acc at *
  rcases go_cases now acc.1 (sortNat acc.2.2.1).reverse with hgo | ⟨r, hr, hgo, hne⟩
  · rw [hgo]
    exact ⟨c1, by simpa using c2, by simpa using c3, c4⟩
  · rw [hgo]
    have hnt1 : acc.1.phase ≠ .terminated := by
      intro ht
      have hr' : r ∈ acc.2.2.1 := by
        rw [List.mem_reverse, sortNat_mem] at hr; exact hr
      have hr0 := hterm ht r hr'
      rw [postReceive_noop _ _ _ (by omega)] at hne
      exact hne rfl
    have hcs := (postReceive_cstep acc.1 now r hnt1).toCStepQ
    have hI' := c2.step (r := acc.1.postReceive now r) [] c1 hcs c4 (by rw [postReceive_quality]; rfl)
    refine ⟨hcs.cci c1, ?_, ?_, hcs.input.trans c4⟩
    · rw [← List.append_assoc]; simpa using hI'
    · rw [← List.append_assoc]; exact PrepC_append (PrepC_mono c3 hcs.cands) (hcs.prep c1).toC

/-! ### participant calls and runs -/

/-- the invariant of a participant run as far as QUALITY votes, candidates and justification-free PREPAREs are
concerned: `vs` are the QUALITY votes counted so far, `effs` the effects so far -/
structure PCQ (cfg : Cfg) (t : Table) (input : Chain) (p : PState) (vs : List QVote) (effs : List Eff) : Prop where
  pinv : PInv cfg t input p
  pre : p.started = false → vs = [] ∧ effs = []
  post : p.started = true → CCI p.inst ∧ QInv t input p.inst vs effs ∧ PrepC p.inst effs ∧ p.inst.input = input

theorem pstep_started_eq (order : List Pid) (p : PState) (op : POp) (hs : p.started = true) :
    pstepWith order p op = ({ p with inst := (step p.inst op.toOp).1 }, (step p.inst op.toOp).2) := by
  cases op <;> simp [pstepWith, hs, POp.toOp]

theorem pstep_cq (cfg : Cfg) (t : Table) (input : Chain) (hin : input ≠ []) (hT : 0 < t.total) (order : List Pid)
    (p : PState) (op : POp) (vs : List QVote) (effs : List Eff) (h : PCQ cfg t input p vs effs)
    (hop : POpP (PMsgOK WT t) op) :
    PCQ cfg t input (pstepWith order p op).1 (vs ++ ptalliedQ order p op) (effs ++ (pstepWith order p op).2) := by
  have hpi := (pstep_nf cfg t input hin hT order p op h.pinv hop).2
  by_cases hs : p.started = true
  · -- the running instance
    obtain ⟨hc, hI, hpc, hinp⟩ := h.post hs
    obtain ⟨_, hdq⟩ := h.pinv.post hs
    have hop' : foreignOp op.toOp = true ∨ OpValidG WT t op.toOp := by
      cases op with
      | recv now m => exact PMsgOK.foreign_or hop
      | alarm now => exact Or.inr trivial
    obtain ⟨s1, s2, s3, s4⟩ := step_cq t input op.toOp vs effs hdq hc hI hpc hinp h.pinv.tbl hop'
    have hv : ptalliedQ order p op = if p.inst.phase = .quality then (tallied p.inst op.toOp).toList else [] := by
      simp [ptalliedQ, hs]
    refine ⟨hpi, fun hst => ?_, fun _ => ?_⟩
    · rw [pstep_started_eq order p op hs] at hst
      exact absurd hst (by simp [hs])
    · rw [hv, pstep_started_eq order p op hs]
      exact ⟨s1, s2, s3, s4⟩
  · have hs' : p.started = false := by simpa using hs
    obtain ⟨hvs, heffs⟩ := h.pre hs'
    obtain ⟨hinit, hqu⟩ := h.pinv.pre hs'
    subst hvs heffs
    cases op with
    | recv now m =>
      have hstep : pstepWith order p (.recv now m) = (p.queueAdd m, []) := by simp [pstepWith, hs']
      have hv : ptalliedQ order p (.recv now m) = [] := by simp [ptalliedQ, hs']
      have hst : (pstepWith order p (.recv now m)).1.started = false := by
        rw [hstep]; exact (queueAdd_inst p m).2.trans hs'
      refine ⟨hpi, fun _ => ?_, fun hst' => ?_⟩
      · rw [hv, hstep]; exact ⟨rfl, rfl⟩
      · rw [hst] at hst'; cases hst'
    | alarm now =>
      obtain ⟨h1, h2, h3⟩ := start_nf cfg t input now hin hT
      have hbq : step (init cfg t input) (.start now) = (init cfg t input).beginQuality now := rfl
      obtain ⟨c0, c1⟩ := start_cci cfg t input now
      rw [hbq] at h1 h2 h3 c0 c1
      have hstep : pstepWith order p (.alarm now) =
          ({ inst := (((init cfg t input).beginQuality now).1.receiveMany now (drainWith order p.queue)).1,
             started := true, queue := [] },
           ((init cfg t input).beginQuality now).2 ++
             (((init cfg t input).beginQuality now).1.receiveMany now (drainWith order p.queue)).2) := by
        simp [pstepWith, hs', hinit, h1]
      have hv : ptalliedQ order p (.alarm now) =
          drainVotes now ((init cfg t input).beginQuality now).1 (drainWith order p.queue) := by
        simp [ptalliedQ, hs', hinit, h1]
      have hph : ((init cfg t input).beginQuality now).1.phase = .quality := rfl
      have hI0 : QInv t input ((init cfg t input).beginQuality now).1 [] ((init cfg t input).beginQuality now).2 := by
        refine ⟨fun _ => ⟨rfl, ?_⟩, fun hne => absurd hph hne⟩
        intro r v tk hm
        simp [State.beginQuality, init, State.alarmAfter, State.resetReb] at hm
      obtain ⟨d1, d2, d3, d4⟩ := receiveMany_cq now t input ((init cfg t input).beginQuality now).2
        ((init cfg t input).beginQuality now).1 (drainWith order p.queue) [] h2 h3
        (by rw [hph]; decide) rfl rfl c0 hI0 c1
        (fun m hm => hqu m (drainWith_mem order p.queue m hm)) (drainWith_sorted order p.queue)
      refine ⟨hpi, fun hst => ?_, fun _ => ?_⟩
      · rw [hstep] at hst; cases hst
      · rw [hv, hstep]
        exact ⟨d1, by simpa using d2, by simpa using d3, d4⟩

/-- **`PCQ` along participant runs.** -/
theorem prun_cq (cfg : Cfg) (t : Table) (input : Chain) (hin : input ≠ []) (hT : 0 < t.total) (order : List Pid)
    (p : PState) (ops : List POp) (vs : List QVote) (effs : List Eff) (h : PCQ cfg t input p vs effs)
    (hops : ∀ op ∈ ops, POpP (PMsgOK WT t) op) :
    PCQ cfg t input (prun order p ops).1 (vs ++ pvotesQ order p ops) (effs ++ (prun order p ops).2) := by
  induction ops generalizing p vs effs with
  | nil => simpa [pvotesQ] using h
  | cons op ops ih =>
    have h1 := pstep_cq cfg t input hin hT order p op vs effs h (hops op List.mem_cons_self)
    have h2 := ih _ _ _ h1 (fun o ho => hops o (List.mem_cons_of_mem _ ho))
    rw [prun_cons]
    simpa [pvotesQ, List.append_assoc] using h2

/-- from the fresh participant, over messages of this instance each validated unless its supplemental data differ -/
theorem prun_pcq (cfg : Cfg) (t : Table) (input : Chain) (W : Votes) (order : List Pid) (ops : List POp)
    (hin : input ≠ []) (hT : 0 < t.total) (hvalid : ∀ op ∈ ops, POpP (PMsgOK W t) op) :
    PCQ cfg t input (prun order (pinit cfg t input) ops).1 (pvotesQ order (pinit cfg t input) ops)
      (prun order (pinit cfg t input) ops).2 := by
  have h0 : PCQ cfg t input (pinit cfg t input) [] [] :=
    ⟨PInv_pinit cfg t input, fun _ => ⟨rfl, rfl⟩, fun h => by simp [pinit] at h⟩
  have := prun_cq cfg t input hin hT order _ ops [] [] h0 (fun op hop => (hvalid op hop).mono (fun _ h => h.top))
  simpa using this

/-! ### the theorems -/

/-- before the first alarm the instance is untouched and nothing has been emitted -/
theorem PCQ.waiting {cfg : Cfg} {t : Table} {input : Chain} {p : PState} {vs : List QVote} {effs : List Eff}
    (h : PCQ cfg t input p vs effs) (hs : p.started = false) :
    p.inst = init cfg t input ∧ vs = [] ∧ effs = [] :=
  ⟨(h.pinv.pre hs).1, h.pre hs⟩

theorem PCQ.started_of_phase {cfg : Cfg} {t : Table} {input : Chain} {p : PState} {vs : List QVote} {effs : List Eff}
    (h : PCQ cfg t input p vs effs) (hph : p.inst.phase ≠ .initial) : p.started = true := by
  cases hs : p.started with
  | true => rfl
  | false =>
    rw [(h.waiting hs).1] at hph
    exact absurd rfl hph

/-- **Completeness of the candidates, participant API.** -/
theorem candidates_complete_prun (cfg : Cfg) (t : Table) (input : Chain) (W : Votes) (order : List Pid)
    (ops : List POp) (hin : input ≠ []) (hT : 0 < t.total) (hvalid : ∀ op ∈ ops, POpP (PMsgOK W t) op) :
    ((prun order (pinit cfg t input) ops).1.inst.phase = .converge ∨
      (prun order (pinit cfg t input) ops).1.inst.phase = .prepare ∨
      (prun order (pinit cfg t input) ops).1.inst.phase = .commit →
      ∀ x, x ≠ [] → x <+: (prun order (pinit cfg t input) ops).1.inst.quality.longestPrefixWithQuorum input →
        (prun order (pinit cfg t input) ops).1.inst.isCandidate x = true) ∧
    (∀ r v tk, Eff.broadcast r .prepare v tk none ∈ (prun order (pinit cfg t input) ops).2 →
      ∀ x, x ≠ [] → x <+: v → (prun order (pinit cfg t input) ops).1.inst.isCandidate x = true) := by
  have h := prun_pcq cfg t input W order ops hin hT hvalid
  constructor
  · intro hph x hne hx
    have hst : (prun order (pinit cfg t input) ops).1.started = true :=
      h.started_of_phase (by rcases hph with h' | h' | h' <;> rw [h'] <;> decide)
    obtain ⟨hc, _, _, hinp⟩ := h.post hst
    have hmid : (prun order (pinit cfg t input) ops).1.inst.phase.mid = true := by
      rcases hph with h' | h' | h' <;> rw [h'] <;> rfl
    have := hc.complete hmid
    unfold LP at this
    rw [hinp] at this
    simpa [State.isCandidate] using mem_of_prefix_all this hx hne
  · intro r v tk hm x hne hx
    cases hst : (prun order (pinit cfg t input) ops).1.started with
    | false =>
      rw [(h.waiting hst).2.2] at hm
      cases hm
    | true =>
      obtain ⟨_, _, hp, _⟩ := h.post hst
      simpa [State.isCandidate] using mem_of_prefix_all (hp r v tk hm) hx hne

/-- **The best ticket is adopted, participant API.** -/
theorem converge_adopts_best_ticket_prun (cfg : Cfg) (t : Table) (input : Chain) (W : Votes) (order : List Pid)
    (ops : List POp) (hin : input ≠ []) (hT : 0 < t.total) (hvalid : ∀ op ∈ ops, POpP (PMsgOK W t) op)
    (now : Int) (b : ConvVal)
    (hph : (prun order (pinit cfg t input) ops).1.inst.phase = .converge)
    (hto : (prun order (pinit cfg t input) ops).1.inst.phaseTimeoutElapsed now = true)
    (hb : ((prun order (pinit cfg t input) ops).1.inst.getRound
      (prun order (pinit cfg t input) ops).1.inst.round).converged.findBest (fun _ => true) = some b)
    (hpre : b.chain <+: (prun order (pinit cfg t input) ops).1.inst.quality.longestPrefixWithQuorum input ∨
      ∃ r v tk, Eff.broadcast r .prepare v tk none ∈ (prun order (pinit cfg t input) ops).2 ∧ b.chain <+: v) :
    Eff.broadcast (prun order (pinit cfg t input) ops).1.inst.round .prepare b.chain false (some b.just) ∈
      (pstepWith order (prun order (pinit cfg t input) ops).1 (.alarm now)).2 := by
  obtain ⟨h1, h2⟩ := candidates_complete_prun cfg t input W order ops hin hT hvalid
  have h := prun_pcq cfg t input W order ops hin hT hvalid
  have hst : (prun order (pinit cfg t input) ops).1.started = true :=
    h.started_of_phase (by rw [hph]; decide)
  obtain ⟨hnfi, _⟩ := h.pinv.post hst
  have hne : b.chain ≠ [] :=
    ((getRound_ok hnfi.1.core.rounds _).conv b (findBest_mem _ _ _ hb).1).1
  have hcand : (prun order (pinit cfg t input) ops).1.inst.isCandidate b.chain = true := by
    rcases hpre with h' | ⟨r, v, tk, hm, h'⟩
    · exact h1 (Or.inl hph) _ hne h'
    · exact h2 r v tk hm _ hne h'
  have := tryConverge_adopts _ now b hph hto hb hne hcand
  rw [pstep_started_eq order _ _ hst]
  simpa [POp.toOp, step, State.tryCurrentPhase, hph] using this

/-- **The round-0 PREPARE value, participant API.** A PREPARE without justification is for round 0 and its value is
the longest prefix of the input with a strong quorum among the QUALITY votes counted in the run (`pvotesQ`). -/
theorem prepare0_prun (cfg : Cfg) (t : Table) (input : Chain) (W : Votes) (order : List Pid)
    (ops : List POp) (hin : input ≠ []) (hT : 0 < t.total) (hvalid : ∀ op ∈ ops, POpP (PMsgOK W t) op)
    (r : Nat) (v : Chain) (tk : Bool)
    (hm : Eff.broadcast r .prepare v tk none ∈ (prun order (pinit cfg t input) ops).2) :
    r = 0 ∧ (prun order (pinit cfg t input) ops).1.started = true ∧
      (prun order (pinit cfg t input) ops).1.inst.phase ≠ .quality ∧
      v = (qTally t (pvotesQ order (pinit cfg t input) ops)).longestPrefixWithQuorum input := by
  have h := prun_pcq cfg t input W order ops hin hT hvalid
  have hst : (prun order (pinit cfg t input) ops).1.started = true := by
    cases hst : (prun order (pinit cfg t input) ops).1.started with
    | true => rfl
    | false =>
      rw [(h.waiting hst).2.2] at hm
      cases hm
  obtain ⟨_, hI, _, _⟩ := h.post hst
  have hnq : (prun order (pinit cfg t input) ops).1.inst.phase ≠ .quality :=
    fun hq => (hI.inQ hq).2 r v tk hm
  refine ⟨?_, hst, hnq, hI.after hnq r v tk hm⟩
  have hsh := prun_shaped cfg t input WT 0 order ops hin hT
    (fun op hop => (hvalid op hop).mono (fun _ h => h.top)) (fun _ _ _ _ _ _ => trivial) r .prepare v tk none hm
  by_cases h0 : r = 0
  · exact h0
  · obtain ⟨j', hj', _⟩ := hsh.2 (by omega)
    cases hj'

/-- **While the instance is in QUALITY** its tally holds exactly the votes counted so far, and no justification-free
PREPARE has been broadcast. -/
theorem quality_phase_prun (cfg : Cfg) (t : Table) (input : Chain) (W : Votes) (order : List Pid)
    (ops : List POp) (hin : input ≠ []) (hT : 0 < t.total) (hvalid : ∀ op ∈ ops, POpP (PMsgOK W t) op)
    (hq : (prun order (pinit cfg t input) ops).1.inst.phase = .quality) :
    (prun order (pinit cfg t input) ops).1.inst.quality = qTally t (pvotesQ order (pinit cfg t input) ops) ∧
    ∀ r v tk, Eff.broadcast r .prepare v tk none ∉ (prun order (pinit cfg t input) ops).2 := by
  have h := prun_pcq cfg t input W order ops hin hT hvalid
  have hst := h.started_of_phase (by rw [hq]; decide)
  obtain ⟨_, hI, _, _⟩ := h.post hst
  exact hI.inQ hq

/-! ### what `pvotesQ` is -/

theorem pvotesQ_append (order : List Pid) (p : PState) (a b : List POp) :
    pvotesQ order p (a ++ b) = pvotesQ order p a ++ pvotesQ order (prun order p a).1 b := by
  induction a generalizing p with
  | nil => simp [pvotesQ]
  | cons op a ih => simp only [List.cons_append, pvotesQ, ih, prun_cons, List.append_assoc]

theorem drainVotes_sound (now : Int) (st : State) (ms : List Msg) :
    ∀ v ∈ drainVotes now st ms, ∃ m ∈ ms, m.phase = .quality ∧ v = (m.sender, m.value) := by
  have htq : ∀ (st : State) (m : Msg), ∀ v ∈ talliedQ st m, m.phase = .quality ∧ v = (m.sender, m.value) := by
    intro st m v hv
    unfold talliedQ talliedL at hv
    split at hv
    · split at hv
      · rename_i hc
        simp only [List.mem_singleton] at hv
        exact ⟨hc.2, hv⟩
      · cases hv
    · cases hv
  induction ms generalizing st with
  | nil => intro v hv; simp [drainVotes] at hv
  | cons m ms ih =>
    intro v hv
    simp only [drainVotes] at hv
    split at hv
    · obtain ⟨m', hm', h⟩ := ih st v hv
      exact ⟨m', List.mem_cons_of_mem _ hm', h⟩
    · split at hv
      · exact ⟨m, List.mem_cons_self, htq st m v hv⟩
      · rcases List.mem_append.1 hv with hv | hv
        · exact ⟨m, List.mem_cons_self, htq st m v hv⟩
        · obtain ⟨m', hm', h⟩ := ih _ v hv
          exact ⟨m', List.mem_cons_of_mem _ hm', h⟩

theorem pstep_queue_mem (order : List Pid) (p : PState) (op : POp) (x : Msg)
    (h : x ∈ (pstepWith order p op).1.queue) : x ∈ p.queue ∨ ∃ now, op = .recv now x := by
  cases op with
  | alarm now =>
    unfold pstepWith at h
    dsimp only at h
    split at h
    · split at h <;> simp at h
    · exact Or.inl h
  | recv now m =>
    unfold pstepWith at h
    dsimp only at h
    split at h
    · rcases queueAdd_mem p m x h with h | rfl
      · exact Or.inl h
      · exact Or.inr ⟨now, rfl⟩
    · exact Or.inl h

/-- **Every counted vote is the vote of a QUALITY message that was queued or delivered** -/
theorem pvotesQ_sound (order : List Pid) (p : PState) (ops : List POp) :
    ∀ v ∈ pvotesQ order p ops, ∃ m, (m ∈ p.queue ∨ ∃ now, POp.recv now m ∈ ops) ∧ m.phase = .quality ∧
      v = (m.sender, m.value) := by
  induction ops generalizing p with
  | nil => intro v hv; simp [pvotesQ] at hv
  | cons op ops ih =>
    intro v hv
    simp only [pvotesQ, List.mem_append] at hv
    rcases hv with hv | hv
    · unfold ptalliedQ at hv
      split at hv
      · split at hv
        · cases op with
          | alarm now => simp [POp.toOp, tallied] at hv
          | recv now m =>
            rw [POp.toOp, tallied_toList] at hv
            unfold talliedL at hv
            split at hv
            · rename_i hc
              simp only [List.mem_singleton] at hv
              exact ⟨m, Or.inr ⟨now, List.mem_cons_self⟩, hc.2, hv⟩
            · cases hv
        · cases hv
      · cases op with
        | alarm now =>
          dsimp only at hv
          split at hv
          · cases hv
          · obtain ⟨m, hm, h⟩ := drainVotes_sound _ _ _ v hv
            exact ⟨m, Or.inl (drainWith_mem order p.queue m hm), h⟩
        | recv now m => cases hv
    · obtain ⟨m, hm, h⟩ := ih _ v hv
      refine ⟨m, ?_, h⟩
      rcases hm with hm | ⟨now, hm⟩
      · rcases pstep_queue_mem order p op m hm with hq | ⟨now, rfl⟩
        · exact Or.inl hq
        · exact Or.inr ⟨now, List.mem_cons_self⟩
      · exact Or.inr ⟨now, List.mem_cons_of_mem _ hm⟩

/-- the running instance does not return to QUALITY -/
theorem pstep_qphase (cfg : Cfg) (t : Table) (input : Chain) (order : List Pid) (p : PState) (op : POp)
    (vs : List QVote) (effs : List Eff) (h : PCQ cfg t input p vs effs) (hop : POpP (PMsgOK WT t) op)
    (hs : p.started = true) (hq : (pstepWith order p op).1.inst.phase = .quality) : p.inst.phase = .quality := by
  obtain ⟨hc, _, _, _⟩ := h.post hs
  obtain ⟨_, hdq⟩ := h.pinv.post hs
  rw [pstep_started_eq order p op hs] at hq
  by_cases hr : refusedOp p.inst op.toOp = true
  · obtain ⟨k, hk, _⟩ := step_refusedOp hr
    rw [hk] at hq
    exact hq
  · have hmsg : OpOk op.toOp := by
      cases op with
      | recv now m =>
        rcases PMsgOK.foreign_or hop with hf | hv
        · exact absurd (foreignM_refusedM p.inst m hf) hr
        · exact MsgValid.msgOk (W := WT) hv
      | alarm _ => trivial
    exact (step_cstep p.inst op.toOp hdq hmsg).qphase hc hq

/-- **Once QUALITY has ended nothing more is counted** -/
theorem pvotesQ_frozen (cfg : Cfg) (t : Table) (input : Chain) (hin : input ≠ []) (hT : 0 < t.total)
    (order : List Pid) (p : PState) (ops : List POp) (vs : List QVote) (effs : List Eff)
    (h : PCQ cfg t input p vs effs) (hops : ∀ op ∈ ops, POpP (PMsgOK WT t) op)
    (hs : p.started = true) (hnq : p.inst.phase ≠ .quality) : pvotesQ order p ops = [] := by
  induction ops generalizing p vs effs with
  | nil => rfl
  | cons op ops ih =>
    have hop := hops op List.mem_cons_self
    have h1 := pstep_cq cfg t input hin hT order p op vs effs h hop
    have hs1 : (pstepWith order p op).1.started = true := by
      rw [pstep_started_eq order p op hs]; exact hs
    have hnq1 : (pstepWith order p op).1.inst.phase ≠ .quality :=
      fun hq => hnq (pstep_qphase cfg t input order p op vs effs h hop hs hq)
    have h0 : ptalliedQ order p op = [] := by simp [ptalliedQ, hs, hnq]
    simp only [pvotesQ, h0, List.nil_append]
    exact ih _ _ _ h1 (fun o ho => hops o (List.mem_cons_of_mem _ ho)) hs1 hnq1

/-- … in a run from the fresh participant: whatever follows a point at which the instance has begun and is no longer
in QUALITY adds no vote -/
theorem pvotesQ_after_quality (cfg : Cfg) (t : Table) (input : Chain) (W : Votes) (order : List Pid)
    (ops1 ops2 : List POp) (hin : input ≠ []) (hT : 0 < t.total)
    (hvalid : ∀ op ∈ ops1 ++ ops2, POpP (PMsgOK W t) op)
    (hs : (prun order (pinit cfg t input) ops1).1.started = true)
    (hnq : (prun order (pinit cfg t input) ops1).1.inst.phase ≠ .quality) :
    pvotesQ order (pinit cfg t input) (ops1 ++ ops2) = pvotesQ order (pinit cfg t input) ops1 := by
  have h := prun_pcq cfg t input W order ops1 hin hT (fun op hop => hvalid op (List.mem_append_left _ hop))
  rw [pvotesQ_append, pvotesQ_frozen cfg t input hin hT order _ ops2 _ _ h
    (fun op hop => (hvalid op (List.mem_append_right _ hop)).mono (fun _ h => h.top)) hs hnq, List.append_nil]

/-! ### the votes counted by the beginning alarm come from the queue -/

theorem pvotesQ_unstarted (order : List Pid) (p : PState) (pre : List POp) (hs : p.started = false)
    (hr : ∀ op ∈ pre, op.isRecv = true) : pvotesQ order p pre = [] := by
  induction pre generalizing p with
  | nil => rfl
  | cons op pre ih =>
    cases op with
    | alarm now => exact absurd (hr _ List.mem_cons_self) (by simp [POp.isRecv])
    | recv now m =>
      have h1 : pstepWith order p (.recv now m) = (p.queueAdd m, []) := by simp [pstepWith, hs]
      have h0 : ptalliedQ order p (.recv now m) = [] := by simp [ptalliedQ, hs]
      simp only [pvotesQ, h0, List.nil_append, h1]
      exact ih _ ((queueAdd_inst p m).2.trans hs) (fun o ho => hr o (List.mem_cons_of_mem _ ho))

/-- **The votes counted at the beginning are votes of queued messages.** For a run `pre ++ alarm :: rest` whose calls
before the first alarm are the deliveries `pre`: the counted votes are those of the drain of the queue
`preQueue look pre` (`messageQueue.Add` folded over `pre`), in drain order, followed by those counted afterwards; and
every vote counted by the drain is the vote of a QUALITY message *in that queue* — a message the queue refused (second
message of a sender for the same round and phase, spammable beyond the look-ahead) contributes nothing. -/
theorem pvotesQ_begin (cfg : Cfg) (t : Table) (input : Chain) (order : List Pid) (pre rest : List POp) (now : Int)
    (hr : ∀ op ∈ pre, op.isRecv = true) :
    pvotesQ order (pinit cfg t input) (pre ++ .alarm now :: rest) =
      drainVotes now ((init cfg t input).beginQuality now).1 (drainWith order (preQueue cfg.maxLookahead pre)) ++
        pvotesQ order (prun order (pinit cfg t input) (pre ++ [.alarm now])).1 rest ∧
    ∀ v ∈ drainVotes now ((init cfg t input).beginQuality now).1 (drainWith order (preQueue cfg.maxLookahead pre)),
      ∃ m ∈ preQueue cfg.maxLookahead pre, m.phase = .quality ∧ v = (m.sender, m.value) := by
  constructor
  · have hsplit : pre ++ POp.alarm now :: rest = (pre ++ [.alarm now]) ++ rest := by simp
    rw [hsplit, pvotesQ_append, pvotesQ_append, pvotesQ_unstarted order _ pre rfl hr, List.nil_append,
      prun_waiting order cfg t input pre hr]
    have hnf : hasFailure ((init cfg t input).beginQuality now).2 = false := by
      simp [State.beginQuality, init, State.alarmAfter, State.resetReb, hasFailure]
    simp [pvotesQ, ptalliedQ, hnf]
  · intro v hv
    obtain ⟨m, hm, h⟩ := drainVotes_sound _ _ _ v hv
    exact ⟨m, drainWith_mem order _ m hm, h⟩

/-! ### which call broadcasts the round-0 PREPARE -/

theorem mem_prun_split (order : List Pid) (p : PState) (ops : List POp) (e : Eff) (h : e ∈ (prun order p ops).2) :
    ∃ ops1 op ops2, ops = ops1 ++ op :: ops2 ∧ e ∈ (pstepWith order (prun order p ops1).1 op).2 := by
  induction ops generalizing p with
  | nil => simp at h
  | cons op ops ih =>
    rw [prun_cons] at h
    rcases List.mem_append.1 h with h | h
    · exact ⟨[], op, ops, rfl, by simpa using h⟩
    · obtain ⟨o1, o, o2, he, hm⟩ := ih _ h
      refine ⟨op :: o1, o, o2, by rw [he]; rfl, ?_⟩
      rw [prun_cons]; exact hm

/-- a justification-free PREPARE is broadcast only by the beginning alarm or by a call that finds the instance in
QUALITY -/
theorem pstep_prep0_origin (cfg : Cfg) (t : Table) (input : Chain) (order : List Pid) (p : PState) (op : POp)
    (vs : List QVote) (effs : List Eff) (h : PCQ cfg t input p vs effs) (hop : POpP (PMsgOK WT t) op)
    (r : Nat) (v : Chain) (tk : Bool) (hm : Eff.broadcast r .prepare v tk none ∈ (pstepWith order p op).2) :
    p.started = false ∨ p.inst.phase = .quality := by
  cases hs : p.started with
  | false => exact Or.inl rfl
  | true =>
    right
    obtain ⟨hc, _, _, _⟩ := h.post hs
    obtain ⟨_, hdq⟩ := h.pinv.post hs
    rw [pstep_started_eq order p op hs] at hm
    by_cases hr : refusedOp p.inst op.toOp = true
    · obtain ⟨k, hk, _⟩ := step_refusedOp hr
      rw [hk] at hm
      simp at hm
    · have hmsg : OpOk op.toOp := by
        cases op with
        | recv now m =>
          rcases PMsgOK.foreign_or hop with hf | hv
          · exact absurd (foreignM_refusedM p.inst m hf) hr
          · exact MsgValid.msgOk (W := WT) hv
        | alarm _ => trivial
      exact ((step_cstep p.inst op.toOp hdq hmsg).prep hc r v tk hm).1

/-- **The call that broadcasts the round-0 PREPARE.** It is the beginning alarm (the PREPARE is broadcast while the
queue is drained) or a call that finds the instance in QUALITY; after it the instance has left QUALITY for good, and the
votes counted in the whole run are those counted up to and including that call. -/
theorem prepare0_origin_prun (cfg : Cfg) (t : Table) (input : Chain) (W : Votes) (order : List Pid)
    (ops : List POp) (hin : input ≠ []) (hT : 0 < t.total) (hvalid : ∀ op ∈ ops, POpP (PMsgOK W t) op)
    (r : Nat) (v : Chain) (tk : Bool)
    (hm : Eff.broadcast r .prepare v tk none ∈ (prun order (pinit cfg t input) ops).2) :
    ∃ ops1 op ops2, ops = ops1 ++ op :: ops2 ∧
      Eff.broadcast r .prepare v tk none ∈ (pstepWith order (prun order (pinit cfg t input) ops1).1 op).2 ∧
      ((prun order (pinit cfg t input) ops1).1.started = false ∨
        (prun order (pinit cfg t input) ops1).1.inst.phase = .quality) ∧
      (prun order (pinit cfg t input) (ops1 ++ [op])).1.started = true ∧
      (prun order (pinit cfg t input) (ops1 ++ [op])).1.inst.phase ≠ .quality ∧
      pvotesQ order (pinit cfg t input) ops = pvotesQ order (pinit cfg t input) (ops1 ++ [op]) := by
  obtain ⟨ops1, op, ops2, he, hmo⟩ := mem_prun_split order _ ops _ hm
  have hv1 : ∀ o ∈ ops1, POpP (PMsgOK W t) o := fun o ho => hvalid o (by rw [he]; simp [ho])
  have hvo : POpP (PMsgOK W t) op := hvalid op (by rw [he]; simp)
  have hv1o : ∀ o ∈ ops1 ++ [op], POpP (PMsgOK W t) o := by
    intro o ho
    rcases List.mem_append.1 ho with ho | ho
    · exact hv1 o ho
    · simp only [List.mem_singleton] at ho; subst ho; exact hvo
  have h1 := prun_pcq cfg t input W order ops1 hin hT hv1
  have horig := pstep_prep0_origin cfg t input order _ op _ _ h1 (hvo.mono (fun _ h => h.top)) r v tk hmo
  have hm1 : Eff.broadcast r .prepare v tk none ∈ (prun order (pinit cfg t input) (ops1 ++ [op])).2 := by
    rw [prun_snoc]; exact List.mem_append_right _ hmo
  obtain ⟨_, hst, hnq, _⟩ := prepare0_prun cfg t input W order (ops1 ++ [op]) hin hT hv1o r v tk hm1
  have hsplit : ops = (ops1 ++ [op]) ++ ops2 := by rw [he]; simp
  refine ⟨ops1, op, ops2, he, hmo, horig, hst, hnq, ?_⟩
  have := pvotesQ_after_quality cfg t input W order (ops1 ++ [op]) ops2 hin hT (by rw [← hsplit]; exact hvalid) hst hnq
  rw [← hsplit] at this
  exact this

end F3.EmittedValid
