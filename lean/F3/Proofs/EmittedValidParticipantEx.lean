import F3.Proofs.EmittedValidMulti
import F3.Proofs.EmittedValidEx
import F3.Proofs.MultiParticipantEx
/-!
# Non-vacuity of the participant-level and multi-instance run-level theorems of `F3.EmittedValid`

* `p2Ops`: the two-round run `r2Ops` of member 1 (`F3.Proofs.EmittedValidEx`) driven through the participant API. Six
  messages arrive before the instance has begun: the four QUALITY votes, a second (equivocating) QUALITY vote of
  member 2 — dropped by the queue (one message per sender, round and phase) — and a COMMIT for bottom of round 3 —
  dropped by the queue (spammable, beyond the look-ahead). The alarm at 0 begins the instance and drains the queue in
  the order 3, 1, 2, 4: the third vote ends QUALITY, the fourth is tallied late and **not** counted.
* `rbOps`: a run with rebroadcast requests.
* the two-instance run `exMOps` of `F3.Proofs.MultiParticipantEx`, with the votes in existence per instance.

Core-only.
-/
namespace F3.EmittedValid
open F3.Instance

/-- executable `PMsgOK` (`F3.Bridge.pmsgOKB`, core-only) -/
def pmsgOKB' (votes : List Vote) (t : Table) : POp → Bool
  | .recv _ m => m.instOk && (!m.suppOk || msgValidB votes t m)
  | _ => true

theorem pmsgOKB_sound' (votes : List Vote) (t : Table) (ops : List POp)
    (h : ops.all (pmsgOKB' votes t) = true) : ∀ op ∈ ops, POpP (PMsgOK (WofL votes) t) op := by
  intro op hop
  have := List.all_eq_true.1 h op hop
  cases op with
  | recv now m =>
    simp only [pmsgOKB', Bool.and_eq_true, Bool.or_eq_true, Bool.not_eq_true'] at this
    exact ⟨this.1, this.2.imp id (msgValidB_sound' votes t m)⟩
  | alarm _ => trivial

/-- executable `MPOpK k (PMsgOK …)` -/
def mpmsgOKB (k : Nat) (votes : List Vote) (t : Table) : MPOp → Bool
  | .recv _ m => m.inst != k || (m.msg.instOk && (!m.msg.suppOk || msgValidB votes t m.msg))
  | _ => true

theorem mpmsgOKB_sound (k : Nat) (votes : List Vote) (t : Table) (ops : List MPOp)
    (h : ops.all (mpmsgOKB k votes t) = true) : ∀ op ∈ ops, MPOpK k (PMsgOK (WofL votes) t) op := by
  intro op hop
  have := List.all_eq_true.1 h op hop
  cases op with
  | recv now m =>
    intro hk
    simp only [mpmsgOKB, hk, bne_self_eq_false, Bool.false_or, Bool.and_eq_true, Bool.or_eq_true,
      Bool.not_eq_true'] at this
    exact ⟨this.1, this.2.imp id (msgValidB_sound' votes t m.msg)⟩
  | alarm _ _ _ _ => trivial
  | startAt _ => trivial

/-! ## the two-round run at the participant API -/

def toP : Op → POp
  | .recv now m => .recv now m
  | .alarm now => .alarm now
  | .start now => .alarm now

/-- the votes in existence: those of `r2Votes`, member 2's second QUALITY vote and a COMMIT for bottom of round 3 -/
def p2Votes : List Vote := (2, 0, .quality, [7, 9]) :: (3, 3, .commit, []) :: r2Votes

abbrev p2W : Votes := WofL p2Votes

def p2Ops : List POp :=
  [.recv 0 { sender := 1, round := 0, phase := .quality, value := [7, 8] },
   .recv 0 { sender := 2, round := 0, phase := .quality, value := [7, 8] },
   .recv 0 { sender := 2, round := 0, phase := .quality, value := [7, 9] },   -- same sender, round, phase: not queued
   .recv 0 { sender := 3, round := 3, phase := .commit, value := [] },        -- spammable beyond look-ahead: not queued
   .recv 0 { sender := 3, round := 0, phase := .quality, value := [7, 8] },
   .recv 0 { sender := 4, round := 0, phase := .quality, value := [7, 9] },
   .alarm 0] ++ (r2Ops.drop 4).map toP

/-- the drain order (Go: map order): member 3's messages first, then member 1's, the others in arrival order -/
def p2Order : List Pid := [3, 1]

abbrev p2Run : PState × List Eff := prun p2Order (pinit r2Cfg r2Tbl [7, 8]) p2Ops

theorem p2_valid : ∀ op ∈ p2Ops, POpP (PMsgOK p2W r2Tbl) op :=
  pmsgOKB_sound' p2Votes r2Tbl p2Ops (by decide)

/-- the same seven broadcasts as in the instance-level run, with the same justifications -/
theorem p2_broadcasts : bcList p2Run.2 =
    [(0, .quality, [7, 8], none), (0, .prepare, [7, 8], none), (0, .commit, [], none),
     (1, .converge, [7, 8], some jB), (1, .prepare, [7], some jB), (1, .commit, [7], some jP),
     (0, .decide, [7], some jC)] := by decide +kernel

theorem p2_own : ∀ r ph v tk j, Eff.broadcast r ph v tk j ∈ p2Run.2 → p2W 1 r ph v := by
  intro r ph v tk j hm
  have hall : ∀ x ∈ bcList p2Run.2, ((1 : Pid), x.1, x.2.1, x.2.2.1) ∈ p2Votes := by
    rw [p2_broadcasts]; decide
  exact hall _ (mem_bcList hm)

/-- what happened to the six early messages, and which QUALITY votes count -/
theorem p2_quality :
    ((prun p2Order (pinit r2Cfg r2Tbl [7, 8]) (p2Ops.take 6)).1.queue.map (fun m => (m.sender, m.round, m.phase, m.value)) =
      [(1, 0, .quality, [7, 8]), (2, 0, .quality, [7, 8]), (3, 0, .quality, [7, 8]), (4, 0, .quality, [7, 9])]) ∧
    (drainWith p2Order (prun p2Order (pinit r2Cfg r2Tbl [7, 8]) (p2Ops.take 6)).1.queue).map (·.sender) = [3, 1, 2, 4] ∧
    pvotesQ p2Order (pinit r2Cfg r2Tbl [7, 8]) p2Ops = [(3, [7, 8]), (1, [7, 8]), (2, [7, 8])] ∧
    pvotesQ p2Order (pinit r2Cfg r2Tbl [7, 8]) (p2Ops.take 7) = [(3, [7, 8]), (1, [7, 8]), (2, [7, 8])] ∧
    p2Run.1.inst.quality.senders = [3, 1, 2, 4] ∧
    Eff.broadcast 0 .prepare [7, 8] false none ∈ (prun p2Order (pinit r2Cfg r2Tbl [7, 8]) (p2Ops.take 7)).2 ∧
    (qTally r2Tbl [(3, [7, 8]), (1, [7, 8]), (2, [7, 8])]).longestPrefixWithQuorum [7, 8] = [7, 8] := by
  refine ⟨by decide +kernel, by decide +kernel, by decide +kernel, by decide +kernel, by decide +kernel,
    by decide +kernel, by decide +kernel⟩

/-- before the alarm at 400 (19 calls) the instance is in CONVERGE of round 1 with the timeout elapsed, the best ticket
overall is member 3's `[7]`, a proper prefix of the QUALITY proposal; the alarm PREPAREs it -/
theorem p2_converge :
    let p := (prun p2Order (pinit r2Cfg r2Tbl [7, 8]) (p2Ops.take 19)).1
    p.inst.phase = .converge ∧ p.inst.round = 1 ∧ p.inst.phaseTimeoutElapsed 400 = true ∧
    ((p.inst.getRound p.inst.round).converged.findBest (fun _ => true)).map (fun b => (b.chain, b.rank, b.just)) =
      some ([7], some 1, jB) ∧
    p.inst.quality.longestPrefixWithQuorum [7, 8] = [7, 8] ∧ p.inst.isCandidate [7] = true ∧
    p.inst.isCandidate [7, 8] = true ∧
    Eff.broadcast 1 .prepare [7] false (some jB) ∈ (pstepWith p2Order p (.alarm 400)).2 := by
  refine ⟨by decide +kernel, by decide +kernel, by decide +kernel, by decide +kernel, by decide +kernel,
    by decide +kernel, by decide +kernel, by decide +kernel⟩

/-! ## a run with rebroadcast requests -/

/-- three QUALITY votes queued, the instance begun at 0 (PREPARE `[7,8]` during the drain), no PREPARE arrives: the
alarm at 200 arms the rebroadcast timer, the alarm at 300 requests the rebroadcast of QUALITY, COMMIT, PREPARE and
CONVERGE of round 0 -/
def rbOps : List POp :=
  [.recv 0 { sender := 1, round := 0, phase := .quality, value := [7, 8] },
   .recv 0 { sender := 2, round := 0, phase := .quality, value := [7, 8] },
   .recv 0 { sender := 3, round := 0, phase := .quality, value := [7, 8] },
   .alarm 0, .alarm 200, .alarm 300]

theorem rb_valid : ∀ op ∈ rbOps, POpP (PMsgOK r2W r2Tbl) op :=
  pmsgOKB_sound' r2Votes r2Tbl rbOps (by decide)

/-- the four requests; only QUALITY and PREPARE were broadcast before, so exactly those two are re-sent -/
theorem rb_wire :
    (prun [] (pinit r2Cfg r2Tbl [7, 8]) rbOps).2.filter (fun e => match e with | .rebroadcast .. => true | _ => false) =
      [.rebroadcast 0 .quality, .rebroadcast 0 .commit, .rebroadcast 0 .prepare, .rebroadcast 0 .converge] ∧
    wireOf 1 (prun [] (pinit r2Cfg r2Tbl [7, 8]) rbOps).2 =
      [msgOf 1 0 .quality [7, 8] none, msgOf 1 0 .prepare [7, 8] none,
       msgOf 1 0 .quality [7, 8] none, msgOf 1 0 .prepare [7, 8] none] := by
  refine ⟨by decide +kernel, by decide +kernel⟩

theorem rb_own : ∀ r ph v tk j, Eff.broadcast r ph v tk j ∈ (prun [] (pinit r2Cfg r2Tbl [7, 8]) rbOps).2 →
    r2W 1 r ph v := by
  intro r ph v tk j hm
  have hb : bcList (prun [] (pinit r2Cfg r2Tbl [7, 8]) rbOps).2 =
      [(0, .quality, [7, 8], none), (0, .prepare, [7, 8], none)] := by decide +kernel
  have hall : ∀ x ∈ bcList (prun [] (pinit r2Cfg r2Tbl [7, 8]) rbOps).2, ((1 : Pid), x.1, x.2.1, x.2.2.1) ∈ r2Votes := by
    rw [hb]; decide
  exact hall _ (mem_bcList hm)

/-! ## the two-instance run `exMOps`, seen by member 1 -/

/-- the votes in existence in instance 0 -/
def mx0Votes : List Vote :=
  [(1, 0, .quality, [7, 8]), (2, 0, .quality, [7, 8]), (3, 0, .quality, [7, 8]),
   (4, 0, .prepare, [7, 9]), (4, 0, .prepare, [7, 8]), (1, 0, .prepare, [7, 8]), (2, 0, .prepare, [7, 8]),
   (3, 0, .prepare, [7, 8]), (1, 0, .commit, [7, 8]), (2, 0, .commit, [7, 8]), (3, 0, .commit, [7, 8]),
   (1, 0, .decide, [7, 8]), (2, 0, .decide, [7, 8]), (3, 0, .decide, [7, 8])]

/-- the votes in existence in instance 1 -/
def mx1Votes : List Vote :=
  [(1, 0, .quality, [8, 5]), (2, 0, .quality, [8, 5]), (3, 0, .quality, [8, 5]),
   (4, 0, .prepare, [8, 6]), (4, 0, .prepare, [8, 5]), (1, 0, .prepare, [8, 5]), (2, 0, .prepare, [8, 5]),
   (3, 0, .prepare, [8, 5]), (1, 0, .commit, [8, 5]), (2, 0, .commit, [8, 5]), (3, 0, .commit, [8, 5]),
   (1, 0, .decide, [8, 5]), (2, 0, .decide, [8, 5]), (3, 0, .decide, [8, 5])]

theorem mx_valid0 : ∀ op ∈ exMOps, MPOpK 0 (PMsgOK (WofL mx0Votes) mxTbl) op :=
  mpmsgOKB_sound 0 mx0Votes mxTbl exMOps (by decide +kernel)

theorem mx_valid1 : ∀ op ∈ exMOps, MPOpK 1 (PMsgOK (WofL mx1Votes) mxTbl) op :=
  mpmsgOKB_sound 1 mx1Votes mxTbl exMOps (by decide +kernel)

theorem mx_broadcasts :
    bcList (effsOf 0 (mprun (minit mxCfg) exMOps).2) =
      [(0, .quality, [7, 8], none), (0, .prepare, [7, 8], none), (0, .commit, [7, 8], some mxJp),
       (0, .decide, [7, 8], some mxJc)] ∧
    bcList (effsOf 1 (mprun (minit mxCfg) exMOps).2) =
      [(0, .quality, [8, 5], none), (0, .prepare, [8, 5], none), (0, .commit, [8, 5], some mxJp1),
       (0, .decide, [8, 5], some mxJc1)] := by
  refine ⟨by decide +kernel, by decide +kernel⟩

theorem mx_own0 : ∀ r ph v tk j, (0, Eff.broadcast r ph v tk j) ∈ (mprun (minit mxCfg) exMOps).2 →
    WofL mx0Votes 1 r ph v := by
  intro r ph v tk j hm
  have hall : ∀ x ∈ bcList (effsOf 0 (mprun (minit mxCfg) exMOps).2), ((1 : Pid), x.1, x.2.1, x.2.2.1) ∈ mx0Votes := by
    rw [mx_broadcasts.1]; decide
  exact hall _ (mem_bcList ((mem_effsOf 0 _ _).2 hm))

theorem mx_own1 : ∀ r ph v tk j, (1, Eff.broadcast r ph v tk j) ∈ (mprun (minit mxCfg) exMOps).2 →
    WofL mx1Votes 1 r ph v := by
  intro r ph v tk j hm
  have hall : ∀ x ∈ bcList (effsOf 1 (mprun (minit mxCfg) exMOps).2), ((1 : Pid), x.1, x.2.1, x.2.2.1) ∈ mx1Votes := by
    rw [mx_broadcasts.2]; decide
  exact hall _ (mem_bcList ((mem_effsOf 1 _ _).2 hm))

/-- the QUALITY votes counted per instance: instance 0 drains the votes of members 2 and 1 (drain order `[2,4,1]`) and
hears member 3's afterwards; instance 1 drains those of members 1 and 2 (drain order `[1,4,2]`; queued while instance 0
was still running, resp. before instance 1 began) and hears member 3's afterwards -/
theorem mx_quality :
    pvotesQ mxOrder (pinit mxCfg mxTbl [7, 8]) (opsOf mxCfg 0 0 exMOps) = [(2, [7, 8]), (1, [7, 8]), (3, [7, 8])] ∧
    pvotesQ [1, 4, 2] (pinit mxCfg mxTbl [8, 5]) (opsOf mxCfg 0 1 exMOps) = [(1, [8, 5]), (2, [8, 5]), (3, [8, 5])] := by
  refine ⟨by decide +kernel, by decide +kernel⟩

end F3.EmittedValid
