import F3.Proofs.InstanceRun
/-! More frame lemmas (generated skeleton): `rounds`, `candidates`, `proposal`, `quality`. -/
namespace F3.Instance

@[simp] theorem addCandidate_rounds (s : State) (c : Chain) : (s.addCandidate c).1.rounds = s.rounds := by
  unfold State.addCandidate; frame_tac
@[simp] theorem addCandidate_proposal (s : State) (c : Chain) : (s.addCandidate c).1.proposal = s.proposal := by
  unfold State.addCandidate; frame_tac
@[simp] theorem addCandidate_quality (s : State) (c : Chain) : (s.addCandidate c).1.quality = s.quality := by
  unfold State.addCandidate; frame_tac
@[simp] theorem tryRebroadcast_rounds (s : State) (now : Int) : (s.tryRebroadcast now).1.rounds = s.rounds := by
  unfold State.tryRebroadcast State.resetReb; frame_tac
@[simp] theorem tryRebroadcast_candidates (s : State) (now : Int) : (s.tryRebroadcast now).1.candidates = s.candidates := by
  unfold State.tryRebroadcast State.resetReb; frame_tac
@[simp] theorem tryRebroadcast_proposal (s : State) (now : Int) : (s.tryRebroadcast now).1.proposal = s.proposal := by
  unfold State.tryRebroadcast State.resetReb; frame_tac
@[simp] theorem tryRebroadcast_quality (s : State) (now : Int) : (s.tryRebroadcast now).1.quality = s.quality := by
  unfold State.tryRebroadcast State.resetReb; frame_tac
@[simp] theorem beginQuality_rounds (s : State) (now : Int) : (s.beginQuality now).1.rounds = s.rounds := by
  unfold State.beginQuality State.alarmAfter State.resetReb; frame_tac
@[simp] theorem beginQuality_candidates (s : State) (now : Int) : (s.beginQuality now).1.candidates = s.candidates := by
  unfold State.beginQuality State.alarmAfter State.resetReb; frame_tac
@[simp] theorem beginQuality_proposal (s : State) (now : Int) : (s.beginQuality now).1.proposal = s.proposal := by
  unfold State.beginQuality State.alarmAfter State.resetReb; frame_tac
@[simp] theorem beginQuality_quality (s : State) (now : Int) : (s.beginQuality now).1.quality = s.quality := by
  unfold State.beginQuality State.alarmAfter State.resetReb; frame_tac
@[simp] theorem beginPrepare_rounds (s : State) (now : Int) (j : Option Just) : (s.beginPrepare now j).1.rounds = s.rounds := by
  unfold State.beginPrepare State.alarmAfter State.resetReb; frame_tac
@[simp] theorem beginPrepare_candidates (s : State) (now : Int) (j : Option Just) : (s.beginPrepare now j).1.candidates = s.candidates := by
  unfold State.beginPrepare State.alarmAfter State.resetReb; frame_tac
@[simp] theorem beginPrepare_proposal (s : State) (now : Int) (j : Option Just) : (s.beginPrepare now j).1.proposal = s.proposal := by
  unfold State.beginPrepare State.alarmAfter State.resetReb; frame_tac
@[simp] theorem beginPrepare_quality (s : State) (now : Int) (j : Option Just) : (s.beginPrepare now j).1.quality = s.quality := by
  unfold State.beginPrepare State.alarmAfter State.resetReb; frame_tac
@[simp] theorem beginCommit_rounds (s : State) (now : Int) : (s.beginCommit now).1.rounds = s.rounds := by
  unfold State.beginCommit State.alarmAfter State.resetReb; frame_tac
@[simp] theorem beginCommit_candidates (s : State) (now : Int) : (s.beginCommit now).1.candidates = s.candidates := by
  unfold State.beginCommit State.alarmAfter State.resetReb; frame_tac
@[simp] theorem beginCommit_proposal (s : State) (now : Int) : (s.beginCommit now).1.proposal = s.proposal := by
  unfold State.beginCommit State.alarmAfter State.resetReb; frame_tac
@[simp] theorem beginCommit_quality (s : State) (now : Int) : (s.beginCommit now).1.quality = s.quality := by
  unfold State.beginCommit State.alarmAfter State.resetReb; frame_tac
@[simp] theorem beginConverge_candidates (s : State) (now : Int) (j : Just) : (s.beginConverge now j).1.candidates = s.candidates := by
  unfold State.beginConverge State.alarmAfter State.resetReb State.setRound; frame_tac
@[simp] theorem beginConverge_proposal (s : State) (now : Int) (j : Just) : (s.beginConverge now j).1.proposal = s.proposal := by
  unfold State.beginConverge State.alarmAfter State.resetReb State.setRound; frame_tac
@[simp] theorem beginConverge_quality (s : State) (now : Int) (j : Just) : (s.beginConverge now j).1.quality = s.quality := by
  unfold State.beginConverge State.alarmAfter State.resetReb State.setRound; frame_tac
@[simp] theorem beginDecide_rounds (s : State) (r : Nat) : (s.beginDecide r).1.rounds = s.rounds := by
  unfold State.beginDecide State.resetReb; frame_tac
@[simp] theorem beginDecide_candidates (s : State) (r : Nat) : (s.beginDecide r).1.candidates = s.candidates := by
  unfold State.beginDecide State.resetReb; frame_tac
@[simp] theorem beginDecide_proposal (s : State) (r : Nat) : (s.beginDecide r).1.proposal = s.proposal := by
  unfold State.beginDecide State.resetReb; frame_tac
@[simp] theorem beginDecide_quality (s : State) (r : Nat) : (s.beginDecide r).1.quality = s.quality := by
  unfold State.beginDecide State.resetReb; frame_tac
@[simp] theorem skipToDecide_rounds (s : State) (v : Chain) (j : Option Just) : (s.skipToDecide v j).1.rounds = s.rounds := by
  unfold State.skipToDecide State.resetReb; frame_tac
@[simp] theorem skipToDecide_candidates (s : State) (v : Chain) (j : Option Just) : (s.skipToDecide v j).1.candidates = s.candidates := by
  unfold State.skipToDecide State.resetReb; frame_tac
@[simp] theorem skipToDecide_quality (s : State) (v : Chain) (j : Option Just) : (s.skipToDecide v j).1.quality = s.quality := by
  unfold State.skipToDecide State.resetReb; frame_tac
@[simp] theorem beginNextRound_candidates (s : State) (now : Int) : (s.beginNextRound now).1.candidates = s.candidates := by
  unfold State.beginNextRound; frame_tac
@[simp] theorem beginNextRound_proposal (s : State) (now : Int) : (s.beginNextRound now).1.proposal = s.proposal := by
  unfold State.beginNextRound; frame_tac
@[simp] theorem beginNextRound_quality (s : State) (now : Int) : (s.beginNextRound now).1.quality = s.quality := by
  unfold State.beginNextRound; frame_tac
@[simp] theorem prepareValue_rounds (s : State) (now : Int) : (s.prepareValue now).rounds = s.rounds := by
  unfold State.prepareValue; frame_tac
@[simp] theorem prepareValue_candidates (s : State) (now : Int) : (s.prepareValue now).candidates = s.candidates := by
  unfold State.prepareValue; frame_tac
@[simp] theorem prepareValue_proposal (s : State) (now : Int) : (s.prepareValue now).proposal = s.proposal := by
  unfold State.prepareValue; frame_tac
@[simp] theorem prepareValue_quality (s : State) (now : Int) : (s.prepareValue now).quality = s.quality := by
  unfold State.prepareValue; frame_tac
@[simp] theorem commitSway_rounds (s : State) (q : Tally) : (s.commitSway q).rounds = s.rounds := by
  unfold State.commitSway State.addCandidate; frame_tac
@[simp] theorem commitSway_quality (s : State) (q : Tally) : (s.commitSway q).quality = s.quality := by
  unfold State.commitSway State.addCandidate; frame_tac
@[simp] theorem tryPrepare_rounds (s : State) (now : Int) : (s.tryPrepare now).1.rounds = s.rounds := by
  unfold State.tryPrepare; frame_tac
@[simp] theorem tryPrepare_candidates (s : State) (now : Int) : (s.tryPrepare now).1.candidates = s.candidates := by
  unfold State.tryPrepare; frame_tac
@[simp] theorem tryPrepare_proposal (s : State) (now : Int) : (s.tryPrepare now).1.proposal = s.proposal := by
  unfold State.tryPrepare; frame_tac
@[simp] theorem tryPrepare_quality (s : State) (now : Int) : (s.tryPrepare now).1.quality = s.quality := by
  unfold State.tryPrepare; frame_tac
@[simp] theorem addCandidatePrefixes_rounds (s : State) (c : Chain) : (s.addCandidatePrefixes c).1.rounds = s.rounds := by
  unfold State.addCandidatePrefixes
  generalize ((List.range (c.length - 1)).reverse.map (· + 1)) = l
  suffices h : ∀ (acc : State × Bool), acc.1.rounds = s.rounds →
      (l.foldl (fun (acc : State × Bool) l =>
        let r := acc.1.addCandidate (prefixTo c l); (r.1, acc.2 || r.2)) acc).1.rounds = s.rounds from h (s, false) rfl
  induction l with
  | nil => intro acc h; simpa using h
  | cons x xs ih =>
    intro acc h
    simp only [List.foldl_cons]
    apply ih
    simpa using h
@[simp] theorem addCandidatePrefixes_proposal (s : State) (c : Chain) : (s.addCandidatePrefixes c).1.proposal = s.proposal := by
  unfold State.addCandidatePrefixes
  generalize ((List.range (c.length - 1)).reverse.map (· + 1)) = l
  suffices h : ∀ (acc : State × Bool), acc.1.proposal = s.proposal →
      (l.foldl (fun (acc : State × Bool) l =>
        let r := acc.1.addCandidate (prefixTo c l); (r.1, acc.2 || r.2)) acc).1.proposal = s.proposal from h (s, false) rfl
  induction l with
  | nil => intro acc h; simpa using h
  | cons x xs ih =>
    intro acc h
    simp only [List.foldl_cons]
    apply ih
    simpa using h
@[simp] theorem addCandidatePrefixes_quality (s : State) (c : Chain) : (s.addCandidatePrefixes c).1.quality = s.quality := by
  unfold State.addCandidatePrefixes
  generalize ((List.range (c.length - 1)).reverse.map (· + 1)) = l
  suffices h : ∀ (acc : State × Bool), acc.1.quality = s.quality →
      (l.foldl (fun (acc : State × Bool) l =>
        let r := acc.1.addCandidate (prefixTo c l); (r.1, acc.2 || r.2)) acc).1.quality = s.quality from h (s, false) rfl
  induction l with
  | nil => intro acc h; simpa using h
  | cons x xs ih =>
    intro acc h
    simp only [List.foldl_cons]
    apply ih
    simpa using h

end F3.Instance
