import F3.Proofs.NoFailureRun
/-!
# Failure-freedom at the participant API (`pstepWith`, `prun`)

Before the instance has begun every message is queued; the first alarm begins the instance and drains the queue through
`instance.ReceiveMany`, which drops late-binding rejects (`wrongSupp`, `wrongBase`) silently but *returns* on
`wrongInstance`. The Go participant keeps one queue per instance, so only messages of the current instance reach
`ReceiveMany`: the hypothesis on delivered messages is `PMsgOK` — of this instance, and valid unless the supplemental
data differ.
-/
namespace F3.Instance

/-- what the participant hands to the instance: a message of this instance, validated unless its supplemental data
are not the instance's (such a message is refused at the door / dropped by the drain whatever else it contains) -/
def PMsgOK (W : Votes) (t : Table) (m : Msg) : Prop :=
  m.instOk = true ∧ (m.suppOk = false ∨ MsgValid W t m)

theorem PMsgOK.top {W : Votes} {t : Table} {m : Msg} (h : PMsgOK W t m) : PMsgOK WT t m :=
  ⟨h.1, h.2.imp id (fun hv => hv.top)⟩

theorem PMsgOK.foreign_or {W : Votes} {t : Table} {m : Msg} (h : PMsgOK W t m) : foreignM m = true ∨ MsgValid W t m := by
  rcases h.2 with hs | hv
  · left; simp [foreignM, hs]
  · exact Or.inr hv

theorem isLateBinding_of_nofail (es : List Eff) (h : hasFailure es = false) : isLateBinding es = false := by
  unfold isLateBinding
  rw [List.any_eq_false]
  intro e he
  obtain ⟨_, hk⟩ := mem_nofail h he
  cases e <;> simp
  exact absurd rfl (hk _)

/-- a message of this instance: late-binding reject (dropped by the drain), or processed without failure -/
theorem receiveOne_pm {s : State} (now : Int) (m : Msg) (h : NFI s) (hm : PMsgOK WT s.tbl m) :
    (isLateBinding (s.receiveOne now m).1.2 = true) ∨
    (hasFailure (s.receiveOne now m).1.2 = false ∧ NFI (s.receiveOne now m).1.1) := by
  rcases hm.2 with hs | hv
  · left
    unfold State.receiveOne State.recvPre
    simp [hm.1, hs, isLateBinding]
  · rcases receiveOne_nf now m h hv with ⟨k, hk, heq⟩ | hok
    · left
      rw [heq]
      have hkind : k = .wrongSupp ∨ k = .wrongBase := by
        unfold State.recvPre at hk
        simp only [hm.1, Bool.not_true, Bool.false_eq_true, if_false] at hk
        repeat' split at hk
        all_goals first
          | (injection hk with hk; subst hk; simp)
          | cases hk
      rcases hkind with rfl | rfl <;> simp [isLateBinding]
    · exact Or.inr hok

/-! ### the drain: `ReceiveMany` -/

theorem rmFold_nf (now : Int) (t : Table) (ms : List Msg) (st : State) (effs : List Eff) (rounds : List Nat)
    (h : NFI st) (hq : DQ st) (htb : st.tbl = t) (hnf0 : hasFailure effs = false)
    (hP : ∀ m ∈ ms, PMsgOK WT t m) (hsorted : RoundSorted ms)
    (hrounds : ∀ r ∈ rounds, ∀ m ∈ ms, r ≤ m.round)
    (hterm : st.phase = .terminated → ∀ r ∈ rounds, r = 0) :
    (ms.foldl (rmStep now) (st, effs, rounds, false)).2.2.2 = false ∧
    NFI (ms.foldl (rmStep now) (st, effs, rounds, false)).1 ∧
    DQ (ms.foldl (rmStep now) (st, effs, rounds, false)).1 ∧
    (ms.foldl (rmStep now) (st, effs, rounds, false)).1.tbl = t ∧
    hasFailure (ms.foldl (rmStep now) (st, effs, rounds, false)).2.1 = false ∧
    ((ms.foldl (rmStep now) (st, effs, rounds, false)).1.phase = .terminated →
      ∀ r ∈ (ms.foldl (rmStep now) (st, effs, rounds, false)).2.2.1, r = 0) := by
  induction ms generalizing st effs rounds with
  | nil => exact ⟨rfl, h, hq, htb, hnf0, hterm⟩
  | cons m ms ih =>
    rw [List.foldl_cons]
    have hs' := List.pairwise_cons.1 hsorted
    have hP' : ∀ m' ∈ ms, PMsgOK WT t m' := fun m' hm' => hP m' (List.mem_cons_of_mem _ hm')
    have hPm : PMsgOK WT st.tbl m := by rw [htb]; exact hP m List.mem_cons_self
    rcases receiveOne_pm now m h hPm with hlb | ⟨hf', hi'⟩
    · have : rmStep now (st, effs, rounds, false) m = (st, effs, rounds, false) := by simp [rmStep, hlb]
      rw [this]
      exact ih st effs rounds h hq htb hnf0 hP' hs'.2
        (fun r hr m' hm' => hrounds r hr m' (List.mem_cons_of_mem _ hm')) hterm
    · have hlb : isLateBinding (st.receiveOne now m).1.2 = false := isLateBinding_of_nofail _ hf'
      have : rmStep now (st, effs, rounds, false) m =
          ((st.receiveOne now m).1.1, effs ++ (st.receiveOne now m).1.2,
           if (st.receiveOne now m).2 && !rounds.contains m.round then rounds ++ [m.round] else rounds, false) := by
        simp [rmStep, hlb, hf']
      rw [this]
      have hq' := receiveOne_dq st now m hq hf'
      have hmok : MsgOk m := by
        intro hd
        rcases hPm.2 with hs | hv
        · -- other supplemental data: rejected, but then `receiveOne` reports an error
          exfalso
          have : hasFailure (st.receiveOne now m).1.2 = true := receiveOne_foreign st now m (by simp [foreignM, hs])
          rw [hf'] at this; cases this
        · exact MsgValid.msgOk (W := WT) hv hd
      refine ih _ _ _ hi' hq' ((receiveOne_tbl_input st now m).1.trans htb) (by simp [hnf0, hf']) hP' hs'.2 ?_ ?_
      · intro r hr m' hm'
        split at hr
        · rcases List.mem_append.1 hr with hr | hr
          · exact hrounds r hr m' (List.mem_cons_of_mem _ hm')
          · simp only [List.mem_singleton] at hr
            subst hr; exact hs'.1 m' hm'
        · exact hrounds r hr m' (List.mem_cons_of_mem _ hm')
      · intro ht1 r hr
        by_cases ht0 : st.phase = .terminated
        · obtain ⟨_, hch⟩ := receiveOne_terminated st now m ht0
          simp only [hch, Bool.false_and, Bool.false_eq_true, if_false] at hr
          exact hterm ht0 r hr
        · have hdec : m.phase = .decide := by
            rcases receiveOne_term_dq now m hq hf' ht1 with h' | h'
            · exact absurd h' ht0
            · exact h'
          have hr0 : m.round = 0 := hmok hdec
          have hle : ∀ r ∈ rounds, r = 0 := fun r hr => by
            have := hrounds r hr m List.mem_cons_self; omega
          split at hr
          · rcases List.mem_append.1 hr with hr | hr
            · exact hle r hr
            · simp only [List.mem_singleton] at hr; omega
          · exact hle r hr

/-- **`ReceiveMany` reports no failure**: the drain of round-sorted messages of this instance, each validated unless
its supplemental data differ, into a started, non-terminated instance -/
theorem receiveMany_nf (now : Int) (s : State) (ms : List Msg) (h : NFI s) (hq : DQ s) (hnt : s.phase ≠ .terminated)
    (hP : ∀ m ∈ ms, PMsgOK WT s.tbl m) (hsorted : RoundSorted ms) :
    hasFailure (s.receiveMany now ms).2 = false ∧ NFI (s.receiveMany now ms).1 ∧ DQ (s.receiveMany now ms).1 ∧
      (s.receiveMany now ms).1.tbl = s.tbl := by
  rw [receiveMany_eq]
  have hnt' : (s.phase == .terminated) = false := by simpa using hnt
  simp only [hnt', Bool.false_eq_true, if_false]
  obtain ⟨hfail, hi, hq', htb', hnf', hterm⟩ := rmFold_nf now s.tbl ms s [] [] h hq rfl rfl hP hsorted (by simp) (by simp)
  simp only [hfail, Bool.false_eq_true, if_false]
  generalize ms.foldl (rmStep now) (s, [], [], false) = acc at *
  rcases go_cases now acc.1 (sortNat acc.2.2.1).reverse with hgo | ⟨r, hr, hgo, hne⟩
  · rw [hgo]
    exact ⟨by simpa using hnf', hi, hq', htb'⟩
  · rw [hgo]
    have hnt1 : acc.1.phase ≠ .terminated := by
      intro ht
      have hr' : r ∈ acc.2.2.1 := by
        rw [List.mem_reverse, sortNat_mem] at hr; exact hr
      have hr0 := hterm ht r hr'
      rw [postReceive_noop _ _ _ (by omega)] at hne
      exact hne rfl
    have hp := postReceive_nf now r hi hnt1
    refine ⟨by simp [hnf', hp.1], NFI.of_gok (postReceive_gok now r hi.1 hnt1) hp, ?_, by simpa using htb'⟩
    rcases mstep_ok acc.1 (.post now r) hq' hnt1 with hf | ⟨_, hq2⟩
    · exact absurd (hf.symm.trans hp.1) (by decide)
    · exact hq2

/-! ### participant calls and runs -/

/-- the invariant of a participant run: before the first alarm the instance is untouched and the queue holds
messages of this instance only; afterwards the instance satisfies `NFI` and `DQ` -/
structure PInv (cfg : Cfg) (t : Table) (input : Chain) (p : PState) : Prop where
  tbl : p.inst.tbl = t
  pre : p.started = false → p.inst = init cfg t input ∧ ∀ m ∈ p.queue, PMsgOK WT t m
  post : p.started = true → NFI p.inst ∧ DQ p.inst

theorem PInv_pinit (cfg : Cfg) (t : Table) (input : Chain) : PInv cfg t input (pinit cfg t input) :=
  ⟨rfl, fun _ => ⟨rfl, by simp [pinit]⟩, fun h => by simp [pinit] at h⟩

theorem pstep_nf (cfg : Cfg) (t : Table) (input : Chain) (hin : input ≠ []) (hT : 0 < t.total)
    (order : List Pid) (p : PState) (op : POp) (hinv : PInv cfg t input p) (hop : POpP (PMsgOK WT t) op) :
    (prefused p op = true ∨ hasFailure (pstepWith order p op).2 = false) ∧ PInv cfg t input (pstepWith order p op).1 := by
  cases op with
  | alarm now =>
    unfold pstepWith
    dsimp only
    by_cases hs : p.started = true
    · simp only [hs, Bool.not_true, Bool.false_eq_true, if_false]
      obtain ⟨hi, hq⟩ := hinv.post hs
      obtain ⟨h1, h2, h3⟩ := step_nf (.alarm now) hi hq (Or.inr trivial) rfl
      refine ⟨Or.inr (h1.resolve_left (by simp [refusedOp])), ?_, fun h => ?_, fun _ => ⟨h2, h3⟩⟩
      · show (step p.inst (.alarm now)).1.tbl = t
        rw [step_tbl]; exact hinv.tbl
      · simp at h
    · have hs' : p.started = false := by simpa using hs
      simp only [hs', Bool.not_false, if_true]
      obtain ⟨hinit, hqu⟩ := hinv.pre hs'
      rw [hinit]
      obtain ⟨h1, h2, h3⟩ := start_nf cfg t input now hin hT
      have hbq : step (init cfg t input) (.start now) = (init cfg t input).beginQuality now := rfl
      rw [hbq] at h1 h2 h3
      rw [if_neg (by simp [h1])]
      have htb1 : ((init cfg t input).beginQuality now).1.tbl = t := by simp [init]
      have hnt : ((init cfg t input).beginQuality now).1.phase ≠ .terminated := by
        intro hc
        have : ((init cfg t input).beginQuality now).1.phase = .quality := rfl
        rw [this] at hc; cases hc
      obtain ⟨g1, g2, g3, g4⟩ := receiveMany_nf now _ (drainWith order p.queue) h2 h3 hnt
        (fun m hm => by rw [htb1]; exact hqu m (drainWith_mem order p.queue m hm)) (drainWith_sorted order p.queue)
      refine ⟨Or.inr (by simp [h1, g1]), ?_, fun h => (by cases h), fun _ => ⟨g2, g3⟩⟩
      show (((init cfg t input).beginQuality now).1.receiveMany now (drainWith order p.queue)).1.tbl = t
      rw [g4, htb1]
  | recv now m =>
    unfold pstepWith
    dsimp only
    by_cases hs : p.started = true
    · simp only [hs, Bool.not_true, Bool.false_eq_true, if_false]
      obtain ⟨hi, hq⟩ := hinv.post hs
      have hop' : foreignOp (.recv now m) = true ∨ OpValidG WT p.inst.tbl (.recv now m) := by
        rw [hinv.tbl]; exact PMsgOK.foreign_or hop
      obtain ⟨h1, h2, h3⟩ := step_nf (.recv now m) hi hq hop' rfl
      refine ⟨h1.imp (fun hr => by simpa [prefused, hs, refusedOp] using hr) id, ?_, fun h => ?_, fun _ => ⟨h2, h3⟩⟩
      · show (step p.inst (.recv now m)).1.tbl = t
        rw [step_tbl]; exact hinv.tbl
      · simp at h
    · have hs' : p.started = false := by simpa using hs
      simp only [hs', Bool.not_false, if_true]
      obtain ⟨hinit, hqu⟩ := hinv.pre hs'
      obtain ⟨e1, e2⟩ := queueAdd_inst p m
      refine ⟨Or.inr rfl, by rw [e1]; exact hinv.tbl, fun _ => ⟨by rw [e1]; exact hinit, ?_⟩,
        fun h => by rw [e2, hs'] at h; cases h⟩
      intro x hx
      rcases queueAdd_mem p m x hx with h | rfl
      · exact hqu x h
      · exact hop

theorem prun_nf (cfg : Cfg) (t : Table) (input : Chain) (hin : input ≠ []) (hT : 0 < t.total)
    (order : List Pid) (p : PState) (ops : List POp) (hinv : PInv cfg t input p)
    (hops : ∀ op ∈ ops, POpP (PMsgOK WT t) op) :
    okRunP order p ops = true ∧ PInv cfg t input (prun order p ops).1 := by
  induction ops generalizing p with
  | nil => exact ⟨rfl, hinv⟩
  | cons op ops ih =>
    obtain ⟨h1, h2⟩ := pstep_nf cfg t input hin hT order p op hinv (hops op List.mem_cons_self)
    have := ih _ h2 (fun o ho => hops o (List.mem_cons_of_mem _ ho))
    rw [prun_cons]
    refine ⟨?_, this.2⟩
    simp only [okRunP, Bool.and_eq_true, Bool.or_eq_true, Bool.not_eq_true']
    exact ⟨h1, this.1⟩

theorem POpP.mono {P Q : Msg → Prop} (h : ∀ m, P m → Q m) {op : POp} (hop : POpP P op) : POpP Q op := by
  cases op with
  | recv now m => exact h m hop
  | alarm _ => trivial

theorem POpP.foreign_or_ok {W : Votes} {t : Table} {op : POp} (h : POpP (PMsgOK W t) op) :
    pforeign op = true ∨ POpOk op := by
  cases op with
  | recv now m => exact (PMsgOK.foreign_or h).imp id (fun hv => MsgValid.msgOk (W := W) hv)
  | alarm _ => exact Or.inr trivial

/-- **No internal error or panic, participant level.** -/
theorem prun_ok (cfg : Cfg) (t : Table) (input : Chain) (W : Votes) (order : List Pid) (ops : List POp)
    (hin : input ≠ []) (hT : 0 < t.total) (hops : ∀ op ∈ ops, POpP (PMsgOK W t) op) :
    okRunP order (pinit cfg t input) ops = true :=
  (prun_nf cfg t input hin hT order _ ops (PInv_pinit cfg t input)
    (fun op hop => (hops op hop).mono (fun _ h => h.top))).1

/-- a refused delivery at the participant API: the one effect is a refusal error -/
theorem pstep_prefused (order : List Pid) (p : PState) (op : POp) (h : prefused p op = true) :
    ∃ k, (pstepWith order p op).2 = [.err k] ∧ (pstepWith order p op).1 = p ∧
      (k = .afterTermination ∨ k = .wrongInstance ∨ k = .wrongSupp ∨ k = .wrongBase) := by
  cases op with
  | alarm _ => cases h
  | recv now m =>
    simp only [prefused, Bool.and_eq_true] at h
    obtain ⟨k, hk, hkind⟩ := step_refusedOp (s := p.inst) (op := .recv now m) (by simpa [refusedOp] using h.2)
    refine ⟨k, ?_, ?_, hkind⟩
    · unfold pstepWith; simp [h.1, hk]
    · unfold pstepWith
      simp only [h.1, hk, Bool.not_true, Bool.false_eq_true, if_false]
      cases p
      simp_all

theorem okRunP_effects (order : List Pid) (p : PState) (ops : List POp) (h : okRunP order p ops = true) :
    ∀ e ∈ (prun order p ops).2, (∀ q, e ≠ .panic q) ∧
      (∀ k, e = .err k → k = .afterTermination ∨ k = .wrongInstance ∨ k = .wrongSupp ∨ k = .wrongBase) := by
  induction ops generalizing p with
  | nil => intro e he; simp [prun] at he
  | cons op ops ih =>
    simp only [okRunP, Bool.and_eq_true, Bool.or_eq_true, Bool.not_eq_true'] at h
    intro e he
    rw [prun_cons] at he
    rcases List.mem_append.1 he with he | he
    · rcases h.1 with hr | hnf
      · obtain ⟨k, hk, _, hkind⟩ := pstep_prefused order p op hr
        rw [hk] at he
        simp only [List.mem_singleton] at he
        subst he
        exact ⟨fun q hq => (by cases hq), fun k' hk' => (by injection hk' with hk'; subst hk'; exact hkind)⟩
      · obtain ⟨hp, hk⟩ := mem_nofail hnf he
        exact ⟨hp, fun k hk' => absurd hk' (hk k)⟩
    · exact ih _ h.2 e he

end F3.Instance
