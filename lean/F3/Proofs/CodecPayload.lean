import F3.Model.Payload
import F3.Proofs.CodecBytes
import F3.Proofs.CodecMerkle
/-! Lemmas about the signing-payload, tipset and VRF-input models (C14a). -/
namespace F3.Payload
open F3.Codec F3.Merkle

/-! ### the CBOR head in front of the tipset key -/

def hdrLen (n : Nat) : Nat :=
  if n < 24 then 1 else if n < 256 then 2 else if n < 65536 then 3 else if n < 4294967296 then 5 else 9

theorem hdr_length (maj n : Nat) : (hdr maj n).length = hdrLen n := by
  unfold hdr hdrLen
  split
  · rfl
  · split
    · rfl
    · split
      · simp [beN_length]
      · split <;> simp [beN_length]

theorem hdrLen_mono {a b : Nat} (h : a ≤ b) : hdrLen a ≤ hdrLen b := by
  unfold hdrLen
  repeat' split
  all_goals omega

/-- a length-prefixed byte string determines the string -/
theorem hdr_append_inj {maj : Nat} {a b : Bytes} (h : hdr maj a.length ++ a = hdr maj b.length ++ b) : a = b := by
  have hl := congrArg List.length h
  simp only [List.length_append, hdr_length] at hl
  have hab : a.length = b.length := by
    rcases Nat.lt_trichotomy a.length b.length with hlt | heq | hgt
    · have := hdrLen_mono (Nat.le_of_lt hlt); omega
    · exact heq
    · have := hdrLen_mono (Nat.le_of_lt hgt); omega
  rw [hab] at h
  exact List.append_cancel_left h

/-! ### the signing payload -/

/-- the Go types of the fields: `uint8`, `uint64`, `uint64`, `[32]byte`, `[32]byte` -/
structure SigInput.WF (p : SigInput) : Prop where
  phase : p.phase < 256
  round : p.round < 2 ^ 64
  inst : p.inst < 2 ^ 64
  commitments : p.commitments.length = 32
  key : p.key.length = 32

/-- everything after the network name and its separator -/
def sigTail (p : SigInput) : Bytes :=
  [p.phase % 256] ++ be64 p.round ++ be64 p.inst ++ p.commitments ++ p.key ++ p.ptCid

theorem payloadBytes_eq (p : SigInput) :
    payloadBytes p = (domainTag ++ [sep]) ++ (p.net ++ ([sep] ++ sigTail p)) := by
  simp [payloadBytes, sigTail, List.append_assoc]

theorem sigTail_length (p : SigInput) (hp : p.WF) : (sigTail p).length = 81 + p.ptCid.length := by
  simp [sigTail, be64_length, hp.commitments, hp.key]; omega

theorem sigTail_inj {p q : SigInput} (hp : p.WF) (hq : q.WF) (h : sigTail p = sigTail q) :
    p.phase = q.phase ∧ p.round = q.round ∧ p.inst = q.inst ∧ p.commitments = q.commitments ∧
      p.key = q.key ∧ p.ptCid = q.ptCid := by
  unfold sigTail at h
  simp only [List.append_assoc] at h
  obtain ⟨h1, h⟩ := List.append_inj h (by simp)
  obtain ⟨h2, h⟩ := List.append_inj h (by simp [be64_length])
  obtain ⟨h3, h⟩ := List.append_inj h (by simp [be64_length])
  obtain ⟨h4, h⟩ := List.append_inj h (by rw [hp.commitments, hq.commitments])
  obtain ⟨h5, h6⟩ := List.append_inj h (by rw [hp.key, hq.key])
  have hph : p.phase % 256 = q.phase % 256 := by simpa using h1
  rw [Nat.mod_eq_of_lt hp.phase, Nat.mod_eq_of_lt hq.phase] at hph
  exact ⟨hph, be64_inj hp.round hq.round h2, be64_inj hp.inst hq.inst h3, h4, h5, h6⟩

theorem SigInput.ext' {p q : SigInput} (h0 : p.net = q.net) (h1 : p.phase = q.phase) (h2 : p.round = q.round)
    (h3 : p.inst = q.inst) (h4 : p.commitments = q.commitments) (h5 : p.key = q.key) (h6 : p.ptCid = q.ptCid) :
    p = q := by
  cases p; cases q; simp_all

/-- For a fixed network name the signed bytes determine every other field. -/
theorem payload_inj_fixed_net {p q : SigInput} (hp : p.WF) (hq : q.WF) (hnet : p.net = q.net)
    (h : payloadBytes p = payloadBytes q) : p = q := by
  rw [payloadBytes_eq, payloadBytes_eq, hnet] at h
  have h' := List.append_cancel_left (List.append_cancel_left (List.append_cancel_left h))
  obtain ⟨h1, h2, h3, h4, h5, h6⟩ := sigTail_inj hp hq h'
  exact SigInput.ext' hnet h1 h2 h3 h4 h5 h6

/-- When the two power-table CIDs have the same length (in practice: always 38 bytes) the signed bytes
determine all fields, the network name included. -/
theorem payload_inj_cidlen {p q : SigInput} (hp : p.WF) (hq : q.WF) (hcid : p.ptCid.length = q.ptCid.length)
    (h : payloadBytes p = payloadBytes q) : p = q := by
  have h0 := h
  rw [payloadBytes_eq, payloadBytes_eq] at h
  have h' := List.append_cancel_left h
  have hl := congrArg List.length h'
  simp only [List.length_append, List.length_cons, List.length_nil, sigTail_length p hp, sigTail_length q hq] at hl
  have hnl : p.net.length = q.net.length := by omega
  obtain ⟨hnet, _⟩ := List.append_inj h' hnl
  exact payload_inj_fixed_net hp hq hnet h0

/-- Changing any one field changes the signed bytes: two well-typed inputs that differ, and that agree
on the network name or on the *length* of the power-table CID, never serialise to the same bytes.
(A single-field change always satisfies the side condition: either the network name is unchanged, or
it is the only change and then the CID is unchanged.) -/
theorem payload_sensitive {p q : SigInput} (hp : p.WF) (hq : q.WF) (hne : p ≠ q)
    (hside : p.net = q.net ∨ p.ptCid.length = q.ptCid.length) : payloadBytes p ≠ payloadBytes q := by
  intro h
  rcases hside with hn | hc
  · exact hne (payload_inj_fixed_net hp hq hn h)
  · exact hne (payload_inj_cidlen hp hq hc h)

/-! ### tipsets -/

/-- The *idealised* CID hash: globally injective with 32-byte output (false of blake2b-256 and of every
real hash, see `HashOK`). Used by the idealised-hash corollaries only. -/
structure CidHashOK (B : Bytes → Bytes) : Prop where
  inj : ∀ a b, B a = B b → a = b
  len : ∀ a, (B a).length = 32

structure TipSet.WF (t : TipSet) : Prop where
  epoch : -(2 ^ 63) ≤ t.epoch ∧ t.epoch < 2 ^ 63
  commitments : t.commitments.length = 32

theorem tsCid_length {B : Bytes → Bytes} (hB : CidHashOK B) (k : Bytes) : (tsCid B k).length = 38 := by
  simp [tsCid, cidPrefix, hB.len]

theorem tsCid_inj {B : Bytes → Bytes} (hB : CidHashOK B) {a b : Bytes} (h : tsCid B a = tsCid B b) : a = b := by
  unfold tsCid at h
  exact hdr_append_inj (hB.inj _ _ (List.append_cancel_left h))

/-- `TipSet.MarshalForSigning` determines epoch, commitments, key (through its CID) and power-table CID. -/
theorem tipset_inj {B : Bytes → Bytes} (hB : CidHashOK B) {s t : TipSet} (hs : s.WF) (ht : t.WF)
    (h : tipsetBytes B s = tipsetBytes B t) : s = t := by
  unfold tipsetBytes at h
  obtain ⟨h1, h⟩ := List.append_inj h (by simp [be64i_length])
  obtain ⟨h2, h⟩ := List.append_inj h (by rw [hs.commitments, ht.commitments])
  obtain ⟨h3, h4⟩ := List.append_inj h (by rw [tsCid_length hB, tsCid_length hB])
  have he := be64i_inj hs.epoch ht.epoch h1
  have hk := tsCid_inj hB h3
  cases s; cases t; simp_all

theorem map_tipsetBytes_inj {B : Bytes → Bytes} (hB : CidHashOK B) :
    ∀ (c d : List TipSet), (∀ t ∈ c, t.WF) → (∀ t ∈ d, t.WF) →
      c.map (tipsetBytes B) = d.map (tipsetBytes B) → c = d := by
  intro c
  induction c with
  | nil => intro d _ _ h; cases d with
    | nil => rfl
    | cons _ _ => simp at h
  | cons a c ih =>
    intro d hc hd h
    cases d with
    | nil => simp at h
    | cons b d =>
      simp only [List.map_cons, List.cons.injEq] at h
      have hab := tipset_inj hB (hc a (by simp)) (hd b (by simp)) h.1
      have := ih d (fun t ht => hc t (by simp [ht])) (fun t ht => hd t (by simp [ht])) h.2
      rw [hab, this]

/-- The chain key determines the chain: its length, the order of its tipsets and every field of every
tipset (under collision-freeness of keccak-256 and blake2b-256). -/
theorem chainKey_inj {H B : Bytes → Bytes} (hH : HashOK H) (hB : CidHashOK B) (c d : List TipSet)
    (hc : ∀ t ∈ c, t.WF) (hd : ∀ t ∈ d, t.WF) (h : chainKey H B c = chainKey H B d) : c = d := by
  have key : ∀ (x : List TipSet), chainKey H B x = tree H (x.map (tipsetBytes B)) := by
    intro x; cases x with
    | nil => simp [chainKey, tree_nil]
    | cons _ _ => rfl
  rw [key, key] at h
  exact map_tipsetBytes_inj hB c d hc hd (tree_inj H hH _ _ h)

theorem chainKey_length {H B : Bytes → Bytes} (hH : HashOK H) (c : List TipSet) : (chainKey H B c).length = 32 := by
  cases c with
  | nil => rfl
  | cons _ _ => exact tree_length H hH _

/-- `KeysForPrefixes()[i]` (and therefore the key cached in `AllPrefixes()[i]`) is `Prefix(i).Key()`. -/
theorem keysForPrefixes_get (H B : Bytes → Bytes) (c : List TipSet) (i : Nat) (hi : i < c.length) :
    (keysForPrefixes H B c)[i]? = some (chainKey H B (chainPrefix c i)) := by
  unfold keysForPrefixes
  rw [batchTree_get H _ i (by simpa using hi)]
  unfold chainPrefix
  have hne : c.take (i + 1) ≠ [] := by
    intro hc
    have h' : (c.take (i + 1)).length = 0 := by rw [hc]; rfl
    rw [List.length_take] at h'; omega
  cases hx : c.take (i + 1) with
  | nil => exact absurd hx hne
  | cons a l => simp only [chainKey]; rw [← hx, List.map_take]

theorem keysForPrefixes_length (H B : Bytes → Bytes) (c : List TipSet) : (keysForPrefixes H B c).length = c.length := by
  simp [keysForPrefixes, batchTree_length]

/-! ### the VRF input -/

structure VrfInput.WF (v : VrfInput) : Prop where
  inst : v.inst < 2 ^ 64
  round : v.round < 2 ^ 64

theorem vrfBytes_eq (v : VrfInput) :
    vrfBytes v = (domainTagVRF ++ [sep]) ++ (v.net ++ ([sep] ++ (v.beacon ++ ([sep] ++ (be64 v.inst ++ be64 v.round))))) := by
  simp [vrfBytes, List.append_assoc]

theorem vrf_inj_fixed_net {v w : VrfInput} (hv : v.WF) (hw : w.WF) (hnet : v.net = w.net)
    (h : vrfBytes v = vrfBytes w) : v = w := by
  rw [vrfBytes_eq, vrfBytes_eq, hnet] at h
  have h' := List.append_cancel_left (List.append_cancel_left (List.append_cancel_left h))
  obtain ⟨hb, h2⟩ := List.append_inj' h' (by simp [be64_length])
  have h3 := List.append_cancel_left h2
  obtain ⟨hi, hr⟩ := List.append_inj h3 (by simp [be64_length])
  have := be64_inj hv.inst hw.inst hi
  have := be64_inj hv.round hw.round hr
  cases v; cases w; simp_all

theorem vrf_inj_beaconlen {v w : VrfInput} (hv : v.WF) (hw : w.WF) (hlen : v.beacon.length = w.beacon.length)
    (h : vrfBytes v = vrfBytes w) : v = w := by
  have h0 := h
  rw [vrfBytes_eq, vrfBytes_eq] at h
  have h' := List.append_cancel_left h
  have hl := congrArg List.length h'
  simp only [List.length_append, List.length_cons, List.length_nil, be64_length] at hl
  obtain ⟨hnet, _⟩ := List.append_inj h' (by omega)
  exact vrf_inj_fixed_net hv hw hnet h0

/-- Changing any one of beacon, instance, round, network name changes the VRF input. -/
theorem vrf_sensitive {v w : VrfInput} (hv : v.WF) (hw : w.WF) (hne : v ≠ w)
    (hside : v.net = w.net ∨ v.beacon.length = w.beacon.length) : vrfBytes v ≠ vrfBytes w := by
  intro h
  rcases hside with hn | hb
  · exact hne (vrf_inj_fixed_net hv hw hn h)
  · exact hne (vrf_inj_beaconlen hv hw hb h)

end F3.Payload
