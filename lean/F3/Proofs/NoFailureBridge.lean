import F3.Proofs.NoFailureRun
import F3.Proofs.BridgeEx
/-!
# Failure-freedom and the bridge to Layer A

`F3.Bridge.okRun` — the `ok` field of `HonestRun`, so far a hypothesis discharged by the oracle on the
implementation — is a theorem for every run of one `Start` followed by alarms and validated (or foreign) deliveries:
`okRun_of_valid`. `ValidRun` is `HonestRun` without the `ok` field, `NetworkV` the corresponding network;
`ValidRun.toHonest` / `NetworkV.toNetwork` supply the field.
-/
namespace F3.Bridge
open F3 F3.Instance

theorem refused_eq (s : State) (op : Op) : refused s op = refusedOp s op := by
  cases op <;> rfl

theorem foreign_eq (op : Op) : foreign op = foreignOp op := by
  cases op <;> rfl

theorem okRun_eq (s : State) (ops : List Op) : okRun s ops = okRunI s ops := by
  induction ops generalizing s with
  | nil => rfl
  | cons op ops ih => simp only [okRun, okRunI, refused_eq, ih]

/-- **`okRun` is a theorem.** -/
theorem okRun_of_valid (cfg : Cfg) (t : Table) (input : Chain) (W : Votes) (now0 : Int) (ops : List Op)
    (hin : input ≠ []) (hT : 0 < t.total)
    (hstart : ∀ op ∈ ops, op.isStart = false)
    (hvalid : ∀ op ∈ ops, foreign op = true ∨ OpValidG W t op) :
    okRun (init cfg t input) (.start now0 :: ops) = true := by
  rw [okRun_eq]
  exact run_nf cfg t input W now0 ops hin hT
    (fun op hop => ⟨hstart op hop, by rw [← foreign_eq]; exact hvalid op hop⟩)

/-- one honest participant's execution of the instance model, *without* any assumption on the errors it reports:
`Start`, then any sequence of alarms and deliveries -/
structure ValidRun (W : Votes) (t : Table) (p : Pid) where
  cfg : Cfg
  input : Chain
  /-- the time of the one `Start` -/
  start : Int
  /-- the calls after `Start` -/
  ops : List Op
  inputNe : input ≠ []
  /-- `Start` is called once (`Participant.beginInstance`) -/
  noRestart : ∀ op ∈ ops, op.isStart = false
  /-- every delivered message of this instance passed validation (C05) -/
  valid : ∀ op ∈ ops, foreign op = true ∨ OpValidG W t op
  /-- unforgeability: the votes of `p` in existence are exactly those it broadcast -/
  own : ∀ r ph v, W p r ph v ↔ ∃ tk j, Eff.broadcast r ph v tk j ∈ (run (init cfg t input) (.start start :: ops)).2

/-- the `ok` field of `HonestRun` is supplied by `okRun_of_valid` -/
def ValidRun.toHonest {W : Votes} {t : Table} {p : Pid} (vr : ValidRun W t p) (hT : 0 < t.total) : HonestRun W t p where
  cfg := vr.cfg
  input := vr.input
  ops := .start vr.start :: vr.ops
  inputNe := vr.inputNe
  valid := by
    intro op hop
    rcases List.mem_cons.1 hop with rfl | hop
    · exact Or.inr trivial
    · exact vr.valid op hop
  ok := okRun_of_valid vr.cfg t vr.input W vr.start vr.ops vr.inputNe hT vr.noRestart vr.valid
  own := vr.own

/-- `HonestRun` from its fields other than `ok`, for a run that begins with its one `Start` -/
def HonestRun.ofValid {W : Votes} {t : Table} {p : Pid} (cfg : Cfg) (input : Chain) (now0 : Int) (ops : List Op)
    (inputNe : input ≠ []) (hT : 0 < t.total) (noRestart : ∀ op ∈ ops, op.isStart = false)
    (valid : ∀ op ∈ ops, foreign op = true ∨ OpValidG W t op)
    (own : ∀ r ph v, W p r ph v ↔ ∃ tk j, Eff.broadcast r ph v tk j ∈ (run (init cfg t input) (.start now0 :: ops)).2) :
    HonestRun W t p :=
  ValidRun.toHonest ⟨cfg, input, now0, ops, inputNe, noRestart, valid, own⟩ hT

/-- the standing assumptions about one instance of the network of model participants, none of them about errors -/
structure NetworkV (t : Table) (F : Finset Pid) (W : Votes) where
  idsNodup : (ids t).Nodup
  totalPos : 0 < t.total
  faultBound : 3 * (world t F W).power F < (world t F W).T
  nonMembers : ∀ p, p ∉ (ids t).toFinset → ∀ r ph v, ¬ W p r ph v
  runs : ∀ p, p ∈ (ids t).toFinset → p ∉ F → ValidRun W t p

def NetworkV.toNetwork {t : Table} {F : Finset Pid} {W : Votes} (N : NetworkV t F W) : Network t F W where
  idsNodup := N.idsNodup
  totalPos := N.totalPos
  faultBound := N.faultBound
  nonMembers := N.nonMembers
  runs := fun p hp hF => (N.runs p hp hF).toHonest N.totalPos

/-! ### the example network of `F3.Proofs.BridgeEx`, without the `ok` fields -/

def exRunV (p : Pid) (hp : p = 1 ∨ p = 2 ∨ p = 3) : ValidRun exW exTbl p where
  cfg := exCfg
  input := [7, 8]
  start := 0
  ops := exOps.tail
  inputNe := by decide
  noRestart := by
    have : exOps.tail.all (fun op => !op.isStart) = true := by decide
    intro op hop
    simpa using List.all_eq_true.1 this op hop
  valid := opValidB_sound exVotes exTbl exOps.tail (by decide)
  own := (exRun p hp).own

def exNetV : NetworkV exTbl exF exW where
  idsNodup := exNet.idsNodup
  totalPos := exNet.totalPos
  faultBound := exNet.faultBound
  nonMembers := exNet.nonMembers
  runs := fun p hp hF => exRunV p (by
    rw [ex_ids] at hp
    simp only [Finset.mem_insert, Finset.mem_singleton, exF] at hp hF
    rcases hp with h | h | h | h
    · exact Or.inl h
    · exact Or.inr (Or.inl h)
    · exact Or.inr (Or.inr h)
    · exact absurd h hF)

theorem ex_networkV_decides :
    ∃ d, (run (init (exNetV.runs 1 (by decide) (by decide)).cfg exTbl (exNetV.runs 1 (by decide) (by decide)).input)
      (.start (exNetV.runs 1 (by decide) (by decide)).start :: (exNetV.runs 1 (by decide) (by decide)).ops)).1.termination
        = some d ∧ d.value = [7, 8] :=
  ⟨{ round := 0, phase := .decide, value := [7, 8], signers := [0, 1, 2] }, by decide, rfl⟩

end F3.Bridge
