import F3.Proofs.ParticipantMicro
/-!
# Participant-level runs (`pstepWith`: `Participant.ReceiveAlarm` / `ReceiveMessage`) are micro-runs

* facts about the pre-start queue: `queueAdd` keeps at most one message per (sender, round, phase);
  `drainWith order` returns queued messages only, in non-decreasing round order, whatever `order` is;
* `State.receiveMany` (`instance.ReceiveMany`) as a fold of `receiveOne` followed by at most one effective
  `postReceive` — `receiveMany_micro`: a failure-free `receiveMany` over round-sorted validated messages is a
  micro-run satisfying `MOK` (in particular it never runs `postReceive` on a terminated instance: a DECIDE
  that terminates is for round 0 and everything drained before it is for round 0 too);
* `prun_micro`: every run of `pstepWith` (any drain order) whose calls report no error other than a refusal at
  the door has the same final instance state and the same non-error effects as a failure-free micro-run;
* `prun_wp`: the skeleton argument lifted to `prun` (`prun_decinv`, `prun_guarded`: `F3.Proofs.ParticipantInv`).
-/
namespace F3.Instance

/-! ### the participant-level run -/

/-- the participant before anything happened -/
def pinit (cfg : Cfg) (tbl : Table) (input : Chain) : PState := { inst := init cfg tbl input }

/-- a sequence of participant API calls; `order` is the sender order of the drain performed by the first alarm
(the only call that drains) -/
def prun (order : List Pid) (p : PState) (ops : List POp) : PState × List Eff :=
  ops.foldl (fun (acc : PState × List Eff) op => let r := pstepWith order acc.1 op; (r.1, acc.2 ++ r.2)) (p, [])

theorem pfoldl_acc (order : List Pid) (ops : List POp) (p : PState) (pre : List Eff) :
    ops.foldl (fun (acc : PState × List Eff) op => let r := pstepWith order acc.1 op; (r.1, acc.2 ++ r.2)) (p, pre) =
      ((prun order p ops).1, pre ++ (prun order p ops).2) := by
  induction ops generalizing p pre with
  | nil => simp [prun]
  | cons op ops ih =>
    simp only [prun, List.foldl_cons, List.nil_append]
    rw [ih, ih (pstepWith order p op).1 (pstepWith order p op).2]
    simp [List.append_assoc]

@[simp] theorem prun_nil (order : List Pid) (p : PState) : prun order p [] = (p, []) := rfl

theorem prun_cons (order : List Pid) (p : PState) (op : POp) (ops : List POp) :
    prun order p (op :: ops) =
      ((prun order (pstepWith order p op).1 ops).1,
       (pstepWith order p op).2 ++ (prun order (pstepWith order p op).1 ops).2) := by
  simp only [prun, List.foldl_cons, List.nil_append]
  exact pfoldl_acc order ops _ _

/-! ### the queue -/

/-- two messages compete for the same queue slot -/
def sameSlot (a b : Msg) : Prop := a.sender = b.sender ∧ a.round = b.round ∧ a.phase = b.phase

theorem queueAdd_mem (p : PState) (m x : Msg) (h : x ∈ (p.queueAdd m).queue) : x ∈ p.queue ∨ x = m := by
  unfold PState.queueAdd at h
  split at h
  · exact Or.inl h
  · split at h
    · exact Or.inl h
    · simpa using h

theorem queueAdd_inst (p : PState) (m : Msg) : (p.queueAdd m).inst = p.inst ∧ (p.queueAdd m).started = p.started := by
  unfold PState.queueAdd
  split
  · exact ⟨rfl, rfl⟩
  · split <;> exact ⟨rfl, rfl⟩

/-- `messageQueue.Add` keeps at most one message per (sender, round, phase) -/
theorem queueAdd_slots (p : PState) (m : Msg) (h : p.queue.Pairwise (fun a b => ¬ sameSlot a b)) :
    (p.queueAdd m).queue.Pairwise (fun a b => ¬ sameSlot a b) := by
  unfold PState.queueAdd
  split
  · exact h
  · split
    · exact h
    · rename_i hany
      simp only [List.any_eq_true, Bool.and_eq_true, beq_iff_eq, not_exists, not_and] at hany
      rw [List.pairwise_append]
      refine ⟨h, by simp, ?_⟩
      intro a ha b hb
      simp only [List.mem_singleton] at hb
      subst hb
      intro hs
      have h1 := hany a
      simp only [hs.1, hs.2.1, hs.2.2] at h1
      exact h1 ha (by simp) (by simp)

theorem insertStable_mem (m : Msg) (l : List Msg) (x : Msg) : x ∈ insertStable m l ↔ x = m ∨ x ∈ l := by
  induction l with
  | nil => simp [insertStable]
  | cons a as ih =>
    unfold insertStable
    split
    · simp only [List.mem_cons, ih]
      constructor
      · rintro (h | h | h)
        · exact Or.inr (Or.inl h)
        · exact Or.inl h
        · exact Or.inr (Or.inr h)
      · rintro (h | h | h)
        · exact Or.inr (Or.inl h)
        · exact Or.inl h
        · exact Or.inr (Or.inr h)
    · simp

theorem sortStable_foldl_mem (l acc : List Msg) (x : Msg) :
    x ∈ l.foldl (fun acc m => insertStable m acc) acc ↔ x ∈ acc ∨ x ∈ l := by
  induction l generalizing acc with
  | nil => simp
  | cons a as ih =>
    simp only [List.foldl_cons, ih, insertStable_mem, List.mem_cons]
    constructor
    · rintro ((h | h) | h)
      · exact Or.inr (Or.inl h)
      · exact Or.inl h
      · exact Or.inr (Or.inr h)
    · rintro (h | h | h)
      · exact Or.inl (Or.inr h)
      · exact Or.inl (Or.inl h)
      · exact Or.inr h

theorem sortStable_mem (l : List Msg) (x : Msg) : x ∈ sortStable l ↔ x ∈ l := by
  unfold sortStable
  rw [sortStable_foldl_mem]; simp

/-- non-decreasing rounds -/
def RoundSorted (l : List Msg) : Prop := l.Pairwise (fun a b => a.round ≤ b.round)

theorem insertStable_sorted (m : Msg) (l : List Msg) (h : RoundSorted l) : RoundSorted (insertStable m l) := by
  induction l with
  | nil => simp [insertStable, RoundSorted]
  | cons a as ih =>
    unfold RoundSorted at h ih ⊢
    have h' := List.pairwise_cons.1 h
    unfold insertStable
    split
    · rename_i hle
      have ham : a.round ≤ m.round := by
        unfold msgLe at hle
        simp only [Bool.or_eq_true, decide_eq_true_eq, Bool.and_eq_true, beq_iff_eq] at hle
        omega
      refine List.pairwise_cons.2 ⟨?_, ih h'.2⟩
      intro y hy
      rcases (insertStable_mem m as y).1 hy with rfl | hy
      · exact ham
      · exact h'.1 y hy
    · rename_i hle
      have hma : m.round ≤ a.round := by
        unfold msgLe at hle
        simp only [Bool.or_eq_true, decide_eq_true_eq, Bool.and_eq_true, beq_iff_eq, not_or, not_and] at hle
        omega
      refine List.pairwise_cons.2 ⟨?_, h⟩
      intro y hy
      rcases List.mem_cons.1 hy with rfl | hy
      · exact hma
      · exact Nat.le_trans hma (h'.1 y hy)

theorem sortStable_sorted (l : List Msg) : RoundSorted (sortStable l) := by
  unfold sortStable
  suffices h : ∀ acc, RoundSorted acc → RoundSorted (l.foldl (fun acc m => insertStable m acc) acc) from
    h [] (by simp [RoundSorted])
  induction l with
  | nil => intro acc h; simpa using h
  | cons a as ih => intro acc h; exact ih _ (insertStable_sorted a acc h)

/-- every drained message was queued, whatever the drain order -/
theorem drainWith_mem (order : List Pid) (l : List Msg) (x : Msg) (h : x ∈ drainWith order l) : x ∈ l := by
  unfold drainWith at h
  rw [sortStable_mem] at h
  simp only [List.mem_flatMap, List.mem_filter] at h
  obtain ⟨_, _, hx, _⟩ := h
  exact hx

/-- the drained messages come in non-decreasing round order, whatever the drain order -/
theorem drainWith_sorted (order : List Pid) (l : List Msg) : RoundSorted (drainWith order l) :=
  sortStable_sorted _

/-! ### `receiveMany` as a fold -/

/-- the body of the loop of `ReceiveMany` -/
def rmStep (now : Int) (acc : State × List Eff × List Nat × Bool) (m : Msg) : State × List Eff × List Nat × Bool :=
  if acc.2.2.2 then acc
  else
    let r := acc.1.receiveOne now m
    if isLateBinding r.1.2 then (acc.1, acc.2.1, acc.2.2.1, false)
    else if hasFailure r.1.2 then (r.1.1, acc.2.1 ++ r.1.2, acc.2.2.1, true)
    else (r.1.1, acc.2.1 ++ r.1.2,
          if r.2 && !acc.2.2.1.contains m.round then acc.2.2.1 ++ [m.round] else acc.2.2.1, false)

theorem receiveMany_eq (s : State) (now : Int) (ms : List Msg) :
    s.receiveMany now ms =
      if s.phase == .terminated then (s, [.err .afterTermination])
      else
        let acc := ms.foldl (rmStep now) (s, [], [], false)
        if acc.2.2.2 then (acc.1, acc.2.1)
        else
          let r2 := State.receiveMany.go now acc.1 (sortNat acc.2.2.1).reverse
          (r2.1, acc.2.1 ++ r2.2) := rfl

theorem rmFold_failed (now : Int) (ms : List Msg) (st : State) (effs : List Eff) (rounds : List Nat) :
    ms.foldl (rmStep now) (st, effs, rounds, true) = (st, effs, rounds, true) := by
  induction ms with
  | nil => rfl
  | cons m ms ih => rw [List.foldl_cons]; simpa [rmStep] using ih

/-- the loop of `postReceive(rounds...)`: nothing, or the first effective `postReceive` -/
theorem go_cases (now : Int) (st : State) (rs : List Nat) :
    State.receiveMany.go now st rs = (st, []) ∨
    ∃ r ∈ rs, State.receiveMany.go now st rs = st.postReceive now r ∧ (st.postReceive now r).2 ≠ [] := by
  induction rs with
  | nil => exact Or.inl (by simp [State.receiveMany.go])
  | cons r rs ih =>
    simp only [State.receiveMany.go]
    split
    · rcases ih with h | ⟨r', hr', h⟩
      · exact Or.inl h
      · exact Or.inr ⟨r', List.mem_cons_of_mem _ hr', h⟩
    · rename_i hne
      exact Or.inr ⟨r, List.mem_cons_self, rfl, by simpa using hne⟩

/-- a message of another instance or with other supplemental data -/
def foreignM (m : Msg) : Bool := !m.instOk || !m.suppOk

theorem receiveOne_foreign (s : State) (now : Int) (m : Msg) (h : foreignM m = true) :
    hasFailure (s.receiveOne now m).1.2 = true := by
  unfold State.receiveOne State.recvPre
  simp only [foreignM, Bool.or_eq_true, Bool.not_eq_true'] at h
  rcases h with h | h
  · simp [h]
  · cases hi : m.instOk <;> simp [h]

theorem receiveOne_terminated (s : State) (now : Int) (m : Msg) (ht : s.phase = .terminated) :
    (s.receiveOne now m).1.1 = s ∧ (s.receiveOne now m).2 = false := by
  have hpre : s.recvPre m ≠ .accept := fun h => recvPre_accept_not_terminated s m h ht
  unfold State.receiveOne
  split
  · exact ⟨rfl, rfl⟩
  · exact ⟨rfl, rfl⟩
  · rename_i h; exact absurd h hpre

section Fold
variable (P : Msg → Prop) (hPok : ∀ m, P m → MsgOk m)
include hPok

/-- the loop of `ReceiveMany` from an accumulator that is the result of a micro-run -/
theorem rmFold_micro (now : Int) (s : State) (ms : List Msg) (st : State) (effs : List Eff) (rounds : List Nat)
    (mops : List MOp) (hrun : mrun s mops = (st, effs)) (hok : MOK P s mops) (hq : DQ st)
    (hnf0 : hasFailure effs = false)
    (hP : ∀ m ∈ ms, foreignM m = true ∨ P m) (hsorted : RoundSorted ms)
    (hrounds : ∀ r ∈ rounds, ∀ m ∈ ms, r ≤ m.round)
    (hterm : st.phase = .terminated → ∀ r ∈ rounds, r = 0) :
    ((ms.foldl (rmStep now) (st, effs, rounds, false)).2.2.2 = true ∧
      hasFailure (ms.foldl (rmStep now) (st, effs, rounds, false)).2.1 = true) ∨
    ((ms.foldl (rmStep now) (st, effs, rounds, false)).2.2.2 = false ∧
      ∃ mops', mrun s mops' = ((ms.foldl (rmStep now) (st, effs, rounds, false)).1,
                               (ms.foldl (rmStep now) (st, effs, rounds, false)).2.1) ∧
        MOK P s mops' ∧ DQ (ms.foldl (rmStep now) (st, effs, rounds, false)).1 ∧
        hasFailure (ms.foldl (rmStep now) (st, effs, rounds, false)).2.1 = false ∧
        ((ms.foldl (rmStep now) (st, effs, rounds, false)).1.phase = .terminated →
          ∀ r ∈ (ms.foldl (rmStep now) (st, effs, rounds, false)).2.2.1, r = 0)) := by
  induction ms generalizing st effs rounds mops with
  | nil => exact Or.inr ⟨rfl, mops, hrun, hok, hq, hnf0, hterm⟩
  | cons m ms ih =>
    rw [List.foldl_cons]
    have hs' := List.pairwise_cons.1 hsorted
    have hP' : ∀ m' ∈ ms, foreignM m' = true ∨ P m' := fun m' hm' => hP m' (List.mem_cons_of_mem _ hm')
    by_cases hlb : isLateBinding (st.receiveOne now m).1.2 = true
    · -- dropped: state, effects and rounds unchanged
      have : rmStep now (st, effs, rounds, false) m = (st, effs, rounds, false) := by simp [rmStep, hlb]
      rw [this]
      exact ih st effs rounds mops hrun hok hq hnf0 hP' hs'.2
        (fun r hr m' hm' => hrounds r hr m' (List.mem_cons_of_mem _ hm')) hterm
    · by_cases hf : hasFailure (st.receiveOne now m).1.2 = true
      · have : rmStep now (st, effs, rounds, false) m =
            ((st.receiveOne now m).1.1, effs ++ (st.receiveOne now m).1.2, rounds, true) := by
          simp [rmStep, hlb, hf]
        rw [this, rmFold_failed]
        exact Or.inl ⟨rfl, by simp [hf]⟩
      · have hf' : hasFailure (st.receiveOne now m).1.2 = false := by simpa using hf
        have : rmStep now (st, effs, rounds, false) m =
            ((st.receiveOne now m).1.1, effs ++ (st.receiveOne now m).1.2,
             if (st.receiveOne now m).2 && !rounds.contains m.round then rounds ++ [m.round] else rounds, false) := by
          simp [rmStep, hlb, hf]
        rw [this]
        have hPm : P m := by
          rcases hP m List.mem_cons_self with h | h
          · exact absurd (receiveOne_foreign st now m h) hf
          · exact h
        have hrun' : mrun s (mops ++ [.one now m]) =
            ((st.receiveOne now m).1.1, effs ++ (st.receiveOne now m).1.2) := by
          rw [mrun_append, hrun, mrun_single]; rfl
        have hok' : MOK P s (mops ++ [.one now m]) := by
          rw [MOK_append]; exact ⟨hok, hPm, trivial⟩
        have hq' := receiveOne_dq st now m hq hf'
        refine ih _ _ _ _ hrun' hok' hq' (by simp [hnf0, hf']) hP' hs'.2 ?_ ?_
        · intro r hr m' hm'
          split at hr
          · rcases List.mem_append.1 hr with hr | hr
            · exact hrounds r hr m' (List.mem_cons_of_mem _ hm')
            · simp only [List.mem_singleton] at hr
              subst hr; exact hs'.1 m' hm'
          · exact hrounds r hr m' (List.mem_cons_of_mem _ hm')
        · intro ht1 r hr
          by_cases ht0 : st.phase = .terminated
          · -- already terminated: nothing changed
            obtain ⟨_, hch⟩ := receiveOne_terminated st now m ht0
            simp only [hch, Bool.false_and, Bool.false_eq_true, if_false] at hr
            exact hterm ht0 r hr
          · -- this message terminated the instance: it is a DECIDE, hence for round 0
            have hdec : m.phase = .decide := by
              rcases receiveOne_term_dq now m hq hf' ht1 with h | h
              · exact absurd h ht0
              · exact h
            have hr0 : m.round = 0 := hPok m hPm hdec
            have hle : ∀ r ∈ rounds, r = 0 := fun r hr => by
              have := hrounds r hr m List.mem_cons_self; omega
            split at hr
            · rcases List.mem_append.1 hr with hr | hr
              · exact hle r hr
              · simp only [List.mem_singleton] at hr; omega
            · exact hle r hr

/-- **`ReceiveMany` is a micro-run.** A failure-free `receiveMany` over messages in non-decreasing round order,
each either refused at the door (other instance / supplemental data) or satisfying `P`, is a micro-run in which
every processed message satisfies `P` and `postReceive` is never run on a terminated instance. -/
theorem receiveMany_micro (now : Int) (s : State) (ms : List Msg) (hq : DQ s)
    (hP : ∀ m ∈ ms, foreignM m = true ∨ P m) (hsorted : RoundSorted ms)
    (hnf : hasFailure (s.receiveMany now ms).2 = false) :
    ∃ mops, mrun s mops = s.receiveMany now ms ∧ MOK P s mops := by
  rw [receiveMany_eq] at hnf ⊢
  split at hnf
  · simp at hnf
  · rename_i hnt
    simp only [hnt, if_false, Bool.false_eq_true] at ⊢
    rcases rmFold_micro P hPok now s ms s [] [] [] rfl trivial hq rfl hP hsorted (by simp) (by simp) with
      ⟨hfail, hff⟩ | ⟨hfail, mops, hrun, hok, hq', hnf', hterm⟩
    · simp only [hfail, if_true] at hnf
      exact absurd (hff.symm.trans hnf) (by decide)
    · simp only [hfail, Bool.false_eq_true, if_false] at hnf ⊢
      generalize ms.foldl (rmStep now) (s, [], [], false) = acc at *
      rcases go_cases now acc.1 (sortNat acc.2.2.1).reverse with hgo | ⟨r, hr, hgo, hne⟩
      · refine ⟨mops, ?_, hok⟩
        rw [hgo, hrun]; simp
      · rw [hgo] at hnf ⊢
        have hnt' : acc.1.phase ≠ .terminated := by
          intro ht
          have hr' : r ∈ acc.2.2.1 := by
            rw [List.mem_reverse, sortNat_mem] at hr; exact hr
          have hr0 := hterm ht r hr'
          rw [postReceive_noop _ _ _ (by omega)] at hne
          exact hne rfl
        refine ⟨mops ++ [.post now r], ?_, ?_⟩
        · rw [mrun_append, hrun, mrun_single]; rfl
        · rw [MOK_append, hrun]; exact ⟨hok, hnt', trivial⟩

end Fold

/-! ### refusals and the translation of one participant call -/

/-- effects other than reported errors -/
def nonErr : Eff → Bool
  | .err _ => false
  | _ => true

theorem filter_nonErr_of_nofail (es : List Eff) (h : hasFailure es = false) : es.filter nonErr = es := by
  rw [List.filter_eq_self]
  intro e he
  cases e <;> try rfl
  exfalso
  have : hasFailure es = true := by
    unfold hasFailure; rw [List.any_eq_true]; exact ⟨_, he, rfl⟩
  rw [h] at this; cases this

/-- `Receive` refuses the message at the door: after termination, or for another instance / supplemental data /
base (the instance-level notion is `F3.Bridge.refused`) -/
def refusedM (s : State) (m : Msg) : Bool :=
  s.phase == .terminated || (match s.recvPre m with | .reject _ => true | _ => false)

theorem step_refusedM {s : State} {now : Int} {m : Msg} (h : refusedM s m = true) :
    ∃ k, step s (.recv now m) = (s, [.err k]) := by
  simp only [refusedM, Bool.or_eq_true] at h
  unfold step
  by_cases ht : (s.phase == .terminated) = true
  · exact ⟨.afterTermination, by simp [ht]⟩
  · simp only [ht, Bool.false_eq_true, if_false]
    rcases h with h | h
    · exact absurd h ht
    · unfold State.receiveOne
      cases hp : s.recvPre m with
      | reject k => exact ⟨k, by simp⟩
      | drop => rw [hp] at h; cases h
      | accept => rw [hp] at h; cases h

/-- a refused call of the participant API: a delivery to the running instance that it refuses at the door
(before the instance has begun everything is queued; late-binding rejects are then dropped silently by the drain) -/
def prefused (p : PState) : POp → Bool
  | .recv _ m => p.started && refusedM p.inst m
  | _ => false

/-- every call either is a refusal or reports no error -/
def okRunP (order : List Pid) : PState → List POp → Bool
  | _, [] => true
  | p, op :: ops =>
    (prefused p op || !hasFailure (pstepWith order p op).2) && okRunP order (pstepWith order p op).1 ops

def pforeign : POp → Bool
  | .recv _ m => foreignM m
  | _ => false

/-- the delivered message satisfies `P` -/
def POpP (P : Msg → Prop) : POp → Prop
  | .recv _ m => P m
  | _ => True

theorem okRunP_of_nofail (order : List Pid) (p : PState) (ops : List POp)
    (h : hasFailure (prun order p ops).2 = false) : okRunP order p ops = true := by
  induction ops generalizing p with
  | nil => rfl
  | cons op ops ih =>
    rw [prun_cons] at h
    simp only [hasFailure_append, Bool.or_eq_false_iff] at h
    simp only [okRunP, Bool.and_eq_true, Bool.or_eq_true, Bool.not_eq_true']
    exact ⟨Or.inr h.1, ih _ h.2⟩

section Translate
variable (P : Msg → Prop) (hPok : ∀ m, P m → MsgOk m)
include hPok

/-- one failure-free `Receive` is a micro-run: `receiveOne`, then `postReceive` for the message's round unless
the message terminated the instance -/
theorem step_recv_micro (s : State) (now : Int) (m : Msg) (hq : DQ s) (hm : foreignM m = true ∨ P m)
    (hnf : hasFailure (step s (.recv now m)).2 = false) :
    ∃ mops, mrun s mops = step s (.recv now m) ∧ MOK P s mops := by
  unfold step at hnf ⊢
  dsimp only at hnf ⊢
  by_cases ht : (s.phase == .terminated) = true
  · simp [ht] at hnf
  · simp only [ht, Bool.false_eq_true, if_false] at hnf ⊢
    have hst : s.phase ≠ .terminated := by simpa using ht
    have hone : mstep s (.one now m) = (s.receiveOne now m).1 := rfl
    have hfor := receiveOne_foreign s now m
    have hterm := fun h1 => receiveOne_term_dq now m hq h1
    generalize s.receiveOne now m = ro at *
    obtain ⟨r, changed⟩ := ro
    dsimp only at *
    by_cases hf : hasFailure r.2 = true
    · simp only [hf, if_true] at hnf
      cases hnf
    · have hf' : hasFailure r.2 = false := by simpa using hf
      simp only [hf', Bool.false_eq_true, if_false] at hnf ⊢
      have hPm : P m := by
        rcases hm with h | h
        · exact absurd (hfor h) hf
        · exact h
      have h1 : mrun s [.one now m] = r := by rw [mrun_single, hone]
      have hok1 : MOK P s [.one now m] := ⟨hPm, trivial⟩
      cases changed with
      | false => exact ⟨[.one now m], by simpa using h1, hok1⟩
      | true =>
        simp only [if_true] at hnf ⊢
        by_cases ht1 : r.1.phase = .terminated
        · have hr0 : m.round = 0 := by
            rcases hterm hf' ht1 with h | h
            · exact absurd h hst
            · exact hPok m hPm h
          refine ⟨[.one now m], ?_, hok1⟩
          rw [h1]
          unfold andThen
          simp [hf', postReceive_noop r.1 now m.round (by omega)]
        · refine ⟨[.one now m] ++ [.post now m.round], ?_, ?_⟩
          · rw [mrun_append, h1, mrun_single]
            unfold andThen
            simp [hf', mstep]
          · rw [MOK_append, h1]; exact ⟨hok1, ht1, trivial⟩

/-- **One participant call is a micro-run** of its instance (a refused delivery is the empty micro-run). -/
theorem pstep_micro (order : List Pid) (p : PState) (op : POp) (hq : DQ p.inst)
    (hqu : ∀ m ∈ p.queue, foreignM m = true ∨ P m)
    (hop : pforeign op = true ∨ POpP P op)
    (hok : prefused p op = true ∨ hasFailure (pstepWith order p op).2 = false) :
    ∃ mops, MOK P p.inst mops ∧ hasFailure (mrun p.inst mops).2 = false ∧
      mrun p.inst mops = ((pstepWith order p op).1.inst, (pstepWith order p op).2.filter nonErr) ∧
      (∀ m ∈ (pstepWith order p op).1.queue, foreignM m = true ∨ P m) := by
  cases op with
  | alarm now =>
    have hnf : hasFailure (pstepWith order p (.alarm now)).2 = false := by
      rcases hok with h | h
      · cases h
      · exact h
    rw [filter_nonErr_of_nofail _ hnf]
    unfold pstepWith at hnf ⊢
    dsimp only at hnf ⊢
    by_cases hs : p.started = true
    · simp only [hs, Bool.not_true, Bool.false_eq_true, if_false] at hnf ⊢
      exact ⟨[.alarm now], ⟨trivial, trivial⟩, by rw [mrun_single]; exact hnf, by rw [mrun_single]; rfl, hqu⟩
    · simp only [hs, Bool.not_false, if_true] at hnf ⊢
      by_cases hf1 : hasFailure (p.inst.beginQuality now).2 = true
      · simp only [hf1, if_true] at hnf
        cases hnf
      · have hf1' : hasFailure (p.inst.beginQuality now).2 = false := by simpa using hf1
        simp only [hf1', Bool.false_eq_true, if_false] at hnf ⊢
        simp only [hasFailure_append, Bool.or_eq_false_iff] at hnf
        have hq1 : DQ (p.inst.beginQuality now).1 := by
          rcases mstep_ok p.inst (.start now) hq trivial with h | ⟨_, h⟩
          · exact absurd (h.symm.trans hf1') (by decide)
          · exact h
        obtain ⟨mops, hrun, hmok⟩ := receiveMany_micro P hPok now (p.inst.beginQuality now).1
          (drainWith order p.queue) hq1 (fun m hm => hqu m (drainWith_mem order p.queue m hm))
          (drainWith_sorted order p.queue) hnf.2
        have hms : mstep p.inst (.start now) = p.inst.beginQuality now := rfl
        refine ⟨.start now :: mops, ⟨trivial, hmok⟩, ?_, ?_, by simp⟩
        · rw [mrun_cons, hms, hrun]; simp [hf1', hnf.2]
        · rw [mrun_cons, hms, hrun]
  | recv now m =>
    unfold pstepWith at hok ⊢
    dsimp only at hok ⊢
    by_cases hs : p.started = true
    · simp only [hs, Bool.not_true, Bool.false_eq_true, if_false] at hok ⊢
      by_cases hr : refusedM p.inst m = true
      · obtain ⟨k, hk⟩ := step_refusedM (now := now) hr
        rw [hk]
        exact ⟨[], trivial, rfl, by simp [nonErr], hqu⟩
      · have hnf : hasFailure (step p.inst (.recv now m)).2 = false := by
          rcases hok with h | h
          · simp [prefused, hs, hr] at h
          · exact h
        rw [filter_nonErr_of_nofail _ hnf]
        obtain ⟨mops, hrun, hmok⟩ := step_recv_micro P hPok p.inst now m hq hop hnf
        exact ⟨mops, hmok, by rw [hrun]; exact hnf, by rw [hrun], hqu⟩
    · simp only [hs, Bool.not_false, if_true] at hok ⊢
      refine ⟨[], trivial, rfl, by simp [(queueAdd_inst p m).1], ?_⟩
      intro x hx
      rcases queueAdd_mem p m x hx with h | rfl
      · exact hqu x h
      · exact hop

/-- **Every participant-level run is a micro-run**: for any drain order, a sequence of participant API calls
none of which reports an error other than a refusal at the door has the same final instance state and the same
effects (reported refusals aside) as a failure-free micro-run over messages satisfying `P`. -/
theorem prun_micro (order : List Pid) (p : PState) (ops : List POp) (hq : DQ p.inst)
    (hqu : ∀ m ∈ p.queue, foreignM m = true ∨ P m)
    (hops : ∀ op ∈ ops, pforeign op = true ∨ POpP P op)
    (hok : okRunP order p ops = true) :
    ∃ mops, MOK P p.inst mops ∧ hasFailure (mrun p.inst mops).2 = false ∧
      (mrun p.inst mops).1 = (prun order p ops).1.inst ∧
      (mrun p.inst mops).2 = (prun order p ops).2.filter nonErr := by
  induction ops generalizing p with
  | nil => exact ⟨[], trivial, rfl, rfl, rfl⟩
  | cons op ops ih =>
    simp only [okRunP, Bool.and_eq_true, Bool.or_eq_true, Bool.not_eq_true'] at hok
    obtain ⟨mops1, hmok1, hnf1, hrun1, hqu1⟩ :=
      pstep_micro P hPok order p op hq hqu (hops op List.mem_cons_self) hok.1
    have hst1 : (mrun p.inst mops1).1 = (pstepWith order p op).1.inst := by rw [hrun1]
    have hq1 : DQ (pstepWith order p op).1.inst := by
      rw [← hst1]
      exact (mrun_wp p.inst mops1 hq (hmok1.mono (fun _ _ => trivial)) hnf1).2
    obtain ⟨mops2, hmok2, hnf2, hst2, heff2⟩ :=
      ih (pstepWith order p op).1 hq1 hqu1 (fun o ho => hops o (List.mem_cons_of_mem _ ho)) hok.2
    refine ⟨mops1 ++ mops2, ?_, ?_, ?_, ?_⟩
    · rw [MOK_append, hst1]; exact ⟨hmok1, hmok2⟩
    · rw [mrun_append, hst1]; simp [hnf1, hnf2]
    · rw [mrun_append, hst1, prun_cons]; exact hst2
    · rw [mrun_append, hst1, prun_cons, List.filter_append, heff2, hrun1]

end Translate

/-! ### the skeleton argument, lifted -/

theorem evs_filter_nonErr (es : List Eff) : evs (es.filter nonErr) = evs es := by
  induction es with
  | nil => rfl
  | cons e es ih =>
    cases e <;> simp [List.filter_cons, nonErr, ih] <;> simp [evs, Eff.ev?] at ih ⊢ <;> exact ih

/-- validated deliveries: DECIDE is for round 0 -/
abbrev POpOk : POp → Prop := POpP MsgOk

/-- **Participant-level run skeleton** (refusals allowed). -/
theorem prun_wp_ok (order : List Pid) (p : PState) (ops : List POp) (hq : DQ p.inst)
    (hqu : ∀ m ∈ p.queue, foreignM m = true ∨ MsgOk m)
    (hops : ∀ op ∈ ops, pforeign op = true ∨ POpOk op) (hok : okRunP order p ops = true) :
    WP p.inst.pt (evs (prun order p ops).2) (prun order p ops).1.inst.pt ∧ DQ (prun order p ops).1.inst := by
  obtain ⟨mops, hmok, hnf, hst, heff⟩ := prun_micro MsgOk (fun _ h => h) order p ops hq hqu hops hok
  have := mrun_wp p.inst mops hq (hmok.mono (fun _ _ => trivial)) hnf
  rw [hst, heff, evs_filter_nonErr] at this
  exact this

/-- **Participant-level run skeleton.** For every drain order and every sequence of participant API calls over
validated messages that reports no internal error or panic, the (progress, broadcast) skeleton of everything
the instance did — the drain of the pre-start queue through `ReceiveMany` included — is well paired. -/
theorem prun_wp (order : List Pid) (p : PState) (ops : List POp) (hq : DQ p.inst)
    (hqu : ∀ m ∈ p.queue, MsgOk m) (hops : ∀ op ∈ ops, POpOk op)
    (hnf : hasFailure (prun order p ops).2 = false) :
    WP p.inst.pt (evs (prun order p ops).2) (prun order p ops).1.inst.pt ∧ DQ (prun order p ops).1.inst :=
  prun_wp_ok order p ops hq (fun m hm => Or.inr (hqu m hm)) (fun op hop => Or.inr (hops op hop))
    (okRunP_of_nofail order p ops hnf)

theorem DQ_pinit (cfg : Cfg) (tbl : Table) (input : Chain) : DQ (pinit cfg tbl input).inst := DQ_init cfg tbl input

end F3.Instance
