import F3.Proofs.SyncTimedInv
/-!
# The timing invariant `TInv` is preserved by every event that respects the real-time conditions
-/
namespace F3.Sync
open F3.Instance F3.Net

/-! ## transitions: where a phase was entered from, and what announces it -/

section
variable {p : Pid} {c : Chain} {a b : Phase} {ms : List Msg}

theorem Trans.toQ (h : Trans p c a b ms) (hb : b = .quality) : a = .quality ∨ a = .initial := by
  cases h with
  | same a => exact Or.inl hb
  | start => exact Or.inr rfl
  | q2p => cases hb
  | p2c j hj => cases hb
  | x2d a b ha hb' j hj => rcases hb' with rfl | rfl <;> cases hb
  | d2t => cases hb

theorem Trans.toP (h : Trans p c a b ms) (hb : b = .prepare) :
    a = .prepare ∨ (a = .quality ∧ mkMsg p .prepare c none ∈ ms) := by
  cases h with
  | same a => exact Or.inl hb
  | start => cases hb
  | q2p => exact Or.inr ⟨rfl, List.mem_singleton.2 rfl⟩
  | p2c j hj => cases hb
  | x2d a b ha hb' j hj => rcases hb' with rfl | rfl <;> cases hb
  | d2t => cases hb

theorem Trans.toC (h : Trans p c a b ms) (hb : b = .commit) :
    a = .commit ∨ (a = .prepare ∧ ∃ j, mkMsg p .commit c (some j) ∈ ms) := by
  cases h with
  | same a => exact Or.inl hb
  | start => cases hb
  | q2p => cases hb
  | p2c j hj => exact Or.inr ⟨rfl, j, List.mem_singleton.2 rfl⟩
  | x2d a b ha hb' j hj => rcases hb' with rfl | rfl <;> cases hb
  | d2t => cases hb

theorem Trans.leftQ (h : Trans p c a b ms) (h1 : b ≠ .initial) (h2 : b ≠ .quality) :
    (a ≠ .initial ∧ a ≠ .quality) ∨
    (a = .quality ∧ ∃ m ∈ ms, m.sender = p ∧ (m.phase = .prepare ∨ m.phase = .decide)) := by
  cases h with
  | same a => exact Or.inl ⟨h1, h2⟩
  | start => exact absurd rfl h2
  | q2p => exact Or.inr ⟨rfl, _, List.mem_singleton.2 rfl, rfl, Or.inl rfl⟩
  | p2c j hj => exact Or.inl ⟨by decide, by decide⟩
  | x2d a b ha hb' j hj =>
    rcases ha with rfl | rfl | rfl
    · exact Or.inr ⟨rfl, _, List.mem_singleton.2 rfl, rfl, Or.inr rfl⟩
    · exact Or.inl ⟨by decide, by decide⟩
    · exact Or.inl ⟨by decide, by decide⟩
  | d2t => exact Or.inl ⟨by decide, by decide⟩

theorem Trans.leftP (h : Trans p c a b ms) (hb : b = .commit ∨ b = .decide ∨ b = .terminated) :
    (a = .commit ∨ a = .decide ∨ a = .terminated) ∨
    ((a = .quality ∨ a = .prepare) ∧ ∃ m ∈ ms, m.sender = p ∧ (m.phase = .commit ∨ m.phase = .decide)) := by
  cases h with
  | same a => exact Or.inl hb
  | start => rcases hb with hb | hb | hb <;> cases hb
  | q2p => rcases hb with hb | hb | hb <;> cases hb
  | p2c j hj => exact Or.inr ⟨Or.inr rfl, _, List.mem_singleton.2 rfl, rfl, Or.inl rfl⟩
  | x2d a b ha hb' j hj =>
    rcases ha with rfl | rfl | rfl
    · exact Or.inr ⟨Or.inl rfl, _, List.mem_singleton.2 rfl, rfl, Or.inr rfl⟩
    · exact Or.inr ⟨Or.inr rfl, _, List.mem_singleton.2 rfl, rfl, Or.inr rfl⟩
    · exact Or.inl (Or.inl rfl)
  | d2t => exact Or.inl (Or.inr (Or.inl rfl))

theorem Trans.newQ (h : Trans p c a b ms) {m : Msg} (hm : m ∈ ms) (hq : m.phase = .quality) : a = .initial := by
  cases h with
  | same a => cases hm
  | start => rfl
  | q2p => rw [List.mem_singleton.1 hm] at hq; cases hq
  | p2c j hj => rw [List.mem_singleton.1 hm] at hq; cases hq
  | x2d a b ha hb' j hj => rw [List.mem_singleton.1 hm] at hq; cases hq
  | d2t => cases hm

theorem Trans.newP (h : Trans p c a b ms) {m : Msg} (hm : m ∈ ms) (hq : m.phase = .prepare) :
    a = .quality ∧ b = .prepare := by
  cases h with
  | same a => cases hm
  | start => rw [List.mem_singleton.1 hm] at hq; cases hq
  | q2p => exact ⟨rfl, rfl⟩
  | p2c j hj => rw [List.mem_singleton.1 hm] at hq; cases hq
  | x2d a b ha hb' j hj => rw [List.mem_singleton.1 hm] at hq; cases hq
  | d2t => cases hm

theorem Trans.newC (h : Trans p c a b ms) {m : Msg} (hm : m ∈ ms) (hq : m.phase = .commit) :
    a = .prepare ∧ b = .commit := by
  cases h with
  | same a => cases hm
  | start => rw [List.mem_singleton.1 hm] at hq; cases hq
  | q2p => rw [List.mem_singleton.1 hm] at hq; cases hq
  | p2c j hj => exact ⟨rfl, rfl⟩
  | x2d a b ha hb' j hj => rw [List.mem_singleton.1 hm] at hq; cases hq
  | d2t => cases hm

end

section
variable {t : Table} {c : Chain} {H : List Pid} {Δ : Int} {cfg : Pid → Cfg}

/-! ## a node that did not move -/

theorem TNode.mono (hΔ : 0 ≤ Δ) {st new : List (Msg × Int)} {sts sts' : List (Pid × Int)} {pool pool' : List Msg}
    {q : Pid} {x : State} (h : TNode t Δ cfg st sts pool q x) (now : Int)
    (hnew : ∀ d ∈ new, d.2 = now) (hle : ∀ m τ, (m, τ) ∈ st → τ ≤ now)
    (hsts : ∀ d ∈ sts, d ∈ sts') (hpool : ∀ m ∈ pool, m ∈ pool') :
    TNode t Δ cfg (st ++ new) sts' pool' q x := by
  refine ⟨h.cfg, h.qn, h.js, ?_, ?_, ?_, ?_, ?_, ?_⟩
  · intro ph y hy
    obtain ⟨m, hm, h1, h2⟩ := h.conv ph y hy
    exact ⟨m, hpool m hm, h1, h2⟩
  · intro hq
    obtain ⟨s, h1, h2⟩ := h.timerQ hq
    exact ⟨s, hsts _ h1, h2⟩
  · intro hq
    obtain ⟨m, e, h1, h2⟩ := h.timerP hq
    exact ⟨m, e, List.mem_append_left _ h1, h2⟩
  · intro hq
    obtain ⟨m, e, h1, h2⟩ := h.timerC hq
    exact ⟨m, e, List.mem_append_left _ h1, h2⟩
  · intro h1 h2
    obtain ⟨m, τ, hm, hs, hp, hpr⟩ := h.leftQ h1 h2
    exact ⟨m, τ, List.mem_append_left _ hm, hs, hp, hpr.mono hΔ (hle m τ hm) hnew⟩
  · intro h1
    obtain ⟨m, τ, hm, hs, hp, hpr⟩ := h.leftP h1
    exact ⟨m, τ, List.mem_append_left _ hm, hs, hp, hpr.mono hΔ (hle m τ hm) hnew⟩

/-! ## the node that moved -/

/-- every sender tallied after the step has a message of that phase in the pool the step found -/
theorem conv_step {tn : TNet} (ht : TInv t Δ cfg tn) {p : Pid} {s : State} (hp : (p, s) ∈ tn.net.nodes)
    {r : R} {om : Option Msg} {now : Int} (sx : SX c now om s r) (hom : ∀ m, om = some m → m ∈ tn.net.pool) :
    ∀ ph y, y ∈ sendersOf r.1 ph → hasMsg tn.net.pool y ph := by
  intro ph y hy
  rcases sx.conv ph y hy with h | ⟨m, hm, h1, h2⟩
  · exact (ht.node p s hp).conv ph y h
  · exact ⟨m, hom m hm, h1.symm, h2.symm⟩

theorem new_stamp_gt {new : List Msg} {now e : Int} (he : e < now) :
    ∀ d ∈ new.map (fun m => (m, now)), e < d.2 := by
  intro d hd
  obtain ⟨m', _, rfl⟩ := List.mem_map.1 hd
  exact he

theorem TNode.step (hlen : 2 ≤ c.length) (hΔ : 0 ≤ Δ) {tn : TNet} (hn : NInv t c H tn.net)
    (ht : TInv t Δ cfg tn) {p : Pid} {s : State} (hp : (p, s) ∈ tn.net.nodes) (r : R) (om : Option Msg) (now : Int)
    (g : Good t c H p s r) (sx : SX c now om s r) (hom : ∀ m, om = some m → m ∈ tn.net.pool)
    (hT1 : tn.clock ≤ now) (hT3 : T3 Δ tn now)
    (hT4 : 2 * Δ ≤ (cfg p).qualityTimeout2 ∧ 2 * Δ ≤ tableGet (cfg p).timeout2 0)
    (sts' : List (Pid × Int)) (hsts : ∀ d ∈ tn.starts, d ∈ sts')
    (hstart : s.phase = .initial → r.1.phaseTimeout = now + s.cfg.qualityTimeout2 ∧ (p, now) ∈ sts') :
    TNode t Δ cfg (tn.stamps ++ (sent p r.2).map (fun m => (m, now))) sts' (tn.net.pool ++ sent p r.2) p r.1 := by
  have hno := hn.node p s hp
  have htn := ht.node p s hp
  have old := htn.mono (new := (sent p r.2).map (fun m => (m, now))) (sts' := sts')
    (pool' := tn.net.pool ++ sent p r.2) hΔ now
    (by intro d hd; obtain ⟨m', _, rfl⟩ := List.mem_map.1 hd; rfl)
    (fun m τ h => Int.le_trans (ht.st_clock m τ h) hT1) hsts (fun m hm => List.mem_append_left _ hm)
  have hconv0 := conv_step ht hp sx hom
  have hnewmem : ∀ m ∈ sent p r.2, (m, now) ∈ tn.stamps ++ (sent p r.2).map (fun m => (m, now)) :=
    fun m hm => List.mem_append_right _ (List.mem_map.2 ⟨m, hm, rfl⟩)
  have hcfg : s.cfg = cfg p := htn.cfg
  refine ⟨sx.cfg.trans hcfg, sx.qn htn.qn, sx.js htn.js, ?_, ?_, ?_, ?_, ?_, ?_⟩
  · intro ph y hy
    exact (hasMsg_append _ _ _ _).2 (Or.inl (hconv0 ph y hy))
  · intro hq
    rcases g.trans.toQ hq with ha | ha
    · obtain ⟨s', h1, h2⟩ := old.timerQ ha
      exact ⟨s', h1, by rw [sx.same (hq.trans ha.symm)]; exact h2⟩
    · obtain ⟨h1, h2⟩ := hstart ha
      rw [hcfg] at h1
      exact ⟨now, h2, by rw [h1]; omega⟩
  · intro hq
    rcases g.trans.toP hq with ha | ⟨ha, hm⟩
    · obtain ⟨m, e, h1, h2, h3, h4⟩ := old.timerP ha
      exact ⟨m, e, h1, h2, h3, by rw [sx.same (hq.trans ha.symm)]; exact h4⟩
    · have h1 := (sx.toP ha hq).1
      rw [hcfg] at h1
      exact ⟨_, now, hnewmem _ hm, rfl, rfl, by rw [h1]; omega⟩
  · intro hq
    rcases g.trans.toC hq with ha | ⟨ha, j, hm⟩
    · obtain ⟨m, e, h1, h2, h3, h4⟩ := old.timerC ha
      exact ⟨m, e, h1, h2, h3, by rw [sx.same (hq.trans ha.symm)]; exact h4⟩
    · have h1 := (sx.toC ha hq).1
      rw [hcfg] at h1
      exact ⟨_, now, hnewmem _ hm, rfl, rfl, by rw [h1]; omega⟩
  · intro h1 h2
    rcases g.trans.leftQ h1 h2 with ⟨a1, a2⟩ | ⟨ha, m, hm, hs, hph⟩
    · exact old.leftQ a1 a2
    · refine ⟨m, now, hnewmem m hm, hs, hph, ?_⟩
      intro e S he hnd hstr hall hpS
      have hΔ' : e < now := by omega
      have hall' : ∀ x ∈ S, SentBy tn.stamps x .quality e :=
        fun x hx => (hall x hx).restrict (new_stamp_gt hΔ')
      obtain ⟨mp, τp, hmp, hsp, hpp, hτp⟩ := hall' p hpS
      have hps := ht.qstamp mp τp hmp hpp
      rw [hsp] at hps
      have hpi := hno.pi
      rw [ha] at hpi
      have hsub : ∀ y ∈ S, y ∈ s.quality.senders := by
        intro y hy
        obtain ⟨my, τy, hmy, hsy, hpy, hτy⟩ := hall' y hy
        have := hno.deliv my (hT3 my τy p τp hmy hps (by omega) (by omega)) (by rw [ha]; decide)
        rw [hpy, hsy] at this; exact this
      have := hno.sinv.qt.strong_of_subset hlen S hnd hstr (List.ne_nil_of_mem hpS) hsub
      have h1 : s.quality.hasStrongFor c = false := hpi.1
      rw [h1] at this
      cases this
  · intro hb
    rcases g.trans.leftP hb with ha | ⟨ha, m, hm, hs, hph⟩
    · exact old.leftP ha
    · refine ⟨m, now, hnewmem m hm, hs, hph, ?_⟩
      intro e S he hnd hstr hall hpS
      have hΔ' : e < now := by omega
      have hall' : ∀ x ∈ S, SentBy tn.stamps x .prepare e :=
        fun x hx => (hall x hx).restrict (new_stamp_gt hΔ')
      obtain ⟨mp, τp, hmp, hsp, hpp, hτp⟩ := hall' p hpS
      obtain ⟨sp, hsps, hspe⟩ := ht.sender_started mp τp hmp
      rw [hsp] at hsps
      have hself := hno.prepSelf ⟨mp, ht.st_pool mp τp hmp, hsp, hpp⟩
      have hprep : s.phase = .prepare := by
        rcases ha with h | h
        · exact absurd h hself.2
        · exact h
      have hpi := hno.pi
      rw [hprep] at hpi
      have hsub : ∀ y ∈ S, y ∈ (s.getRound 0).prepared.senders := by
        intro y hy
        obtain ⟨my, τy, hmy, hsy, hpy, hτy⟩ := hall' y hy
        have := hno.deliv my (hT3 my τy p sp hmy hsps (by omega) (by omega)) (by rw [hprep]; decide)
        rw [hpy, hsy] at this; exact this
      have hpin := hsub p hpS
      have := hno.sinv.prep.strong_of_subset S hnd hstr (List.ne_nil_of_mem hpin) hsub
      rw [hpi.1 hpin] at this
      cases this

end

end F3.Sync
