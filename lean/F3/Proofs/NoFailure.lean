import F3.Proofs.NoFailureTally
import F3.Proofs.InstanceGuards3
/-!
# Failure-freedom, instance level: the invariant and the `try*` / `begin*` functions

`NFx` collects what the Layer-B invariant `GInv` does not say but the absence of internal errors needs:
the instance has been started, no sender is filed under two chains of a PREPARE / COMMIT / DECIDE tally,
the base chain is a candidate, from CONVERGE to COMMIT the proposal is a candidate, and in CONVERGE the
participant's own value sits in the converge state of the current round.

`GInv` is used with the trivial vote predicate `WT` ("every vote exists"): message validity `MsgValid W` is
monotone in `W`, every broadcast is trivially an own vote in `WT`, and the structural part of `GInv WT`
(well-formed tallies, shapes of the stored justifications, non-empty proposal, …) is all that is needed here.
-/
namespace F3.Instance

/-- the trivial vote predicate -/
abbrev WT : Votes := fun _ _ _ _ => True

theorem ownIn_WT (me : Pid) (es : List Eff) : OwnIn WT me es := fun _ _ _ _ _ _ => trivial

theorem JustOk.top {W : Votes} {t : Table} {j : Just} (h : JustOk W t j) : JustOk WT t j :=
  ⟨h.1, h.2.1, h.2.2.1, fun i hi => by obtain ⟨x, hx, _⟩ := h.2.2.2 i hi; exact ⟨x, hx, trivial⟩⟩

theorem ConvJust.top {W : Votes} {t : Table} {r : Nat} {c : Chain} {j : Just} (h : ConvJust W t r c j) :
    ConvJust WT t r c j := ⟨h.1.top, h.2.1, h.2.2⟩

theorem CommitJust.top {W : Votes} {t : Table} {r : Nat} {c : Chain} {j : Just} (h : CommitJust W t r c j) :
    CommitJust WT t r c j := ⟨h.1.top, h.2⟩

/-- message validity is monotone in the vote predicate -/
theorem MsgValid.top {W : Votes} {t : Table} {m : Msg} (h : MsgValid W t m) : MsgValid WT t m := by
  obtain ⟨_, hpos, hrest⟩ := h
  refine ⟨trivial, hpos, ?_⟩
  cases hp : m.phase <;> rw [hp] at hrest <;> simp only at hrest ⊢
  · exact hrest
  · obtain ⟨h1, h2, j, hj, hc⟩ := hrest
    exact ⟨h1, h2, j, hj, hc.top⟩
  · exact ⟨hrest.1, fun h0 => by obtain ⟨j, hj, hc⟩ := hrest.2 h0; exact ⟨j, hj, hc.top⟩⟩
  · exact ⟨hrest.1, fun h0 => by obtain ⟨j, hj, hc⟩ := hrest.2 h0; exact ⟨j, hj, hc.top⟩⟩
  · obtain ⟨h1, h2, j, hj, hok, h3⟩ := hrest
    exact ⟨h1, h2, j, hj, hok.top, h3⟩

/-! ### rounds -/

theorem setAssoc_find (l : List (Nat × RoundState)) (r r' : Nat) (rs : RoundState) :
    (setAssoc l r rs).find? (·.1 == r') = if r' = r then some (r, rs) else l.find? (·.1 == r') := by
  induction l with
  | nil =>
    simp only [setAssoc, List.find?_cons, List.find?_nil]
    by_cases h : r' = r
    · simp [h]
    · have : (r == r') = false := by simpa using fun e => h e.symm
      simp [h, this]
  | cons x xs ih =>
    unfold setAssoc
    by_cases hx : x.1 = r
    · have hx' : (x.1 == r) = true := by simpa using hx
      simp only [hx', if_true, List.find?_cons]
      by_cases h : r' = r
      · simp [h]
      · have h1 : (r == r') = false := by simpa using fun e => h e.symm
        have h2 : (x.1 == r') = false := by rw [hx]; exact h1
        simp [h, h1, h2]
    · have hx' : (x.1 == r) = false := by simpa using hx
      simp only [hx', Bool.false_eq_true, if_false, List.find?_cons]
      by_cases hxr : x.1 = r'
      · have : (x.1 == r') = true := by simpa using hxr
        have hne : r' ≠ r := fun e => hx (hxr.trans e)
        simp [this, hne]
      · have : (x.1 == r') = false := by simpa using hxr
        simp only [this]
        exact ih

theorem getRound_setRound (s : State) (r r' : Nat) (rs : RoundState) :
    (s.setRound r rs).getRound r' = if r' = r then rs else s.getRound r' := by
  unfold State.getRound State.setRound
  simp only
  rw [setAssoc_find]
  by_cases h : r' = r
  · simp [h]
  · simp [h]

theorem getRound_congr {s s' : State} (h : s'.rounds = s.rounds) (r : Nat) : s'.getRound r = s.getRound r := by
  unfold State.getRound; rw [h]

/-! ### the extra invariant -/

/-- the phases in which the proposal must be a candidate -/
def Phase.mid : Phase → Bool
  | .converge | .prepare | .commit => true
  | _ => false

def RoundsDisj (rounds : List (Nat × RoundState)) : Prop :=
  ∀ e ∈ rounds, TallyDisj e.2.prepared ∧ TallyDisj e.2.committed

theorem getRound_disj {s : State} (h : RoundsDisj s.rounds) (r : Nat) :
    TallyDisj (s.getRound r).prepared ∧ TallyDisj (s.getRound r).committed := by
  unfold State.getRound
  split
  · rename_i e hf
    exact h e (List.mem_of_find?_eq_some hf)
  · exact ⟨TallyDisj_empty, TallyDisj_empty⟩

theorem setRound_disj {s : State} (h : RoundsDisj s.rounds) (r : Nat) (rs : RoundState)
    (hrs : TallyDisj rs.prepared ∧ TallyDisj rs.committed) : RoundsDisj (s.setRound r rs).rounds := by
  intro e he
  rcases setAssoc_mem _ _ _ _ he with rfl | he
  · exact hrs
  · exact h e he

structure NFx (s : State) : Prop where
  /-- `Start` has been called -/
  notInit : s.phase ≠ .initial
  disjR : RoundsDisj s.rounds
  disjD : TallyDisj s.decision
  baseCand : baseChain s.input ∈ s.candidates
  propCand : s.phase.mid = true → s.proposal ∈ s.candidates
  /-- in CONVERGE the converge state of the current round holds a value for the proposal -/
  convSelf : s.phase = .converge → ∃ cv ∈ (s.getRound s.round).converged.values, cv.chain = s.proposal

/-- the invariant of the failure-freedom argument -/
def NFI (s : State) : Prop := GInv WT 0 s ∧ NFx s

/-- what a function of the model is shown to guarantee here: it reports no failure and keeps `NFx` -/
def NFOK (r : R) : Prop := hasFailure r.2 = false ∧ NFx r.1

theorem NFI.of_gok {s : State} {r : R} (hg : GOK WT 0 s r) (h : NFOK r) : NFI r.1 := by
  rcases hg with hf | hk
  · exact absurd (hf.symm.trans h.1) (by decide)
  · exact ⟨(hk (ownIn_WT 0 r.2)).1, h.2⟩

theorem NFOK.nil {s : State} (h : NFx s) : NFOK (s, []) := ⟨rfl, h⟩

/-- a state that agrees on the fields the invariant reads, with at least the same candidates -/
theorem NFx.of_fields {s s' : State} (h : NFx s) (hph : s'.phase = s.phase) (hr : s'.rounds = s.rounds)
    (hd : s'.decision = s.decision) (hi : s'.input = s.input) (hc : ∀ x ∈ s.candidates, x ∈ s'.candidates)
    (hp : s'.proposal = s.proposal) (hrd : s'.round = s.round) : NFx s' := by
  refine ⟨by rw [hph]; exact h.notInit, by rw [hr]; exact h.disjR, by rw [hd]; exact h.disjD,
    by rw [hi]; exact hc _ h.baseCand, ?_, ?_⟩
  · intro hm; rw [hph] at hm; rw [hp]; exact hc _ (h.propCand hm)
  · intro hcv; rw [hph] at hcv; rw [getRound_congr hr, hrd, hp]; exact h.convSelf hcv

/-- leaving CONVERGE … COMMIT for a later phase of the same kind of state: only `proposal ∈ candidates` is asked -/
theorem NFx.to_phase {s s' : State} (h : NFx s) (hni : s'.phase ≠ .initial) (hnc : s'.phase ≠ .converge)
    (hr : s'.rounds = s.rounds) (hd : s'.decision = s.decision) (hi : s'.input = s.input)
    (hc : ∀ x ∈ s.candidates, x ∈ s'.candidates) (hp : s'.phase.mid = true → s'.proposal ∈ s'.candidates) : NFx s' :=
  ⟨hni, by rw [hr]; exact h.disjR, by rw [hd]; exact h.disjD, by rw [hi]; exact hc _ h.baseCand, hp,
    fun hcv => absurd hcv hnc⟩

/-! ### candidates -/

theorem addCandidate_sub (s : State) (c x : Chain) (h : x ∈ s.candidates) : x ∈ (s.addCandidate c).1.candidates := by
  unfold State.addCandidate
  split
  · exact h
  · exact List.mem_append_left _ h

theorem addCandidate_self (s : State) (c : Chain) : c ∈ (s.addCandidate c).1.candidates := by
  unfold State.addCandidate
  split
  · rename_i h; simpa using h
  · simp

theorem addCandidatePrefixes_sub_aux (c : Chain) (l : List Nat) (acc : State × Bool) (x : Chain)
    (h : x ∈ acc.1.candidates) :
    x ∈ (l.foldl (fun (acc : State × Bool) l =>
        let r := acc.1.addCandidate (prefixTo c l); (r.1, acc.2 || r.2)) acc).1.candidates := by
  induction l generalizing acc with
  | nil => simpa using h
  | cons a as ih =>
    simp only [List.foldl_cons]
    exact ih _ (addCandidate_sub _ _ _ h)

theorem addCandidatePrefixes_sub (s : State) (c x : Chain) (h : x ∈ s.candidates) :
    x ∈ (s.addCandidatePrefixes c).1.candidates := by
  unfold State.addCandidatePrefixes
  exact addCandidatePrefixes_sub_aux c _ (s, false) x h

theorem addCandidatePrefixes_has_aux (c : Chain) (l : List Nat) (acc : State × Bool) (k : Nat) (hk : k ∈ l) :
    prefixTo c k ∈ (l.foldl (fun (acc : State × Bool) l =>
        let r := acc.1.addCandidate (prefixTo c l); (r.1, acc.2 || r.2)) acc).1.candidates := by
  induction l generalizing acc with
  | nil => cases hk
  | cons a as ih =>
    simp only [List.foldl_cons]
    rcases List.mem_cons.1 hk with rfl | hk
    · exact addCandidatePrefixes_sub_aux c as _ _ (addCandidate_self _ _)
    · exact ih _ hk

/-- `addCandidatePrefixes c` adds `c` itself when it is longer than the base -/
theorem addCandidatePrefixes_self (s : State) (c : Chain) (h : 2 ≤ c.length) :
    c ∈ (s.addCandidatePrefixes c).1.candidates := by
  have hk : c.length - 1 ∈ (List.range (c.length - 1)).reverse.map (· + 1) := by
    simp only [List.mem_map, List.mem_reverse, List.mem_range]
    exact ⟨c.length - 2, by omega, by omega⟩
  have := addCandidatePrefixes_has_aux c _ (s, false) _ hk
  unfold State.addCandidatePrefixes
  have hc : prefixTo c (c.length - 1) = c := by
    unfold prefixTo
    rw [show c.length - 1 + 1 = c.length by omega]
    exact List.take_length
  rw [hc] at this
  exact this

/-- a non-empty prefix of the input of length one is the base chain -/
theorem prefix_len_one (p input : Chain) (hp : p <+: input) (hne : p ≠ []) (hl : ¬ 2 ≤ p.length) :
    p = baseChain input := by
  obtain ⟨tl, rfl⟩ := hp
  cases p with
  | nil => exact absurd rfl hne
  | cons a as =>
    cases as with
    | nil => simp [baseChain]
    | cons b bs => simp at hl

/-- concluding QUALITY makes the (new) proposal a candidate -/
theorem quality_prop_cand (s s' : State) (q : Chain) (hq : q <+: s.input) (hqne : q ≠ [])
    (hb : baseChain s.input ∈ s'.candidates) : q ∈ (s'.addCandidatePrefixes q).1.candidates := by
  by_cases hl : 2 ≤ q.length
  · exact addCandidatePrefixes_self s' q hl
  · rw [prefix_len_one q s.input hq hqne hl]
    exact addCandidatePrefixes_sub _ _ _ hb

/-! ### converge state -/

theorem setSelf_has (c : Conv) (v : Chain) (j : Just) : ∃ cv ∈ (c.setSelf v j).values, cv.chain = v := by
  unfold Conv.setSelf
  split
  · rename_i h
    simp only [List.any_eq_true, beq_iff_eq] at h
    exact h
  · exact ⟨{ chain := v, just := j, rank := none }, by simp, rfl⟩

theorem Conv.receive_keeps (c : Conv) (sender : Pid) (v' : Chain) (rank : Nat) (j : Just) (v : Chain)
    (h : ∃ cv ∈ c.values, cv.chain = v) : ∃ cv ∈ (c.receive sender v' rank j).values, cv.chain = v := by
  obtain ⟨cv, hcv, hch⟩ := h
  unfold Conv.receive
  split
  · exact ⟨cv, hcv, hch⟩
  · dsimp only
    split
    · refine ⟨_, List.mem_map.2 ⟨cv, hcv, rfl⟩, ?_⟩
      split
      · exact hch
      · exact hch
    · exact ⟨cv, List.mem_append_left _ hcv, hch⟩

/-! ### tryRebroadcast -/

theorem tryRebroadcast_nf {s : State} (now : Int) (h : NFx s) : NFOK (s.tryRebroadcast now) :=
  ⟨tryRebroadcast_nofail s now, h.of_fields (tryRebroadcast_phase s now) (by simp) (by simp) (by simp)
    (fun x hx => by simpa using hx) (by simp) (by simp)⟩

/-! ### beginConverge -/

theorem beginConverge_nf (s : State) (now : Int) (j : Just) (hjr : j.round + 1 = s.round)
    (hdR : RoundsDisj s.rounds) (hdD : TallyDisj s.decision) (hb : baseChain s.input ∈ s.candidates)
    (hp : s.proposal ∈ s.candidates) : NFOK (s.beginConverge now j) := by
  unfold State.beginConverge State.alarmAfter State.resetReb
  dsimp only
  split
  · rename_i hbad; simp [hjr] at hbad
  · refine ⟨by simp, ?_⟩
    refine ⟨by simp, ?_, hdD, hb, fun _ => hp, fun _ => ?_⟩
    · apply setRound_disj (s := { s with phase := .converge, phaseTimeout := now + _, rebAttempts := 0, rebTimeout := none }) hdR
      exact getRound_disj hdR s.round
    · rw [getRound_setRound]
      simp only [setRound_round, if_true]
      exact setSelf_has _ _ _

/-! ### the justification lookups never come back empty-handed -/

theorem commitJust_ok {W : Votes} (s3 : State) (hr : RoundsOK W s3.tbl s3.rounds) (hT : 0 < s3.tbl.total)
    (h : (s3.getRound s3.round).prepared.hasStrongFor s3.value = true ∨
         ((s3.getRound s3.round).committed.getJustOf .prepare s3.value).isSome = true ∨
         ((s3.getRound (s3.round + 1)).prepared.getJustOf .prepare s3.value).isSome = true ∨
         ((s3.getRound (s3.round + 1)).converged.getJustOf .prepare s3.value).isSome = true) :
    ∃ j, s3.commitJust = .ok j := by
  have htot := findStrongQuorumFor_total s3.tbl (s3.getRound s3.round).prepared s3.value
    (getRound_ok hr s3.round).prep.wf hT
  unfold State.commitJust
  dsimp only
  split
  · exact ⟨_, rfl⟩
  · rename_i p hp
    rcases htot with ⟨_, h'⟩ | ⟨_, sg, h'⟩ <;> rw [h'] at hp <;> cases hp
  · rename_i hnone
    split
    · exact ⟨_, rfl⟩
    · rename_i h1
      split
      · exact ⟨_, rfl⟩
      · rename_i h2
        split
        · exact ⟨_, rfl⟩
        · rename_i h3
          exfalso
          rcases h with h | h | h | h
          · rcases htot with ⟨h', _⟩ | ⟨_, sg, h'⟩
            · rw [h] at h'; cases h'
            · rw [h'] at hnone; cases hnone
          · rw [h1] at h; cases h
          · rw [h2] at h; cases h
          · rw [h3] at h; cases h

theorem nextRoundJust_ok {W : Votes} (s1 : State) (hr : RoundsOK W s1.tbl s1.rounds) (hT : 0 < s1.tbl.total)
    (h : (s1.getRound (s1.round - 1)).committed.hasStrongFor [] = true ∨
         ((s1.getRound s1.round).prepared.getJustOf .commit []).isSome = true ∨
         ((s1.getRound s1.round).converged.getJustOf .commit []).isSome = true ∨
         ((s1.getRound (s1.round - 1)).committed.justs.find? (·.1 == s1.proposal)).isSome = true) :
    ∃ j, s1.nextRoundJust = .ok j := by
  have htot := findStrongQuorumFor_total s1.tbl (s1.getRound (s1.round - 1)).committed []
    (getRound_ok hr (s1.round - 1)).comm.wf hT
  unfold State.nextRoundJust
  dsimp only
  split
  · exact ⟨_, rfl⟩
  · rename_i p hp
    rcases htot with ⟨_, h'⟩ | ⟨_, sg, h'⟩ <;> rw [h'] at hp <;> cases hp
  · rename_i hnone
    split
    · exact ⟨_, rfl⟩
    · rename_i h1
      split
      · exact ⟨_, rfl⟩
      · rename_i h2
        split
        · exact ⟨_, rfl⟩
        · rename_i h3
          exfalso
          rcases h with h | h | h | h
          · rcases htot with ⟨h', _⟩ | ⟨_, sg, h'⟩
            · rw [h] at h'; cases h'
            · rw [h'] at hnone; cases hnone
          · rw [h1] at h; cases h
          · rw [h2] at h; cases h
          · rw [h3] at h; cases h

/-! ### beginNextRound -/

theorem beginNextRound_nf (s : State) (now : Int) (hr : RoundsOK WT s.tbl s.rounds)
    (hdR : RoundsDisj s.rounds) (hdD : TallyDisj s.decision) (hb : baseChain s.input ∈ s.candidates)
    (hp : s.proposal ∈ s.candidates)
    (hj : ∃ j, ({ s with round := s.round + 1 } : State).nextRoundJust = .ok j) : NFOK (s.beginNextRound now) := by
  obtain ⟨j, hj⟩ := hj
  have hcj := nextRoundJust_conv (W := WT) (s1 := { s with round := s.round + 1 }) hr (by simp) j hj
  unfold State.beginNextRound
  dsimp only
  rw [hj]
  exact beginConverge_nf _ now j hcj.2.1 hdR hdD hb hp

/-! ### tryQuality -/

theorem tryQuality_nf {s : State} (now : Int) (h : NFI s) (hq : s.phase = .quality) : NFOK (s.tryQuality now) := by
  unfold State.tryQuality
  dsimp only
  split
  · rename_i hph; simp [hq] at hph
  · split
    · obtain ⟨hpre, hpne⟩ := longest_prefix_facts s.quality s.input h.1.core.inputNe
      refine ⟨by unfold State.beginPrepare State.alarmAfter State.resetReb; simp, ?_⟩
      refine h.2.to_phase (by unfold State.beginPrepare State.alarmAfter State.resetReb; simp)
        (by unfold State.beginPrepare State.alarmAfter State.resetReb; simp) (by simp) (by simp) (by simp) ?_ ?_
      · intro x hx
        simp only [beginPrepare_candidates]
        exact addCandidatePrefixes_sub _ _ _ hx
      · intro _
        simp only [beginPrepare_candidates, beginPrepare_proposal, addCandidatePrefixes_proposal]
        exact quality_prop_cand s _ _ hpre hpne h.2.baseCand
    · exact NFOK.nil h.2

/-! ### tryConverge -/

theorem tryConverge_nf {s : State} (now : Int) (h : NFI s) (hq : s.phase = .converge) : NFOK (s.tryConverge now) := by
  unfold State.tryConverge
  dsimp only
  split
  · rename_i hph; simp [hq] at hph
  · split
    · split
      · exact tryRebroadcast_nf now h.2
      · exact NFOK.nil h.2
    · obtain ⟨cv, hcv, hch⟩ := h.2.convSelf hq
      have hprop := h.2.propCand (by rw [hq]; rfl)
      have hcon : ∀ f : ConvVal → Bool, f cv = true → (s.getRound s.round).converged.findBest f ≠ none := by
        intro f hf hn
        obtain ⟨w, hw⟩ := findBest_some _ f cv hcv hf
        rw [hw] at hn; cases hn
      split
      · rename_i hnone
        exfalso
        refine hcon _ ?_ hnone
        simp [State.isCandidate, hch, hprop]
      · rename_i w hw
        obtain ⟨hmem, _⟩ := findBest_mem _ _ _ hw
        obtain ⟨hwne, _⟩ := (getRound_ok h.1.core.rounds s.round).conv w hmem
        split
        · rename_i he
          exact absurd (by simpa using he) hwne
        · refine ⟨by unfold State.beginPrepare State.alarmAfter State.resetReb; simp, ?_⟩
          refine h.2.to_phase (by unfold State.beginPrepare State.alarmAfter State.resetReb; simp)
            (by unfold State.beginPrepare State.alarmAfter State.resetReb; simp) (by simp) (by simp) (by simp) ?_ ?_
          · intro x hx
            simp only [beginPrepare_candidates]
            exact addCandidate_sub _ _ _ hx
          · intro _
            simp only [beginPrepare_candidates, beginPrepare_proposal]
            exact addCandidate_self _ _

/-! ### tryPrepare -/

theorem beginCommit_phase_round (s : State) (now : Int) :
    (s.beginCommit now).1.phase = .commit ∧ (s.beginCommit now).1.round = s.round := by
  unfold State.beginCommit State.alarmAfter State.resetReb
  dsimp only
  split
  · exact ⟨rfl, rfl⟩
  · split <;> exact ⟨rfl, rfl⟩

theorem beginCommit_nofail (s : State) (now : Int) (h : s.value = [] ∨ ∃ j, s.commitJust = .ok j) :
    hasFailure (s.beginCommit now).2 = false := by
  unfold State.beginCommit State.alarmAfter
  dsimp only
  split
  · simp
  · rename_i hne
    split
    · simp
    · rename_i p hp
      exfalso
      rcases h with h | ⟨j, hj⟩
      · simp [State.resetReb, h] at hne
      · have : s.commitJust = .error p := hp
        rw [hj] at this; cases this

theorem tryPrepare_nf {s : State} (now : Int) (h : NFI s) (hq : s.phase = .prepare) : NFOK (s.tryPrepare now) := by
  have hpv : NFx (s.prepareValue now) :=
    h.2.of_fields (by simp) (by simp) (by simp) (by simp) (fun x hx => by simpa using hx) (by simp) (by simp)
  unfold State.tryPrepare
  dsimp only
  split
  · rename_i hph; simp [hq] at hph
  · split
    · rename_i hdone
      refine ⟨beginCommit_nofail _ now ?_, ?_⟩
      · by_cases hA : (s.prepFoundQuorum || s.prepFoundJust) = true
        · right
          have hpvv : s.prepareValue now = { s with value := s.proposal } := by
            unfold State.prepareValue; rw [if_pos hA]
          rw [hpvv]
          apply commitJust_ok (W := WT) ({ s with value := s.proposal }) h.1.core.rounds h.1.core.totalPos
          simp only [Bool.or_eq_true] at hA
          rcases hA with hA | hA
          · exact Or.inl hA
          · right
            unfold State.prepFoundJust at hA
            simp only [Bool.or_eq_true] at hA
            rcases hA with (hA | hA) | hA
            · exact Or.inl hA
            · exact Or.inr (Or.inl hA)
            · exact Or.inr (Or.inr hA)
        · left
          unfold State.prepareValue
          rw [if_neg hA]
          have hB : (s.prepNotPossible || s.prepComplete now) = true := by
            simp only [Bool.or_eq_true] at hA hdone ⊢
            rcases hdone with ((hd | hd) | hd) | hd
            · exact absurd (Or.inl hd) hA
            · exact absurd (Or.inr hd) hA
            · exact Or.inl hd
            · exact Or.inr hd
          rw [if_pos hB]
      · obtain ⟨hph, _⟩ := beginCommit_phase_round (s.prepareValue now) now
        refine h.2.to_phase (by rw [hph]; simp) (by rw [hph]; simp) (by simp) (by simp) (by simp)
          (fun x hx => by simpa using hx) ?_
        intro _
        simp only [beginCommit_proposal, beginCommit_candidates, prepareValue_proposal, prepareValue_candidates]
        exact h.2.propCand (by rw [hq]; rfl)
    · split
      · exact tryRebroadcast_nf now hpv
      · exact NFOK.nil hpv

/-! ### tryCommit -/

theorem commitSway_some (s : State) (q : Tally) (v : Chain) (h : q.firstNonZero = some v) :
    (s.commitSway q).proposal = v ∧ (s.commitSway q).candidates = (s.addCandidate v).1.candidates := by
  unfold State.commitSway
  rw [h]
  dsimp only
  split
  · exact ⟨rfl, rfl⟩
  · rename_i hne
    have : v = (s.addCandidate v).1.proposal := by simpa using hne
    exact ⟨this.symm, rfl⟩

theorem beginDecide_nf {s : State} (round : Nat) (h : NFx s)
    (hf : ∃ sg, (s.getRound round).committed.findStrongQuorumFor s.tbl s.value = .found sg) :
    NFOK (s.beginDecide round) := by
  obtain ⟨sg, hsg⟩ := hf
  unfold State.beginDecide State.resetReb
  dsimp only
  split
  · refine ⟨by simp, ?_⟩
    exact h.to_phase (by simp) (by simp) rfl rfl rfl (fun x hx => hx) (fun hm => by simp [Phase.mid] at hm)
  · rename_i p hp
    exact absurd (hp.symm.trans hsg) (by intro h'; cases h')
  · rename_i hp
    exact absurd (hp.symm.trans hsg) (by intro h'; cases h')

theorem tryCommit_nf {s : State} (now : Int) (round : Nat) (h : NFI s) :
    NFOK (s.tryCommit now round) := by
  have hro := getRound_ok h.1.core.rounds round
  have hdj := getRound_disj h.2.disjR round
  have hT := h.1.core.totalPos
  unfold State.tryCommit
  dsimp only
  split
  · rename_i hm
    exact (fsqv_not_multiple s.tbl _ hro.comm.wf hdj.2 hT hm).elim
  · rename_i c hone
    have hst := fsqv_one_strong s.tbl _ hro.comm.wf c hone
    split
    · apply beginDecide_nf round
      · exact h.2.of_fields rfl rfl rfl rfl (fun x hx => hx) rfl rfl
      · exact findStrongQuorumFor_found s.tbl _ c hro.comm.wf hT hst
    · rename_i hce
      have hc : c = [] := by simpa using hce
      split
      · exact NFOK.nil h.2
      · rename_i hg
        simp only [Bool.or_eq_true, bne_iff_ne, ne_eq, not_or, Decidable.not_not] at hg
        apply beginNextRound_nf s now h.1.core.rounds h.2.disjR h.2.disjD h.2.baseCand
          (h.2.propCand (by rw [hg.2]; rfl))
        apply nextRoundJust_ok (W := WT) ({ s with round := s.round + 1 }) h.1.core.rounds hT
        left
        simp only [Nat.add_sub_cancel]
        rw [hg.1, ← hc]; exact hst
  · rename_i hnone
    split
    · exact NFOK.nil h.2
    · rename_i hg
      simp only [Bool.or_eq_true, bne_iff_ne, ne_eq, not_or, Decidable.not_not] at hg
      have hpc := h.2.propCand (by rw [hg.2]; rfl)
      split
      · rename_i hfj
        apply beginNextRound_nf s now h.1.core.rounds h.2.disjR h.2.disjD h.2.baseCand hpc
        apply nextRoundJust_ok (W := WT) ({ s with round := s.round + 1 }) h.1.core.rounds hT
        right
        unfold State.foundJustBottom at hfj
        simp only [Bool.or_eq_true] at hfj
        rw [← hg.1] at hfj
        rcases hfj with hfj | hfj
        · exact Or.inl hfj
        · exact Or.inr (Or.inl hfj)
      · split
        · rename_i hto
          simp only [Bool.and_eq_true] at hto
          obtain ⟨v, hv⟩ := firstNonZero_some s.tbl _ hro.comm.wf hT hnone hto.2
          obtain ⟨hsp, hsc⟩ := commitSway_some s _ v hv
          obtain ⟨hvne, sup, hsup, hch⟩ := firstNonZero_mem _ _ hv
          obtain ⟨e, he, hek⟩ := hro.comm.cover rfl sup hsup (by rw [hch]; exact hvne)
          apply beginNextRound_nf _ now (by simpa using h.1.core.rounds) (by simpa using h.2.disjR)
            (by simpa using h.2.disjD)
          · rw [hsc]; simp only [commitSway_input]; exact addCandidate_sub _ _ _ h.2.baseCand
          · rw [hsc, hsp]; exact addCandidate_self _ _
          · apply nextRoundJust_ok (W := WT) ({ (s.commitSway (s.getRound round).committed) with
                round := (s.commitSway (s.getRound round).committed).round + 1 })
              (by simpa using h.1.core.rounds) (by simpa using hT)
            right; right; right
            simp only [Nat.add_sub_cancel, commitSway_round]
            rw [List.find?_isSome]
            refine ⟨e, ?_, ?_⟩
            · have : ∀ r, State.getRound ({ (s.commitSway (s.getRound round).committed) with
                  round := s.round + 1 }) r = s.getRound r := fun r => getRound_congr (commitSway_rounds s _) r
              rw [this, hg.1]; exact he
            · simp only [beq_iff_eq]; rw [hsp, hek, hch]
        · split
          · exact tryRebroadcast_nf now h.2
          · exact NFOK.nil h.2

/-! ### tryDecide, tryCurrentPhase -/

theorem tryDecide_nf {s : State} (now : Int) (h : NFI s) : NFOK (s.tryDecide now) := by
  have hT := h.1.core.totalPos
  unfold State.tryDecide
  split
  · rename_i hm
    exact (fsqv_not_multiple s.tbl _ h.1.core.decision h.2.disjD hT hm).elim
  · rename_i v hone
    have hst := fsqv_one_strong s.tbl _ h.1.core.decision v hone
    obtain ⟨sg, hsg⟩ := findStrongQuorumFor_found s.tbl _ v h.1.core.decision hT hst
    split
    · unfold State.terminate State.resetReb
      refine ⟨by simp, ?_⟩
      exact h.2.to_phase (by simp) (by simp) rfl rfl rfl (fun x hx => hx) (fun hm => by simp [Phase.mid] at hm)
    · rename_i p hp
      rw [hsg] at hp; cases hp
    · rename_i hp
      rw [hsg] at hp; cases hp
  · exact tryRebroadcast_nf now h.2

theorem tryCurrentPhase_nf {s : State} (now : Int) (h : NFI s) : NFOK (s.tryCurrentPhase now) := by
  unfold State.tryCurrentPhase
  split
  · rename_i hp; exact tryQuality_nf now h hp
  · rename_i hp; exact tryConverge_nf now h hp
  · rename_i hp; exact tryPrepare_nf now h hp
  · exact tryCommit_nf now s.round h
  · exact tryDecide_nf now h
  · exact NFOK.nil h.2
  · rename_i hp; exact absurd hp h.2.notInit

/-- `tryCurrentPhase` keeps the whole invariant -/
theorem tryCurrentPhase_nfi {s : State} (now : Int) (h : NFI s) :
    hasFailure (s.tryCurrentPhase now).2 = false ∧ NFI (s.tryCurrentPhase now).1 :=
  ⟨(tryCurrentPhase_nf now h).1, NFI.of_gok (tryCurrentPhase_gok now h.1) (tryCurrentPhase_nf now h)⟩

end F3.Instance
