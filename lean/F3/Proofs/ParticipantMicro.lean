import F3.Proofs.InstanceDecision
/-!
# Micro-steps of the instance model

A failure-free `Instance.step` (one `Start` / `Receive` / `ReceiveAlarm`) and a failure-free `State.receiveMany`
(the drain of the participant's pre-start queue through `instance.ReceiveMany`) are both compositions of four
*micro-steps*: `beginQuality`, `tryCurrentPhase`, `receiveOne` (without the round skip) and `postReceive` for one
round. The three invariant arguments of the instance-level development are run over arbitrary sequences of
micro-steps:

* `mrun_wp`       — the well-paired (progress, broadcast) skeleton and the quiet-decision invariant `DQ` (here);
* `mrun_decinv`   — the decision invariant `DecInv` (`F3.Proofs.Participant`);
* `mrun_guarded`  — Layer B: `GInv` and `GuardL` for every broadcast (`F3.Proofs.Participant`).

The only side condition beyond validity of the delivered messages is that `postReceive` is never run on a
terminated instance (`MOpOK`). `F3.Proofs.ParticipantRun` shows that every participant-level run (`pstepWith`,
any drain order) *is* such a micro-run.
-/
namespace F3.Instance

inductive MOp
  | start (now : Int)
  | alarm (now : Int)
  | one (now : Int) (m : Msg)
  | post (now : Int) (r : Nat)
  deriving Repr

/-- one micro-step -/
def mstep (s : State) : MOp → R
  | .start now => s.beginQuality now
  | .alarm now => s.tryCurrentPhase now
  | .one now m => (s.receiveOne now m).1
  | .post now r => s.postReceive now r

def mrun (s : State) (ops : List MOp) : R :=
  ops.foldl (fun (acc : State × List Eff) op => let r := mstep acc.1 op; (r.1, acc.2 ++ r.2)) (s, [])

theorem mfoldl_acc (ops : List MOp) (s : State) (pre : List Eff) :
    ops.foldl (fun (acc : State × List Eff) op => let r := mstep acc.1 op; (r.1, acc.2 ++ r.2)) (s, pre) =
      ((mrun s ops).1, pre ++ (mrun s ops).2) := by
  induction ops generalizing s pre with
  | nil => simp [mrun]
  | cons op ops ih =>
    simp only [mrun, List.foldl_cons, List.nil_append]
    rw [ih, ih (mstep s op).1 (mstep s op).2]
    simp [List.append_assoc]

@[simp] theorem mrun_nil (s : State) : mrun s [] = (s, []) := rfl

theorem mrun_cons (s : State) (op : MOp) (ops : List MOp) :
    mrun s (op :: ops) = ((mrun (mstep s op).1 ops).1, (mstep s op).2 ++ (mrun (mstep s op).1 ops).2) := by
  simp only [mrun, List.foldl_cons, List.nil_append]
  exact mfoldl_acc ops _ _

theorem mrun_append (s : State) (a b : List MOp) :
    mrun s (a ++ b) = ((mrun (mrun s a).1 b).1, (mrun s a).2 ++ (mrun (mrun s a).1 b).2) := by
  induction a generalizing s with
  | nil => simp
  | cons op a ih =>
    rw [List.cons_append, mrun_cons, ih, mrun_cons]
    simp [List.append_assoc]

theorem mrun_single (s : State) (op : MOp) : mrun s [op] = mstep s op := by
  rw [mrun_cons]; simp

/-- side condition of one micro-step: the delivered message satisfies `P`; `postReceive` is not run on a
terminated instance -/
def MOpOK (P : Msg → Prop) (s : State) : MOp → Prop
  | .one _ m => P m
  | .post _ _ => s.phase ≠ .terminated
  | _ => True

def MOK (P : Msg → Prop) : State → List MOp → Prop
  | _, [] => True
  | s, op :: ops => MOpOK P s op ∧ MOK P (mstep s op).1 ops

theorem MOK_append (P : Msg → Prop) (s : State) (a b : List MOp) :
    MOK P s (a ++ b) ↔ MOK P s a ∧ MOK P (mrun s a).1 b := by
  induction a generalizing s with
  | nil => simp [MOK]
  | cons op a ih =>
    rw [List.cons_append, mrun_cons]
    simp only [MOK, ih, and_assoc]

theorem MOpOK.mono {P Q : Msg → Prop} (h : ∀ m, P m → Q m) {s : State} {op : MOp} (hop : MOpOK P s op) :
    MOpOK Q s op := by
  cases op with
  | one now m => exact h m hop
  | post now r => exact hop
  | start _ => trivial
  | alarm _ => trivial

theorem MOK.mono {P Q : Msg → Prop} (h : ∀ m, P m → Q m) {s : State} {ops : List MOp} (hok : MOK P s ops) :
    MOK Q s ops := by
  induction ops generalizing s with
  | nil => trivial
  | cons op ops ih => exact ⟨hok.1.mono h, ih hok.2⟩

/-! ### the well-paired skeleton and the quiet-decision invariant -/

/-- the shape of `receiveOne`'s result (as `receiveOne_cases` of the Layer-B development, restated here so that
the skeleton argument does not depend on it) -/
theorem receiveOne_shape (s : State) (now : Int) (m : Msg) :
    (∃ es, (s.receiveOne now m).1 = (s, es) ∧ (es = [] ∨ hasFailure es = true)) ∨
    (m.phase = .quality ∧ (s.receiveOne now m).1 = s.recvQuality now m) ∨
    (∃ j, m.phase = .converge ∧ (s.receiveOne now m).1 = s.recvConverge now m j) ∨
    (m.phase = .prepare ∧ (s.receiveOne now m).1 = s.recvPrepare now m) ∨
    (m.phase = .commit ∧ (s.receiveOne now m).1 = s.recvCommit now m) ∨
    (m.phase = .decide ∧ (s.receiveOne now m).1 = s.recvDecide now m) := by
  unfold State.receiveOne
  split
  · exact Or.inl ⟨_, rfl, Or.inr (by simp)⟩
  · exact Or.inl ⟨_, rfl, Or.inl rfl⟩
  · split
    · rename_i hph; exact Or.inr (Or.inl ⟨hph, rfl⟩)
    · rename_i hph
      split
      · exact Or.inl ⟨_, rfl, Or.inr (by simp)⟩
      · split
        · exact Or.inl ⟨_, rfl, Or.inr (by simp)⟩
        · rename_i j _; exact Or.inr (Or.inr (Or.inl ⟨j, hph, rfl⟩))
    · rename_i hph; exact Or.inr (Or.inr (Or.inr (Or.inl ⟨hph, rfl⟩)))
    · rename_i hph; exact Or.inr (Or.inr (Or.inr (Or.inr (Or.inl ⟨hph, rfl⟩))))
    · rename_i hph; exact Or.inr (Or.inr (Or.inr (Or.inr (Or.inr ⟨hph, rfl⟩))))
    · exact Or.inl ⟨_, rfl, Or.inr (by simp)⟩

/-- termination inside `receiveOne` only happens on DECIDE messages (quiet-decision invariant) -/
theorem receiveOne_term_dq {s : State} (now : Int) (m : Msg) (hq : DQ s)
    (hnf : hasFailure (s.receiveOne now m).1.2 = false) (hterm : (s.receiveOne now m).1.1.phase = .terminated) :
    s.phase = .terminated ∨ m.phase = .decide := by
  by_cases ht : s.phase = .terminated
  · exact Or.inl ht
  · right
    rcases receiveOne_shape s now m with ⟨es, heq, _⟩ | ⟨_, heq⟩ | ⟨j, _, heq⟩ | ⟨_, heq⟩ | ⟨_, heq⟩ | ⟨hph, _⟩
    · rw [heq] at hterm; exact absurd hterm ht
    · rw [heq] at hterm hnf
      rcases recvQuality_nt s now m hq ht with h' | h'
      · exact absurd (h'.symm.trans hnf) (by decide)
      · exact absurd hterm h'
    · rw [heq] at hterm hnf
      rcases recvConverge_nt s now m j hq ht with h' | h'
      · exact absurd (h'.symm.trans hnf) (by decide)
      · exact absurd hterm h'
    · rw [heq] at hterm hnf
      rcases recvPrepare_nt s now m hq ht with h' | h'
      · exact absurd (h'.symm.trans hnf) (by decide)
      · exact absurd hterm h'
    · rw [heq] at hterm hnf
      rcases recvCommit_nt s now m hq ht with h' | h'
      · exact absurd (h'.symm.trans hnf) (by decide)
      · exact absurd hterm h'
    · exact hph

theorem receiveOne_dq (s : State) (now : Int) (m : Msg) (hq : DQ s)
    (hnf : hasFailure (s.receiveOne now m).1.2 = false) : DQ (s.receiveOne now m).1.1 := by
  rcases receiveOne_shape s now m with ⟨es, heq, _⟩ | ⟨_, heq⟩ | ⟨j, _, heq⟩ | ⟨_, heq⟩ | ⟨_, heq⟩ | ⟨_, heq⟩
  · rw [heq]; exact hq
  · rw [heq] at hnf ⊢
    exact DQ_of_okwp hq (recvQuality_wp s now m) hnf (recvQuality_decision s now m)
  · rw [heq] at hnf ⊢
    exact DQ_of_okwp hq (recvConverge_wp s now m j) hnf (recvConverge_decision s now m j)
  · rw [heq] at hnf ⊢
    exact DQ_of_okwp hq (recvPrepare_wp s now m) hnf (recvPrepare_decision s now m)
  · rw [heq] at hnf ⊢
    by_cases ht : s.phase = .terminated
    · -- a terminated instance accepts nothing: `receiveOne` left it untouched
      have := receiveOne_wp s now m
      rw [heq] at this
      rcases this with hf | hw
      · exact absurd (hf.symm.trans hnf) (by decide)
      · exact DQ_frame hq hw.le (recvCommit_decision s now m)
    · exact DQ_of_okwp hq (recvCommit_wp s now m ht) hnf (recvCommit_decision s now m)
  · rw [heq] at hnf ⊢
    rcases recvDecide_dq s now m with h' | h'
    · exact absurd (h'.symm.trans hnf) (by decide)
    · exact h'

theorem mstep_ok (s : State) (op : MOp) (hq : DQ s) (hop : MOpOK (fun _ => True) s op) :
    StepOK s (mstep s op) := by
  cases op with
  | start now => exact step_ok s (.start now) hq trivial
  | alarm now => exact step_ok s (.alarm now) hq trivial
  | one now m =>
    show StepOK s (s.receiveOne now m).1
    rcases receiveOne_wp s now m with hf | hw
    · exact Or.inl hf
    · cases hnf : hasFailure (s.receiveOne now m).1.2
      · exact Or.inr ⟨hw, receiveOne_dq s now m hq hnf⟩
      · exact Or.inl hnf
  | post now r =>
    exact stepOK_of hq (postReceive_wp s now r hop) (postReceive_decision s now r)

/-- **Micro-run skeleton.** -/
theorem mrun_wp (s : State) (ops : List MOp) (hq : DQ s) (hok : MOK (fun _ => True) s ops)
    (hnf : hasFailure (mrun s ops).2 = false) :
    WP s.pt (evs (mrun s ops).2) (mrun s ops).1.pt ∧ DQ (mrun s ops).1 := by
  induction ops generalizing s with
  | nil => exact ⟨by simpa using WP.nil s.pt, by simpa using hq⟩
  | cons op ops ih =>
    rw [mrun_cons] at hnf ⊢
    simp only [hasFailure_append, Bool.or_eq_false_iff] at hnf
    rcases mstep_ok s op hq hok.1 with hf | ⟨hw, hq'⟩
    · exact absurd (hf.symm.trans hnf.1) (by decide)
    · have := ih (mstep s op).1 hq' hok.2 hnf.2
      exact ⟨by simpa using hw.append this.1, this.2⟩

end F3.Instance
