import F3.Proofs.CodecCbor
/-! Length lemmas for the cbor-gen decoder model: heads take at least a byte, the rest never grows. -/
namespace F3.Cbor
open F3.Codec

theorem takeN_len {n : Nat} {b h t : Bytes} (e : takeN n b = some (h, t)) : t.length + n = b.length := by
  obtain ⟨hb, hl⟩ := takeN_some e
  rw [hb, List.length_append, hl]; omega

/-- a head is at least one byte -/
theorem readHdr_len {b r : Bytes} {maj n : Nat} (h : readHdr b = .ok (maj, n, r)) : r.length + 1 ≤ b.length := by
  cases b with
  | nil => simp [readHdr] at h
  | cons x rest =>
    simp only [readHdr] at h
    split at h
    · simp at h; obtain ⟨_, _, rfl⟩ := h; simp
    · split at h
      · cases rest with
        | nil => simp at h
        | cons y r' =>
          simp only at h
          split at h
          · simp at h
          · simp at h; obtain ⟨_, _, rfl⟩ := h; simp
      · split at h
        · cases ht : takeN 2 rest with
          | none => simp [ht] at h
          | some q =>
            obtain ⟨v, r'⟩ := q
            simp only [ht] at h
            have := takeN_len ht
            split at h
            · simp at h
            · simp at h; obtain ⟨_, _, rfl⟩ := h; simp; omega
        · split at h
          · cases ht : takeN 4 rest with
            | none => simp [ht] at h
            | some q =>
              obtain ⟨v, r'⟩ := q
              simp only [ht] at h
              have := takeN_len ht
              split at h
              · simp at h
              · simp at h; obtain ⟨_, _, rfl⟩ := h; simp; omega
          · split at h
            · cases ht : takeN 8 rest with
              | none => simp [ht] at h
              | some q =>
                obtain ⟨v, r'⟩ := q
                simp only [ht] at h
                have := takeN_len ht
                split at h
                · simp at h
                · simp at h; obtain ⟨_, _, rfl⟩ := h; simp; omega
            · simp at h

theorem decodeN_len (dec : Bytes → Except Err (Value × Bytes))
    (h : ∀ b v r, dec b = .ok (v, r) → r.length ≤ b.length) :
    ∀ n b vs r, decodeN dec n b = .ok (vs, r) → r.length ≤ b.length := by
  intro n
  induction n with
  | zero => intro b vs r hd; simp [decodeN] at hd; obtain ⟨_, rfl⟩ := hd; exact Nat.le_refl _
  | succ n ih =>
    intro b vs r hd
    simp only [decodeN] at hd
    cases h1 : dec b with
    | error e => simp [h1] at hd
    | ok p =>
      obtain ⟨v, r1⟩ := p
      simp only [h1] at hd
      cases h2 : decodeN dec n r1 with
      | error e => simp [h2] at hd
      | ok q =>
        obtain ⟨vs', r2⟩ := q
        simp only [h2] at hd
        simp at hd
        obtain ⟨_, rfl⟩ := hd
        have := ih r1 vs' r2 h2
        have := h b v r1 h1
        omega

/-- the decoder returns a rest that is not longer than its input (it consumes, never produces) -/
theorem decode_len : ∀ (s : Schema) (b : Bytes) (v : Value) (r : Bytes),
    decode s b = .ok (v, r) → r.length ≤ b.length := by
  intro s
  induction s with
  | uint max =>
    intro b v r h
    simp only [decode] at h
    cases hr : readHdr b with
    | error e => simp [hr] at h
    | ok p =>
      obtain ⟨maj, n, r0⟩ := p
      have := readHdr_len hr
      simp only [hr] at h
      split at h
      · simp at h
      · split at h
        · simp at h
        · simp at h; obtain ⟨_, rfl⟩ := h; omega
  | int64 =>
    intro b v r h
    simp only [decode] at h
    cases hr : readHdr b with
    | error e => simp [hr] at h
    | ok p =>
      obtain ⟨maj, n, r0⟩ := p
      have := readHdr_len hr
      simp only [hr] at h
      split at h
      · split at h
        · simp at h
        · simp at h; obtain ⟨_, rfl⟩ := h; omega
      · split at h
        · split at h
          · simp at h
          · simp at h; obtain ⟨_, rfl⟩ := h; omega
        · simp at h
  | bool =>
    intro b v r h
    simp only [decode] at h
    cases hr : readHdr b with
    | error e => simp [hr] at h
    | ok p =>
      obtain ⟨maj, n, r0⟩ := p
      have := readHdr_len hr
      simp only [hr] at h
      split at h
      · simp at h
      · split at h
        · simp at h; obtain ⟨_, rfl⟩ := h; omega
        · split at h
          · simp at h; obtain ⟨_, rfl⟩ := h; omega
          · simp at h
  | bytes l =>
    intro b v r h
    simp only [decode] at h
    cases hr : readHdr b with
    | error e => simp [hr] at h
    | ok p =>
      obtain ⟨maj, n, r0⟩ := p
      have := readHdr_len hr
      simp only [hr] at h
      split at h
      · simp at h
      · split at h
        · simp at h
        · obtain ⟨x, _, hl, hx⟩ := readBody_ok h
          rw [hx, List.length_append] at this; omega
  | fixed encN decN l =>
    intro b v r h
    simp only [decode] at h
    cases hr : readHdr b with
    | error e => simp [hr] at h
    | ok p =>
      obtain ⟨maj, n, r0⟩ := p
      have := readHdr_len hr
      simp only [hr] at h
      split at h
      · simp at h
      · split at h
        · simp at h
        · split at h
          · simp at h
          · obtain ⟨x, _, hl, hx⟩ := readBody_ok h
            rw [hx, List.length_append] at this; omega
  | cid =>
    intro b v r h
    simp only [decode] at h
    cases hr : readHdr b with
    | error e => simp [hr] at h
    | ok p =>
      obtain ⟨maj, n, r0⟩ := p
      have h0 := readHdr_len hr
      simp only [hr] at h
      split at h
      · simp at h
      · split at h
        · simp at h
        · cases hr2 : readHdr r0 with
          | error e => simp [hr2] at h
          | ok p2 =>
            obtain ⟨maj2, n2, r2⟩ := p2
            have h2 := readHdr_len hr2
            simp only [hr2] at h
            split at h
            · simp at h
            · split at h
              · simp at h
              · cases ht : takeN n2 r2 with
                | none => simp [ht] at h
                | some q =>
                  obtain ⟨buf, r3⟩ := q
                  simp only [ht] at h
                  have h3 := takeN_len ht
                  split at h
                  · split at h
                    · simp at h; obtain ⟨_, rfl⟩ := h; omega
                    · simp at h
                  · simp at h
  | bigint =>
    intro b v r h
    simp only [decode] at h
    cases hr : readHdr b with
    | error e => simp [hr] at h
    | ok p =>
      obtain ⟨maj, n, r0⟩ := p
      have h0 := readHdr_len hr
      simp only [hr] at h
      split at h
      · simp at h
      · split at h
        · simp at h; obtain ⟨_, rfl⟩ := h; omega
        · split at h
          · simp at h
          · cases ht : takeN n r0 with
            | none => simp [ht] at h
            | some q =>
              obtain ⟨buf, r3⟩ := q
              simp only [ht] at h
              have h3 := takeN_len ht
              split at h
              · simp at h; obtain ⟨_, rfl⟩ := h; omega
              · simp at h; obtain ⟨_, rfl⟩ := h; omega
              · simp at h
  | bitfield =>
    intro b v r h
    simp only [decode] at h
    cases hr : readHdr b with
    | error e => simp [hr] at h
    | ok p =>
      obtain ⟨maj, n, r0⟩ := p
      have h0 := readHdr_len hr
      simp only [hr] at h
      split at h
      · simp at h
      · split at h
        · simp at h
        · cases ht : takeN n r0 with
          | none => simp [ht] at h
          | some q =>
            obtain ⟨buf, r3⟩ := q
            simp only [ht] at h
            have h3 := takeN_len ht
            split at h
            · simp at h; obtain ⟨_, rfl⟩ := h; omega
            · simp at h
  | array l e ih =>
    intro b v r h
    simp only [decode] at h
    cases hr : readHdr b with
    | error e => simp [hr] at h
    | ok p =>
      obtain ⟨maj, n, r0⟩ := p
      have h0 := readHdr_len hr
      simp only [hr] at h
      split at h
      · simp at h
      · split at h
        · simp at h
        · have := decodeN_len (decode e) ih n r0 v r h
          omega
  | tuple encN decN fs ih =>
    intro b v r h
    simp only [decode] at h
    cases hr : readHdr b with
    | error e => simp [hr] at h
    | ok p =>
      obtain ⟨maj, n, r0⟩ := p
      have h0 := readHdr_len hr
      simp only [hr] at h
      split at h
      · simp at h
      · split at h
        · simp at h
        · have := ih r0 v r h
          omega
  | tnil =>
    intro b v r h
    simp [decode] at h; obtain ⟨_, rfl⟩ := h; exact Nat.le_refl _
  | tcons x y ihx ihy =>
    intro b v r h
    simp only [decode] at h
    cases h1 : decode x b with
    | error e => simp [h1] at h
    | ok p =>
      obtain ⟨v1, r1⟩ := p
      simp only [h1] at h
      cases h2 : decode y r1 with
      | error e => simp [h2] at h
      | ok q =>
        obtain ⟨v2, r2⟩ := q
        simp only [h2] at h
        simp at h; obtain ⟨_, rfl⟩ := h
        have := ihx b v1 r1 h1
        have := ihy r1 v2 r2 h2
        omega
  | nullable s ih =>
    intro b v r h
    cases b with
    | nil => simp [decode] at h
    | cons x r0 =>
      simp only [decode] at h
      split at h
      · simp at h; obtain ⟨_, rfl⟩ := h; simp
      · exact ih (x :: r0) v r h
  | nullAsEmpty s ih =>
    intro b v r h
    cases b with
    | nil => simp [decode] at h
    | cons x r0 =>
      simp only [decode] at h
      split at h
      · simp at h; obtain ⟨_, rfl⟩ := h; simp
      · exact ih (x :: r0) v r h

/-- a struct (tuple) consumes at least its array head -/
theorem decode_tuple_len {a d : Nat} {fs : Schema} {b : Bytes} {v : Value} {r : Bytes}
    (h : decode (.tuple a d fs) b = .ok (v, r)) : r.length + 1 ≤ b.length := by
  simp only [decode] at h
  cases hr : readHdr b with
  | error e => simp [hr] at h
  | ok p =>
    obtain ⟨maj, n, r0⟩ := p
    have h0 := readHdr_len hr
    simp only [hr] at h
    split at h
    · simp at h
    · split at h
      · simp at h
      · have := decode_len fs r0 v r h
        omega

end F3.Cbor
