import F3.Gen.SkelBls
/-!
# Expected statement skeletons (SkelBls)

The real BLS signing / aggregation code (`blssig/`) is in the trusted base: the models use ideal signature tokens and
the harnesses an ideal backend. Its statement structure is pinned here so that a structural change of the verifier
(e.g. sharing the BDN mask between concurrent `VerifyAggregate` calls instead of cloning it, seeded c05-a) is at least a
broken obligation of the properties that rest on signature verification (C03, C05).
-/
namespace F3.SkelTie.SkelBls
open F3.Gen.SkelBls

/-- the structure of `BlsAggregate` when it entered the trusted base -/
def skelBlsAggregateExpected : List String :=
  ["0:defer", "0:if", "1:return2", "0:assign:=", "0:range", "1:if", "2:return2", "0:assign:=", "0:if",
   "1:return2", "0:assign:=", "0:if", "1:return2", "0:return2"]

theorem skelBlsAggregate_expected : skelBlsAggregate = skelBlsAggregateExpected := rfl

/-- the structure of `BlsVerifyAggregate` when it entered the trusted base -/
def skelBlsVerifyAggregateExpected : List String :=
  ["0:defer", "0:assign:=", "0:range", "1:if", "2:return1", "0:assign:=", "0:if", "1:return1", "0:return1"]

theorem skelBlsVerifyAggregate_expected : skelBlsVerifyAggregate = skelBlsVerifyAggregateExpected := rfl

/-- the structure of `BlsNewAggregate` when it entered the trusted base -/
def skelBlsNewAggregateExpected : List String :=
  ["0:defer", "0:assign:=", "0:range", "1:assign:=", "1:if", "2:return2", "1:assign=", "0:assign:=", "0:if",
   "1:return2", "0:return2"]

theorem skelBlsNewAggregate_expected : skelBlsNewAggregate = skelBlsNewAggregateExpected := rfl

/-- the structure of `BlsVerify` when it entered the trusted base -/
def skelBlsVerifyExpected : List String :=
  ["0:defer", "0:assign:=", "0:if", "1:return1", "0:return1"]

theorem skelBlsVerify_expected : skelBlsVerify = skelBlsVerifyExpected := rfl

/-- the structure of `BlsPubkeyToPoint` when it entered the trusted base -/
def skelBlsPubkeyToPointExpected : List String :=
  ["0:if", "1:return2", "0:decl", "0:assign:=", "0:defer", "0:call:v.mu.RLock", "0:assign=",
   "0:call:v.mu.RUnlock", "0:if", "1:return2", "0:assign=", "0:assign:=", "0:if", "1:return2", "0:if",
   "1:return2", "0:call:v.mu.Lock", "0:if", "1:assign=", "0:assign=", "0:if", "1:assign=",
   "0:call:v.mu.Unlock", "0:return2"]

theorem skelBlsPubkeyToPoint_expected : skelBlsPubkeyToPoint = skelBlsPubkeyToPointExpected := rfl

end F3.SkelTie.SkelBls
