import Mathlib.Data.List.Perm.Subperm
import F3.Proofs.Inputs
/-! Completeness of `collectChain` on well-formed EC trees (C15). Uses one Mathlib module for the
pigeonhole step (a duplicate-free list of block indices is no longer than the block list). -/
namespace F3.Proofs.InputsComplete
open F3 F3.Inputs F3.Spec.Inputs F3.Proofs.Inputs

set_option linter.unusedSimpArgs false
set_option linter.unusedVariables false

theorem nodup_bounded_length (l : List Nat) (N : Nat) (hn : l.Nodup) (hb : ∀ x ∈ l, x < N) : l.length ≤ N := by
  have hsub : l ⊆ List.range N := fun x hx => List.mem_range.mpr (hb x hx)
  have := (List.subperm_of_subset hn hsub).length_le
  simpa using this

/-- EC is well formed: every parent exists and has a strictly smaller epoch -/
def wfEC (ec : EC) : Prop :=
  ∀ k b, ec.get k = some b → ∀ p, b.parent = some p → ∃ pb, ec.get p = some pb ∧ pb.epoch < b.epoch

theorem isPath_snoc (ec : EC) : ∀ (l : List Nat) (a x : Nat),
    isPath ec a (l ++ [x]) ↔ isPath ec a l ∧ ∃ blk, ec.get x = some blk ∧ blk.parent = some ((a :: l).getLast (by simp)) := by
  intro l
  induction l with
  | nil => intro a x; simp [isPath]
  | cons b rest ih =>
    intro a x
    have h := ih b x
    simp only [List.cons_append, isPath]
    constructor
    · rintro ⟨h1, h2⟩
      obtain ⟨h3, h4⟩ := h.1 h2
      exact ⟨⟨h1, h3⟩, by simpa [List.getLast_cons] using h4⟩
    · rintro ⟨⟨h1, h2⟩, h3⟩
      exact ⟨h1, h.2 ⟨h2, by simpa [List.getLast_cons] using h3⟩⟩

/-- along a path epochs strictly increase -/
theorem isPath_epochs (ec : EC) (hwf : wfEC ec) : ∀ (l : List Nat) (a : Nat) (ab : Block), ec.get a = some ab →
    isPath ec a l → ∀ x ∈ l, ∃ bx, ec.get x = some bx ∧ ab.epoch < bx.epoch := by
  intro l
  induction l with
  | nil => intro a ab _ _ x hx; simp at hx
  | cons b rest ih =>
    intro a ab ha hp x hx
    obtain ⟨⟨blk, hb, hpar⟩, hrest⟩ := hp
    obtain ⟨pb, hpb, hlt⟩ := hwf b blk hb a hpar
    rw [ha] at hpb
    simp only [Option.some.injEq] at hpb
    subst hpb
    simp only [List.mem_cons] at hx
    rcases hx with hx | hx
    · subst hx; exact ⟨blk, hb, hlt⟩
    · obtain ⟨bx, hbx, hlt2⟩ := ih b blk hb hrest x hx
      exact ⟨bx, hbx, by omega⟩

theorem isPath_nodup (ec : EC) (hwf : wfEC ec) : ∀ (l : List Nat) (a : Nat) (ab : Block), ec.get a = some ab →
    isPath ec a l → l.Nodup := by
  intro l
  induction l with
  | nil => intro _ _ _ _; exact List.nodup_nil
  | cons b rest ih =>
    intro a ab ha hp
    obtain ⟨⟨blk, hb, hpar⟩, hrest⟩ := hp
    refine List.nodup_cons.mpr ⟨?_, ih b blk hb hrest⟩
    intro hmem
    obtain ⟨bx, hbx, hlt⟩ := isPath_epochs ec hwf rest b blk hb hrest b hmem
    rw [hb] at hbx
    simp only [Option.some.injEq] at hbx
    subst hbx
    omega

theorem collectFrom_complete (ec : EC) (hwf : wfEC ec) (baseKey : Nat) (base : Block) (hb : ec.get baseKey = some base) :
    ∀ (n : Nat) (l : List Nat), l.length = n → ∀ (acc : List Nat) (fuel : Nat), isPath ec baseKey l → l.length < fuel →
      collectFrom ec baseKey base.epoch fuel ((baseKey :: l).getLast (by simp)) acc = .ok (some (l ++ acc)) := by
  intro n
  induction n with
  | zero =>
    intro l hl acc fuel _ hf
    have : l = [] := List.length_eq_zero_iff.mp hl
    subst this
    cases fuel with
    | zero => simp at hf
    | succ n => simp [collectFrom]
  | succ k ih =>
    intro l hl acc fuel hp hf
    rcases List.eq_nil_or_concat l with h | ⟨l', x, h⟩
    · subst h; simp at hl
    · have hl2 : l = l' ++ [x] := by simpa using h
      subst hl2
      obtain ⟨hp', blk, hx, hpar⟩ := (isPath_snoc ec l' baseKey x).1 hp
      cases fuel with
      | zero => simp at hf
      | succ m =>
        have hlast : (baseKey :: (l' ++ [x])).getLast (by simp) = x := by simp
        rw [hlast]
        obtain ⟨bx, hbx, hlt⟩ := isPath_epochs ec hwf (l' ++ [x]) baseKey base hb hp x (by simp)
        rw [hx] at hbx
        simp only [Option.some.injEq] at hbx
        subst hbx
        have hne : x ≠ baseKey := by
          intro he
          rw [he, hb] at hx
          simp only [Option.some.injEq] at hx
          subst hx
          omega
        obtain ⟨pb, hpb, _⟩ := hwf x blk hx _ hpar
        have hnl : ¬ blk.epoch < base.epoch := by omega
        simp only [collectFrom, hne, ite_false, hx, hnl, hpar, hpb]
        have hk : l'.length = k := by simp at hl; omega
        have hlen : l'.length < m := by simp at hf; omega
        have := ih l' hk (x :: acc) m hp' hlen
        rw [this]
        simp

/-- **Completeness of the walk**: in a well-formed EC, whenever the base is an ancestor of (or equal
to) the head, `collectChain` returns exactly the parent path between them. -/
theorem collectChain_complete (ec : EC) (hwf : wfEC ec) (baseKey : Nat) (base head : Block) (l : List Nat)
    (hb : ec.get baseKey = some base) (hh : ec.get ec.head = some head)
    (hp : isPath ec baseKey l) (hl : (baseKey :: l).getLast? = some ec.head) :
    collectChain ec baseKey base head = .ok (some l) := by
  have hlast : (baseKey :: l).getLast (by simp) = ec.head := by
    have := List.getLast?_eq_some_getLast (l := baseKey :: l) (by simp)
    rw [this] at hl
    simpa using hl
  -- the head is not behind the base
  have hnb : ¬ head.epoch < base.epoch := by
    cases l with
    | nil =>
      simp at hlast
      rw [← hlast, hb] at hh
      simp only [Option.some.injEq] at hh
      subst hh; omega
    | cons y ys =>
      have hmem : ec.head ∈ (y :: ys) := by
        rw [← hlast, List.getLast_cons (by simp)]
        exact List.getLast_mem _
      obtain ⟨bx, hbx, hlt⟩ := isPath_epochs ec hwf (y :: ys) baseKey base hb hp ec.head hmem
      rw [hh] at hbx
      simp only [Option.some.injEq] at hbx
      subst hbx
      omega
  -- fuel: the path visits distinct blocks
  have hnd := isPath_nodup ec hwf l baseKey base hb hp
  have hbound : ∀ x ∈ l, x < ec.blocks.length := by
    intro x hx
    obtain ⟨bx, hbx, _⟩ := isPath_epochs ec hwf l baseKey base hb hp x hx
    unfold EC.get at hbx
    rcases Nat.lt_or_ge x ec.blocks.length with h | h
    · exact h
    · rw [List.getElem?_eq_none h] at hbx; cases hbx
  have hlen := nodup_bounded_length l ec.blocks.length hnd hbound
  unfold collectChain
  simp only [hnb, ite_false]
  have := collectFrom_complete ec hwf baseKey base hb l.length l rfl [] (ec.blocks.length + 1) hp (by omega)
  rw [hlast] at this
  simpa using this

end F3.Proofs.InputsComplete
