import F3.Model.NetRanked
import F3.Proofs.RoundDecides
/-!
# Round `r ≥ 1` at network level: the executable (Bool-valued) hypotheses

Everything here is a decidable condition on a `NetRanked` network state or on a list of events, so that the hypotheses
of `round_r_decides` (`F3/Proofs/RoundNetNet.lean`) can be checked on concrete runs by `decide`.

* `relevant r m`: the messages that matter in round `r`: CONVERGE / PREPARE / COMMIT of round `r` and DECIDE (which the
  implementation always sends with round 0).
* `roundStartB` (`RoundStart`): the live participants `H` (distinct table members holding a strong quorum; the
  whole table is the special case `H = tbl.entries.map (·.1)`) all sit in CONVERGE of round `r` with their own CONVERGE
  value `val p` broadcast (ticket `rankOf p r`, justification `jst p`), the tallies of round `r` and the DECIDE tally
  empty, nobody terminated, no round-`r` / DECIDE message handed over yet.
* `syncOkR` (`SyncOrderedR`): the events of the round: only members of `H` act, no `Start`, only `relevant` messages are
  handed over (**re-deliveries of older rounds' messages are excluded**, not proved harmless: a re-delivered COMMIT of
  round `r-1` can complete a late strong quorum, a late QUALITY vote changes the candidates), and a member that
  evaluates its CONVERGE timeout of round `r` as expired (in `ReceiveAlarm` *or* at the end of `Receive`) has been handed
  the CONVERGE of every member of `H`. No condition on the PREPARE / COMMIT timeouts is needed (total power positive:
  with unanimous votes "timeout expired and a strong quorum of senders heard" already implies a quorum for the value).
* `completeR`: every relevant pool message has been handed to every member of `H`.
-/
namespace F3.Liveness
open F3.Instance F3.Net F3.NetRanked

def relevant (r : Nat) (m : Msg) : Bool :=
  (m.round == r && (m.phase == .converge || m.phase == .prepare || m.phase == .commit)) || m.phase == .decide

/-- the filter of `tryConverge` on a value and its justification (`admissible s cv = admAt s cv.chain cv.just`) -/
def admAt (s : State) (v : Chain) (j : Just) : Bool :=
  s.isCandidate v || (j.phase == .prepare && (s.getRound (s.round - 1)).committed.couldReach s.tbl v true)

theorem admissible_eq (s : State) (cv : ConvVal) : admissible s cv = admAt s cv.chain cv.just := rfl

/-- the CONVERGE message of `p` for round `r`, read off the pool -/
def convMsg? (n : Net) (r : Nat) (p : Pid) : Option Msg :=
  n.pool.find? (fun m => m.sender == p && m.round == r && m.phase == .converge)
def valOf (n : Net) (r : Nat) (p : Pid) : Chain := ((convMsg? n r p).map (·.value)).getD []
def jstOf (n : Net) (r : Nat) (p : Pid) : Just := ((convMsg? n r p).bind (·.just)).getD default

def tallyEmpty (T : Tally) : Bool := T.senders.isEmpty && T.sendersPower == 0 && T.support.isEmpty

/-- member `p` at the start of round `r` -/
def nodeStartB (t : Table) (r b : Nat) (val : Pid → Chain) (jst : Pid → Just) (p : Pid) (x : State) : Bool :=
  x.tbl.entries == t.entries && x.input.head? == some b && x.round == r && x.phase == .converge &&
  (x.rounds.find? (·.1 == r + 1)).isNone &&
  (x.getRound r).converged.senders.isEmpty &&
  (x.getRound r).converged.values.map (fun cv => (cv.chain, cv.just, cv.rank)) == [(val p, jst p, none)] &&
  tallyEmpty (x.getRound r).prepared && tallyEmpty (x.getRound r).committed && tallyEmpty x.decision &&
  x.termination.isNone

def roundStartB (rankOf : Pid → Nat → Nat) (t : Table) (H : List Pid) (r b : Nat) (val : Pid → Chain)
    (jst : Pid → Just) (n : Net) : Bool :=
  decide (1 ≤ r) && decide (0 < t.total) && H.all (fun p => (t.index? p).isSome) && strongQ t (sumP t H) &&
  decide H.Nodup && decide (n.nodes.map (·.1)).Nodup &&
  H.all (fun p => match n.node? p with | some x => nodeStartB t r b val jst p x | none => false) &&
  H.all (fun p => (val p).head? == some b) &&
  H.all (fun p => n.pool.any (fun m => relevant r m && m.sender == p && m.phase == .converge)) &&
  n.pool.all (fun m => !relevant r m ||
    (m.phase == .converge && H.contains m.sender && m.value == val m.sender && m.rank == rankOf m.sender r &&
     m.just == some (jst m.sender) && m.suppOk && m.instOk)) &&
  n.delivered.all (fun d => !(H.contains d.1 && relevant r d.2))

/-- **the start of round `r`** -/
def RoundStart (rankOf : Pid → Nat → Nat) (t : Table) (H : List Pid) (r b : Nat) (val : Pid → Chain)
    (jst : Pid → Just) (n : Net) : Prop := roundStartB rankOf t H r b val jst n = true

/-- node `p` has been handed the round-`r` CONVERGE of every member of `H` -/
def allHandedR (H : List Pid) (dl : List (Pid × Msg)) (p : Pid) (r : Nat) : Bool :=
  H.all (fun q => dl.any (fun d => d.1 == p && d.2.sender == q && d.2.phase == .converge && d.2.round == r))

def syncAtR (r : Nat) (H : List Pid) (n : Net) (dl : List (Pid × Msg)) (p : Pid) (now : Int) : Bool :=
  match n.node? p with
  | none => true
  | some s => if s.round == r && s.phase == .converge && s.phaseTimeoutElapsed now then allHandedR H dl p r else true

def syncOpOkR (r : Nat) (H : List Pid) (n : Net) : NetOp → Bool
  | .start _ _ => false
  | .deliver p now m => H.contains p && relevant r m && syncAtR r H n (n.delivered ++ [(p, m)]) p now
  | .alarm p now => H.contains p && syncAtR r H n n.delivered p now

def syncOkR (rankOf : Pid → Nat → Nat) (r : Nat) (H : List Pid) (n : Net) : List NetOp → Bool
  | [] => true
  | op :: ops => syncOpOkR r H n op && syncOkR rankOf r H (netStepR rankOf n op) ops

/-- **synchrony of round `r`, untimed** -/
def SyncOrderedR (rankOf : Pid → Nat → Nat) (r : Nat) (H : List Pid) (n : Net) (ops : List NetOp) : Prop :=
  syncOkR rankOf r H n ops = true

def completeR (r : Nat) (H : List Pid) (n : Net) : Bool :=
  n.pool.all (fun m => !relevant r m || H.all (fun q => n.delivered.contains (q, m)))

/-- nobody is left waiting for its CONVERGE timer -/
def noneInConverge (H : List Pid) (n : Net) : Bool :=
  H.all (fun p => match n.node? p with | some x => x.phase != .converge | none => true)

/-- the value of `w` is admissible at every member, under the justification of every member that sends it -/
def admAllB (H : List Pid) (w : Pid) (val : Pid → Chain) (jst : Pid → Just) (n : Net) : Bool :=
  H.all (fun p => match n.node? p with
    | some x => H.all (fun q => val q != val w || admAt x (val w) (jst q))
    | none => false)

/-- what the round theorem concludes, as a Bool (for experiments) -/
def decidedB (H : List Pid) (r : Nat) (v : Chain) (n : Net) : Bool :=
  H.all (fun p => match n.node? p with
    | some x => x.phase == .terminated && x.round == r && x.termination.map (·.value) == some v
    | none => false)

end F3.Liveness
