import F3.Proofs.InstanceWP
/-! Termination source, the quiet-decision invariant, and well-pairedness of whole runs. -/
namespace F3.Instance

macro "nt_tac" : tactic => `(tactic| ((try dsimp only); repeat' (first | assumption | split | (simp; done) | (simp_all; done))))

theorem tryRebroadcast_phase (s : State) (now : Int) : (s.tryRebroadcast now).1.phase = s.phase := by
  unfold State.tryRebroadcast State.resetReb; frame_tac

theorem beginPrepare_nt (s : State) (now : Int) (j) : (s.beginPrepare now j).1.phase ≠ .terminated := by
  unfold State.beginPrepare State.alarmAfter State.resetReb; simp
theorem beginCommit_nt (s : State) (now : Int) : (s.beginCommit now).1.phase ≠ .terminated := by
  unfold State.beginCommit State.alarmAfter State.resetReb; nt_tac
theorem beginConverge_nt (s : State) (now : Int) (j) (h : s.phase ≠ .terminated) :
    (s.beginConverge now j).1.phase ≠ .terminated := by
  unfold State.beginConverge State.alarmAfter State.resetReb State.setRound; nt_tac
theorem beginNextRound_nt (s : State) (now : Int) (h : s.phase ≠ .terminated) :
    (s.beginNextRound now).1.phase ≠ .terminated := by
  unfold State.beginNextRound
  dsimp only
  split
  · exact beginConverge_nt _ _ _ h
  · exact h
theorem beginDecide_nt (s : State) (r : Nat) : (s.beginDecide r).1.phase ≠ .terminated := by
  unfold State.beginDecide State.resetReb; nt_tac
theorem skipToDecide_phase (s : State) (v j) : (s.skipToDecide v j).1.phase = .decide := by
  unfold State.skipToDecide State.resetReb; rfl

theorem tryQuality_nt (s : State) (now : Int) (h : s.phase ≠ .terminated) : (s.tryQuality now).1.phase ≠ .terminated := by
  unfold State.tryQuality
  dsimp only
  split
  · exact h
  · split
    · exact beginPrepare_nt _ _ _
    · exact h

theorem tryConverge_nt (s : State) (now : Int) (h : s.phase ≠ .terminated) : (s.tryConverge now).1.phase ≠ .terminated := by
  unfold State.tryConverge
  dsimp only
  split
  · exact h
  · split
    · split
      · rw [tryRebroadcast_phase]; exact h
      · exact h
    · split
      · exact h
      · split
        · exact h
        · exact beginPrepare_nt _ _ _

theorem tryPrepare_nt (s : State) (now : Int) (h : s.phase ≠ .terminated) : (s.tryPrepare now).1.phase ≠ .terminated := by
  unfold State.tryPrepare
  dsimp only
  split
  · exact h
  · split
    · exact beginCommit_nt _ _
    · split
      · rw [tryRebroadcast_phase]; simpa using h
      · simpa using h

theorem tryCommit_nt (s : State) (now : Int) (r : Nat) (h : s.phase ≠ .terminated) :
    (s.tryCommit now r).1.phase ≠ .terminated := by
  unfold State.tryCommit
  dsimp only
  split
  · exact h
  · split
    · exact beginDecide_nt _ _
    · split
      · exact h
      · exact beginNextRound_nt _ _ h
  · split
    · exact h
    · split
      · exact beginNextRound_nt _ _ h
      · split
        · exact beginNextRound_nt _ _ (by simpa using h)
        · split
          · rw [tryRebroadcast_phase]; exact h
          · exact h

theorem postReceive_nt (s : State) (now : Int) (r : Nat) (h : s.phase ≠ .terminated) :
    (s.postReceive now r).1.phase ≠ .terminated := by
  unfold State.postReceive
  dsimp only
  repeat' split
  all_goals first
    | exact h
    | (apply beginConverge_nt; simp_all)
    | (apply beginConverge_nt; simp only [addCandidatePrefixes_phase, addCandidate_phase]; exact h)

/-- `tryDecide` terminates only on a strong DECIDE quorum; otherwise it leaves the decision tally and the phase alone -/
theorem tryDecide_cases (s : State) (now : Int) :
    hasFailure (s.tryDecide now).2 = true ∨
    ((s.tryDecide now).1.phase = .terminated ∧ s.decision.findStrongQuorumValue ≠ .none ∧
      (s.tryDecide now).1.decision = s.decision) ∨
    ((s.tryDecide now).1.phase = s.phase ∧ s.decision.findStrongQuorumValue = .none ∧
      (s.tryDecide now).1.decision = s.decision) := by
  unfold State.tryDecide
  split
  · exact Or.inl (by simp)
  · rename_i v hv
    split
    · refine Or.inr (Or.inl ⟨rfl, ?_, rfl⟩)
      rw [hv]; simp
    · exact Or.inl (by simp)
    · exact Or.inl (by simp)
  · rename_i hv
    refine Or.inr (Or.inr ⟨tryRebroadcast_phase s now, hv, by simp⟩)

/-- where termination can come from, for `tryCurrentPhase` -/
theorem tryCurrentPhase_term (s : State) (now : Int) (hnf : hasFailure (s.tryCurrentPhase now).2 = false)
    (ht : (s.tryCurrentPhase now).1.phase = .terminated) :
    s.phase = .terminated ∨ (s.phase = .decide ∧ s.decision.findStrongQuorumValue ≠ .none) := by
  unfold State.tryCurrentPhase at *
  split at ht
  · rename_i h; exact absurd ht (tryQuality_nt s now (by simp [h]))
  · rename_i h; exact absurd ht (tryConverge_nt s now (by simp [h]))
  · rename_i h; exact absurd ht (tryPrepare_nt s now (by simp [h]))
  · rename_i h; exact absurd ht (tryCommit_nt s now _ (by simp [h]))
  · rename_i h
    rcases tryDecide_cases s now with hf | ⟨_, hq, _⟩ | ⟨hp, _, _⟩
    · simp [h] at hnf; simp [hnf] at hf
    · exact Or.inr ⟨h, hq⟩
    · rw [hp, h] at ht; cases ht
  · rename_i h; exact Or.inl h
  · rename_i h; simp at ht; rw [h] at ht; cases ht

theorem tryCurrentPhase_decision (s : State) (now : Int) : (s.tryCurrentPhase now).1.decision = s.decision := by
  unfold State.tryCurrentPhase
  split
  · simp
  · simp
  · simp
  · simp
  · rcases tryDecide_cases s now with hf | ⟨_, _, h⟩ | ⟨_, _, h⟩
    · unfold State.tryDecide State.terminate State.resetReb
      repeat' split
      all_goals simp
    · exact h
    · exact h
  · rfl
  · rfl


/-! ### the quiet-decision invariant -/

/-- before DECIDE no DECIDE vote has been tallied; in DECIDE the tally holds no strong quorum (else the
instance would have terminated) -/
def DQ (s : State) : Prop :=
  (s.phase.toNat < 5 → s.decision = {}) ∧ (s.phase = .decide → s.decision.findStrongQuorumValue = .none)

/-- `DECIDE` votes are for round 0 (message validation) -/
def MsgOk (m : Msg) : Prop := m.phase = .decide → m.round = 0

theorem phase_toNat_eq_5 (p : Phase) : p.toNat = 5 ↔ p = .decide := by cases p <;> simp [Phase.toNat]
theorem phase_toNat_le_6 (p : Phase) : p.toNat ≤ 6 := by cases p <;> simp [Phase.toNat]

theorem DQ_frame {s s' : State} (h : DQ s) (hle : ptLe s.pt s'.pt) (hd : s'.decision = s.decision) : DQ s' := by
  have key : s'.phase.toNat ≤ 5 → s.phase.toNat ≤ s'.phase.toNat ∨ s.phase.toNat < 5 := by
    intro h5
    rcases hle with heq | ⟨hlt, hfz⟩
    · left; have := congrArg Prod.snd heq; simp [State.pt] at this; omega
    · simp only [State.pt] at hlt hfz
      by_cases h6 : 5 ≤ s.phase.toNat
      · have := hfz h6; left; omega
      · right; omega
  constructor
  · intro h5
    rw [hd]
    apply h.1
    rcases key (by omega) with h1 | h1 <;> omega
  · intro hdec
    rw [hd]
    have h5 : s'.phase.toNat = 5 := (phase_toNat_eq_5 _).2 hdec
    rcases key (by omega) with h1 | h1
    · by_cases h4 : s.phase.toNat < 5
      · rw [h.1 h4]; rfl
      · exact h.2 ((phase_toNat_eq_5 _).1 (by omega))
    · rw [h.1 h1]; rfl

theorem DQ_of_okwp {s : State} {r : R} (h : DQ s) (hw : OKWP s.pt r) (hnf : hasFailure r.2 = false)
    (hd : r.1.decision = s.decision) : DQ r.1 := by
  rcases hw with hf | hw
  · simp [hnf] at hf
  · exact DQ_frame h hw.le hd

theorem andThen_decision (r : R) (f : State → R) (hf : ∀ st, (f st).1.decision = st.decision) :
    (andThen r f).1.decision = r.1.decision := by
  unfold andThen; split
  · rfl
  · exact hf _

theorem andThen_nofail {r : R} {f : State → R} (h : hasFailure (andThen r f).2 = false) :
    hasFailure r.2 = false ∧ hasFailure (f r.1).2 = false := by
  unfold andThen at h
  split at h
  · rename_i hh; simp [hh] at h
  · rename_i hh
    simp at h
    exact ⟨by simpa using hh, h.2⟩

theorem andThen_fst {r : R} {f : State → R} (h : hasFailure r.2 = false) : (andThen r f).1 = (f r.1).1 := by
  unfold andThen; simp [h]

/-- the non-DECIDE handlers leave the decision tally alone -/
theorem recvQuality_decision (s : State) (now : Int) (m : Msg) : (s.recvQuality now m).1.decision = s.decision := by
  unfold State.recvQuality State.updateCandidatesFromQuality
  dsimp only
  split
  · simp
  · rw [tryCurrentPhase_decision]
theorem recvConverge_decision (s : State) (now : Int) (m : Msg) (j) : (s.recvConverge now m j).1.decision = s.decision := by
  unfold State.recvConverge; rw [tryCurrentPhase_decision]; rfl
theorem recvPrepare_decision (s : State) (now : Int) (m : Msg) : (s.recvPrepare now m).1.decision = s.decision := by
  unfold State.recvPrepare
  dsimp only
  split
  · rfl
  · rw [tryCurrentPhase_decision]; rfl
theorem recvCommit_decision (s : State) (now : Int) (m : Msg) : (s.recvCommit now m).1.decision = s.decision := by
  unfold State.recvCommit
  dsimp only
  split
  · rfl
  · split
    · rfl
    · split
      · split
        · rw [andThen_decision _ _ (fun st => tryCurrentPhase_decision st now)]; simp; rfl
        · simp; rfl
      · rw [tryCurrentPhase_decision]; rfl

theorem tryCurrentPhase_term' (s : State) (now : Int) :
    hasFailure (s.tryCurrentPhase now).2 = true ∨
    ((s.tryCurrentPhase now).1.phase = .terminated →
      s.phase = .terminated ∨ (s.phase = .decide ∧ s.decision.findStrongQuorumValue ≠ .none)) := by
  cases hf : hasFailure (s.tryCurrentPhase now).2
  · exact Or.inr (tryCurrentPhase_term s now hf)
  · exact Or.inl rfl

/-- with a quiet decision tally `tryCurrentPhase` does not terminate -/
theorem tryCurrentPhase_nt (s : State) (now : Int) (hq : DQ s) (ht : s.phase ≠ .terminated) :
    hasFailure (s.tryCurrentPhase now).2 = true ∨ (s.tryCurrentPhase now).1.phase ≠ .terminated := by
  rcases tryCurrentPhase_term' s now with h | h
  · exact Or.inl h
  · refine Or.inr fun hterm => ?_
    rcases h hterm with h | ⟨h1, h2⟩
    · exact ht h
    · exact h2 (hq.2 h1)

theorem andThen_or {r : R} {f : State → R} {P : State → Prop}
    (h : hasFailure (f r.1).2 = true ∨ P (f r.1).1) :
    hasFailure (andThen r f).2 = true ∨ P (andThen r f).1 := by
  unfold andThen
  split
  · exact Or.inl (by assumption)
  · rcases h with h | h
    · exact Or.inl (by simp [h])
    · exact Or.inr h

/-- a non-DECIDE message never terminates an instance whose decision tally is quiet -/
theorem recvQuality_nt (s : State) (now : Int) (m : Msg) (hq : DQ s) (ht : s.phase ≠ .terminated) :
    hasFailure (s.recvQuality now m).2 = true ∨ (s.recvQuality now m).1.phase ≠ .terminated := by
  unfold State.recvQuality
  dsimp only
  split
  · exact Or.inr (by unfold State.updateCandidatesFromQuality; simpa using ht)
  · exact tryCurrentPhase_nt _ now hq ht

theorem recvConverge_nt (s : State) (now : Int) (m : Msg) (j) (hq : DQ s) (ht : s.phase ≠ .terminated) :
    hasFailure (s.recvConverge now m j).2 = true ∨ (s.recvConverge now m j).1.phase ≠ .terminated := by
  unfold State.recvConverge
  exact tryCurrentPhase_nt _ now hq ht

theorem recvPrepare_nt (s : State) (now : Int) (m : Msg) (hq : DQ s) (ht : s.phase ≠ .terminated) :
    hasFailure (s.recvPrepare now m).2 = true ∨ (s.recvPrepare now m).1.phase ≠ .terminated := by
  unfold State.recvPrepare
  dsimp only
  split
  · exact Or.inr ht
  · exact tryCurrentPhase_nt _ now hq ht

theorem recvCommit_nt (s : State) (now : Int) (m : Msg) (hq : DQ s) (ht : s.phase ≠ .terminated) :
    hasFailure (s.recvCommit now m).2 = true ∨ (s.recvCommit now m).1.phase ≠ .terminated := by
  unfold State.recvCommit
  dsimp only
  split
  · exact Or.inr ht
  · split
    · exact Or.inr ht
    · split
      · split
        · rename_i hc
          apply andThen_or (P := fun st => st.phase ≠ .terminated)
          rcases tryCurrentPhase_term' ((s.setRound m.round _).tryCommit now m.round).1 now with h | h
          · exact Or.inl h
          · refine Or.inr fun hterm => ?_
            simp only [Bool.and_eq_true, beq_iff_eq] at hc
            rcases h hterm with h | ⟨h, _⟩
            · rw [hc.1.1] at h; cases h
            · rw [hc.1.1] at h; cases h
        · exact Or.inr (tryCommit_nt _ now m.round (by simpa using ht))
      · exact tryCurrentPhase_nt _ now hq ht


theorem DQ_of_term {s : State} (h : s.phase = .terminated) : DQ s :=
  ⟨fun h5 => by simp [h, Phase.toNat] at h5, fun hd => by rw [h] at hd; cases hd⟩

theorem tryCurrentPhase_decide (s : State) (now : Int) (h : s.phase = .decide) :
    s.tryCurrentPhase now = s.tryDecide now := by
  unfold State.tryCurrentPhase; simp [h]

theorem tryDecide_dq (s : State) (now : Int) (h : s.phase = .decide) :
    hasFailure (s.tryDecide now).2 = true ∨ DQ (s.tryDecide now).1 := by
  rcases tryDecide_cases s now with hf | ⟨ht, _, _⟩ | ⟨hp, hn, hd⟩
  · exact Or.inl hf
  · exact Or.inr (DQ_of_term ht)
  · refine Or.inr ⟨fun h5 => ?_, fun _ => by rw [hd]; exact hn⟩
    rw [hp, h] at h5; simp [Phase.toNat] at h5

theorem recvDecide_dq (s : State) (now : Int) (m : Msg) :
    hasFailure (s.recvDecide now m).2 = true ∨ DQ (s.recvDecide now m).1 := by
  unfold State.recvDecide
  dsimp only
  split
  · exact Or.inl (by simp)
  · split
    · apply andThen_or (P := DQ)
      rw [tryCurrentPhase_decide _ now (skipToDecide_phase _ _ _)]
      exact tryDecide_dq _ now (skipToDecide_phase _ _ _)
    · rename_i hd
      have hdec : s.phase = .decide := by simpa using hd
      have key : ∀ st : State, st.phase = .decide →
          hasFailure (st.tryCurrentPhase now).2 = true ∨ DQ (st.tryCurrentPhase now).1 := by
        intro st h; rw [tryCurrentPhase_decide st now h]; exact tryDecide_dq st now h
      exact key _ hdec

theorem postReceive_noop (s : State) (now : Int) (round : Nat) (h : round ≤ s.round) :
    s.postReceive now round = (s, []) := by
  unfold State.postReceive; simp [h]

/-- what one API call on the instance guarantees -/
def StepOK (s : State) (r : R) : Prop :=
  hasFailure r.2 = true ∨ (WP s.pt (evs r.2) r.1.pt ∧ DQ r.1)

theorem stepOK_of {s : State} {r : R} (hq : DQ s) (hw : OKWP s.pt r) (hd : r.1.decision = s.decision) : StepOK s r := by
  rcases hw with hf | hw
  · exact Or.inl hf
  · exact Or.inr ⟨hw, DQ_frame hq hw.le hd⟩

/-- `receiveOne` followed by `postReceive`, as in `Receive` -/
theorem recv_ok (s : State) (now : Int) (m : Msg) (hq : DQ s) (hm : MsgOk m) :
    StepOK s (step s (.recv now m)) := by
  unfold step
  dsimp only
  split
  · exact Or.inl (by simp)
  · rename_i hterm
    have ht : s.phase ≠ .terminated := by simpa using hterm
    -- name the pieces
    have hw1 := receiveOne_wp s now m
    generalize hro : s.receiveOne now m = ro at *
    obtain ⟨r, changed⟩ := ro
    dsimp only at *
    split
    · exact Or.inl (by assumption)
    · rename_i hnf
      have hnf' : hasFailure r.2 = false := by simpa using hnf
      -- facts about the first half
      have hfacts : DQ r.1 ∧ r.1.decision = r.1.decision ∧ (r.1.phase = .terminated → m.phase = .decide) := by
        unfold State.receiveOne at hro
        split at hro
        · cases hro; simp at hnf'
        · cases hro; exact ⟨hq, rfl, fun h => absurd h ht⟩
        · split at hro
          · cases hro
            refine ⟨DQ_of_okwp hq (recvQuality_wp s now m) hnf' (recvQuality_decision s now m), rfl, fun h => ?_⟩
            rcases recvQuality_nt s now m hq ht with h' | h'
            · exact absurd (h'.symm.trans hnf') (by decide)
            · exact absurd h h'
          · split at hro
            · cases hro; simp at hnf'
            · split at hro
              · cases hro; simp at hnf'
              · cases hro
                refine ⟨DQ_of_okwp hq (recvConverge_wp s now m _) hnf' (recvConverge_decision s now m _), rfl, fun h => ?_⟩
                rcases recvConverge_nt s now m _ hq ht with h' | h'
                · exact absurd (h'.symm.trans hnf') (by decide)
                · exact absurd h h'
          · cases hro
            refine ⟨DQ_of_okwp hq (recvPrepare_wp s now m) hnf' (recvPrepare_decision s now m), rfl, fun h => ?_⟩
            rcases recvPrepare_nt s now m hq ht with h' | h'
            · exact absurd (h'.symm.trans hnf') (by decide)
            · exact absurd h h'
          · cases hro
            refine ⟨DQ_of_okwp hq (recvCommit_wp s now m ht) hnf' (recvCommit_decision s now m), rfl, fun h => ?_⟩
            rcases recvCommit_nt s now m hq ht with h' | h'
            · exact absurd (h'.symm.trans hnf') (by decide)
            · exact absurd h h'
          · rename_i hph
            cases hro
            refine ⟨?_, rfl, fun _ => hph⟩
            rcases recvDecide_dq s now m with h' | h'
            · exact absurd (h'.symm.trans hnf') (by decide)
            · exact h'
          · cases hro; simp at hnf'
      obtain ⟨hq1, _, hterm1⟩ := hfacts
      have hwp1 : WP s.pt (evs r.2) r.1.pt := by
        rcases hw1 with h | h
        · simp [hnf'] at h
        · exact h
      split
      · -- postReceive
        by_cases ht1 : r.1.phase = .terminated
        · have hr0 : m.round = 0 := hm (hterm1 ht1)
          have : r.1.postReceive now m.round = (r.1, []) := postReceive_noop _ _ _ (by omega)
          unfold andThen
          simp only [hnf', Bool.false_eq_true, if_false, this, List.append_nil]
          exact Or.inr ⟨hwp1, hq1⟩
        · have hw2 := postReceive_wp r.1 now m.round ht1
          rcases hw2 with hf2 | hw2
          · exact Or.inl (by unfold andThen; simp [hnf', hf2])
          · refine Or.inr ⟨?_, ?_⟩
            · unfold andThen
              simp only [hnf', Bool.false_eq_true, if_false]
              simpa using hwp1.append hw2
            · rw [andThen_fst hnf']
              exact DQ_frame hq1 hw2.le (postReceive_decision _ _ _)
      · exact Or.inr ⟨hwp1, hq1⟩


def OpOk : Op → Prop
  | .recv _ m => MsgOk m
  | _ => True

theorem step_ok (s : State) (op : Op) (hq : DQ s) (hop : OpOk op) : StepOK s (step s op) := by
  cases op with
  | start now =>
    unfold step
    by_cases hi : s.phase = .initial
    · exact stepOK_of hq (Or.inr (beginQuality_wp s now hi)) (by simp)
    · refine Or.inl ?_
      unfold State.beginQuality
      simp [hi]
  | alarm now => exact stepOK_of hq (tryCurrentPhase_wp s now) (tryCurrentPhase_decision s now)
  | recv now m => exact recv_ok s now m hq hop

theorem DQ_init (cfg : Cfg) (tbl : Table) (input : Chain) : DQ (init cfg tbl input) :=
  ⟨fun _ => rfl, fun h => by simp [init] at h⟩

/-- the effects of a run, folded like `run` but from an arbitrary state -/
def runFrom (s : State) (ops : List Op) : State × List Eff :=
  ops.foldl (fun (acc : State × List Eff) op => let r := step acc.1 op; (r.1, acc.2 ++ r.2)) (s, [])

theorem run_eq_runFrom (s : State) (ops : List Op) : run s ops = runFrom s ops := rfl

theorem foldl_acc (ops : List Op) (s : State) (pre : List Eff) :
    ops.foldl (fun (acc : State × List Eff) op => let r := step acc.1 op; (r.1, acc.2 ++ r.2)) (s, pre) =
      ((runFrom s ops).1, pre ++ (runFrom s ops).2) := by
  induction ops generalizing s pre with
  | nil => simp [runFrom]
  | cons op ops ih =>
    simp only [runFrom, List.foldl_cons, List.nil_append]
    rw [ih, ih (step s op).1 (step s op).2]
    simp [List.append_assoc]

theorem runFrom_cons (s : State) (op : Op) (ops : List Op) :
    runFrom s (op :: ops) = ((runFrom (step s op).1 ops).1, (step s op).2 ++ (runFrom (step s op).1 ops).2) := by
  simp only [runFrom, List.foldl_cons, List.nil_append]
  exact foldl_acc ops _ _

/-- **Run skeleton.** For every sequence of API calls (with DECIDE votes for round 0, as validation
guarantees) that reports no internal error or panic, the (progress, broadcast) skeleton of everything the
instance did is well paired from its starting point. -/
theorem runFrom_wp (s : State) (ops : List Op) (hq : DQ s) (hops : ∀ op ∈ ops, OpOk op)
    (hnf : hasFailure (runFrom s ops).2 = false) :
    WP s.pt (evs (runFrom s ops).2) (runFrom s ops).1.pt ∧ DQ (runFrom s ops).1 := by
  induction ops generalizing s with
  | nil => exact ⟨by simpa [runFrom] using WP.nil s.pt, by simpa [runFrom] using hq⟩
  | cons op ops ih =>
    rw [runFrom_cons] at hnf ⊢
    simp only [hasFailure_append, Bool.or_eq_false_iff] at hnf
    rcases step_ok s op hq (hops op (by simp)) with hf | ⟨hw, hq'⟩
    · exact absurd (hf.symm.trans hnf.1) (by decide)
    · have := ih (step s op).1 hq' (fun o ho => hops o (by simp [ho])) hnf.2
      exact ⟨by simpa using hw.append this.1, this.2⟩

/-! ### consequences of well-pairedness -/

def Ev.isBc : Ev → Bool | .bc _ _ => true | _ => false

theorem WP.bc_gt {c d : Pt} {l : List Ev} (h : WP c l d) :
    ∀ r' ph, Ev.bc r' ph ∈ l → ∃ r, ptLt c (r, ph.toNat) ∧ (r' = r ∨ (ph = .decide ∧ r' = 0)) := by
  induction h with
  | nil _ => intro _ _ hm; simp at hm
  | enter c r ph rest d hlt _ ih =>
    intro r' ph' hm
    simp only [List.mem_cons, reduceCtorEq, false_or] at hm
    obtain ⟨r2, h2, h3⟩ := ih r' ph' hm
    exact ⟨r2, ptLt_trans hlt h2, h3⟩
  | enterB c r ph r0 rest d hlt hr _ ih =>
    intro r' ph' hm
    simp only [List.mem_cons, reduceCtorEq, false_or, Ev.bc.injEq] at hm
    rcases hm with ⟨rfl, rfl⟩ | hm
    · exact ⟨r, hlt, hr⟩
    · obtain ⟨r2, h2, h3⟩ := ih r' ph' hm
      exact ⟨r2, ptLt_trans hlt h2, h3⟩

/-- no slot is broadcast twice -/
theorem WP.bc_nodup {c d : Pt} {l : List Ev} (h : WP c l d) : (l.filter Ev.isBc).Nodup := by
  induction h with
  | nil _ => simp
  | enter c r ph rest d _ _ ih => simpa [Ev.isBc] using ih
  | enterB c r ph r0 rest d hlt hr hrest ih =>
    simp only [List.filter_cons, Ev.isBc, Bool.false_eq_true, if_false, if_true, List.nodup_cons]
    refine ⟨?_, ih⟩
    intro hm
    have hm' : Ev.bc r0 ph ∈ rest := (List.mem_filter.1 hm).1
    obtain ⟨r2, ⟨h2, hfz⟩, h3⟩ := hrest.bc_gt r0 ph hm'
    -- (r, ph) < (r2, ph): so r < r2 and ph is before DECIDE, hence r0 = r and r0 = r2
    have hlt2 : r < r2 := by
      rcases h2 with h | ⟨_, h⟩
      · exact h
      · exact absurd h (Nat.lt_irrefl _)
    by_cases h5 : 5 ≤ ph.toNat
    · have := hfz h5; simp at this; omega
    · have hnd : ph ≠ .decide := by intro hd; rw [hd] at h5; simp [Phase.toNat] at h5
      rcases hr with hr | ⟨hd, _⟩
      · rcases h3 with h3 | ⟨hd, _⟩
        · omega
        · exact hnd hd
      · exact hnd hd

def Ev.isProg : Ev → Bool | .prog _ _ => true | _ => false
def Ev.pt : Ev → Pt | .prog r ph => (r, ph.toNat) | .bc r ph => (r, ph.toNat)

/-- progress notifications are strictly increasing (and above the start point) -/
theorem WP.prog_sorted {c d : Pt} {l : List Ev} (h : WP c l d) :
    ((l.filter Ev.isProg).map Ev.pt).Pairwise ptLt ∧ ∀ p ∈ (l.filter Ev.isProg).map Ev.pt, ptLt c p := by
  induction h with
  | nil _ => simp
  | enter c r ph rest d hlt _ ih =>
    simp only [List.filter_cons, Ev.isProg, if_true, List.map_cons, Ev.pt, List.pairwise_cons, List.mem_cons,
      forall_eq_or_imp]
    exact ⟨⟨ih.2, ih.1⟩, hlt, fun p hp => ptLt_trans hlt (ih.2 p hp)⟩
  | enterB c r ph r0 rest d hlt _ _ ih =>
    simp only [List.filter_cons, Ev.isProg, if_true, Bool.false_eq_true, if_false, List.map_cons, Ev.pt,
      List.pairwise_cons, List.mem_cons, forall_eq_or_imp]
    exact ⟨⟨ih.2, ih.1⟩, hlt, fun p hp => ptLt_trans hlt (ih.2 p hp)⟩

end F3.Instance
