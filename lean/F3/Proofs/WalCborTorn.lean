import F3.Model.WalCbor
import F3.Proofs.CodecCbor
/-!
# A torn cbor-gen record never decodes (C11 × C14)

`decode_torn`: for every well-formed schema, every value the encoder accepts and every **strict
prefix** `p` of its encoding, the generated decoder fails on `p` — and it fails with *end of input*:
the decoder reads exactly the bytes the encoder wrote, field by field; a head announces a length and
the payload is cut, or the head itself is cut.

This is not `encode_prefix_free` (no encoding is a strict prefix of another *encoding*): the decoders
accept inputs no encoder writes (`0xf6` for an empty chain, non-minimal big-integer magnitudes), so
the statement is proved directly by induction on the schema.
-/
namespace F3.Cbor
open F3.Codec

/-- `p` is a strict prefix of `b`: something non-empty is missing. -/
def SPrefix (p b : Bytes) : Prop := ∃ t, t ≠ [] ∧ b = p ++ t

theorem SPrefix.not_nil {p : Bytes} : ¬ SPrefix p [] := by
  rintro ⟨t, ht, h⟩
  cases t with
  | nil => exact ht rfl
  | cons x t => cases p <;> cases h

theorem SPrefix.length_lt {p b : Bytes} (h : SPrefix p b) : p.length < b.length := by
  obtain ⟨t, ht, rfl⟩ := h
  have := List.length_pos_iff.mpr ht
  rw [List.length_append]; omega

theorem sprefix_take (b : Bytes) (n : Nat) (h : n < b.length) : SPrefix (b.take n) b :=
  ⟨b.drop n, by intro h0; have := congrArg List.length h0; simp at this; omega, (List.take_append_drop n b).symm⟩

theorem sprefix_iff_take {p b : Bytes} : SPrefix p b ↔ ∃ n, n < b.length ∧ p = b.take n := by
  constructor
  · rintro ⟨t, ht, rfl⟩
    refine ⟨p.length, ?_, by simp⟩
    have := List.length_pos_iff.mpr ht
    rw [List.length_append]; omega
  · rintro ⟨n, hn, rfl⟩; exact sprefix_take b n hn

/-- A strict prefix of `a ++ b` ends inside `a`, or is `a` followed by a strict prefix of `b`. -/
theorem sprefix_append {p a b : Bytes} (h : SPrefix p (a ++ b)) :
    SPrefix p a ∨ ∃ p', p = a ++ p' ∧ SPrefix p' b := by
  obtain ⟨t, ht, h⟩ := h
  rcases List.append_eq_append_iff.mp h with ⟨a', hp, hb⟩ | ⟨c', ha, ht'⟩
  · exact Or.inr ⟨a', hp, t, ht, hb⟩
  · by_cases hc : c' = []
    · subst hc
      refine Or.inr ⟨[], by simpa using ha.symm, t, ht, by simpa using ht'.symm⟩
    · exact Or.inl ⟨c', hc, ha⟩

theorem sprefix_cons {p : Bytes} {x : Nat} {b : Bytes} (h : SPrefix p (x :: b)) :
    p = [] ∨ ∃ p', p = x :: p' ∧ SPrefix p' b := by
  obtain ⟨t, ht, h⟩ := h
  cases p with
  | nil => exact Or.inl rfl
  | cons y p' =>
    simp only [List.cons_append, List.cons.injEq] at h
    obtain ⟨rfl, hb⟩ := h
    exact Or.inr ⟨p', rfl, t, ht, hb⟩

theorem takeN_none {n : Nat} {b : Bytes} (h : b.length < n) : takeN n b = none := by
  induction n generalizing b with
  | zero => omega
  | succ n ih =>
    cases b with
    | nil => rfl
    | cons x b =>
      simp only [List.length_cons] at h
      simp [takeN, ih (by omega : b.length < n)]

/-- A cut head is an unexpected end of input. -/
theorem readHdr_torn (maj n : Nat) (p : Bytes) (h : SPrefix p (hdr maj n)) :
    readHdr p = .error .eof := by
  unfold hdr at h
  split at h
  · rcases sprefix_cons h with rfl | ⟨p', rfl, h'⟩
    · rfl
    · exact absurd h' SPrefix.not_nil
  · split at h
    · rcases sprefix_cons h with rfl | ⟨p', rfl, h'⟩
      · rfl
      · rcases sprefix_cons h' with rfl | ⟨p'', rfl, h''⟩
        · have a1 : (maj * 32 + 24) % 32 = 24 := by omega
          simp [readHdr, a1]
        · exact absurd h'' SPrefix.not_nil
    · split at h
      · rcases sprefix_cons h with rfl | ⟨p', rfl, h'⟩
        · rfl
        · have a1 : (maj * 32 + 25) % 32 = 25 := by omega
          have hl := h'.length_lt
          rw [beN_length] at hl
          simp [readHdr, a1, takeN_none hl]
      · split at h
        · rcases sprefix_cons h with rfl | ⟨p', rfl, h'⟩
          · rfl
          · have a1 : (maj * 32 + 26) % 32 = 26 := by omega
            have hl := h'.length_lt
            rw [beN_length] at hl
            simp [readHdr, a1, takeN_none hl]
        · rcases sprefix_cons h with rfl | ⟨p', rfl, h'⟩
          · rfl
          · have a1 : (maj * 32 + 27) % 32 = 27 := by omega
            have hl := h'.length_lt
            rw [beN_length] at hl
            simp [readHdr, a1, takeN_none hl]

/-- A strict prefix of `head ++ body`: the head is cut (end of input), or the head is read back and
the body is cut. -/
theorem sprefix_hdr (maj n : Nat) (hm : maj < 8) (hn : n < 2 ^ 64) (body p : Bytes)
    (h : SPrefix p (hdr maj n ++ body)) :
    readHdr p = .error .eof ∨ ∃ p', SPrefix p' body ∧ readHdr p = .ok (maj, n, p') := by
  rcases sprefix_append h with h1 | ⟨p', rfl, h2⟩
  · exact Or.inl (readHdr_torn maj n p h1)
  · exact Or.inr ⟨p', h2, readHdr_hdr maj n hm hn p'⟩

/-- the element loop on a cut sequence of element encodings -/
theorem decodeN_torn (enc : Value → Option Bytes) (dec : Bytes → Except Err (Value × Bytes))
    (hrt : ∀ v b rest, enc v = some b → dec (b ++ rest) = .ok (v, rest))
    (ht : ∀ v b, enc v = some b → ∀ p, SPrefix p b → dec p = .error .eof) :
    ∀ vs n bs, encodeList enc vs = some (n, bs) → ∀ p, SPrefix p bs → decodeN dec n p = .error .eof := by
  intro vs
  induction vs with
  | nil =>
    intro n bs he p hp
    simp [encodeList] at he
    obtain ⟨rfl, rfl⟩ := he
    exact absurd hp SPrefix.not_nil
  | cons v vs _ ih =>
    intro n bs he p hp
    simp only [encodeList] at he
    cases hv : enc v with
    | none => rw [hv] at he; simp at he
    | some b =>
      cases hvs : encodeList enc vs with
      | none => rw [hv, hvs] at he; simp at he
      | some q =>
        obtain ⟨m, bs'⟩ := q
        rw [hv, hvs] at he
        simp at he
        obtain ⟨rfl, rfl⟩ := he
        rcases sprefix_append hp with h1 | ⟨p', rfl, h2⟩
        · simp [decodeN, ht v b hv p h1]
        · simp [decodeN, hrt v b p' hv, ih m bs' hvs p' h2]
  | uint _ => intro n bs he; simp [encodeList] at he
  | int _ => intro n bs he; simp [encodeList] at he
  | bool _ => intro n bs he; simp [encodeList] at he
  | bytes _ => intro n bs he; simp [encodeList] at he
  | big _ => intro n bs he; simp [encodeList] at he
  | null => intro n bs he; simp [encodeList] at he

/-- a `nullable`/`nullAsEmpty` wrapper is transparent on input that does not start with `0xf6` -/
theorem sprefix_head {p b : Bytes} {x : Nat} {t : Bytes} (hb : b = x :: t) (hp : SPrefix p b) :
    p = [] ∨ ∃ r, p = x :: r := by
  subst hb
  rcases sprefix_cons hp with rfl | ⟨p', rfl, _⟩
  · exact Or.inl rfl
  · exact Or.inr ⟨p', rfl⟩

/-- **A torn record is detected.** On a strict prefix of an encoding the decoder runs out of input. -/
theorem decode_torn : ∀ (s : Schema), s.wf = true → ∀ (v : Value) (b : Bytes),
    encode s v = some b → ∀ p, SPrefix p b → decode s p = .error .eof := by
  intro s
  induction s with
  | uint max =>
    intro hwf v b he p hp
    cases v <;> simp [encode] at he
    rename_i n
    obtain ⟨_, rfl⟩ := he
    simp [decode, readHdr_torn 0 n p hp]
  | int64 =>
    intro _ v b he p hp
    cases v <;> simp only [encode] at he <;> first | (simp at he; done) | skip
    rename_i i
    split at he
    · have he' := Option.some.inj he; subst he'
      simp [decode, readHdr_torn 0 _ p hp]
    · split at he
      · have he' := Option.some.inj he; subst he'
        simp [decode, readHdr_torn 1 _ p hp]
      · simp at he
  | bool =>
    intro _ v b he p hp
    cases v <;> simp [encode] at he
    subst he
    rcases sprefix_cons hp with rfl | ⟨p', rfl, h'⟩
    · simp [decode, readHdr]
    · exact absurd h' SPrefix.not_nil
  | bytes l =>
    intro hwf v b he p hp
    simp only [Schema.wf, Lim.ok_iff] at hwf
    obtain ⟨_, hed, h64⟩ := hwf
    cases v <;> simp [encode] at he
    rename_i bs
    obtain ⟨hle, rfl⟩ := he
    rcases sprefix_hdr 2 bs.length (by omega) (by omega) bs p hp with h1 | ⟨p', h2, h3⟩
    · simp [decode, h1]
    · simp [decode, h3, Nat.not_lt.mpr (hed ▸ hle), readBody, takeN_none h2.length_lt]
  | fixed encN decN l =>
    intro hwf v b he p hp
    simp only [Schema.wf, Lim.ok_iff, Bool.and_eq_true, beq_iff_eq, decide_eq_true_eq] at hwf
    obtain ⟨⟨hn, _, hed, h64⟩, hle⟩ := hwf
    cases v <;> simp [encode] at he
    rename_i bs
    obtain ⟨⟨hlen, _⟩, rfl⟩ := he
    subst hn
    subst hlen
    rcases sprefix_hdr 2 bs.length (by omega) (by omega) bs p hp with h1 | ⟨p', h2, h3⟩
    · simp [decode, h1]
    · simp [decode, h3, Nat.not_lt.mpr (hed ▸ hle), readBody, takeN_none h2.length_lt]
  | cid =>
    intro _ v b he p hp
    cases v <;> simp [encode] at he
    rename_i c
    obtain ⟨⟨_, hlen⟩, rfl⟩ := he
    rcases sprefix_hdr 6 42 (by omega) (by omega) _ p hp with h1 | ⟨p', h2, h3⟩
    · simp [decode, h1]
    · rcases sprefix_hdr 2 (c.length + 1) (by omega) (by omega) (0 :: c) p' h2 with h4 | ⟨p'', h5, h6⟩
      · simp [decode, h3, h4]
      · have hl : p''.length < c.length + 1 := by simpa using h5.length_lt
        simp [decode, h3, h6, Nat.not_lt.mpr (by omega : c.length + 1 ≤ 512), takeN_none hl]
  | bigint =>
    intro _ v b he p hp
    cases v <;> simp [encode] at he
    rename_i i
    obtain ⟨hle, rfl⟩ := he
    rcases sprefix_hdr 2 (bigBytes i).length (by omega) (by omega) _ p hp with h1 | ⟨p', h2, h3⟩
    · simp [decode, h1]
    · have hl := h2.length_lt
      have hpos : (bigBytes i).length ≠ 0 := by omega
      simp [decode, h3, hpos, Nat.not_lt.mpr hle, takeN_none hl]
  | bitfield =>
    intro _ v b he p hp
    cases v <;> simp [encode] at he
    rename_i bs
    obtain ⟨⟨hle, _⟩, rfl⟩ := he
    rcases sprefix_hdr 2 bs.length (by omega) (by omega) bs p hp with h1 | ⟨p', h2, h3⟩
    · simp [decode, h1]
    · simp [decode, h3, Nat.not_lt.mpr hle, takeN_none h2.length_lt]
  | array l e ih =>
    intro hwf v b he p hp
    simp only [Schema.wf, Lim.ok_iff, Bool.and_eq_true] at hwf
    obtain ⟨⟨⟨_, hed, h64⟩, hwe⟩, _⟩ := hwf
    simp only [encode] at he
    cases hl : encodeList (encode e) v with
    | none => rw [hl] at he; simp at he
    | some q =>
      obtain ⟨n, bs⟩ := q
      rw [hl] at he
      simp at he
      obtain ⟨hle, rfl⟩ := he
      rcases sprefix_hdr 4 n (by omega) (by omega) bs p hp with h1 | ⟨p', h2, h3⟩
      · simp [decode, h1]
      · have := decodeN_torn (encode e) (decode e) (decode_encode e hwe) (ih hwe) v n bs hl p' h2
        simp [decode, h3, Nat.not_lt.mpr (hed ▸ hle), this]
  | tuple encN decN fs ih =>
    intro hwf v b he p hp
    simp only [Schema.wf, Bool.and_eq_true, beq_iff_eq, decide_eq_true_eq] at hwf
    obtain ⟨⟨hn, h64⟩, hwfs⟩ := hwf
    simp only [encode] at he
    cases hf : encode fs v with
    | none => rw [hf] at he; simp at he
    | some bs =>
      rw [hf] at he
      simp at he
      subst he
      subst hn
      rcases sprefix_hdr 4 encN (by omega) (by omega) bs p hp with h1 | ⟨p', h2, h3⟩
      · simp [decode, h1]
      · simp [decode, h3, ih hwfs v bs hf p' h2]
  | tnil =>
    intro _ v b he p hp
    cases v <;> simp [encode] at he
    subst he
    exact absurd hp SPrefix.not_nil
  | tcons h t ihh iht =>
    intro hwf v b he p hp
    simp only [Schema.wf, Bool.and_eq_true] at hwf
    cases v <;> simp only [encode] at he <;> first | (simp at he; done) | skip
    rename_i v vs
    cases h1 : encode h v with
    | none => rw [h1] at he; simp at he
    | some a =>
      cases h2 : encode t vs with
      | none => rw [h1, h2] at he; simp at he
      | some c =>
        rw [h1, h2] at he
        simp at he
        subst he
        rcases sprefix_append hp with h3 | ⟨p', rfl, h4⟩
        · simp [decode, ihh hwf.1 v a h1 p h3]
        · simp [decode, decode_encode h hwf.1 v a p' h1, iht hwf.2 vs c h2 p' h4]
  | nullable s ih =>
    intro hwf v b he p hp
    simp only [Schema.wf, Bool.and_eq_true] at hwf
    obtain ⟨hws, hshape⟩ := hwf
    cases s with
    | tuple encN decN fs =>
      by_cases hv : v = .null
      · subst hv
        simp [encode] at he
        subst he
        rcases sprefix_cons hp with rfl | ⟨p', rfl, h'⟩
        · simp [decode]
        · exact absurd h' SPrefix.not_nil
      · have he' : encode (.tuple encN decN fs) v = some b := by
          cases v <;> simp_all [encode]
        have hd := ih hws v b he' p hp
        simp only [encode] at he'
        cases hf : encode fs v with
        | none => rw [hf] at he'; simp at he'
        | some bs =>
          rw [hf] at he'
          simp at he'
          obtain ⟨x, t, hx, hne⟩ := hdr_head 4 encN (by omega)
          have hb : b = x :: (t ++ bs) := by rw [← he', hx]; rfl
          rcases sprefix_head hb hp with rfl | ⟨r, rfl⟩
          · simp [decode]
          · simp only [decode, hne, if_false]
            exact hd
    | _ => simp at hshape
  | nullAsEmpty s ih =>
    intro hwf v b he p hp
    simp only [Schema.wf, Bool.and_eq_true] at hwf
    obtain ⟨hws, hshape⟩ := hwf
    cases s with
    | array l e =>
      have he' : encode (.array l e) v = some b := by simpa [encode] using he
      have hd := ih hws v b he' p hp
      simp only [encode] at he'
      cases hl : encodeList (encode e) v with
      | none => rw [hl] at he'; simp at he'
      | some q =>
        obtain ⟨n, bs⟩ := q
        rw [hl] at he'
        simp at he'
        obtain ⟨_, he'⟩ := he'
        obtain ⟨x, t, hx, hne⟩ := hdr_head 4 n (by omega)
        have hb : b = x :: (t ++ bs) := by rw [← he', hx]; rfl
        rcases sprefix_head hb hp with rfl | ⟨r, rfl⟩
        · simp [decode]
        · simp only [decode, hne, if_false]
          exact hd
    | _ => simp at hshape

/-- A Go type's encoding is never empty (every one starts with a CBOR head, `0xf6`, or a simple value). -/
theorem encode_ne_nil (s : Schema) (hwf : s.wf = true) (hr : s.isRecord = true) (v : Value) (b : Bytes)
    (he : encode s v = some b) : b ≠ [] := by
  intro hb
  subst hb
  have hd := decode_encode s hwf v [] [] he
  cases s with
  | tnil => simp [Schema.isRecord] at hr
  | tcons _ _ => simp [Schema.isRecord] at hr
  | nullable s => simp [decode] at hd
  | nullAsEmpty s => simp [decode] at hd
  | _ => simp [decode, readHdr] at hd

/-- On the empty input every Go type's decoder reports end of input. -/
theorem decode_nil (s : Schema) (hr : s.isRecord = true) : decode s [] = .error .eof := by
  cases s with
  | tnil => simp [Schema.isRecord] at hr
  | tcons _ _ => simp [Schema.isRecord] at hr
  | _ => simp [decode, readHdr]

end F3.Cbor
