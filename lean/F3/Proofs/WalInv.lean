import F3.Proofs.WalDir
namespace F3.Wal
variable {α β : Type}

def notActive (s : State α β) (nm : Name) : Prop :=
  ∀ m st, s.mem = some m → m.active = some st → st.name ≠ nm

/-- The invariant tying the directory contents to the acknowledged / in-flight appends and to the
in-memory object. -/
structure Inv (cfg : Cfg α β) (s : State α β) : Prop where
  nodup : s.dir.names.Nodup
  content : ∀ nm bs, (nm, bs) ∈ s.dir →
    bs = encAll cfg.codec (ackedOf s nm) ∨
    (notActive s nm ∧ ∃ e k, (nm, e) ∈ s.inflight ∧
       bs = encAll cfg.codec (ackedOf s nm) ++ (cfg.codec.enc e).take k)
  files : ∀ m, s.mem = some m → m.files.Perm s.dir.names
  stats : ∀ m, s.mem = some m → ∀ st, (st ∈ m.logFiles ∨ m.active = some st) →
    st.maxEpoch = maxEpochOf cfg (readFile cfg.codec ((s.dir.get st.name).getD []))
  ackedNames : ∀ p ∈ s.acked, p.1 ∈ s.dir.names
  inflightNames : ∀ p ∈ s.inflight, p.1 ∈ s.dir.names

theorem inv_init (cfg : Cfg α β) : Inv cfg (init : State α β) where
  nodup := by simp [init, Dir.names]
  content := by intro nm bs h; simp [init] at h
  files := by intro m h; simp [init] at h
  stats := by intro m h; simp [init] at h
  ackedNames := by intro p h; simp [init] at h
  inflightNames := by intro p h; simp [init] at h

theorem insertFile_perm (f : Name × List β) (d : Dir β) : (insertFile f d).Perm (f :: d) := by
  induction d with
  | nil => exact List.Perm.refl _
  | cons g t ih =>
    simp only [insertFile]
    split
    · exact List.Perm.refl _
    · exact ((List.Perm.cons g ih).trans (List.Perm.swap f g t))

theorem sortByName_perm (d : Dir β) : (sortByName d).Perm d := by
  induction d with
  | nil => exact List.Perm.refl _
  | cons f t ih =>
    simp only [sortByName, List.foldr_cons]
    exact (insertFile_perm f _).trans (List.Perm.cons f ih)

theorem hydrate_files (cfg : Cfg α β) (d : Dir β) : (hydrate cfg d).files.Perm d.names := by
  simp only [hydrate, Mem.files, Option.toList, List.map_nil, List.append_nil, List.map_map, Dir.names]
  exact (sortByName_perm d).map _

theorem inv_open {cfg : Cfg α β} {s : State α β} (h : Inv cfg s) : Inv cfg (step cfg s .open).1 where
  nodup := h.nodup
  content := by
    intro nm bs hm
    rcases h.content nm bs hm with h1 | ⟨_, h2⟩
    · exact Or.inl h1
    · refine Or.inr ⟨?_, h2⟩
      intro m st hmem hact
      simp only [step, Option.some.injEq] at hmem
      subst hmem; simp [hydrate] at hact
  files := by
    intro m hm
    simp only [step, Option.some.injEq] at hm
    subst hm; exact hydrate_files cfg s.dir
  stats := by
    intro m hm st hst
    simp only [step, Option.some.injEq] at hm
    subst hm
    simp only [hydrate, List.mem_map, reduceCtorEq, or_false] at hst
    obtain ⟨f, hf, rfl⟩ := hst
    have hf' : f ∈ s.dir := (sortByName_perm s.dir).mem_iff.mp hf
    have : (step cfg s .open).1.dir.get f.1 = some f.2 := Dir.get_eq_some_of_mem h.nodup hf'
    simp [this]
  ackedNames := h.ackedNames
  inflightNames := h.inflightNames

theorem inv_crash {cfg : Cfg α β} {s : State α β} (h : Inv cfg s) : Inv cfg (step cfg s .crash).1 where
  nodup := h.nodup
  content := by
    intro nm bs hm
    rcases h.content nm bs hm with h1 | ⟨_, h2⟩
    · exact Or.inl h1
    · exact Or.inr ⟨by intro m st hmem; simp [step] at hmem, h2⟩
  files := by intro m hm; simp [step] at hm
  stats := by intro m hm; simp [step] at hm
  ackedNames := h.ackedNames
  inflightNames := h.inflightNames

/-- `Rotate`/`Close`: replacing the memory object by its flushed version. -/
theorem inv_flush {cfg : Cfg α β} {s : State α β} (h : Inv cfg s) {m : Mem} (hm : s.mem = some m) :
    Inv cfg { s with mem := some (flush m) } where
  nodup := h.nodup
  content := by
    intro nm bs hmem
    rcases h.content nm bs hmem with h1 | ⟨_, h2⟩
    · exact Or.inl h1
    · refine Or.inr ⟨?_, h2⟩
      intro m' st hm' hact
      simp only [Option.some.injEq] at hm'
      subst hm'; simp [flush_active] at hact
  files := by
    intro m' hm'
    simp only [Option.some.injEq] at hm'
    subst hm'; rw [flush_files]; exact h.files m hm
  stats := by
    intro m' hm' st hst
    simp only [Option.some.injEq] at hm'
    subst hm'
    rw [flush_active] at hst
    simp only [reduceCtorEq, or_false] at hst
    exact h.stats m hm st (mem_flush_logFiles.mp hst)
  ackedNames := h.ackedNames
  inflightNames := h.inflightNames


/-- `ackedOf` as a function of the ghost list only. -/
def ackedIn (a : List (Name × α)) (nm : Name) : List α := (a.filter (fun p => p.1 = nm)).map (·.2)

theorem ackedOf_eq (s : State α β) (nm : Name) : ackedOf s nm = ackedIn s.acked nm := rfl

theorem ackedIn_snoc_same (a : List (Name × α)) (nm : Name) (e : α) :
    ackedIn (a ++ [(nm, e)]) nm = ackedIn a nm ++ [e] := by
  simp [ackedIn, List.filter_append]

theorem ackedIn_snoc_ne (a : List (Name × α)) {nm n : Name} (e : α) (h : nm ≠ n) :
    ackedIn (a ++ [(nm, e)]) n = ackedIn a n := by
  simp [ackedIn, List.filter_append, h]

theorem ackedIn_nil_of_not_mem {a : List (Name × α)} {nm : Name} (h : ∀ p ∈ a, p.1 ≠ nm) : ackedIn a nm = [] := by
  simp only [ackedIn, List.map_eq_nil_iff, List.filter_eq_nil_iff]
  intro p hp; simpa using h p hp

/-- Names held by the memory object are directory names. -/
theorem Inv.file_mem {cfg : Cfg α β} {s : State α β} (h : Inv cfg s) {m : Mem} (hm : s.mem = some m)
    {nm : Name} : nm ∈ m.files ↔ nm ∈ s.dir.names := (h.files m hm).mem_iff

theorem Inv.files_nodup {cfg : Cfg α β} {s : State α β} (h : Inv cfg s) {m : Mem} (hm : s.mem = some m) :
    m.files.Nodup := (h.files m hm).nodup_iff.mpr h.nodup

theorem Inv.active_name_mem {cfg : Cfg α β} {s : State α β} (h : Inv cfg s) {m : Mem} (hm : s.mem = some m)
    {st : Stat} (ha : m.active = some st) : st.name ∈ s.dir.names := by
  apply (h.file_mem hm).mp; simp [Mem.files, ha]

theorem Inv.closed_ne_active {cfg : Cfg α β} {s : State α β} (h : Inv cfg s) {m : Mem} (hm : s.mem = some m)
    {st st2 : Stat} (ha : m.active = some st) (h2 : st2 ∈ m.logFiles) : st2.name ≠ st.name := by
  have := h.files_nodup hm
  simp only [Mem.files, ha, Option.toList, List.map_cons, List.map_nil] at this
  rw [List.nodup_append] at this
  intro heq
  exact this.2.2 st2.name (List.mem_map.mpr ⟨st2, h2, rfl⟩) st.name (by simp) heq

/-- The active file never ends in a torn record: its content is exactly the acknowledged records. -/
theorem Inv.active_content {cfg : Cfg α β} {s : State α β} (h : Inv cfg s) {m : Mem} (hm : s.mem = some m)
    {st : Stat} (ha : m.active = some st) :
    s.dir.get st.name = some (encAll cfg.codec (ackedOf s st.name)) := by
  have hn := h.active_name_mem hm ha
  obtain ⟨f, hf, hfn⟩ := List.mem_map.mp hn
  obtain ⟨n, bs⟩ := f
  simp only at hfn; subst hfn
  rcases h.content _ bs hf with h1 | ⟨hna, _⟩
  · rw [Dir.get_eq_some_of_mem h.nodup hf, h1]
  · exact absurd rfl (hna m st hm ha)


/-- Writing `x` to the active file `st` (no rotation): generic over what is written and how the ghost
lists are extended. -/
theorem inv_append_same {cfg : Cfg α β} (hc : cfg.codec.Ok) {s : State α β} (h : Inv cfg s) {m : Mem}
    (hm : s.mem = some m) {st : Stat} (ha : m.active = some st) (e : α) :
    Inv cfg { dir := s.dir.appendTo st.name (cfg.codec.enc e)
              mem := some { m with active := some { st with maxEpoch := max st.maxEpoch (cfg.epoch e) } }
              acked := s.acked ++ [(st.name, e)]
              inflight := s.inflight } where
  nodup := by simpa [Dir.names_appendTo] using h.nodup
  content := by
    intro n b hmem
    obtain ⟨b0, hb0, rfl⟩ := Dir.mem_appendTo.mp hmem
    by_cases hn : n = st.name
    · subst hn
      left
      have hget := h.active_content hm ha
      have : b0 = encAll cfg.codec (ackedOf s st.name) := by
        have := Dir.get_eq_some_of_mem h.nodup hb0
        rw [hget] at this; exact (Option.some.inj this).symm
      simp only [if_true, ackedOf_eq]
      rw [ackedIn_snoc_same, encAll_append, encAll_singleton, this]
      rfl
    · simp only [hn, if_false]
      have hne : st.name ≠ n := fun h => hn h.symm
      simp only [ackedOf_eq, ackedIn_snoc_ne _ e hne]
      simp only [← ackedOf_eq]
      rcases h.content n b0 hb0 with h1 | ⟨_, h2⟩
      · exact Or.inl h1
      · refine Or.inr ⟨?_, h2⟩
        intro m' st' hm' hact
        simp only [Option.some.injEq] at hm'
        subst hm'
        simp only [Option.some.injEq] at hact
        subst hact; exact hne
  files := by
    intro m' hm'
    simp only [Option.some.injEq] at hm'
    subst hm'
    have := h.files m hm
    simpa [Mem.files, ha, Dir.names_appendTo] using this
  stats := by
    intro m' hm' st2 hst2
    simp only [Option.some.injEq] at hm'
    subst hm'
    simp only [Option.some.injEq] at hst2
    rcases hst2 with hcl | hact
    · have hne := h.closed_ne_active hm ha hcl
      simp only [Dir.get_appendTo_ne hne]
      exact h.stats m hm st2 (Or.inl hcl)
    · subst hact
      simp only
      have hget := h.active_content hm ha
      rw [Dir.get_appendTo_eq hget]
      simp only [Option.getD_some]
      have hold := h.stats m hm st (Or.inr ha)
      rw [hget] at hold
      simp only [Option.getD_some, readFile_encAll hc] at hold
      have := readFile_encAll hc (ackedOf s st.name ++ [e])
      rw [encAll_append, encAll_singleton] at this
      rw [this, maxEpochOf_append, hold]
  ackedNames := by
    intro p hp
    simp only [Dir.names_appendTo]
    rcases List.mem_append.mp hp with hp | hp
    · exact h.ackedNames p hp
    · simp only [List.mem_singleton] at hp; subst hp; exact h.active_name_mem hm ha
  inflightNames := by
    intro p hp; simp only [Dir.names_appendTo]; exact h.inflightNames p hp


theorem mem_append_new {d : Dir β} {nm n : Name} {b : List β} (hnm : nm ∉ d.names)
    (h : (n, b) ∈ d ++ [(nm, ([] : List β))]) : ((n, b) ∈ d ∧ n ≠ nm) ∨ (n = nm ∧ b = []) := by
  rcases List.mem_append.mp h with h' | h'
  · left; refine ⟨h', ?_⟩; intro heq; subst heq; exact hnm (List.mem_map.mpr ⟨(n, b), h', rfl⟩)
  · right; simpa using h'

theorem get_new {d : Dir β} {nm : Name} (hnm : nm ∉ d.names) (x : List β) :
    Dir.get (d ++ [(nm, x)]) nm = some x := by
  induction d with
  | nil => simp [Dir.get]
  | cons f t ih =>
    obtain ⟨a, b⟩ := f
    simp only [Dir.names, List.map_cons, List.mem_cons, not_or] at hnm
    simp only [List.cons_append, Dir.get]
    have : a ≠ nm := fun h => hnm.1 h.symm
    simp only [this, if_false]
    exact ih hnm.2

theorem nodup_names_new {d : Dir β} {nm : Name} (hd : d.names.Nodup) (hnm : nm ∉ d.names) (x : List β) :
    (Dir.names (d ++ [(nm, x)])).Nodup := by
  rw [Dir.names_append]
  apply List.nodup_append.mpr
  refine ⟨hd, by simp, ?_⟩
  intro a ha b hb
  simp only [List.mem_singleton] at hb
  subst hb; intro h; subst h; exact hnm ha

/-- Writing to a freshly created file `nm` (after rotation). -/
theorem inv_append_fresh {cfg : Cfg α β} (hc : cfg.codec.Ok) {s : State α β} (h : Inv cfg s) {m : Mem}
    (hm : s.mem = some m) {nm : Name} (hnm : nm ∉ s.dir.names) (e : α) :
    Inv cfg { dir := (s.dir ++ [(nm, [])]).appendTo nm (cfg.codec.enc e)
              mem := some { logFiles := (flush m).logFiles, active := some ⟨nm, max 0 (cfg.epoch e)⟩ }
              acked := s.acked ++ [(nm, e)]
              inflight := s.inflight } where
  nodup := by
    simp only [Dir.names_appendTo]; exact nodup_names_new h.nodup hnm []
  content := by
    intro n b hmem
    obtain ⟨b0, hb0, rfl⟩ := Dir.mem_appendTo.mp hmem
    rcases mem_append_new hnm hb0 with ⟨hin, hne⟩ | ⟨rfl, rfl⟩
    · simp only [hne, if_false]
      have hne' : nm ≠ n := fun h => hne h.symm
      simp only [ackedOf_eq, ackedIn_snoc_ne _ e hne']
      simp only [← ackedOf_eq]
      rcases h.content n b0 hin with h1 | ⟨_, h2⟩
      · exact Or.inl h1
      · refine Or.inr ⟨?_, h2⟩
        intro m' st' hm' hact
        simp only [Option.some.injEq] at hm'
        subst hm'
        simp only [Option.some.injEq] at hact
        subst hact; exact hne'
    · left
      simp only [if_true, ackedOf_eq, ackedIn_snoc_same, List.nil_append]
      rw [ackedIn_nil_of_not_mem (fun p hp heq => hnm (by rw [← heq]; exact h.ackedNames p hp))]
      simp [encAll_singleton]
  files := by
    intro m' hm'
    simp only [Option.some.injEq] at hm'
    subst hm'
    have h1 := h.files m hm
    rw [← flush_files] at h1
    simp only [Dir.names_appendTo, Dir.names_append]
    simp only [Mem.files, flush_active, Option.toList, List.map_nil, List.append_nil] at h1
    simp only [Mem.files, Option.toList, List.map_cons, List.map_nil]
    exact h1.append_right [nm]
  stats := by
    intro m' hm' st2 hst2
    simp only [Option.some.injEq] at hm'
    subst hm'
    simp only [Option.some.injEq] at hst2
    rcases hst2 with hcl | hact
    · have hold := mem_flush_logFiles.mp hcl
      have hin : st2.name ∈ s.dir.names := by
        apply (h.file_mem hm).mp
        rcases hold with h1 | h1
        · simp only [Mem.files, List.mem_append, List.mem_map]; exact Or.inl ⟨st2, h1, rfl⟩
        · simp [Mem.files, h1]
      have hne : st2.name ≠ nm := fun heq => hnm (heq ▸ hin)
      simp only [Dir.get_appendTo_ne hne, Dir.get_append_new hne]
      exact h.stats m hm st2 hold
    · subst hact
      simp only
      rw [Dir.get_appendTo_eq (get_new hnm [])]
      simp only [List.nil_append, Option.getD_some]
      have := readFile_encAll hc [e]
      rw [encAll_singleton] at this
      rw [this]; simp [maxEpochOf]
  ackedNames := by
    intro p hp
    simp only [Dir.names_appendTo, Dir.names_append]
    rcases List.mem_append.mp hp with hp | hp
    · exact List.mem_append_left _ (h.ackedNames p hp)
    · simp only [List.mem_singleton] at hp; subst hp; simp
  inflightNames := by
    intro p hp
    simp only [Dir.names_appendTo, Dir.names_append]
    exact List.mem_append_left _ (h.inflightNames p hp)


theorem notActive_down {s : State α β} (h : s.mem = none) (nm : Name) : notActive s nm := by
  intro m st hm; simp [h] at hm

/-- A crash in the middle of an append to the active file `st` (no rotation). -/
theorem inv_crashAppend_same {cfg : Cfg α β} {s : State α β} (h : Inv cfg s) {m : Mem}
    (hm : s.mem = some m) {st : Stat} (ha : m.active = some st) (e : α) (k : Nat) :
    Inv cfg { dir := s.dir.appendTo st.name ((cfg.codec.enc e).take k)
              mem := none
              acked := s.acked
              inflight := s.inflight ++ [(st.name, e)] } where
  nodup := by simpa [Dir.names_appendTo] using h.nodup
  content := by
    intro n b hmem
    obtain ⟨b0, hb0, rfl⟩ := Dir.mem_appendTo.mp hmem
    by_cases hn : n = st.name
    · subst hn
      right
      refine ⟨notActive_down rfl _, e, k, by simp, ?_⟩
      have hget := h.active_content hm ha
      have : b0 = encAll cfg.codec (ackedOf s st.name) := by
        have := Dir.get_eq_some_of_mem h.nodup hb0
        rw [hget] at this; exact (Option.some.inj this).symm
      simp only [if_true, this]; rfl
    · simp only [hn, if_false]
      rcases h.content n b0 hb0 with h1 | ⟨_, e', k', hin, h2⟩
      · exact Or.inl h1
      · exact Or.inr ⟨notActive_down rfl _, e', k', List.mem_append_left _ hin, h2⟩
  files := by intro m' hm'; simp at hm'
  stats := by intro m' hm'; simp at hm'
  ackedNames := by
    intro p hp; simp only [Dir.names_appendTo]; exact h.ackedNames p hp
  inflightNames := by
    intro p hp
    simp only [Dir.names_appendTo]
    rcases List.mem_append.mp hp with hp | hp
    · exact h.inflightNames p hp
    · simp only [List.mem_singleton] at hp; subst hp; exact h.active_name_mem hm ha

/-- A crash in the middle of an append that had just rotated to the fresh file `nm`. -/
theorem inv_crashAppend_fresh {cfg : Cfg α β} {s : State α β} (h : Inv cfg s)
    {nm : Name} (hnm : nm ∉ s.dir.names) (e : α) (k : Nat) :
    Inv cfg { dir := (s.dir ++ [(nm, [])]).appendTo nm ((cfg.codec.enc e).take k)
              mem := none
              acked := s.acked
              inflight := s.inflight ++ [(nm, e)] } where
  nodup := by
    simp only [Dir.names_appendTo]; exact nodup_names_new h.nodup hnm []
  content := by
    intro n b hmem
    obtain ⟨b0, hb0, rfl⟩ := Dir.mem_appendTo.mp hmem
    rcases mem_append_new hnm hb0 with ⟨hin, hne⟩ | ⟨rfl, rfl⟩
    · simp only [hne, if_false]
      rcases h.content n b0 hin with h1 | ⟨_, e', k', hin', h2⟩
      · exact Or.inl h1
      · exact Or.inr ⟨notActive_down rfl _, e', k', List.mem_append_left _ hin', h2⟩
    · right
      refine ⟨notActive_down rfl _, e, k, by simp, ?_⟩
      simp only [if_true, ackedOf_eq, List.nil_append]
      rw [ackedIn_nil_of_not_mem (fun p hp heq => hnm (by rw [← heq]; exact h.ackedNames p hp))]
      simp [encAll]
  files := by intro m' hm'; simp at hm'
  stats := by intro m' hm'; simp at hm'
  ackedNames := by
    intro p hp
    simp only [Dir.names_appendTo, Dir.names_append]
    exact List.mem_append_left _ (h.ackedNames p hp)
  inflightNames := by
    intro p hp
    simp only [Dir.names_appendTo, Dir.names_append]
    rcases List.mem_append.mp hp with hp | hp
    · exact List.mem_append_left _ (h.inflightNames p hp)
    · simp only [List.mem_singleton] at hp; subst hp; simp


/-- names deleted by `Purge k` -/
def purgeDel (m : Mem) (k : Nat) : List Name := (m.logFiles.filter (fun st => st.maxEpoch < k)).map (·.name)

theorem Inv.logFiles_names_nodup {cfg : Cfg α β} {s : State α β} (h : Inv cfg s) {m : Mem} (hm : s.mem = some m) :
    (m.logFiles.map (·.name)).Nodup := by
  have := h.files_nodup hm
  simp only [Mem.files] at this
  exact (List.nodup_append.mp this).1

theorem Inv.kept_not_del {cfg : Cfg α β} {s : State α β} (h : Inv cfg s) {m : Mem} (hm : s.mem = some m)
    {k : Nat} {st : Stat} (hst : st ∈ m.logFiles) (hk : ¬ st.maxEpoch < k) : st.name ∉ purgeDel m k := by
  intro hin
  simp only [purgeDel, List.mem_map, List.mem_filter, decide_eq_true_eq] at hin
  obtain ⟨st2, ⟨h2, hlt⟩, hname⟩ := hin
  have := nodup_map_inj (h.logFiles_names_nodup hm) h2 hst hname
  subst this; exact hk hlt

theorem Inv.active_not_del {cfg : Cfg α β} {s : State α β} (h : Inv cfg s) {m : Mem} (hm : s.mem = some m)
    {k : Nat} {st : Stat} (ha : m.active = some st) : st.name ∉ purgeDel m k := by
  intro hin
  simp only [purgeDel, List.mem_map, List.mem_filter, decide_eq_true_eq] at hin
  obtain ⟨st2, ⟨h2, _⟩, hname⟩ := hin
  exact h.closed_ne_active hm ha h2 hname

theorem ackedIn_filter (a : List (Name × α)) (q : Name → Bool) {n : Name} (hq : q n = true) :
    ackedIn (a.filter (fun p => q p.1)) n = ackedIn a n := by
  simp only [ackedIn, List.filter_filter]
  congr 1
  apply List.filter_congr
  intro p _
  by_cases hp : p.1 = n
  · simp [hp, hq]
  · simp [hp]

theorem inv_purge {cfg : Cfg α β} {s : State α β} (h : Inv cfg s) {m : Mem} (hm : s.mem = some m) (k : Nat) :
    Inv cfg (step cfg s (.purge k)).1 := by
  have hstep : (step cfg s (.purge k)).1 =
      { dir := s.dir.filter (fun f => !((purgeDel m k).contains f.1))
        mem := some { m with logFiles := m.logFiles.filter (fun st => !(decide (st.maxEpoch < k))) }
        acked := s.acked.filter (fun p => !((purgeDel m k).contains p.1))
        inflight := s.inflight.filter (fun p => !((purgeDel m k).contains p.1)) } := by
    simp only [step, hm, purgeDel]
  rw [hstep]
  let q : Name → Bool := fun n => !((purgeDel m k).contains n)
  have hq : ∀ n, q n = true ↔ n ∉ purgeDel m k := by intro n; simp [q]
  refine ⟨?_, ?_, ?_, ?_, ?_, ?_⟩
  · show (Dir.names (s.dir.filter (fun f => q f.1))).Nodup
    rw [Dir.names_filter]; exact h.nodup.filter _
  · intro n b hmem
    have hmem' : (n, b) ∈ s.dir.filter (fun f => q f.1) := hmem
    obtain ⟨hin, hqn⟩ := List.mem_filter.mp hmem'
    simp only at hqn
    have hack : ackedIn (s.acked.filter (fun p => q p.1)) n = ackedIn s.acked n := ackedIn_filter _ q hqn
    simp only [ackedOf_eq]
    show b = encAll cfg.codec (ackedIn (s.acked.filter (fun p => q p.1)) n) ∨ _
    rw [hack]
    rcases h.content n b hin with h1 | ⟨hna, e, k', hin', h2⟩
    · exact Or.inl h1
    · refine Or.inr ⟨?_, e, k', ?_, ?_⟩
      · intro m' st' hm' hact
        simp only [Option.some.injEq] at hm'
        subst hm'
        exact hna m st' hm hact
      · exact List.mem_filter.mpr ⟨hin', hqn⟩
      · exact h2
  · intro m' hm'
    simp only [Option.some.injEq] at hm'
    subst hm'
    show List.Perm _ (Dir.names (s.dir.filter (fun f => q f.1)))
    rw [Dir.names_filter]
    have hp := (h.files m hm).filter q
    have : m.files.filter q =
        (Mem.files { m with logFiles := m.logFiles.filter (fun st => !(decide (st.maxEpoch < k))) }) := by
      simp only [Mem.files, List.filter_append, List.filter_map]
      congr 1
      · congr 1
        apply List.filter_congr
        intro st hst
        by_cases hk : st.maxEpoch < k
        · have : st.name ∈ purgeDel m k := by
            simp only [purgeDel, List.mem_map, List.mem_filter, decide_eq_true_eq]
            exact ⟨st, ⟨hst, hk⟩, rfl⟩
          simp [q, hk, this]
        · have := h.kept_not_del hm hst hk
          simp [q, hk, this]
      · cases ha : m.active with
        | none => simp
        | some st =>
          have := h.active_not_del (k := k) hm ha
          simp [q, this]
    rw [← this]; exact hp
  · intro m' hm' st hst
    simp only [Option.some.injEq] at hm'
    subst hm'
    simp only at hst
    have hnd : st.name ∉ purgeDel m k := by
      rcases hst with hcl | hact
      · obtain ⟨h1, h2⟩ := List.mem_filter.mp hcl
        exact h.kept_not_del hm h1 (by simpa using h2)
      · exact h.active_not_del hm hact
    have hold : st ∈ m.logFiles ∨ m.active = some st := by
      rcases hst with hcl | hact
      · exact Or.inl (List.mem_filter.mp hcl).1
      · exact Or.inr hact
    show st.maxEpoch = maxEpochOf cfg (readFile cfg.codec ((Dir.get (s.dir.filter (fun f => q f.1)) st.name).getD []))
    rw [Dir.get_filter q ((hq _).mpr hnd)]
    exact h.stats m hm st hold
  · intro p hp
    obtain ⟨hin, hqp⟩ := List.mem_filter.mp hp
    show p.1 ∈ Dir.names (s.dir.filter (fun f => q f.1))
    rw [Dir.names_filter]
    exact List.mem_filter.mpr ⟨h.ackedNames p hin, hqp⟩
  · intro p hp
    obtain ⟨hin, hqp⟩ := List.mem_filter.mp hp
    show p.1 ∈ Dir.names (s.dir.filter (fun f => q f.1))
    rw [Dir.names_filter]
    exact List.mem_filter.mpr ⟨h.inflightNames p hin, hqp⟩


theorem inv_step {cfg : Cfg α β} (hc : cfg.codec.Ok) {s : State α β} (h : Inv cfg s) (op : Op α) :
    Inv cfg (step cfg s op).1 := by
  cases op with
  | «open» => exact inv_open h
  | crash => exact inv_crash h
  | rotate =>
    cases hm : s.mem with
    | none => simpa [step, hm] using h
    | some m => simpa [step, hm] using inv_flush h hm
  | close =>
    cases hm : s.mem with
    | none => simpa [step, hm] using h
    | some m => simpa [step, hm] using inv_flush h hm
  | all =>
    cases hm : s.mem with
    | none => simpa [step, hm] using h
    | some m =>
      simp only [step, hm]
      split <;> exact h
  | purge k =>
    cases hm : s.mem with
    | none => simpa [step, hm] using h
    | some m => exact inv_purge h hm k
  | append e nm =>
    cases hm : s.mem with
    | none => simpa [step, hm] using h
    | some m =>
      have hw := writeRec_cases cfg s.dir m nm (cfg.codec.enc e)
      generalize hr : writeRec cfg s.dir m nm (cfg.codec.enc e) = r at hw
      cases hw with
      | same st ha =>
        simp only [step, hm, hr]
        exact inv_append_same hc h hm ha e
      | fresh hn =>
        simp only [step, hm, hr]
        exact inv_append_fresh hc h hm hn e
      | exists_ hn =>
        simp only [step, hm, hr]
        exact inv_flush h hm
  | crashAppend e nm k =>
    cases hm : s.mem with
    | none => simpa [step, hm] using h
    | some m =>
      have hw := writeRec_cases cfg s.dir m nm ((cfg.codec.enc e).take k)
      generalize hr : writeRec cfg s.dir m nm ((cfg.codec.enc e).take k) = r at hw
      cases hw with
      | same st ha =>
        simp only [step, hm, hr]
        exact inv_crashAppend_same h hm ha e k
      | fresh hn =>
        simp only [step, hm, hr]
        exact inv_crashAppend_fresh h hn e k
      | exists_ hn =>
        simp only [step, hm, hr]
        exact inv_crash h

theorem inv_run {cfg : Cfg α β} (hc : cfg.codec.Ok) {s : State α β} (h : Inv cfg s) (ops : List (Op α)) :
    Inv cfg (run cfg s ops) := by
  induction ops generalizing s with
  | nil => exact h
  | cons op ops ih => exact ih (inv_step hc h op)

theorem inv_reachable {cfg : Cfg α β} (hc : cfg.codec.Ok) (ops : List (Op α)) : Inv cfg (run cfg init ops) :=
  inv_run hc (inv_init cfg) ops

end F3.Wal
