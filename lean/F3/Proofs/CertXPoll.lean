import F3.Spec.CertX
import F3.Proofs.CertsDelta
import F3.Proofs.CertsValidate
import F3.Proofs.CertX
/-! The poller stores exactly the valid prefix (C16). -/
namespace F3.CertX
open F3.Certs F3.Spec.Certs F3.Spec.CertX

theorem latestTable_eq (s : Store) :
    s.latestTable = if s.certs.length = 0 then some s.init
      else match applyDiffs s.init (s.certs.map (·.delta)) with
        | .ok t => some t
        | .error _ => none := by
  unfold Store.latestTable Store.getPowerTable Store.nextInst deltasBefore
  have a : ¬ s.first + s.certs.length < s.first := by omega
  have b : ¬ s.first + s.certs.length < s.first + s.certs.length := by omega
  simp only [a, b, if_false]
  by_cases h : s.certs.length = 0
  · simp [h]
  · have c : ¬ s.first + s.certs.length = s.first := by omega
    have d : s.first + s.certs.length - s.first = s.certs.length := by omega
    simp only [c, if_false, h, d, List.take_length]
    rfl

theorem latestTable_snoc {s : Store} {lt nt : Table} (c : Cert) (h : s.latestTable = some lt)
    (hd : applyDiff lt c.delta = .ok nt) :
    ({ s with certs := s.certs ++ [c] } : Store).latestTable = some nt := by
  rw [latestTable_eq] at h ⊢
  have hlen : ¬ (s.certs ++ [c]).length = 0 := by simp
  simp only [hlen, if_false, List.map_append, List.map_cons, List.map_nil]
  by_cases h0 : s.certs.length = 0
  · simp only [h0, if_true, Option.some.injEq] at h
    have : s.certs = [] := List.eq_nil_of_length_eq_zero h0
    rw [this, h]
    simp only [List.map_nil, List.nil_append]
    show (match applyDiff lt c.delta with | .ok t => some t | .error _ => none) = some nt
    rw [hd]
  · simp only [h0, if_false] at h
    cases ha : applyDiffs s.init (s.certs.map (·.delta)) with
    | error e => rw [ha] at h; cases h
    | ok t =>
      rw [ha] at h
      simp only [Option.some.injEq] at h
      subst h
      rw [applyDiffs_snoc c.delta ha, hd]

theorem latest?_eq (s : Store) :
    s.latest? = if s.certs.length = 0 then none else some (s.nextInst - 1) := by
  unfold Store.latest? Store.nextInst
  cases s.certs with
  | nil => simp
  | cons c cs => simp

theorem u64_of_lt {n : Nat} (h : n < 2 ^ 64) : u64 n = n := Nat.mod_eq_of_lt h

/-- one delivered certificate, from a consistent state with room below 2^64 -/
theorem pollCert_spec (net : Nat) (st : PState) (res : PollRes) (c : Cert) (hc : Consistent st)
    (hroom : st.store.nextInst + 1 < 2 ^ 64) :
    (∃ nt, CertValid net st.table st.next none c nt ∧ nt ≠ [] ∧
        pollCert net st res c =
          (⟨st.next + 1, nt, { st.store with certs := st.store.certs ++ [c] }⟩,
           { res with received := res.received + 1, newCerts := res.newCerts + 1 }, .cont) ∧
        Consistent ⟨st.next + 1, nt, { st.store with certs := st.store.certs ++ [c] }⟩) ∨
    ((∀ nt, ¬ CertValid net st.table st.next none c nt) ∧
        pollCert net st res c = (st, { res with status := .illegal }, .illegal)) ∨
    (CertValid net st.table st.next none c [] ∧
        pollCert net st res c = (st, { res with received := res.received + 1, internal := true }, .internal)) := by
  unfold pollCert
  cases hstep : stepCert net ⟨st.next, [], st.table, none⟩ c with
  | error e =>
    right; left
    refine ⟨?_, rfl⟩
    intro nt hv
    have := (stepCert_ok_iff net ⟨st.next, [], st.table, none⟩ c _).mpr ⟨nt, hv, rfl⟩
    rw [hstep] at this; cases this
  | ok v =>
    obtain ⟨nt, hv, hveq⟩ := (stepCert_ok_iff net ⟨st.next, [], st.table, none⟩ c v).mp hstep
    have hvnext : v.next = st.next + 1 := by
      rw [hveq]; show u64 (st.next + 1) = st.next + 1
      rw [hc.next]; exact u64_of_lt hroom
    have hvtable : v.table = nt := by rw [hveq]; rfl
    have hinst : c.inst = st.store.nextInst := by rw [← hc.next]; exact hv.inst
    -- the certificate is new to the store
    have hfresh : isFresh st.store c = true := by
      unfold isFresh
      rw [latest?_eq]
      by_cases h0 : st.store.certs.length = 0
      · simp [h0]
      · have hp : 0 < st.store.nextInst := by unfold Store.nextInst; omega
        simp only [h0, if_false, decide_eq_true_eq]; omega
    simp only [hfresh, if_true]
    -- what Put does
    have hput : st.store.put c =
        if nt.isEmpty then .error .emptyTable else .ok { st.store with certs := st.store.certs ++ [c] } := by
      unfold Store.put
      have a : ¬ c.inst < st.store.first := by rw [hinst]; unfold Store.nextInst; omega
      have b : c.chain.isEmpty = false := by
        cases hch : c.chain with
        | nil => exact absurd hch hv.chain_nonempty
        | cons _ _ => rfl
      have d : ¬ st.store.nextInst < c.inst := by omega
      have e : ¬ c.inst < st.store.nextInst := by omega
      simp only [a, if_false, b, Bool.false_eq_true, hv.chain_valid, Bool.not_true, d, e, hc.table]
      have hnt : (if c.delta.isEmpty then (Except.ok st.table : Except DiffErr Table)
          else applyDiff st.table c.delta) = .ok nt := by
        by_cases hde : c.delta.isEmpty = true
        · simp only [hde, if_true]
          have hd : c.delta = [] := List.isEmpty_iff.mp hde
          have := hv.delta
          rw [hd, hc.canon] at this
          exact this
        · simp only [hde, Bool.false_eq_true, if_false]; exact hv.delta
      rw [hnt]
      have hpt : (c.pt != CidTok.table nt) = false := by simpa using hv.committed
      simp only [hpt, Bool.false_eq_true, if_false]
    rw [hput]
    by_cases hem : nt.isEmpty = true
    · right; right
      have hnil : nt = [] := List.isEmpty_iff.mp hem
      subst hnil
      simp only [List.isEmpty_nil, if_true]
      exact ⟨hv, trivial⟩
    · left
      have hne : nt ≠ [] := fun h => hem (by rw [h]; rfl)
      simp only [hem, Bool.false_eq_true, if_false]
      refine ⟨nt, hv, hne, ?_, ?_⟩
      · rw [hvnext, hvtable]
      · refine ⟨?_, latestTable_snoc c hc.table hv.delta, applyDiff_fixed hv.delta⟩
        show st.next + 1 = st.store.first + (st.store.certs ++ [c]).length
        rw [hc.next]; unfold Store.nextInst; simp; omega

theorem pollRun_append {net : Nat} {x y z : Nat × Table} {a b : List Cert}
    (h₁ : PollRun net x a y) (h₂ : PollRun net y b z) : PollRun net x (a ++ b) z := by
  induction h₁ with
  | nil => exact h₂
  | cons hv _ ih => exact PollRun.cons hv (ih h₂)

/-- what processing the certificates of one response does -/
structure CertsOutcome (net : Nat) (st : PState) (res : PollRes) (ds : List Cert)
    (st' : PState) (res' : PollRes) (out : CertOutcome) (acc rest : List Cert) : Prop where
  split : ds = acc ++ rest
  store : st'.store = { st.store with certs := st.store.certs ++ acc }
  run : PollRun net (st.next, st.table) acc (st'.next, st'.table)
  next : st'.next = st.next + acc.length
  cons : Consistent st'
  newCerts : res'.newCerts = res.newCerts + acc.length
  received : res'.received = res.received + acc.length + (if out = .internal then 1 else 0)
  cont : out = .cont → rest = [] ∧ res'.status = res.status ∧ res'.internal = res.internal
  illegal : out = .illegal → ∃ c rest', rest = c :: rest' ∧
    (∀ nt, ¬ CertValid net st'.table st'.next none c nt) ∧ res'.status = .illegal ∧ res'.internal = res.internal
  internal : out = .internal → ∃ c rest', rest = c :: rest' ∧
    CertValid net st'.table st'.next none c [] ∧ res'.internal = true

theorem pollCerts_spec (net : Nat) (st : PState) (res : PollRes) (ds : List Cert) (hc : Consistent st)
    (hroom : st.store.nextInst + ds.length < 2 ^ 64) :
    ∃ st' res' out acc rest, pollCerts net st res ds = (st', res', out) ∧
      CertsOutcome net st res ds st' res' out acc rest := by
  induction ds generalizing st res with
  | nil =>
    refine ⟨st, res, .cont, [], [], rfl, ?_⟩
    exact ⟨rfl, by simp, PollRun.nil _, by simp, hc, by simp, by simp,
      fun _ => ⟨rfl, rfl, rfl⟩, fun h => (by cases h), fun h => (by cases h)⟩
  | cons c cs ih =>
    have hroom1 : st.store.nextInst + 1 < 2 ^ 64 := by simp only [List.length_cons] at hroom; omega
    rcases pollCert_spec net st res c hc hroom1 with ⟨nt, hv, _, heq, hc1⟩ | ⟨hno, heq⟩ | ⟨hv, heq⟩
    · -- accepted and stored: continue
      have hroom2 : ({ st.store with certs := st.store.certs ++ [c] } : Store).nextInst + cs.length < 2 ^ 64 := by
        unfold Store.nextInst at *
        simp only [List.length_append, List.length_cons, List.length_nil] at hroom ⊢
        omega
      obtain ⟨st', res', out, acc, rest, hp, ho⟩ := ih _ _ hc1 hroom2
      refine ⟨st', res', out, c :: acc, rest, ?_, ?_⟩
      · unfold pollCerts; rw [heq]; exact hp
      · have hu : u64 (st.next + 1) = st.next + 1 := by rw [hc.next]; exact u64_of_lt hroom1
        refine ⟨by rw [ho.split]; rfl, ?_, ?_, ?_, ho.cons, ?_, ?_, ho.cont, ho.illegal, ho.internal⟩
        · rw [ho.store]; simp
        · apply PollRun.cons hv
          rw [hu]; exact ho.run
        · rw [ho.next]; simp only [List.length_cons]; omega
        · rw [ho.newCerts]; simp only [List.length_cons]; omega
        · rw [ho.received]; simp only [List.length_cons]; omega
    · refine ⟨st, { res with status := .illegal }, .illegal, [], c :: cs, ?_, ?_⟩
      · unfold pollCerts; rw [heq]
      · exact ⟨rfl, by simp, PollRun.nil _, by simp, hc, by simp, by simp,
          fun h => (by cases h), fun _ => ⟨c, cs, rfl, hno, rfl, rfl⟩, fun h => (by cases h)⟩
    · refine ⟨st, { res with received := res.received + 1, internal := true }, .internal, [], c :: cs, ?_, ?_⟩
      · unfold pollCerts; rw [heq]
      · exact ⟨rfl, by simp, PollRun.nil _, by simp, hc, by simp, by simp,
          fun h => (by cases h), fun h => (by cases h), fun _ => ⟨c, cs, rfl, hv, rfl⟩⟩

theorem catchUp_consistent {st : PState} (hc : Consistent st) (hroom : st.store.nextInst < 2 ^ 64) :
    catchUp st = some st := by
  unfold catchUp
  rw [latest?_eq]
  by_cases h0 : st.store.certs.length = 0
  · simp [h0]
  · simp only [h0, if_false]
    have hp : 0 < st.store.nextInst := by unfold Store.nextInst; omega
    have : u64 (st.store.nextInst - 1 + 1) = st.next := by
      rw [hc.next, show st.store.nextInst - 1 + 1 = st.store.nextInst by omega]
      exact u64_of_lt hroom
    simp [this]

/-- **The poller stores exactly valid certificates and advances by them**, for every responder. -/
theorem poll_spec (net : Nat) (respond : Nat → Nat → Resp) (fuel n : Nat) (st : PState) (res : PollRes)
    (hc : Consistent st) (hroom : st.store.nextInst + fuel * maxRequestLength < 2 ^ 64)
    (st' : PState) (res' : PollRes) (h : poll net respond fuel n st res = (st', res')) :
    ∃ acc, st'.store = { st.store with certs := st.store.certs ++ acc } ∧
      PollRun net (st.next, st.table) acc (st'.next, st'.table) ∧ Consistent st' ∧
      res'.newCerts = res.newCerts + acc.length := by
  induction fuel generalizing n st res with
  | zero =>
    simp only [poll, Prod.mk.injEq] at h
    obtain ⟨h1, h2⟩ := h
    subst h1; subst h2
    exact ⟨[], by simp, PollRun.nil _, hc, by simp⟩
  | succ fuel ih =>
    unfold poll at h
    have hr0 : st.store.nextInst < 2 ^ 64 := by omega
    rw [catchUp_consistent hc hr0] at h
    simp only at h
    cases hresp : respond n st.next with
    | fail =>
      rw [hresp] at h
      simp only [Prod.mk.injEq] at h
      obtain ⟨h1, h2⟩ := h
      subst h1; subst h2
      exact ⟨[], by simp, PollRun.nil _, hc, by simp⟩
    | ok pending items =>
      rw [hresp] at h
      simp only at h
      have hlen : (clientRecv st.next maxRequestLength 0 items).length ≤ maxRequestLength := by
        have := clientRecv_length st.next maxRequestLength 0 items; omega
      have hroom1 : st.store.nextInst + (clientRecv st.next maxRequestLength 0 items).length < 2 ^ 64 := by
        have : (fuel + 1) * maxRequestLength = fuel * maxRequestLength + maxRequestLength := by
          rw [Nat.add_mul]; simp
        omega
      obtain ⟨st1, res1, out, acc, rest, hp, ho⟩ := pollCerts_spec net st
        (if st.next ≤ pending then { res with status := .hit } else res)
        (clientRecv st.next maxRequestLength 0 items) hc hroom1
      rw [hp] at h
      have hnc : res1.newCerts = res.newCerts + acc.length := by
        rw [ho.newCerts]; split <;> rfl
      have hfin : ∀ r, (st', res') = (st1, r) → r.newCerts = res1.newCerts →
          ∃ acc, st'.store = { st.store with certs := st.store.certs ++ acc } ∧
            PollRun net (st.next, st.table) acc (st'.next, st'.table) ∧ Consistent st' ∧
            res'.newCerts = res.newCerts + acc.length := by
        intro r hr hrn
        simp only [Prod.mk.injEq] at hr
        obtain ⟨h1, h2⟩ := hr
        subst h1; subst h2
        exact ⟨acc, ho.store, ho.run, ho.cons, by rw [hrn, hnc]⟩
      cases out with
      | cont =>
        simp only at h
        split at h
        · exact hfin res1 h.symm rfl
        · split at h
          · exact hfin _ h.symm rfl
          · -- another request
            have hsub : acc.length ≤ maxRequestLength := by
              have := congrArg List.length ho.split
              simp only [List.length_append] at this
              omega
            have hroom2 : st1.store.nextInst + fuel * maxRequestLength < 2 ^ 64 := by
              rw [ho.store]
              unfold Store.nextInst at *
              simp only [List.length_append]
              have : (fuel + 1) * maxRequestLength = fuel * maxRequestLength + maxRequestLength := by
                rw [Nat.add_mul]; simp
              omega
            obtain ⟨acc2, hs2, hr2, hc2, hn2⟩ := ih (n + 1) st1 res1 ho.cons hroom2 h
            refine ⟨acc ++ acc2, ?_, pollRun_append ho.run hr2, hc2, ?_⟩
            · rw [hs2, ho.store]; simp
            · rw [hn2, hnc, List.length_append]; omega
      | illegal => exact hfin res1 h.symm rfl
      | internal => exact hfin res1 h.symm rfl

theorem applyDiffs_fixed {t nt : Table} {ds : List Diff} (h : applyDiffs t ds = .ok nt) :
    applyDiff nt [] = .ok nt := by
  unfold applyDiffs at h
  cases hm : applyDiffsMap (toMap t) ds with
  | error e => rw [hm] at h; cases h
  | ok m =>
    rw [hm] at h
    simp only [Except.ok.injEq] at h
    have hs := applyDiffsMap_sorted (ssorted_toMap t) hm
    rw [applyDiff_eq, ← h, toMap_canon hs]
    rfl

/-- a freshly constructed poller is consistent with its store (the initial table must be in
canonical form, as every table produced by `ApplyPowerTableDiffs` is) -/
theorem newPoller_consistent {s : Store} {st : PState} (hw : s.first + s.certs.length < 2 ^ 64)
    (hinit : applyDiff s.init [] = .ok s.init) (h : newPoller s = some st) : Consistent st := by
  unfold newPoller at h
  rw [latest?_eq] at h
  by_cases h0 : s.certs.length = 0
  · simp only [h0, if_true] at h
    cases hg : s.getPowerTable 0 with
    | none => rw [hg] at h; cases h
    | some t =>
      rw [hg] at h
      simp only [Option.some.injEq] at h
      subst h
      -- first must be 0
      have hf : s.first = 0 := by
        unfold Store.getPowerTable at hg
        by_cases hf : 0 < s.first
        · simp [hf] at hg
        · omega
      have hn : s.nextInst = 0 := by unfold Store.nextInst; omega
      have hlt : s.latestTable = some s.init := by rw [latestTable_eq]; simp [h0]
      have ht : t = s.init := by
        unfold Store.latestTable at hlt
        rw [hn, hg] at hlt
        exact Option.some.inj hlt
      exact ⟨hn.symm, by rw [hlt, ht], by rw [ht]; exact hinit⟩
  · simp only [h0, if_false] at h
    have hp : 0 < s.nextInst := by unfold Store.nextInst; omega
    have hu : u64 (s.nextInst - 1 + 1) = s.nextInst := by
      rw [show s.nextInst - 1 + 1 = s.nextInst by omega]
      exact u64_of_lt (by unfold Store.nextInst; exact hw)
    rw [hu] at h
    cases hg : s.getPowerTable s.nextInst with
    | none => rw [hg] at h; cases h
    | some t =>
      rw [hg] at h
      simp only [Option.some.injEq] at h
      subst h
      refine ⟨rfl, hg, ?_⟩
      have hlt : s.latestTable = some t := hg
      rw [latestTable_eq] at hlt
      simp only [h0, if_false] at hlt
      cases ha : applyDiffs s.init (s.certs.map (·.delta)) with
      | error e => rw [ha] at hlt; cases hlt
      | ok t' =>
        rw [ha] at hlt
        simp only [Option.some.injEq] at hlt
        subst hlt
        exact applyDiffs_fixed ha

end F3.CertX
