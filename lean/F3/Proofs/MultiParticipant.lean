import F3.Model.MultiParticipant
import F3.Proofs.ParticipantRun
/-!
# The participant across consecutive instances (`mpstep` / `mprun`): queues, isolation, counters

* the per-instance queues: `queueOf (setQueue …)`, `queueAddL` is `PState.queueAdd` on a bare list, keeps one
  message per slot and obeys the look-ahead spam rule; `QueuesOk` is an invariant of every run;
* isolation of `ReceiveMessage`: a message of a finished instance is a no-op, a message of a later (or not yet
  begun) instance only touches that instance's queue;
* `handleDecision` case by case, and the shape of one call as far as `cur` and `decisions` are concerned
  (`mpstep_counter`);
* along runs: `decisions` is append-only (always); without backward `StartInstanceAt` the recorded instance ids are
  strictly increasing and below `cur`, so there is at most one decision per instance; without `StartInstanceAt` at
  all the ids recorded by a run are exactly `cur, cur+1, …, cur'-1`.

The projection of a run to one of its instances is in `F3.Proofs.MultiParticipantProj`.
-/
namespace F3.Instance

/-! ### runs -/

theorem mpfoldl_acc (ops : List MPOp) (s : MState) (pre : List (Nat × Eff)) :
    ops.foldl (fun (acc : MState × List (Nat × Eff)) op =>
      let r := mpstep acc.1 op
      (r.1, acc.2 ++ r.2.map (fun e => (acc.1.cur, e)))) (s, pre) =
      ((mprun s ops).1, pre ++ (mprun s ops).2) := by
  induction ops generalizing s pre with
  | nil => simp [mprun]
  | cons op ops ih =>
    simp only [mprun, List.foldl_cons, List.nil_append]
    rw [ih, ih (mpstep s op).1 ((mpstep s op).2.map _)]
    simp [List.append_assoc]

@[simp] theorem mprun_nil (s : MState) : mprun s [] = (s, []) := rfl

theorem mprun_cons (s : MState) (op : MPOp) (ops : List MPOp) :
    mprun s (op :: ops) =
      ((mprun (mpstep s op).1 ops).1,
       (mpstep s op).2.map (fun e => (s.cur, e)) ++ (mprun (mpstep s op).1 ops).2) := by
  simp only [mprun, List.foldl_cons, List.nil_append]
  exact mpfoldl_acc ops _ _

theorem mprun_append (s : MState) (a b : List MPOp) :
    mprun s (a ++ b) = ((mprun (mprun s a).1 b).1, (mprun s a).2 ++ (mprun (mprun s a).1 b).2) := by
  induction a generalizing s with
  | nil => simp
  | cons op a ih => simp only [List.cons_append, mprun_cons, ih, List.append_assoc]

/-- the participant before anything happened, at instance `c0` (`NewParticipant`: `c0 = 0`) -/
def minit (cfg : Cfg) (c0 : Nat := 0) : MState := { cfg := cfg, cur := c0 }

/-! ### the queues -/

/-- **`queueAddL` is `messageQueue.Add` of the single-instance participant** -/
theorem queueAddL_eq_queueAdd (look : Nat) (p : PState) (m : Msg) (h : look = p.inst.cfg.maxLookahead) :
    queueAddL look p.queue m = (p.queueAdd m).queue := by
  subst h
  unfold queueAddL PState.queueAdd
  split
  · rfl
  · split <;> rfl

theorem queueAddL_mem (look : Nat) (q : List Msg) (m x : Msg) (h : x ∈ queueAddL look q m) : x ∈ q ∨ x = m := by
  unfold queueAddL at h
  split at h
  · exact Or.inl h
  · split at h
    · exact Or.inl h
    · simpa using h

/-- the look-ahead spam rule: an unjustified message beyond the look-ahead is not queued -/
theorem queueAddL_spam (look : Nat) (q : List Msg) (m : Msg) (h : look < m.round) (hs : isSpammable m = true) :
    queueAddL look q m = q := by
  unfold queueAddL
  simp [h, hs]

/-- a slot already taken is not taken twice -/
theorem queueAddL_dup (look : Nat) (q : List Msg) (m x : Msg) (hx : x ∈ q) (hs : sameSlot x m) :
    queueAddL look q m = q := by
  unfold queueAddL
  split
  · rfl
  · rw [if_pos]
    rw [List.any_eq_true]
    exact ⟨x, hx, by simp [hs.1, hs.2.1, hs.2.2]⟩

/-- otherwise the message is appended -/
theorem queueAddL_fresh (look : Nat) (q : List Msg) (m : Msg) (h : ¬ (look < m.round ∧ isSpammable m = true))
    (hs : ∀ x ∈ q, ¬ sameSlot x m) : queueAddL look q m = q ++ [m] := by
  unfold queueAddL
  rw [if_neg (by simpa using h), if_neg]
  rw [List.any_eq_true]
  rintro ⟨x, hx, hh⟩
  simp only [Bool.and_eq_true, beq_iff_eq] at hh
  exact hs x hx ⟨hh.1.1, hh.1.2, hh.2⟩

/-- a well-formed queue: at most one message per (sender, round, phase), no spam beyond the look-ahead -/
def QueueOk (look : Nat) (q : List Msg) : Prop :=
  q.Pairwise (fun a b => ¬ sameSlot a b) ∧ ∀ x ∈ q, ¬ (look < x.round ∧ isSpammable x = true)

theorem queueAddL_ok (look : Nat) (q : List Msg) (m : Msg) (h : QueueOk look q) : QueueOk look (queueAddL look q m) := by
  have he := queueAddL_eq_queueAdd look { inst := { (default : State) with cfg := { (default : Cfg) with maxLookahead := look } }, queue := q } m rfl
  refine ⟨?_, ?_⟩
  · have := queueAdd_slots { inst := { (default : State) with cfg := { (default : Cfg) with maxLookahead := look } }, queue := q } m h.1
    rw [← he] at this
    exact this
  · intro x hx
    by_cases hsp : look < m.round ∧ isSpammable m = true
    · rw [queueAddL_spam look q m hsp.1 hsp.2] at hx
      exact h.2 x hx
    · rcases queueAddL_mem look q m x hx with hx | rfl
      · exact h.2 x hx
      · exact hsp

theorem queueOf_eq (qs : List (Nat × List Msg)) (k : Nat) :
    queueOf qs k = ((qs.find? (·.1 == k)).map (·.2)).getD [] := by
  unfold queueOf
  cases qs.find? (·.1 == k) <;> rfl

theorem find_map_repl (qs : List (Nat × List Msg)) (k j : Nat) (q : List Msg) :
    (qs.map (fun e => if e.1 == k then (k, q) else e)).find? (·.1 == j) =
      if j = k then (qs.find? (·.1 == k)).map (fun _ => (k, q)) else qs.find? (·.1 == j) := by
  induction qs with
  | nil => simp
  | cons e es ih =>
    simp only [List.map_cons, List.find?_cons]
    by_cases hek : e.1 = k
    · by_cases hjk : j = k
      · subst hjk; simp [hek]
      · have h1 : (k == j) = false := by simpa using fun h => hjk h.symm
        have h2 : (e.1 == j) = false := by simpa [hek] using fun h => hjk h.symm
        simp only [hek, beq_self_eq_true, if_true, h1, ih, if_neg hjk]
    · have hek' : (e.1 == k) = false := by simpa using hek
      simp only [hek', Bool.false_eq_true, if_false, ih]
      by_cases hjk : j = k
      · subst hjk; simp only [hek', if_true]
      · simp only [if_neg hjk]

/-- **the queues form a map**: `setQueue` replaces the queue of one instance and no other -/
theorem queueOf_setQueue (qs : List (Nat × List Msg)) (k j : Nat) (q : List Msg) :
    queueOf (setQueue qs k q) j = if j = k then q else queueOf qs j := by
  rw [queueOf_eq, queueOf_eq]
  by_cases hany : (qs.any (·.1 == k)) = true
  · simp only [setQueue, hany, if_true]
    rw [find_map_repl]
    by_cases hjk : j = k
    · subst hjk
      simp only [if_true]
      rw [List.any_eq_true] at hany
      obtain ⟨e, he, hek⟩ := hany
      cases hf : qs.find? (·.1 == j) with
      | none => exact absurd hek (by simpa using (List.find?_eq_none.1 hf) e he)
      | some e' => rfl
    · simp only [if_neg hjk]
  · simp only [setQueue, hany, Bool.false_eq_true, if_false]
    rw [List.find?_append]
    by_cases hjk : j = k
    · subst hjk
      have : qs.find? (·.1 == j) = none := by
        rw [List.find?_eq_none]
        intro e he hek
        exact hany (List.any_eq_true.2 ⟨e, he, hek⟩)
      simp [this]
    · simp only [if_neg hjk]
      cases hf : qs.find? (·.1 == j) with
      | some e' => rfl
      | none =>
        have : (k == j) = false := by simpa using fun h => hjk h.symm
        simp [this]

theorem find_filter_key (qs : List (Nat × List Msg)) (k : Nat) (f : Nat → Bool) :
    (qs.filter (fun e => f e.1)).find? (·.1 == k) = if f k then qs.find? (·.1 == k) else none := by
  induction qs with
  | nil => simp
  | cons e es ih =>
    by_cases hek : e.1 = k
    · cases hfk : f k with
      | true => simp [hek, hfk]
      | false =>
        rw [hfk] at ih
        simp only [List.filter_cons, hek, hfk, Bool.false_eq_true, if_false]
        exact ih
    · have hek' : (e.1 == k) = false := by simpa using hek
      by_cases hfe : f e.1 = true
      · simp only [List.filter_cons, hfe, if_true, List.find?_cons, hek', ih]
      · simp only [List.filter_cons, hfe, Bool.false_eq_true, if_false, ih, List.find?_cons, hek']

/-- dropping queues of other instances does not touch the queue of `k` -/
theorem queueOf_filter (qs : List (Nat × List Msg)) (k : Nat) (f : Nat → Bool) (hk : f k = true) :
    queueOf (qs.filter (fun e => f e.1)) k = queueOf qs k := by
  rw [queueOf_eq, queueOf_eq, find_filter_key, hk]; rfl

/-- … and empties the queues of the dropped instances -/
theorem queueOf_filter_drop (qs : List (Nat × List Msg)) (k : Nat) (f : Nat → Bool) (hk : f k = false) :
    queueOf (qs.filter (fun e => f e.1)) k = [] := by
  rw [queueOf_eq, find_filter_key, hk]; rfl

/-! ### `handleDecision` -/

theorem handleDecision_none (s : MState) (h : s.active = none) : s.handleDecision = s := by
  unfold MState.handleDecision; rw [h]

theorem handleDecision_running (s : MState) (p : PState) (h : s.active = some p) (ht : p.inst.termination = none) :
    s.handleDecision = s := by
  unfold MState.handleDecision; rw [h]; simp only [ht]

theorem handleDecision_decided (s : MState) (p : PState) (d : Just) (h : s.active = some p)
    (ht : p.inst.termination = some d) :
    s.handleDecision =
      { s with cur := s.cur + 1, active := none, decisions := s.decisions ++ [(s.cur, d)],
               queues := s.queues.filter (fun e => decide (s.cur + 1 ≤ e.1)) } := by
  unfold MState.handleDecision MState.beginNext; rw [h]; simp only [ht]

/-- `handleDecision`: nothing, or the decision of the running instance is recorded for the current instance and
the participant moves to the next one -/
theorem handleDecision_cases (s : MState) :
    (s.handleDecision = s ∧ ∀ p, s.active = some p → p.inst.termination = none) ∨
    ∃ p d, s.active = some p ∧ p.inst.termination = some d ∧
      s.handleDecision =
        { s with cur := s.cur + 1, active := none, decisions := s.decisions ++ [(s.cur, d)],
                 queues := s.queues.filter (fun e => decide (s.cur + 1 ≤ e.1)) } := by
  cases ha : s.active with
  | none => exact Or.inl ⟨handleDecision_none s ha, fun p hp => by cases hp⟩
  | some p =>
    cases ht : p.inst.termination with
    | none => exact Or.inl ⟨handleDecision_running s p ha ht, fun p' hp' => by cases hp'; exact ht⟩
    | some d => exact Or.inr ⟨p, d, rfl, ht, handleDecision_decided s p d ha ht⟩

/-! ### isolation of `ReceiveMessage` -/

/-- **A message of a finished instance changes nothing and has no effects.** -/
theorem recv_finished (s : MState) (now : Int) (m : IMsg) (h : m.inst < s.cur) : mpstep s (.recv now m) = (s, []) := by
  simp [mpstep, h]

/-- the message is for a later instance, or for the current one which has not begun -/
def IMsg.queuedAt (m : IMsg) (s : MState) : Prop := s.cur < m.inst ∨ (m.inst = s.cur ∧ s.active = none)

theorem recv_queued_eq (s : MState) (now : Int) (m : IMsg) (h : m.queuedAt s) :
    mpstep s (.recv now m) =
      ({ s with queues := setQueue s.queues m.inst (queueAddL s.cfg.maxLookahead (queueOf s.queues m.inst) m.msg) }, []) := by
  have hnlt : ¬ m.inst < s.cur := by rcases h with h | h <;> omega
  simp only [mpstep, hnlt, if_false]
  cases ha : s.active with
  | none => rfl
  | some p =>
    rcases h with h | h
    · have : (m.inst == s.cur) = false := by simpa using (by omega : m.inst ≠ s.cur)
      simp [this]
    · rw [ha] at h; cases h.2

/-- **A message of a later instance (or of the current one before it has begun) only changes that instance's
queue**: no effects; `cur`, `active`, `decisions`, the configuration and every other queue are untouched; the queue
of its instance receives the message by `messageQueue.Add`. -/
theorem recv_queued (s : MState) (now : Int) (m : IMsg) (h : m.queuedAt s) :
    (mpstep s (.recv now m)).2 = [] ∧
    (mpstep s (.recv now m)).1.cur = s.cur ∧ (mpstep s (.recv now m)).1.active = s.active ∧
    (mpstep s (.recv now m)).1.decisions = s.decisions ∧ (mpstep s (.recv now m)).1.cfg = s.cfg ∧
    (∀ j, j ≠ m.inst → queueOf (mpstep s (.recv now m)).1.queues j = queueOf s.queues j) ∧
    queueOf (mpstep s (.recv now m)).1.queues m.inst =
      queueAddL s.cfg.maxLookahead (queueOf s.queues m.inst) m.msg := by
  rw [recv_queued_eq s now m h]
  refine ⟨rfl, rfl, rfl, rfl, rfl, ?_, ?_⟩
  · intro j hj
    simp only [queueOf_setQueue, if_neg hj]
  · simp only [queueOf_setQueue, if_true]

/-- every queue is well formed -/
def QueuesOk (s : MState) : Prop := ∀ k, QueueOk s.cfg.maxLookahead (queueOf s.queues k)

theorem queueOk_nil (look : Nat) : QueueOk look [] := ⟨List.Pairwise.nil, fun _ h => by cases h⟩

theorem queueOf_filter_ok (look : Nat) (qs : List (Nat × List Msg)) (f : Nat → Bool)
    (h : ∀ k, QueueOk look (queueOf qs k)) : ∀ k, QueueOk look (queueOf (qs.filter (fun e => f e.1)) k) := by
  intro k
  cases hk : f k with
  | true => rw [queueOf_filter qs k f hk]; exact h k
  | false => rw [queueOf_filter_drop qs k f hk]; exact queueOk_nil look

theorem handleDecision_cfg (s : MState) : s.handleDecision.cfg = s.cfg := by
  rcases handleDecision_cases s with ⟨h, _⟩ | ⟨p, d, _, _, h⟩ <;> rw [h]

theorem handleDecision_queuesOk (s : MState) (h : QueuesOk s) : QueuesOk s.handleDecision := by
  rcases handleDecision_cases s with ⟨he, _⟩ | ⟨p, d, _, _, he⟩
  · rw [he]; exact h
  · rw [he]
    exact queueOf_filter_ok _ s.queues (fun i => decide (s.cur + 1 ≤ i)) h

theorem mpstep_cfg (s : MState) (op : MPOp) : (mpstep s op).1.cfg = s.cfg := by
  cases op with
  | recv now m =>
    simp only [mpstep]
    split
    · rfl
    · split
      · split
        · exact handleDecision_cfg _
        · rfl
      · rfl
  | alarm now tbl input order =>
    simp only [mpstep]
    split <;> exact handleDecision_cfg _
  | startAt k => rfl

/-- **Every queue of every reachable state keeps at most one message per (sender, round, phase) and no
unjustified message beyond the look-ahead** — whatever the calls, `StartInstanceAt` included. -/
theorem mpstep_queuesOk (s : MState) (op : MPOp) (h : QueuesOk s) : QueuesOk (mpstep s op).1 := by
  have hset : ∀ (m : IMsg), QueuesOk { s with queues :=
      (setQueue s.queues m.inst (queueAddL s.cfg.maxLookahead (queueOf s.queues m.inst) m.msg)) } := by
    intro m k
    show QueueOk s.cfg.maxLookahead (queueOf (setQueue _ _ _) k)
    rw [queueOf_setQueue]
    split
    · exact queueAddL_ok _ _ _ (h m.inst)
    · exact h k
  cases op with
  | recv now m =>
    simp only [mpstep]
    split
    · exact h
    · split
      · split
        · exact handleDecision_queuesOk _ h
        · exact hset m
      · exact hset m
  | alarm now tbl input order =>
    simp only [mpstep]
    split
    · apply handleDecision_queuesOk
      exact queueOf_filter_ok _ s.queues (fun i => i != s.cur) h
    · exact handleDecision_queuesOk _ h
  | startAt k =>
    exact queueOf_filter_ok _ s.queues (fun i => decide (k ≤ i)) h

theorem mprun_cfg (s : MState) (ops : List MPOp) : (mprun s ops).1.cfg = s.cfg := by
  induction ops generalizing s with
  | nil => rfl
  | cons op ops ih => rw [mprun_cons]; exact (ih _).trans (mpstep_cfg s op)

theorem mprun_queuesOk (s : MState) (ops : List MPOp) (h : QueuesOk s) : QueuesOk (mprun s ops).1 := by
  induction ops generalizing s with
  | nil => exact h
  | cons op ops ih => rw [mprun_cons]; exact ih _ (mpstep_queuesOk s op h)

theorem minit_queuesOk (cfg : Cfg) (c0 : Nat) : QueuesOk (minit cfg c0) := fun _ => queueOk_nil _

/-! ### the instance counter and the decisions -/

def MPOp.isStartAt : MPOp → Bool
  | .startAt _ => true
  | _ => false

/-- no `StartInstanceAt` among the calls -/
def noStartAt (ops : List MPOp) : Bool := ops.all (fun op => !op.isStartAt)

/-- `StartInstanceAt k` does not go backwards: `cur ≤ k` -/
def noBackOp (s : MState) : MPOp → Bool
  | .startAt k => decide (s.cur ≤ k)
  | _ => true

/-- `StartInstanceAt k` only skips ahead: `cur < k`, or `k = cur` while no instance is running (which changes
nothing); in particular it never restarts the running instance -/
def fwdOp (s : MState) : MPOp → Bool
  | .startAt k => decide (s.cur < k) || (k == s.cur && s.active.isNone)
  | _ => true

/-- no call of the run moves the instance counter backwards -/
def noBackward : MState → List MPOp → Bool
  | _, [] => true
  | s, op :: ops => noBackOp s op && noBackward (mpstep s op).1 ops

/-- every `StartInstanceAt` of the run skips ahead -/
def forwardOnly : MState → List MPOp → Bool
  | _, [] => true
  | s, op :: ops => fwdOp s op && forwardOnly (mpstep s op).1 ops

theorem fwdOp_noBackOp (s : MState) (op : MPOp) (h : fwdOp s op = true) : noBackOp s op = true := by
  cases op with
  | startAt k =>
    simp only [fwdOp, Bool.or_eq_true, decide_eq_true_eq, Bool.and_eq_true, beq_iff_eq] at h
    simp only [noBackOp, decide_eq_true_eq]
    omega
  | _ => rfl

theorem forwardOnly_noBackward (s : MState) (ops : List MPOp) (h : forwardOnly s ops = true) :
    noBackward s ops = true := by
  induction ops generalizing s with
  | nil => rfl
  | cons op ops ih =>
    simp only [forwardOnly, Bool.and_eq_true] at h
    simp only [noBackward, Bool.and_eq_true]
    exact ⟨fwdOp_noBackOp s op h.1, ih _ h.2⟩

theorem noStartAt_fwdOp (s : MState) (op : MPOp) (h : op.isStartAt = false) : fwdOp s op = true := by
  cases op with
  | startAt k => cases h
  | _ => rfl

theorem noStartAt_forwardOnly (s : MState) (ops : List MPOp) (h : noStartAt ops = true) : forwardOnly s ops = true := by
  induction ops generalizing s with
  | nil => rfl
  | cons op ops ih =>
    simp only [noStartAt, List.all_cons, Bool.and_eq_true, Bool.not_eq_true'] at h
    simp only [forwardOnly, Bool.and_eq_true]
    exact ⟨noStartAt_fwdOp s op h.1, ih _ (by simpa [noStartAt] using h.2)⟩

/-- the counter and the decisions after one call: unchanged, or one decision for the current instance recorded and
the counter incremented -/
def Counted (s s' : MState) : Prop :=
  (s'.cur = s.cur ∧ s'.decisions = s.decisions) ∨
  ∃ d, s'.cur = s.cur + 1 ∧ s'.decisions = s.decisions ++ [(s.cur, d)] ∧ s'.active = none

theorem handleDecision_counted (s s1 : MState) (hc : s1.cur = s.cur) (hd : s1.decisions = s.decisions) :
    Counted s s1.handleDecision := by
  rcases handleDecision_cases s1 with ⟨he, _⟩ | ⟨p, d, _, _, he⟩
  · rw [he]; exact Or.inl ⟨hc, hd⟩
  · rw [he]; exact Or.inr ⟨d, by simp [hc], by simp [hc, hd], rfl⟩

/-- **One call other than `StartInstanceAt`: `cur` increases by exactly one exactly when a decision (for the
instance that was current) is appended; otherwise both are unchanged.** -/
theorem mpstep_counter (s : MState) (op : MPOp) (h : op.isStartAt = false) : Counted s (mpstep s op).1 := by
  cases op with
  | recv now m =>
    simp only [mpstep]
    split
    · exact Or.inl ⟨rfl, rfl⟩
    · split
      · split
        · exact handleDecision_counted s _ rfl rfl
        · exact Or.inl ⟨rfl, rfl⟩
      · exact Or.inl ⟨rfl, rfl⟩
  | alarm now tbl input order =>
    simp only [mpstep]
    split <;> exact handleDecision_counted s _ rfl rfl
  | startAt k => cases h

/-- `StartInstanceAt k`: the counter becomes `k`, the running instance and the queues below `k` are dropped, nothing
is recorded -/
theorem mpstep_startAt (s : MState) (k : Nat) :
    (mpstep s (.startAt k)).1.cur = k ∧ (mpstep s (.startAt k)).1.active = none ∧
    (mpstep s (.startAt k)).1.decisions = s.decisions ∧ (mpstep s (.startAt k)).2 = [] ∧
    (∀ j, k ≤ j → queueOf (mpstep s (.startAt k)).1.queues j = queueOf s.queues j) ∧
    (∀ j, j < k → queueOf (mpstep s (.startAt k)).1.queues j = []) := by
  refine ⟨rfl, rfl, rfl, rfl, ?_, ?_⟩
  · intro j hj
    exact queueOf_filter s.queues j (fun i => decide (k ≤ i)) (by simpa using hj)
  · intro j hj
    exact queueOf_filter_drop s.queues j (fun i => decide (k ≤ i)) (by simpa using hj)

/-- any call: decisions are only ever appended -/
theorem mpstep_decisions_prefix (s : MState) (op : MPOp) : s.decisions <+: (mpstep s op).1.decisions := by
  cases hop : op.isStartAt with
  | true =>
    cases op with
    | startAt k => exact List.prefix_refl _
    | recv _ _ => cases hop
    | alarm _ _ _ _ => cases hop
  | false =>
    rcases mpstep_counter s op hop with ⟨_, h⟩ | ⟨d, _, h, _⟩
    · rw [h]; exact List.prefix_refl _
    · rw [h]; exact List.prefix_append _ _

/-- **`decisions` is append-only**, whatever the calls (`StartInstanceAt` in any direction included) -/
theorem mprun_decisions_prefix (s : MState) (ops : List MPOp) : s.decisions <+: (mprun s ops).1.decisions := by
  induction ops generalizing s with
  | nil => exact List.prefix_refl _
  | cons op ops ih => rw [mprun_cons]; exact (mpstep_decisions_prefix s op).trans (ih _)

/-- the recorded instance ids are strictly increasing and all below the current instance -/
def DecSorted (s : MState) : Prop :=
  (s.decisions.map (·.1)).Pairwise (· < ·) ∧ ∀ e ∈ s.decisions, e.1 < s.cur

theorem decSorted_append (s s' : MState) (d : Just) (h : DecSorted s) (hc : s'.cur = s.cur + 1)
    (hd : s'.decisions = s.decisions ++ [(s.cur, d)]) : DecSorted s' := by
  refine ⟨?_, ?_⟩
  · rw [hd, List.map_append, List.pairwise_append]
    refine ⟨h.1, by simp, ?_⟩
    intro a ha b hb
    simp only [List.map_cons, List.map_nil, List.mem_singleton] at hb
    subst hb
    obtain ⟨e, he, rfl⟩ := List.mem_map.1 ha
    exact h.2 e he
  · intro e he
    rw [hd] at he
    rcases List.mem_append.1 he with he | he
    · have := h.2 e he; omega
    · simp only [List.mem_singleton] at he
      subst he; simp [hc]

theorem mpstep_decSorted (s : MState) (op : MPOp) (h : DecSorted s) (hnb : noBackOp s op = true) :
    DecSorted (mpstep s op).1 ∧ s.cur ≤ (mpstep s op).1.cur := by
  cases hop : op.isStartAt with
  | true =>
    cases op with
    | startAt k =>
      simp only [noBackOp, decide_eq_true_eq] at hnb
      refine ⟨⟨h.1, fun e he => ?_⟩, hnb⟩
      have := h.2 e he
      show e.1 < k
      omega
    | recv _ _ => cases hop
    | alarm _ _ _ _ => cases hop
  | false =>
    rcases mpstep_counter s op hop with ⟨hc, hd⟩ | ⟨d, hc, hd, _⟩
    · refine ⟨⟨by rw [hd]; exact h.1, fun e he => ?_⟩, by omega⟩
      rw [hd] at he; rw [hc]; exact h.2 e he
    · exact ⟨decSorted_append s _ d h hc hd, by omega⟩

/-- **Without backward `StartInstanceAt`: `cur` never decreases, the recorded instance ids stay strictly increasing
and below `cur`.** -/
theorem mprun_decSorted (s : MState) (ops : List MPOp) (h : DecSorted s) (hnb : noBackward s ops = true) :
    DecSorted (mprun s ops).1 ∧ s.cur ≤ (mprun s ops).1.cur := by
  induction ops generalizing s with
  | nil => exact ⟨h, Nat.le_refl _⟩
  | cons op ops ih =>
    simp only [noBackward, Bool.and_eq_true] at hnb
    rw [mprun_cons]
    have h1 := mpstep_decSorted s op h hnb.1
    have h2 := ih _ h1.1 hnb.2
    exact ⟨h2.1, Nat.le_trans h1.2 h2.2⟩

theorem minit_decSorted (cfg : Cfg) (c0 : Nat) : DecSorted (minit cfg c0) :=
  ⟨List.Pairwise.nil, fun _ h => by cases h⟩

theorem pairwise_key_unique (l : List (Nat × Just)) (h : (l.map (·.1)).Pairwise (· < ·)) (k : Nat) (d d' : Just)
    (hd : (k, d) ∈ l) (hd' : (k, d') ∈ l) : d = d' := by
  induction l with
  | nil => cases hd
  | cons e es ih =>
    rw [List.map_cons, List.pairwise_cons] at h
    have hlt : ∀ x, (k, x) ∈ es → e.1 < k := fun x hx => h.1 k (List.mem_map.2 ⟨(k, x), hx, rfl⟩)
    rcases List.mem_cons.1 hd with h1 | h1
    · rcases List.mem_cons.1 hd' with h2 | h2
      · rw [← h2] at h1; cases h1; rfl
      · subst h1; exact absurd (hlt d' h2) (Nat.lt_irrefl _)
    · rcases List.mem_cons.1 hd' with h2 | h2
      · subst h2; exact absurd (hlt d h1) (Nat.lt_irrefl _)
      · exact ih h.2 h1 h2

/-- strictly increasing ids: at most one decision per instance -/
theorem decSorted_unique (s : MState) (h : DecSorted s) (k : Nat) (d d' : Just)
    (hd : (k, d) ∈ s.decisions) (hd' : (k, d') ∈ s.decisions) : d = d' :=
  pairwise_key_unique s.decisions h.1 k d d' hd hd'

/-- **Without `StartInstanceAt`: the ids recorded by a run are exactly `cur, cur+1, …, cur' - 1`** — one decision
per increment of the counter, in order. -/
theorem mprun_counter (s : MState) (ops : List MPOp) (h : noStartAt ops = true) :
    s.cur ≤ (mprun s ops).1.cur ∧
    ∃ ds : List (Nat × Just), (mprun s ops).1.decisions = s.decisions ++ ds ∧
      ds.map (·.1) = List.range' s.cur ((mprun s ops).1.cur - s.cur) := by
  induction ops generalizing s with
  | nil => exact ⟨Nat.le_refl _, [], by simp, by simp⟩
  | cons op ops ih =>
    simp only [noStartAt, List.all_cons, Bool.and_eq_true, Bool.not_eq_true'] at h
    rw [mprun_cons]
    dsimp only
    obtain ⟨hle, ds, hds, hids⟩ := ih (mpstep s op).1 (by simpa [noStartAt] using h.2)
    rcases mpstep_counter s op h.1 with ⟨hc, hd⟩ | ⟨d, hc, hd, _⟩
    · rw [hc] at hle hids; rw [hd] at hds
      exact ⟨hle, ds, hds, hids⟩
    · rw [hc] at hle hids; rw [hd] at hds
      refine ⟨by omega, (s.cur, d) :: ds, by simpa using hds, ?_⟩
      simp only [List.map_cons, hids]
      have : (mprun (mpstep s op).1 ops).1.cur - s.cur = ((mprun (mpstep s op).1 ops).1.cur - (s.cur + 1)) + 1 := by omega
      rw [this, List.range'_succ]

end F3.Instance
