import F3.Proofs.NoFailureBridge
import F3.Proofs.OwnBase
/-!
# AUDIT2 M4 — honest committee members that never begin the instance

`F3.Bridge.ValidRun` runs `.start start :: ops`, and `NetworkV.runs` demands one for *every* honest member of the
committee: a member that never begins the instance (crash-silent, lagging) could only be modelled as Byzantine,
eating the < 1/3 budget. `ValidRun'` allows the op list of an honest member to be **empty** (it never called
`Start`; `Participant` hands nothing to an instance that does not exist) or `Start` followed by alarms and
deliveries. A member with `ops = []` broadcasts nothing — so by `own` it has no vote in `W` — and terminates
nowhere; every lemma lifts by cases (`ValidRun'.toHonest`).
-/
namespace F3.Audit2
open F3 F3.Instance F3.Bridge

/-- the op list of an honest member: nothing at all, or its one `Start` followed by alarms and deliveries -/
def StartedOnce (ops : List Op) : Prop :=
  ops = [] ∨ ∃ now rest, ops = .start now :: rest ∧ ∀ op ∈ rest, op.isStart = false

/-- one honest committee member's execution of the instance model, possibly empty; no assumption on errors -/
structure ValidRun' (W : Votes) (t : Table) (p : Pid) where
  cfg : Cfg
  input : Chain
  /-- all calls on the instance, `Start` included -/
  ops : List Op
  inputNe : input ≠ []
  /-- the member never began the instance, or called `Start` once, first -/
  shape : StartedOnce ops
  /-- every delivered message of this instance passed validation (C05) -/
  valid : ∀ op ∈ ops, foreign op = true ∨ OpValidG W t op
  /-- unforgeability: the votes of `p` in existence are exactly those it broadcast (none if it never started) -/
  own : ∀ r ph v, W p r ph v ↔ ∃ tk j, Eff.broadcast r ph v tk j ∈ (run (init cfg t input) ops).2

variable {W : Votes} {t : Table} {p : Pid}

/-- the member never began the instance -/
def ValidRun'.quiet (vr : ValidRun' W t p) : Prop := vr.ops = []

theorem ValidRun'.okRun (vr : ValidRun' W t p) (hT : 0 < t.total) : okRun (init vr.cfg t vr.input) vr.ops = true := by
  rcases vr.shape with h | ⟨now, rest, h, hns⟩
  · rw [h]; rfl
  · rw [h]
    exact okRun_of_valid vr.cfg t vr.input W now rest vr.inputNe hT hns
      (fun op hop => vr.valid op (by rw [h]; exact List.mem_cons_of_mem _ hop))

def ValidRun'.toHonest (vr : ValidRun' W t p) (hT : 0 < t.total) : HonestRun W t p where
  cfg := vr.cfg
  input := vr.input
  ops := vr.ops
  inputNe := vr.inputNe
  valid := vr.valid
  ok := vr.okRun hT
  own := vr.own

/-- a `ValidRun` is a started `ValidRun'` -/
def ofValidRun (vr : ValidRun W t p) : ValidRun' W t p where
  cfg := vr.cfg
  input := vr.input
  ops := .start vr.start :: vr.ops
  inputNe := vr.inputNe
  shape := Or.inr ⟨vr.start, vr.ops, rfl, vr.noRestart⟩
  valid := by
    intro op hop
    rcases List.mem_cons.1 hop with rfl | hop
    · exact Or.inr trivial
    · exact vr.valid op hop
  own := vr.own

/-- the run of a member that never begins the instance; the only requirement is that it has no vote in `W` -/
def quietRun (W : Votes) (t : Table) (p : Pid) (cfg : Cfg) (input : Chain) (hin : input ≠ [])
    (hW : ∀ r ph v, ¬ W p r ph v) : ValidRun' W t p where
  cfg := cfg
  input := input
  ops := []
  inputNe := hin
  shape := Or.inl rfl
  valid := by intro op hop; cases hop
  own := by
    intro r ph v
    constructor
    · intro h; exact absurd h (hW r ph v)
    · rintro ⟨tk, j, h⟩; cases h

/-- a quiet member has no vote in existence … -/
theorem ValidRun'.quiet_no_votes (vr : ValidRun' W t p) (hq : vr.quiet) : ∀ r ph v, ¬ W p r ph v := by
  intro r ph v hw
  obtain ⟨tk, j, h⟩ := (vr.own r ph v).1 hw
  rw [show vr.ops = [] from hq] at h
  cases h

/-- … and reports no decision -/
theorem ValidRun'.quiet_no_decision (vr : ValidRun' W t p) (hq : vr.quiet) :
    (run (init vr.cfg t vr.input) vr.ops).1.termination = none := by
  rw [show vr.ops = [] from hq]; rfl

/-- a member that broadcast something, or decided, did begin the instance -/
theorem ValidRun'.started_of_decision (vr : ValidRun' W t p) (d : Just)
    (hd : (run (init vr.cfg t vr.input) vr.ops).1.termination = some d) : ¬ vr.quiet := by
  intro hq
  rw [vr.quiet_no_decision hq] at hd
  cases hd

/-- the standing assumptions about one instance; honest members may be quiet -/
structure NetworkV' (t : Table) (F : Finset Pid) (W : Votes) where
  idsNodup : (ids t).Nodup
  totalPos : 0 < t.total
  /-- Byzantine members hold less than a third of the scaled power; quiet honest members are **not** counted -/
  faultBound : 3 * (world t F W).power F < (world t F W).T
  nonMembers : ∀ p, p ∉ (ids t).toFinset → ∀ r ph v, ¬ W p r ph v
  runs : ∀ p, p ∈ (ids t).toFinset → p ∉ F → ValidRun' W t p

variable {F : Finset Pid}

def NetworkV'.toNetwork (N : NetworkV' t F W) : Network t F W where
  idsNodup := N.idsNodup
  totalPos := N.totalPos
  faultBound := N.faultBound
  nonMembers := N.nonMembers
  runs := fun p hp hF => (N.runs p hp hF).toHonest N.totalPos

def ofNetworkV (N : NetworkV t F W) : NetworkV' t F W where
  idsNodup := N.idsNodup
  totalPos := N.totalPos
  faultBound := N.faultBound
  nonMembers := N.nonMembers
  runs := fun p hp hF => ofValidRun (N.runs p hp hF)

theorem NetworkV'.rules (N : NetworkV' t F W) : (world t F W).Rules := N.toNetwork.rules

/-- **Agreement with quiet honest members.** -/
theorem model_agreement_quiet (N : NetworkV' t F W)
    (p q : Pid) (hp : p ∈ (ids t).toFinset) (hpF : p ∉ F) (hq : q ∈ (ids t).toFinset) (hqF : q ∉ F) (dp dq : Just)
    (hdp : (run (init (N.runs p hp hpF).cfg t (N.runs p hp hpF).input) (N.runs p hp hpF).ops).1.termination = some dp)
    (hdq : (run (init (N.runs q hq hqF).cfg t (N.runs q hq hqF).input) (N.runs q hq hqF).ops).1.termination = some dq) :
    dp.value = dq.value :=
  model_agreement N.toNetwork p q hp hpF hq hqF dp dq hdp hdq

/-- **Validity with quiet honest members**: the decision is not bottom, starts at the decider's own base, and is a
prefix of the input chain of an honest member **that began the instance** (a quiet member's would-be input supports
nothing). -/
theorem model_validity_quiet (N : NetworkV' t F W)
    (p : Pid) (hp : p ∈ (ids t).toFinset) (hpF : p ∉ F) (d : Just)
    (hd : (run (init (N.runs p hp hpF).cfg t (N.runs p hp hpF).input) (N.runs p hp hpF).ops).1.termination = some d) :
    d.value ≠ [] ∧ d.value.head? = (N.runs p hp hpF).input.head? ∧
    ∃ h, ∃ hh : h ∈ (ids t).toFinset, ∃ hF : h ∉ F, ¬ (N.runs h hh hF).quiet ∧ d.value <+: (N.runs h hh hF).input := by
  have hQ := (N.toNetwork.runs p hp hpF).decision_Q F N.idsNodup d hd
  have key := F3.Granite.World.decided_good N.rules
    (fun x => ∃ h, ∃ hh : h ∈ (ids t).toFinset, ∃ hF : h ∉ F,
      ¬ (N.runs h hh hF).quiet ∧ x <+: (N.runs h hh hF).input) ?_ hQ
  · refine ⟨key.1, ?_, key.2⟩
    rcases decision_on_own_base _ t _ _ d hd with h0 | h1
    · exact absurd h0 key.1
    · exact h1
  · intro h hhF r x hx
    by_cases hc : h ∈ (ids t).toFinset
    · obtain ⟨tk, j, hm⟩ := ((N.runs h hc hhF).own r .prepare x).1 hx
      have hg := (N.toNetwork.runs h hc hhF).guarded N.totalPos r .prepare x tk j hm
      rcases hg.2.2 with hpre | ⟨r', hlt, hq⟩
      · refine Or.inl ⟨h, hc, hhF, ?_, hpre⟩
        intro hquiet
        exact (N.runs h hc hhF).quiet_no_votes hquiet r .prepare x hx
      · exact Or.inr ⟨r', hlt, ql_to_Q t F W N.idsNodup r' .prepare x hq⟩
    · exact absurd hx (N.nonMembers h hc _ _ _)

/-! ### a concrete network with a quiet honest member

Four members of equal power (a strong quorum is any three). Members 1 and 2 are honest and run the instance;
member 3 is honest and **never begins it**; member 4 is Byzantine: it sends QUALITY for `[7,8,9]` to members 1 and
2 while a QUALITY of its for `[7,8]` and a COMMIT for bottom also exist, and otherwise votes for `[7,8]`. With
`NetworkV` member 3 would have to be declared faulty and the fault bound (`3·2 < 4`) would fail. -/
section Example

def qJp : Just := { round := 0, phase := .prepare, value := [7,8], signers := [0,1,3] }
def qJc : Just := { round := 0, phase := .commit, value := [7,8], signers := [0,1,3] }
def qVotes : List Vote :=
  [(1,0,.quality,[7,8]), (1,0,.prepare,[7,8]), (1,0,.commit,[7,8]), (1,0,.decide,[7,8]),
   (2,0,.quality,[7,8]), (2,0,.prepare,[7,8]), (2,0,.commit,[7,8]), (2,0,.decide,[7,8]),
   (4,0,.quality,[7,8,9]), (4,0,.quality,[7,8]), (4,0,.prepare,[7,8]), (4,0,.commit,[7,8]), (4,0,.commit,[]),
   (4,0,.decide,[7,8])]
def qOps : List Op :=
  [.start 0,
   .recv 1 { sender := 1, round := 0, phase := .quality, value := [7,8] },
   .recv 2 { sender := 4, round := 0, phase := .quality, value := [7,8,9] },
   .recv 3 { sender := 2, round := 0, phase := .quality, value := [7,8] },
   .recv 5 { sender := 4, round := 0, phase := .prepare, value := [9,9], suppOk := false },
   .recv 12 { sender := 4, round := 0, phase := .prepare, value := [7,8] },
   .recv 13 { sender := 1, round := 0, phase := .prepare, value := [7,8] },
   .recv 14 { sender := 2, round := 0, phase := .prepare, value := [7,8] },
   .recv 16 { sender := 1, round := 0, phase := .commit, value := [7,8], just := some qJp },
   .recv 17 { sender := 2, round := 0, phase := .commit, value := [7,8], just := some qJp },
   .recv 18 { sender := 4, round := 0, phase := .commit, value := [7,8], just := some qJp },
   .recv 19 { sender := 1, round := 0, phase := .decide, value := [7,8], just := some qJc },
   .recv 20 { sender := 2, round := 0, phase := .decide, value := [7,8], just := some qJc },
   .recv 21 { sender := 4, round := 0, phase := .decide, value := [7,8], just := some qJc }]

abbrev qW : Votes := Wof qVotes

/-- members 1 and 2 -/
def qRun (p : Pid) (hp : p = 1 ∨ p = 2) : ValidRun' qW exTbl p where
  cfg := exCfg
  input := [7, 8]
  ops := qOps
  inputNe := by decide
  shape := Or.inr ⟨0, qOps.tail, rfl, by
    have : qOps.tail.all (fun op => !op.isStart) = true := by decide
    intro op hop
    simpa using List.all_eq_true.1 this op hop⟩
  valid := opValidB_sound qVotes exTbl qOps (by decide)
  own := by
    intro r ph v
    show Wof qVotes p r ph v ↔ _
    rw [bc_iff_triple, votesOf_iff]
    have : votesOf qVotes p = (run (init exCfg exTbl [7, 8]) qOps).2.filterMap bcTriple := by
      rcases hp with rfl | rfl <;> decide
    rw [this]

/-- member 3 never begins the instance -/
def qRun3 : ValidRun' qW exTbl 3 :=
  quietRun qW exTbl 3 exCfg [7, 8] (by decide) (by
    intro r ph v hw
    have hm : ∀ e ∈ qVotes, e.1 ≠ 3 := by decide
    exact hm _ hw rfl)

def qNet : NetworkV' exTbl exF qW where
  idsNodup := by decide
  totalPos := by decide
  faultBound := by
    rw [total_eq exTbl exF qW (by decide)]
    show 3 * (∑ p ∈ ({4} : Finset Pid), exTbl.power p) < exTbl.total
    rw [Finset.sum_singleton]
    decide
  nonMembers := by
    intro p hp r ph v hw
    rw [ex_ids] at hp
    have hm : ∀ e ∈ qVotes, e.1 = 1 ∨ e.1 = 2 ∨ e.1 = 3 ∨ e.1 = 4 := by decide
    have := hm _ hw
    simp only [Finset.mem_insert, Finset.mem_singleton] at hp
    exact hp this
  runs := fun p hp hF =>
    if h1 : p = 1 then qRun p (Or.inl h1)
    else if h2 : p = 2 then qRun p (Or.inr h2)
    else if h3 : p = 3 then h3 ▸ qRun3
    else absurd (by
      rw [ex_ids] at hp
      simp only [Finset.mem_insert, Finset.mem_singleton, exF] at hp hF
      rcases hp with h | h | h | h
      · exact absurd h h1
      · exact absurd h h2
      · exact absurd h h3
      · exact h) (by simpa [exF] using hF)

theorem qNet_facts :
    (qNet.runs 3 (by decide) (by decide)).quiet ∧ ¬ (qNet.runs 1 (by decide) (by decide)).quiet ∧
    qW 4 0 .quality [7, 8, 9] ∧ qW 4 0 .quality [7, 8] ∧
    (∃ d, (run (init (qNet.runs 1 (by decide) (by decide)).cfg exTbl (qNet.runs 1 (by decide) (by decide)).input)
      (qNet.runs 1 (by decide) (by decide)).ops).1.termination = some d ∧ d.value = [7, 8]) ∧
    -- were member 3 counted as faulty, the bound would fail
    ¬ 3 * (exTbl.power 3 + exTbl.power 4) < exTbl.total := by
  refine ⟨rfl, ?_, by show _ ∈ qVotes; decide, by show _ ∈ qVotes; decide, ?_, by decide⟩
  · intro h; exact absurd (show qOps = [] from h) (by decide)
  · exact ⟨{ round := 0, phase := .decide, value := [7, 8], signers := [0, 1, 3] }, by decide, rfl⟩

end Example

end F3.Audit2
