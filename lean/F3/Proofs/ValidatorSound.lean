import F3.Proofs.ValidatorRules
set_option linter.unusedSimpArgs false
/-!
Soundness and completeness of the cache-free check against the declarative `validMsg`
(`checkBody cfg c none m = true ↔ validMsg cfg.net c m` under the wire-type side conditions), and
`validateByProgress` against `relevant`.
-/
namespace F3.Validator
open F3.Msg F3.Spec.ValidMsg

theorem isEmpty_iff {a : Chain} : a.isEmpty = true ↔ a = [] := List.isEmpty_iff

theorem phase_cases (p : Nat) :
    p = 1 ∨ p = 2 ∨ p = 3 ∨ p = 4 ∨ p = 5 ∨ (p ≠ 1 ∧ p ≠ 2 ∧ p ≠ 3 ∧ p ≠ 4 ∧ p ≠ 5) := by omega
theorem maxU64_eq : maxU64 = 18446744073709551615 := by decide

theorem keyOf_inj {a b : Chain} : keyOf a = keyOf b ↔ a = b := by
  simp [keyOf]

theorem keyOf_zero {a : Chain} : keyOf a = VKey.zero ↔ a = [] := by
  simp [keyOf, VKey.zero]


/-! ### the statements before the justification -/

theorem preMsg_eq_some_iff (cfg : Cfg) (c : Committee) (vk : Option VKey) (m : Msg) (b : Bool) :
    preMsg cfg c vk m = some b ↔
      ((c.get m.sender).1 ≠ 0 ∧ chainValid m.vote.value = true ∧
        phaseRules cfg c m (voteForBottom vk m) (c.get m.sender).2 = true ∧
        m.sig = Sig.tok (c.get m.sender).2 (votePayload cfg.net m.vote (vk.getD (keyOf m.vote.value))) ∧
        b = needsJust m (voteForBottom vk m)) := by
  unfold preMsg
  simp only
  by_cases h1 : (c.get m.sender).1 = 0
  · simp [h1]
  · by_cases h2 : chainValid m.vote.value = true
    · by_cases h3 : phaseRules cfg c m (voteForBottom vk m) (c.get m.sender).2 = true
      · by_cases h4 : m.sig = Sig.tok (c.get m.sender).2 (votePayload cfg.net m.vote (vk.getD (keyOf m.vote.value)))
        · simp [h1, h2, h3, h4, eq_comm]
        · simp [h1, h2, h3, h4]
      · simp [h1, h2, h3]
    · simp [h1, h2]

/-- Sender look-up: non-zero power means a table entry with that id. -/
theorem get_ne_zero {c : Committee} {id : Nat} (h : (c.get id).1 ≠ 0) :
    ∃ e ∈ c.entries, e.id = id ∧ 0 < e.power ∧ c.get id = (e.power, e.pub) := by
  unfold Committee.get at h ⊢
  cases hf : findEntry c.entries id with
  | none => simp [hf] at h
  | some e =>
    simp only [hf] at h ⊢
    exact ⟨e, (findEntry_some hf).1, (findEntry_some hf).2, Nat.pos_of_ne_zero h, rfl⟩

theorem get_of_mem {c : Committee} (hu : Committee.uniqueIds c) {e : Entry} (he : e ∈ c.entries) :
    c.get e.id = (e.power, e.pub) := by
  unfold Committee.get
  rw [findEntry_of_mem hu he]

/-- The `switch msg.Vote.Phase` block (full mode) is the step constraint plus the ticket rule. -/
theorem phaseRules_iff (cfg : Cfg) (c : Committee) (m : Msg) (pub : Nat) :
    phaseRules cfg c m m.vote.value.isEmpty pub = true ↔
      (stepOK m.vote ∧
        (m.vote.phase = CONVERGE → m.ticket = Sig.tok pub (SigMsg.vrf cfg.net c.beacon m.vote.inst m.vote.round))) := by
  unfold phaseRules stepOK
  simp only [QUALITY, CONVERGE, PREPARE, COMMIT, DECIDE]
  rcases phase_cases m.vote.phase with h | h | h | h | h | h
  · simp [h]
  · simp [h, and_assoc]; intro _ _; omega
  · simp [h]
  · simp [h]
  · simp [h]
  · simp [h]

theorem needsJust_iff (m : Msg) :
    needsJust m m.vote.value.isEmpty = true ↔ needsJustification m.vote := by
  unfold needsJust needsJustification
  simp only [QUALITY, CONVERGE, PREPARE, COMMIT, DECIDE]
  rcases phase_cases m.vote.phase with h | h | h | h | h | h <;> simp [h]

def tableOK (v j : Payload) : Prop :=
  match expectation v.phase v.round j.phase with
  | none => False
  | some (er, b) =>
    ¬ (j.round ≠ er ∧ (!anyRound v.phase er) = true) ∧
      keyOf j.value = (if b then keyOf v.value else VKey.zero)

theorem u64_pred {r : Nat} (h0 : r ≠ 0) (hr : r < 2 ^ 64) : u64 (r + maxU64) = r - 1 := by
  unfold u64
  rw [maxU64_eq]
  have : (2 : Nat) ^ 64 = 18446744073709551616 := by decide
  omega

theorem tableOK_iff_justifies (v j : Payload) (hr : v.round < 2 ^ 64)
    (h0 : (v.phase = CONVERGE ∨ v.phase = PREPARE) → v.round ≠ 0) :
    tableOK v j ↔ justifies v j := by
  unfold tableOK expectation justifies anyRound
  simp only [QUALITY, CONVERGE, PREPARE, COMMIT, DECIDE] at h0 ⊢
  rcases phase_cases v.phase with hv | hv | hv | hv | hv | ⟨hv1, hv2, hv3, hv4, hv5⟩
  · simp [hv]
  · have hne := h0 (Or.inl hv)
    have hpred := u64_pred hne hr
    rcases phase_cases j.phase with hj | hj | hj | hj | hj | hj <;>
      simp [hv, hj, hpred, keyOf_inj, keyOf_zero, *] <;> intros <;> omega
  · have hne := h0 (Or.inr hv)
    have hpred := u64_pred hne hr
    rcases phase_cases j.phase with hj | hj | hj | hj | hj | hj <;>
      simp [hv, hj, hpred, keyOf_inj, keyOf_zero, *] <;> intros <;> omega
  · rcases phase_cases j.phase with hj | hj | hj | hj | hj | hj <;>
      simp [hv, hj, keyOf_inj, keyOf_zero, *]
  · rcases phase_cases j.phase with hj | hj | hj | hj | hj | hj <;>
      simp [hv, hj, keyOf_inj, keyOf_zero, *]
  · simp [hv1, hv2, hv3, hv4, hv5]

theorem preJust_none_elim {m : Msg} {j : Just} {ek : VKey} (h : preJust none m = some (j, ek)) :
      (m.just = some j ∧ m.vote.inst = j.vote.inst ∧ m.vote.supp = j.vote.supp ∧
        chainValid j.vote.value = true ∧ tableOK m.vote j.vote ∧ ek = keyOf j.vote.value) := by
  unfold preJust at h
  cases hj : m.just with
  | none => simp [hj] at h
  | some j' =>
    simp only [hj] at h
    by_cases h1 : m.vote.inst = j'.vote.inst
    · by_cases h2 : m.vote.supp = j'.vote.supp
      · by_cases h3 : chainValid j'.vote.value = true
        · simp only [h1, h2, h3, ne_eq, not_true_eq_false, if_false, Bool.not_true, Bool.false_eq_true,
            Option.getD_none, Option.isNone_none, true_and] at h
          cases he : expectation m.vote.phase m.vote.round j'.vote.phase with
          | none => simp [he] at h
          | some p =>
            obtain ⟨er, b⟩ := p
            simp only [he] at h
            by_cases h4 : ¬j'.vote.round = er ∧ (!anyRound m.vote.phase er) = true
            · simp [h4] at h
            · rw [if_neg h4] at h
              by_cases h5 : keyOf j'.vote.value = (if b = true then keyOf m.vote.value else VKey.zero)
              · simp only [h5, not_true_eq_false, if_false, Option.some.injEq, Prod.mk.injEq] at h
                obtain ⟨hjj, hek⟩ := h
                subst hjj
                refine ⟨rfl, h1, h2, h3, ?_, ?_⟩
                · unfold tableOK
                  rw [he]
                  exact ⟨h4, h5⟩
                · rw [← hek, h5]
              · simp [h5] at h
        · simp [h1, h2, h3] at h
      · simp [h1, h2] at h
    · simp [h1] at h

theorem preJust_none_intro {m : Msg} {j : Just}
    (hj : m.just = some j) (h1 : m.vote.inst = j.vote.inst) (h2 : m.vote.supp = j.vote.supp)
    (h3 : chainValid j.vote.value = true) (ht : tableOK m.vote j.vote) :
    preJust none m = some (j, keyOf j.vote.value) := by
  unfold tableOK at ht
  unfold preJust
  rw [hj]
  simp only [h1, h2, h3, ne_eq, not_true_eq_false, if_false, Bool.not_true, Bool.false_eq_true]
  cases he : expectation m.vote.phase m.vote.round j.vote.phase with
  | none => simp [he] at ht
  | some p =>
    obtain ⟨er, b⟩ := p
    simp only [he] at ht
    simp only
    rw [if_neg ht.1]
    simp only [Option.getD_none, Option.isNone_none, true_and]
    rw [if_neg (by rw [ht.2]; simp)]
    rw [ht.2]

/-! ### soundness and completeness of the cache-free check -/

/-- Side condition on a message as decoded from the wire: the round is a `uint64`, and the signer list
of a justification is the ascending enumeration of a bit set. -/
structure WireMsg (m : Msg) : Prop where
  round : m.vote.round < 2 ^ 64
  signers : ∀ j, m.just = some j → j.signers.Pairwise (· < ·)

theorem round_ne_zero_of {v : Payload} (hs : stepOK v) (hn : needsJustification v)
    (h : v.phase = CONVERGE ∨ v.phase = PREPARE) : v.round ≠ 0 := by
  unfold stepOK at hs
  unfold needsJustification at hn
  simp only [QUALITY, CONVERGE, PREPARE, COMMIT, DECIDE] at hs hn h
  rcases h with h | h
  · simp [h] at hs; omega
  · simp [h] at hn; exact hn

theorem checkBody_sound {cfg : Cfg} {c : Committee} {m : Msg} (hw : WireMsg m)
    (h : checkBody cfg c none m = true) : validMsg cfg.net c m := by
  unfold checkBody at h
  cases hp : preMsg cfg c none m with
  | none => simp [hp] at h
  | some b =>
    obtain ⟨hpow, hchain, hphase, hsig, hb⟩ := (preMsg_eq_some_iff cfg c none m b).mp hp
    simp only [voteForBottom] at hphase hb
    obtain ⟨e, he, hid, hpos, hget⟩ := get_ne_zero hpow
    have hph := (phaseRules_iff cfg c m _).mp hphase
    rw [hget] at hsig hph
    simp only [votePayload, Option.getD_none] at hsig
    refine ⟨⟨e, he, hid, hpos, hsig, hph.2⟩, (chainValid_iff _).mp hchain, hph.1, ?_⟩
    simp only [hp] at h
    cases b with
    | true =>
      have hn : needsJustification m.vote := (needsJust_iff m).mp hb.symm
      unfold checkJust at h
      cases hpj : preJust none m with
      | none => simp [hpj] at h
      | some p =>
        obtain ⟨j, ek⟩ := p
        simp only [hpj] at h
        obtain ⟨hj, h1, h2, h3, ht, hek⟩ := preJust_none_elim hpj
        have hjust := (tableOK_iff_justifies m.vote j.vote hw.round (round_ne_zero_of hph.1 hn)).mp ht
        have hs := (sigJust_iff cfg c j ek (hw.signers j hj)).mp h
        rw [hek] at hs
        exact ⟨fun _ => ⟨j, hj, h1.symm, h2.symm, (chainValid_iff _).mp h3, hjust, hs⟩,
          fun hnn => absurd hn hnn⟩
    | false =>
      have hn : ¬ needsJustification m.vote := by
        intro hn
        have := (needsJust_iff m).mpr hn
        rw [this] at hb; cases hb
      refine ⟨fun hnn => absurd hnn hn, fun _ => ?_⟩
      cases hj : m.just with
      | none => rfl
      | some j => simp [hj] at h

theorem checkBody_complete {cfg : Cfg} {c : Committee} {m : Msg} (hr : m.vote.round < 2 ^ 64)
    (hu : Committee.uniqueIds c) (h : validMsg cfg.net c m) : checkBody cfg c none m = true := by
  obtain ⟨⟨e, he, hid, hpos, hsig, htick⟩, hchain, hstep, hjn, hjnn⟩ := h
  have hget : c.get m.sender = (e.power, e.pub) := by rw [← hid]; exact get_of_mem hu he
  have hpm : preMsg cfg c none m = some (needsJust m m.vote.value.isEmpty) := by
    refine (preMsg_eq_some_iff cfg c none m _).mpr ⟨?_, (chainValid_iff _).mpr hchain, ?_, ?_, ?_⟩
    · rw [hget]; exact Nat.pos_iff_ne_zero.mp hpos
    · simp only [voteForBottom]
      rw [hget]
      exact (phaseRules_iff cfg c m _).mpr ⟨hstep, htick⟩
    · rw [hget]
      simp only [votePayload, Option.getD_none]
      exact hsig
    · simp only [voteForBottom]
  unfold checkBody
  rw [hpm]
  by_cases hn : needsJustification m.vote
  · have := (needsJust_iff m).mpr hn
    rw [this]
    simp only
    obtain ⟨j, hj, h1, h2, h3, hjust, ⟨hss, hagg⟩⟩ := hjn hn
    have ht := (tableOK_iff_justifies m.vote j.vote hr (round_ne_zero_of hstep hn)).mpr hjust
    have hpj := preJust_none_intro hj h1.symm h2.symm ((chainValid_iff _).mpr h3) ht
    unfold checkJust
    rw [hpj]
    simp only
    exact (sigJust_iff cfg c j _ hss.1).mpr ⟨hss, hagg⟩
  · have hb : needsJust m m.vote.value.isEmpty = false := by
      cases hbb : needsJust m m.vote.value.isEmpty with
      | false => rfl
      | true => exact absurd ((needsJust_iff m).mp hbb) hn
    rw [hb]
    simp only
    rw [hjnn hn]
    rfl

/-- The cache-free verdict is `accept` exactly for valid messages (of an instance with a committee). -/
theorem checkMsg_accept_iff {cfg : Cfg} {comt : Nat → Option Committee} {m : Msg} (hw : WireMsg m)
    (hu : ∀ c, comt m.vote.inst = some c → Committee.uniqueIds c) :
    checkMsg cfg comt none m = .accept ↔ ∃ c, comt m.vote.inst = some c ∧ validMsg cfg.net c m := by
  unfold checkMsg
  cases hc : comt m.vote.inst with
  | none => simp
  | some c =>
    simp only [Option.some.injEq, exists_eq_left']
    by_cases hb : checkBody cfg c none m = true
    · simp only [hb, if_true, true_iff]
      exact checkBody_sound hw hb
    · simp only [hb, Bool.false_eq_true, if_false, reduceCtorEq, false_iff]
      exact fun hv => hb (checkBody_complete hw.round (hu c hc) hv)

theorem checkMsg_invalid_iff {cfg : Cfg} {comt : Nat → Option Committee} {m : Msg} :
    checkMsg cfg comt none m = .invalid ↔ ∃ c, comt m.vote.inst = some c ∧ checkBody cfg c none m = false := by
  unfold checkMsg
  cases hc : comt m.vote.inst with
  | none => simp
  | some c =>
    simp only [Option.some.injEq, exists_eq_left']
    by_cases hb : checkBody cfg c none m = true
    · simp [hb]
    · simp [hb]

/-- Wire-type bounds of a progress/message pair (all `uint64` in Go; `current + lookback` does not wrap). -/
structure ProgBounds (cfg : Cfg) (cur : Progress) (v : Payload) : Prop where
  inst : v.inst < 2 ^ 64
  round : v.round < 2 ^ 64
  curRound : cur.round < 2 ^ 64
  look : cur.id + cfg.lookback < 2 ^ 64

theorem byProgress_none_iff (cfg : Cfg) (cur : Progress) (v : Payload) (hb : ProgBounds cfg cur v) :
    byProgress cfg cur v = none ↔ relevant cfg.lookback cur v := by
  obtain ⟨h1, h2, h3, h4⟩ := hb
  have hp : (2 : Nat) ^ 64 = 18446744073709551616 := by decide
  rw [hp] at h1 h2 h3 h4
  unfold byProgress relevant u64
  simp only [QUALITY, DECIDE]
  split
  · simp only [reduceCtorEq, false_iff]; omega
  · split
    · simp only [true_iff]; omega
    · split
      · split
        · simp only [reduceCtorEq, false_iff]; omega
        · split
          · simp only [true_iff]; omega
          · simp only [reduceCtorEq, false_iff]; omega
      · simp only [reduceCtorEq, false_iff]; omega

end F3.Validator
