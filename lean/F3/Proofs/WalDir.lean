import F3.Proofs.WalCodec
/-! Helper lemmas for C11: directory operations and the case analysis of `writeRec`. Core-only. -/
namespace F3.Wal
variable {α β : Type}

/-! ### Directory lemmas -/

theorem Dir.get_eq_some_of_mem {d : Dir β} (hn : d.names.Nodup) {nm : Name} {bs : List β}
    (h : (nm, bs) ∈ d) : d.get nm = some bs := by
  induction d with
  | nil => cases h
  | cons f t ih =>
    obtain ⟨n, b⟩ := f
    simp only [Dir.names, List.map_cons, List.nodup_cons] at hn
    simp only [Dir.get]
    rcases List.mem_cons.mp h with h | h
    · cases h; simp
    · have : n ≠ nm := by
        intro heq; subst heq
        exact hn.1 (List.mem_map.mpr ⟨(n, bs), h, rfl⟩)
      simp [this]; exact ih hn.2 h

theorem Dir.mem_of_get {d : Dir β} {nm : Name} {bs : List β} (h : d.get nm = some bs) : (nm, bs) ∈ d := by
  induction d with
  | nil => simp [Dir.get] at h
  | cons f t ih =>
    obtain ⟨n, b⟩ := f
    simp only [Dir.get] at h
    split at h
    · next heq => cases h; subst heq; simp
    · exact List.mem_cons_of_mem _ (ih h)

theorem Dir.get_none_of_not_mem {d : Dir β} {nm : Name} (h : nm ∉ d.names) : d.get nm = none := by
  cases hg : d.get nm with
  | none => rfl
  | some bs => exact absurd (List.mem_map.mpr ⟨(nm, bs), Dir.mem_of_get hg, rfl⟩) h

theorem Dir.names_appendTo (d : Dir β) (nm : Name) (x : List β) : (d.appendTo nm x).names = d.names := by
  simp only [Dir.appendTo, Dir.names, List.map_map]
  apply List.map_congr_left
  intro f _; simp only [Function.comp]; split <;> rfl

theorem Dir.mem_appendTo {d : Dir β} {nm : Name} {x : List β} {n : Name} {b : List β} :
    (n, b) ∈ d.appendTo nm x ↔ ∃ b0, (n, b0) ∈ d ∧ b = if n = nm then b0 ++ x else b0 := by
  simp only [Dir.appendTo, List.mem_map]
  constructor
  · rintro ⟨⟨n', b'⟩, hm, heq⟩
    by_cases h : n' = nm
    · simp [h] at heq; obtain ⟨rfl, rfl⟩ := heq; exact ⟨b', h ▸ hm, by simp⟩
    · simp [h] at heq; obtain ⟨rfl, rfl⟩ := heq; exact ⟨b', hm, by simp [h]⟩
  · rintro ⟨b0, hm, rfl⟩
    refine ⟨(n, b0), hm, ?_⟩
    by_cases h : n = nm <;> simp [h]

theorem Dir.names_append (d : Dir β) (f : Name × List β) : Dir.names (d ++ [f]) = d.names ++ [f.1] := by
  simp [Dir.names]


theorem nodup_map_inj {γ δ : Type} {f : γ → δ} {l : List γ} (h : (l.map f).Nodup) {x y : γ}
    (hx : x ∈ l) (hy : y ∈ l) (hxy : f x = f y) : x = y := by
  induction l with
  | nil => cases hx
  | cons a t ih =>
    simp only [List.map_cons, List.nodup_cons, List.mem_map, not_exists, not_and] at h
    rcases List.mem_cons.mp hx with rfl | hx' <;> rcases List.mem_cons.mp hy with rfl | hy'
    · rfl
    · exact absurd hxy.symm (h.1 y hy')
    · exact absurd hxy (h.1 x hx')
    · exact ih h.2 hx' hy'

theorem Dir.get_append_new {d : Dir β} {nm n : Name} (hne : n ≠ nm) (x : List β) :
    Dir.get (d ++ [(nm, x)]) n = d.get n := by
  induction d with
  | nil => simp [Dir.get, hne.symm]
  | cons f t ih => obtain ⟨a, b⟩ := f; simp only [List.cons_append, Dir.get]; split <;> simp [ih]

theorem Dir.get_appendTo_ne {d : Dir β} {nm n : Name} (hne : n ≠ nm) (x : List β) :
    (d.appendTo nm x).get n = d.get n := by
  induction d with
  | nil => rfl
  | cons f t ih =>
    obtain ⟨a, b⟩ := f
    simp only [Dir.appendTo, List.map_cons] at ih ⊢
    by_cases h : a = nm
    · subst h; simp only [if_true, Dir.get]; simp [Ne.symm hne]; exact ih
    · simp only [h, if_false, Dir.get]; split
      · rfl
      · exact ih

theorem Dir.get_appendTo_eq {d : Dir β} {nm : Name} {b0 : List β} (h : d.get nm = some b0) (x : List β) :
    (d.appendTo nm x).get nm = some (b0 ++ x) := by
  induction d with
  | nil => simp [Dir.get] at h
  | cons f t ih =>
    obtain ⟨a, b⟩ := f
    simp only [Dir.appendTo, List.map_cons] at ih ⊢
    simp only [Dir.get] at h
    by_cases ha : a = nm
    · subst ha; simp at h; subst h; simp [Dir.get]
    · simp only [ha, if_false] at h ⊢; simp only [Dir.get, ha, if_false]; exact ih h

theorem Dir.get_filter {d : Dir β} (p : Name → Bool) {n : Name} (hp : p n = true) :
    Dir.get (d.filter (fun f => p f.1)) n = d.get n := by
  induction d with
  | nil => rfl
  | cons f t ih =>
    obtain ⟨a, b⟩ := f
    simp only [List.filter_cons]
    by_cases ha : a = n
    · subst ha; simp [hp, Dir.get]
    · by_cases hpa : p a = true
      · simp [hpa, Dir.get, ha, ih]
      · simp [hpa, Dir.get, ha, ih]

theorem Dir.names_filter (d : Dir β) (p : Name → Bool) :
    Dir.names (d.filter (fun f => p f.1)) = d.names.filter p := by
  induction d with
  | nil => rfl
  | cons f t ih =>
    simp only [Dir.names] at ih
    simp only [List.filter_cons, Dir.names, List.map_cons]
    by_cases hp : p f.1 = true <;> simp [hp, ih]


theorem flush_files (m : Mem) : (flush m).files = m.files := by
  unfold flush Mem.files
  cases h : m.active with
  | none => simp [h]
  | some st => simp

theorem flush_active (m : Mem) : (flush m).active = none := by
  unfold flush; cases h : m.active <;> simp [h]

theorem mem_flush_logFiles {m : Mem} {st : Stat} :
    st ∈ (flush m).logFiles ↔ st ∈ m.logFiles ∨ m.active = some st := by
  unfold flush; cases h : m.active with
  | none => simp
  | some s => simp; constructor
              · rintro (h | h); exact Or.inl h; exact Or.inr h.symm
              · rintro (h | h); exact Or.inl h; exact Or.inr h.symm

/-- Outcome of the shared front part of `Append`. -/
inductive WriteCase (cfg : Cfg α β) (d : Dir β) (m : Mem) (nm : Name) (bs : List β) :
    Dir β × Mem × Option Stat → Prop
  | same (st : Stat) (h : m.active = some st) : WriteCase cfg d m nm bs (d.appendTo st.name bs, m, some st)
  | fresh (h : nm ∉ d.names) :
      WriteCase cfg d m nm bs
        ((d ++ [(nm, [])]).appendTo nm bs, { flush m with active := some ⟨nm, 0⟩ }, some ⟨nm, 0⟩)
  | exists_ (h : nm ∈ d.names) : WriteCase cfg d m nm bs (d, flush m, none)

theorem rotate_cases (d : Dir β) (m : Mem) (nm : Name) :
    (nm ∉ d.names ∧ rotate d m nm = (d ++ [(nm, [])], { flush m with active := some ⟨nm, 0⟩ }, true)) ∨
    (nm ∈ d.names ∧ rotate d m nm = (d, flush m, false)) := by
  unfold rotate
  by_cases h : nm ∈ d.names
  · right; simp [h]
  · left; simp [h]

theorem writeRec_cases (cfg : Cfg α β) (d : Dir β) (m : Mem) (nm : Name) (bs : List β) :
    WriteCase cfg d m nm bs (writeRec cfg d m nm bs) := by
  unfold writeRec maybeRotate
  cases ha : m.active with
  | none =>
    simp only
    rcases rotate_cases d m nm with ⟨hn, hr⟩ | ⟨hn, hr⟩
    · rw [hr]; simp only; exact WriteCase.fresh hn
    · rw [hr]; simp only; exact WriteCase.exists_ hn
  | some st =>
    simp only
    split
    · rcases rotate_cases d m nm with ⟨hn, hr⟩ | ⟨hn, hr⟩
      · rw [hr]; simp only; exact WriteCase.fresh hn
      · rw [hr]; simp only; exact WriteCase.exists_ hn
    · simp only [ha]; exact WriteCase.same st ha

end F3.Wal
