import F3.Gen.SkelGpbft
/-!
# Expected statement skeletons (SkelGpbft)

Hand-pinned expectations for the REGENERATED skeletons of `F3.Gen.SkelGpbft` (tools/go2lean/skel.go): the pre-order
list of the statements of a Go function as `<depth>:<kind>`. The expression-level tie theorems pin what single
conditions say; these pin that nothing was added around them (an extra early return, a cap, a dropped branch). A
structural change of the function — harmful or not — breaks the `rfl` below and with it the obligation of every
property importing this file; the check then searches for a failing input as for any broken obligation.
-/
namespace F3.SkelTie.SkelGpbft
open F3.Gen.SkelGpbft

/-- the structure the model of `QueueAdd` was written against -/
def skelQueueAddExpected : List String :=
  ["0:assign:=", "0:if", "1:assign=", "1:assign=", "0:if", "1:return0", "0:range", "1:if", "2:return0",
   "0:assign="]

theorem skelQueueAdd_expected : skelQueueAdd = skelQueueAddExpected := rfl

/-- the structure the model of `QueueDrain` was written against -/
def skelQueueDrainExpected : List String :=
  ["0:decl", "0:range", "1:assign=", "0:call:sort.SliceStable", "0:call:delete", "0:return1"]

theorem skelQueueDrain_expected : skelQueueDrain = skelQueueDrainExpected := rfl

/-- the structure the model of `ReceiveMessage` was written against -/
def skelReceiveMessageExpected : List String :=
  ["0:if", "1:call:panic", "0:defer", "0:defer", "0:assign:=", "0:assign:=", "0:if", "1:call:p.trace",
   "1:return1", "0:if", "1:if", "2:return1", "1:call:p.handleDecision", "0:else", "1:call:p.mqueue.Add",
   "0:return1"]

theorem skelReceiveMessage_expected : skelReceiveMessage = skelReceiveMessageExpected := rfl

/-- the structure the model of `HandleDecision` was written against -/
def skelHandleDecisionExpected : List String :=
  ["0:if", "1:return0", "0:assign:=", "0:assign:=", "0:if", "1:call:p.trace", "1:call:p.host.SetAlarm",
   "0:else", "1:call:p.beginNextInstance", "1:call:p.host.SetAlarm"]

theorem skelHandleDecision_expected : skelHandleDecision = skelHandleDecisionExpected := rfl

/-- the structure the model of `ReceiveOne` was written against -/
def skelReceiveOneExpected : List String :=
  ["0:if", "1:return2", "0:if", "1:return2", "0:if", "1:return2", "0:if", "1:return2", "0:assign:=", "0:if",
   "1:return2", "0:assign:=", "0:if", "1:return2", "0:assign:=", "0:switch", "1:case1",
   "2:call:i.quality.ReceiveEachPrefix", "2:if", "3:return2", "1:case1", "2:if", "3:return2", "1:case1",
   "2:call:msgRound.prepared.Receive", "2:if", "3:call:msgRound.prepared.ReceiveJustification", "1:case1",
   "2:call:msgRound.committed.Receive", "2:if", "3:call:msgRound.committed.ReceiveJustification", "2:if",
   "3:assign:=", "3:assign:=", "3:if", "4:return2", "1:case1", "2:call:i.decision.Receive", "2:if",
   "3:call:i.skipToDecide", "1:default", "2:return2", "0:return2"]

theorem skelReceiveOne_expected : skelReceiveOne = skelReceiveOneExpected := rfl

/-- the structure the model of `PostReceive` was written against -/
def skelPostReceiveExpected : List String :=
  ["0:call:slices.Reverse", "0:range", "1:if", "2:call:i.skipToRound", "2:return0"]

theorem skelPostReceive_expected : skelPostReceive = skelPostReceiveExpected := rfl

/-- the structure the model of `TryQuality` was written against -/
def skelTryQualityExpected : List String :=
  ["0:if", "1:return1", "0:assign:=", "0:assign:=", "0:if", "1:assign=", "1:call:i.addCandidatePrefixes",
   "1:assign=", "1:call:i.log", "1:call:i.beginPrepare", "0:return1"]

theorem skelTryQuality_expected : skelTryQuality = skelTryQualityExpected := rfl

/-- the structure the model of `TryConverge` was written against -/
def skelTryConvergeExpected : List String :=
  ["0:if", "1:return1", "0:assign:=", "0:if", "1:if", "2:call:i.tryRebroadcast", "1:return1", "0:assign:=",
   "0:assign:=", "0:assign:=", "0:if", "1:return1", "0:if", "1:call:i.log", "1:call:i.addCandidate", "0:else",
   "1:call:i.log", "0:assign=", "0:assign=", "0:call:i.beginPrepare", "0:return1"]

theorem skelTryConverge_expected : skelTryConverge = skelTryConvergeExpected := rfl

/-- the structure the model of `TryPrepare` was written against -/
def skelTryPrepareExpected : List String :=
  ["0:if", "1:return1", "0:assign:=", "0:assign:=", "0:assign:=", "0:assign:=", "0:assign:=", "0:assign:=",
   "0:assign:=", "0:assign:=", "0:if", "1:assign=", "0:elseif", "1:assign=", "0:if", "1:call:i.beginCommit",
   "0:elseif", "1:call:i.tryRebroadcast", "0:return1"]

theorem skelTryPrepare_expected : skelTryPrepare = skelTryPrepareExpected := rfl

/-- the structure the model of `TryCommit` was written against -/
def skelTryCommitExpected : List String :=
  ["0:assign:=", "0:assign:=", "0:assign:=", "0:assign:=", "0:assign:=", "0:assign:=", "0:switch", "1:case1",
   "2:assign=", "2:call:i.beginDecide", "1:case2", "1:case2", "2:call:i.beginNextRound", "1:case1", "2:range",
   "3:if", "4:if", "5:call:i.log", "5:call:i.addCandidate", "4:if", "5:assign=", "5:call:i.log",
   "4:branch:break", "2:call:i.beginNextRound", "1:case1", "2:call:i.tryRebroadcast", "0:return1"]

theorem skelTryCommit_expected : skelTryCommit = skelTryCommitExpected := rfl

/-- the structure the model of `TryDecide` was written against -/
def skelTryDecideExpected : List String :=
  ["0:assign:=", "0:if", "1:if", "2:assign:=", "2:call:i.terminate", "1:else", "2:call:panic", "0:else",
   "1:call:i.tryRebroadcast", "0:return1"]

theorem skelTryDecide_expected : skelTryDecide = skelTryDecideExpected := rfl

/-- the structure the model of `BeginDecide` was written against -/
def skelBeginDecideExpected : List String :=
  ["0:assign=", "0:call:i.participant.progression.NotifyProgress", "0:call:i.resetRebroadcastParams", "0:decl",
   "0:if", "1:assign=", "0:else", "1:call:panic", "0:call:i.broadcast", "0:call:i.reportPhaseMetrics"]

theorem skelBeginDecide_expected : skelBeginDecide = skelBeginDecideExpected := rfl

/-- the structure the model of `SkipToRound` was written against -/
def skelSkipToRoundExpected : List String :=
  ["0:call:i.log", "0:assign=", "0:call:metrics.currentRound.Record", "0:call:metrics.skipCounter.Add", "0:if",
   "1:assign=", "1:call:i.addCandidatePrefixes", "0:if", "1:call:i.log", "1:call:i.addCandidate", "1:assign=",
   "0:call:i.beginConverge"]

theorem skelSkipToRound_expected : skelSkipToRound = skelSkipToRoundExpected := rfl

/-- the structure the model of `TryRebroadcast` was written against -/
def skelTryRebroadcastExpected : List String :=
  ["0:switch", "1:case1", "2:decl", "2:if", "3:assign=", "2:else", "3:assign=", "2:assign=", "2:if",
   "3:call:i.participant.host.SetAlarm", "3:call:i.log", "2:elseif", "3:call:i.participant.host.SetAlarm",
   "3:call:i.log", "2:else", "3:call:i.log", "3:call:i.resetRebroadcastParams", "1:case1",
   "2:call:i.rebroadcast", "2:incdec++", "2:assign=", "2:if", "3:call:i.participant.host.SetAlarm",
   "3:call:i.log", "2:elseif", "3:call:i.participant.host.SetAlarm", "3:call:i.log", "2:else", "3:call:i.log",
   "3:call:i.participant.host.SetAlarm", "1:default"]

theorem skelTryRebroadcast_expected : skelTryRebroadcast = skelTryRebroadcastExpected := rfl

/-- the structure the model of `ReceiveEachPrefix` was written against -/
def skelReceiveEachPrefixExpected : List String :=
  ["0:assign:=", "0:if", "1:return0", "0:range", "1:assign:=", "1:call:q.receiveInner"]

theorem skelReceiveEachPrefix_expected : skelReceiveEachPrefix = skelReceiveEachPrefixExpected := rfl

/-- the structure the model of `FindStrongQuorumFor` was written against -/
def skelFindStrongQuorumForExpected : List String :=
  ["0:assign:=", "0:if", "1:return2", "0:assign:=", "0:range", "1:assign:=", "1:if", "2:call:panic",
   "1:assign=", "0:call:sort.Ints", "0:assign:=", "0:decl", "0:range", "1:if", "2:call:panic", "1:assign:=",
   "1:assign:=", "1:assign+=", "1:assign=", "1:if", "2:return2", "0:call:panic"]

theorem skelFindStrongQuorumFor_expected : skelFindStrongQuorumFor = skelFindStrongQuorumForExpected := rfl

/-- the structure the model of `BeginInstance` was written against -/
def skelBeginInstanceExpected : List String :=
  ["0:assign:=", "0:assign:=", "0:if", "1:return1", "0:if", "1:return1", "0:assign=", "0:if", "1:return1",
   "0:assign:=", "0:if", "1:return1", "0:if", "1:return1", "0:if", "1:return1", "0:assign:=", "0:if",
   "1:range", "2:call:p.trace", "0:if", "1:return1", "0:call:p.handleDecision", "0:return1"]

theorem skelBeginInstance_expected : skelBeginInstance = skelBeginInstanceExpected := rfl

/-- the structure the model of `ReceiveAlarm` was written against -/
def skelReceiveAlarmExpected : List String :=
  ["0:if", "1:call:panic", "0:defer", "0:defer", "0:if", "1:return1", "0:if", "1:return1",
   "0:call:p.handleDecision", "0:return1"]

theorem skelReceiveAlarm_expected : skelReceiveAlarm = skelReceiveAlarmExpected := rfl

/-- the structure the model of `HasBase` was written against -/
def skelHasBaseExpected : List String :=
  ["0:return1"]

theorem skelHasBase_expected : skelHasBase = skelHasBaseExpected := rfl

/-- the structure the model of `TipSetEqual` was written against -/
def skelTipSetEqualExpected : List String :=
  ["0:if", "1:return1", "0:return1"]

theorem skelTipSetEqual_expected : skelTipSetEqual = skelTipSetEqualExpected := rfl

/-- the structure the model of `ChainEq` was written against -/
def skelChainEqExpected : List String :=
  ["0:if", "1:return1", "0:if", "1:return1", "0:range", "1:if", "2:return1", "0:return1"]

theorem skelChainEq_expected : skelChainEq = skelChainEqExpected := rfl

/-- the structure the model of `ReceiveMany` was written against -/
def skelReceiveManyExpected : List String :=
  ["0:if", "1:return1", "0:assign:=", "0:range", "1:assign:=", "1:if", "2:if", "3:call:i.log", "2:else",
   "3:return1", "1:if", "2:assign=", "0:assign:=", "0:range", "1:assign=", "0:call:sort.Slice",
   "0:call:i.postReceive", "0:return1"]

theorem skelReceiveMany_expected : skelReceiveMany = skelReceiveManyExpected := rfl

/-- the structure the model of `ShouldSkipToRound` was written against -/
def skelShouldSkipToRoundExpected : List String :=
  ["0:assign:=", "0:if", "1:return3", "0:if", "1:return3", "0:assign:=", "0:if", "1:return3", "0:return3"]

theorem skelShouldSkipToRound_expected : skelShouldSkipToRound = skelShouldSkipToRoundExpected := rfl

end F3.SkelTie.SkelGpbft
