import F3.Model.Cbor
import F3.Proofs.CodecBytes
/-! Lemmas about the generic cbor-gen codec model (C14c). -/
namespace F3.Cbor
open F3.Codec

theorem takeN_append (a r : Bytes) : takeN a.length (a ++ r) = some (a, r) := by
  induction a with
  | nil => cases r <;> rfl
  | cons x a ih => simp [takeN, ih]

theorem takeN_append' {n : Nat} (a r : Bytes) (h : a.length = n) : takeN n (a ++ r) = some (a, r) :=
  h ▸ takeN_append a r

theorem takeN_some {n : Nat} {b h t : Bytes} (e : takeN n b = some (h, t)) : b = h ++ t ∧ h.length = n := by
  induction n generalizing b h t with
  | zero => simp [takeN] at e; obtain ⟨rfl, rfl⟩ := e; simp
  | succ n ih =>
    cases b with
    | nil => simp [takeN] at e
    | cons x b =>
      simp only [takeN] at e
      cases hx : takeN n b with
      | none => rw [hx] at e; simp at e
      | some p =>
        obtain ⟨h', t'⟩ := p
        rw [hx] at e
        simp at e
        obtain ⟨rfl, rfl⟩ := e
        obtain ⟨hb, hl⟩ := ih hx
        simp [hb, hl]

private theorem head_arith (maj low : Nat) (hm : maj < 8) (hl : low < 32) :
    (maj * 32 + low) % 32 = low ∧ (maj * 32 + low) / 32 % 8 = maj := by omega

/-- `CborReadHeader` reads back what `WriteMajorTypeHeader` wrote. -/
theorem readHdr_hdr (maj n : Nat) (hm : maj < 8) (hn : n < 2 ^ 64) (rest : Bytes) :
    readHdr (hdr maj n ++ rest) = .ok (maj, n, rest) := by
  unfold hdr
  by_cases h1 : n < 24
  · obtain ⟨a1, a2⟩ := head_arith maj n hm (by omega)
    simp [h1, readHdr, a1, a2]
  · by_cases h2 : n < 256
    · obtain ⟨a1, a2⟩ := head_arith maj 24 hm (by omega)
      simp [h1, h2, readHdr, a1, a2]
    · by_cases h3 : n < 65536
      · obtain ⟨a1, a2⟩ := head_arith maj 25 hm (by omega)
        have ht := takeN_append' (beN 2 n) rest (beN_length 2 n)
        have hf := fromBE_beN 2 n (by norm_num; omega)
        simp only [h1, h2, h3, if_false, if_true, List.cons_append, readHdr, a1, a2, ht, hf]
        simp; omega
      · by_cases h4 : n < 4294967296
        · obtain ⟨a1, a2⟩ := head_arith maj 26 hm (by omega)
          have ht := takeN_append' (beN 4 n) rest (beN_length 4 n)
          have hf := fromBE_beN 4 n (by norm_num; omega)
          simp only [h1, h2, h3, h4, if_false, if_true, List.cons_append, readHdr, a1, a2, ht, hf]
          simp; omega
        · obtain ⟨a1, a2⟩ := head_arith maj 27 hm (by omega)
          have ht := takeN_append' (beN 8 n) rest (beN_length 8 n)
          have hf := fromBE_beN 8 n (by norm_num; omega)
          simp only [h1, h2, h3, h4, if_false, List.cons_append, readHdr, a1, a2, ht, hf]
          simp; omega


theorem Lim.ok_iff (l : Lim) : l.ok = true ↔ l.tag = l.enc ∧ l.enc = l.dec ∧ l.enc < 2 ^ 64 := by
  simp [Lim.ok, and_assoc]

/-- heads of major types 0–6 never start with the CBOR `null` byte -/
theorem hdr_head (maj n : Nat) (hm : maj < 7) : ∃ x t, hdr maj n = x :: t ∧ x ≠ 246 := by
  unfold hdr
  by_cases h1 : n < 24
  · exact ⟨maj * 32 + n, [], by simp [h1], by omega⟩
  · by_cases h2 : n < 256
    · exact ⟨maj * 32 + 24, [n], by simp [h1, h2], by omega⟩
    · by_cases h3 : n < 65536
      · exact ⟨maj * 32 + 25, beN 2 n, by simp [h1, h2, h3], by omega⟩
      · by_cases h4 : n < 4294967296
        · exact ⟨maj * 32 + 26, beN 4 n, by simp [h1, h2, h3, h4], by omega⟩
        · exact ⟨maj * 32 + 27, beN 8 n, by simp [h1, h2, h3, h4], by omega⟩

theorem readBody_append (b rest : Bytes) : readBody b.length (b ++ rest) = .ok (.bytes b, rest) := by
  simp [readBody, takeN_append]

/-- the element-wise decoder undoes the element-wise encoder -/
theorem decodeN_encodeList (enc : Value → Option Bytes) (dec : Bytes → Except Err (Value × Bytes))
    (h : ∀ v b rest, enc v = some b → dec (b ++ rest) = .ok (v, rest)) :
    ∀ vs n bs rest, encodeList enc vs = some (n, bs) → decodeN dec n (bs ++ rest) = .ok (vs, rest) := by
  intro vs
  induction vs with
  | nil => intro n bs rest he; simp [encodeList] at he; obtain ⟨rfl, rfl⟩ := he; rfl
  | cons v vs _ ih =>
    intro n bs rest he
    simp only [encodeList] at he
    cases hv : enc v with
    | none => rw [hv] at he; simp at he
    | some b =>
      cases hvs : encodeList enc vs with
      | none => rw [hv, hvs] at he; simp at he
      | some p =>
        obtain ⟨m, bs'⟩ := p
        rw [hv, hvs] at he
        simp at he
        obtain ⟨rfl, rfl⟩ := he
        simp only [decodeN, List.append_assoc, h v b _ hv, ih m bs' rest hvs]
  | uint _ => intro n bs rest he; simp [encodeList] at he
  | int _ => intro n bs rest he; simp [encodeList] at he
  | bool _ => intro n bs rest he; simp [encodeList] at he
  | bytes _ => intro n bs rest he; simp [encodeList] at he
  | big _ => intro n bs rest he; simp [encodeList] at he
  | null => intro n bs rest he; simp [encodeList] at he


theorem fromBE_magBytesFuel : ∀ f n, n ≤ f → fromBE (magBytesFuel f n) = n := by
  intro f
  induction f with
  | zero => intro n hn; have : n = 0 := by omega
            subst this; rfl
  | succ f ih =>
    intro n hn
    by_cases h0 : n = 0
    · subst h0; rfl
    · simp only [magBytesFuel, h0, if_false, fromBE_append_singleton]
      rw [ih (n / 256) (by omega)]
      omega

theorem fromBE_magBytes (n : Nat) : fromBE (magBytes n) = n := fromBE_magBytesFuel n n (Nat.le_refl n)

theorem decode_encode : ∀ (s : Schema), s.wf = true → ∀ (v : Value) (b rest : Bytes),
    encode s v = some b → decode s (b ++ rest) = .ok (v, rest) := by
  intro s
  induction s with
  | uint max =>
    intro hwf v b rest he
    simp only [Schema.wf, decide_eq_true_eq] at hwf
    cases v <;> simp [encode] at he
    rename_i n
    obtain ⟨hle, rfl⟩ := he
    have hh := readHdr_hdr 0 n (by omega) (by omega) rest
    simp only [decode, hh]
    simp [Nat.not_lt.mpr hle]
  | int64 =>
    intro _ v b rest he
    cases v <;> simp only [encode] at he <;> first | (simp at he; done) | skip
    rename_i i
    split at he
    · rename_i h1
      have he' := Option.some.inj he; subst he'
      have hlt : i.toNat < 2 ^ 63 := by omega
      have hh := readHdr_hdr 0 i.toNat (by omega) (by omega) rest
      simp only [decode, hh]
      have hlt' : ¬ (9223372036854775808 ≤ i.toNat) := by omega
      simp [hlt']
      omega
    · split at he
      · rename_i h1 h2
        have he' := Option.some.inj he; subst he'
        have hlt : (-i - 1).toNat < 2 ^ 63 := by omega
        have hh := readHdr_hdr 1 (-i - 1).toNat (by omega) (by omega) rest
        simp only [decode, hh]
        have hlt' : ¬ (9223372036854775808 ≤ (-i).toNat - 1) := by omega
        simp [hlt']
        omega
      · simp at he
  | bool =>
    intro _ v b rest he
    cases v <;> simp [encode] at he
    rename_i bb
    subst he
    cases bb <;> simp [decode, readHdr]
  | bytes l =>
    intro hwf v b rest he
    simp only [Schema.wf, Lim.ok_iff] at hwf
    obtain ⟨_, hed, h64⟩ := hwf
    cases v <;> simp [encode] at he
    rename_i bs
    obtain ⟨hle, rfl⟩ := he
    have hh := readHdr_hdr 2 bs.length (by omega) (by omega) (bs ++ rest)
    simp only [decode, List.append_assoc, hh]
    simp [Nat.not_lt.mpr (hed ▸ hle), readBody_append]
  | fixed encN decN l =>
    intro hwf v b rest he
    simp only [Schema.wf, Lim.ok_iff, Bool.and_eq_true, beq_iff_eq, decide_eq_true_eq] at hwf
    obtain ⟨⟨hn, _, hed, h64⟩, hle⟩ := hwf
    cases v <;> simp [encode] at he
    rename_i bs
    obtain ⟨⟨hlen, _⟩, rfl⟩ := he
    subst hn
    subst hlen
    have hh := readHdr_hdr 2 bs.length (by omega) (by omega) (bs ++ rest)
    simp only [decode, List.append_assoc, hh]
    simp [Nat.not_lt.mpr (hed ▸ hle), readBody_append]
  | cid =>
    intro _ v b rest he
    cases v <;> simp [encode] at he
    rename_i c
    obtain ⟨⟨hv, hlen⟩, rfl⟩ := he
    have ht := takeN_append' (0 :: c) rest (by simp : (0 :: c).length = c.length + 1)
    have h1 := readHdr_hdr 6 42 (by omega) (by omega) (hdr 2 (c.length + 1) ++ (0 :: c ++ rest))
    have h2 := readHdr_hdr 2 (c.length + 1) (by omega) (by omega) (0 :: c ++ rest)
    simp only [List.cons_append] at ht h1 h2
    simp only [decode, List.append_assoc, List.cons_append, h1]
    simp only [h2]
    simp [Nat.not_lt.mpr (by omega : c.length + 1 ≤ 512), ht, hv]
  | bigint =>
    intro _ v b rest he
    cases v <;> simp [encode] at he
    rename_i i
    obtain ⟨hle, rfl⟩ := he
    have hh := readHdr_hdr 2 (bigBytes i).length (by omega) (by omega) (bigBytes i ++ rest)
    simp only [decode, List.append_assoc, hh]
    by_cases h0 : i = 0
    · subst h0; simp [bigBytes]
    · have hpos : (bigBytes i).length ≠ 0 := by simp [bigBytes, h0]
      simp only [hpos, if_false, Nat.not_lt.mpr hle, takeN_append, ne_eq, not_true_eq_false]
      by_cases hneg : i < 0
      · simp [bigBytes, h0, hneg, fromBE_magBytes, abs_of_neg hneg]
      · simp [bigBytes, h0, hneg, fromBE_magBytes]; omega
  | bitfield =>
    intro _ v b rest he
    cases v <;> simp [encode] at he
    rename_i bs
    obtain ⟨⟨hle, hv⟩, rfl⟩ := he
    have hh := readHdr_hdr 2 bs.length (by omega) (by omega) (bs ++ rest)
    simp only [decode, List.append_assoc, hh]
    simp [Nat.not_lt.mpr hle, takeN_append, hv]
  | array l e ih =>
    intro hwf v b rest he
    simp only [Schema.wf, Lim.ok_iff, Bool.and_eq_true] at hwf
    obtain ⟨⟨⟨_, hed, h64⟩, hwe⟩, _⟩ := hwf
    simp only [encode] at he
    cases hl : encodeList (encode e) v with
    | none => rw [hl] at he; simp at he
    | some p =>
      obtain ⟨n, bs⟩ := p
      rw [hl] at he
      simp at he
      obtain ⟨hle, rfl⟩ := he
      have hh := readHdr_hdr 4 n (by omega) (by omega) (bs ++ rest)
      simp only [decode, List.append_assoc, hh]
      simp [Nat.not_lt.mpr (hed ▸ hle), decodeN_encodeList _ _ (ih hwe) v n bs rest hl]
  | tuple encN decN fs ih =>
    intro hwf v b rest he
    simp only [Schema.wf, Bool.and_eq_true, beq_iff_eq, decide_eq_true_eq] at hwf
    obtain ⟨⟨hn, h64⟩, hwfs⟩ := hwf
    simp only [encode] at he
    cases hf : encode fs v with
    | none => rw [hf] at he; simp at he
    | some bs =>
      rw [hf] at he
      simp at he
      subst he
      subst hn
      have hh := readHdr_hdr 4 encN (by omega) (by omega) (bs ++ rest)
      simp only [decode, List.append_assoc, hh]
      simp [ih hwfs v bs rest hf]
  | tnil =>
    intro _ v b rest he
    cases v <;> simp [encode] at he
    subst he
    simp [decode]
  | tcons h t ihh iht =>
    intro hwf v b rest he
    simp only [Schema.wf, Bool.and_eq_true] at hwf
    cases v <;> simp only [encode] at he <;> first | (simp at he; done) | skip
    rename_i v vs
    cases h1 : encode h v with
    | none => rw [h1] at he; simp at he
    | some a =>
      cases h2 : encode t vs with
      | none => rw [h1, h2] at he; simp at he
      | some c =>
        rw [h1, h2] at he
        simp at he
        subst he
        simp [decode, List.append_assoc, ihh hwf.1 v a _ h1, iht hwf.2 vs c rest h2]
  | nullable s ih =>
    intro hwf v b rest he
    simp only [Schema.wf, Bool.and_eq_true] at hwf
    obtain ⟨hws, hshape⟩ := hwf
    cases s with
    | tuple encN decN fs =>
      by_cases hv : v = .null
      · subst hv
        simp [encode] at he
        subst he
        simp [decode]
      · have he' : encode (.tuple encN decN fs) v = some b := by
          cases v <;> simp_all [encode]
        have hd := ih hws v b rest he'
        -- the encoding starts with an array head, never with 0xf6
        simp only [encode] at he'
        cases hf : encode fs v with
        | none => rw [hf] at he'; simp at he'
        | some bs =>
          rw [hf] at he'
          simp at he'
          obtain ⟨x, t, hx, hne⟩ := hdr_head 4 encN (by omega)
          subst he'
          rw [hx] at hd ⊢
          simp only [List.cons_append] at hd ⊢
          simp only [decode, hne, if_false]
          exact hd
    | _ => simp at hshape
  | nullAsEmpty s ih =>
    intro hwf v b rest he
    simp only [Schema.wf, Bool.and_eq_true] at hwf
    obtain ⟨hws, hshape⟩ := hwf
    cases s with
    | array l e =>
      have he' : encode (.array l e) v = some b := by simpa [encode] using he
      have hd := ih hws v b rest he'
      simp only [encode] at he'
      cases hl : encodeList (encode e) v with
      | none => rw [hl] at he'; simp at he'
      | some p =>
        obtain ⟨n, bs⟩ := p
        rw [hl] at he'
        simp at he'
        obtain ⟨_, rfl⟩ := he'
        obtain ⟨x, t, hx, hne⟩ := hdr_head 4 n (by omega)
        rw [hx] at hd ⊢
        simp only [List.cons_append] at hd ⊢
        simp only [decode, hne, if_false]
        exact hd
    | _ => simp at hshape


/-- Encodings are prefix-free: no encoding of one value is a proper prefix of an encoding of another. -/
theorem encode_prefix_free (s : Schema) (hwf : s.wf = true) (v1 v2 : Value) (b1 b2 t : Bytes)
    (h1 : encode s v1 = some b1) (h2 : encode s v2 = some b2) (hp : b2 = b1 ++ t) : v1 = v2 ∧ t = [] := by
  have d1 := decode_encode s hwf v1 b1 t h1
  have d2 := decode_encode s hwf v2 b2 [] h2
  rw [List.append_nil, hp, d1] at d2
  simp at d2
  exact d2

/-- Different values never share an encoding. -/
theorem encode_inj (s : Schema) (hwf : s.wf = true) (v1 v2 : Value) (b : Bytes)
    (h1 : encode s v1 = some b) (h2 : encode s v2 = some b) : v1 = v2 :=
  (encode_prefix_free s hwf v1 v2 b b [] h1 h2 (by simp)).1

theorem Lim.documented_eq (l : Lim) (h : l.ok = true) : l.documented = l := by
  obtain ⟨h1, h2, _⟩ := (Lim.ok_iff l).mp h
  cases l; simp_all [Lim.documented]

/-- On a well-formed schema the documented limits are the enforced ones. -/
theorem Schema.documented_eq_of_wf : ∀ (s : Schema), s.wf = true → s.documented = s := by
  intro s
  induction s with
  | bytes l => intro h; simp only [Schema.wf] at h; simp [Schema.documented, Lim.documented_eq l h]
  | fixed a b l =>
    intro h; simp only [Schema.wf, Bool.and_eq_true] at h
    simp [Schema.documented, Lim.documented_eq l h.1.2]
  | array l e ih =>
    intro h; simp only [Schema.wf, Bool.and_eq_true] at h
    simp [Schema.documented, Lim.documented_eq l h.1.1, ih h.1.2]
  | tuple a b fs ih =>
    intro h; simp only [Schema.wf, Bool.and_eq_true] at h
    simp [Schema.documented, ih h.2]
  | tcons x y ihx ihy =>
    intro h; simp only [Schema.wf, Bool.and_eq_true] at h
    simp [Schema.documented, ihx h.1, ihy h.2]
  | nullable s ih =>
    intro h; simp only [Schema.wf, Bool.and_eq_true] at h
    simp [Schema.documented, ih h.1]
  | nullAsEmpty s ih =>
    intro h; simp only [Schema.wf, Bool.and_eq_true] at h
    simp [Schema.documented, ih h.1]
  | _ => intro _; rfl

/-! ### over-limit lengths are refused from the head alone

In each statement the bytes after the head are arbitrary (`rest`, possibly empty): the verdict is
reached before any payload byte is looked at, hence before the decoder allocates for it. -/

theorem decode_bytes_overlimit (l : Lim) (maj n : Nat) (hm : maj < 8) (hn : n < 2 ^ 64) (h : n > l.dec)
    (rest : Bytes) : decode (.bytes l) (hdr maj n ++ rest) = .error .overlimit := by
  simp only [decode, readHdr_hdr maj n hm hn rest]; simp [h]

theorem decode_fixed_overlimit (a b : Nat) (l : Lim) (maj n : Nat) (hm : maj < 8) (hn : n < 2 ^ 64)
    (h : n > l.dec) (rest : Bytes) : decode (.fixed a b l) (hdr maj n ++ rest) = .error .overlimit := by
  simp only [decode, readHdr_hdr maj n hm hn rest]; simp [h]

theorem decode_array_overlimit (l : Lim) (e : Schema) (maj n : Nat) (hm : maj < 8) (hn : n < 2 ^ 64)
    (h : n > l.dec) (rest : Bytes) : decode (.array l e) (hdr maj n ++ rest) = .error .overlimit := by
  simp only [decode, readHdr_hdr maj n hm hn rest]; simp [h]

theorem decode_bitfield_overlimit (maj n : Nat) (hm : maj < 8) (hn : n < 2 ^ 64) (h : n > 32768)
    (rest : Bytes) : decode .bitfield (hdr maj n ++ rest) = .error .overlimit := by
  simp only [decode, readHdr_hdr maj n hm hn rest]; simp [h]

theorem decode_bigint_overlimit (n : Nat) (hn : n < 2 ^ 64) (h : n > 128)
    (rest : Bytes) : decode .bigint (hdr 2 n ++ rest) = .error .overlimit := by
  simp only [decode, readHdr_hdr 2 n (by omega) hn rest]
  have : n ≠ 0 := by omega
  simp [h, this]

theorem decode_cid_overlimit (n : Nat) (hn : n < 2 ^ 64) (h : n > 512)
    (rest : Bytes) : decode .cid (hdr 6 42 ++ (hdr 2 n ++ rest)) = .error .overlimit := by
  simp only [decode, readHdr_hdr 6 42 (by omega) (by omega) _, readHdr_hdr 2 n (by omega) hn rest]
  simp [h]

theorem decode_uint_overlimit (max n : Nat) (hn : n < 2 ^ 64) (h : n > max)
    (rest : Bytes) : decode (.uint max) (hdr 0 n ++ rest) = .error .overlimit := by
  simp only [decode, readHdr_hdr 0 n (by omega) hn rest]; simp [h]

/-! ### the compressing wrapper -/

theorem Zstd.decode_encode (z : Zstd) (hz : ∀ x, x.length ≤ z.cap → z.decompress (z.compress x) = some x)
    (s : Schema) (hwf : s.wf = true) (v : Value) (c : Bytes) (h : z.encode s v = some c) :
    z.decode s c = .ok (v, []) := by
  unfold Zstd.encode at h
  cases he : F3.Cbor.encode s v with
  | none => rw [he] at h; simp at h
  | some b =>
    rw [he] at h
    by_cases hc : b.length > z.cap
    · simp [hc] at h
    · simp [hc] at h
      subst h
      unfold Zstd.decode
      rw [hz b (by omega)]
      simpa using F3.Cbor.decode_encode s hwf v b [] he

/-- `ZSTD.Encode` never emits a frame whose plain text is larger than the decoder's cap. -/
theorem Zstd.encode_within_cap (z : Zstd) (s : Schema) (v : Value) (c : Bytes) (h : z.encode s v = some c) :
    ∃ b, F3.Cbor.encode s v = some b ∧ b.length ≤ z.cap ∧ c = z.compress b := by
  unfold Zstd.encode at h
  cases he : F3.Cbor.encode s v with
  | none => rw [he] at h; simp at h
  | some b =>
    rw [he] at h
    by_cases hc : b.length > z.cap
    · simp [hc] at h
    · simp [hc] at h
      exact ⟨b, rfl, by omega, h.symm⟩

/-! ### what the decoder accepts is within its limits -/

theorem decodeN_within (dec : Bytes → Except Err (Value × Bytes)) (f : Value → Bool)
    (h : ∀ b v r, dec b = .ok (v, r) → f v = true) :
    ∀ n b vs r, decodeN dec n b = .ok (vs, r) → vs.all f = true ∧ vs.len = n := by
  intro n
  induction n with
  | zero => intro b vs r hd; simp [decodeN] at hd; obtain ⟨rfl, rfl⟩ := hd; simp [Value.all, Value.len]
  | succ n ih =>
    intro b vs r hd
    simp only [decodeN] at hd
    cases h1 : dec b with
    | error e => simp [h1] at hd
    | ok p =>
      obtain ⟨v, r1⟩ := p
      simp only [h1] at hd
      cases h2 : decodeN dec n r1 with
      | error e => simp [h2] at hd
      | ok q =>
        obtain ⟨vs', r2⟩ := q
        simp only [h2] at hd
        simp at hd
        obtain ⟨rfl, rfl⟩ := hd
        obtain ⟨ha, hl⟩ := ih r1 vs' r2 h2
        simp [Value.all, Value.len, h b v r1 h1, ha, hl]

theorem readBody_ok {n : Nat} {r : Bytes} {v : Value} {rest : Bytes} (h : readBody n r = .ok (v, rest)) :
    ∃ b, v = .bytes b ∧ b.length = n ∧ r = b ++ rest := by
  unfold readBody at h
  cases ht : takeN n r with
  | none => simp [ht] at h
  | some q =>
    obtain ⟨x, y⟩ := q
    simp [ht] at h
    obtain ⟨rfl, rfl⟩ := h
    obtain ⟨h1, h2⟩ := takeN_some ht
    exact ⟨x, rfl, h2, h1⟩

/-- The decoder only returns values whose every length is within the limit it enforces: an input with
an oversized length anywhere inside — however deeply nested — is never accepted. -/
theorem decode_ok_within : ∀ (s : Schema), s.wf = true → ∀ (b : Bytes) (v : Value) (rest : Bytes),
    decode s b = .ok (v, rest) → Value.within s v = true := by
  intro s
  induction s with
  | uint max =>
    intro _ b v rest h
    simp only [decode] at h
    cases hr : readHdr b with
    | error e => simp [hr] at h
    | ok p =>
      obtain ⟨maj, n, r⟩ := p
      simp only [hr] at h
      split at h
      · simp at h
      · split at h
        · simp at h
        · simp at h; obtain ⟨rfl, rfl⟩ := h; simp [Value.within]; omega
  | int64 =>
    intro _ b v rest h
    simp only [decode] at h
    cases hr : readHdr b with
    | error e => simp [hr] at h
    | ok p =>
      obtain ⟨maj, n, r⟩ := p
      simp only [hr] at h
      split at h
      · split at h
        · simp at h
        · simp at h; obtain ⟨rfl, rfl⟩ := h; simp [Value.within]; omega
      · split at h
        · split at h
          · simp at h
          · simp at h; obtain ⟨rfl, rfl⟩ := h; simp [Value.within]; omega
        · simp at h
  | bool =>
    intro _ b v rest h
    simp only [decode] at h
    cases hr : readHdr b with
    | error e => simp [hr] at h
    | ok p =>
      obtain ⟨maj, n, r⟩ := p
      simp only [hr] at h
      split at h
      · simp at h
      · split at h
        · simp at h; obtain ⟨rfl, rfl⟩ := h; rfl
        · split at h
          · simp at h; obtain ⟨rfl, rfl⟩ := h; rfl
          · simp at h
  | bytes l =>
    intro _ b v rest h
    simp only [decode] at h
    cases hr : readHdr b with
    | error e => simp [hr] at h
    | ok p =>
      obtain ⟨maj, n, r⟩ := p
      simp only [hr] at h
      split at h
      · simp at h
      · split at h
        · simp at h
        · obtain ⟨x, rfl, hl, _⟩ := readBody_ok h
          simp [Value.within]; omega
  | fixed encN decN l =>
    intro _ b v rest h
    simp only [decode] at h
    cases hr : readHdr b with
    | error e => simp [hr] at h
    | ok p =>
      obtain ⟨maj, n, r⟩ := p
      simp only [hr] at h
      split at h
      · simp at h
      · split at h
        · simp at h
        · split at h
          · simp at h
          · obtain ⟨x, rfl, hl, _⟩ := readBody_ok h
            simp [Value.within]; omega
  | cid =>
    intro _ b v rest h
    simp only [decode] at h
    cases hr : readHdr b with
    | error e => simp [hr] at h
    | ok p =>
      obtain ⟨maj, n, r⟩ := p
      simp only [hr] at h
      split at h
      · simp at h
      · split at h
        · simp at h
        · cases hr2 : readHdr r with
          | error e => simp [hr2] at h
          | ok p2 =>
            obtain ⟨maj2, n2, r2⟩ := p2
            simp only [hr2] at h
            split at h
            · simp at h
            · split at h
              · simp at h
              · cases ht : takeN n2 r2 with
                | none => simp [ht] at h
                | some q =>
                  obtain ⟨buf, r3⟩ := q
                  simp only [ht] at h
                  obtain ⟨_, hlen⟩ := takeN_some ht
                  split at h
                  · split at h
                    · simp at h; obtain ⟨rfl, rfl⟩ := h
                      simp at hlen
                      simp [Value.within, *]; omega
                    · simp at h
                  · simp at h
  | bigint =>
    intro _ b v rest h
    simp only [decode] at h
    cases hr : readHdr b with
    | error e => simp [hr] at h
    | ok p =>
      obtain ⟨maj, n, r⟩ := p
      simp only [hr] at h
      split at h
      · simp at h
      · split at h
        · simp at h; obtain ⟨rfl, rfl⟩ := h; rfl
        · split at h
          · simp at h
          · cases ht : takeN n r with
            | none => simp [ht] at h
            | some q =>
              obtain ⟨buf, r3⟩ := q
              simp only [ht] at h
              split at h
              · simp at h; obtain ⟨rfl, rfl⟩ := h; rfl
              · simp at h; obtain ⟨rfl, rfl⟩ := h; rfl
              · simp at h
  | bitfield =>
    intro _ b v rest h
    simp only [decode] at h
    cases hr : readHdr b with
    | error e => simp [hr] at h
    | ok p =>
      obtain ⟨maj, n, r⟩ := p
      simp only [hr] at h
      split at h
      · simp at h
      · split at h
        · simp at h
        · cases ht : takeN n r with
          | none => simp [ht] at h
          | some q =>
            obtain ⟨buf, r3⟩ := q
            simp only [ht] at h
            obtain ⟨_, hlen⟩ := takeN_some ht
            split at h
            · simp at h; obtain ⟨rfl, rfl⟩ := h
              simp [Value.within]; omega
            · simp at h
  | array l e ih =>
    intro hwf b v rest h
    simp only [Schema.wf, Bool.and_eq_true] at hwf
    have ih := ih hwf.1.2
    simp only [decode] at h
    cases hr : readHdr b with
    | error e => simp [hr] at h
    | ok p =>
      obtain ⟨maj, n, r⟩ := p
      simp only [hr] at h
      split at h
      · simp at h
      · split at h
        · simp at h
        · obtain ⟨ha, hl⟩ := decodeN_within (decode e) (Value.within e) ih n r v rest h
          simp [Value.within, ha, hl]; omega
  | tuple encN decN fs ih =>
    intro hwf b v rest h
    simp only [Schema.wf, Bool.and_eq_true] at hwf
    have ih := ih hwf.2
    simp only [decode] at h
    cases hr : readHdr b with
    | error e => simp [hr] at h
    | ok p =>
      obtain ⟨maj, n, r⟩ := p
      simp only [hr] at h
      split at h
      · simp at h
      · split at h
        · simp at h
        · simpa [Value.within] using ih r v rest h
  | tnil =>
    intro _ b v rest h
    simp [decode] at h; obtain ⟨rfl, rfl⟩ := h; rfl
  | tcons x y ihx ihy =>
    intro hwf b v rest h
    simp only [Schema.wf, Bool.and_eq_true] at hwf
    have ihx := ihx hwf.1
    have ihy := ihy hwf.2
    simp only [decode] at h
    cases h1 : decode x b with
    | error e => simp [h1] at h
    | ok p =>
      obtain ⟨v1, r1⟩ := p
      simp only [h1] at h
      cases h2 : decode y r1 with
      | error e => simp [h2] at h
      | ok q =>
        obtain ⟨v2, r2⟩ := q
        simp only [h2] at h
        simp at h; obtain ⟨rfl, rfl⟩ := h
        simp [Value.within, ihx b v1 r1 h1, ihy r1 v2 r2 h2]
  | nullable s ih =>
    intro hwf b v rest h
    simp only [Schema.wf, Bool.and_eq_true] at hwf
    have ih := ih hwf.1
    cases b with
    | nil => simp [decode] at h
    | cons x r =>
      simp only [decode] at h
      split at h
      · simp at h; obtain ⟨rfl, rfl⟩ := h; rfl
      · have := ih (x :: r) v rest h
        cases v <;> simp_all [Value.within]
  | nullAsEmpty s ih =>
    intro hwf b v rest h
    simp only [Schema.wf, Bool.and_eq_true] at hwf
    have ih := ih hwf.1
    cases b with
    | nil => simp [decode] at h
    | cons x r =>
      simp only [decode] at h
      split at h
      · simp at h; obtain ⟨rfl, rfl⟩ := h
        cases s with
        | array l e => simp [Value.within, Value.len, Value.all]
        | _ => simp at hwf
      · simpa [Value.within] using ih (x :: r) v rest h


end F3.Cbor
