import F3.Model.Equiv
/-! Helper lemmas for C12: association lists and the behaviour of `Filter.processBroadcast` under the
filter invariant. Core-only. -/
namespace F3.Equiv

section alist
variable {κ ν : Type} [DecidableEq κ]

theorem alookup_aset_self (k : κ) (v : ν) (l : List (κ × ν)) : alookup k (aset k v l) = some v := by
  induction l with
  | nil => simp [aset, alookup]
  | cons h t ih =>
    obtain ⟨k', v'⟩ := h
    by_cases hk : k' = k
    · simp [aset, alookup, hk]
    · simp [aset, alookup, hk, ih]

theorem alookup_aset_ne {k k' : κ} (h : k' ≠ k) (v : ν) (l : List (κ × ν)) :
    alookup k' (aset k v l) = alookup k' l := by
  induction l with
  | nil => simp [aset, alookup, Ne.symm h]
  | cons hd t ih =>
    obtain ⟨k2, v2⟩ := hd
    by_cases hk : k2 = k
    · subst hk; simp [aset, alookup, Ne.symm h]
    · by_cases hk' : k2 = k'
      · subst hk'; simp [aset, alookup, hk]
      · simp [aset, alookup, hk, hk', ih]

theorem alookup_append_single (k k' : κ) (v : ν) (l : List (κ × ν)) :
    alookup k (l ++ [(k', v)]) =
      match alookup k l with
      | some x => some x
      | none => if k' = k then some v else none := by
  induction l with
  | nil => simp [alookup]
  | cons hd t ih =>
    obtain ⟨k2, v2⟩ := hd
    by_cases hk : k2 = k
    · simp [alookup, hk]
    · simp [alookup, hk, ih]

end alist

theorem Senders.add_equivocation_false (es : Senders) (id : Peer) :
    (es.add id false).equivocation = es.equivocation := by
  simp [Senders.add]

theorem slot_eq_iff {a b : Msg} : a.slot = b.slot ↔ a.inst = b.inst ∧ a.key = b.key := by
  simp only [Msg.slot, Msg.key, Prod.mk.injEq, Key.mk.injEq]

/-- no two entries for one slot with different signatures -/
def Consistent (E : List Msg) : Prop := ∀ a ∈ E, ∀ b ∈ E, a.slot = b.slot → a.sig = b.sig

theorem consistent_iff_noEquiv (E : List Msg) : Consistent E ↔ NoEquiv E := Iff.rfl

/-- The filter invariant relative to a set `E` of recorded messages and a floor `F` below which no
request arrives any more:
* every recorded message is at or below the filter's instance (or below the floor);
* the recorded messages of the filter's instance are exactly what `seenMessages` holds, as the node's own;
* no sender is flagged as equivocating, and only own identities are tracked. -/
structure FilterInv (own : Nat → Bool) (F : Nat) (f : Filter) (E : List Msg) : Prop where
  le : ∀ e ∈ E, e.inst ≤ f.cur ∨ e.inst < F
  seen_of : ∀ e ∈ E, e.inst = f.cur → F ≤ e.inst → alookup e.key f.seen = some ⟨e.sig, f.localPID⟩
  of_seen : ∀ k v, alookup k f.seen = some v →
    v.origin = f.localPID ∧ ∃ e ∈ E, e.inst = f.cur ∧ e.key = k ∧ e.sig = v.sig
  active_ok : ∀ sd v, alookup sd f.active = some v → v.equivocation = false ∧ own sd = true
  cur_wit : f.cur = 0 ∨ ∃ e ∈ E, e.inst = f.cur

theorem filterInv_new (own : Nat → Bool) (F : Nat) (l : Peer) : FilterInv own F (Filter.new l) [] where
  le := by intro e he; cases he
  seen_of := by intro e he; cases he
  of_seen := by intro k v h; simp [Filter.new, alookup] at h
  active_ok := by intro sd v h; simp [Filter.new, alookup] at h
  cur_wit := Or.inl rfl

/-- The invariant only depends on which messages are recorded, not on their order or multiplicity. -/
theorem FilterInv.congr {own : Nat → Bool} {F : Nat} {f : Filter} {E E' : List Msg}
    (h : FilterInv own F f E) (hmem : ∀ e, e ∈ E ↔ e ∈ E') : FilterInv own F f E' where
  le := fun e he => h.le e ((hmem e).mpr he)
  seen_of := fun e he => h.seen_of e ((hmem e).mpr he)
  of_seen := fun k v hk =>
    let ⟨h1, e, he, h2⟩ := h.of_seen k v hk
    ⟨h1, e, (hmem e).mp he, h2⟩
  active_ok := h.active_ok
  cur_wit := h.cur_wit.imp id (fun ⟨e, he, h2⟩ => ⟨e, (hmem e).mp he, h2⟩)

/-- A message below the filter's instance is refused and changes nothing. -/
theorem pb_past (f : Filter) (m : Msg) (h : m.inst < f.cur) : f.processBroadcast m = (f, false) := by
  simp [Filter.processBroadcast, h]

/-- Recording a refused-as-past message keeps the invariant. -/
theorem FilterInv.add_past {own : Nat → Bool} {F : Nat} {f : Filter} {E : List Msg}
    (h : FilterInv own F f E) {m : Msg} (hm : m.inst < f.cur) : FilterInv own F f (E ++ [m]) where
  le := by
    intro e he
    rcases List.mem_append.mp he with he | he
    · exact h.le e he
    · simp only [List.mem_singleton] at he; subst he; exact Or.inl (Nat.le_of_lt hm)
  seen_of := by
    intro e he hc hF
    rcases List.mem_append.mp he with he | he
    · exact h.seen_of e he hc hF
    · simp only [List.mem_singleton] at he; subst he; omega
  of_seen := by
    intro k v hk
    obtain ⟨h1, e, he, h2⟩ := h.of_seen k v hk
    exact ⟨h1, e, List.mem_append_left _ he, h2⟩
  active_ok := h.active_ok
  cur_wit := h.cur_wit.imp id (fun ⟨e, he, h2⟩ => ⟨e, List.mem_append_left _ he, h2⟩)


theorem pb_gt (f : Filter) (m : Msg) (h : f.cur < m.inst) :
    f.processBroadcast m =
      (⟨f.localPID, m.inst, [(m.key, ⟨m.sig, f.localPID⟩)], [(m.sender, ⟨[f.localPID], false⟩)]⟩, true) := by
  have h1 : ¬ m.inst < f.cur := by omega
  simp [Filter.processBroadcast, h1, h, alookup, Senders.add, sortPeers, insertPeer, aset]

/-- same instance, slot not seen yet -/
theorem pb_eq_none (f : Filter) (m : Msg) (h : m.inst = f.cur) (hn : alookup m.key f.seen = none) :
    f.processBroadcast m =
      (let senders := ((alookup m.sender f.active).getD ⟨[], false⟩).add f.localPID false
       ({ f with seen := f.seen ++ [(m.key, ⟨m.sig, f.localPID⟩)], active := aset m.sender senders f.active },
        if !senders.equivocation then true else senders.origins.head? == some f.localPID)) := by
  have h1 : ¬ m.inst < f.cur := by omega
  have h2 : ¬ m.inst > f.cur := by omega
  simp [Filter.processBroadcast, h1, h2, hn]

/-- same instance, slot seen with the same signature -/
theorem pb_eq_same (f : Filter) (m : Msg) (h : m.inst = f.cur) (info : Seen)
    (hs : alookup m.key f.seen = some info) (hsig : info.sig = m.sig) :
    f.processBroadcast m =
      (let senders := ((alookup m.sender f.active).getD ⟨[], false⟩).add f.localPID false
       ({ f with active := aset m.sender senders f.active },
        if !senders.equivocation then true else senders.origins.head? == some f.localPID)) := by
  have h1 : ¬ m.inst < f.cur := by omega
  have h2 : ¬ m.inst > f.cur := by omega
  simp [Filter.processBroadcast, h1, h2, hs, hsig]

/-- same instance, slot seen with another signature of this node: refused, nothing changes -/
theorem pb_eq_conflict (f : Filter) (m : Msg) (h : m.inst = f.cur) (info : Seen)
    (hs : alookup m.key f.seen = some info) (hsig : info.sig ≠ m.sig) (ho : info.origin = f.localPID) :
    f.processBroadcast m = (f, false) := by
  have h1 : ¬ m.inst < f.cur := by omega
  have h2 : ¬ m.inst > f.cur := by omega
  simp [Filter.processBroadcast, h1, h2, hs, hsig, ho]


/-- Outcome of `ProcessBroadcast` for an admissible request under the invariant: either it is refused
and nothing changes — and then the request is for a past instance or conflicts with a recorded
message — or it is allowed, it conflicts with nothing recorded, and the invariant holds with the
message recorded. -/
theorem FilterInv.pb_cases {own : Nat → Bool} {F : Nat} {f : Filter} {E : List Msg}
    (h : FilterInv own F f E) (m : Msg) (hF : F ≤ m.inst) (hown : own m.sender = true) :
    (f.processBroadcast m = (f, false) ∧
        (m.inst < f.cur ∨ ∃ e ∈ E, e.slot = m.slot ∧ e.sig ≠ m.sig)) ∨
    (∃ f', f.processBroadcast m = (f', true) ∧ FilterInv own F f' (E ++ [m]) ∧
        (∀ e ∈ E, e.slot = m.slot → e.sig = m.sig) ∧ f.cur ≤ m.inst ∧ f'.localPID = f.localPID ∧
        f'.cur = m.inst) := by
  rcases Nat.lt_trichotomy m.inst f.cur with hlt | heq | hgt
  · exact Or.inl ⟨pb_past f m hlt, Or.inl hlt⟩
  · -- same instance
    cases hs : alookup m.key f.seen with
    | none =>
      right
      have hnoconf : ∀ e ∈ E, e.slot = m.slot → e.sig = m.sig := by
        intro e he hslot
        obtain ⟨hi, hk⟩ := slot_eq_iff.mp hslot
        have := h.seen_of e he (hi.trans heq) (by omega)
        rw [hk, hs] at this; cases this
      have hsend : (((alookup m.sender f.active).getD ⟨[], false⟩).add f.localPID false).equivocation = false := by
        rw [Senders.add_equivocation_false]
        cases ha : alookup m.sender f.active with
        | none => rfl
        | some v => exact (h.active_ok _ v ha).1
      refine ⟨{ f with seen := f.seen ++ [(m.key, ⟨m.sig, f.localPID⟩)],
                       active := aset m.sender (((alookup m.sender f.active).getD ⟨[], false⟩).add f.localPID false) f.active },
              ?_, ?_, hnoconf, by omega, rfl, heq.symm⟩
      · rw [pb_eq_none f m heq hs]; simp only [hsend]; rfl
      · constructor
        · intro e he
          rcases List.mem_append.mp he with he | he
          · exact h.le e he
          · simp only [List.mem_singleton] at he; subst he; exact Or.inl (by simp [heq])
        · intro e he hc hFe
          simp only at hc ⊢
          rw [alookup_append_single]
          rcases List.mem_append.mp he with he | he
          · rw [h.seen_of e he hc hFe]
          · simp only [List.mem_singleton] at he; subst he; simp [hs]
        · intro k v hk
          simp only at hk ⊢
          rw [alookup_append_single] at hk
          cases hold : alookup k f.seen with
          | some x =>
            rw [hold] at hk; simp only [Option.some.injEq] at hk; subst hk
            obtain ⟨h1, e, he, h2⟩ := h.of_seen k x hold
            exact ⟨h1, e, List.mem_append_left _ he, h2⟩
          | none =>
            rw [hold] at hk
            by_cases hkk : m.key = k
            · simp only [hkk, if_true, Option.some.injEq] at hk; subst hk
              exact ⟨rfl, m, by simp, heq, hkk, rfl⟩
            · simp [hkk] at hk
        · intro sd v hv
          simp only at hv
          by_cases hsd : sd = m.sender
          · subst hsd; rw [alookup_aset_self] at hv; cases hv; exact ⟨hsend, hown⟩
          · rw [alookup_aset_ne hsd] at hv; exact h.active_ok sd v hv
        · exact Or.inr ⟨m, by simp, heq⟩
    | some info =>
      obtain ⟨horig, e0, he0, hi0, hk0, hs0⟩ := h.of_seen _ info hs
      by_cases hsig : info.sig = m.sig
      · right
        have hnoconf : ∀ e ∈ E, e.slot = m.slot → e.sig = m.sig := by
          intro e he hslot
          obtain ⟨hi, hk⟩ := slot_eq_iff.mp hslot
          have := h.seen_of e he (hi.trans heq) (by omega)
          rw [hk, hs] at this
          simp only [Option.some.injEq] at this
          rw [← hsig, this]
        have hsend : (((alookup m.sender f.active).getD ⟨[], false⟩).add f.localPID false).equivocation = false := by
          rw [Senders.add_equivocation_false]
          cases ha : alookup m.sender f.active with
          | none => rfl
          | some v => exact (h.active_ok _ v ha).1
        refine ⟨{ f with active := aset m.sender (((alookup m.sender f.active).getD ⟨[], false⟩).add f.localPID false) f.active },
                ?_, ?_, hnoconf, by omega, rfl, heq.symm⟩
        · rw [pb_eq_same f m heq info hs hsig]; simp only [hsend]; rfl
        · constructor
          · intro e he
            rcases List.mem_append.mp he with he | he
            · exact h.le e he
            · simp only [List.mem_singleton] at he; subst he; exact Or.inl (by simp [heq])
          · intro e he hc hFe
            simp only at hc ⊢
            rcases List.mem_append.mp he with he | he
            · exact h.seen_of e he hc hFe
            · simp only [List.mem_singleton] at he; subst he
              rw [hs]; congr 1
              cases info; simp only at hsig horig; subst hsig; subst horig; rfl
          · intro k v hk
            obtain ⟨h1, e, he, h2⟩ := h.of_seen k v hk
            exact ⟨h1, e, List.mem_append_left _ he, h2⟩
          · intro sd v hv
            simp only at hv
            by_cases hsd : sd = m.sender
            · subst hsd; rw [alookup_aset_self] at hv; cases hv; exact ⟨hsend, hown⟩
            · rw [alookup_aset_ne hsd] at hv; exact h.active_ok sd v hv
          · exact Or.inr ⟨m, by simp, heq⟩
      · left
        refine ⟨pb_eq_conflict f m heq info hs hsig horig, Or.inr ⟨e0, he0, ?_, ?_⟩⟩
        · exact slot_eq_iff.mpr ⟨hi0.trans heq.symm, hk0⟩
        · rw [hs0]; exact hsig
  · -- a newer instance
    right
    have hnoconf : ∀ e ∈ E, e.slot = m.slot → e.sig = m.sig := by
      intro e he hslot
      obtain ⟨hi, _⟩ := slot_eq_iff.mp hslot
      rcases h.le e he with h1 | h1 <;> omega
    refine ⟨_, pb_gt f m hgt, ?_, hnoconf, by omega, rfl, rfl⟩
    constructor
    · intro e he
      rcases List.mem_append.mp he with he | he
      · rcases h.le e he with h1 | h1
        · exact Or.inl (by simp only; omega)
        · exact Or.inr h1
      · simp only [List.mem_singleton] at he; subst he; exact Or.inl (Nat.le_refl _)
    · intro e he hc hFe
      simp only at hc ⊢
      rcases List.mem_append.mp he with he | he
      · rcases h.le e he with h1 | h1 <;> omega
      · simp only [List.mem_singleton] at he; subst he; simp [alookup]
    · intro k v hk
      simp only [alookup] at hk
      split at hk
      · next hkk =>
        simp only [Option.some.injEq] at hk; subst hk
        exact ⟨rfl, m, by simp, rfl, hkk, rfl⟩
      · cases hk
    · intro sd v hv
      simp only [alookup] at hv
      split at hv
      · next hsd => simp only [Option.some.injEq] at hv; subst hv; subst hsd; exact ⟨rfl, hown⟩
      · cases hv
    · exact Or.inr ⟨m, by simp, rfl⟩


theorem Consistent.of_append_left {E R : List Msg} (h : Consistent (E ++ R)) : Consistent E :=
  fun a ha b hb => h a (List.mem_append_left _ ha) b (List.mem_append_left _ hb)

theorem Consistent.sub {E E' : List Msg} (h : Consistent E) (hs : ∀ e ∈ E', e ∈ E) : Consistent E' :=
  fun a ha b hb => h a (hs a ha) b (hs b hb)

theorem Consistent.snoc {E : List Msg} {m : Msg} (h : Consistent E)
    (hm : ∀ e ∈ E, e.slot = m.slot → e.sig = m.sig) : Consistent (E ++ [m]) := by
  intro a ha b hb hslot
  rcases List.mem_append.mp ha with ha1 | ha1 <;> rcases List.mem_append.mp hb with hb1 | hb1
  · exact h a ha1 b hb1 hslot
  · simp only [List.mem_singleton] at hb1; rw [hb1] at hslot ⊢; exact hm a ha1 hslot
  · simp only [List.mem_singleton] at ha1; rw [ha1] at hslot ⊢; exact (hm b hb1 hslot.symm).symm
  · simp only [List.mem_singleton] at ha1 hb1; rw [ha1, hb1]

/-- Feeding a consistent list of own messages through `ProcessBroadcast` (the WAL replay of
`newRunner`) establishes the invariant for that list, with floor 0. -/
theorem fold_inv {own : Nat → Bool} (R : List Msg) (f : Filter) (E : List Msg)
    (h : FilterInv own 0 f E) (hc : Consistent (E ++ R)) (hown : ∀ e ∈ R, own e.sender = true) :
    FilterInv own 0 (R.foldl (fun f m => (f.processBroadcast m).1) f) (E ++ R) ∧
    (R.foldl (fun f m => (f.processBroadcast m).1) f).localPID = f.localPID := by
  induction R generalizing f E with
  | nil => simpa using h
  | cons m R ih =>
    simp only [List.foldl_cons]
    have hc' : Consistent ((E ++ [m]) ++ R) := by simpa using hc
    have hown' : ∀ e ∈ R, own e.sender = true := fun e he => hown e (List.mem_cons_of_mem _ he)
    rcases h.pb_cases m (Nat.zero_le _) (hown m (by simp)) with ⟨hrej, hwhy⟩ | ⟨f', hacc, hinv, _, _, hl, _⟩
    · rw [hrej]
      rcases hwhy with hpast | ⟨e, he, hslot, hne⟩
      · have := ih f (E ++ [m]) (h.add_past hpast) hc' hown'
        simpa using this
      · exfalso
        exact hne (hc e (List.mem_append_left _ he) m (by simp) hslot)
    · rw [hacc]
      have := ih f' (E ++ [m]) hinv hc' hown'
      rw [hl] at this
      simpa using this

theorem rearm_inv {own : Nat → Bool} (l : Peer) (wal : List Msg) (hc : Consistent wal)
    (hown : ∀ e ∈ wal, own e.sender = true) :
    FilterInv own 0 (rearm l wal) wal ∧ (rearm l wal).localPID = l := by
  have := fold_inv (own := own) wal (Filter.new l) [] (filterInv_new own 0 l) (by simpa using hc) hown
  simpa [rearm, Filter.new] using this

/-- `ProcessReceive` for a sender the node does not sign for changes nothing. -/
theorem FilterInv.receive_noop {own : Nat → Bool} {F : Nat} {f : Filter} {E : List Msg}
    (h : FilterInv own F f E) (p : Peer) (m : Msg) (hm : own m.sender = false) :
    f.processReceive p m = f := by
  unfold Filter.processReceive
  split
  · rfl
  · cases ha : alookup m.sender f.active with
    | none => rfl
    | some v => have := (h.active_ok _ v ha).2; rw [hm] at this; cases this

theorem purgeWal_sub (k : Nat) (wal keep : List Msg) : ∀ e ∈ purgeWal k wal keep, e ∈ wal := by
  induction wal generalizing keep with
  | nil => intro e he; simp [purgeWal] at he
  | cons a t ih =>
    intro e he
    simp only [purgeWal] at he
    split at he
    · rcases List.mem_cons.mp he with rfl | he
      · simp
      · exact List.mem_cons_of_mem _ (ih _ e he)
    · split at he
      · rcases List.mem_cons.mp he with rfl | he
        · simp
        · exact List.mem_cons_of_mem _ (ih _ e he)
      · exact List.mem_cons_of_mem _ (ih _ e he)

theorem mem_purgeWal_of_ge (k : Nat) (wal keep : List Msg) (e : Msg) (he : e ∈ wal) (hk : k ≤ e.inst) :
    e ∈ purgeWal k wal keep := by
  induction wal generalizing keep with
  | nil => cases he
  | cons a t ih =>
    simp only [purgeWal]
    rcases List.mem_cons.mp he with rfl | he
    · simp [hk]
    · split
      · exact List.mem_cons_of_mem _ (ih _ he)
      · split
        · exact List.mem_cons_of_mem _ (ih _ he)
        · exact ih _ he

end F3.Equiv
