import F3.Model.Store
/-! Helper lemmas about the datastore model (`dsGet` / `dsPut` / `dsDel` / `applyWs`). -/
namespace F3.Store

@[simp] theorem dsGet_nil (k : Key) : dsGet [] k = none := rfl

theorem dsGet_cons (k' : Key) (v : Val) (r : DS) (k : Key) :
    dsGet ((k', v) :: r) k = if k' = k then some v else dsGet r k := rfl

theorem dsDel_nil (k : Key) : dsDel [] k = [] := rfl

theorem dsDel_cons (k' : Key) (v : Val) (r : DS) (k : Key) :
    dsDel ((k', v) :: r) k = if k' = k then dsDel r k else (k', v) :: dsDel r k := by
  by_cases h : k' = k <;> simp [dsDel, List.filter_cons, h]

theorem dsGet_dsDel_same (ds : DS) (k : Key) : dsGet (dsDel ds k) k = none := by
  induction ds with
  | nil => rfl
  | cons kv r ih =>
    obtain ⟨k', v⟩ := kv
    rw [dsDel_cons]
    by_cases h : k' = k
    · simp [h, ih]
    · simp [h, dsGet_cons, ih]

theorem dsGet_dsDel_other (ds : DS) {k k' : Key} (h : k' ≠ k) : dsGet (dsDel ds k) k' = dsGet ds k' := by
  induction ds with
  | nil => rfl
  | cons kv r ih =>
    obtain ⟨k1, v⟩ := kv
    rw [dsDel_cons]
    by_cases h1 : k1 = k
    · have h3 : ¬ k1 = k' := fun e => h (e.symm.trans h1)
      simp [h1, dsGet_cons, ih]
      intro e; exact absurd e.symm h
    · by_cases h2 : k1 = k'
      · subst h2
        simp [h1, dsGet_cons]
      · simp [h1, dsGet_cons, h2, ih]

theorem dsGet_dsPut_same (ds : DS) (k : Key) (v : Val) : dsGet (dsPut ds k v) k = some v := by
  simp [dsPut, dsGet_cons]

theorem dsGet_dsPut_other (ds : DS) {k k' : Key} (v : Val) (h : k' ≠ k) :
    dsGet (dsPut ds k v) k' = dsGet ds k' := by
  have : k ≠ k' := fun e => h e.symm
  simp [dsPut, dsGet_cons, this, dsGet_dsDel_other ds h]

theorem dsGet_dsPut (ds : DS) (k k' : Key) (v : Val) :
    dsGet (dsPut ds k v) k' = if k' = k then some v else dsGet ds k' := by
  by_cases h : k' = k
  · subst h; simp [dsGet_dsPut_same]
  · simp [h, dsGet_dsPut_other ds v h]

theorem dsGet_dsDel (ds : DS) (k k' : Key) :
    dsGet (dsDel ds k) k' = if k' = k then none else dsGet ds k' := by
  by_cases h : k' = k
  · subst h; simp [dsGet_dsDel_same]
  · simp [h, dsGet_dsDel_other ds h]

@[simp] theorem applyWs_nil (ds : DS) : applyWs ds [] = ds := rfl
@[simp] theorem applyWs_cons (ds : DS) (w : W) (ws : List W) : applyWs ds (w :: ws) = applyWs (applyW ds w) ws := rfl
theorem applyWs_append (ds : DS) (a b : List W) : applyWs ds (a ++ b) = applyWs (applyWs ds a) b := by
  simp [applyWs, List.foldl_append]

/-- Keys touched by a write. -/
def W.key : W → Key
  | .put k _ => k
  | .del k => k

theorem dsGet_applyW_other (ds : DS) (w : W) {k : Key} (h : k ≠ w.key) : dsGet (applyW ds w) k = dsGet ds k := by
  cases w with
  | put k' v => exact dsGet_dsPut_other ds v h
  | del k' => exact dsGet_dsDel_other ds h

theorem dsGet_applyWs_other (ds : DS) (ws : List W) {k : Key} (h : ∀ w ∈ ws, k ≠ w.key) :
    dsGet (applyWs ds ws) k = dsGet ds k := by
  induction ws generalizing ds with
  | nil => rfl
  | cons w r ih =>
    rw [applyWs_cons, ih _ (fun w' hw' => h w' (List.mem_cons_of_mem _ hw')), dsGet_applyW_other ds w (h w (List.mem_cons_self ..))]

/-- Membership of a key. -/
theorem mem_dsKeys_iff (ds : DS) (k : Key) : k ∈ dsKeys ds ↔ (dsGet ds k).isSome := by
  induction ds with
  | nil => simp [dsKeys]
  | cons kv r ih =>
    obtain ⟨k', v⟩ := kv
    simp only [dsKeys, List.map_cons, List.mem_cons, dsGet_cons] at ih ⊢
    by_cases h : k' = k
    · simp [h]
    · have : ¬ k = k' := fun e => h e.symm
      simp [h, this, ih]

end F3.Store
