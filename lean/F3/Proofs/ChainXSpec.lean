import F3.Spec.ChainX
import F3.Proofs.ChainXLocal
/-!
# The model satisfies the history specification (`F3.ChainX.Spec`)

`RelAt t i w d` ties the tracker's view of instance `i` to the two caches of that instance; it is
established by `init`, preserved by every operation (`relAt_get`, `relAt_disc`, `relAt_want`,
prune) and implies that `judgeLookup` never complains about the model's own answers.
-/
set_option linter.unusedSectionVars false
set_option linter.unusedSimpArgs false
namespace F3.ChainX
open F3.Lru Spec

/-! ## value discipline -/

structure WOk (cap : Nat) (c : PCache) : Prop where
  wf : WF c
  cap_eq : c.cap = cap
  vals : ∀ k p, c.peek k = some p → p = .placeholder ∨ p = .chain k

structure DOk (cap : Nat) (c : PCache) : Prop where
  wf : WF c
  cap_eq : c.cap = cap
  vals : ∀ k p, c.peek k = some p → p = .chain k

theorem peek_empty (cap : Nat) (k : Key) : (Lru.empty cap : PCache).peek k = none := rfl

theorem wok_empty {cap : Nat} (h : 0 < cap) : WOk cap (Lru.empty cap) :=
  ⟨wf_empty h, rfl, fun k p hp => by simp [peek_empty] at hp⟩

theorem dok_empty {cap : Nat} (h : 0 < cap) : DOk cap (Lru.empty cap) :=
  ⟨wf_empty h, rfl, fun k p hp => by simp [peek_empty] at hp⟩

theorem wok_get {cap : Nat} {c : PCache} (k : Key) (h : WOk cap c) : WOk cap (c.get k).1 :=
  ⟨wf_get k h.wf, by simp [h.cap_eq], fun k' p hp => h.vals k' p (by rwa [peek_get] at hp)⟩

theorem dok_get {cap : Nat} {c : PCache} (k : Key) (h : DOk cap c) : DOk cap (c.get k).1 :=
  ⟨wf_get k h.wf, by simp [h.cap_eq], fun k' p hp => h.vals k' p (by rwa [peek_get] at hp)⟩

theorem wok_add {cap : Nat} {c : PCache} (k : Key) {v : Portion} (h : WOk cap c)
    (hv : v = .placeholder ∨ v = .chain k) : WOk cap (c.add k v).1 := by
  refine ⟨wf_add k v h.wf, by simp [h.cap_eq], fun k' p hp => ?_⟩
  rcases peek_add_origin c k k' v p hp with ⟨rfl, rfl⟩ | h'
  · exact hv
  · exact h.vals k' p h'

theorem dok_add {cap : Nat} {c : PCache} (k : Key) (h : DOk cap c) : DOk cap (c.add k (.chain k)).1 := by
  refine ⟨wf_add k _ h.wf, by simp [h.cap_eq], fun k' p hp => ?_⟩
  rcases peek_add_origin c k k' _ p hp with ⟨rfl, rfl⟩ | h'
  · rfl
  · exact h.vals k' p h'

theorem wok_containsOrAdd {cap : Nat} {c : PCache} (k : Key) {v : Portion} (h : WOk cap c)
    (hv : v = .placeholder ∨ v = .chain k) : WOk cap (c.containsOrAdd k v).1 := by
  unfold Cache.containsOrAdd
  by_cases hc : c.contains k = true
  · simp [hc, h]
  · simp only [hc]; exact wok_add k h hv

theorem dok_containsOrAdd {cap : Nat} {c : PCache} (k : Key) (h : DOk cap c) :
    DOk cap (c.containsOrAdd k (.chain k)).1 := by
  unfold Cache.containsOrAdd
  by_cases hc : c.contains k = true
  · simp [hc, h]
  · simp only [hc]; exact dok_add k h

theorem dok_remove {cap : Nat} {c : PCache} (k : Key) (h : DOk cap c) : DOk cap (c.remove k).1 := by
  refine ⟨wf_remove k h.wf, by simp [h.cap_eq], fun k' p hp => ?_⟩
  rw [peek_remove] at hp
  by_cases hk : k' = k
  · simp [hk] at hp
  · simp only [hk, if_false] at hp; exact h.vals k' p hp

/-! ## the relation between tracker and caches of one instance -/

structure RelAt (t : Tracker) (i : Nat) (w d : PCache) : Prop where
  wok : WOk t.capW w
  dok : DOk t.capD d
  a : ∀ K, t.w i K = none → w.peek K = none
  b : ∀ K wt, t.w i K = some wt → wt.since.length < t.capW →
        Holds w K wt.since ∧ (wt.hasContent = true → w.peek K = some (.chain K))
  c : ∀ K ds, t.w i K = none → t.d i K = some ds → ds.length < t.capD → Holds d K ds
  f : ∀ K, t.w i K = none → t.d i K = none → d.peek K = none
  ew : ∀ K c, w.peek K = some (.chain c) → t.delivered i K = true
  ed : ∀ K p, d.peek K = some p → t.delivered i K = true

theorem relAt_congr {t t' : Tracker} {i : Nat} {w d : PCache}
    (hW : t'.capW = t.capW) (hD : t'.capD = t.capD) (hw : t'.w i = t.w i) (hd : t'.d i = t.d i)
    (hdel : t'.delivered i = t.delivered i) (h : RelAt t i w d) : RelAt t' i w d :=
  ⟨hW ▸ h.wok, hD ▸ h.dok, fun K hK => h.a K (by rw [← hw]; exact hK),
   fun K wt hK hl => h.b K wt (by rw [← hw]; exact hK) (by rw [← hW]; exact hl),
   fun K ds hK hd' hl => h.c K ds (by rw [← hw]; exact hK) (by rw [← hd]; exact hd') (by rw [← hD]; exact hl),
   fun K hK hd' => h.f K (by rw [← hw]; exact hK) (by rw [← hd]; exact hd'),
   fun K c hp => by rw [hdel]; exact h.ew K c hp,
   fun K p hp => by rw [hdel]; exact h.ed K p hp⟩

theorem relAt_init (cw cd : Nat) (hw : 0 < cw) (hd : 0 < cd) (i : Nat) :
    RelAt (Tracker.init cw cd) i (Lru.empty cw) (Lru.empty cd) :=
  ⟨wok_empty hw, dok_empty hd, fun _ _ => rfl, fun K wt h => by simp [Tracker.init] at h,
   fun K ds _ h => by simp [Tracker.init] at h, fun _ _ _ => rfl,
   fun K c h => by simp [peek_empty] at h, fun K p h => by simp [peek_empty] at h⟩

/-! ## tracker updates, pointwise -/

@[simp] theorem touchW_capW (t : Tracker) (i : Nat) (x : Key) : (touchW t i x).capW = t.capW := rfl
@[simp] theorem touchW_capD (t : Tracker) (i : Nat) (x : Key) : (touchW t i x).capD = t.capD := rfl
@[simp] theorem touchW_d (t : Tracker) (i : Nat) (x : Key) : (touchW t i x).d = t.d := rfl
@[simp] theorem touchW_delivered (t : Tracker) (i : Nat) (x : Key) : (touchW t i x).delivered = t.delivered := rfl
@[simp] theorem touchD_capW (t : Tracker) (i : Nat) (x : Key) : (touchD t i x).capW = t.capW := rfl
@[simp] theorem touchD_capD (t : Tracker) (i : Nat) (x : Key) : (touchD t i x).capD = t.capD := rfl
@[simp] theorem touchD_w (t : Tracker) (i : Nat) (x : Key) : (touchD t i x).w = t.w := rfl
@[simp] theorem touchD_delivered (t : Tracker) (i : Nat) (x : Key) : (touchD t i x).delivered = t.delivered := rfl
@[simp] theorem setW_capW (t : Tracker) (i : Nat) (k : Key) (v) : (setW t i k v).capW = t.capW := rfl
@[simp] theorem setW_capD (t : Tracker) (i : Nat) (k : Key) (v) : (setW t i k v).capD = t.capD := rfl
@[simp] theorem setW_d (t : Tracker) (i : Nat) (k : Key) (v) : (setW t i k v).d = t.d := rfl
@[simp] theorem setW_delivered (t : Tracker) (i : Nat) (k : Key) (v) : (setW t i k v).delivered = t.delivered := rfl
@[simp] theorem setD_capW (t : Tracker) (i : Nat) (k : Key) (v) : (setD t i k v).capW = t.capW := rfl
@[simp] theorem setD_capD (t : Tracker) (i : Nat) (k : Key) (v) : (setD t i k v).capD = t.capD := rfl
@[simp] theorem setD_w (t : Tracker) (i : Nat) (k : Key) (v) : (setD t i k v).w = t.w := rfl
@[simp] theorem setD_delivered (t : Tracker) (i : Nat) (k : Key) (v) : (setD t i k v).delivered = t.delivered := rfl
@[simp] theorem setDelivered_capW (t : Tracker) (i : Nat) (k : Key) : (setDelivered t i k).capW = t.capW := rfl
@[simp] theorem setDelivered_capD (t : Tracker) (i : Nat) (k : Key) : (setDelivered t i k).capD = t.capD := rfl
@[simp] theorem setDelivered_w (t : Tracker) (i : Nat) (k : Key) : (setDelivered t i k).w = t.w := rfl
@[simp] theorem setDelivered_d (t : Tracker) (i : Nat) (k : Key) : (setDelivered t i k).d = t.d := rfl

theorem touchW_w_same (t : Tracker) (i : Nat) (x K : Key) :
    (touchW t i x).w i K = if K = x then t.w i K else (t.w i K).map (fun wt => { wt with since := ins x wt.since }) := by
  by_cases h : K = x <;> simp [touchW, h]

theorem touchW_w_other (t : Tracker) {i j : Nat} (x : Key) (h : j ≠ i) : (touchW t i x).w j = t.w j := by
  funext K; simp [touchW, h]

theorem touchD_d_same (t : Tracker) (i : Nat) (x K : Key) :
    (touchD t i x).d i K = if K = x then t.d i K else (t.d i K).map (ins x) := by
  by_cases h : K = x <;> simp [touchD, h]

theorem touchD_d_other (t : Tracker) {i j : Nat} (x : Key) (h : j ≠ i) : (touchD t i x).d j = t.d j := by
  funext K; simp [touchD, h]

theorem setW_w_same (t : Tracker) (i : Nat) (k K : Key) (v) :
    (setW t i k v).w i K = if K = k then v else t.w i K := by
  by_cases h : K = k <;> simp [setW, h]

theorem setW_w_other (t : Tracker) {i j : Nat} (k : Key) (v) (h : j ≠ i) : (setW t i k v).w j = t.w j := by
  funext K; simp [setW, h]

theorem setD_d_same (t : Tracker) (i : Nat) (k K : Key) (v) :
    (setD t i k v).d i K = if K = k then v else t.d i K := by
  by_cases h : K = k <;> simp [setD, h]

theorem setD_d_other (t : Tracker) {i j : Nat} (k : Key) (v) (h : j ≠ i) : (setD t i k v).d j = t.d j := by
  funext K; simp [setD, h]

theorem setDelivered_same (t : Tracker) (i : Nat) (k K : Key) :
    (setDelivered t i k).delivered i K = if K = k then true else t.delivered i K := by
  by_cases h : K = k <;> simp [setDelivered, h]

theorem setDelivered_other (t : Tracker) {i j : Nat} (k : Key) (h : j ≠ i) :
    (setDelivered t i k).delivered j = t.delivered j := by
  funext K; simp [setDelivered, h]

theorem insNew_idem {α : Type} [DecidableEq α] (x : α) (F : List α) : insNew x (insNew x F) = insNew x F := by
  have : x ∈ insNew x F := mem_insNew.mpr (Or.inl rfl)
  generalize insNew x F = G at this ⊢
  unfold insNew
  simp [this]

/-! ## helper: what touching key `p` does to the OTHER keys -/

/-- `w1` is `w` after a recency-only access to `p` (nothing, or `Get p`) -/
structure Touched (w w1 : PCache) (p : Key) : Prop where
  peek : ∀ K, w1.peek K = w.peek K
  wf : WF w1
  cap : w1.cap = w.cap
  holds : ∀ K F, K ≠ p → Holds w K F → Holds w1 K (ins p F)

theorem touched_refl {w : PCache} (hw : WF w) (p : Key) : Touched w w p :=
  ⟨fun _ => rfl, hw, rfl, fun _ _ _ h => holds_insNew h⟩

theorem touched_get {w : PCache} (hw : WF w) (p : Key) : Touched w (w.get p).1 p :=
  ⟨fun K => peek_get w p K, wf_get p hw, by simp, fun _ _ hK h => holds_get_other h (fun e => hK e.symm)⟩

section wanted_side
variable {t : Tracker} {i : Nat} {w d w1 w' : PCache} {p K : Key} {v : Portion}

theorem w_other_a (h : RelAt t i w d) (ht : Touched w w1 p) (hw' : w' = w1 ∨ w' = (w1.add p v).1)
    (hK : K ≠ p) (hn : t.w i K = none) : w'.peek K = none := by
  have h0 : w1.peek K = none := by rw [ht.peek]; exact h.a K hn
  rcases hw' with rfl | rfl
  · exact h0
  · rcases peek_add_other w1 v hK with h' | h'
    · rw [h']; exact h0
    · exact h'

theorem w_other_b (h : RelAt t i w d) (ht : Touched w w1 p) (hw' : w' = w1 ∨ w' = (w1.add p v).1)
    (hK : K ≠ p) {wt : WTrack} (hs : t.w i K = some wt) (hl : (ins p wt.since).length < t.capW) :
    Holds w' K (ins p wt.since) ∧ (wt.hasContent = true → w'.peek K = some (.chain K)) := by
  have hl0 : wt.since.length < t.capW := Nat.lt_of_le_of_lt (length_le_insNew p wt.since) hl
  obtain ⟨hh, hc⟩ := h.b K wt hs hl0
  have hh1 : Holds w1 K (ins p wt.since) := ht.holds K _ hK hh
  rcases hw' with rfl | rfl
  · exact ⟨hh1, fun e => by rw [ht.peek]; exact hc e⟩
  · have hcap : w1.cap = t.capW := by rw [ht.cap]; exact h.wok.cap_eq
    have hl' : (insNew p (ins p wt.since)).length < w1.cap := by
      show (insNew p (insNew p wt.since)).length < w1.cap
      rw [insNew_idem, hcap]; exact hl
    obtain ⟨h2, h3⟩ := holds_add_other v ht.wf hh1 (fun e => hK e.symm) hl'
    refine ⟨?_, fun e => ?_⟩
    · have : insNew p (ins p wt.since) = ins p wt.since := insNew_idem p wt.since
      rw [this] at h2; exact h2
    · rw [h3, ht.peek]; exact hc e

theorem w_other_ew (h : RelAt t i w d) (ht : Touched w w1 p) (hw' : w' = w1 ∨ w' = (w1.add p v).1)
    (hK : K ≠ p) {c : Chain} (hp : w'.peek K = some (.chain c)) : t.delivered i K = true := by
  rcases hw' with rfl | rfl
  · rw [ht.peek] at hp; exact h.ew K c hp
  · rcases peek_add_origin w1 p K v _ hp with ⟨e, _⟩ | h'
    · exact absurd e hK
    · rw [ht.peek] at h'; exact h.ew K c h'

theorem w_wok (h : RelAt t i w d) (ht : Touched w w1 p) (hw' : w' = w1 ∨ w' = (w1.add p v).1)
    (hv : v = .placeholder ∨ v = .chain p) : WOk t.capW w' := by
  have h1 : WOk t.capW w1 :=
    ⟨ht.wf, by rw [ht.cap]; exact h.wok.cap_eq, fun k q hq => h.wok.vals k q (by rw [ht.peek] at hq; exact hq)⟩
  rcases hw' with rfl | rfl
  · exact h1
  · exact wok_add p h1 hv

end wanted_side

section discovered_side
variable {t : Tracker} {i : Nat} {w d d' : PCache} {p K : Key}

theorem d_other_c (h : RelAt t i w d) (hd' : d' = d ∨ d' = (d.containsOrAdd p (.chain p)).1)
    (hK : K ≠ p) {ds : List Key} (hn : t.w i K = none) (hs : t.d i K = some ds)
    (hl : (ins p ds).length < t.capD) : Holds d' K (ins p ds) := by
  have hl0 : ds.length < t.capD := Nat.lt_of_le_of_lt (length_le_insNew p ds) hl
  have hh := h.c K ds hn hs hl0
  rcases hd' with rfl | rfl
  · exact holds_insNew hh
  · have hcap : d.cap = t.capD := h.dok.cap_eq
    exact (holds_containsOrAdd_other _ h.dok.wf hh (fun e => hK e.symm) (by rw [hcap]; exact hl)).1

theorem d_other_f (h : RelAt t i w d) (hd' : d' = d ∨ d' = (d.containsOrAdd p (.chain p)).1)
    (hK : K ≠ p) (hn : t.w i K = none) (hs : t.d i K = none) : d'.peek K = none := by
  have h0 := h.f K hn hs
  rcases hd' with rfl | rfl
  · exact h0
  · rcases peek_containsOrAdd_other d (.chain p) hK with h' | h'
    · rw [h']; exact h0
    · exact h'

theorem peek_containsOrAdd_origin (c : PCache) (k k' : Key) (v q : Portion)
    (h : (c.containsOrAdd k v).1.peek k' = some q) : (k' = k ∧ q = v) ∨ c.peek k' = some q := by
  unfold Cache.containsOrAdd at h
  by_cases hc : c.contains k = true
  · simp only [hc, if_true] at h; exact Or.inr h
  · simp only [hc] at h; exact peek_add_origin c k k' v q h

theorem d_other_ed (h : RelAt t i w d) (hd' : d' = d ∨ d' = (d.containsOrAdd p (.chain p)).1)
    (hK : K ≠ p) {q : Portion} (hp : d'.peek K = some q) : t.delivered i K = true := by
  rcases hd' with rfl | rfl
  · exact h.ed K q hp
  · rcases peek_containsOrAdd_origin d p K _ q hp with ⟨e, _⟩ | h'
    · exact absurd e hK
    · exact h.ed K q h'

theorem d_dok (h : RelAt t i w d) (hd' : d' = d ∨ d' = (d.containsOrAdd p (.chain p)).1) : DOk t.capD d' := by
  rcases hd' with rfl | rfl
  · exact h.dok
  · exact dok_containsOrAdd p h.dok

end discovered_side

/-! ## own broadcast: one iteration of `cacheAsWantedChain` -/

def ownNw (t : Tracker) (i : Nat) (p : Key) : WTrack :=
  match t.w i p with
  | none => ⟨[], true⟩
  | some wt => if wt.since.length < t.capW then { wt with hasContent := true } else wt

theorem onOwnPrefix_eq (t : Tracker) (i : Nat) (p : Key) :
    onOwnPrefix i t p = setDelivered (setD (setW (touchW t i p) i p (some (ownNw t i p))) i p none) i p := rfl

theorem wantStep_fst (w : PCache) (n : List Chain) (p : Key) :
    ((wantStep (w, n) p).1 = w ∧ ∃ c, w.peek p = some (.chain c)) ∨
    ((wantStep (w, n) p).1 = (w.add p (.chain p)).1 ∧ ∀ c, w.peek p ≠ some (.chain c)) := by
  unfold wantStep
  cases hp : w.peek p with
  | none => right; simp [hp]
  | some q =>
    cases q with
    | placeholder => right; simp [hp]
    | chain c => left; simp [hp]

theorem relAt_want {t : Tracker} {i : Nat} {w d : PCache} (n : List Chain) (p : Key) (h : RelAt t i w d) :
    RelAt (onOwnPrefix i t p) i (wantStep (w, n) p).1 d := by
  rw [onOwnPrefix_eq]
  generalize hw'def : (wantStep (w, n) p).1 = w'
  have hcase := wantStep_fst w n p
  rw [hw'def] at hcase
  have hw'' : w' = w ∨ w' = (w.add p (.chain p)).1 := by
    rcases hcase with ⟨e, _⟩ | ⟨e, _⟩
    · exact Or.inl e
    · exact Or.inr e
  have ht := touched_refl h.wok.wf p
  have tw : ∀ K, (setDelivered (setD (setW (touchW t i p) i p (some (ownNw t i p))) i p none) i p).w i K
      = if K = p then some (ownNw t i p) else (t.w i K).map (fun wt => { wt with since := ins p wt.since }) := by
    intro K
    simp only [setDelivered_w, setD_w, setW_w_same, touchW_w_same]
    by_cases hK : K = p <;> simp [hK]
  have td : ∀ K, (setDelivered (setD (setW (touchW t i p) i p (some (ownNw t i p))) i p none) i p).d i K
      = if K = p then none else t.d i K := by
    intro K
    simp only [setDelivered_d, setD_d_same, setW_d, touchW_d]
  have tdel : ∀ K, (setDelivered (setD (setW (touchW t i p) i p (some (ownNw t i p))) i p none) i p).delivered i K
      = if K = p then true else t.delivered i K := by
    intro K
    simp only [setDelivered_same, setD_delivered, setW_delivered, touchW_delivered]
  have hwok : WOk t.capW w' := w_wok h ht hw'' (Or.inr rfl)
  refine ⟨hwok, h.dok, ?_, ?_, ?_, ?_, ?_, ?_⟩
  · -- a
    intro K hK
    rw [tw] at hK
    by_cases hKp : K = p
    · simp [hKp] at hK
    · simp only [hKp, if_false, Option.map_eq_none_iff] at hK
      exact w_other_a h ht hw'' hKp hK
  · -- b
    intro K wt' hK hl
    rw [tw] at hK
    simp only [setDelivered_capW, setD_capW, setW_capW, touchW_capW] at hl
    by_cases hKp : K = p
    · subst hKp
      simp only [if_true, Option.some.injEq] at hK
      subst hK
      unfold ownNw at hl ⊢
      cases htw : t.w i K with
      | none =>
        have hpk : w.peek K = none := h.a K htw
        have hadd : w' = (w.add K (.chain K)).1 := by
          rcases hcase with ⟨_, c, hc⟩ | ⟨e, _⟩
          · rw [hpk] at hc; cases hc
          · exact e
        subst hadd
        exact ⟨holds_add_self K _ h.wok.wf _, fun _ => peek_add_self K _ h.wok.wf⟩
      | some wt =>
        simp only [htw] at hl ⊢
        by_cases hsure : wt.since.length < t.capW
        · simp only [hsure, if_true] at hl ⊢
          obtain ⟨hh, _⟩ := h.b K wt htw hsure
          rcases hcase with ⟨e, c, hc⟩ | ⟨e, _⟩
          · subst e
            refine ⟨hh, fun _ => ?_⟩
            rcases h.wok.vals K _ hc with h1 | h1
            · cases h1
            · rw [hc, h1]
          · subst e
            exact ⟨holds_add_self K _ h.wok.wf _, fun _ => peek_add_self K _ h.wok.wf⟩
        · simp only [hsure, if_false] at hl
    · simp only [hKp, if_false] at hK
      cases htw : t.w i K with
      | none => simp [htw] at hK
      | some wt =>
        simp only [htw, Option.map_some, Option.some.injEq] at hK
        subst hK
        exact w_other_b h ht hw'' hKp htw hl
  · -- c
    intro K ds hK hd hl
    rw [tw] at hK; rw [td] at hd
    simp only [setDelivered_capD, setD_capD, setW_capD, touchW_capD] at hl
    by_cases hKp : K = p
    · simp [hKp] at hK
    · simp only [hKp, if_false, Option.map_eq_none_iff] at hK hd
      exact h.c K ds hK hd hl
  · -- f
    intro K hK hd
    rw [tw] at hK; rw [td] at hd
    by_cases hKp : K = p
    · simp [hKp] at hK
    · simp only [hKp, if_false, Option.map_eq_none_iff] at hK hd
      exact h.f K hK hd
  · -- ew
    intro K c hp
    rw [tdel]
    by_cases hKp : K = p
    · simp [hKp]
    · simp only [hKp, if_false]; exact w_other_ew h ht hw'' hKp hp
  · -- ed
    intro K q hp
    rw [tdel]
    by_cases hKp : K = p
    · simp [hKp]
    · simp only [hKp, if_false]; exact h.ed K q hp

/-! ## admitted broadcast: one iteration of `cacheAsDiscoveredChain` -/

theorem discStep_cases (w d : PCache) (p : Key) :
    (w.peek p = none ∧ discStep (w, d) p = (w, (d.containsOrAdd p (.chain p)).1)) ∨
    (w.peek p = some .placeholder ∧ discStep (w, d) p = ((w.add p (.chain p)).1, d)) ∨
    (∃ c, w.peek p = some (.chain c) ∧ discStep (w, d) p = (w, d)) := by
  unfold discStep
  cases hp : w.peek p with
  | none => left; simp [hp]
  | some q =>
    cases q with
    | placeholder => right; left; simp [hp]
    | chain c => right; right; exact ⟨c, rfl, by simp [hp]⟩

def admNw (t : Tracker) (wt : WTrack) : WTrack :=
  if wt.since.length < t.capW then { wt with hasContent := true } else wt

theorem onAdmittedPrefix_some (t : Tracker) (i : Nat) (p : Key) (wt : WTrack) (h : t.w i p = some wt) :
    onAdmittedPrefix i t p = setDelivered (setW (touchD (touchW t i p) i p) i p (some (admNw t wt))) i p := by
  unfold onAdmittedPrefix admNw; simp [h]

theorem onAdmittedPrefix_none (t : Tracker) (i : Nat) (p : Key) (h : t.w i p = none) :
    onAdmittedPrefix i t p = setDelivered (setD (touchD t i p) i p (some ((t.d i p).getD []))) i p := by
  unfold onAdmittedPrefix; simp [h]

theorem relAt_disc {t : Tracker} {i : Nat} {w d : PCache} (p : Key) (h : RelAt t i w d) :
    RelAt (onAdmittedPrefix i t p) i (discStep (w, d) p).1 (discStep (w, d) p).2 := by
  cases htw : t.w i p with
  | none =>
    rw [onAdmittedPrefix_none t i p htw]
    have hpk : w.peek p = none := h.a p htw
    have hds : discStep (w, d) p = (w, (d.containsOrAdd p (.chain p)).1) := by
      rcases discStep_cases w d p with ⟨_, e⟩ | ⟨e, _⟩ | ⟨c, e, _⟩
      · exact e
      · rw [hpk] at e; cases e
      · rw [hpk] at e; cases e
    rw [hds]
    generalize hd'def : (d.containsOrAdd p (.chain p)).1 = d'
    have hd'' : d' = d ∨ d' = (d.containsOrAdd p (.chain p)).1 := Or.inr hd'def.symm
    have td : ∀ K, (setDelivered (setD (touchD t i p) i p (some ((t.d i p).getD []))) i p).d i K
        = if K = p then some ((t.d i p).getD []) else (t.d i K).map (ins p) := by
      intro K
      simp only [setDelivered_d, setD_d_same, touchD_d_same]
      by_cases hK : K = p <;> simp [hK]
    have tdel : ∀ K, (setDelivered (setD (touchD t i p) i p (some ((t.d i p).getD []))) i p).delivered i K
        = if K = p then true else t.delivered i K := by
      intro K
      simp only [setDelivered_same, setD_delivered, touchD_delivered]
    have hdok : DOk t.capD d' := d_dok h hd''
    refine ⟨h.wok, hdok, fun K hK => h.a K hK, fun K wt hK hl => h.b K wt hK hl, ?_, ?_, ?_, ?_⟩
    · -- c
      intro K ds hK hd hl
      simp only [setDelivered_w, setD_w, touchD_w] at hK
      simp only [setDelivered_capD, setD_capD, touchD_capD] at hl
      rw [td] at hd
      by_cases hKp : K = p
      · subst hKp
        simp only [if_true, Option.some.injEq] at hd
        subst hd
        cases htd : t.d i K with
        | none =>
          have hnone : d.peek K = none := h.f K htw htd
          have hnc : ¬ d.contains K = true := by
            simp [Cache.contains, Cache.peek] at hnone ⊢; simp [hnone]
          subst hd'def
          unfold Cache.containsOrAdd
          simp only [hnc]
          exact holds_add_self K _ h.dok.wf _
        | some ds =>
          simp only [htd, Option.getD_some] at hl ⊢
          have hh := h.c K ds htw htd hl
          have hc : d.contains K = true := find?_contains.mpr hh.1
          subst hd'def
          unfold Cache.containsOrAdd
          simp only [hc, if_true]
          exact hh
      · simp only [hKp, if_false] at hd
        cases htd : t.d i K with
        | none => simp [htd] at hd
        | some ds0 =>
          simp only [htd, Option.map_some, Option.some.injEq] at hd
          subst hd
          exact d_other_c h hd'' hKp hK htd hl
    · -- f
      intro K hK hd
      simp only [setDelivered_w, setD_w, touchD_w] at hK
      rw [td] at hd
      by_cases hKp : K = p
      · simp [hKp] at hd
      · simp only [hKp, if_false, Option.map_eq_none_iff] at hd
        exact d_other_f h hd'' hKp hK hd
    · -- ew
      intro K c hp
      rw [tdel]
      by_cases hKp : K = p
      · simp [hKp]
      · simp only [hKp, if_false]; exact h.ew K c hp
    · -- ed
      intro K q hp
      rw [tdel]
      by_cases hKp : K = p
      · simp [hKp]
      · simp only [hKp, if_false]; exact d_other_ed h hd'' hKp hp
  | some wt =>
    rw [onAdmittedPrefix_some t i p wt htw]
    have ht := touched_refl h.wok.wf p
    generalize hrdef : discStep (w, d) p = r
    have hcases := discStep_cases w d p
    rw [hrdef] at hcases
    have hw'' : r.1 = w ∨ r.1 = (w.add p (.chain p)).1 := by
      rcases hcases with ⟨_, e⟩ | ⟨_, e⟩ | ⟨c, _, e⟩ <;> simp [e]
    have hd'' : r.2 = d ∨ r.2 = (d.containsOrAdd p (.chain p)).1 := by
      rcases hcases with ⟨_, e⟩ | ⟨_, e⟩ | ⟨c, _, e⟩ <;> simp [e]
    have tw : ∀ K, (setDelivered (setW (touchD (touchW t i p) i p) i p (some (admNw t wt))) i p).w i K
        = if K = p then some (admNw t wt) else (t.w i K).map (fun wt => { wt with since := ins p wt.since }) := by
      intro K
      simp only [setDelivered_w, setW_w_same, touchD_w, touchW_w_same]
      by_cases hK : K = p <;> simp [hK]
    have td : ∀ K, (setDelivered (setW (touchD (touchW t i p) i p) i p (some (admNw t wt))) i p).d i K
        = if K = p then t.d i K else (t.d i K).map (ins p) := by
      intro K
      simp only [setDelivered_d, setW_d, touchD_d_same, touchW_d]
    have tdel : ∀ K, (setDelivered (setW (touchD (touchW t i p) i p) i p (some (admNw t wt))) i p).delivered i K
        = if K = p then true else t.delivered i K := by
      intro K
      simp only [setDelivered_same, setW_delivered, touchD_delivered, touchW_delivered]
    have hwok : WOk t.capW r.1 := w_wok h ht hw'' (Or.inr rfl)
    have hdok : DOk t.capD r.2 := d_dok h hd''
    refine ⟨hwok, hdok, ?_, ?_, ?_, ?_, ?_, ?_⟩
    · -- a
      intro K hK
      rw [tw] at hK
      by_cases hKp : K = p
      · simp [hKp] at hK
      · simp only [hKp, if_false, Option.map_eq_none_iff] at hK
        exact w_other_a h ht hw'' hKp hK
    · -- b
      intro K wt' hK hl
      rw [tw] at hK
      simp only [setDelivered_capW, setW_capW, touchD_capW, touchW_capW] at hl
      by_cases hKp : K = p
      · subst hKp
        simp only [if_true, Option.some.injEq] at hK
        subst hK
        unfold admNw at hl ⊢
        by_cases hsure : wt.since.length < t.capW
        · simp only [hsure, if_true] at hl ⊢
          obtain ⟨hh, _⟩ := h.b K wt htw hsure
          have hsome : (w.peek K).isSome = true := holds_peek_isSome hh
          rcases hcases with ⟨e, _⟩ | ⟨_, e⟩ | ⟨c, hc, e⟩
          · rw [e] at hsome; cases hsome
          · rw [e]
            exact ⟨holds_add_self K _ h.wok.wf _, fun _ => peek_add_self K _ h.wok.wf⟩
          · rw [e]
            refine ⟨hh, fun _ => ?_⟩
            rcases h.wok.vals K _ hc with h1 | h1
            · cases h1
            · rw [hc, h1]
        · simp only [hsure, if_false] at hl
      · simp only [hKp, if_false] at hK
        cases htw' : t.w i K with
        | none => simp [htw'] at hK
        | some wt0 =>
          simp only [htw', Option.map_some, Option.some.injEq] at hK
          subst hK
          exact w_other_b h ht hw'' hKp htw' hl
    · -- c
      intro K ds hK hd hl
      rw [tw] at hK; rw [td] at hd
      simp only [setDelivered_capD, setW_capD, touchD_capD, touchW_capD] at hl
      by_cases hKp : K = p
      · simp [hKp] at hK
      · simp only [hKp, if_false, Option.map_eq_none_iff] at hK hd
        cases htd : t.d i K with
        | none => simp [htd] at hd
        | some ds0 =>
          simp only [htd, Option.map_some, Option.some.injEq] at hd
          subst hd
          exact d_other_c h hd'' hKp hK htd hl
    · -- f
      intro K hK hd
      rw [tw] at hK; rw [td] at hd
      by_cases hKp : K = p
      · simp [hKp] at hK
      · simp only [hKp, if_false, Option.map_eq_none_iff] at hK hd
        exact d_other_f h hd'' hKp hK hd
    · -- ew
      intro K c hp
      rw [tdel]
      by_cases hKp : K = p
      · simp [hKp]
      · simp only [hKp, if_false]; exact w_other_ew h ht hw'' hKp hp
    · -- ed
      intro K q hp
      rw [tdel]
      by_cases hKp : K = p
      · simp [hKp]
      · simp only [hKp, if_false]; exact d_other_ed h hd'' hKp hp

/-! ## lookup: `GetChainByInstance` on one instance -/

theorem getLocal_cases (w d : PCache) (k : Key) :
    (∃ c, w.peek k = some (.chain c) ∧ getLocal w d k = ((w.get k).1, d, some c)) ∨
    ((∀ c, w.peek k ≠ some (.chain c)) ∧ ∃ q, d.peek k = some q ∧
        getLocal w d k = (((w.get k).1.add k q).1, (d.remove k).1, some q.chainOf)) ∨
    ((∀ c, w.peek k ≠ some (.chain c)) ∧ d.peek k = none ∧
        getLocal w d k = (((w.get k).1.containsOrAdd k .placeholder).1, d, none)) := by
  unfold getLocal
  rw [get_snd w k, get_snd d k]
  have hd : ∀ (hq : d.peek k = none), (d.get k).1 = d := fun hq => get_absent hq
  cases hw : w.peek k with
  | some pw =>
    cases pw with
    | chain c => left; exact ⟨c, rfl, rfl⟩
    | placeholder =>
      right
      cases hq : d.peek k with
      | some q => left; exact ⟨fun c hc => (by cases hc), q, rfl, (by simp [get_remove])⟩
      | none => right; exact ⟨fun c hc => (by cases hc), rfl, (by simp [hd hq])⟩
  | none =>
    right
    cases hq : d.peek k with
    | some q => left; exact ⟨fun c hc => (by cases hc), q, rfl, (by simp [get_remove])⟩
    | none => right; exact ⟨fun c hc => (by cases hc), rfl, (by simp [hd hq])⟩

theorem onGet_eq (t : Tracker) (i : Nat) (k : Key) (hit : Bool) :
    onGet t i k hit = setD (setW (touchW t i k) i k (some ⟨[], hit⟩)) i k none := rfl

theorem relAt_get {t : Tracker} {i : Nat} {w d : PCache} (k : Key) (h : RelAt t i w d) :
    RelAt (onGet t i k (getLocal w d k).2.2.isSome) i (getLocal w d k).1 (getLocal w d k).2.1 := by
  rw [onGet_eq]
  have ht := touched_get h.wok.wf k
  generalize hrdef : getLocal w d k = r
  have hcases := getLocal_cases w d k
  rw [hrdef] at hcases
  -- shapes
  have hshape : ∃ v, (v = Portion.placeholder ∨ v = Portion.chain k) ∧
      (r.1 = (w.get k).1 ∨ r.1 = ((w.get k).1.add k v).1) := by
    rcases hcases with ⟨c, _, e⟩ | ⟨_, q, hq, e⟩ | ⟨_, _, e⟩
    · exact ⟨.placeholder, Or.inl rfl, Or.inl (by rw [e])⟩
    · exact ⟨q, Or.inr (h.dok.vals k q hq), Or.inr (by rw [e])⟩
    · refine ⟨.placeholder, Or.inl rfl, ?_⟩
      rw [e]
      show ((w.get k).1.containsOrAdd k .placeholder).1 = _ ∨ ((w.get k).1.containsOrAdd k .placeholder).1 = _
      unfold Cache.containsOrAdd
      by_cases hc : (w.get k).1.contains k = true
      · left; simp [hc]
      · right; simp [hc]
  obtain ⟨v, hv, hw''⟩ := hshape
  have hdshape : r.2.1 = d ∨ r.2.1 = (d.remove k).1 := by
    rcases hcases with ⟨c, _, e⟩ | ⟨_, q, _, e⟩ | ⟨_, _, e⟩ <;> simp [e]
  have dpeek : ∀ K q, r.2.1.peek K = some q → d.peek K = some q := by
    intro K q hq
    rcases hdshape with e | e
    · rw [e] at hq; exact hq
    · rw [e, peek_remove] at hq
      by_cases hK : K = k
      · simp [hK] at hq
      · simpa [hK] using hq
  have dholds : ∀ K F, K ≠ k → Holds d K F → Holds r.2.1 K F := by
    intro K F hK hh
    rcases hdshape with e | e
    · rw [e]; exact hh
    · rw [e]; exact holds_remove_other hh (fun e' => hK e'.symm)
  have dnone : ∀ K, d.peek K = none → r.2.1.peek K = none := by
    intro K hq
    rcases hdshape with e | e
    · rw [e]; exact hq
    · rw [e, peek_remove]; by_cases hK : K = k <;> simp [hK, hq]
  have hdok : DOk t.capD r.2.1 := by
    rcases hdshape with e | e
    · rw [e]; exact h.dok
    · rw [e]; exact dok_remove k h.dok
  have hwok : WOk t.capW r.1 := w_wok h ht hw'' hv
  have tw : ∀ K, (setD (setW (touchW t i k) i k (some ⟨[], r.2.2.isSome⟩)) i k none).w i K
      = if K = k then some ⟨[], r.2.2.isSome⟩ else (t.w i K).map (fun wt => { wt with since := ins k wt.since }) := by
    intro K
    simp only [setD_w, setW_w_same, touchW_w_same]
    by_cases hK : K = k <;> simp [hK]
  have td : ∀ K, (setD (setW (touchW t i k) i k (some ⟨[], r.2.2.isSome⟩)) i k none).d i K
      = if K = k then none else t.d i K := by
    intro K
    simp only [setD_d_same, setW_d, touchW_d]
  refine ⟨hwok, hdok, ?_, ?_, ?_, ?_, ?_, ?_⟩
  · -- a
    intro K hK
    rw [tw] at hK
    by_cases hKp : K = k
    · simp [hKp] at hK
    · simp only [hKp, if_false, Option.map_eq_none_iff] at hK
      exact w_other_a h ht hw'' hKp hK
  · -- b
    intro K wt' hK hl
    rw [tw] at hK
    simp only [setD_capW, setW_capW, touchW_capW] at hl
    by_cases hKp : K = k
    · subst hKp
      simp only [if_true, Option.some.injEq] at hK
      subst hK
      rcases hcases with ⟨c, hc, e⟩ | ⟨hnc, q, hq, e⟩ | ⟨hnc, hq, e⟩
      · have hk : K ∈ keysOf w.items := peek_isSome_iff.mp (by simp [hc])
        rw [e]
        refine ⟨holds_get_self hk _, fun _ => ?_⟩
        show (w.get K).1.peek K = _
        rw [peek_get, hc]
        rcases h.wok.vals K _ hc with h1 | h1
        · cases h1
        · rw [h1]
      · rw [e]
        refine ⟨holds_add_self K q ht.wf _, fun _ => ?_⟩
        show ((w.get K).1.add K q).1.peek K = _
        rw [peek_add_self K q ht.wf, h.dok.vals K q hq]
      · rw [e]
        refine ⟨?_, fun hh => by simp at hh⟩
        show Holds ((w.get K).1.containsOrAdd K .placeholder).1 K []
        unfold Cache.containsOrAdd
        by_cases hc : (w.get K).1.contains K = true
        · simp only [hc, if_true]
          have hk1 : K ∈ keysOf (w.get K).1.items := find?_contains.mp hc
          have hk : K ∈ keysOf w.items := by
            have : ((w.get K).1.peek K).isSome = true := peek_isSome_iff.mpr hk1
            rw [peek_get] at this
            exact peek_isSome_iff.mp this
          exact holds_get_self hk _
        · simp only [hc]
          exact holds_add_self K _ ht.wf _
    · simp only [hKp, if_false] at hK
      cases htw' : t.w i K with
      | none => simp [htw'] at hK
      | some wt0 =>
        simp only [htw', Option.map_some, Option.some.injEq] at hK
        subst hK
        exact w_other_b h ht hw'' hKp htw' hl
  · -- c
    intro K ds hK hd hl
    rw [tw] at hK; rw [td] at hd
    simp only [setD_capD, setW_capD, touchW_capD] at hl
    by_cases hKp : K = k
    · simp [hKp] at hK
    · simp only [hKp, if_false, Option.map_eq_none_iff] at hK hd
      exact dholds K ds hKp (h.c K ds hK hd hl)
  · -- f
    intro K hK hd
    rw [tw] at hK; rw [td] at hd
    by_cases hKp : K = k
    · simp [hKp] at hK
    · simp only [hKp, if_false, Option.map_eq_none_iff] at hK hd
      exact dnone K (h.f K hK hd)
  · -- ew
    intro K c hp
    simp only [setD_delivered, setW_delivered, touchW_delivered]
    by_cases hKp : K = k
    · subst hKp
      rcases hcases with ⟨c', hc, e⟩ | ⟨hnc, q, hq, e⟩ | ⟨hnc, hq, e⟩
      · exact h.ew K c' hc
      · exact h.ed K q hq
      · exfalso
        rw [e] at hp
        have hp' : ((w.get K).1.containsOrAdd K .placeholder).1.peek K = some (.chain c) := hp
        rcases peek_containsOrAdd_origin _ K K _ _ hp' with ⟨_, e2⟩ | h'
        · cases e2
        · rw [peek_get] at h'; exact hnc c h'
    · exact w_other_ew h ht hw'' hKp hp
  · -- ed
    intro K q hp
    simp only [setD_delivered, setW_delivered, touchW_delivered]
    exact h.ed K q (dpeek K q hp)

/-! ## whole loops, other instances, prune -/

theorem onAdmittedPrefix_frame (t : Tracker) (i : Nat) (p : Key) :
    (onAdmittedPrefix i t p).capW = t.capW ∧ (onAdmittedPrefix i t p).capD = t.capD ∧
    ∀ j, j ≠ i → (onAdmittedPrefix i t p).w j = t.w j ∧ (onAdmittedPrefix i t p).d j = t.d j ∧
      (onAdmittedPrefix i t p).delivered j = t.delivered j := by
  cases htw : t.w i p with
  | none =>
    rw [onAdmittedPrefix_none t i p htw]
    refine ⟨rfl, rfl, fun j hj => ⟨rfl, ?_, ?_⟩⟩
    · simp only [setDelivered_d]; rw [setD_d_other _ _ _ hj, touchD_d_other _ _ hj]
    · rw [setDelivered_other _ _ hj]; rfl
  | some wt =>
    rw [onAdmittedPrefix_some t i p wt htw]
    refine ⟨rfl, rfl, fun j hj => ⟨?_, ?_, ?_⟩⟩
    · simp only [setDelivered_w]; rw [setW_w_other _ _ _ hj]; simp only [touchD_w]; rw [touchW_w_other _ _ hj]
    · simp only [setDelivered_d, setW_d]; rw [touchD_d_other _ _ hj]; rfl
    · rw [setDelivered_other _ _ hj]; rfl

theorem onOwnPrefix_frame (t : Tracker) (i : Nat) (p : Key) :
    (onOwnPrefix i t p).capW = t.capW ∧ (onOwnPrefix i t p).capD = t.capD ∧
    ∀ j, j ≠ i → (onOwnPrefix i t p).w j = t.w j ∧ (onOwnPrefix i t p).d j = t.d j ∧
      (onOwnPrefix i t p).delivered j = t.delivered j := by
  rw [onOwnPrefix_eq]
  refine ⟨rfl, rfl, fun j hj => ⟨?_, ?_, ?_⟩⟩
  · simp only [setDelivered_w, setD_w]; rw [setW_w_other _ _ _ hj, touchW_w_other _ _ hj]
  · simp only [setDelivered_d]; rw [setD_d_other _ _ _ hj]; rfl
  · rw [setDelivered_other _ _ hj]; rfl

theorem onGet_frame (t : Tracker) (i : Nat) (k : Key) (hit : Bool) :
    (onGet t i k hit).capW = t.capW ∧ (onGet t i k hit).capD = t.capD ∧
    ∀ j, j ≠ i → (onGet t i k hit).w j = t.w j ∧ (onGet t i k hit).d j = t.d j ∧
      (onGet t i k hit).delivered j = t.delivered j := by
  rw [onGet_eq]
  refine ⟨rfl, rfl, fun j hj => ⟨?_, ?_, rfl⟩⟩
  · simp only [setD_w]; rw [setW_w_other _ _ _ hj, touchW_w_other _ _ hj]
  · rw [setD_d_other _ _ _ hj]; rfl

theorem foldl_frame {f : Tracker → Key → Tracker} (i : Nat)
    (hf : ∀ t p, (f t p).capW = t.capW ∧ (f t p).capD = t.capD ∧
      ∀ j, j ≠ i → (f t p).w j = t.w j ∧ (f t p).d j = t.d j ∧ (f t p).delivered j = t.delivered j)
    (ps : List Key) (t : Tracker) :
    (ps.foldl f t).capW = t.capW ∧ (ps.foldl f t).capD = t.capD ∧
      ∀ j, j ≠ i → (ps.foldl f t).w j = t.w j ∧ (ps.foldl f t).d j = t.d j ∧
        (ps.foldl f t).delivered j = t.delivered j := by
  induction ps generalizing t with
  | nil => exact ⟨rfl, rfl, fun _ _ => ⟨rfl, rfl, rfl⟩⟩
  | cons p ps ih =>
    obtain ⟨h1, h2, h3⟩ := ih (f t p)
    obtain ⟨g1, g2, g3⟩ := hf t p
    refine ⟨h1.trans g1, h2.trans g2, fun j hj => ?_⟩
    obtain ⟨a1, a2, a3⟩ := h3 j hj
    obtain ⟨b1, b2, b3⟩ := g3 j hj
    exact ⟨a1.trans b1, a2.trans b2, a3.trans b3⟩

theorem relAt_discFold {i : Nat} (ps : List Key) {t : Tracker} {w d : PCache} (h : RelAt t i w d) :
    RelAt (ps.foldl (onAdmittedPrefix i) t) i (ps.foldl discStep (w, d)).1 (ps.foldl discStep (w, d)).2 := by
  induction ps generalizing t w d with
  | nil => exact h
  | cons p ps ih =>
    simp only [List.foldl_cons]
    have := relAt_disc p h
    exact ih (w := (discStep (w, d) p).1) (d := (discStep (w, d) p).2) this

theorem wantFold_snd_irrelevant (ps : List Key) (w : PCache) (n n' : List Chain) :
    (ps.foldl wantStep (w, n)).1 = (ps.foldl wantStep (w, n')).1 := by
  induction ps generalizing w n n' with
  | nil => rfl
  | cons p ps ih =>
    simp only [List.foldl_cons]
    have h1 : (wantStep (w, n) p).1 = (wantStep (w, n') p).1 := by
      unfold wantStep
      cases hp : w.peek p with
      | none => simp [hp]
      | some q => cases q <;> simp [hp]
    have e1 : wantStep (w, n) p = ((wantStep (w, n) p).1, (wantStep (w, n) p).2) := rfl
    have e2 : wantStep (w, n') p = ((wantStep (w, n') p).1, (wantStep (w, n') p).2) := rfl
    rw [e1, e2, h1]
    exact ih _ _ _

theorem relAt_wantFold {i : Nat} (ps : List Key) {t : Tracker} {w d : PCache} (n : List Chain) (h : RelAt t i w d) :
    RelAt (ps.foldl (onOwnPrefix i) t) i (ps.foldl wantStep (w, n)).1 d := by
  induction ps generalizing t w n with
  | nil => exact h
  | cons p ps ih =>
    simp only [List.foldl_cons]
    have h1 := relAt_want n p h
    have e1 : wantStep (w, n) p = ((wantStep (w, n) p).1, (wantStep (w, n) p).2) := rfl
    rw [e1]
    exact ih _ h1

theorem relAt_prune_below {t : Tracker} {n i : Nat} (hw : 0 < t.capW) (hd : 0 < t.capD) (h : i < n) :
    RelAt (onPrune t n) i (Lru.empty t.capW) (Lru.empty t.capD) :=
  ⟨wok_empty hw, dok_empty hd, fun _ _ => rfl, fun K wt hK => by simp [onPrune, h] at hK,
   fun K ds _ hK => by simp [onPrune, h] at hK, fun _ _ _ => rfl,
   fun K c hp => by simp [peek_empty] at hp, fun K p hp => by simp [peek_empty] at hp⟩

theorem relAt_prune_keep {t : Tracker} {n i : Nat} {w d : PCache} (h : ¬ i < n) (hr : RelAt t i w d) :
    RelAt (onPrune t n) i w d := by
  refine relAt_congr (t := t) (t' := onPrune t n) rfl rfl ?_ ?_ ?_ hr
  · funext K; simp [onPrune, h]
  · funext K; simp [onPrune, h]
  · funext K; simp [onPrune, h]

/-! ## the global invariant and the main result -/

structure TInv (t : Tracker) (s : State) : Prop where
  capW : t.capW = s.opts.maxWanted
  capD : t.capD = s.opts.maxDiscovered
  posW : 0 < t.capW
  posD : 0 < t.capD
  rel : ∀ i, RelAt t i (W s i) (D s i)

theorem W_init (o : Opts) (i : Nat) : W (init o) i = Lru.empty o.maxWanted := rfl
theorem D_init (o : Opts) (i : Nat) : D (init o) i = Lru.empty o.maxDiscovered := rfl

theorem tinv_init (o : Opts) (hw : 0 < o.maxWanted) (hd : 0 < o.maxDiscovered) :
    TInv (Tracker.init o.maxWanted o.maxDiscovered) (init o) :=
  ⟨rfl, rfl, hw, hd, fun i => by rw [W_init, D_init]; exact relAt_init _ _ hw hd i⟩

theorem tinv_get {t : Tracker} {s : State} (i : Nat) (k : Key) (h : TInv t s) :
    TInv (observe t (.get i k) (step s (.get i k)).2) (step s (.get i k)).1 := by
  by_cases hk : k = []
  · subst hk
    simp only [step, observe, getChain_zero, if_true]
    exact h
  · obtain ⟨hr, hW, hD⟩ := getChain_local s i hk
    simp only [step, observe, hk, if_false]
    have hop := getChain_opts s i k
    obtain ⟨f1, f2, f3⟩ := onGet_frame t i k (getChain s i k).2.1.isSome
    refine ⟨by rw [f1, hop]; exact h.capW, by rw [f2, hop]; exact h.capD, by rw [f1]; exact h.posW,
      by rw [f2]; exact h.posD, fun j => ?_⟩
    rw [hW j, hD j]
    by_cases hj : j = i
    · subst hj
      simp only [if_true]
      rw [hr]
      exact relAt_get k (h.rel j)
    · simp only [hj, if_false]
      obtain ⟨a1, a2, a3⟩ := f3 j hj
      exact relAt_congr f1 f2 a1 a2 a3 (h.rel j)

theorem tinv_cacheAsDiscovered {t : Tracker} {s : State} (i : Nat) (c : Chain) (h : TInv t s) :
    TInv ((prefixes c).foldl (onAdmittedPrefix i) t) (cacheAsDiscovered s i c) := by
  obtain ⟨hop, hW, hD⟩ := cacheAsDiscovered_local s i c
  obtain ⟨f1, f2, f3⟩ := foldl_frame i (fun t p => onAdmittedPrefix_frame t i p) (prefixes c) t
  refine ⟨by rw [f1, hop]; exact h.capW, by rw [f2, hop]; exact h.capD, by rw [f1]; exact h.posW,
    by rw [f2]; exact h.posD, fun j => ?_⟩
  rw [hW j, hD j]
  by_cases hj : j = i
  · subst hj
    simp only [if_true]
    exact relAt_discFold (prefixes c) (h.rel j)
  · simp only [hj, if_false]
    obtain ⟨a1, a2, a3⟩ := f3 j hj
    exact relAt_congr f1 f2 a1 a2 a3 (h.rel j)

theorem tinv_cacheAsWanted {t : Tracker} {s : State} (i : Nat) (c : Chain) (h : TInv t s) :
    TInv ((prefixes c).foldl (onOwnPrefix i) t) (cacheAsWanted s i c).1 := by
  obtain ⟨hop, hW, hD⟩ := cacheAsWanted_local s i c
  obtain ⟨f1, f2, f3⟩ := foldl_frame i (fun t p => onOwnPrefix_frame t i p) (prefixes c) t
  refine ⟨by rw [f1, hop]; exact h.capW, by rw [f2, hop]; exact h.capD, by rw [f1]; exact h.posW,
    by rw [f2]; exact h.posD, fun j => ?_⟩
  rw [hW j, hD j]
  by_cases hj : j = i
  · subst hj
    simp only [if_true]
    exact relAt_wantFold (prefixes c) [] (h.rel j)
  · simp only [hj, if_false]
    obtain ⟨a1, a2, a3⟩ := f3 j hj
    exact relAt_congr f1 f2 a1 a2 a3 (h.rel j)

theorem tinv_prune {t : Tracker} {s : State} (n : Nat) (h : TInv t s) : TInv (onPrune t n) (prune s n) := by
  obtain ⟨hop, hW, hD⟩ := prune_local s n
  refine ⟨by rw [hop]; exact h.capW, by rw [hop]; exact h.capD, h.posW, h.posD, fun j => ?_⟩
  rw [hW j, hD j]
  by_cases hj : j < n
  · simp only [hj, if_true]
    rw [← h.capW, ← h.capD]
    exact relAt_prune_below h.posW h.posD hj
  · simp only [hj, if_false]
    exact relAt_prune_keep hj (h.rel j)

theorem feed_cases (s : State) (p : Progress) (now : Int) (m : Option Msg) :
    (∃ msg, m = some msg ∧ validate s.opts p now m = .accept ∧
        feed s p now m = (cacheAsDiscovered s msg.inst (chainIds msg.chain), .accept)) ∨
    ((feed s p now m).1 = s ∧ ((feed s p now m).2 = .accept → m = none)) := by
  unfold feed
  cases m with
  | none => right; simp [validate]
  | some msg =>
    cases hv : validate s.opts p now (some msg) with
    | accept => left; exact ⟨msg, rfl, rfl, rfl⟩
    | reject r => right; simp
    | ignore r => right; simp

theorem tinv_step {t : Tracker} {s : State} (op : Op) (h : TInv t s) :
    TInv (observe t op (step s op).2) (step s op).1 := by
  cases op with
  | get i k => exact tinv_get i k h
  | feed p now m =>
    rcases feed_cases s p now m with ⟨msg, rfl, _, e⟩ | ⟨e1, e2⟩
    · simp only [step, e, observe]
      exact tinv_cacheAsDiscovered msg.inst (chainIds msg.chain) h
    · simp only [step]
      rw [e1]
      cases hm : m with
      | none => simp only [observe]; exact h
      | some msg =>
        cases hv : (feed s p now m).2 with
        | accept => rw [hm] at e2; rw [hm] at hv; exact absurd (e2 hv) (by simp)
        | reject r => rw [hm] at hv; simp only [hv, observe]; exact h
        | ignore r => rw [hm] at hv; simp only [hv, observe]; exact h
  | bcast i c =>
    simp only [step, observe]
    exact tinv_cacheAsWanted i c h
  | prune n =>
    simp only [step, observe]
    exact tinv_prune n h

/-- model and tracker in lockstep: the tracker sees the model's own outputs -/
def runBoth (s : State) (t : Tracker) : List Op → State × Tracker
  | [] => (s, t)
  | o :: os => runBoth (step s o).1 (observe t o (step s o).2) os

theorem tinv_run {t : Tracker} {s : State} (ops : List Op) (h : TInv t s) :
    TInv (runBoth s t ops).2 (runBoth s t ops).1 := by
  induction ops generalizing s t with
  | nil => exact h
  | cons o os ih => exact ih (tinv_step o h)

theorem runBoth_fst (s : State) (t : Tracker) (ops : List Op) : (runBoth s t ops).1 = run s ops := by
  induction ops generalizing s t with
  | nil => rfl
  | cons o os ih => exact ih _ _

theorem runBoth_append (s : State) (t : Tracker) (a b : List Op) :
    runBoth s t (a ++ b) = runBoth (runBoth s t a).1 (runBoth s t a).2 b := by
  induction a generalizing s t with
  | nil => rfl
  | cons o os ih => exact ih _ _

theorem runBoth_prune_snd (s : State) (t : Tracker) (n : Nat) : (runBoth s t [.prune n]).2 = onPrune t n := rfl

/-- In every state related to its history, no lookup violates the specification. -/
theorem judge_ok {t : Tracker} {s : State} (h : TInv t s) (i : Nat) (k : Key) :
    judgeLookup t i k (getChain s i k).2.1 = .ok := by
  by_cases hk : k = []
  · subst hk; simp [getChain_zero, judgeLookup]
  · obtain ⟨hr, _, _⟩ := getChain_local s i hk
    rw [hr]
    have hrel := h.rel i
    rcases getLocal_cases (W s i) (D s i) k with ⟨c, hc, e⟩ | ⟨hnc, q, hq, e⟩ | ⟨hnc, hq, e⟩
    · rw [e]
      have hck : c = k := by
        rcases hrel.wok.vals k _ hc with h1 | h1
        · cases h1
        · exact (Portion.chain.inj h1)
      subst hck
      have hdel := hrel.ew c c hc
      simp [judgeLookup, hk, mayFind, hdel]
    · rw [e]
      have hqk : q = .chain k := hrel.dok.vals k q hq
      subst hqk
      have hdel := hrel.ed k _ hq
      simp [judgeLookup, hk, mayFind, hdel, Portion.chainOf]
    · rw [e]
      have hW : mustFindW t i k = false := by
        unfold mustFindW
        cases htw : t.w i k with
        | none => rfl
        | some wt =>
          by_cases hc : wt.hasContent = true
          · by_cases hl : wt.since.length < t.capW
            · exact absurd (hrel.b k wt htw hl).2 (fun hh => hnc k (hh hc))
            · simp [hl]
          · simp [hc]
      have hD : mustFindD t i k = false := by
        unfold mustFindD
        cases htw : t.w i k with
        | some wt => rfl
        | none =>
          cases htd : t.d i k with
          | none => rfl
          | some ds =>
            by_cases hl : ds.length < t.capD
            · have := holds_peek_isSome (hrel.c k ds htw htd hl)
              rw [hq] at this; cases this
            · simp [hl]
      simp [judgeLookup, hk, hW, hD]

end F3.ChainX
