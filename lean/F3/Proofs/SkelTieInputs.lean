import F3.Gen.SkelInputs
/-!
# Expected statement skeletons (SkelInputs)

Hand-pinned expectations for the REGENERATED skeletons of `F3.Gen.SkelInputs` (tools/go2lean/skel.go): the pre-order
list of the statements of a Go function as `<depth>:<kind>`. The expression-level tie theorems pin what single
conditions say; these pin that nothing was added around them (an extra early return, a cap, a dropped branch). A
structural change of the function — harmful or not — breaks the `rfl` below and with it the obligation of every
property importing this file; the check then searches for a failing input as for any broken obligation.
-/
namespace F3.SkelTie.SkelInputs
open F3.Gen.SkelInputs

/-- the structure the model of `GetProposal` was written against -/
def skelGetProposalExpected : List String :=
  ["0:defer", "0:decl", "0:if", "1:assign:=", "1:if", "2:return3", "1:assign=", "0:else", "1:assign:=", "1:if",
   "2:return3", "1:assign=", "0:assign:=", "0:if", "1:return3", "0:assign:=", "0:if", "1:return3",
   "0:assign:=", "0:if", "1:return3", "0:if", "1:assign=", "0:if", "1:assign=", "0:assign:=", "0:assign=",
   "0:if", "1:return3", "0:assign:=", "0:assign:=", "0:range", "1:assign=", "1:assign=", "1:if", "2:return3",
   "0:assign:=", "0:if", "1:return3", "0:decl", "0:assign:=", "0:if", "1:return3", "0:assign=", "0:if",
   "1:return3", "0:return3"]

theorem skelGetProposal_expected : skelGetProposal = skelGetProposalExpected := rfl

/-- the structure the model of `PtCidForTipset` was written against -/
def skelPtCidForTipsetExpected : List String :=
  ["0:assign:=", "0:assign:=", "0:if", "1:return2", "0:assign:=", "0:if", "1:return2", "0:assign=", "0:if",
   "1:return2", "0:call:h.ptCache.Add", "0:return2"]

theorem skelPtCidForTipset_expected : skelPtCidForTipset = skelPtCidForTipsetExpected := rfl

end F3.SkelTie.SkelInputs
