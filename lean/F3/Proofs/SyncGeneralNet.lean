import F3.Proofs.SyncGeneralNode
/-!
# The network invariant of a synchronous, failure-free run with arbitrary inputs

Generalisation of `SyncNet.lean`; the results are `runNet_ginv` (safety), `g_complete_terminated` and
`g_terminated_value` (every complete execution has decided the longest quorum-supported prefix).
-/
namespace F3.SyncGeneral
open F3.Instance F3.Net F3.Sync

section
variable {t : Table} {H : List Pid} {inp : Pid → Chain} {b : Nat}

local notation "PS" => longestQuorumPrefix t H inp

set_option linter.unusedSimpArgs false in
/-- what a transition says about phases and the messages put on the wire -/
theorem GTrans.facts {p : Pid} {a bb : Phase} {ms : List Msg} (h : GTrans t H inp p a bb ms) :
    (∀ m ∈ ms, m.sender = p ∧ GShape t H inp m) ∧
    (bb ≠ .initial → a ≠ .initial ∨ hasMsg ms p .quality) ∧
    (bb = .prepare ∨ bb = .commit → (a = .prepare ∨ a = .commit) ∨ hasMsg ms p .prepare) ∧
    (bb = .commit → a = .commit ∨ hasMsg ms p .commit) ∧
    (bb = .decide ∨ bb = .terminated → (a = .decide ∨ a = .terminated) ∨ hasMsg ms p .decide) ∧
    (hasMsg ms p .prepare → bb ≠ .initial ∧ bb ≠ .quality) ∧
    (a ≠ .initial ∧ a ≠ .quality → bb ≠ .initial ∧ bb ≠ .quality) ∧
    (a ≠ .initial → bb ≠ .initial) ∧
    (bb ≠ .terminated → a ≠ .terminated) := by
  cases h with
  | same a => simp [hasMsg]
  | start => simp [hasMsg, mkMsg, GShape]
  | q2p => simp [hasMsg, mkMsg, GShape]
  | p2c j hj =>
    refine ⟨?_, by simp [hasMsg, mkMsg], by simp [hasMsg, mkMsg], by simp [hasMsg, mkMsg], by simp [hasMsg, mkMsg],
      by simp [hasMsg, mkMsg], by simp [hasMsg, mkMsg], by simp [hasMsg, mkMsg], by simp [hasMsg, mkMsg]⟩
    intro m hm
    simp only [List.mem_singleton] at hm
    subst hm
    exact ⟨rfl, rfl, rfl, rfl, rfl, hj⟩
  | x2d a bb ha hb j hj =>
    rcases ha with rfl | rfl | rfl <;> rcases hb with rfl | rfl <;> simp [hasMsg, mkMsg, GShape, hj]
  | d2t => simp [hasMsg]

/-! ## the invariant -/

section
variable (t H inp)

structure GNodeOK (pool : List Msg) (dl : List (Pid × Msg)) (st fi : List Pid) (q : Pid) (x : State) : Prop where
  inv : GInv t H inp q x
  pi : GPI t H inp q x x.phase
  started : q ∈ st ↔ x.phase ≠ .initial
  deliv : ∀ m, (q, m) ∈ dl → x.phase ≠ .terminated → m.sender ∈ sendersOf x m.phase
  sentQ : x.phase ≠ .initial → hasMsg pool q .quality
  sentP : x.phase = .prepare ∨ x.phase = .commit → hasMsg pool q .prepare
  sentC : x.phase = .commit → hasMsg pool q .commit
  sentD : x.phase = .decide ∨ x.phase = .terminated → hasMsg pool q .decide
  prepSelf : hasMsg pool q .prepare → x.phase ≠ .initial ∧ x.phase ≠ .quality
  fired : q ∈ fi → x.phase ≠ .quality ∧ x.phase ≠ .initial

structure GNInv (n : Net) : Prop where
  ids : n.nodes.map (·.1) = H
  fails : n.fails = []
  pool : ∀ m ∈ n.pool, GShape t H inp m ∧ m.sender ∈ H
  node : ∀ q x, (q, x) ∈ n.nodes → GNodeOK t H inp n.pool n.delivered n.started n.fired q x

end

theorem GNInv.mem_H {n : Net} (hn : GNInv t H inp n) {q : Pid} {x : State} (h : (q, x) ∈ n.nodes) : q ∈ H := by
  rw [← hn.ids]
  exact List.mem_map.2 ⟨(q, x), h, rfl⟩

/-- a node other than the one that moved -/
theorem GNodeOK.other {pool pool' : List Msg} {dl dl' : List (Pid × Msg)} {st st' fi fi' : List Pid} {q : Pid} {x : State}
    (h : GNodeOK t H inp pool dl st fi q x)
    (hpool : ∀ ph, hasMsg pool' q ph ↔ hasMsg pool q ph) (hdl : ∀ m, (q, m) ∈ dl' ↔ (q, m) ∈ dl)
    (hst : q ∈ st' ↔ q ∈ st) (hfi : q ∈ fi' ↔ q ∈ fi) : GNodeOK t H inp pool' dl' st' fi' q x :=
  ⟨h.inv, h.pi, hst.trans h.started, fun m hm => h.deliv m ((hdl m).1 hm), fun hx => (hpool _).2 (h.sentQ hx),
   fun hx => (hpool _).2 (h.sentP hx), fun hx => (hpool _).2 (h.sentC hx), fun hx => (hpool _).2 (h.sentD hx),
   fun hx => h.prepSelf ((hpool _).1 hx), fun hx => h.fired (hfi.1 hx)⟩

/-- the node that moved -/
theorem GNodeOK.step {pool : List Msg} {dl dl' : List (Pid × Msg)} {st st' fi fi' : List Pid} {p : Pid} {s : State}
    (h : GNodeOK t H inp pool dl st fi p s) (r : R) (g : GGood t H inp p s r)
    (hst : p ∈ st' ↔ r.1.phase ≠ .initial)
    (hdl : ∀ m, (p, m) ∈ dl' → r.1.phase ≠ .terminated → m.sender ∈ sendersOf r.1 m.phase)
    (hfi : p ∈ fi' → r.1.phase ≠ .quality ∧ r.1.phase ≠ .initial) :
    GNodeOK t H inp (pool ++ sent p r.2) dl' st' fi' p r.1 := by
  obtain ⟨_, f1, f2, f3, f4, f5, f6, _, _⟩ := g.trans.facts
  refine ⟨g.inv, g.pi, hst, hdl, ?_, ?_, ?_, ?_, ?_, hfi⟩
  · intro hx
    rw [hasMsg_append]
    rcases f1 hx with h1 | h1
    · exact Or.inl (h.sentQ h1)
    · exact Or.inr h1
  · intro hx
    rw [hasMsg_append]
    rcases f2 hx with h1 | h1
    · exact Or.inl (h.sentP h1)
    · exact Or.inr h1
  · intro hx
    rw [hasMsg_append]
    rcases f3 hx with h1 | h1
    · exact Or.inl (h.sentC h1)
    · exact Or.inr h1
  · intro hx
    rw [hasMsg_append]
    rcases f4 hx with h1 | h1
    · exact Or.inl (h.sentD h1)
    · exact Or.inr h1
  · intro hx
    rw [hasMsg_append] at hx
    rcases hx with h1 | h1
    · exact f6 (h.prepSelf h1)
    · exact f5 h1

/-- the common part of every event that runs the model on node `p` -/
theorem GNInv.apply {n : Net} (hn : GNInv t H inp n) {p : Pid} {s : State} (hp : (p, s) ∈ n.nodes) (op : Op)
    (g : GGood t H inp p s (step s op)) (dl' : List (Pid × Msg)) (st' fi' : List Pid)
    (hdlo : ∀ q m, q ≠ p → ((q, m) ∈ dl' ↔ (q, m) ∈ n.delivered))
    (hsto : ∀ q, q ≠ p → (q ∈ st' ↔ q ∈ n.started)) (hfio : ∀ q, q ≠ p → (q ∈ fi' ↔ q ∈ n.fired))
    (hst : p ∈ st' ↔ (step s op).1.phase ≠ .initial)
    (hdl : ∀ m, (p, m) ∈ dl' → (step s op).1.phase ≠ .terminated → m.sender ∈ sendersOf (step s op).1 m.phase)
    (hfi : p ∈ fi' → (step s op).1.phase ≠ .quality ∧ (step s op).1.phase ≠ .initial) :
    GNInv t H inp (Net.apply { n with delivered := dl', started := st', fired := fi' } p s op) := by
  have hpH := hn.mem_H hp
  have hsent := g.trans.facts.1
  refine ⟨?_, ?_, ?_, ?_⟩
  · show (setNode n.nodes p (step s op).1).map (·.1) = H
    rw [setNode_ids]; exact hn.ids
  · show n.fails ++ failuresOf p (step s op).2 = []
    rw [hn.fails, failuresOf_nil p _ g.nofail]; rfl
  · intro m hm
    have hm' : m ∈ n.pool ++ sent p (step s op).2 := hm
    rcases List.mem_append.1 hm' with h | h
    · exact hn.pool m h
    · obtain ⟨h1, h2⟩ := hsent m h
      exact ⟨h2, h1 ▸ hpH⟩
  · intro q x hq
    have hq' : (q, x) ∈ setNode n.nodes p (step s op).1 := hq
    show GNodeOK t H inp (n.pool ++ sent p (step s op).2) dl' st' fi' q x
    rcases mem_setNode hq' with ⟨rfl, rfl⟩ | ⟨hne, hmem⟩
    · exact (hn.node q s hp).step _ g hst hdl hfi
    · refine (hn.node q x hmem).other ?_ (fun m => hdlo q m hne) (hsto q hne) (hfio q hne)
      intro ph
      rw [hasMsg_append]
      constructor
      · rintro (h | ⟨m, hm, h1, _⟩)
        · exact h
        · exact absurd ((hsent m hm).1.symm.trans h1).symm hne
      · exact Or.inl

/-- what `syncAt` gives once its guard holds -/
theorem g_sync_handed {n : Net} (hn : GNInv t H inp n) {p : Pid} {s : State} (hnode : n.node? p = some s)
    (dl : List (Pid × Msg)) (now : Int) (hsy : syncAt n dl p now = true) (htp : timedPhase s.phase = true)
    (hel : s.phaseTimeoutElapsed now = true) :
    ∀ h ∈ H, ∃ m, (p, m) ∈ dl ∧ m.sender = h ∧ m.phase = s.phase := by
  have hs := (hn.node p s (node?_mem hnode)).inv
  unfold syncAt at hsy
  rw [hnode] at hsy
  dsimp only at hsy
  rw [if_pos (by simp [hs.round, htp, hel])] at hsy
  unfold allHanded at hsy
  rw [List.all_eq_true] at hsy
  intro h hh
  rw [← hn.ids] at hh
  obtain ⟨e, he, rfl⟩ := List.mem_map.1 hh
  have := hsy e he
  rw [List.any_eq_true] at this
  obtain ⟨d, hd, hcond⟩ := this
  simp only [Bool.and_eq_true, beq_iff_eq] at hcond
  refine ⟨d.2, ?_, hcond.1.1.2, hcond.1.2⟩
  rw [← hcond.1.1.1]
  exact hd

theorem g_netStep_start {n : Net} (hn : GNInv t H inp n) (p : Pid) (now : Int)
    (hok : opOk n (.start p now) = true) : GNInv t H inp (netStep n (.start p now)) := by
  cases hnode : n.node? p with
  | none => simp only [netStep, hnode]; exact hn
  | some s =>
    simp only [netStep, hnode]
    have hp := node?_mem hnode
    have hno := hn.node p s hp
    unfold opOk at hok
    simp only [Bool.and_eq_true, Bool.not_eq_true', List.contains_eq_mem, decide_eq_false_iff_not] at hok
    have hph : s.phase = .initial := by
      by_cases hne : s.phase = .initial
      · exact hne
      · exact absurd (hno.started.2 hne) hok.2
    have hq := step_start_phase s now hph
    refine hn.apply hp (.start now) (step_start_ggood now hno.inv hno.pi hph) n.delivered (n.started ++ [p]) n.fired
      (fun _ _ _ => Iff.rfl) ?_ (fun _ _ => Iff.rfl) ?_ ?_ ?_
    · intro q hq
      simp [hq]
    · rw [hq]; simp
    · intro m hm
      have := hno.deliv m hm (by rw [hph]; simp)
      rw [hq]; intro _
      exact (step_start_ggood (p := p) now hno.inv hno.pi hph).mono _ _ this
    · intro hf
      have := hno.fired hf
      exact absurd hph this.2

theorem g_netStep_deliver (g : GCtx t H inp b) {n : Net} (hn : GNInv t H inp n) (p : Pid) (now : Int) (m : Msg)
    (hok : opOk n (.deliver p now m) = true) (hsy : syncOpOk n (.deliver p now m) = true) :
    GNInv t H inp (netStep n (.deliver p now m)) := by
  cases hnode : n.node? p with
  | none => simp only [netStep, hnode]; exact hn
  | some s =>
    simp only [netStep, hnode]
    have hp := node?_mem hnode
    have hno := hn.node p s hp
    have hpH := hn.mem_H hp
    unfold opOk at hok
    simp only [Bool.and_eq_true, List.contains_eq_mem, decide_eq_true_eq] at hok
    have hni : s.phase ≠ .initial := hno.started.1 hok.1
    obtain ⟨hm, hmH⟩ := hn.pool m hok.2
    by_cases hterm : s.phase = .terminated
    · rw [if_pos (by simp [hterm])]
      refine ⟨hn.ids, hn.fails, hn.pool, ?_⟩
      intro q x hq
      have hqo := hn.node q x hq
      refine ⟨hqo.inv, hqo.pi, hqo.started, ?_, hqo.sentQ, hqo.sentP, hqo.sentC, hqo.sentD, hqo.prepSelf, hqo.fired⟩
      intro m' hm' hnt
      have hm'' : (q, m') ∈ n.delivered ++ [(p, m)] := hm'
      rcases List.mem_append.1 hm'' with h | h
      · exact hqo.deliv m' h hnt
      · simp only [List.mem_singleton, Prod.mk.injEq] at h
        obtain ⟨rfl, rfl⟩ := h
        have hnd : (n.nodes.map (·.1)).Nodup := by rw [hn.ids]; exact g.nodup
        have := nodes_unique hnd hq hp
        rw [this] at hnt
        exact absurd hterm hnt
    · rw [if_neg (by simp [hterm])]
      have hself : m.phase = .prepare → m.sender = p → s.phase ≠ .quality := by
        intro h1 h2
        exact (hno.prepSelf ⟨m, hok.2, h2, h1⟩).2
      have hsm : SyncedM H s now m := by
        intro htp hel h hh
        unfold syncOpOk at hsy
        obtain ⟨m', hm', h1, h2⟩ := g_sync_handed hn hnode _ now hsy htp hel h hh
        rcases List.mem_append.1 hm' with hin | hin
        · left
          have := hno.deliv m' hin hterm
          rw [h2, h1] at this
          exact this
        · right
          simp only [List.mem_singleton, Prod.mk.injEq] at hin
          rw [← hin.2]
          exact ⟨h2, h1⟩
      obtain ⟨gg, hin⟩ := step_recv_ggood g hpH now m hno.inv hno.pi hni hterm hm hmH hself hsm
      obtain ⟨_, _, _, _, _, _, f6, f7, f8⟩ := gg.trans.facts
      refine hn.apply hp (.recv now m) gg (n.delivered ++ [(p, m)]) n.started n.fired
        ?_ (fun _ _ => Iff.rfl) (fun _ _ => Iff.rfl) ?_ ?_ ?_
      · intro q m' hq
        simp [hq]
      · exact ⟨fun _ => f7 hni, fun _ => hok.1⟩
      · intro m' hm' hnt
        rcases List.mem_append.1 hm' with h | h
        · exact gg.mono _ _ (hno.deliv m' h (f8 hnt))
        · simp only [List.mem_singleton, Prod.mk.injEq] at h
          rw [h.2]; exact hin
      · intro hf
        have := hno.fired hf
        have := f6 ⟨this.2, this.1⟩
        exact ⟨this.2, this.1⟩

theorem g_netStep_alarm (g : GCtx t H inp b) {n : Net} (hn : GNInv t H inp n) (p : Pid) (now : Int)
    (hok : opOk n (.alarm p now) = true) (hsy : syncOpOk n (.alarm p now) = true) :
    GNInv t H inp (netStep n (.alarm p now)) := by
  cases hnode : n.node? p with
  | none => simp only [netStep, hnode]; exact hn
  | some s =>
    simp only [netStep, hnode]
    have hp := node?_mem hnode
    have hno := hn.node p s hp
    have hpH := hn.mem_H hp
    unfold opOk at hok
    simp only [List.contains_eq_mem, decide_eq_true_eq] at hok
    have hni : s.phase ≠ .initial := hno.started.1 hok
    have hsd : Synced H s now := by
      intro htp hel h hh
      unfold syncOpOk at hsy
      obtain ⟨m', hm', h1, h2⟩ := g_sync_handed hn hnode _ now hsy htp hel h hh
      have hnt : s.phase ≠ .terminated := by
        intro ht; rw [ht] at htp; cases htp
      have := hno.deliv m' hm' hnt
      rw [h2, h1] at this
      exact this
    have gg := step_alarm_ggood g hpH now hno.inv hno.pi hni hsd
    obtain ⟨_, _, _, _, _, _, f6, f7, f8⟩ := gg.trans.facts
    have hdl : ∀ m, (p, m) ∈ n.delivered → (step s (.alarm now)).1.phase ≠ .terminated →
        m.sender ∈ sendersOf (step s (.alarm now)).1 m.phase :=
      fun m' hm' hnt => gg.mono _ _ (hno.deliv m' hm' (f8 hnt))
    by_cases hf : (s.phase == .quality && s.phaseTimeoutElapsed now) = true
    · rw [if_pos hf]
      simp only [Bool.and_eq_true, beq_iff_eq] at hf
      have hph := step_alarm_fired s now hf.1 hf.2
      refine hn.apply hp (.alarm now) gg n.delivered n.started (n.fired ++ [p])
        (fun _ _ _ => Iff.rfl) (fun _ _ => Iff.rfl) ?_ ⟨fun _ => f7 hni, fun _ => hok⟩ hdl ?_
      · intro q hq
        simp [hq]
      · intro _
        rw [hph]; simp
    · rw [if_neg hf]
      refine hn.apply hp (.alarm now) gg n.delivered n.started n.fired
        (fun _ _ _ => Iff.rfl) (fun _ _ => Iff.rfl) (fun _ _ => Iff.rfl) ⟨fun _ => f7 hni, fun _ => hok⟩ hdl ?_
      intro hfi
      have := hno.fired hfi
      have := f6 ⟨this.2, this.1⟩
      exact ⟨this.2, this.1⟩

theorem g_netStep_inv (g : GCtx t H inp b) {n : Net} (hn : GNInv t H inp n) (op : NetOp)
    (hok : opOk n op = true) (hsy : syncOpOk n op = true) : GNInv t H inp (netStep n op) := by
  cases op with
  | start p now => exact g_netStep_start hn p now hok
  | deliver p now m => exact g_netStep_deliver g hn p now m hok hsy
  | alarm p now => exact g_netStep_alarm g hn p now hok hsy

theorem runNet_ginv (g : GCtx t H inp b) (ops : List NetOp) {n : Net} (hn : GNInv t H inp n)
    (hok : execOk n ops = true) (hsy : syncOk n ops = true) : GNInv t H inp (runNet n ops) := by
  induction ops generalizing n with
  | nil => exact hn
  | cons op ops ih =>
    unfold execOk at hok
    unfold syncOk at hsy
    simp only [Bool.and_eq_true] at hok hsy
    exact ih (g_netStep_inv g hn op hok.1 hsy.1) hok.2 hsy.2

theorem initNet_ginv (t : Table) (H : List Pid) (inp : Pid → Chain) (cfg : Pid → Cfg) :
    GNInv t H inp (initNet t H cfg inp) := by
  refine ⟨?_, rfl, ?_, ?_⟩
  · show (H.map (fun p => (p, init (cfg p) t (inp p)))).map (·.1) = H
    rw [List.map_map]
    have : ((fun x : Pid × State => x.1) ∘ fun p => (p, init (cfg p) t (inp p))) = id := rfl
    rw [this, List.map_id]
  · intro m hm; cases hm
  · intro q x hq
    have hq' : (q, x) ∈ H.map (fun p => (p, init (cfg p) t (inp p))) := hq
    obtain ⟨p, _, hpe⟩ := List.mem_map.1 hq'
    simp only [Prod.mk.injEq] at hpe
    obtain ⟨rfl, rfl⟩ := hpe
    obtain ⟨h1, h2⟩ := init_ginv (cfg p) t H inp p
    refine ⟨h1, h2, ?_, ?_, ?_, ?_, ?_, ?_, ?_, ?_⟩
    · show p ∈ [] ↔ _
      simp [init]
    · intro m hm; cases hm
    · intro h; exact absurd rfl h
    · intro h; rcases h with h | h <;> cases h
    · intro h; cases h
    · intro h; rcases h with h | h <;> cases h
    · rintro ⟨m, hm, _⟩; cases hm
    · intro h; cases h

/-! ## a complete execution has decided -/

/-- every message of the pool has been tallied by every node that has not terminated -/
theorem g_complete_tallied {n : Net} (hn : GNInv t H inp n) (hc : complete n = true) :
    ∀ q x, (q, x) ∈ n.nodes → x.phase ≠ .terminated → ∀ y ph, hasMsg n.pool y ph → y ∈ sendersOf x ph := by
  unfold complete at hc
  simp only [Bool.and_eq_true, List.all_eq_true, List.contains_eq_mem, decide_eq_true_eq] at hc
  intro q x hq hnt y ph ⟨m, hm, h1, h2⟩
  have := (hn.node q x hq).deliv m (hc.2 m hm (q, x) hq) hnt
  rw [h1, h2] at this
  exact this

/-- in a complete execution a node is not waiting in QUALITY if its timer has fired or its own input is supported
by a strong quorum -/
theorem g_complete_not_quality (g : GCtx t H inp b) {n : Net} (hn : GNInv t H inp n) (hc : complete n = true)
    {q : Pid} {x : State} (hq : (q, x) ∈ n.nodes)
    (h : q ∈ n.fired ∨ (2 ≤ (inp q).length ∧ SQ t H inp (inp q) = true)) : x.phase ≠ .quality := by
  intro hph
  have hno := hn.node q x hq
  rcases h with hf | ⟨hl, hs⟩
  · exact (hno.fired hf).1 hph
  · have F := g_complete_tallied hn hc
    unfold complete at hc
    simp only [Bool.and_eq_true, List.all_eq_true, List.contains_eq_mem, decide_eq_true_eq] at hc
    have hall : ∀ h ∈ H, h ∈ x.quality.senders := by
      intro h hh
      rw [← hn.ids] at hh
      obtain ⟨e, he, rfl⟩ := List.mem_map.1 hh
      have hne := (hn.node e.1 e.2 he).started.1 (hc.1 e he)
      exact F q x hq (by rw [hph]; simp) e.1 .quality ((hn.node e.1 e.2 he).sentQ hne)
    have := hno.inv.qt.all g hall (inp q) hl
    have h1 := hno.pi
    rw [hph] at h1
    rw [show x.quality.hasStrongFor (inp q) = false from h1.1, hs] at this
    cases this

theorem g_complete_terminated (g : GCtx t H inp b) {n : Net} (hn : GNInv t H inp n) (hc : complete n = true)
    (hnq : ∀ q x, (q, x) ∈ n.nodes → x.phase ≠ .quality) :
    ∀ q x, (q, x) ∈ n.nodes → x.phase = .terminated := by
  have F := g_complete_tallied hn hc
  unfold complete at hc
  simp only [Bool.and_eq_true, List.all_eq_true, List.contains_eq_mem, decide_eq_true_eq] at hc
  obtain ⟨hst, hdl⟩ := hc
  have hnode : ∀ h ∈ H, ∃ x, (h, x) ∈ n.nodes := by
    intro h hh
    rw [← hn.ids] at hh
    obtain ⟨e, he, rfl⟩ := List.mem_map.1 hh
    exact ⟨e.2, he⟩
  have hni : ∀ q x, (q, x) ∈ n.nodes → x.phase ≠ .initial :=
    fun q x hq => (hn.node q x hq).started.1 (hst (q, x) hq)
  -- if every node has sent its message of phase `ph`, every live node has tallied all of `H` for `ph`
  have G : ∀ ph, (∀ q x, (q, x) ∈ n.nodes → hasMsg n.pool q ph) →
      ∀ q x, (q, x) ∈ n.nodes → x.phase ≠ .terminated → ∀ h ∈ H, h ∈ sendersOf x ph := by
    intro ph hall q x hq hnt h hh
    obtain ⟨y, hy⟩ := hnode h hh
    exact F q x hq hnt h ph (hall h y hy)
  have hnc : ∀ q x, (q, x) ∈ n.nodes → x.phase ≠ .converge := by
    intro q x hq hph
    have := (hn.node q x hq).pi
    rw [hph] at this
    exact this
  -- somebody has reached DECIDE
  have hD : ∃ q x, (q, x) ∈ n.nodes ∧ (x.phase = .decide ∨ x.phase = .terminated) ∨ n.nodes = [] := by
    cases hnodes : n.nodes with
    | nil => exact ⟨0, default, Or.inr rfl⟩
    | cons e es =>
      by_cases hex : ∃ q x, (q, x) ∈ n.nodes ∧ (x.phase = .decide ∨ x.phase = .terminated)
      · obtain ⟨q, x, h1, h2⟩ := hex
        exact ⟨q, x, Or.inl ⟨hnodes ▸ h1, h2⟩⟩
      · exfalso
        have hpc : ∀ q x, (q, x) ∈ n.nodes → x.phase = .prepare ∨ x.phase = .commit := by
          intro q x hq
          have h1 := hni q x hq
          have h2 := hnq q x hq
          have h3 := hnc q x hq
          have h4 : ¬ (x.phase = .decide ∨ x.phase = .terminated) := fun h => hex ⟨q, x, hq, h⟩
          cases hp : x.phase <;> simp_all
        have hP := G .prepare (fun q x hq => (hn.node q x hq).sentP (hpc q x hq))
        have hcm : ∀ q x, (q, x) ∈ n.nodes → x.phase = .commit := by
          intro q x hq
          rcases hpc q x hq with hp | hp
          · exfalso
            have hno := hn.node q x hq
            have hall := hP q x hq (by rw [hp]; simp)
            have h1 := hno.pi
            rw [hp] at h1
            obtain ⟨hns, hcr⟩ := h1.1 (hall q (hn.mem_H hq))
            by_cases hv : propOf t H inp q = PS
            · have hs := hno.inv.prep.strong_of_all g maj_propOf hall
              rw [← hv, hns] at hs
              cases hs
            · have := hno.inv.prep.couldReach_minor_all g maj_propOf _ hv hall
              rw [hcr] at this
              cases this
          · exact hp
        have hC := G .commit (fun q x hq => (hn.node q x hq).sentC (hcm q x hq))
        have he : (e.1, e.2) ∈ n.nodes := by rw [hnodes]; exact List.mem_cons_self
        have hno := hn.node e.1 e.2 he
        have hp := hcm e.1 e.2 he
        have hall := hC e.1 e.2 he (by rw [hp]; simp)
        have hs := hno.inv.comm.strong_of_all g maj_cvOf hall
        have h1 := hno.pi
        rw [hp] at h1
        rw [show (e.2.getRound 0).committed.hasStrongFor PS = false from h1.1] at hs
        cases hs
  intro q x hq
  obtain ⟨q0, x0, hd | hempty⟩ := hD
  · obtain ⟨hq0, hph0⟩ := hd
    have hm0 := (hn.node q0 x0 hq0).sentD hph0
    -- everybody is in DECIDE or beyond
    have hdt : ∀ q x, (q, x) ∈ n.nodes → x.phase = .decide ∨ x.phase = .terminated := by
      intro q x hq
      have hno := hn.node q x hq
      by_cases ht : x.phase = .terminated
      · exact Or.inr ht
      · have hin : q0 ∈ x.decision.senders := F q x hq ht q0 .decide hm0
        have h1 := hni q x hq
        have h2 := hnq q x hq
        have h3 := hnc q x hq
        have hpi := hno.pi
        cases hp : x.phase <;> rw [hp] at hpi <;> simp_all [GPI, A4]
    have hDall := G .decide (fun q x hq => (hn.node q x hq).sentD (hdt q x hq))
    rcases hdt q x hq with hp | hp
    · exfalso
      have hno := hn.node q x hq
      have hall := hDall q x hq (by rw [hp]; simp)
      have hs := hno.inv.dec.strong_of_all g maj_const hall
      have h1 := hno.pi
      rw [hp] at h1
      rw [show x.decision.hasStrongFor PS = false from h1] at hs
      cases hs
    · exact hp
  · rw [hempty] at hq; cases hq

theorem g_terminated_value {n : Net} (hn : GNInv t H inp n) {q : Pid} {x : State} (hq : (q, x) ∈ n.nodes)
    (hp : x.phase = .terminated) : ∃ d, x.termination = some d ∧ d.value = PS := by
  have hno := hn.node q x hq
  have h1 := hno.pi
  rw [hp] at h1
  obtain ⟨d, hd⟩ := h1
  exact ⟨d, hd, hno.inv.term d hd⟩

/-! ## packaging the hypotheses -/

theorem total_eq_sumP (E : List (Pid × Nat)) (hnd : (E.map (·.1)).Nodup) :
    sumP ⟨E⟩ (E.map (·.1)) = Table.total ⟨E⟩ := by
  suffices h : ∀ (E0 : List (Pid × Nat)) (E : List (Pid × Nat)), (∀ e ∈ E, Table.power ⟨E0⟩ e.1 = e.2) →
      sumP ⟨E0⟩ (E.map (·.1)) = (E.map (·.2)).sum by
    have := h E E ?_
    · rw [this]
      unfold Table.total
      exact List.sum_eq_foldl_nat
    · intro e he
      unfold Table.power
      have : E.find? (fun x => x.1 == e.1) = some e := by
        clear h
        induction E with
        | nil => cases he
        | cons a as ih =>
          simp only [List.map_cons, List.nodup_cons] at hnd
          rcases List.mem_cons.1 he with rfl | he
          · simp
          · have hne : a.1 ≠ e.1 := by
              intro heq
              exact hnd.1 (heq ▸ List.mem_map.2 ⟨e, he, rfl⟩)
            rw [List.find?_cons]
            simp only [show (a.1 == e.1) = false by simpa using hne]
            exact ih hnd.2 he
      rw [this]
  intro E0 E hE
  induction E with
  | nil => rfl
  | cons a as ih =>
    simp only [List.map_cons, List.sum_cons]
    rw [sumP_cons, hE a List.mem_cons_self, ih (fun e he => hE e (List.mem_cons_of_mem _ he))]

/-- the hypotheses of the property-level theorems give the context: the participants are exactly the members of the
table (in table order), the table has positive total power, the inputs share the base -/
theorem gctx_of (t : Table) (H : List Pid) (inp : Pid → Chain) (b : Nat) (hH : t.entries.map (·.1) = H) (hnd : H.Nodup)
    (hpos : 0 < t.total) (hbase : ∀ p ∈ H, (inp p).head? = some b) : GCtx t H inp b := by
  refine ⟨hnd, ?_, ?_, hpos, hbase⟩
  · intro x hx
    exact index_of_mem t x (by rw [hH]; exact hx)
  · rw [← hH]
    cases t with
    | mk E => exact total_eq_sumP E (by rw [← hH] at hnd; exact hnd)

/-! ## unanimous inputs -/

theorem sq_unanimous {c : Chain} (g : GCtx t H (fun _ => c) b) : SQ t H (fun _ => c) c = true := by
  unfold SQ supp
  have : H.filter (fun _ => c.isPrefixOf c) = H := by
    rw [List.filter_eq_self]
    intro _ _
    rw [isPrefixOf_iff]
    exact List.prefix_rfl
  rw [this, g.full]
  exact strongQ_total t

/-- with unanimous inputs the longest quorum-supported prefix is the common input -/
theorem pstar_unanimous {c : Chain} (g : GCtx t H (fun _ => c) b) : longestQuorumPrefix t H (fun _ => c) = c := by
  obtain ⟨h0, _, he⟩ := g.pstar_mem
  rw [he]
  unfold propOf
  exact lpOf_self _ _ (sq_unanimous g)

/-! ## the two results, for the initial network -/

/-- safety: the invariant holds after every admissible, synchrony-ordered execution -/
theorem general_invariant_core (g : GCtx t H inp b) (cfg : Pid → Cfg) (ops : List NetOp)
    (hexec : execOk (initNet t H cfg inp) ops = true) (hsync : SyncOrdered (initNet t H cfg inp) ops) :
    GNInv t H inp (runNet (initNet t H cfg inp) ops) :=
  runNet_ginv g ops (initNet_ginv t H inp cfg) hexec hsync

/-- liveness: a complete execution in which no node is left waiting for its QUALITY timer has decided `PS` -/
theorem general_decides_core (g : GCtx t H inp b) (cfg : Pid → Cfg) (ops : List NetOp)
    (hexec : execOk (initNet t H cfg inp) ops = true) (hsync : SyncOrdered (initNet t H cfg inp) ops)
    (hcomplete : complete (runNet (initNet t H cfg inp) ops) = true)
    (hnq : ∀ p s, (p, s) ∈ (runNet (initNet t H cfg inp) ops).nodes → s.phase ≠ .quality) :
    (∀ p ∈ H, ∃ s, (p, s) ∈ (runNet (initNet t H cfg inp) ops).nodes) ∧
    ∀ p s, (p, s) ∈ (runNet (initNet t H cfg inp) ops).nodes →
      s.phase = .terminated ∧ ∃ d, s.termination = some d ∧ d.value = PS := by
  have hn := general_invariant_core g cfg ops hexec hsync
  refine ⟨?_, ?_⟩
  · intro p hp
    rw [← hn.ids] at hp
    obtain ⟨e, he, rfl⟩ := List.mem_map.1 hp
    exact ⟨e.2, he⟩
  · intro p s hp
    have ht := g_complete_terminated g hn hcomplete hnq p s hp
    exact ⟨ht, g_terminated_value hn hp ht⟩

/-- the wire messages in readable form -/
theorem gshape_cases {m : Msg} (hm : GShape t H inp m) :
    m.round = 0 ∧
    ((m.phase = .quality ∧ m.value = inp m.sender ∧ m.just = none) ∨
     (m.phase = .prepare ∧ m.value = propOf t H inp m.sender ∧ m.just = none) ∨
     (m.phase = .commit ∧ m.value = cvOf t H inp m.sender ∧
        (m.value ≠ [] → ∃ j, m.just = some j ∧ j.round = 0 ∧ j.phase = .prepare ∧ j.value = PS)) ∨
     (m.phase = .decide ∧ m.value = PS ∧ ∃ j, m.just = some j ∧ j.round = 0 ∧ j.phase = .commit ∧ j.value = PS)) := by
  obtain ⟨h1, h2, h3, h4⟩ := gshape_just hm
  refine ⟨hm.1, ?_⟩
  have hph := hm.2.2.2
  cases hp : m.phase <;> rw [hp] at hph
  · exact hph.elim
  · exact Or.inl ⟨rfl, h1 hp⟩
  · exact hph.elim
  · exact Or.inr (Or.inl ⟨rfl, h2 hp⟩)
  · exact Or.inr (Or.inr (Or.inl ⟨rfl, h3 hp⟩))
  · exact Or.inr (Or.inr (Or.inr ⟨rfl, h4 hp⟩))
  · exact hph.elim

end

end F3.SyncGeneral
