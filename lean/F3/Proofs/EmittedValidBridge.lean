import F3.Proofs.NoFailureBridge
import F3.Proofs.EmittedValidEx
/-!
# `emitted_valid` for `ValidRun` / `NetworkV` (the vocabulary of the end-to-end agreement theorems)

`F3.EmittedValid.emitted_valid_run` restated over `F3.Bridge.ValidRun`: every broadcast of an honest participant with
positive power is a message its peers' validators accept (`MsgValid W t`), hence a delivery of it satisfies the
hypothesis `valid` of every other participant's `ValidRun`. The evidence set is the network's `W` itself.
-/
namespace F3.EmittedValid
open F3 F3.Instance F3.Bridge

/-- **`emitted_valid`.** Every broadcast of a valid run of an honest participant with positive power is accepted by
the validator model, w.r.t. the same set `W` of existing votes. -/
theorem emitted_valid {W : Votes} {t : Table} {p : Pid} (vr : ValidRun W t p) (hT : 0 < t.total) (hpos : 0 < t.power p) :
    ∀ r ph v tk j, Eff.broadcast r ph v tk j ∈ (run (init vr.cfg t vr.input) (.start vr.start :: vr.ops)).2 →
      MsgValid W t (msgOf p r ph v j) :=
  emitted_valid_run vr.cfg t vr.input W p vr.start vr.ops vr.inputNe hT hpos vr.noRestart
    (fun op hop => by rw [← foreign_eq]; exact vr.valid op hop)
    (fun r ph v tk j hm => (vr.own r ph v).2 ⟨tk, j, hm⟩)

/-- In a network of model participants every message an honest member with power emits may be delivered, at any time,
to any participant: the delivery satisfies the validity hypothesis of `ValidRun`. -/
theorem emitted_deliverable {t : Table} {F : Finset Pid} {W : Votes} (N : NetworkV t F W) (p : Pid)
    (hp : p ∈ (ids t).toFinset) (hF : p ∉ F) (hpos : 0 < t.power p) (r : Nat) (ph : Phase) (v : Chain) (tk : Bool)
    (j : Option Just)
    (hm : Eff.broadcast r ph v tk j ∈ (run (init (N.runs p hp hF).cfg t (N.runs p hp hF).input)
      (.start (N.runs p hp hF).start :: (N.runs p hp hF).ops)).2) (now : Int) :
    OpValidG W t (.recv now (msgOf p r ph v j)) :=
  emitted_valid (N.runs p hp hF) N.totalPos hpos r ph v tk j hm

/-- non-vacuity: member 1 of the example network `exNetV` (decides `[7,8]` in round 0) — its four broadcasts, the
COMMIT and the DECIDE with their justifications, are valid w.r.t. `exW` -/
example : MsgValid exW exTbl (msgOf 1 0 .quality [7, 8] none) ∧ MsgValid exW exTbl (msgOf 1 0 .prepare [7, 8] none) ∧
    MsgValid exW exTbl (msgOf 1 0 .commit [7, 8] (some exJp)) ∧ MsgValid exW exTbl (msgOf 1 0 .decide [7, 8] (some exJc)) := by
  have h := emitted_valid (exRunV 1 (Or.inl rfl)) (by decide) (by decide)
  have hb : bcList (run (init (exRunV 1 (Or.inl rfl)).cfg exTbl (exRunV 1 (Or.inl rfl)).input)
      (.start (exRunV 1 (Or.inl rfl)).start :: (exRunV 1 (Or.inl rfl)).ops)).2 =
      [(0, .quality, [7, 8], none), (0, .prepare, [7, 8], none), (0, .commit, [7, 8], some exJp),
       (0, .decide, [7, 8], some exJc)] := by decide
  have key : ∀ x ∈ bcList (run (init (exRunV 1 (Or.inl rfl)).cfg exTbl (exRunV 1 (Or.inl rfl)).input)
      (.start (exRunV 1 (Or.inl rfl)).start :: (exRunV 1 (Or.inl rfl)).ops)).2,
      MsgValid exW exTbl (msgOf 1 x.1 x.2.1 x.2.2.1 x.2.2.2) := by
    intro x hx
    simp only [bcList, List.mem_filterMap] at hx
    obtain ⟨e, he, hex⟩ := hx
    cases e <;> simp at hex
    subst hex
    exact h _ _ _ _ _ he
  rw [hb] at key
  exact ⟨key (0, .quality, [7, 8], none) (by simp), key (0, .prepare, [7, 8], none) (by simp),
    key (0, .commit, [7, 8], some exJp) (by simp), key (0, .decide, [7, 8], some exJc) (by simp)⟩

end F3.EmittedValid
