import F3.Proofs.ChainXSpec
/-!
# Unsolicited traffic and the wanted cache (state-level facts, no reachability needed)

Delivering a broadcast (`feed`) changes a wanted cache only by replacing placeholders with the
chain they stand for: no key leaves, no key enters, no value other than a placeholder changes; and
every placeholder whose key is a prefix of the admitted chain is replaced.
-/
set_option linter.unusedSectionVars false
set_option linter.unusedSimpArgs false
namespace F3.ChainX
open F3.Lru Spec

theorem peek_add_self_present {c : PCache} {k : Key} (v : Portion) (hk : k ∈ keysOf c.items) :
    (c.add k v).1.peek k = some v := by
  unfold Cache.add Cache.peek
  cases hf : find? c.items k with
  | some v' => simp [find?_cons]
  | none => exact absurd hk (find?_none_iff.mp hf)

/-- how one iteration of the discovered-caching loop changes what the wanted cache holds for `K` -/
theorem discStep_w_peek (w d : PCache) (p K : Key) :
    (discStep (w, d) p).1.peek K = w.peek K ∨
    (K = p ∧ w.peek K = some .placeholder ∧ (discStep (w, d) p).1.peek K = some (.chain K)) := by
  rcases discStep_cases w d p with ⟨_, e⟩ | ⟨hp, e⟩ | ⟨c, _, e⟩
  · left; rw [e]
  · have hk : p ∈ keysOf w.items := peek_isSome_iff.mp (by simp [hp])
    rw [e]
    by_cases hK : K = p
    · subst hK; right; exact ⟨rfl, hp, peek_add_self_present _ hk⟩
    · left; exact peek_add_present _ hk hK
  · left; rw [e]

theorem discFold_w_peek (ps : List Key) (w d : PCache) (K : Key) :
    (ps.foldl discStep (w, d)).1.peek K = w.peek K ∨
    (w.peek K = some .placeholder ∧ (ps.foldl discStep (w, d)).1.peek K = some (.chain K)) := by
  induction ps generalizing w d with
  | nil => left; rfl
  | cons p ps ih =>
    simp only [List.foldl_cons]
    have e1 : discStep (w, d) p = ((discStep (w, d) p).1, (discStep (w, d) p).2) := rfl
    rw [e1]
    rcases discStep_w_peek w d p K with h1 | ⟨_, h1, h2⟩
    · rcases ih (discStep (w, d) p).1 (discStep (w, d) p).2 with h3 | ⟨h3, h4⟩
      · left; rw [h3, h1]
      · right; exact ⟨by rw [← h1]; exact h3, h4⟩
    · rcases ih (discStep (w, d) p).1 (discStep (w, d) p).2 with h3 | ⟨h3, _⟩
      · right; exact ⟨h1, by rw [h3]; exact h2⟩
      · rw [h2] at h3; cases h3

theorem discFold_fills (ps : List Key) (w d : PCache) {q : Key} (hq : q ∈ ps)
    (hp : w.peek q = some .placeholder) : (ps.foldl discStep (w, d)).1.peek q = some (.chain q) := by
  induction ps generalizing w d with
  | nil => simp at hq
  | cons p ps ih =>
    simp only [List.foldl_cons]
    have e1 : discStep (w, d) p = ((discStep (w, d) p).1, (discStep (w, d) p).2) := rfl
    rw [e1]
    by_cases hqp : q = p
    · subst hqp
      rcases discStep_w_peek w d q q with h1 | ⟨_, _, h2⟩
      · -- impossible: the placeholder case of discStep applies
        rcases discStep_cases w d q with ⟨e, _⟩ | ⟨_, e⟩ | ⟨c, e, _⟩
        · rw [hp] at e; cases e
        · have hk : q ∈ keysOf w.items := peek_isSome_iff.mp (by simp [hp])
          rw [e] at h1
          rw [peek_add_self_present _ hk, hp] at h1; cases h1
        · rw [hp] at e; cases e
      · rcases discFold_w_peek ps (discStep (w, d) q).1 (discStep (w, d) q).2 q with h3 | ⟨h3, _⟩
        · rw [h3]; exact h2
        · rw [h2] at h3; cases h3
    · have hq' : q ∈ ps := by
        rcases List.mem_cons.mp hq with h | h
        · exact absurd h hqp
        · exact h
      rcases discStep_w_peek w d p q with h1 | ⟨h1, _, _⟩
      · exact ih _ _ hq' (by rw [h1]; exact hp)
      · exact absurd h1 hqp

/-- keys of the wanted cache are untouched by one iteration (as a set) -/
theorem discStep_w_keys (w d : PCache) (p K : Key) :
    ((discStep (w, d) p).1.peek K).isSome = (w.peek K).isSome := by
  rcases discStep_w_peek w d p K with h | ⟨_, h1, h2⟩
  · rw [h]
  · rw [h1, h2]; rfl

theorem feed_W (s : State) (p : Progress) (now : Int) (m : Option Msg) (i : Nat) :
    W (feed s p now m).1 i = W s i ∨
    ∃ msg, m = some msg ∧ (feed s p now m).2 = .accept ∧ i = msg.inst ∧
      W (feed s p now m).1 i = ((prefixes (chainIds msg.chain)).foldl discStep (W s i, D s i)).1 := by
  rcases feed_cases s p now m with ⟨msg, hm, _, e⟩ | ⟨e1, _⟩
  · obtain ⟨_, hW, _⟩ := cacheAsDiscovered_local s msg.inst (chainIds msg.chain)
    by_cases hi : i = msg.inst
    · right
      refine ⟨msg, hm, by rw [e], hi, ?_⟩
      rw [e]; show W (cacheAsDiscovered s msg.inst (chainIds msg.chain)) i = _
      rw [hW i]; simp [hi]
    · left
      rw [e]; show W (cacheAsDiscovered s msg.inst (chainIds msg.chain)) i = _
      rw [hW i]; simp [hi]
  · left; rw [e1]

/-! ## the pinned tree's variant (S6), for the witness in `Props/C18.lean` -/

def feedS6 (s : State) (p : Progress) (now : Int) (m : Option Msg) : State × Verdict :=
  match validate s.opts p now m, m with
  | .accept, some msg => (cacheAsDiscoveredS6 s msg.inst (chainIds msg.chain), .accept)
  | v, _ => (s, v)

def stepS6 (s : State) : Op → State × Out
  | .feed p now m => let r := feedS6 s p now m; (r.1, .verdict r.2)
  | op => step s op

def runBothS6 (s : State) (t : Tracker) : List Op → State × Tracker
  | [] => (s, t)
  | o :: os => runBothS6 (stepS6 s o).1 (observe t o (stepS6 s o).2) os

/-- the history of a node configured with `o` after `ops`: model state and specification tracker -/
def history (o : Opts) (ops : List Op) : State × Tracker :=
  runBoth (init o) (Tracker.init o.maxWanted o.maxDiscovered) ops

def historyS6 (o : Opts) (ops : List Op) : State × Tracker :=
  runBothS6 (init o) (Tracker.init o.maxWanted o.maxDiscovered) ops

theorem history_tinv (o : Opts) (hw : 0 < o.maxWanted) (hd : 0 < o.maxDiscovered) (ops : List Op) :
    TInv (history o ops).2 (history o ops).1 :=
  tinv_run ops (tinv_init o hw hd)

theorem history_state (o : Opts) (ops : List Op) : (history o ops).1 = run (init o) ops :=
  runBoth_fst _ _ _

end F3.ChainX
