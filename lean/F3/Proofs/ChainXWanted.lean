import F3.Proofs.ChainXSpec
/-!
# Unsolicited traffic and the wanted cache (state-level facts, no reachability needed)

Delivering a broadcast (`feed`) changes a wanted cache only by replacing placeholders with the
chain they stand for: no key leaves, no key enters, no value other than a placeholder changes; and
every placeholder whose key is a prefix of the admitted chain is replaced.
-/
set_option linter.unusedSectionVars false
set_option linter.unusedSimpArgs false
namespace F3.ChainX
open F3.Lru Spec

theorem peek_add_self_present {c : PCache} {k : Key} (v : Portion) (hk : k ∈ keysOf c.items) :
    (c.add k v).1.peek k = some v := by
  unfold Cache.add Cache.peek
  cases hf : find? c.items k with
  | some v' => simp [find?_cons]
  | none => exact absurd hk (find?_none_iff.mp hf)

/-- how one iteration of the discovered-caching loop changes what the wanted cache holds for `K` -/
theorem discStep_w_peek (w d : PCache) (p K : Key) :
    (discStep (w, d) p).1.peek K = w.peek K ∨
    (K = p ∧ w.peek K = some .placeholder ∧ (discStep (w, d) p).1.peek K = some (.chain K)) := by
  rcases discStep_cases w d p with ⟨_, e⟩ | ⟨hp, e⟩ | ⟨c, _, e⟩
  · left; rw [e]
  · have hk : p ∈ keysOf w.items := peek_isSome_iff.mp (by simp [hp])
    rw [e]
    by_cases hK : K = p
    · subst hK; right; exact ⟨rfl, hp, peek_add_self_present _ hk⟩
    · left; exact peek_add_present _ hk hK
  · left; rw [e]

theorem discFold_w_peek (ps : List Key) (w d : PCache) (K : Key) :
    (ps.foldl discStep (w, d)).1.peek K = w.peek K ∨
    (w.peek K = some .placeholder ∧ (ps.foldl discStep (w, d)).1.peek K = some (.chain K)) := by
  induction ps generalizing w d with
  | nil => left; rfl
  | cons p ps ih =>
    simp only [List.foldl_cons]
    have e1 : discStep (w, d) p = ((discStep (w, d) p).1, (discStep (w, d) p).2) := rfl
    rw [e1]
    rcases discStep_w_peek w d p K with h1 | ⟨_, h1, h2⟩
    · rcases ih (discStep (w, d) p).1 (discStep (w, d) p).2 with h3 | ⟨h3, h4⟩
      · left; rw [h3, h1]
      · right; exact ⟨by rw [← h1]; exact h3, h4⟩
    · rcases ih (discStep (w, d) p).1 (discStep (w, d) p).2 with h3 | ⟨h3, _⟩
      · right; exact ⟨h1, by rw [h3]; exact h2⟩
      · rw [h2] at h3; cases h3

theorem discFold_fills (ps : List Key) (w d : PCache) {q : Key} (hq : q ∈ ps)
    (hp : w.peek q = some .placeholder) : (ps.foldl discStep (w, d)).1.peek q = some (.chain q) := by
  induction ps generalizing w d with
  | nil => simp at hq
  | cons p ps ih =>
    simp only [List.foldl_cons]
    have e1 : discStep (w, d) p = ((discStep (w, d) p).1, (discStep (w, d) p).2) := rfl
    rw [e1]
    by_cases hqp : q = p
    · subst hqp
      rcases discStep_w_peek w d q q with h1 | ⟨_, _, h2⟩
      · -- impossible: the placeholder case of discStep applies
        rcases discStep_cases w d q with ⟨e, _⟩ | ⟨_, e⟩ | ⟨c, e, _⟩
        · rw [hp] at e; cases e
        · have hk : q ∈ keysOf w.items := peek_isSome_iff.mp (by simp [hp])
          rw [e] at h1
          rw [peek_add_self_present _ hk, hp] at h1; cases h1
        · rw [hp] at e; cases e
      · rcases discFold_w_peek ps (discStep (w, d) q).1 (discStep (w, d) q).2 q with h3 | ⟨h3, _⟩
        · rw [h3]; exact h2
        · rw [h2] at h3; cases h3
    · have hq' : q ∈ ps := by
        rcases List.mem_cons.mp hq with h | h
        · exact absurd h hqp
        · exact h
      rcases discStep_w_peek w d p q with h1 | ⟨h1, _, _⟩
      · exact ih _ _ hq' (by rw [h1]; exact hp)
      · exact absurd h1 hqp

/-- keys of the wanted cache are untouched by one iteration (as a set) -/
theorem discStep_w_keys (w d : PCache) (p K : Key) :
    ((discStep (w, d) p).1.peek K).isSome = (w.peek K).isSome := by
  rcases discStep_w_peek w d p K with h | ⟨_, h1, h2⟩
  · rw [h]
  · rw [h1, h2]; rfl

theorem feed_W (s : State) (p : Progress) (now : Int) (m : Option Msg) (i : Nat) :
    W (feed s p now m).1 i = W s i ∨
    ∃ msg, m = some msg ∧ (feed s p now m).2 = .accept ∧ i = msg.inst ∧
      W (feed s p now m).1 i = ((prefixes (chainIds msg.chain)).foldl discStep (W s i, D s i)).1 := by
  rcases feed_cases s p now m with ⟨msg, hm, _, e⟩ | ⟨e1, _⟩
  · obtain ⟨_, hW, _⟩ := cacheAsDiscovered_local s msg.inst (chainIds msg.chain)
    by_cases hi : i = msg.inst
    · right
      refine ⟨msg, hm, by rw [e], hi, ?_⟩
      rw [e]; show W (cacheAsDiscovered s msg.inst (chainIds msg.chain)) i = _
      rw [hW i]; simp [hi]
    · left
      rw [e]; show W (cacheAsDiscovered s msg.inst (chainIds msg.chain)) i = _
      rw [hW i]; simp [hi]
  · left; rw [e1]

/-! ## the pinned tree's variant (S6), for the witness in `Props/C18.lean` -/

def feedS6 (s : State) (p : Progress) (now : Int) (m : Option Msg) : State × Verdict :=
  match validate s.opts p now m, m with
  | .accept, some msg => (cacheAsDiscoveredS6 s msg.inst (chainIds msg.chain), .accept)
  | v, _ => (s, v)

def stepS6 (s : State) : Op → State × Out
  | .feed p now m => let r := feedS6 s p now m; (r.1, .verdict r.2)
  | op => step s op

def runBothS6 (s : State) (t : Tracker) : List Op → State × Tracker
  | [] => (s, t)
  | o :: os => runBothS6 (stepS6 s o).1 (observe t o (stepS6 s o).2) os

/-- the history of a node configured with `o` after `ops`: model state and specification tracker -/
def history (o : Opts) (ops : List Op) : State × Tracker :=
  runBoth (init o) (Tracker.init o.maxWanted o.maxDiscovered) ops

def historyS6 (o : Opts) (ops : List Op) : State × Tracker :=
  runBothS6 (init o) (Tracker.init o.maxWanted o.maxDiscovered) ops

theorem history_tinv (o : Opts) (hw : 0 < o.maxWanted) (hd : 0 < o.maxDiscovered) (ops : List Op) :
    TInv (history o ops).2 (history o ops).1 :=
  tinv_run ops (tinv_init o hw hd)

theorem history_state (o : Opts) (ops : List Op) : (history o ops).1 = run (init o) ops :=
  runBoth_fst _ _ _

/-! ## bursts of deliveries after a lookup -/

/-- a burst of pubsub deliveries -/
def feeds (s : State) : List (Progress × Int × Option Msg) → State
  | [] => s
  | x :: r => feeds (feed s x.1 x.2.1 x.2.2).1 r

theorem feed_keeps (s : State) (p : Progress) (now : Int) (m : Option Msg) (i : Nat) (K : Key) :
    (W (feed s p now m).1 i).peek K = (W s i).peek K ∨
    ((W s i).peek K = some .placeholder ∧ (W (feed s p now m).1 i).peek K = some (.chain K)) := by
  rcases feed_W s p now m i with e | ⟨msg, _, _, _, e⟩
  · left; rw [e]
  · rw [e]; exact discFold_w_peek _ _ _ K

theorem feeds_keep (s : State) (fs : List (Progress × Int × Option Msg)) (i : Nat) (K : Key) :
    (W (feeds s fs) i).peek K = (W s i).peek K ∨
    ((W s i).peek K = some .placeholder ∧ (W (feeds s fs) i).peek K = some (.chain K)) := by
  induction fs generalizing s with
  | nil => left; rfl
  | cons x r ih =>
    simp only [feeds]
    rcases feed_keeps s x.1 x.2.1 x.2.2 i K with h1 | ⟨h1, h2⟩
    · rcases ih (feed s x.1 x.2.1 x.2.2).1 with h3 | ⟨h3, h4⟩
      · left; rw [h3, h1]
      · right; exact ⟨by rw [← h1]; exact h3, h4⟩
    · rcases ih (feed s x.1 x.2.1 x.2.2).1 with h3 | ⟨h3, _⟩
      · right; exact ⟨h1, by rw [h3]; exact h2⟩
      · rw [h2] at h3; cases h3

theorem feed_fills (s : State) (p : Progress) (now : Int) (msg : Msg)
    (hacc : (feed s p now (some msg)).2 = .accept) (q : Key) (hq : q ∈ prefixes (chainIds msg.chain))
    (hp : (W s msg.inst).peek q = some .placeholder) :
    (W (feed s p now (some msg)).1 msg.inst).peek q = some (.chain q) := by
  rcases feed_cases s p now (some msg) with ⟨msg', hm, _, e⟩ | ⟨_, e2⟩
  · cases hm
    obtain ⟨_, hW, _⟩ := cacheAsDiscovered_local s msg.inst (chainIds msg.chain)
    rw [e]; show (W (cacheAsDiscovered s msg.inst (chainIds msg.chain)) msg.inst).peek q = _
    rw [hW msg.inst]; simp only [if_true]
    exact discFold_fills _ _ _ hq hp
  · exact absurd (e2 hacc) (by simp)

/-- after a lookup the key sits in the wanted cache, as a placeholder or with its chain -/
theorem getChain_leaves_wanted {t : Tracker} {s : State} (h : TInv t s) (i : Nat) {K : Key} (hK : K ≠ []) :
    (W (getChain s i K).1 i).peek K = some .placeholder ∨ (W (getChain s i K).1 i).peek K = some (.chain K) := by
  have h' := tinv_get i K h
  simp only [step, observe, hK, if_false] at h'
  have hrel := h'.rel i
  have hb := hrel.b K ⟨[], (getChain s i K).2.1.isSome⟩ (by
    rw [onGet_eq]; simp only [setD_w, setW_w_same]; simp) (by
    show 0 < (onGet t i K _).capW
    rw [(onGet_frame t i K _).1]; exact h.posW)
  have hsome := holds_peek_isSome hb.1
  cases hp : (W (getChain s i K).1 i).peek K with
  | none => rw [hp] at hsome; cases hsome
  | some q =>
    rcases hrel.wok.vals K q hp with h1 | h1
    · left; rw [h1]
    · right; rw [h1]

/-- a chain stored in the wanted cache under `K` is what the lookup of `K` returns -/
theorem getChain_of_wanted (s : State) (i : Nat) {K : Key} (hK : K ≠ []) {c : Chain}
    (h : (W s i).peek K = some (.chain c)) : (getChain s i K).2.1 = some c := by
  obtain ⟨hr, _, _⟩ := getChain_local s i hK
  rw [hr]
  rcases getLocal_cases (W s i) (D s i) K with ⟨c', hc, e⟩ | ⟨hnc, _⟩ | ⟨hnc, _⟩
  · rw [e]; rw [h] at hc; cases hc; rfl
  · exact absurd h (hnc c)
  · exact absurd h (hnc c)

theorem asked_delivered_flooded (o : Opts) (hw : 0 < o.maxWanted) (hd : 0 < o.maxDiscovered) (ops : List Op)
    (i : Nat) (K : Key) (hK : K ≠ []) (fs₁ fs₂ : List (Progress × Int × Option Msg))
    (p : Progress) (now : Int) (msg : Msg) (hinst : msg.inst = i) (hpre : K ∈ prefixes (chainIds msg.chain))
    (hacc : (feed (feeds (getChain (run (init o) ops) i K).1 fs₁) p now (some msg)).2 = .accept) :
    (getChain (feeds (feed (feeds (getChain (run (init o) ops) i K).1 fs₁) p now (some msg)).1 fs₂) i K).2.1 = some K := by
  have hT := history_tinv o hw hd ops
  rw [history_state] at hT
  generalize run (init o) ops = s0 at hT hacc ⊢
  have h1 := getChain_leaves_wanted hT i hK
  generalize (getChain s0 i K).1 = s1 at h1 hacc ⊢
  have h2 : (W (feeds s1 fs₁) i).peek K = some .placeholder ∨ (W (feeds s1 fs₁) i).peek K = some (.chain K) := by
    rcases feeds_keep s1 fs₁ i K with e | ⟨_, e⟩
    · rw [e]; exact h1
    · right; exact e
  generalize feeds s1 fs₁ = s2 at h2 hacc ⊢
  have h3 : (W (feed s2 p now (some msg)).1 i).peek K = some (.chain K) := by
    rcases h2 with h2 | h2
    · subst hinst; exact feed_fills s2 p now msg hacc K hpre h2
    · rcases feed_keeps s2 p now (some msg) i K with e | ⟨e, _⟩
      · rw [e]; exact h2
      · rw [h2] at e; cases e
  generalize (feed s2 p now (some msg)).1 = s3 at h3 ⊢
  have h4 : (W (feeds s3 fs₂) i).peek K = some (.chain K) := by
    rcases feeds_keep s3 fs₂ i K with e | ⟨e, _⟩
    · rw [e]; exact h3
    · rw [h3] at e; cases e
  exact getChain_of_wanted _ i hK h4


/-! ## a fresh admission -/

theorem onAdmittedPrefix_none_w (t : Tracker) (i : Nat) (p : Key) (h : t.w i p = none) :
    (onAdmittedPrefix i t p).w = t.w := by
  rw [onAdmittedPrefix_none t i p h]; rfl

theorem onAdmittedPrefix_none_d (t : Tracker) (i : Nat) (p q : Key) (h : t.w i p = none) :
    (onAdmittedPrefix i t p).d i q = if q = p then some ((t.d i p).getD []) else (t.d i q).map (ins p) := by
  rw [onAdmittedPrefix_none t i p h]
  simp only [setDelivered_d, setD_d_same, touchD_d_same]
  by_cases hq : q = p <;> simp [hq]

theorem admFold_w (i : Nat) (ps : List Key) (t : Tracker) (h : ∀ p ∈ ps, t.w i p = none) :
    (ps.foldl (onAdmittedPrefix i) t).w = t.w := by
  induction ps generalizing t with
  | nil => rfl
  | cons p r ih =>
    simp only [List.foldl_cons]
    have hp := h p (List.mem_cons_self ..)
    have hw := onAdmittedPrefix_none_w t i p hp
    rw [ih _ (fun x hx => by rw [hw]; exact h x (List.mem_cons_of_mem _ hx)), hw]

theorem admFold_d_grow (i : Nat) (q : Key) (r : List Key) (t : Tracker) (ds0 : List Key)
    (h : ∀ p ∈ r, t.w i p = none) (hd : t.d i q = some ds0) :
    ∃ ds, (r.foldl (onAdmittedPrefix i) t).d i q = some ds ∧ ds.length ≤ ds0.length + r.length := by
  induction r generalizing t ds0 with
  | nil => exact ⟨ds0, hd, by simp⟩
  | cons p r ih =>
    simp only [List.foldl_cons]
    have hp := h p (List.mem_cons_self ..)
    have hw := onAdmittedPrefix_none_w t i p hp
    have hr : ∀ x ∈ r, (onAdmittedPrefix i t p).w i x = none := fun x hx => by
      rw [hw]; exact h x (List.mem_cons_of_mem _ hx)
    by_cases hq : q = p
    · subst hq
      have hd' : (onAdmittedPrefix i t q).d i q = some ds0 := by
        rw [onAdmittedPrefix_none_d t i q q hp]; simp [hd]
      obtain ⟨ds, e, hl⟩ := ih _ ds0 hr hd'
      exact ⟨ds, e, by simp only [List.length_cons]; omega⟩
    · have hd' : (onAdmittedPrefix i t p).d i q = some (ins p ds0) := by
        rw [onAdmittedPrefix_none_d t i p q hp]; simp [hq, hd]
      obtain ⟨ds, e, hl⟩ := ih _ (ins p ds0) hr hd'
      refine ⟨ds, e, ?_⟩
      have : (ins p ds0).length ≤ ds0.length + 1 := by
        show (insNew p ds0).length ≤ _
        unfold insNew; by_cases hm : p ∈ ds0 <;> simp [hm]
      simp only [List.length_cons]; omega

theorem admFold_d_fresh (i : Nat) (q : Key) (ps : List Key) (t : Tracker)
    (h : ∀ p ∈ ps, t.w i p = none) (hq : q ∈ ps) (hd : t.d i q = none) :
    ∃ ds, (ps.foldl (onAdmittedPrefix i) t).d i q = some ds ∧ ds.length + 1 ≤ ps.length := by
  induction ps generalizing t with
  | nil => simp at hq
  | cons p r ih =>
    simp only [List.foldl_cons]
    have hp := h p (List.mem_cons_self ..)
    have hw := onAdmittedPrefix_none_w t i p hp
    have hr : ∀ x ∈ r, (onAdmittedPrefix i t p).w i x = none := fun x hx => by
      rw [hw]; exact h x (List.mem_cons_of_mem _ hx)
    by_cases hqp : q = p
    · subst hqp
      have hd' : (onAdmittedPrefix i t q).d i q = some [] := by
        rw [onAdmittedPrefix_none_d t i q q hp]; simp [hd]
      obtain ⟨ds, e, hl⟩ := admFold_d_grow i q r _ [] hr hd'
      exact ⟨ds, e, by simp only [List.length_cons, List.length_nil] at hl ⊢; omega⟩
    · have hq' : q ∈ r := by
        rcases List.mem_cons.mp hq with e | e
        · exact absurd e hqp
        · exact e
      have hd' : (onAdmittedPrefix i t p).d i q = none := by
        rw [onAdmittedPrefix_none_d t i p q hp]; simp [hqp, hd]
      obtain ⟨ds, e, hl⟩ := ih _ hr hq' hd'
      exact ⟨ds, e, by simp only [List.length_cons]; omega⟩

theorem length_prefixes (c : Chain) : (prefixes c).length = c.length := by
  simp [prefixes]

theorem step_opts (s : State) (op : Op) : (step s op).1.opts = s.opts := by
  cases op with
  | get i k => exact getChain_opts s i k
  | feed p now m =>
    rcases feed_cases s p now m with ⟨msg, _, _, e⟩ | ⟨e1, _⟩
    · simp only [step, e]; rfl
    · simp only [step, e1]
  | bcast i c => exact (cacheAsWanted_local s i c).1
  | prune n => rfl

theorem run_opts (s : State) (ops : List Op) : (run s ops).opts = s.opts := by
  induction ops generalizing s with
  | nil => rfl
  | cons o os ih => exact (ih _).trans (step_opts s o)

theorem history_opts (o : Opts) (ops : List Op) : (history o ops).1.opts = o := by
  rw [history_state, run_opts]; rfl

/-- A chain admitted for an instance at which none of its prefixes has been seen or asked for since
the last prune, and no longer than the discovered capacity: the chain and every prefix is
retrievable by key right away. -/
theorem fresh_admission (o : Opts) (hw : 0 < o.maxWanted) (hd : 0 < o.maxDiscovered) (ops : List Op)
    (p : Progress) (now : Int) (msg : Msg)
    (hacc : (feed (history o ops).1 p now (some msg)).2 = .accept)
    (hfresh : ∀ q ∈ prefixes (chainIds msg.chain),
      (history o ops).2.w msg.inst q = none ∧ (history o ops).2.d msg.inst q = none)
    (hlen : (chainIds msg.chain).length ≤ o.maxDiscovered) :
    ∀ q ∈ prefixes (chainIds msg.chain),
      (getChain (feed (history o ops).1 p now (some msg)).1 msg.inst q).2.1 = some q := by
  intro q hq
  have hT := history_tinv o hw hd ops
  have hop := history_opts o ops
  generalize history o ops = H at hT hacc hfresh hop ⊢
  obtain ⟨s, t⟩ := H
  simp only at hT hacc hfresh hop ⊢
  have hs' : (feed s p now (some msg)).1 = cacheAsDiscovered s msg.inst (chainIds msg.chain) := by
    rcases feed_cases s p now (some msg) with ⟨msg', hm, _, e⟩ | ⟨_, e2⟩
    · cases hm; rw [e]
    · exact absurd (e2 hacc) (by simp)
  rw [hs']
  have hT' := tinv_cacheAsDiscovered msg.inst (chainIds msg.chain) hT
  have hwn : ∀ x ∈ prefixes (chainIds msg.chain), t.w msg.inst x = none := fun x hx => (hfresh x hx).1
  have hw' := admFold_w msg.inst _ t hwn
  obtain ⟨ds, hds, hl⟩ := admFold_d_fresh msg.inst q _ t hwn hq (hfresh q hq).2
  have hcap : ((prefixes (chainIds msg.chain)).foldl (onAdmittedPrefix msg.inst) t).capD = o.maxDiscovered := by
    rw [hT'.capD, (cacheAsDiscovered_local s msg.inst (chainIds msg.chain)).1, hop]
  have hqne : q ≠ [] := prefixes_ne_nil hq
  have hmust : mustFindD ((prefixes (chainIds msg.chain)).foldl (onAdmittedPrefix msg.inst) t) msg.inst q = true := by
    unfold mustFindD
    rw [hw', (hfresh q hq).1, hds, hcap]
    rw [length_prefixes] at hl
    simp only [decide_eq_true_eq]
    omega
  have hj := judge_ok hT' msg.inst q
  cases hr : (getChain (cacheAsDiscovered s msg.inst (chainIds msg.chain)) msg.inst q).2.1 with
  | none =>
    rw [hr] at hj
    by_cases hW : mustFindW ((prefixes (chainIds msg.chain)).foldl (onAdmittedPrefix msg.inst) t) msg.inst q = true
    · simp [judgeLookup, hqne, hW] at hj
    · simp [judgeLookup, hqne, hW, hmust] at hj
  | some c =>
    rw [hr] at hj
    unfold judgeLookup at hj
    by_cases hck : c = q
    · rw [hck]
    · simp [hck] at hj


/-! ## witness data for `Props/C18.lean` -/

def k12 : Key := [1, 2]
/-- a tipset that passes `TipSet.Validate` -/
def okTip (id : Nat) (e : Int) : TipD := ⟨id, e, 5, 38⟩
/-- ask for `[1,2]`, receive it, receive one unsolicited chain (instance 6 current, no input yet) -/
def s6ops : List Op :=
  [ .get 6 k12,
    .feed ⟨6, none⟩ 1000 (some ⟨6, [okTip 1 1, okTip 2 2], 1000⟩),
    .feed ⟨6, none⟩ 1000 (some ⟨6, [okTip 1 1, okTip 3 3], 1000⟩) ]

end F3.ChainX
