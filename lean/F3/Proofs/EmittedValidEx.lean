import F3.Proofs.EmittedValidQuality
import F3.Model.Valid
/-!
# Non-vacuity of the run-level theorems of `F3.EmittedValid`: a two-round run

`r2Ops` is what member 1 of the audit's run E6 sees (four members of equal power; inputs `[7,8]` ×3 and `[7,9]`;
PREPARE of round 0 split 2/2, four COMMITs for bottom, CONVERGE of round 1 won by member 3's ticket for `[7]`,
decision `[7]` in round 1; a fourth DECIDE arrives after termination and is refused). `r2Votes` is the set of votes
in existence. The executable checker `msgValidB` (`F3.Model.Valid`) is shown sound w.r.t. `MsgValid` here once more,
core-only (`F3.Bridge.msgValidB_sound` lives above Mathlib), so that `F3.Props.C07` can use the example.
-/
namespace F3.EmittedValid
open F3.Instance

/-- the votes in existence, given as a list (`F3.Bridge.Wof`, core-only) -/
def WofL (votes : List Vote) : Votes := fun x r ph v => (x, r, ph, v) ∈ votes

theorem increasing_pairwise' : ∀ l : List Nat, increasing l = true → l.Pairwise (· < ·)
  | [], _ => List.Pairwise.nil
  | [_], _ => by simp
  | a :: b :: l, h => by
    simp only [increasing, Bool.and_eq_true, decide_eq_true_eq] at h
    have ih := increasing_pairwise' (b :: l) h.2
    refine List.Pairwise.cons ?_ ih
    intro x hx
    rcases List.mem_cons.1 hx with rfl | hx
    · exact h.1
    · exact Nat.lt_trans h.1 ((List.pairwise_cons.1 ih).1 x hx)

theorem justOkB_sound' (votes : List Vote) (t : Table) (j : Just) (h : justOkB votes t j = true) :
    JustOk (WofL votes) t j := by
  unfold justOkB at h
  simp only [Bool.and_eq_true, List.all_eq_true] at h
  obtain ⟨⟨hinc, hall⟩, hs⟩ := h
  refine ⟨increasing_pairwise' _ hinc, ?_, hs, ?_⟩
  · intro i hi
    have := hall i hi
    split at this
    · rename_i e he
      simp only [Bool.and_eq_true, decide_eq_true_eq] at this
      have hlt : i < t.entries.length := by
        rcases Nat.lt_or_ge i t.entries.length with h | h
        · exact h
        · rw [List.getElem?_eq_none h] at he; cases he
      exact ⟨hlt, by unfold Table.powerAt; rw [he]; exact this.1.1⟩
    · cases this
  · intro i hi
    have := hall i hi
    split at this
    · rename_i e he
      simp only [Bool.and_eq_true, decide_eq_true_eq, beq_iff_eq, List.contains_iff_mem] at this
      exact ⟨e.1, this.1.2, this.2⟩
    · cases this

theorem isEmpty_false_ne' {c : Chain} (h : (!c.isEmpty) = true) : c ≠ [] := by
  cases c <;> simp_all

theorem msgValidB_sound' (votes : List Vote) (t : Table) (m : Msg) (h : msgValidB votes t m = true) :
    MsgValid (WofL votes) t m := by
  unfold msgValidB at h
  simp only [Bool.and_eq_true, decide_eq_true_eq, List.contains_iff_mem] at h
  obtain ⟨⟨hw, hp⟩, hs⟩ := h
  refine ⟨hw, hp, ?_⟩
  unfold msgShapeB at hs
  cases hph : m.phase <;> simp only [hph] at hs ⊢
  · cases hs
  · simp only [Bool.and_eq_true, beq_iff_eq, Bool.and_true] at hs
    exact ⟨hs.1, isEmpty_false_ne' hs.2⟩
  · simp only [Bool.and_eq_true, decide_eq_true_eq] at hs
    obtain ⟨⟨hr, hne⟩, hj⟩ := hs
    refine ⟨hr, isEmpty_false_ne' hne, ?_⟩
    cases hmj : m.just with
    | none => rw [hmj] at hj; cases hj
    | some j =>
      rw [hmj] at hj
      simp only [justFor, hph, Bool.and_eq_true, beq_iff_eq, Bool.or_eq_true, List.isEmpty_iff] at hj
      exact ⟨j, rfl, justOkB_sound' _ _ _ hj.1.1, hj.1.2, hj.2⟩
  · have hj := hs
    refine ⟨?_, ?_⟩
    · intro hr
      simp only [hr, beq_self_eq_true, if_true, Option.isNone_iff_eq_none] at hj
      exact hj
    · intro hr
      have hr' : (m.round == 0) = false := by simp; omega
      simp only [hr', Bool.false_eq_true, if_false] at hj
      cases hmj : m.just with
      | none => rw [hmj] at hj; cases hj
      | some j =>
        rw [hmj] at hj
        simp only [justFor, hph, Bool.and_eq_true, beq_iff_eq, Bool.or_eq_true, List.isEmpty_iff] at hj
        exact ⟨j, rfl, justOkB_sound' _ _ _ hj.1.1, hj.1.2, hj.2⟩
  · constructor
    · intro hv
      simp only [hv, List.isEmpty_nil, if_true, Option.isNone_iff_eq_none] at hs
      exact hs
    · intro hv
      have : m.value.isEmpty = false := by cases hc : m.value <;> simp_all
      simp only [this, Bool.false_eq_true, if_false] at hs
      cases hmj : m.just with
      | none => rw [hmj] at hs; cases hs
      | some j =>
        rw [hmj] at hs
        simp only [justFor, hph, Bool.and_eq_true, beq_iff_eq] at hs
        exact ⟨j, rfl, justOkB_sound' _ _ _ hs.1.1.1, hs.1.1.2, hs.1.2, hs.2⟩
  · simp only [Bool.and_eq_true, beq_iff_eq] at hs
    obtain ⟨⟨hr, hne⟩, hj⟩ := hs
    refine ⟨hr, isEmpty_false_ne' hne, ?_⟩
    cases hmj : m.just with
    | none => rw [hmj] at hj; cases hj
    | some j =>
      rw [hmj] at hj
      simp only [justFor, hph, Bool.and_eq_true, beq_iff_eq] at hj
      exact ⟨j, rfl, justOkB_sound' _ _ _ hj.1.1, hj.1.2, hj.2⟩
  · cases hs

def opValidB' (votes : List Vote) (t : Table) : Op → Bool
  | .recv _ m => msgValidB votes t m
  | _ => true

theorem opValidB_sound' (votes : List Vote) (t : Table) (ops : List Op)
    (h : ops.all (fun op => foreignOp op || opValidB' votes t op) = true) :
    ∀ op ∈ ops, foreignOp op = true ∨ OpValidG (WofL votes) t op := by
  intro op hop
  have := List.all_eq_true.1 h op hop
  simp only [Bool.or_eq_true] at this
  rcases this with hf | hv
  · exact Or.inl hf
  · right
    cases op with
    | recv now m => exact msgValidB_sound' votes t m hv
    | start _ => trivial
    | alarm _ => trivial

/-- (round, phase, value, justification) of the broadcasts of an effect list -/
def bcList (es : List Eff) : List (Nat × Phase × Chain × Option Just) :=
  es.filterMap (fun e => match e with | .broadcast r ph v _ j => some (r, ph, v, j) | _ => none)

theorem mem_bcList {es : List Eff} {r : Nat} {ph : Phase} {v : Chain} {tk : Bool} {j : Option Just}
    (h : Eff.broadcast r ph v tk j ∈ es) : (r, ph, v, j) ∈ bcList es :=
  List.mem_filterMap.2 ⟨_, h, rfl⟩

/-! ## the run -/

def r2Tbl : Table := { entries := [(1, 10), (2, 10), (3, 10), (4, 10)] }
def r2Cfg : Cfg :=
  { maxLookahead := 2, rebImmediateAfter := 3, timeout2 := [100, 130], qualityTimeout2 := 100, rebAfter := [50] }

/-- strong COMMIT quorum for bottom in round 0 -/
def jB : Just := { round := 0, phase := .commit, value := [], signers := [0, 1, 2] }
/-- strong PREPARE quorum for `[7]` in round 1 -/
def jP : Just := { round := 1, phase := .prepare, value := [7], signers := [0, 1, 2] }
/-- strong COMMIT quorum for `[7]` in round 1 -/
def jC : Just := { round := 1, phase := .commit, value := [7], signers := [0, 1, 2] }

def r2Votes : List Vote :=
  [(1, 0, .quality, [7, 8]), (2, 0, .quality, [7, 8]), (3, 0, .quality, [7, 8]), (4, 0, .quality, [7, 9]),
   (1, 0, .prepare, [7, 8]), (2, 0, .prepare, [7, 8]), (3, 0, .prepare, [7]), (4, 0, .prepare, [7]),
   (1, 0, .commit, []), (2, 0, .commit, []), (3, 0, .commit, []), (4, 0, .commit, []),
   (1, 1, .converge, [7, 8]), (2, 1, .converge, [7, 8]), (3, 1, .converge, [7]), (4, 1, .converge, [7]),
   (1, 1, .prepare, [7]), (2, 1, .prepare, [7]), (3, 1, .prepare, [7]), (4, 1, .prepare, [7]),
   (1, 1, .commit, [7]), (2, 1, .commit, [7]), (3, 1, .commit, [7]), (4, 1, .commit, [7]),
   (1, 0, .decide, [7]), (2, 0, .decide, [7]), (3, 0, .decide, [7]), (4, 0, .decide, [7])]

/-- the calls on member 1 after its `Start` -/
def r2Ops : List Op :=
  [.recv 1 { sender := 1, round := 0, phase := .quality, value := [7, 8] },
   .recv 1 { sender := 2, round := 0, phase := .quality, value := [7, 8] },
   .recv 1 { sender := 3, round := 0, phase := .quality, value := [7, 8] },   -- quorum for the input: PREPARE [7,8]
   .recv 1 { sender := 4, round := 0, phase := .quality, value := [7, 9] },   -- late QUALITY vote
   .recv 102 { sender := 1, round := 0, phase := .prepare, value := [7, 8] },
   .recv 102 { sender := 2, round := 0, phase := .prepare, value := [7, 8] },
   .recv 102 { sender := 3, round := 0, phase := .prepare, value := [7] },
   .recv 102 { sender := 4, round := 0, phase := .prepare, value := [7] },     -- no quorum possible: COMMIT bottom
   .recv 103 { sender := 1, round := 0, phase := .commit, value := [] },
   .recv 103 { sender := 2, round := 0, phase := .commit, value := [] },
   .recv 103 { sender := 3, round := 0, phase := .commit, value := [] },       -- quorum for bottom: CONVERGE round 1
   .recv 103 { sender := 4, round := 0, phase := .commit, value := [] },
   .recv 104 { sender := 1, round := 1, phase := .converge, value := [7, 8], rank := 6, just := some jB },
   .recv 104 { sender := 2, round := 1, phase := .converge, value := [7, 8], rank := 7, just := some jB },
   .recv 104 { sender := 3, round := 1, phase := .converge, value := [7], rank := 1, just := some jB },  -- best ticket
   .recv 104 { sender := 4, round := 1, phase := .converge, value := [7], rank := 9, just := some jB },
   .alarm 400,                                                                 -- CONVERGE timeout: PREPARE [7]
   .recv 401 { sender := 1, round := 1, phase := .prepare, value := [7], just := some jB },
   .recv 401 { sender := 2, round := 1, phase := .prepare, value := [7], just := some jB },
   .recv 401 { sender := 3, round := 1, phase := .prepare, value := [7], just := some jB },  -- quorum: COMMIT [7]
   .recv 401 { sender := 4, round := 1, phase := .prepare, value := [7], just := some jB },
   .recv 402 { sender := 1, round := 1, phase := .commit, value := [7], just := some jP },
   .recv 402 { sender := 2, round := 1, phase := .commit, value := [7], just := some jP },
   .recv 402 { sender := 3, round := 1, phase := .commit, value := [7], just := some jP },   -- quorum: DECIDE [7]
   .recv 402 { sender := 4, round := 1, phase := .commit, value := [7], just := some jP },
   .recv 403 { sender := 1, round := 0, phase := .decide, value := [7], just := some jC },
   .recv 403 { sender := 2, round := 0, phase := .decide, value := [7], just := some jC },
   .recv 403 { sender := 3, round := 0, phase := .decide, value := [7], just := some jC },   -- terminated
   .recv 403 { sender := 4, round := 0, phase := .decide, value := [7], just := some jC }]   -- refused

abbrev r2W : Votes := WofL r2Votes

/-- the whole run of member 1 -/
abbrev r2Run : State × List Eff := run (init r2Cfg r2Tbl [7, 8]) (.start 0 :: r2Ops)

theorem r2_noRestart : ∀ op ∈ r2Ops, op.isStart = false := by
  have : r2Ops.all (fun op => !op.isStart) = true := by decide
  intro op hop
  simpa using List.all_eq_true.1 this op hop

theorem r2_valid : ∀ op ∈ r2Ops, foreignOp op = true ∨ OpValidG r2W r2Tbl op :=
  opValidB_sound' r2Votes r2Tbl r2Ops (by decide)

/-- what member 1 broadcasts: seven messages over two rounds, with these justifications -/
theorem r2_broadcasts : bcList r2Run.2 =
    [(0, .quality, [7, 8], none), (0, .prepare, [7, 8], none), (0, .commit, [], none),
     (1, .converge, [7, 8], some jB), (1, .prepare, [7], some jB), (1, .commit, [7], some jP),
     (0, .decide, [7], some jC)] := by decide

theorem r2_own : ∀ r ph v tk j, Eff.broadcast r ph v tk j ∈ r2Run.2 → r2W 1 r ph v := by
  intro r ph v tk j hm
  have hall : ∀ x ∈ bcList r2Run.2, ((1 : Pid), x.1, x.2.1, x.2.2.1) ∈ r2Votes := by
    rw [r2_broadcasts]; decide
  exact hall _ (mem_bcList hm)

/-- the run decides `[7]` in round 1 and reports exactly one error: the refusal after termination -/
theorem r2_outcome : r2Run.1.termination = some { round := 0, phase := .decide, value := [7], signers := [0, 1, 2] } ∧
    r2Run.1.round = 1 ∧ r2Run.2.filter (fun e => !nonErr e) = [.err .afterTermination] :=
  ⟨by decide +kernel, by decide +kernel, by decide +kernel⟩

/-! ## a run that leaves QUALITY for DECIDE directly (candidates are *not* completed there) -/

/-- strong COMMIT quorum for `[7,8]` in round 0 -/
def jC0 : Just := { round := 0, phase := .commit, value := [7, 8], signers := [0, 1, 2] }

def cxVotes : List Vote :=
  [(1, 0, .quality, [7, 8]), (2, 0, .quality, [7, 8]), (3, 0, .quality, [7, 8]), (4, 0, .quality, [7, 8, 9]),
   (1, 0, .commit, [7, 8]), (2, 0, .commit, [7, 8]), (3, 0, .commit, [7, 8]), (1, 0, .decide, [7, 8])]

/-- member 4 (input `[7,8,9]`) hears three QUALITY votes for `[7,8]` — no quorum for its whole input, so QUALITY goes
on — and then a DECIDE for `[7,8]` -/
def cxOps : List Op :=
  [.recv 1 { sender := 1, round := 0, phase := .quality, value := [7, 8] },
   .recv 1 { sender := 2, round := 0, phase := .quality, value := [7, 8] },
   .recv 1 { sender := 3, round := 0, phase := .quality, value := [7, 8] },
   .recv 2 { sender := 1, round := 0, phase := .decide, value := [7, 8], just := some jC0 }]

theorem cx_noRestart : ∀ op ∈ cxOps, op.isStart = false := by
  have : cxOps.all (fun op => !op.isStart) = true := by decide
  intro op hop
  simpa using List.all_eq_true.1 this op hop

theorem cx_valid : ∀ op ∈ cxOps, foreignOp op = true ∨ OpValidG (WofL cxVotes) r2Tbl op :=
  opValidB_sound' cxVotes r2Tbl cxOps (by decide)

end F3.EmittedValid
