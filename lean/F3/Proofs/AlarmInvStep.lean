import F3.Proofs.AlarmInv
/-!
# Timer bookkeeping of every function of the instance model (`Outcome`), composed to one API call

Every function either fails, ends in DECIDE/TERMINATED, begins a phase (`FreshR`: phase timeout requested, rebroadcast
parameters reset), does nothing to the timer fields, or is a call of `tryRebroadcast` made because
`shouldRebroadcast` holds. `step_recvOK` / `step_alarmOK`: one API call keeps `Armed`.
-/
namespace F3.Liveness
open F3.Instance

theorem Outcome.fail {q : Prop} {s : State} {now : Int} {r : R} (h : hasFailure r.2 = true) : Outcome q s now r :=
  Or.inl h
theorem Outcome.out {q : Prop} {s : State} {now : Int} {r : R} (h : OutP r.1) : Outcome q s now r :=
  Or.inr (Or.inl h)
theorem Outcome.fresh {q : Prop} {s : State} {now : Int} {r : R} (h : FreshR r) : Outcome q s now r :=
  Or.inr (Or.inr (Or.inl h))
theorem Outcome.same {q : Prop} {s : State} {now : Int} {r : R} (h1 : SameT s r.1) (h2 : ∀ tm, lastAlarm tm r.2 = tm)
    (h3 : q) : Outcome q s now r :=
  Or.inr (Or.inr (Or.inr (Or.inl ⟨h1, h2, h3⟩)))
theorem Outcome.reb {q : Prop} {s : State} {now : Int} (s' : State) (h1 : SameT s s')
    (h2 : s'.shouldRebroadcast now = true) : Outcome q s now (s'.tryRebroadcast now) :=
  Or.inr (Or.inr (Or.inr (Or.inr ⟨s', h1, h2, rfl⟩)))
theorem Outcome.fail_or_fresh {q : Prop} {s : State} {now : Int} {r : R} (h : hasFailure r.2 = true ∨ FreshR r) :
    Outcome q s now r := h.elim Outcome.fail Outcome.fresh

/-- move the starting point along a change that leaves the timer fields alone -/
theorem Outcome.of_same {q : Prop} {s s1 : State} {now : Int} {r : R} (hT : SameT s s1) (h : Outcome q s1 now r) :
    Outcome q s now r := by
  rcases h with h | h | h | ⟨h1, h2, h3⟩ | ⟨s', h1, h2, h3⟩
  · exact .fail h
  · exact .out h
  · exact .fresh h
  · exact .same (hT.trans h1) h2 h3
  · exact Or.inr (Or.inr (Or.inr (Or.inr ⟨s', hT.trans h1, h2, h3⟩)))

theorem RecvOK.of_same {s s1 : State} {now : Int} {r : R} (hT : SameT s s1) (h : RecvOK s1 now r) : RecvOK s now r := by
  rcases h with h | h
  · exact Or.inl h
  · exact Or.inr (fun tm c hc ha => h tm c hc (ha.same hT (Int.le_refl c)))

/-! ### beginning a phase -/

theorem beginPrepare_fresh (s : State) (now : Int) (j : Option Just) : FreshR (s.beginPrepare now j) := by
  unfold State.beginPrepare State.alarmAfter State.resetReb
  exact ⟨rfl, rfl, fun _ => rfl⟩

theorem beginCommit_fresh (s : State) (now : Int) : FreshR (s.beginCommit now) := by
  unfold State.beginCommit State.alarmAfter State.resetReb
  dsimp only
  split
  · exact ⟨rfl, rfl, fun _ => rfl⟩
  · split <;> exact ⟨rfl, rfl, fun _ => rfl⟩

theorem beginConverge_fresh (s : State) (now : Int) (j : Just) :
    hasFailure (s.beginConverge now j).2 = true ∨ FreshR (s.beginConverge now j) := by
  unfold State.beginConverge State.alarmAfter State.resetReb State.setRound
  dsimp only
  split
  · exact Or.inl (by simp [hasFailure])
  · exact Or.inr ⟨rfl, rfl, fun _ => rfl⟩

theorem beginNextRound_fresh (s : State) (now : Int) :
    hasFailure (s.beginNextRound now).2 = true ∨ FreshR (s.beginNextRound now) := by
  unfold State.beginNextRound
  dsimp only
  split
  · exact beginConverge_fresh _ _ _
  · exact Or.inl (by simp [hasFailure])

theorem beginQuality_fresh (s : State) (now : Int) :
    hasFailure (s.beginQuality now).2 = true ∨ FreshR (s.beginQuality now) := by
  unfold State.beginQuality State.alarmAfter State.resetReb
  dsimp only
  split
  · exact Or.inl (by simp [hasFailure])
  · exact Or.inr ⟨rfl, rfl, fun _ => rfl⟩

theorem beginDecide_out (s : State) (round : Nat) : OutP (s.beginDecide round).1 := by
  unfold State.beginDecide State.resetReb
  dsimp only
  split <;> exact Or.inl rfl

theorem skipToDecide_out (s : State) (v : Chain) (j : Option Just) : OutP (s.skipToDecide v j).1 :=
  Or.inl (skipToDecide_phase s v j)

/-! ### changes that leave the timer fields alone -/

theorem addCandidate_sameT (s : State) (c : Chain) : SameT s (s.addCandidate c).1 := by
  unfold State.addCandidate
  split <;> exact ⟨rfl, rfl, rfl, rfl, rfl, rfl⟩

theorem addCandidatePrefixes_sameT (s : State) (c : Chain) : SameT s (s.addCandidatePrefixes c).1 := by
  unfold State.addCandidatePrefixes
  generalize ((List.range (c.length - 1)).reverse.map (· + 1)) = l
  suffices h : ∀ (acc : State × Bool), SameT s acc.1 →
      SameT s (l.foldl (fun (acc : State × Bool) l =>
        let r := acc.1.addCandidate (prefixTo c l); (r.1, acc.2 || r.2)) acc).1 from h (s, false) (SameT.refl s)
  induction l with
  | nil => intro acc h; simpa using h
  | cons x xs ih =>
    intro acc h
    simp only [List.foldl_cons]
    exact ih _ (h.trans (addCandidate_sameT acc.1 _))

theorem prepareValue_sameT (s : State) (now : Int) : SameT s (s.prepareValue now) := by
  unfold State.prepareValue
  split
  · exact ⟨rfl, rfl, rfl, rfl, rfl, rfl⟩
  · split <;> exact ⟨rfl, rfl, rfl, rfl, rfl, rfl⟩

theorem commitSway_sameT (s : State) (q : Tally) : SameT s (s.commitSway q) := by
  unfold State.commitSway
  split
  · dsimp only
    split
    · exact (addCandidate_sameT s _).trans ⟨rfl, rfl, rfl, rfl, rfl, rfl⟩
    · exact addCandidate_sameT s _
  · exact SameT.refl s

theorem setRound_sameT (s : State) (r : Nat) (rs : RoundState) : SameT s (s.setRound r rs) :=
  ⟨rfl, rfl, rfl, rfl, rfl, rfl⟩

theorem not_should_not_elapsed {s : State} {now : Int} (h : ¬ s.shouldRebroadcast now = true) :
    s.phaseTimeoutElapsed now = false := by
  unfold State.shouldRebroadcast at h
  cases he : s.phaseTimeoutElapsed now
  · rfl
  · rw [he] at h; simp at h

/-! ### the `try*` functions -/

theorem tryQuality_outcome (s : State) (now : Int) :
    Outcome (s.phaseTimeoutElapsed now = false) s now (s.tryQuality now) := by
  unfold State.tryQuality
  dsimp only
  split
  · exact .fail (by simp [hasFailure])
  · split
    · exact .fresh (beginPrepare_fresh _ _ _)
    · rename_i h
      refine .same (SameT.refl s) (fun _ => rfl) ?_
      cases he : s.phaseTimeoutElapsed now
      · rfl
      · rw [he] at h; simp at h

theorem tryConverge_outcome (s : State) (now : Int) :
    Outcome (s.phaseTimeoutElapsed now = false) s now (s.tryConverge now) := by
  unfold State.tryConverge
  dsimp only
  split
  · exact .fail (by simp [hasFailure])
  · split
    · split
      · rename_i h; exact .reb s (SameT.refl s) h
      · rename_i h; exact .same (SameT.refl s) (fun _ => rfl) (not_should_not_elapsed h)
    · split
      · exact .fail (by simp [hasFailure])
      · split
        · exact .fail (by simp [hasFailure])
        · exact .fresh (beginPrepare_fresh _ _ _)

theorem tryPrepare_outcome (s : State) (now : Int) :
    Outcome (s.phaseTimeoutElapsed now = false) s now (s.tryPrepare now) := by
  unfold State.tryPrepare
  dsimp only
  split
  · exact .fail (by simp [hasFailure])
  · split
    · exact .fresh (beginCommit_fresh _ _)
    · split
      · rename_i h; exact .reb _ (prepareValue_sameT s now) h
      · rename_i h
        refine .same (prepareValue_sameT s now) (fun _ => rfl) ?_
        have := not_should_not_elapsed h
        unfold State.phaseTimeoutElapsed at this ⊢
        rwa [(prepareValue_sameT s now).pt] at this

theorem tryCommit_outcome (s : State) (now : Int) (round : Nat) :
    Outcome (s.round = round → s.phase = .commit → s.phaseTimeoutElapsed now = false) s now (s.tryCommit now round) := by
  have hsame : ∀ (h : (s.round != round || s.phase != Phase.commit) = true),
      Outcome (s.round = round → s.phase = .commit → s.phaseTimeoutElapsed now = false) s now (s, []) := by
    intro h
    refine .same (SameT.refl s) (fun _ => rfl) (fun hr hp => ?_)
    rw [hr, hp] at h; simp at h
  unfold State.tryCommit
  dsimp only
  split
  · exact .fail (by simp [hasFailure])
  · split
    · exact .out (beginDecide_out _ _)
    · split
      · rename_i h; exact hsame h
      · exact .fail_or_fresh (beginNextRound_fresh _ _)
  · split
    · rename_i h; exact hsame h
    · split
      · exact .fail_or_fresh (beginNextRound_fresh _ _)
      · split
        · exact .fail_or_fresh (beginNextRound_fresh _ _)
        · split
          · rename_i h; exact .reb s (SameT.refl s) h
          · rename_i h; exact .same (SameT.refl s) (fun _ => rfl) (fun _ _ => not_should_not_elapsed h)

theorem tryDecide_out (s : State) (now : Int) (h : s.phase = .decide) :
    hasFailure (s.tryDecide now).2 = true ∨ OutP (s.tryDecide now).1 := by
  rcases tryDecide_cases s now with hf | ⟨ht, _, _⟩ | ⟨hp, _, _⟩
  · exact Or.inl hf
  · exact Or.inr (Or.inr (Or.inl ht))
  · exact Or.inr (Or.inl (hp.trans h))

/-- **`tryCurrentPhase`**: "nothing happened" is possible only out of scope or before the phase timeout -/
theorem tryCurrentPhase_outcome (s : State) (now : Int) :
    Outcome (InScope s → s.phaseTimeoutElapsed now = false) s now (s.tryCurrentPhase now) := by
  unfold State.tryCurrentPhase
  split
  · exact (tryQuality_outcome s now).mono (fun h _ => h)
  · exact (tryConverge_outcome s now).mono (fun h _ => h)
  · exact (tryPrepare_outcome s now).mono (fun h _ => h)
  · rename_i hp; exact (tryCommit_outcome s now s.round).mono (fun h _ => h rfl hp)
  · rename_i hp
    rcases tryDecide_out s now hp with h | h
    · exact .fail h
    · exact .out h
  · rename_i hp; exact .out (Or.inr (Or.inl hp))
  · exact .fail (by simp [hasFailure])

theorem tryCurrentPhase_recvOK (s : State) (now : Int) : RecvOK s now (s.tryCurrentPhase now) :=
  (tryCurrentPhase_outcome s now).recvOK

theorem tryCurrentPhase_alarmOK (s : State) (now : Int) : AlarmOK s now (s.tryCurrentPhase now) :=
  (tryCurrentPhase_outcome s now).alarmOK

/-! ### deliveries -/

theorem recvQuality_recvOK (s : State) (now : Int) (m : Msg) : RecvOK s now (s.recvQuality now m) := by
  unfold State.recvQuality
  dsimp only
  split
  · refine Outcome.recvOK (q := True) (.same ?_ (fun _ => rfl) trivial)
    unfold State.updateCandidatesFromQuality
    exact SameT.trans (b := { s with quality := s.quality.receiveEachPrefix s.tbl m.sender m.value })
      ⟨rfl, rfl, rfl, rfl, rfl, rfl⟩ (addCandidatePrefixes_sameT _ _)
  · exact (tryCurrentPhase_recvOK _ now).of_same ⟨rfl, rfl, rfl, rfl, rfl, rfl⟩

theorem recvConverge_recvOK (s : State) (now : Int) (m : Msg) (j : Just) : RecvOK s now (s.recvConverge now m j) := by
  unfold State.recvConverge
  exact (tryCurrentPhase_recvOK _ now).of_same (setRound_sameT _ _ _)

theorem recvPrepare_recvOK (s : State) (now : Int) (m : Msg) : RecvOK s now (s.recvPrepare now m) := by
  unfold State.recvPrepare
  dsimp only
  split
  · exact Or.inl (by simp [hasFailure])
  · exact (tryCurrentPhase_recvOK _ now).of_same (setRound_sameT _ _ _)

theorem recvCommit_recvOK (s : State) (now : Int) (m : Msg) : RecvOK s now (s.recvCommit now m) := by
  unfold State.recvCommit
  dsimp only
  split
  · exact Or.inl (by simp [hasFailure])
  · split
    · exact Or.inl (by simp [hasFailure])
    · split
      · split
        · exact RecvOK.andThen ((tryCommit_outcome _ now m.round).recvOK.of_same (setRound_sameT _ _ _))
            (fun st => tryCurrentPhase_recvOK st now)
        · exact (tryCommit_outcome _ now m.round).recvOK.of_same (setRound_sameT _ _ _)
      · exact (tryCurrentPhase_recvOK _ now).of_same (setRound_sameT _ _ _)

theorem recvDecide_recvOK (s : State) (now : Int) (m : Msg) : RecvOK s now (s.recvDecide now m) := by
  unfold State.recvDecide
  dsimp only
  split
  · exact Or.inl (by simp [hasFailure])
  · split
    · refine RecvOK.andThen ?_ (fun st => tryCurrentPhase_recvOK st now)
      exact Outcome.recvOK (q := True) (.out (skipToDecide_out _ _ _))
    · exact (tryCurrentPhase_recvOK _ now).of_same ⟨rfl, rfl, rfl, rfl, rfl, rfl⟩

theorem receiveOne_recvOK (s : State) (now : Int) (m : Msg) : RecvOK s now (s.receiveOne now m).1 := by
  have hnil : RecvOK s now (s, []) := Outcome.recvOK (q := True) (.same (SameT.refl s) (fun _ => rfl) trivial)
  unfold State.receiveOne
  split
  · exact Or.inl (by simp [hasFailure])
  · exact hnil
  · split
    · exact recvQuality_recvOK s now m
    · split
      · exact Or.inl (by simp [hasFailure])
      · split
        · exact Or.inl (by simp [hasFailure])
        · exact recvConverge_recvOK s now m _
    · exact recvPrepare_recvOK s now m
    · exact recvCommit_recvOK s now m
    · exact recvDecide_recvOK s now m
    · exact Or.inl (by simp [hasFailure])

theorem postReceive_recvOK (s : State) (now : Int) (round : Nat) : RecvOK s now (s.postReceive now round) := by
  have hnil : RecvOK s now (s, []) := Outcome.recvOK (q := True) (.same (SameT.refl s) (fun _ => rfl) trivial)
  unfold State.postReceive
  dsimp only
  split
  · exact hnil
  · split
    · exact hnil
    · split
      · exact hnil
      · split
        · exact hnil
        · exact Outcome.recvOK (q := True) (.fail_or_fresh (beginConverge_fresh _ _ _))

/-- **one delivery or `Start` keeps the timer armed** -/
theorem step_recvOK (s : State) (op : Op) (hna : ∀ now, op ≠ .alarm now) : RecvOK s (opNow op) (step s op) := by
  cases op with
  | alarm now => exact absurd rfl (hna now)
  | start now => exact Outcome.recvOK (q := True) (.fail_or_fresh (beginQuality_fresh s now))
  | recv now m =>
    show RecvOK s now (step s (.recv now m))
    unfold step
    dsimp only
    split
    · exact Or.inl (by simp [hasFailure])
    · have h1 := receiveOne_recvOK s now m
      split
      · rename_i hf; exact Or.inl hf
      · split
        · exact h1.andThen (fun st => postReceive_recvOK st now m.round)
        · exact h1

/-- **a due alarm re-arms the timer** -/
theorem step_alarmOK (s : State) (now : Int) : AlarmOK s now (step s (.alarm now)) :=
  tryCurrentPhase_alarmOK s now

end F3.Liveness
