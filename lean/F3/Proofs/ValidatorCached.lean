import F3.Model.Validator
import F3.Proofs.ValidatorCache
/-!
The cached validator computes the cache-free check (`checkMsg`) on every cache whose keys are *sound*,
and keeps the cache sound — through hits, misses, inserts, flip/flop rotation, group eviction and
pruning. This is the engine of `validate_history_independent` (C05) and of the shared-cache clause of C13.
-/
set_option linter.unusedSimpArgs false
namespace F3.Validator
open F3.Msg F3.Cache

/-- What a key in group `g` of the validation cache stands for: a message (partial message) of
instance `g` that passes the cache-free check under the committee function, resp. a justification
whose signers/quorum/aggregate check passes for the recorded expected key under `g`'s committee. -/
def keyOK (cfg : Cfg) (comt : Nat → Option Committee) (g : Nat) : CKey → Prop
  | .msg m => m.vote.inst = g ∧ checkMsg cfg comt none m = .accept
  | .pmsg k m => m.vote.inst = g ∧ checkMsg cfg comt (some k) m = .accept
  | .just j ek => ∃ c, comt g = some c ∧ sigJust cfg c j ek = true
  | .pjust j ek => ∃ c, comt g = some c ∧ sigJust cfg c j ek = true

/-- The cache invariant. -/
def CacheSound (cfg : Cfg) (comt : Nat → Option Committee) (cache : VCache) : Prop :=
  ∀ g k, cache.mem g k → keyOK cfg comt g k

theorem cacheSound_new (cfg : Cfg) (comt : Nat → Option Committee) (a b : Nat) :
    CacheSound cfg comt (GroupedSet.new a b) :=
  fun g k h => absurd h (not_mem_new a b g k)

theorem cacheSound_contains {cfg : Cfg} {comt : Nat → Option Committee} {cache : VCache}
    (h : CacheSound cfg comt cache) (g : Nat) (k : CKey) :
    CacheSound cfg comt (cache.contains g k).2 :=
  fun g' k' hm => h g' k' (mem_after_contains hm)

theorem cacheSound_add {cfg : Cfg} {comt : Nat → Option Committee} {cache : VCache}
    (h : CacheSound cfg comt cache) {g : Nat} {k : CKey} (hk : keyOK cfg comt g k) :
    CacheSound cfg comt (cache.add g k).2 := by
  intro g' k' hm
  rcases mem_after_add hm with h1 | ⟨h1, h2⟩
  · exact h g' k' h1
  · subst h1; subst h2; exact hk

theorem cacheSound_removeLessThan {cfg : Cfg} {comt : Nat → Option Committee} {cache : VCache}
    (h : CacheSound cfg comt cache) (n : Nat) : CacheSound cfg comt (cache.removeLessThan n) :=
  fun g k hm => h g k (mem_after_removeLessThan hm)

theorem keyOK_justCKey {cfg : Cfg} {comt : Nat → Option Committee} {g : Nat} {vk : Option VKey}
    {j : Just} {ek : VKey} {key : CKey} (hk : justCKey vk j ek = some key) :
    keyOK cfg comt g key ↔ ∃ c, comt g = some c ∧ sigJust cfg c j ek = true := by
  unfold justCKey at hk
  split at hk
  · cases hk
    split <;> simp [keyOK]
  · cases hk

theorem keyOK_msgCKey {cfg : Cfg} {comt : Nat → Option Committee} {g : Nat} {vk : Option VKey}
    {m : Msg} {key : CKey} (hk : msgCKey vk m = some key) :
    keyOK cfg comt g key ↔ (m.vote.inst = g ∧ checkMsg cfg comt vk m = .accept) := by
  unfold msgCKey at hk
  split at hk
  · cases hk
    cases vk <;> simp [keyOK]
  · cases hk

/-- `validateJustification` with a sound cache = the cache-free justification check. -/
theorem validateJust_eq {cfg : Cfg} {comt : Nat → Option Committee} {cache : VCache}
    (hs : CacheSound cfg comt cache) {c : Committee} (vk : Option VKey) (m : Msg)
    (hc : comt m.vote.inst = some c) :
    (validateJust cfg c cache vk m).1 = checkJust cfg c vk m ∧
      CacheSound cfg comt (validateJust cfg c cache vk m).2 := by
  unfold validateJust checkJust
  cases hp : preJust vk m with
  | none => exact ⟨rfl, hs⟩
  | some p =>
    obtain ⟨j, ek⟩ := p
    simp only
    cases hk : justCKey vk j ek with
    | none => exact ⟨rfl, hs⟩
    | some key =>
      simp only
      by_cases hit : (cache.contains m.vote.inst key).1 = true
      · simp only [hit, if_true]
        have hok := (keyOK_justCKey (cfg := cfg) (comt := comt) hk).mp (hs _ _ (mem_of_contains hit))
        obtain ⟨c', hc', hsig⟩ := hok
        rw [hc] at hc'; cases hc'
        exact ⟨hsig.symm, cacheSound_contains hs _ _⟩
      · simp only [hit, Bool.false_eq_true, if_false]
        by_cases hsig : sigJust cfg c j ek = true
        · simp only [hsig, if_true]
          refine ⟨by first | rfl | trivial, cacheSound_add (cacheSound_contains hs _ _) ?_⟩
          exact (keyOK_justCKey hk).mpr ⟨c, hc, hsig⟩
        · simp only [hsig, Bool.false_eq_true, if_false]
          refine ⟨?_, cacheSound_contains hs _ _⟩
          simp [hsig]

theorem validateBody_eq {cfg : Cfg} {comt : Nat → Option Committee} {cache : VCache}
    (hs : CacheSound cfg comt cache) {c : Committee} (vk : Option VKey) (m : Msg)
    (hc : comt m.vote.inst = some c) :
    (validateBody cfg c cache vk m).1 = checkBody cfg c vk m ∧
      CacheSound cfg comt (validateBody cfg c cache vk m).2 := by
  unfold validateBody checkBody
  cases hp : preMsg cfg c vk m with
  | none => exact ⟨rfl, hs⟩
  | some b =>
    cases b with
    | true => exact validateJust_eq hs vk m hc
    | false => exact ⟨rfl, hs⟩

/-- **Cache transparency.** `validateMessageWithVoteValueKey` on a sound cache returns exactly the
cache-free verdict, and leaves a sound cache. -/
theorem validateMsgK_eq {cfg : Cfg} {comt : Nat → Option Committee} {cache : VCache}
    (hs : CacheSound cfg comt cache) (vk : Option VKey) (m : Msg) :
    (validateMsgK cfg comt cache vk m).1 = checkMsg cfg comt vk m ∧
      CacheSound cfg comt (validateMsgK cfg comt cache vk m).2 := by
  unfold validateMsgK
  cases hk : msgCKey vk m with
  | none =>
    simp only [Bool.false_eq_true, if_false]
    unfold checkMsg
    cases hc : comt m.vote.inst with
    | none => exact ⟨rfl, hs⟩
    | some c =>
      simp only
      have hb := validateBody_eq hs vk m hc
      by_cases hr : (validateBody cfg c cache vk m).1 = true
      · simp only [hr, if_true]
        rw [← hb.1, hr]
        exact ⟨rfl, hb.2⟩
      · simp only [hr, Bool.false_eq_true, if_false]
        rw [← hb.1]
        simp only [hr, Bool.false_eq_true, if_false]
        exact ⟨by first | rfl | trivial, hb.2⟩
  | some key =>
    simp only
    by_cases hit : (cache.contains m.vote.inst key).1 = true
    · simp only [hit, if_true]
      have hok := (keyOK_msgCKey (cfg := cfg) (comt := comt) hk).mp (hs _ _ (mem_of_contains hit))
      exact ⟨hok.2.symm, cacheSound_contains hs _ _⟩
    · simp only [hit, Bool.false_eq_true, if_false]
      have hs1 : CacheSound cfg comt (cache.contains m.vote.inst key).2 := cacheSound_contains hs _ _
      unfold checkMsg
      cases hc : comt m.vote.inst with
      | none => exact ⟨rfl, hs1⟩
      | some c =>
        simp only
        have hb := validateBody_eq hs1 vk m hc
        by_cases hr : (validateBody cfg c (cache.contains m.vote.inst key).2 vk m).1 = true
        · simp only [hr, if_true]
          rw [← hb.1, hr]
          refine ⟨rfl, cacheSound_add hb.2 ?_⟩
          refine (keyOK_msgCKey hk).mpr ⟨rfl, ?_⟩
          unfold checkMsg
          rw [hc]
          simp only
          rw [← hb.1, hr]
          rfl
        · simp only [hr, Bool.false_eq_true, if_false]
          rw [← hb.1]
          simp only [hr, Bool.false_eq_true, if_false]
          exact ⟨by first | rfl | trivial, hb.2⟩

/-- The verdict of `ValidateMessage` as a function of message, committee function and progress only. -/
def validatePure (cfg : Cfg) (comt : Nat → Option Committee) (prog : Progress) (m : Msg) : Verdict :=
  match byProgress cfg prog m.vote with
  | some e => e
  | none => checkMsg cfg comt none m

/-- The verdict of `PartiallyValidateMessage` as a function of its inputs only. -/
def partiallyPure (cfg : Cfg) (comt : Nat → Option Committee) (prog : Progress) (pm : PMsg) : Verdict :=
  match byProgress cfg prog pm.msg.vote with
  | some e => e
  | none => checkMsg cfg comt (some pm.key) pm.msg

theorem byProgress_ne_accept (cfg : Cfg) (cur : Progress) (v : Payload) :
    byProgress cfg cur v ≠ some .accept := by
  unfold byProgress
  repeat' split
  all_goals simp

theorem checkMsg_accept_iff_body (cfg : Cfg) (comt : Nat → Option Committee) (vk : Option VKey) (m : Msg) :
    checkMsg cfg comt vk m = .accept ↔ ∃ c, comt m.vote.inst = some c ∧ checkBody cfg c vk m = true := by
  unfold checkMsg
  cases hc : comt m.vote.inst with
  | none => simp
  | some c =>
    by_cases hb : checkBody cfg c vk m = true <;> simp [hb]

theorem partiallyPure_accept_iff (cfg : Cfg) (comt : Nat → Option Committee) (p : Progress) (pm : PMsg) :
    partiallyPure cfg comt p pm = .accept ↔
      (byProgress cfg p pm.msg.vote = none ∧ checkMsg cfg comt (some pm.key) pm.msg = .accept) := by
  unfold partiallyPure
  cases hb : byProgress cfg p pm.msg.vote with
  | none => simp
  | some e =>
    have := byProgress_ne_accept cfg p pm.msg.vote
    rw [hb] at this
    simp only [reduceCtorEq, false_and, iff_false]
    intro h; subst h; exact this rfl

theorem validatePure_accept_iff (cfg : Cfg) (comt : Nat → Option Committee) (p : Progress) (m : Msg) :
    validatePure cfg comt p m = .accept ↔
      (byProgress cfg p m.vote = none ∧ checkMsg cfg comt none m = .accept) := by
  unfold validatePure
  cases hb : byProgress cfg p m.vote with
  | none => simp
  | some e =>
    have := byProgress_ne_accept cfg p m.vote
    rw [hb] at this
    simp only [reduceCtorEq, false_and, iff_false]
    intro h; subst h; exact this rfl

theorem validate_eq {cfg : Cfg} {comt : Nat → Option Committee} {cache : VCache}
    (hs : CacheSound cfg comt cache) (prog : Progress) (m : Msg) :
    (validate cfg comt prog cache m).1 = validatePure cfg comt prog m ∧
      CacheSound cfg comt (validate cfg comt prog cache m).2 := by
  unfold validate validatePure
  cases byProgress cfg prog m.vote with
  | some e => exact ⟨rfl, hs⟩
  | none => exact validateMsgK_eq hs none m

theorem partially_eq {cfg : Cfg} {comt : Nat → Option Committee} {cache : VCache}
    (hs : CacheSound cfg comt cache) (prog : Progress) (pm : PMsg) :
    (partially cfg comt prog cache pm).1 = partiallyPure cfg comt prog pm ∧
      CacheSound cfg comt (partially cfg comt prog cache pm).2 := by
  unfold partially partiallyPure
  cases byProgress cfg prog pm.msg.vote with
  | some e => exact ⟨rfl, hs⟩
  | none => exact validateMsgK_eq hs (some pm.key) pm.msg

theorem applyOp_sound {cfg : Cfg} {comt : Nat → Option Committee} {cache : VCache}
    (hs : CacheSound cfg comt cache) (op : CacheOp) : CacheSound cfg comt (applyOp cfg comt cache op) := by
  cases op with
  | validate p m => exact (validate_eq hs p m).2
  | partially p pm => exact (partially_eq hs p pm).2
  | prune n => exact cacheSound_removeLessThan hs n

theorem runOps_sound {cfg : Cfg} {comt : Nat → Option Committee} (ops : List CacheOp) {cache : VCache}
    (hs : CacheSound cfg comt cache) : CacheSound cfg comt (runOps cfg comt cache ops) := by
  induction ops generalizing cache with
  | nil => exact hs
  | cons op t ih => exact ih (applyOp_sound hs op)

/-! ### capacity of reachable caches -/

/-- Any property of the cache that look-ups and inserts preserve is preserved by the validator. -/
theorem validateMsgK_preserves (P : VCache → Prop)
    (hc : ∀ c g k, P c → P (GroupedSet.contains c g k).2) (ha : ∀ c g k, P c → P (GroupedSet.add c g k).2)
    (cfg : Cfg) (comt : Nat → Option Committee) (cache : VCache) (vk : Option VKey) (m : Msg)
    (h : P cache) : P (validateMsgK cfg comt cache vk m).2 := by
  have hj : ∀ (c : Committee) (cache : VCache), P cache → P (validateJust cfg c cache vk m).2 := by
    intro c cache h
    unfold validateJust
    split
    · exact h
    · split
      · exact h
      · simp only
        split
        · exact hc _ _ _ h
        · split
          · exact ha _ _ _ (hc _ _ _ h)
          · exact hc _ _ _ h
  have hb : ∀ (c : Committee) (cache : VCache), P cache → P (validateBody cfg c cache vk m).2 := by
    intro c cache h
    unfold validateBody
    split
    · exact h
    · exact hj c cache h
    · exact h
  unfold validateMsgK
  simp only
  cases hk : msgCKey vk m with
  | none =>
    simp only [Bool.false_eq_true, if_false]
    split
    · exact h
    · split
      · exact hb _ _ h
      · exact hb _ _ h
  | some key =>
    simp only
    split
    · exact hc _ _ _ h
    · split
      · exact hc _ _ _ h
      · split
        · exact ha _ _ _ (hb _ _ (hc _ _ _ h))
        · exact hb _ _ (hc _ _ _ h)

theorem applyOp_preserves (P : VCache → Prop)
    (hc : ∀ c g k, P c → P (GroupedSet.contains c g k).2) (ha : ∀ c g k, P c → P (GroupedSet.add c g k).2)
    (hr : ∀ c n, P c → P (GroupedSet.removeLessThan c n))
    (cfg : Cfg) (comt : Nat → Option Committee) (cache : VCache) (op : CacheOp) (h : P cache) :
    P (applyOp cfg comt cache op) := by
  cases op with
  | validate p m =>
    show P (validate cfg comt p cache m).2
    unfold validate
    cases byProgress cfg p m.vote with
    | some e => exact h
    | none => exact validateMsgK_preserves P hc ha cfg comt cache none m h
  | partially p pm =>
    show P (partially cfg comt p cache pm).2
    unfold partially
    cases byProgress cfg p pm.msg.vote with
    | some e => exact h
    | none => exact validateMsgK_preserves P hc ha cfg comt cache _ _ h
  | prune n => exact hr _ _ h

theorem runOps_bounded (cfg : Cfg) (comt : Nat → Option Committee) (ops : List CacheOp) (cache : VCache)
    (h : cache.bounded) : (runOps cfg comt cache ops).bounded := by
  induction ops generalizing cache with
  | nil => exact h
  | cons op t ih =>
    exact ih _ (applyOp_preserves GroupedSet.bounded (fun c g k h => (bounded_contains h g k).1)
      (fun c g k h => (bounded_add h g k).1) (fun c n h => bounded_removeLessThan h n) cfg comt cache op h)

end F3.Validator
