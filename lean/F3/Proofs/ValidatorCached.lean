import F3.Model.Validator
import F3.Proofs.ValidatorCache
/-!
The cached validator computes the cache-free check (`checkMsg`) on every cache whose keys are *sound*,
and keeps the cache sound — through hits, misses, inserts, flip/flop rotation, group eviction and
pruning. This is the engine of `validate_history_independent` (C05) and of the shared-cache clause of C13.
-/
namespace F3.Validator
open F3.Msg F3.Cache

/-- What a key in group `g` of the validation cache stands for: a message (partial message) of
instance `g` that passes the cache-free check under the committee function, resp. a justification
whose signers/quorum/aggregate check passes for the recorded expected key under `g`'s committee. -/
def keyOK (cfg : Cfg) (comt : Nat → Option Committee) (g : Nat) : CKey → Prop
  | .msg m => m.vote.inst = g ∧ checkMsg cfg comt none m = .accept
  | .pmsg k m => m.vote.inst = g ∧ checkMsg cfg comt (some k) m = .accept
  | .just j ek => ∃ c, comt g = some c ∧ sigJust cfg c j ek = true
  | .pjust j ek => ∃ c, comt g = some c ∧ sigJust cfg c j ek = true

/-- The cache invariant. -/
def CacheSound (cfg : Cfg) (comt : Nat → Option Committee) (cache : VCache) : Prop :=
  ∀ g k, cache.mem g k → keyOK cfg comt g k

theorem cacheSound_new (cfg : Cfg) (comt : Nat → Option Committee) (a b : Nat) :
    CacheSound cfg comt (GroupedSet.new a b) :=
  fun g k h => absurd h (not_mem_new a b g k)

theorem cacheSound_contains {cfg : Cfg} {comt : Nat → Option Committee} {cache : VCache}
    (h : CacheSound cfg comt cache) (g : Nat) (k : CKey) :
    CacheSound cfg comt (cache.contains g k).2 :=
  fun g' k' hm => h g' k' (mem_after_contains hm)

theorem cacheSound_add {cfg : Cfg} {comt : Nat → Option Committee} {cache : VCache}
    (h : CacheSound cfg comt cache) {g : Nat} {k : CKey} (hk : keyOK cfg comt g k) :
    CacheSound cfg comt (cache.add g k).2 := by
  intro g' k' hm
  rcases mem_after_add hm with h1 | ⟨h1, h2⟩
  · exact h g' k' h1
  · subst h1; subst h2; exact hk

theorem cacheSound_removeLessThan {cfg : Cfg} {comt : Nat → Option Committee} {cache : VCache}
    (h : CacheSound cfg comt cache) (n : Nat) : CacheSound cfg comt (cache.removeLessThan n) :=
  fun g k hm => h g k (mem_after_removeLessThan hm)

theorem keyOK_justCKey {cfg : Cfg} {comt : Nat → Option Committee} {g : Nat} {vk : Option VKey}
    {j : Just} {ek : VKey} {key : CKey} (hk : justCKey vk j ek = some key) :
    keyOK cfg comt g key ↔ ∃ c, comt g = some c ∧ sigJust cfg c j ek = true := by
  unfold justCKey at hk
  split at hk
  · cases hk
    split <;> simp [keyOK]
  · cases hk

theorem keyOK_msgCKey {cfg : Cfg} {comt : Nat → Option Committee} {g : Nat} {vk : Option VKey}
    {m : Msg} {key : CKey} (hk : msgCKey vk m = some key) :
    keyOK cfg comt g key ↔ (m.vote.inst = g ∧ checkMsg cfg comt vk m = .accept) := by
  unfold msgCKey at hk
  split at hk
  · cases hk
    cases vk <;> simp [keyOK]
  · cases hk

/-- `validateJustification` with a sound cache = the cache-free justification check. -/
theorem validateJust_eq {cfg : Cfg} {comt : Nat → Option Committee} {cache : VCache}
    (hs : CacheSound cfg comt cache) {c : Committee} (vk : Option VKey) (m : Msg)
    (hc : comt m.vote.inst = some c) :
    (validateJust cfg c cache vk m).1 = checkJust cfg c vk m ∧
      CacheSound cfg comt (validateJust cfg c cache vk m).2 := by
  unfold validateJust checkJust
  cases hp : preJust vk m with
  | none => exact ⟨rfl, hs⟩
  | some p =>
    obtain ⟨j, ek⟩ := p
    simp only
    cases hk : justCKey vk j ek with
    | none => exact ⟨rfl, hs⟩
    | some key =>
      simp only
      by_cases hit : (cache.contains m.vote.inst key).1 = true
      · simp only [hit, if_true]
        have hok := (keyOK_justCKey (cfg := cfg) (comt := comt) hk).mp (hs _ _ (mem_of_contains hit))
        obtain ⟨c', hc', hsig⟩ := hok
        rw [hc] at hc'; cases hc'
        exact ⟨hsig.symm, cacheSound_contains hs _ _⟩
      · simp only [hit, Bool.false_eq_true, if_false]
        by_cases hsig : sigJust cfg c j ek = true
        · simp only [hsig, if_true]
          refine ⟨by first | rfl | trivial, cacheSound_add (cacheSound_contains hs _ _) ?_⟩
          exact (keyOK_justCKey hk).mpr ⟨c, hc, hsig⟩
        · simp only [hsig, Bool.false_eq_true, if_false]
          refine ⟨?_, cacheSound_contains hs _ _⟩
          simp [hsig]

theorem validateBody_eq {cfg : Cfg} {comt : Nat → Option Committee} {cache : VCache}
    (hs : CacheSound cfg comt cache) {c : Committee} (vk : Option VKey) (m : Msg)
    (hc : comt m.vote.inst = some c) :
    (validateBody cfg c cache vk m).1 = checkBody cfg c vk m ∧
      CacheSound cfg comt (validateBody cfg c cache vk m).2 := by
  unfold validateBody checkBody
  cases hp : preMsg cfg c vk m with
  | none => exact ⟨rfl, hs⟩
  | some b =>
    cases b with
    | true => exact validateJust_eq hs vk m hc
    | false => exact ⟨rfl, hs⟩

/-- **Cache transparency.** `validateMessageWithVoteValueKey` on a sound cache returns exactly the
cache-free verdict, and leaves a sound cache. -/
theorem validateMsgK_eq {cfg : Cfg} {comt : Nat → Option Committee} {cache : VCache}
    (hs : CacheSound cfg comt cache) (vk : Option VKey) (m : Msg) :
    (validateMsgK cfg comt cache vk m).1 = checkMsg cfg comt vk m ∧
      CacheSound cfg comt (validateMsgK cfg comt cache vk m).2 := by
  unfold validateMsgK
  cases hk : msgCKey vk m with
  | none =>
    simp only [Bool.false_eq_true, if_false]
    unfold checkMsg
    cases hc : comt m.vote.inst with
    | none => exact ⟨rfl, hs⟩
    | some c =>
      simp only
      have hb := validateBody_eq hs vk m hc
      by_cases hr : (validateBody cfg c cache vk m).1 = true
      · simp only [hr, if_true]
        rw [← hb.1, hr]
        exact ⟨rfl, hb.2⟩
      · simp only [hr, Bool.false_eq_true, if_false]
        rw [← hb.1]
        simp only [hr, Bool.false_eq_true, if_false]
        exact ⟨by first | rfl | trivial, hb.2⟩
  | some key =>
    simp only
    by_cases hit : (cache.contains m.vote.inst key).1 = true
    · simp only [hit, if_true]
      have hok := (keyOK_msgCKey (cfg := cfg) (comt := comt) hk).mp (hs _ _ (mem_of_contains hit))
      exact ⟨hok.2.symm, cacheSound_contains hs _ _⟩
    · simp only [hit, Bool.false_eq_true, if_false]
      have hs1 : CacheSound cfg comt (cache.contains m.vote.inst key).2 := cacheSound_contains hs _ _
      unfold checkMsg
      cases hc : comt m.vote.inst with
      | none => exact ⟨rfl, hs1⟩
      | some c =>
        simp only
        have hb := validateBody_eq hs1 vk m hc
        by_cases hr : (validateBody cfg c (cache.contains m.vote.inst key).2 vk m).1 = true
        · simp only [hr, if_true]
          rw [← hb.1, hr]
          refine ⟨rfl, cacheSound_add hb.2 ?_⟩
          refine (keyOK_msgCKey hk).mpr ⟨rfl, ?_⟩
          unfold checkMsg
          rw [hc]
          simp only
          rw [← hb.1, hr]
          rfl
        · simp only [hr, Bool.false_eq_true, if_false]
          rw [← hb.1]
          simp only [hr, Bool.false_eq_true, if_false]
          exact ⟨by first | rfl | trivial, hb.2⟩

/-- The verdict of `ValidateMessage` as a function of message, committee function and progress only. -/
def validatePure (cfg : Cfg) (comt : Nat → Option Committee) (prog : Progress) (m : Msg) : Verdict :=
  match byProgress cfg prog m.vote with
  | some e => e
  | none => checkMsg cfg comt none m

/-- The verdict of `PartiallyValidateMessage` as a function of its inputs only. -/
def partiallyPure (cfg : Cfg) (comt : Nat → Option Committee) (prog : Progress) (pm : PMsg) : Verdict :=
  match byProgress cfg prog pm.msg.vote with
  | some e => e
  | none => checkMsg cfg comt (some pm.key) pm.msg

theorem byProgress_ne_accept (cfg : Cfg) (cur : Progress) (v : Payload) :
    byProgress cfg cur v ≠ some .accept := by
  unfold byProgress
  repeat' split
  all_goals simp

theorem checkMsg_accept_iff_body (cfg : Cfg) (comt : Nat → Option Committee) (vk : Option VKey) (m : Msg) :
    checkMsg cfg comt vk m = .accept ↔ ∃ c, comt m.vote.inst = some c ∧ checkBody cfg c vk m = true := by
  unfold checkMsg
  cases hc : comt m.vote.inst with
  | none => simp
  | some c =>
    by_cases hb : checkBody cfg c vk m = true <;> simp [hb]

theorem partiallyPure_accept_iff (cfg : Cfg) (comt : Nat → Option Committee) (p : Progress) (pm : PMsg) :
    partiallyPure cfg comt p pm = .accept ↔
      (byProgress cfg p pm.msg.vote = none ∧ checkMsg cfg comt (some pm.key) pm.msg = .accept) := by
  unfold partiallyPure
  cases hb : byProgress cfg p pm.msg.vote with
  | none => simp
  | some e =>
    have := byProgress_ne_accept cfg p pm.msg.vote
    rw [hb] at this
    simp only [reduceCtorEq, false_and, iff_false]
    intro h; subst h; exact this rfl

theorem validatePure_accept_iff (cfg : Cfg) (comt : Nat → Option Committee) (p : Progress) (m : Msg) :
    validatePure cfg comt p m = .accept ↔
      (byProgress cfg p m.vote = none ∧ checkMsg cfg comt none m = .accept) := by
  unfold validatePure
  cases hb : byProgress cfg p m.vote with
  | none => simp
  | some e =>
    have := byProgress_ne_accept cfg p m.vote
    rw [hb] at this
    simp only [reduceCtorEq, false_and, iff_false]
    intro h; subst h; exact this rfl

theorem validate_eq {cfg : Cfg} {comt : Nat → Option Committee} {cache : VCache}
    (hs : CacheSound cfg comt cache) (prog : Progress) (m : Msg) :
    (validate cfg comt prog cache m).1 = validatePure cfg comt prog m ∧
      CacheSound cfg comt (validate cfg comt prog cache m).2 := by
  unfold validate validatePure
  cases byProgress cfg prog m.vote with
  | some e => exact ⟨rfl, hs⟩
  | none => exact validateMsgK_eq hs none m

theorem partially_eq {cfg : Cfg} {comt : Nat → Option Committee} {cache : VCache}
    (hs : CacheSound cfg comt cache) (prog : Progress) (pm : PMsg) :
    (partially cfg comt prog cache pm).1 = partiallyPure cfg comt prog pm ∧
      CacheSound cfg comt (partially cfg comt prog cache pm).2 := by
  unfold partially partiallyPure
  cases byProgress cfg prog pm.msg.vote with
  | some e => exact ⟨rfl, hs⟩
  | none => exact validateMsgK_eq hs (some pm.key) pm.msg

theorem applyOp_sound {cfg : Cfg} {comt : Nat → Option Committee} {cache : VCache}
    (hs : CacheSound cfg comt cache) (op : CacheOp) : CacheSound cfg comt (applyOp cfg comt cache op) := by
  cases op with
  | validate p m => exact (validate_eq hs p m).2
  | partially p pm => exact (partially_eq hs p pm).2
  | prune n => exact cacheSound_removeLessThan hs n

theorem runOps_sound {cfg : Cfg} {comt : Nat → Option Committee} (ops : List CacheOp) {cache : VCache}
    (hs : CacheSound cfg comt cache) : CacheSound cfg comt (runOps cfg comt cache ops) := by
  induction ops generalizing cache with
  | nil => exact hs
  | cons op t ih => exact ih (applyOp_sound hs op)

end F3.Validator
