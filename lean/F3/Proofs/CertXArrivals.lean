import F3.Spec.CertXArrivals
import F3.Proofs.CertXPoll
/-! `Poll` while certificates reach the store through another channel (C16, `pollWithArrivals`). -/
namespace F3.CertX
open F3.Certs F3.Spec.Certs F3.Spec.CertX

/-! ## `Put`, and a store that grows -/

/-- the store can name its latest table, and that table is in canonical form -/
def StoreOK (s : Store) : Prop := ∃ lt, s.latestTable = some lt ∧ applyDiff lt [] = .ok lt

/-- what a successful `Put` does: nothing (an instance already held), or it appends the certificate, which
then is for the next instance and commits to the table its delta leads to from the latest table -/
theorem put_ok {s s' : Store} {c : Cert} (h : s.put c = .ok s') :
    (s' = s ∧ c.inst < s.nextInst) ∨ (s' = { s with certs := s.certs ++ [c] } ∧ c.inst = s.nextInst ∧
      ∃ lt nt, s.latestTable = some lt ∧
        (if c.delta.isEmpty then (Except.ok lt : Except DiffErr Table) else applyDiff lt c.delta) = .ok nt ∧
        c.pt = .table nt) := by
  unfold Store.put at h
  split at h
  · cases h
  split at h
  · cases h
  split at h
  · cases h
  split at h
  · cases h
  split at h
  · rename_i hh; left; cases h; exact ⟨rfl, hh⟩
  rename_i h1 h2 h3 h4 h5
  split at h
  · cases h
  rename_i lt hlt
  simp only at h
  split at h
  · cases h
  rename_i nt hnt
  split at h
  · cases h
  rename_i hpt
  split at h
  · cases h
  right
  cases h
  refine ⟨rfl, by omega, lt, nt, hlt, hnt, ?_⟩
  simpa using hpt

theorem storeOK_snoc {s : Store} {c : Cert} {lt nt : Table} (hlt : s.latestTable = some lt)
    (hcanon : applyDiff lt [] = .ok lt)
    (hnt : (if c.delta.isEmpty then (Except.ok lt : Except DiffErr Table) else applyDiff lt c.delta) = .ok nt) :
    ({ s with certs := s.certs ++ [c] } : Store).latestTable = some nt ∧ applyDiff nt [] = .ok nt := by
  have hd : applyDiff lt c.delta = .ok nt := by
    by_cases hde : c.delta.isEmpty = true
    · simp only [hde, if_true] at hnt
      have : c.delta = [] := List.isEmpty_iff.mp hde
      rw [this, hcanon]; exact hnt
    · simp only [hde, Bool.false_eq_true, if_false] at hnt; exact hnt
  exact ⟨latestTable_snoc c hlt hd, applyDiff_fixed hd⟩

theorem put_storeOK {s s' : Store} {c : Cert} (hs : StoreOK s) (h : s.put c = .ok s') : StoreOK s' := by
  rcases put_ok h with ⟨h, _⟩ | ⟨h, _, lt, nt, hlt, hnt, _⟩
  · rw [h]; exact hs
  · obtain ⟨lt', hlt', hc'⟩ := hs
    rw [hlt] at hlt'
    cases hlt'
    rw [h]
    exact ⟨nt, (storeOK_snoc hlt hc' hnt).1, (storeOK_snoc hlt hc' hnt).2⟩

/-- the store after the arrivals: the same store with some certificates appended -/
theorem putAll_shape (s : Store) (l : List Cert) :
    ∃ added, putAll s l = { s with certs := s.certs ++ added } ∧ added.Sublist l ∧
      (StoreOK s → StoreOK (putAll s l)) := by
  induction l generalizing s with
  | nil => exact ⟨[], by simp [putAll], by simp, fun h => h⟩
  | cons c cs ih =>
    have hstep : putAll s (c :: cs) = putAll (match s.put c with | .ok s' => s' | .error _ => s) cs := rfl
    rw [hstep]
    cases hp : s.put c with
    | error e =>
      obtain ⟨added, h1, h2, h3⟩ := ih s
      exact ⟨added, h1, List.Sublist.cons _ h2, h3⟩
    | ok s1 =>
      simp only
      obtain ⟨added, h1, h2, h3⟩ := ih s1
      rcases put_ok hp with ⟨h, _⟩ | ⟨h, _⟩
      · subst h
        exact ⟨added, h1, List.Sublist.cons _ h2, h3⟩
      · refine ⟨c :: added, ?_, List.Sublist.cons_cons _ h2, fun hs => h3 (put_storeOK hs hp)⟩
        rw [h1, h]; simp

theorem getPowerTable_append (s : Store) (ext : List Cert) (i : Nat) (hi : i ≤ s.nextInst) :
    ({ s with certs := s.certs ++ ext } : Store).getPowerTable i = s.getPowerTable i := by
  unfold Store.getPowerTable Store.nextInst deltasBefore
  unfold Store.nextInst at hi
  simp only [List.length_append]
  have a : ¬ s.first + s.certs.length < i := by omega
  have b : ¬ s.first + (s.certs.length + ext.length) < i := by omega
  simp only [a, b, if_false]
  rw [List.take_append_of_le_length (by omega)]

/-- the table one instance further is the stored certificate's delta applied to the table here -/
theorem getPowerTable_succ {s : Store} {i : Nat} {t nt : Table} {stored : Cert} (hlo : s.first ≤ i)
    (hget : s.certs[i - s.first]? = some stored) (ht : s.getPowerTable i = some t)
    (hd : applyDiff t stored.delta = .ok nt) : s.getPowerTable (i + 1) = some nt := by
  have hlen : i - s.first < s.certs.length := by
    by_cases h : i - s.first < s.certs.length
    · exact h
    · rw [List.getElem?_eq_none (by omega)] at hget; cases hget
  have hdb : deltasBefore s (i + 1) = deltasBefore s i ++ [stored.delta] := by
    unfold deltasBefore
    rw [show i + 1 - s.first = (i - s.first) + 1 by omega, List.take_add_one, hget]
    simp
  unfold Store.getPowerTable at ht ⊢
  unfold Store.nextInst at ht ⊢
  have a : ¬ i + 1 < s.first := by omega
  have b : ¬ s.first + s.certs.length < i + 1 := by omega
  have c : ¬ i + 1 = s.first := by omega
  have a' : ¬ i < s.first := by omega
  have b' : ¬ s.first + s.certs.length < i := by omega
  simp only [a, b, c, if_false, hdb]
  simp only [a', b', if_false] at ht
  by_cases hi : i = s.first
  · simp only [hi, if_true, Option.some.injEq] at ht
    have : deltasBefore s i = [] := by unfold deltasBefore; simp [hi]
    subst ht
    rw [this, List.nil_append]
    show (match applyDiff s.init stored.delta with | .ok t => some t | .error _ => none) = some nt
    rw [hd]
  · simp only [hi, if_false] at ht
    cases ha : applyDiffs s.init (deltasBefore s i) with
    | error e => rw [ha] at ht; cases ht
    | ok t' =>
      rw [ha] at ht
      simp only [Option.some.injEq] at ht
      subst ht
      rw [applyDiffs_snoc stored.delta ha, hd]

theorem pstate_eq {a b : PState} (h1 : a.next = b.next) (h2 : a.table = b.table) (h3 : a.store = b.store) :
    a = b := by
  cases a; cases b; simp only at h1 h2 h3; subst h1; subst h2; subst h3; rfl

theorem store_append_nil (s : Store) : ({ s with certs := s.certs ++ [] } : Store) = s := by
  cases s; simp

theorem pollRun_nil_inv {net : Nat} {x y : Nat × Table} (h : PollRun net x [] y) : y = x := by
  cases h; rfl

/-! ## One certificate, from a poller that may lag behind its store -/

/-- the poller is somewhere inside its store, whose latest table is known (its own table may be anything) -/
structure Lag (st : PState) : Prop where
  lo : st.store.first ≤ st.next
  hi : st.next ≤ st.store.nextInst
  ok : StoreOK st.store

theorem Lag.of_consistent {st : PState} (hc : Consistent st) : Lag st :=
  ⟨by rw [hc.next]; unfold Store.nextInst; omega, by rw [hc.next]; exact Nat.le_refl _,
    ⟨st.table, hc.table, hc.canon⟩⟩

/-- a certificate for an instance the store already holds: validated, not stored, and the poller moves on -/
theorem pollCert_behind (net : Nat) (st : PState) (res : PollRes) (c : Cert) (hlo : st.store.first ≤ st.next)
    (hlt : st.next < st.store.nextInst) (hroom : st.store.nextInst < 2 ^ 64) :
    (∃ nt, CertValid net st.table st.next none c nt ∧
        pollCert net st res c =
          ({ st with next := st.next + 1, table := nt }, { res with received := res.received + 1 }, .cont)) ∨
    ((∀ nt, ¬ CertValid net st.table st.next none c nt) ∧
        pollCert net st res c = (st, { res with status := .illegal }, .illegal)) := by
  unfold pollCert
  cases hstep : stepCert net ⟨st.next, [], st.table, none⟩ c with
  | error e =>
    right
    refine ⟨?_, rfl⟩
    intro nt hv
    have := (stepCert_ok_iff net ⟨st.next, [], st.table, none⟩ c _).mpr ⟨nt, hv, rfl⟩
    rw [hstep] at this; cases this
  | ok v =>
    left
    obtain ⟨nt, hv, hveq⟩ := (stepCert_ok_iff net ⟨st.next, [], st.table, none⟩ c v).mp hstep
    have hvnext : v.next = st.next + 1 := by
      rw [hveq]; show u64 (st.next + 1) = st.next + 1
      exact u64_of_lt (by omega)
    have hvtable : v.table = nt := by rw [hveq]; rfl
    have hinst : c.inst = st.next := hv.inst
    have hfresh : isFresh st.store c = false := by
      unfold isFresh
      rw [latest?_eq]
      have h0 : ¬ st.store.certs.length = 0 := by unfold Store.nextInst at hlt; omega
      simp only [h0, if_false, decide_eq_false_iff_not]; omega
    simp only [hfresh, Bool.false_eq_true, if_false]
    exact ⟨nt, hv, by rw [hvnext, hvtable]⟩

/-- a certificate for the store's next instance: validated against the poller's table, then offered to the
store, which checks it against its own -/
theorem pollCert_head (net : Nat) (st : PState) (res : PollRes) (c : Cert) (hn : st.next = st.store.nextInst)
    (hok : StoreOK st.store) (hroom : st.store.nextInst + 1 < 2 ^ 64) :
    (∃ nt, CertValid net st.table st.next none c nt ∧
        pollCert net st res c =
          (⟨st.next + 1, nt, { st.store with certs := st.store.certs ++ [c] }⟩,
           { res with received := res.received + 1, newCerts := res.newCerts + 1 }, .cont) ∧
        Consistent ⟨st.next + 1, nt, { st.store with certs := st.store.certs ++ [c] }⟩) ∨
    ((∀ nt, ¬ CertValid net st.table st.next none c nt) ∧
        pollCert net st res c = (st, { res with status := .illegal }, .illegal)) ∨
    (∃ nt, CertValid net st.table st.next none c nt ∧
        pollCert net st res c = (st, { res with received := res.received + 1, internal := true }, .internal)) := by
  unfold pollCert
  cases hstep : stepCert net ⟨st.next, [], st.table, none⟩ c with
  | error e =>
    right; left
    refine ⟨?_, rfl⟩
    intro nt hv
    have := (stepCert_ok_iff net ⟨st.next, [], st.table, none⟩ c _).mpr ⟨nt, hv, rfl⟩
    rw [hstep] at this; cases this
  | ok v =>
    obtain ⟨nt, hv, hveq⟩ := (stepCert_ok_iff net ⟨st.next, [], st.table, none⟩ c v).mp hstep
    have hvnext : v.next = st.next + 1 := by
      rw [hveq]; show u64 (st.next + 1) = st.next + 1
      rw [hn]; exact u64_of_lt hroom
    have hvtable : v.table = nt := by rw [hveq]; rfl
    have hinst : c.inst = st.store.nextInst := by rw [← hn]; exact hv.inst
    have hfresh : isFresh st.store c = true := by
      unfold isFresh
      rw [latest?_eq]
      by_cases h0 : st.store.certs.length = 0
      · simp [h0]
      · have hp : 0 < st.store.nextInst := by unfold Store.nextInst; omega
        simp only [h0, if_false, decide_eq_true_eq]; omega
    simp only [hfresh, if_true]
    cases hput : st.store.put c with
    | error e => right; right; exact ⟨nt, hv, rfl⟩
    | ok s' =>
      left
      rcases put_ok hput with ⟨_, hlt⟩ | ⟨hs', _, lt, nt', hlt, hnt, hpt⟩
      · omega
      · have hnn : nt' = nt := by
          have := hv.committed
          rw [hpt] at this
          exact CidTok.table.inj this
        subst hnn
        obtain ⟨lt', hlt', hc'⟩ := hok
        rw [hlt] at hlt'
        cases hlt'
        have hso := storeOK_snoc hlt hc' hnt
        refine ⟨nt', hv, ?_, ?_, hso.1, hso.2⟩
        · simp only [hvnext, hvtable, hs']
        · show st.next + 1 = st.store.first + (st.store.certs ++ [c]).length
          rw [hn]; unfold Store.nextInst; simp; omega

/-! ## One response -/

/-- what processing the certificates of one response does when the poller may lag behind its store:
`skipped` are validated and passed over (their instances are in the store already), `new` are validated and
stored, `rest` is not looked at -/
structure LagOutcome (net : Nat) (st : PState) (res : PollRes) (ds : List Cert)
    (st' : PState) (res' : PollRes) (out : CertOutcome) (skipped new rest : List Cert) (m : Nat) (tm : Table) :
    Prop where
  split : ds = skipped ++ (new ++ rest)
  store : st'.store = { st.store with certs := st.store.certs ++ new }
  runS : PollRun net (st.next, st.table) skipped (m, tm)
  runN : PollRun net (m, tm) new (st'.next, st'.table)
  mid : m = st.next + skipped.length
  midle : m ≤ st.store.nextInst
  next : st'.next = m + new.length
  stored : new ≠ [] → m = st.store.nextInst ∧ Consistent st'
  newCerts : res'.newCerts = res.newCerts + new.length
  received : res'.received = res.received + skipped.length + new.length + (if out = .internal then 1 else 0)
  cont : out = .cont → rest = [] ∧ res'.status = res.status ∧ res'.internal = res.internal
  illegal : out = .illegal → ∃ c rest', rest = c :: rest' ∧
    (∀ nt, ¬ CertValid net st'.table st'.next none c nt) ∧ res'.status = .illegal ∧ res'.internal = res.internal
  internal : out = .internal → ∃ c rest' nt, rest = c :: rest' ∧
    CertValid net st'.table st'.next none c nt ∧ res'.internal = true

theorem LagOutcome.lag {net : Nat} {st : PState} {res : PollRes} {ds : List Cert} {st' : PState} {res' : PollRes}
    {out : CertOutcome} {skipped new rest : List Cert} {m : Nat} {tm : Table}
    (ho : LagOutcome net st res ds st' res' out skipped new rest m tm) (hl : Lag st) : Lag st' := by
  by_cases hn : new = []
  · subst hn
    have hs : st'.store = st.store := by rw [ho.store]; exact store_append_nil _
    have h1 := ho.next; have h2 := ho.mid; have h3 := ho.midle
    simp only [List.length_nil, Nat.add_zero] at h1
    refine ⟨?_, ?_, ?_⟩
    · rw [hs]; have := hl.lo; omega
    · rw [hs]; omega
    · rw [hs]; exact hl.ok
  · exact Lag.of_consistent (ho.stored hn).2

theorem pollCerts_lag_spec (net : Nat) (st : PState) (res : PollRes) (ds : List Cert) (hl : Lag st)
    (hroom : st.store.nextInst + ds.length < 2 ^ 64) :
    ∃ st' res' out skipped new rest m tm, pollCerts net st res ds = (st', res', out) ∧
      LagOutcome net st res ds st' res' out skipped new rest m tm := by
  induction ds generalizing st res with
  | nil =>
    refine ⟨st, res, .cont, [], [], [], st.next, st.table, rfl, ?_⟩
    exact ⟨rfl, (store_append_nil _).symm, PollRun.nil _, PollRun.nil _, by simp, hl.hi, by simp,
      fun h => absurd rfl h, by simp, by simp,
      fun _ => ⟨rfl, rfl, rfl⟩, fun h => (by cases h), fun h => (by cases h)⟩
  | cons c cs ih =>
    have hroom1 : st.store.nextInst + 1 < 2 ^ 64 := by simp only [List.length_cons] at hroom; omega
    by_cases hlt : st.next < st.store.nextInst
    · -- an instance the store holds already
      rcases pollCert_behind net st res c hl.lo hlt (by omega) with ⟨nt, hv, heq⟩ | ⟨hno, heq⟩
      · have hl1 : Lag { st with next := st.next + 1, table := nt } := ⟨by have := hl.lo; show st.store.first ≤ st.next + 1; omega,
          by show st.next + 1 ≤ st.store.nextInst; omega, hl.ok⟩
        have hroom2 : ({ st with next := st.next + 1, table := nt } : PState).store.nextInst + cs.length < 2 ^ 64 := by
          simp only [List.length_cons] at hroom; show st.store.nextInst + cs.length < 2 ^ 64; omega
        obtain ⟨st', res', out, skipped, new, rest, m, tm, hp, ho⟩ := ih _ { res with received := res.received + 1 } hl1 hroom2
        refine ⟨st', res', out, c :: skipped, new, rest, m, tm, ?_, ?_⟩
        · unfold pollCerts; rw [heq]; exact hp
        · have hu : u64 (st.next + 1) = st.next + 1 := u64_of_lt (by omega)
          refine ⟨by rw [ho.split]; rfl, ho.store, ?_, ho.runN, ?_, ho.midle, ho.next, ho.stored, ho.newCerts, ?_,
            ho.cont, ho.illegal, ho.internal⟩
          · apply PollRun.cons hv
            rw [hu]; exact ho.runS
          · rw [ho.mid]; simp only [List.length_cons]; omega
          · rw [ho.received]; simp only [List.length_cons]; omega
      · refine ⟨st, { res with status := .illegal }, .illegal, [], [], c :: cs, st.next, st.table, ?_, ?_⟩
        · unfold pollCerts; rw [heq]
        · exact ⟨rfl, (store_append_nil _).symm, PollRun.nil _, PollRun.nil _, by simp, hl.hi, by simp,
            fun h => absurd rfl h, by simp, by simp,
            fun h => (by cases h), fun _ => ⟨c, cs, rfl, hno, rfl, rfl⟩, fun h => (by cases h)⟩
    · -- the store's next instance
      have hn : st.next = st.store.nextInst := by have := hl.hi; omega
      rcases pollCert_head net st res c hn hl.ok hroom1 with ⟨nt, hv, heq, hc1⟩ | ⟨hno, heq⟩ | ⟨nt, hv, heq⟩
      · have hroom2 : ({ st.store with certs := st.store.certs ++ [c] } : Store).nextInst + cs.length < 2 ^ 64 := by
          unfold Store.nextInst at *
          simp only [List.length_append, List.length_cons, List.length_nil] at hroom ⊢
          omega
        obtain ⟨st', res', out, acc, rest, hp, ho⟩ := pollCerts_spec net _
          { res with received := res.received + 1, newCerts := res.newCerts + 1 } cs hc1 hroom2
        refine ⟨st', res', out, [], c :: acc, rest, st.next, st.table, ?_, ?_⟩
        · unfold pollCerts; rw [heq]; exact hp
        · have hu : u64 (st.next + 1) = st.next + 1 := by rw [hn]; exact u64_of_lt hroom1
          refine ⟨by rw [ho.split]; rfl, ?_, PollRun.nil _, ?_, by simp, hl.hi, ?_, fun _ => ⟨hn, ho.cons⟩, ?_, ?_,
            ho.cont, ho.illegal, ?_⟩
          · rw [ho.store]; simp
          · apply PollRun.cons hv
            rw [hu]; exact ho.run
          · rw [ho.next]; simp only [List.length_cons]; omega
          · rw [ho.newCerts]; simp only [List.length_cons]; omega
          · rw [ho.received]; simp only [List.length_cons, List.length_nil]; omega
          · intro h
            obtain ⟨c', rest', h1, h2, h3⟩ := ho.internal h
            exact ⟨c', rest', [], h1, h2, h3⟩
      · refine ⟨st, { res with status := .illegal }, .illegal, [], [], c :: cs, st.next, st.table, ?_, ?_⟩
        · unfold pollCerts; rw [heq]
        · exact ⟨rfl, (store_append_nil _).symm, PollRun.nil _, PollRun.nil _, by simp, hl.hi, by simp,
            fun h => absurd rfl h, by simp, by simp,
            fun h => (by cases h), fun _ => ⟨c, cs, rfl, hno, rfl, rfl⟩, fun h => (by cases h)⟩
      · refine ⟨st, { res with received := res.received + 1, internal := true }, .internal, [], [], c :: cs,
          st.next, st.table, ?_, ?_⟩
        · unfold pollCerts; rw [heq]
        · exact ⟨rfl, (store_append_nil _).symm, PollRun.nil _, PollRun.nil _, by simp, hl.hi, by simp,
            fun h => absurd rfl h, by simp, by simp,
            fun h => (by cases h), fun h => (by cases h), fun _ => ⟨c, cs, nt, rfl, hv, rfl⟩⟩

/-! ## The request loop -/

theorem catchUp_head {st : PState} (hn : st.next = st.store.nextInst) (hroom : st.store.nextInst < 2 ^ 64) :
    catchUp st = some st := by
  unfold catchUp
  rw [latest?_eq]
  by_cases h0 : st.store.certs.length = 0
  · simp [h0]
  · simp only [h0, if_false]
    have hp : 0 < st.store.nextInst := by unfold Store.nextInst; omega
    have : u64 (st.store.nextInst - 1 + 1) = st.next := by
      rw [hn, show st.store.nextInst - 1 + 1 = st.store.nextInst by omega]
      exact u64_of_lt hroom
    simp [this]

theorem hit_newCerts (res : PollRes) (p : Prop) [Decidable p] :
    (if p then { res with status := .hit } else res).newCerts = res.newCerts := by
  split <;> rfl

/-- `Poll` from a poller that stands at the head of its store but whose table may be anything: what is
stored validates in sequence from the poller's instance and table, and as soon as anything is stored the
poller is consistent with its store -/
theorem poll_head_spec (net : Nat) (respond : Nat → Nat → Resp) (fuel n : Nat) (st : PState) (res : PollRes)
    (hl : Lag st) (hn : st.next = st.store.nextInst)
    (hroom : st.store.nextInst + fuel * maxRequestLength < 2 ^ 64)
    (st' : PState) (res' : PollRes) (h : poll net respond fuel n st res = (st', res')) :
    ∃ new, st'.store = { st.store with certs := st.store.certs ++ new } ∧
      res'.newCerts = res.newCerts + new.length ∧ st'.next = st.next + new.length ∧
      PollRun net (st.next, st.table) new (st'.next, st'.table) ∧ (new ≠ [] → Consistent st') := by
  induction fuel generalizing n st res with
  | zero =>
    simp only [poll, Prod.mk.injEq] at h
    obtain ⟨h1, h2⟩ := h
    subst h1; subst h2
    exact ⟨[], (store_append_nil _).symm, by simp, by simp, PollRun.nil _, fun h => absurd rfl h⟩
  | succ fuel ih =>
    unfold poll at h
    have hr0 : st.store.nextInst < 2 ^ 64 := by omega
    rw [catchUp_head hn hr0] at h
    simp only at h
    cases hresp : respond n st.next with
    | fail =>
      rw [hresp] at h
      simp only [Prod.mk.injEq] at h
      obtain ⟨h1, h2⟩ := h
      subst h1; subst h2
      exact ⟨[], (store_append_nil _).symm, by simp, by simp, PollRun.nil _, fun h => absurd rfl h⟩
    | ok pending items =>
      rw [hresp] at h
      simp only at h
      have hmul : (fuel + 1) * maxRequestLength = fuel * maxRequestLength + maxRequestLength := by
        rw [Nat.add_mul]; simp
      have hlen : (clientRecv st.next maxRequestLength 0 items).length ≤ maxRequestLength := by
        have := clientRecv_length st.next maxRequestLength 0 items; omega
      have hroom1 : st.store.nextInst + (clientRecv st.next maxRequestLength 0 items).length < 2 ^ 64 := by omega
      obtain ⟨st1, res1, out, skipped, new1, rest, m, tm, hp, ho⟩ := pollCerts_lag_spec net st
        (if st.next ≤ pending then { res with status := .hit } else res)
        (clientRecv st.next maxRequestLength 0 items) hl hroom1
      rw [hp] at h
      have hsk : skipped = [] := by
        have h1 := ho.mid; have h2 := ho.midle
        exact List.eq_nil_of_length_eq_zero (by omega)
      have hm : (m, tm) = (st.next, st.table) := by
        have := ho.runS; rw [hsk] at this; exact pollRun_nil_inv this
      have hm1 : m = st.next := (Prod.mk.inj hm).1
      have hnc : res1.newCerts = res.newCerts + new1.length := by
        rw [ho.newCerts, hit_newCerts]
      have hfin : ∀ r, (st', res') = (st1, r) → r.newCerts = res1.newCerts →
          ∃ new, st'.store = { st.store with certs := st.store.certs ++ new } ∧
            res'.newCerts = res.newCerts + new.length ∧ st'.next = st.next + new.length ∧
            PollRun net (st.next, st.table) new (st'.next, st'.table) ∧ (new ≠ [] → Consistent st') := by
        intro r hr hrn
        simp only [Prod.mk.injEq] at hr
        obtain ⟨h1, h2⟩ := hr
        subst h1; subst h2
        refine ⟨new1, ho.store, by rw [hrn, hnc], by rw [ho.next, hm1], ?_, fun hne => (ho.stored hne).2⟩
        rw [← hm]; exact ho.runN
      cases out with
      | cont =>
        simp only at h
        split at h
        · exact hfin res1 h.symm rfl
        · split at h
          · exact hfin _ h.symm rfl
          · -- another request
            have hsub : new1.length ≤ maxRequestLength := by
              have := congrArg List.length ho.split
              simp only [List.length_append] at this
              omega
            have hn1 : st1.next = st1.store.nextInst := by
              rw [ho.next, ho.store, hm1, hn]; unfold Store.nextInst; simp only [List.length_append]; omega
            have hroom2 : st1.store.nextInst + fuel * maxRequestLength < 2 ^ 64 := by
              rw [ho.store]
              unfold Store.nextInst at *
              simp only [List.length_append]
              omega
            obtain ⟨new2, hs2, hn2, hx2, hr2, hc2⟩ := ih (n + 1) st1 res1 (ho.lag hl) hn1 hroom2 h
            have hrun1 : PollRun net (st.next, st.table) new1 (st1.next, st1.table) := by
              rw [← hm]; exact ho.runN
            refine ⟨new1 ++ new2, ?_, ?_, ?_, pollRun_append hrun1 hr2, ?_⟩
            · rw [hs2, ho.store]; simp
            · rw [hn2, hnc, List.length_append]; omega
            · rw [hx2, ho.next, hm1, List.length_append]; omega
            · intro hne
              by_cases h2 : new2 = []
              · subst h2
                have hne1 : new1 ≠ [] := by simpa using hne
                have heq : st' = st1 := by
                  have hy := pollRun_nil_inv hr2
                  apply pstate_eq
                  · simpa using hx2
                  · exact (Prod.mk.inj hy).2
                  · rw [hs2]; exact store_append_nil _
                rw [heq]; exact (ho.stored hne1).2
              · exact hc2 h2
      | illegal => exact hfin res1 h.symm rfl
      | internal => exact hfin res1 h.symm rfl

theorem catchUp_behind {st : PState} {lt : Table} (hw : st.store.nextInst < 2 ^ 64)
    (hne : st.store.certs.length ≠ 0) (hlt : st.store.latestTable = some lt)
    (hcanon : applyDiff lt [] = .ok lt) (hbehind : st.next ≠ st.store.nextInst) :
    catchUp st = some ⟨st.store.nextInst, lt, st.store⟩ ∧ Consistent ⟨st.store.nextInst, lt, st.store⟩ := by
  have hp : 0 < st.store.nextInst := by unfold Store.nextInst; omega
  have hu : u64 (st.store.nextInst - 1 + 1) = st.store.nextInst := by
    rw [show st.store.nextInst - 1 + 1 = st.store.nextInst by omega]
    exact u64_of_lt hw
  refine ⟨?_, ⟨rfl, hlt, hcanon⟩⟩
  unfold catchUp
  rw [latest?_eq]
  simp only [hne, if_false, hu]
  have hne' : ¬ st.store.nextInst = st.next := fun h => hbehind h.symm
  simp only [hne', if_false]
  unfold Store.latestTable at hlt
  rw [hlt]

/-- `Poll` from a poller anywhere inside its store: either it stands at the head (then as `poll_head_spec`)
or `CatchUp` takes it there and gives it the store's latest table -/
theorem poll_lag_spec (net : Nat) (respond : Nat → Nat → Resp) (fuel n : Nat) (st : PState) (res : PollRes)
    (hl : Lag st) (hroom : st.store.nextInst + fuel * maxRequestLength < 2 ^ 64)
    (st' : PState) (res' : PollRes) (h : poll net respond fuel n st res = (st', res')) :
    ∃ new, st'.store = { st.store with certs := st.store.certs ++ new } ∧
      res'.newCerts = res.newCerts + new.length ∧ st.next ≤ st'.next ∧ (new ≠ [] → Consistent st') ∧
      ((PollRun net (st.next, st.table) new (st'.next, st'.table) ∧ (new ≠ [] → st.next = st.store.nextInst)) ∨
       (st.next < st.store.nextInst ∧ Consistent st' ∧ ∃ lt, st.store.latestTable = some lt ∧
          PollRun net (st.store.nextInst, lt) new (st'.next, st'.table))) := by
  by_cases hn : st.next = st.store.nextInst
  · obtain ⟨new, h1, h2, h3, h4, h5⟩ := poll_head_spec net respond fuel n st res hl hn hroom st' res' h
    exact ⟨new, h1, h2, by omega, h5, Or.inl ⟨h4, fun _ => hn⟩⟩
  · cases fuel with
    | zero =>
      simp only [poll, Prod.mk.injEq] at h
      obtain ⟨h1, h2⟩ := h
      subst h1; subst h2
      exact ⟨[], (store_append_nil _).symm, by simp, Nat.le_refl _, fun h => absurd rfl h,
        Or.inl ⟨PollRun.nil _, fun h => absurd rfl h⟩⟩
    | succ fuel =>
      have hlt : st.next < st.store.nextInst := by have := hl.hi; omega
      have hr0 : st.store.nextInst < 2 ^ 64 := by omega
      have hne : st.store.certs.length ≠ 0 := by have := hl.lo; unfold Store.nextInst at hlt; omega
      obtain ⟨lt, hlat, hcanon⟩ := hl.ok
      obtain ⟨hcu, hc2⟩ := catchUp_behind hr0 hne hlat hcanon hn
      have h2 : poll net respond (fuel + 1) n ⟨st.store.nextInst, lt, st.store⟩ res = (st', res') := by
        rw [poll, catchUp_consistent hc2 hr0]
        rw [poll, hcu] at h
        exact h
      obtain ⟨acc, hs, hrun, hc', hnc⟩ := poll_spec net respond (fuel + 1) n _ res hc2 hroom st' res' h2
      refine ⟨acc, hs, hnc, ?_, fun _ => hc', Or.inr ⟨hlt, hc', lt, hlat, hrun⟩⟩
      rw [hc'.next, hs]; unfold Store.nextInst at *; simp only [List.length_append]; omega

/-! ## Skipping over stored instances keeps the poller's table the store's — if the deltas are the stored ones -/

theorem skipRun_table {net : Nat} {s : Store} {x y : Nat × Table} {sk : List Cert} (h : PollRun net x sk y)
    (hlo : s.first ≤ x.1) (hhi : x.1 + sk.length ≤ s.nextInst) (hw : s.nextInst < 2 ^ 64)
    (ht : s.getPowerTable x.1 = some x.2) (hcanon : applyDiff x.2 [] = .ok x.2)
    (hg : ∀ c ∈ sk, s.first ≤ c.inst → c.inst < s.nextInst →
      ∃ stored, s.certs[c.inst - s.first]? = some stored ∧ stored.delta = c.delta) :
    s.getPowerTable y.1 = some y.2 ∧ applyDiff y.2 [] = .ok y.2 := by
  induction h with
  | nil x => exact ⟨ht, hcanon⟩
  | @cons n t nt c cs y hv hrun ih =>
    simp only [List.length_cons] at hhi
    simp only at hlo hhi ht hcanon
    have hu : u64 (n + 1) = n + 1 := u64_of_lt (by omega)
    have hci : c.inst = n := hv.inst
    obtain ⟨stored, hget, hdel⟩ := hg c (by simp) (by omega) (by omega)
    rw [hci] at hget
    have hd : applyDiff t stored.delta = .ok nt := by rw [hdel]; exact hv.delta
    have hnext := getPowerTable_succ hlo hget ht hd
    apply ih
    · show s.first ≤ u64 (n + 1); rw [hu]; omega
    · show u64 (n + 1) + cs.length ≤ s.nextInst; rw [hu]; omega
    · show s.getPowerTable (u64 (n + 1)) = some nt; rw [hu]; exact hnext
    · exact applyDiff_fixed hv.delta
    · intro c' hc'; exact hg c' (by simp [hc'])

theorem InSync.of_consistent {st : PState} (hc : Consistent st) : InSync st :=
  ⟨by rw [hc.next]; unfold Store.nextInst; omega, by rw [hc.next]; exact Nat.le_refl _,
    by rw [hc.next]; exact hc.table, hc.canon⟩

/-- `CatchUp` turns a poller that is a point of its store into one consistent with it -/
theorem catchUp_of_inSync {st st0 : PState} (hs : InSync st) (hw : st.store.nextInst < 2 ^ 64)
    (h : catchUp st = some st0) : Consistent st0 ∧ st0.store = st.store := by
  have hcons : st.next = st.store.nextInst → Consistent st := fun hn =>
    ⟨hn, by unfold Store.latestTable; rw [← hn]; exact hs.table, hs.canon⟩
  by_cases hn : st.next = st.store.nextInst
  · rw [catchUp_head hn hw] at h
    cases h
    exact ⟨hcons hn, rfl⟩
  · have hlt : st.next < st.store.nextInst := by have := hs.hi; omega
    have hne : st.store.certs.length ≠ 0 := by have := hs.lo; unfold Store.nextInst at hlt; omega
    cases hlat : st.store.latestTable with
    | none =>
      exfalso
      unfold catchUp at h
      rw [latest?_eq] at h
      have hp : 0 < st.store.nextInst := by unfold Store.nextInst; omega
      have hu : u64 (st.store.nextInst - 1 + 1) = st.store.nextInst := by
        rw [show st.store.nextInst - 1 + 1 = st.store.nextInst by omega]
        exact u64_of_lt hw
      have hne' : ¬ st.store.nextInst = st.next := fun h => hn h.symm
      unfold Store.latestTable at hlat
      simp only [hne, if_false, hu, hne', hlat] at h
      cases h
    | some lt =>
      have hcanon : applyDiff lt [] = .ok lt := by
        have h2 := hlat
        rw [latestTable_eq] at h2
        simp only [hne, if_false] at h2
        cases ha : applyDiffs st.store.init (st.store.certs.map (·.delta)) with
        | error e => rw [ha] at h2; cases h2
        | ok t' =>
          rw [ha] at h2
          simp only [Option.some.injEq] at h2
          subst h2
          exact applyDiffs_fixed ha
      obtain ⟨hcu, hc2⟩ := catchUp_behind hw hne hlat hcanon hn
      rw [hcu] at h
      cases h
      exact ⟨hc2, rfl⟩

/-! ## `pollWithArrivals` -/

/-- the definition, with the fold over the arrivals named -/
theorem pollWithArrivals_eq (net : Nat) (respond : Nat → Nat → Resp) (fuel : Nat) (arrivals : List Cert)
    (st : PState) (res : PollRes) :
    pollWithArrivals net respond fuel arrivals st res =
      match catchUp st with
      | none => (st, { res with internal := true })
      | some st0 =>
        match respond 0 st0.next with
        | .fail => (⟨st0.next, st0.table, putAll st0.store arrivals⟩, { res with status := .failed })
        | .ok pending items =>
          match pollCerts net ⟨st0.next, st0.table, putAll st0.store arrivals⟩
              (if st0.next ≤ pending then { res with status := .hit } else res)
              (clientRecv st0.next maxRequestLength 0 items) with
          | (st', res', .cont) =>
            if pending ≤ st'.next then (st', res')
            else if res'.received = res.received then (st', { res' with status := .failed })
            else poll net respond fuel 1 st' res'
          | (st', res', _) => (st', res') := by
  unfold pollWithArrivals
  cases catchUp st with
  | none => rfl
  | some st0 => rfl

/-- everything the two theorems of `section Arrivals` need, in one statement -/
theorem pollWithArrivals_spec (net : Nat) (respond : Nat → Nat → Resp) (fuel : Nat) (arrivals : List Cert)
    (st st0 : PState) (res : PollRes) (hcu : catchUp st = some st0) (hc : Consistent st0)
    (hroom : st0.store.nextInst + arrivals.length + (fuel + 1) * maxRequestLength < 2 ^ 64)
    (st' : PState) (res' : PollRes) (h : pollWithArrivals net respond fuel arrivals st res = (st', res')) :
    ∃ skipped new m tm,
      st'.store = { putAll st0.store arrivals with certs := (putAll st0.store arrivals).certs ++ new } ∧
      skipped <+: handedOver respond st0.next ∧
      PollRun net (st0.next, st0.table) skipped (m, tm) ∧ m = st0.next + skipped.length ∧
      m ≤ (putAll st0.store arrivals).nextInst ∧ m ≤ st'.next ∧
      res'.newCerts = res.newCerts + new.length ∧ (new ≠ [] → Consistent st') ∧
      ((PollRun net (m, tm) new (st'.next, st'.table) ∧ (new ≠ [] → m = (putAll st0.store arrivals).nextInst)) ∨
       (m < (putAll st0.store arrivals).nextInst ∧ Consistent st' ∧
          ∃ lt, (putAll st0.store arrivals).latestTable = some lt ∧
            PollRun net ((putAll st0.store arrivals).nextInst, lt) new (st'.next, st'.table))) := by
  rw [pollWithArrivals_eq, hcu] at h
  simp only at h
  obtain ⟨added, hshape, hsub, hok⟩ := putAll_shape st0.store arrivals
  have haddlen : added.length ≤ arrivals.length := hsub.length_le
  generalize putAll st0.store arrivals = pre at h hshape hok ⊢
  have hfirst : pre.first = st0.store.first := by rw [hshape]
  have hnext : pre.nextInst = st0.store.nextInst + added.length := by
    rw [hshape]; unfold Store.nextInst; simp only [List.length_append]; omega
  have hl0 := Lag.of_consistent hc
  have hl1 : Lag ⟨st0.next, st0.table, pre⟩ :=
    ⟨by show pre.first ≤ st0.next; rw [hfirst]; exact hl0.lo,
     by show st0.next ≤ pre.nextInst; have := hl0.hi; omega, hok hl0.ok⟩
  have hmul : (fuel + 1) * maxRequestLength = fuel * maxRequestLength + maxRequestLength := by
    rw [Nat.add_mul]; simp
  cases hresp : respond 0 st0.next with
  | fail =>
    rw [hresp] at h
    simp only [Prod.mk.injEq] at h
    obtain ⟨h1, h2⟩ := h
    subst h1; subst h2
    exact ⟨[], [], st0.next, st0.table, (store_append_nil _).symm, List.nil_prefix, PollRun.nil _, by simp,
      hl1.hi, Nat.le_refl _, by simp, fun h => absurd rfl h, Or.inl ⟨PollRun.nil _, fun h => absurd rfl h⟩⟩
  | ok pending items =>
    rw [hresp] at h
    simp only at h
    have hho : handedOver respond st0.next = clientRecv st0.next maxRequestLength 0 items := by
      unfold handedOver; rw [hresp]
    have hlen : (clientRecv st0.next maxRequestLength 0 items).length ≤ maxRequestLength := by
      have := clientRecv_length st0.next maxRequestLength 0 items; omega
    have hroom1 : pre.nextInst + (clientRecv st0.next maxRequestLength 0 items).length < 2 ^ 64 := by omega
    obtain ⟨st1, res1, out, skipped, new1, rest, m, tm, hp, ho⟩ := pollCerts_lag_spec net ⟨st0.next, st0.table, pre⟩
      (if st0.next ≤ pending then { res with status := .hit } else res)
      (clientRecv st0.next maxRequestLength 0 items) hl1 hroom1
    rw [hp] at h
    have hnc : res1.newCerts = res.newCerts + new1.length := by rw [ho.newCerts, hit_newCerts]
    have hpre : skipped <+: handedOver respond st0.next := by
      rw [hho, ho.split]; exact List.prefix_append _ _
    have hfin : ∀ r, (st', res') = (st1, r) → r.newCerts = res1.newCerts →
        ∃ skipped new m tm,
          st'.store = { pre with certs := pre.certs ++ new } ∧
          skipped <+: handedOver respond st0.next ∧
          PollRun net (st0.next, st0.table) skipped (m, tm) ∧ m = st0.next + skipped.length ∧
          m ≤ pre.nextInst ∧ m ≤ st'.next ∧
          res'.newCerts = res.newCerts + new.length ∧ (new ≠ [] → Consistent st') ∧
          ((PollRun net (m, tm) new (st'.next, st'.table) ∧ (new ≠ [] → m = pre.nextInst)) ∨
           (m < pre.nextInst ∧ Consistent st' ∧
              ∃ lt, pre.latestTable = some lt ∧ PollRun net (pre.nextInst, lt) new (st'.next, st'.table))) := by
      intro r hr hrn
      simp only [Prod.mk.injEq] at hr
      obtain ⟨h1, h2⟩ := hr
      subst h1; subst h2
      exact ⟨skipped, new1, m, tm, ho.store, hpre, ho.runS, ho.mid, ho.midle, by rw [ho.next]; omega,
        by rw [hrn, hnc], fun hne => (ho.stored hne).2, Or.inl ⟨ho.runN, fun hne => (ho.stored hne).1⟩⟩
    cases out with
    | cont =>
      simp only at h
      split at h
      · exact hfin res1 h.symm rfl
      · split at h
        · exact hfin _ h.symm rfl
        · -- further requests
          have hsub : new1.length ≤ maxRequestLength := by
            have := congrArg List.length ho.split
            simp only [List.length_append] at this
            omega
          have hst1n : st1.store.nextInst = pre.nextInst + new1.length := by
            rw [ho.store]; unfold Store.nextInst; simp only [List.length_append]; omega
          have hroom2 : st1.store.nextInst + fuel * maxRequestLength < 2 ^ 64 := by omega
          obtain ⟨new2, hs2, hn2, hle2, hc2, hd2⟩ :=
            poll_lag_spec net respond fuel 1 st1 res1 (ho.lag hl1) hroom2 st' res' h
          have hmle : m ≤ st'.next := by have := ho.next; omega
          have hstore : st'.store = { pre with certs := pre.certs ++ (new1 ++ new2) } := by
            rw [hs2, ho.store]; simp
          have hcount : res'.newCerts = res.newCerts + (new1 ++ new2).length := by
            rw [hn2, hnc, List.length_append]; omega
          rcases hd2 with ⟨hrun2, hhead2⟩ | ⟨hlt2, hcons2, lt, hlat2, hrun2⟩
          · refine ⟨skipped, new1 ++ new2, m, tm, hstore, hpre, ho.runS, ho.mid, ho.midle, hmle, hcount, ?_,
              Or.inl ⟨pollRun_append ho.runN hrun2, ?_⟩⟩
            · intro hne
              by_cases h2 : new2 = []
              · subst h2
                have hne1 : new1 ≠ [] := by simpa using hne
                have heq : st' = st1 := by
                  have hy := pollRun_nil_inv hrun2
                  exact pstate_eq (Prod.mk.inj hy).1 (Prod.mk.inj hy).2 (by rw [hs2]; exact store_append_nil _)
                rw [heq]; exact (ho.stored hne1).2
              · exact hc2 h2
            · intro hne
              by_cases h1 : new1 = []
              · subst h1
                have h2 : new2 ≠ [] := by simpa using hne
                have := hhead2 h2
                have hx := ho.next
                simp only [List.length_nil, Nat.add_zero] at hx hst1n
                omega
              · exact (ho.stored h1).1
          · have h1 : new1 = [] := by
              by_cases h1 : new1 = []
              · exact h1
              · have := (ho.stored h1).2.next; omega
            subst h1
            have hx := ho.next
            simp only [List.length_nil, Nat.add_zero] at hx hst1n
            have hst1s : st1.store = pre := by rw [ho.store]; exact store_append_nil _
            refine ⟨skipped, [] ++ new2, m, tm, hstore, hpre, ho.runS, ho.mid, ho.midle, hmle, hcount,
              fun _ => hcons2, Or.inr ⟨by omega, hcons2, lt, by rw [← hst1s]; exact hlat2, ?_⟩⟩
            rw [List.nil_append, ← hst1s]; exact hrun2
    | illegal => exact hfin res1 h.symm rfl
    | internal => exact hfin res1 h.symm rfl

/-- the instances of a run that ends at or below `B` are below `B` -/
theorem pollRun_inst_lt {net : Nat} {x y : Nat × Table} {sk : List Cert} (h : PollRun net x sk y) (B : Nat)
    (hhi : x.1 + sk.length ≤ B) (hw : B < 2 ^ 64) : ∀ c ∈ sk, x.1 ≤ c.inst ∧ c.inst < B := by
  induction h with
  | nil x => intro c hc; cases hc
  | @cons n t nt c cs y hv hrun ih =>
    simp only [List.length_cons] at hhi
    have hu : u64 (n + 1) = n + 1 := u64_of_lt (by omega)
    intro c' hc'
    rcases List.mem_cons.mp hc' with h | h
    · subst h; have := hv.inst; show n ≤ c'.inst ∧ c'.inst < B; omega
    · have := ih (by show u64 (n + 1) + cs.length ≤ B; rw [hu]; omega) c' h
      simp only [hu] at this
      show n ≤ c'.inst ∧ c'.inst < B; omega

/-- with genuine deltas for the instances the store holds, the poller ends as a point of its store -/
theorem pollWithArrivals_inSync (net : Nat) (respond : Nat → Nat → Resp) (fuel : Nat) (arrivals : List Cert)
    (st st0 : PState) (res : PollRes) (hcu : catchUp st = some st0) (hc : Consistent st0)
    (hroom : st0.store.nextInst + arrivals.length + (fuel + 1) * maxRequestLength < 2 ^ 64)
    (hg : Genuine (putAll st0.store arrivals) (handedOver respond st0.next))
    (st' : PState) (res' : PollRes) (h : pollWithArrivals net respond fuel arrivals st res = (st', res')) :
    InSync st' ∧ st0.next ≤ st'.next := by
  obtain ⟨skipped, new, m, tm, hstore, hpre, hrunS, hmid, hmle, hmle', _, hcons, hd⟩ :=
    pollWithArrivals_spec net respond fuel arrivals st st0 res hcu hc hroom st' res' h
  refine ⟨?_, by omega⟩
  rcases hd with ⟨hrun, _⟩ | ⟨_, hc', _⟩
  · by_cases hn : new = []
    · subst hn
      obtain ⟨added, hshape, hsub, _⟩ := putAll_shape st0.store arrivals
      have haddlen : added.length ≤ arrivals.length := hsub.length_le
      generalize putAll st0.store arrivals = pre at hstore hshape hg hmle
      have hfirst : pre.first = st0.store.first := by rw [hshape]
      have hnext : pre.nextInst = st0.store.nextInst + added.length := by
        rw [hshape]; unfold Store.nextInst; simp only [List.length_append]; omega
      have hs : st'.store = pre := by rw [hstore]; exact store_append_nil _
      have hy := pollRun_nil_inv hrun
      have hy1 : st'.next = m := (Prod.mk.inj hy).1
      have hy2 : st'.table = tm := (Prod.mk.inj hy).2
      have hl0 := Lag.of_consistent hc
      have ht0 : pre.getPowerTable st0.next = some st0.table := by
        rw [hshape, getPowerTable_append _ _ _ hl0.hi, hc.next]; exact hc.table
      have hres := skipRun_table (s := pre) hrunS (by show pre.first ≤ st0.next; rw [hfirst]; exact hl0.lo)
        (by show st0.next + skipped.length ≤ pre.nextInst; omega) (by omega) ht0 hc.canon
        (fun c hc' => hg c (hpre.subset hc'))
      refine ⟨?_, ?_, ?_, ?_⟩
      · rw [hs, hy1, hfirst]; have := hl0.lo; omega
      · rw [hs, hy1]; exact hmle
      · rw [hs, hy1, hy2]; exact hres.1
      · rw [hy2]; exact hres.2
    · exact InSync.of_consistent (hcons hn)
  · exact InSync.of_consistent hc'

/-- the store growing behind the poller's back keeps the poller a point of it -/
theorem inSync_grow {st : PState} (hs : InSync st) (ext : List Cert) :
    InSync { st with store := { st.store with certs := st.store.certs ++ ext } } := by
  refine ⟨hs.lo, ?_, ?_, hs.canon⟩
  · show st.next ≤ st.store.first + (st.store.certs ++ ext).length
    have := hs.hi; unfold Store.nextInst at this; simp only [List.length_append]; omega
  · show ({ st.store with certs := st.store.certs ++ ext } : Store).getPowerTable st.next = some st.table
    rw [getPowerTable_append _ _ _ hs.hi]; exact hs.table

theorem genuine_of_eq {s : Store} {ds : List Cert} (h : GenuineEq s ds) : Genuine s ds :=
  fun c hc h1 h2 => ⟨c, h c hc h1 h2, rfl⟩

end F3.CertX
