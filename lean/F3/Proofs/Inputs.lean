import F3.Model.Inputs
import F3.Spec.Inputs
/-! Helper lemmas for C15: parent paths, `collectChain`, trimming, `tipsOf`, store prefixes. The
property theorems are in `F3/Props/C15.lean`. -/
namespace F3.Proofs.Inputs
open F3 F3.Inputs F3.Spec.Inputs

set_option linter.unusedSimpArgs false
set_option linter.unusedVariables false

/-- every element's EC parent is the element before it; the first one's parent is `a` -/
def isPath (ec : EC) : Nat → List Nat → Prop
  | _, [] => True
  | a, b :: rest => (∃ blk, ec.get b = some blk ∧ blk.parent = some a) ∧ isPath ec b rest

theorem collectFrom_path (ec : EC) (baseKey : Nat) (be : Int) :
    ∀ (fuel cur : Nat) (acc l : List Nat),
      collectFrom ec baseKey be fuel cur acc = .ok (some l) →
      isPath ec cur acc → (cur :: acc).getLast? = some ec.head →
      isPath ec baseKey l ∧ (baseKey :: l).getLast? = some ec.head := by
  intro fuel
  induction fuel with
  | zero => intro cur acc l h; simp [collectFrom] at h
  | succ n ih =>
    intro cur acc l h hp hl
    simp only [collectFrom] at h
    split at h
    · rename_i hc
      simp only [Res.ok.injEq, Option.some.injEq] at h
      subst h; subst hc
      exact ⟨hp, hl⟩
    · split at h
      · cases h
      · rename_i b hb
        split at h
        · cases h
        · split at h
          · cases h
          · rename_i p hpar
            split at h
            · cases h
            · apply ih p (cur :: acc) l h
              · exact ⟨⟨b, hb, hpar⟩, hp⟩
              · simpa [List.getLast?_cons_cons] using hl

theorem isPath_prefix (ec : EC) : ∀ (l1 l2 : List Nat) (a : Nat), isPath ec a (l1 ++ l2) → isPath ec a l1 := by
  intro l1
  induction l1 with
  | nil => intro _ _ _; trivial
  | cons b rest ih => intro l2 a h; exact ⟨h.1, ih l2 b h.2⟩

theorem tipsOf_spec (ec : EC) : ∀ (ks : List Nat) (ts : List Tip), tipsOf ec ks = some ts →
    ts.map (·.key) = ks ∧ ∀ t ∈ ts, tipOf ec t.key = some t := by
  intro ks
  induction ks with
  | nil => intro ts h; simp [tipsOf] at h; subst h; simp
  | cons k ks ih =>
    intro ts h
    simp only [tipsOf] at h
    split at h
    · rename_i t ts' ht hts
      simp only [Option.some.injEq] at h
      subst h
      have := ih ts' hts
      have hk : t.key = k := by
        unfold tipOf at ht
        cases hg : ec.get k with
        | none => simp [hg] at ht
        | some b => simp [hg] at ht; rw [← ht]
      refine ⟨by simp [hk, this.1], ?_⟩
      intro x hx
      simp only [List.mem_cons] at hx
      rcases hx with hx | hx
      · subst hx; rw [hk]; exact ht
      · exact this.2 x hx
    · cases h

theorem baseKeyOf_expected (m : Manifest) (s : Store) (ec : EC) (inst k : Nat)
    (h : baseKeyOf m s ec inst = .ok k) : expectedBase m s ec inst = some k := by
  unfold baseKeyOf at h
  unfold expectedBase
  split at h
  · rename_i hi
    simp only [hi, ite_true]
    split at h
    · cases h
    · rename_i k' hk; simp only [Res.ok.injEq] at h; subst h; simpa [hi] using hk
  · rename_i hi
    simp only [hi, ite_false]
    split at h
    · cases h
    · rename_i h0
      simp only [h0, ite_false]
      split at h
      · cases h
      · rename_i c hc
        simp only [Res.ok.injEq] at h
        subst h
        simp [hc]

theorem trim_prefix (m : Manifest) (ec : EC) (now : Int) (l : List Nat) : ∃ rest, l = trim m ec now l ++ rest := by
  unfold trim
  have h1 : ∃ r1, l = (if m.headLookback > 0 then l.take (l.length - m.headLookback) else l) ++ r1 := by
    split
    · exact ⟨l.drop (l.length - m.headLookback), (List.take_append_drop _ _).symm⟩
    · exact ⟨[], by simp⟩
  obtain ⟨r1, hr1⟩ := h1
  generalize hc1 : (if m.headLookback > 0 then l.take (l.length - m.headLookback) else l) = c1 at hr1
  simp only
  have hdl : ∃ r2, c1 = c1.dropLast ++ r2 := by
    cases hgl : c1.getLast? with
    | none => exact ⟨[], by simp [List.getLast?_eq_none_iff.mp hgl]⟩
    | some x =>
      obtain ⟨ys, hys⟩ := List.getLast?_eq_some_iff.mp hgl
      exact ⟨[x], by subst hys; simp⟩
  split
  · exact ⟨r1, hr1⟩
  · split
    · exact ⟨r1, hr1⟩
    · split
      · obtain ⟨r2, hr2⟩ := hdl
        exact ⟨r2 ++ r1, by rw [← List.append_assoc, ← hr2]; exact hr1⟩
      · exact ⟨r1, hr1⟩

theorem collectChain_path (ec : EC) (baseKey : Nat) (base head : Block) (l : List Nat)
    (h : collectChain ec baseKey base head = .ok (some l)) :
    isPath ec baseKey l ∧ (baseKey :: l).getLast? = some ec.head := by
  unfold collectChain at h
  split at h
  · cases h
  · exact collectFrom_path ec baseKey base.epoch _ ec.head [] l h trivial (by simp)

theorem store_get_mem (s : Store) (i : Nat) (c : Cert) (h : s.get i = some c) : c ∈ s.certs := by
  unfold Store.get at h
  split at h
  · cases h
  · exact List.mem_of_getElem? h

theorem store_get_append (s : Store) (extra : List Cert) (i : Nat) (h : i < s.first + s.certs.length) :
    ({ s with certs := s.certs ++ extra } : Store).get i = s.get i := by
  unfold Store.get
  simp only
  split
  · rfl
  · rw [List.getElem?_append_left (by omega)]

theorem store_powerTable_append (s : Store) (extra : List Cert) (i : Nat) (h : i ≤ s.first + s.certs.length) :
    ({ s with certs := s.certs ++ extra } : Store).powerTable i = s.powerTable i := by
  unfold Store.powerTable
  simp only
  split
  · rfl
  · split
    · rfl
    · rw [List.getElem?_append_left (by omega)]


end F3.Proofs.Inputs
