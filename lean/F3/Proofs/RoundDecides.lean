import F3.Proofs.InstanceDecision
/-!
# Round `r ≥ 1`: the CONVERGE stage adopts the best ticket's value (node level)

The part of the conditional round theorem (audit H1 (c)) that is new relative to round 0 is the CONVERGE stage:
`tryConverge` PREPAREs the value of `Conv.findBest`. Here:

* `findBest_lowest`: `findBest filter` returns the value `w` if `w` passes the filter and every other stored value
  fails the filter or has a strictly worse (higher, or `+Inf`) rank.
* `ConvOK val rk c`: the shape of a `convergeState` that has only been handed CONVERGE messages of the honest
  participants (`q` sends value `val q` with ticket rank `rk q`): one entry per value, every stored rank is the ticket
  of a sender of that value, and every sender's value is stored with a rank at most its ticket. Preserved by
  `Conv.setSelf` and `Conv.receive` (`ConvOK.setSelf`, `ConvOK.receive`).
* `converge_adopts_best`: a node in CONVERGE whose timer has expired, whose converge state is `ConvOK` and contains the
  CONVERGE of the strictly best ticket holder `w`, and at which `val w` is admissible (candidate, or justified by
  PREPAREs and still reachable — the filter of `tryConverge`), PREPAREs `val w`.

The PREPARE / COMMIT / DECIDE stages of such a round are those of the unanimous round 0 (everybody PREPAREs the same
value): `C06.unanimous_step_prepare`, `unanimous_step_commit`, `decide_quorum_terminates` at one-call level, and
`unanimous_tally_strong` below for the tally (any round, from the run-level tally invariant `TallyWF`).
-/
namespace F3.Liveness
open F3.Instance

/-! ## `findBest` -/

theorem rankLt_irrefl (a : Option Nat) : rankLt a a = false := by
  cases a <;> simp [rankLt]

theorem rankLt_asymm {a b : Option Nat} (h : rankLt a b = true) : rankLt b a = false := by
  cases a <;> cases b <;> simp_all [rankLt]
  omega

/-- one step of the fold of `Conv.findBest` -/
def fbStep (filter : ConvVal → Bool) (best : Option ConvVal) (cv : ConvVal) : Option ConvVal :=
  let better := match best with
    | none => true
    | some b => rankLt cv.rank b.rank
  if better && filter cv then some cv else best

theorem findBest_eq_foldl (c : Conv) (filter : ConvVal → Bool) :
    c.findBest filter = c.values.foldl (fbStep filter) none := rfl

theorem fbStep_none (filter : ConvVal → Bool) (cv : ConvVal) :
    fbStep filter none cv = if filter cv = true then some cv else none := by
  simp [fbStep]

theorem fbStep_some (filter : ConvVal → Bool) (b cv : ConvVal) :
    fbStep filter (some b) cv = if (rankLt cv.rank b.rank && filter cv) = true then some cv else some b := by
  simp [fbStep]

theorem eq_of_nodup_map_chain {l : List ConvVal} (h : (l.map (·.chain)).Nodup) {a b : ConvVal} (ha : a ∈ l)
    (hb : b ∈ l) (hab : a.chain = b.chain) : a = b := by
  induction l with
  | nil => cases ha
  | cons x xs ih =>
    simp only [List.map_cons, List.nodup_cons] at h
    rcases List.mem_cons.1 ha with rfl | ha' <;> rcases List.mem_cons.1 hb with rfl | hb'
    · rfl
    · exact absurd (List.mem_map.2 ⟨b, hb', hab.symm⟩) h.1
    · exact absurd (List.mem_map.2 ⟨a, ha', hab⟩) h.1
    · exact ih h.2 ha' hb'

theorem foldl_fbStep_keep (filter : ConvVal → Bool) (w : ConvVal) (l : List ConvVal)
    (ho : ∀ cv ∈ l, cv = w ∨ filter cv = false ∨ rankLt w.rank cv.rank = true) :
    l.foldl (fbStep filter) (some w) = some w := by
  induction l with
  | nil => rfl
  | cons cv l ih =>
    simp only [List.foldl_cons]
    have hstep : fbStep filter (some w) cv = some w := by
      unfold fbStep
      dsimp only
      rcases ho cv List.mem_cons_self with h | h | h
      · subst h; simp [rankLt_irrefl]
      · simp [h]
      · simp [rankLt_asymm h]
    rw [hstep]
    exact ih (fun cv' h' => ho cv' (List.mem_cons_of_mem _ h'))

theorem foldl_fbStep_lowest (filter : ConvVal → Bool) (w : ConvVal) (hf : filter w = true) (l : List ConvVal)
    (hw : w ∈ l) (ho : ∀ cv ∈ l, cv = w ∨ filter cv = false ∨ rankLt w.rank cv.rank = true)
    (best : Option ConvVal) (hb : best = none ∨ ∃ b, best = some b ∧ rankLt w.rank b.rank = true) :
    l.foldl (fbStep filter) best = some w := by
  induction l generalizing best with
  | nil => cases hw
  | cons cv l ih =>
    simp only [List.foldl_cons]
    have ho' : ∀ cv' ∈ l, cv' = w ∨ filter cv' = false ∨ rankLt w.rank cv'.rank = true :=
      fun cv' h' => ho cv' (List.mem_cons_of_mem _ h')
    by_cases hcw : cv = w
    · subst hcw
      have hstep : fbStep filter best cv = some cv := by
        unfold fbStep
        dsimp only
        rcases hb with rfl | ⟨b, rfl, hlt⟩
        · simp [hf]
        · simp [hf, hlt]
      rw [hstep]
      exact foldl_fbStep_keep filter cv l ho'
    · have hwl : w ∈ l := by
        rcases List.mem_cons.1 hw with h | h
        · exact absurd h.symm hcw
        · exact h
      apply ih hwl ho'
      have hcv := ho cv List.mem_cons_self
      rcases hb with rfl | ⟨b, rfl, hlt⟩
      · rw [fbStep_none]
        by_cases hfc : filter cv = true
        · rcases hcv with h | h | h
          · exact absurd h hcw
          · rw [h] at hfc; cases hfc
          · exact Or.inr ⟨cv, by rw [if_pos hfc], h⟩
        · exact Or.inl (by rw [if_neg hfc])
      · rw [fbStep_some]
        by_cases hcond : (rankLt cv.rank b.rank && filter cv) = true
        · rcases hcv with h | h | h
          · exact absurd h hcw
          · rw [h] at hcond; simp at hcond
          · exact Or.inr ⟨cv, by rw [if_pos hcond], h⟩
        · exact Or.inr ⟨b, by rw [if_neg hcond], hlt⟩

/-- **`findBest` returns the lowest-ranked admissible value.** -/
theorem findBest_lowest (c : Conv) (filter : ConvVal → Bool) (w : ConvVal) (hw : w ∈ c.values) (hf : filter w = true)
    (ho : ∀ cv ∈ c.values, cv = w ∨ filter cv = false ∨ rankLt w.rank cv.rank = true) :
    c.findBest filter = some w := by
  rw [findBest_eq_foldl]
  exact foldl_fbStep_lowest filter w hf c.values hw ho none (Or.inl rfl)

/-! ## the converge state of a round among honest participants -/

structure ConvOK (val : Pid → Chain) (rk : Pid → Nat) (c : Conv) : Prop where
  /-- one entry per value -/
  nodup : (c.values.map (·.chain)).Nodup
  /-- a stored rank is the ticket of a sender of that value -/
  rankSrc : ∀ cv ∈ c.values, ∀ k, cv.rank = some k → ∃ q ∈ c.senders, val q = cv.chain ∧ rk q = k
  /-- a sender's value is stored, with a rank at most its ticket -/
  sender : ∀ q ∈ c.senders, ∃ cv ∈ c.values, cv.chain = val q ∧ ∃ k, cv.rank = some k ∧ k ≤ rk q

theorem ConvOK_empty (val : Pid → Chain) (rk : Pid → Nat) : ConvOK val rk {} :=
  ⟨by simp, by simp, by simp⟩

theorem any_chain_iff (l : List ConvVal) (v : Chain) :
    l.any (·.chain == v) = true ↔ v ∈ l.map (·.chain) := by
  simp only [List.any_eq_true, beq_iff_eq, List.mem_map]

/-- `beginConverge` inserts the node's own proposal (rank `+Inf`) -/
theorem ConvOK.setSelf {val : Pid → Chain} {rk : Pid → Nat} {c : Conv} (h : ConvOK val rk c) (v : Chain) (j : Just) :
    ConvOK val rk (c.setSelf v j) := by
  unfold Conv.setSelf
  split
  · exact h
  · rename_i hany
    have hnot : v ∉ c.values.map (·.chain) := fun hm => hany ((any_chain_iff _ _).2 hm)
    refine ⟨?_, ?_, ?_⟩
    · simp only [List.map_append, List.map_cons, List.map_nil]
      rw [List.nodup_append]
      refine ⟨h.nodup, by simp, ?_⟩
      intro a ha b hb
      simp only [List.mem_singleton] at hb
      subst hb
      intro hab; subst hab; exact hnot ha
    · intro cv hcv k hk
      simp only [List.mem_append, List.mem_singleton] at hcv
      rcases hcv with hcv | rfl
      · exact h.rankSrc cv hcv k hk
      · cases hk
    · intro q hq
      obtain ⟨cv, hcv, h1, h2⟩ := h.sender q hq
      exact ⟨cv, List.mem_append_left _ hcv, h1, h2⟩

theorem updRank_chains (l : List ConvVal) (v : Chain) (r : Nat) : (updRank l v r).map (·.chain) = l.map (·.chain) := by
  unfold updRank
  rw [List.map_map]
  apply List.map_congr_left
  intro cv _
  simp only [Function.comp]
  split <;> rfl

/-- a CONVERGE of `q` for `val q` with its ticket `rk q` -/
theorem ConvOK.receive {val : Pid → Chain} {rk : Pid → Nat} {c : Conv} (h : ConvOK val rk c) (q : Pid) (j : Just) :
    ConvOK val rk (c.receive q (val q) (rk q) j) ∧ q ∈ (c.receive q (val q) (rk q) j).senders ∧
    (∀ x ∈ c.senders, x ∈ (c.receive q (val q) (rk q) j).senders) := by
  unfold Conv.receive
  split
  · rename_i hc
    exact ⟨h, by simpa using hc, fun _ hx => hx⟩
  · rename_i hc
    dsimp only
    split
    · rename_i hany
      refine ⟨⟨?_, ?_, ?_⟩, by simp, fun x hx => by simp [hx]⟩
      · show ((updRank c.values (val q) (rk q)).map (·.chain)).Nodup
        rw [updRank_chains]; exact h.nodup
      · intro cv hcv k hk
        show ∃ q' ∈ c.senders ++ [q], _
        unfold updRank at hcv
        obtain ⟨cv0, hcv0, rfl⟩ := List.mem_map.1 hcv
        by_cases hc' : (cv0.chain == val q && rankLt (some (rk q)) cv0.rank) = true
        · rw [if_pos hc'] at hk ⊢
          rw [Bool.and_eq_true, beq_iff_eq] at hc'
          injection hk with hk
          exact ⟨q, by simp, hc'.1.symm, hk⟩
        · rw [if_neg hc'] at hk ⊢
          obtain ⟨q', hq', h1, h2⟩ := h.rankSrc cv0 hcv0 k hk
          exact ⟨q', by simp [hq'], h1, h2⟩
      · intro x hx
        have hx' : x ∈ c.senders ++ [q] := hx
        simp only [List.mem_append, List.mem_singleton] at hx'
        show ∃ cv ∈ updRank c.values (val q) (rk q), _
        rcases hx' with hx' | rfl
        · obtain ⟨cv, hcv, h1, k, h2, h3⟩ := h.sender x hx'
          by_cases hcond : (cv.chain == val q && rankLt (some (rk q)) cv.rank) = true
          · refine ⟨{ cv with rank := some (rk q) }, ?_, h1, rk q, rfl, ?_⟩
            · unfold updRank
              exact List.mem_map.2 ⟨cv, hcv, by rw [if_pos hcond]⟩
            · rw [Bool.and_eq_true] at hcond
              rw [h2] at hcond
              have : rk q < k := by simpa [rankLt] using hcond.2
              omega
          · refine ⟨cv, ?_, h1, k, h2, h3⟩
            unfold updRank
            exact List.mem_map.2 ⟨cv, hcv, by rw [if_neg hcond]⟩
        · obtain ⟨cv, hcv, hch⟩ : ∃ cv ∈ c.values, cv.chain = val x := by
            have := (any_chain_iff _ _).1 hany
            obtain ⟨cv, hcv, hch⟩ := List.mem_map.1 this
            exact ⟨cv, hcv, hch⟩
          by_cases hcond : (cv.chain == val x && rankLt (some (rk x)) cv.rank) = true
          · refine ⟨{ cv with rank := some (rk x) }, ?_, hch, rk x, rfl, Nat.le_refl _⟩
            unfold updRank
            exact List.mem_map.2 ⟨cv, hcv, by rw [if_pos hcond]⟩
          · have hlt : rankLt (some (rk x)) cv.rank = false := by
              cases hr : rankLt (some (rk x)) cv.rank
              · rfl
              · exfalso; apply hcond; simp [hch, hr]
            cases hrk : cv.rank with
            | none => rw [hrk] at hlt; simp [rankLt] at hlt
            | some k =>
              rw [hrk] at hlt
              have : ¬ rk x < k := by simpa [rankLt] using hlt
              refine ⟨cv, ?_, hch, k, hrk, by omega⟩
              unfold updRank
              exact List.mem_map.2 ⟨cv, hcv, by rw [if_neg hcond]⟩
    · rename_i hany
      have hnot : val q ∉ c.values.map (·.chain) := fun hm => hany ((any_chain_iff _ _).2 hm)
      refine ⟨⟨?_, ?_, ?_⟩, by simp, fun x hx => by simp [hx]⟩
      · simp only [List.map_append, List.map_cons, List.map_nil]
        rw [List.nodup_append]
        refine ⟨h.nodup, by simp, ?_⟩
        intro a ha b hb
        simp only [List.mem_singleton] at hb
        subst hb
        intro hab; subst hab; exact hnot ha
      · intro cv hcv k hk
        show ∃ q' ∈ c.senders ++ [q], _
        have hcv' : cv ∈ c.values ++ [{ chain := val q, just := j, rank := some (rk q) }] := hcv
        simp only [List.mem_append, List.mem_singleton] at hcv'
        rcases hcv' with hcv' | rfl
        · obtain ⟨q', hq', h1, h2⟩ := h.rankSrc cv hcv' k hk
          exact ⟨q', by simp [hq'], h1, h2⟩
        · injection hk with hk
          exact ⟨q, by simp, rfl, hk⟩
      · intro x hx
        have hx' : x ∈ c.senders ++ [q] := hx
        simp only [List.mem_append, List.mem_singleton] at hx'
        show ∃ cv ∈ c.values ++ [{ chain := val q, just := j, rank := some (rk q) }], _
        rcases hx' with hx' | rfl
        · obtain ⟨cv, hcv, h1, h2⟩ := h.sender x hx'
          exact ⟨cv, List.mem_append_left _ hcv, h1, h2⟩
        · exact ⟨_, List.mem_append_right _ (List.mem_singleton.2 rfl), rfl, rk x, rfl, Nat.le_refl _⟩

/-- with the strictly best ticket holder `w` among the senders, the entry for `val w` is the unique lowest-ranked one -/
theorem ConvOK.best {val : Pid → Chain} {rk : Pid → Nat} {c : Conv} (h : ConvOK val rk c) (w : Pid)
    (hw : w ∈ c.senders) (hbest : ∀ q ∈ c.senders, q = w ∨ rk w < rk q) :
    ∃ cvw ∈ c.values, cvw.chain = val w ∧ cvw.rank = some (rk w) ∧
      ∀ cv ∈ c.values, cv = cvw ∨ rankLt cvw.rank cv.rank = true := by
  obtain ⟨cvw, hcvw, hch, k, hk, hle⟩ := h.sender w hw
  have hkw : k = rk w := by
    obtain ⟨q', hq', _, h2⟩ := h.rankSrc cvw hcvw k hk
    rcases hbest q' hq' with rfl | hlt
    · exact h2.symm
    · omega
  subst hkw
  refine ⟨cvw, hcvw, hch, hk, fun cv hcv => ?_⟩
  by_cases heq : cv.chain = cvw.chain
  · left
    exact eq_of_nodup_map_chain h.nodup hcv hcvw heq
  · right
    rw [hk]
    cases hr : cv.rank with
    | none => rfl
    | some k' =>
      obtain ⟨q', hq', h1, h2⟩ := h.rankSrc cv hcv k' hr
      rcases hbest q' hq' with rfl | hlt
      · exact absurd (h1.symm.trans hch.symm) heq
      · simp [rankLt]; omega

/-! ## the CONVERGE stage -/

/-- the filter of `tryConverge` -/
def admissible (s : State) (cv : ConvVal) : Bool :=
  s.isCandidate cv.chain ||
    (cv.just.phase == .prepare && (s.getRound (s.round - 1)).committed.couldReach s.tbl cv.chain true)

/-- **CONVERGE stage.** A node in CONVERGE whose timer has expired, holding (at least) the CONVERGE of the strictly
best ticket holder `w` among those it was handed, PREPAREs `val w` — provided `val w` is admissible at this node. -/
theorem converge_adopts_best (s : State) (now : Int) (val : Pid → Chain) (rk : Pid → Nat) (w : Pid)
    (hph : s.phase = .converge) (hel : s.phaseTimeoutElapsed now = true)
    (hok : ConvOK val rk (s.getRound s.round).converged)
    (hw : w ∈ (s.getRound s.round).converged.senders)
    (hbest : ∀ q ∈ (s.getRound s.round).converged.senders, q = w ∨ rk w < rk q)
    (hne : val w ≠ [])
    (hadm : ∀ cv ∈ (s.getRound s.round).converged.values, cv.chain = val w → admissible s cv = true) :
    hasFailure (s.tryConverge now).2 = false ∧
    (s.tryConverge now).1.phase = .prepare ∧ (s.tryConverge now).1.round = s.round ∧
    (s.tryConverge now).1.proposal = val w ∧ (s.tryConverge now).1.value = val w ∧
    ∃ j, Eff.broadcast s.round .prepare (val w) false (some j) ∈ (s.tryConverge now).2 := by
  obtain ⟨cvw, hcvw, hch, _, hlow⟩ := hok.best w hw hbest
  have hfb : (s.getRound s.round).converged.findBest (admissible s) = some cvw :=
    findBest_lowest _ _ cvw hcvw (hadm cvw hcvw hch) (fun cv hcv => (hlow cv hcv).imp id Or.inr)
  have hfb' : (s.getRound s.round).converged.findBest (fun cv => s.isCandidate cv.chain ||
      (cv.just.phase == .prepare && (s.getRound (s.round - 1)).committed.couldReach s.tbl cv.chain true)) = some cvw := hfb
  have hne' : cvw.chain.isEmpty = false := by
    rw [hch]; cases hv : val w with
    | nil => exact absurd hv hne
    | cons _ _ => rfl
  unfold State.tryConverge
  simp only [hph, hel, bne_self_eq_false, Bool.false_eq_true, if_false, Bool.not_true, hfb', hne']
  unfold State.beginPrepare State.alarmAfter State.resetReb
  refine ⟨by simp [hasFailure], rfl, ?_, hch, hch, cvw.just, ?_⟩
  · exact (show (s.addCandidate cvw.chain).1.round = s.round by unfold State.addCandidate; split <;> rfl)
  · rw [← hch]
    have hr : (s.addCandidate cvw.chain).1.round = s.round := by unfold State.addCandidate; split <;> rfl
    simp

/-! ## the PREPARE / COMMIT / DECIDE tallies of a round in which everybody votes for the same value -/

theorem strongQ_mono' (t : Table) {a b : Nat} (h : a ≤ b) (ha : strongQ t a = true) : strongQ t b = true := by
  unfold strongQ Spec.Quorum.strong at *
  simp only [decide_eq_true_eq] at *
  omega

theorem sup_eq_of_nodup {l : List Support} (h : (l.map (·.chain)).Nodup) {a b : Support} (ha : a ∈ l) (hb : b ∈ l)
    (hab : a.chain = b.chain) : a = b := by
  induction l with
  | nil => cases ha
  | cons x xs ih =>
    simp only [List.map_cons, List.nodup_cons] at h
    rcases List.mem_cons.1 ha with rfl | ha' <;> rcases List.mem_cons.1 hb with rfl | hb'
    · rfl
    · exact absurd (List.mem_map.2 ⟨b, hb', hab.symm⟩) h.1
    · exact absurd (List.mem_map.2 ⟨a, ha', hab⟩) h.1
    · exact ih h.2 ha' hb'

theorem find_sup_of_nodup {l : List Support} (h : (l.map (·.chain)).Nodup) {a : Support} (ha : a ∈ l) :
    l.find? (·.chain == a.chain) = some a := by
  induction l with
  | nil => cases ha
  | cons x xs ih =>
    simp only [List.map_cons, List.nodup_cons] at h
    rcases List.mem_cons.1 ha with rfl | ha'
    · simp [List.find?]
    · have hx : (x.chain == a.chain) = false := by
        have : x.chain ≠ a.chain := fun hx => h.1 (List.mem_map.2 ⟨a, ha', hx.symm⟩)
        simpa using this
      simp only [List.find?, hx]
      exact ih h.2 ha'

/-- **A tally (of any round and phase) in which every heard vote is for `v` and which has heard all of `H` — a strong
quorum — holds a strong quorum for `v`.** `TallyWF V` is the run-level tally invariant of `F3/Proofs/InstanceDecision`
(`V x c`: a vote of `x` for `c` was delivered), part of `GInv`, hence available in every state of a validated run. -/
theorem unanimous_tally_strong {V : Pid → Chain → Prop} {t : Table} {q : Tally} (hwf : TallyWF V t q) (v : Chain)
    (H : List Pid) (hne : H ≠ []) (hnd : H.Nodup) (hq : strongQ t (sumP t H) = true)
    (hall : ∀ x ∈ H, x ∈ q.senders) (huni : ∀ x c, x ∈ q.senders → V x c → c = v) :
    q.hasStrongFor v = true := by
  obtain ⟨x0, hx0⟩ := List.exists_mem_of_ne_nil H hne
  obtain ⟨sup, hsup, hx0s⟩ := hwf.covered x0 (hall x0 hx0)
  have hchain : sup.chain = v := huni x0 sup.chain (hall x0 hx0) (hwf.voted sup hsup x0 hx0s)
  -- every member of `H` signed under `sup`
  have hsub : ∀ y ∈ H, y ∈ sup.signers := by
    intro y hy
    obtain ⟨sup', hsup', hys⟩ := hwf.covered y (hall y hy)
    have hc' : sup'.chain = v := huni y sup'.chain (hall y hy) (hwf.voted sup' hsup' y hys)
    have : sup' = sup := sup_eq_of_nodup hwf.chains hsup' hsup (hc'.trans hchain.symm)
    rw [this] at hys; exact hys
  have hpow : sumP t H ≤ sup.power := by
    rw [hwf.supPow sup hsup]; exact sumP_le_of_subset t H sup.signers hnd hsub
  have hstrong : sup.strong = true := by
    rw [hwf.strongOk sup hsup]; exact strongQ_mono' t hpow hq
  -- `findSupport v` finds `sup`
  have hfind : q.findSupport v = some sup := by
    unfold Tally.findSupport
    rw [← hchain]; exact find_sup_of_nodup hwf.chains hsup
  unfold Tally.hasStrongFor
  rw [hfind]
  exact hstrong

end F3.Liveness
