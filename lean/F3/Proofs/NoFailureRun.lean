import F3.Proofs.NoFailure2
import F3.Proofs.ParticipantRun
/-!
# Failure-freedom of whole runs of the instance model

`step_nf`: one API call on a started instance, over a validated (or foreign) message, either is refused at the
door — the state is untouched and the only effect is one of the four refusal errors — or reports no internal
error or panic; the invariant `NFI` and the quiet-decision invariant `DQ` are kept either way.
`run_nf`: hence every run `Start :: ops` (no second `Start`) from `init` is an `okRunI` run, and
`okRunI_effects` says what that means effect by effect. Core-only (no Mathlib), so that `F3.Props.C07` can
import it; `F3.Proofs.NoFailureBridge` identifies `okRunI` with `F3.Bridge.okRun`.
-/
namespace F3.Instance

def Op.isStart : Op → Bool
  | .start _ => true
  | _ => false

/-- the delivery is refused at the door (`F3.Bridge.refused`, restated without the Mathlib-dependent import) -/
def refusedOp (s : State) : Op → Bool
  | .recv _ m => refusedM s m
  | _ => false

/-- a message of another instance or with other supplemental data (`F3.Bridge.foreign`) -/
def foreignOp : Op → Bool
  | .recv _ m => foreignM m
  | _ => false

/-- every call either is a refusal or reports no error (`F3.Bridge.okRun`) -/
def okRunI : State → List Op → Bool
  | _, [] => true
  | s, op :: ops => (refusedOp s op || !hasFailure (step s op).2) && okRunI (step s op).1 ops

theorem foreignM_refusedM (s : State) (m : Msg) (h : foreignM m = true) : refusedM s m = true := by
  simp only [foreignM, Bool.or_eq_true, Bool.not_eq_true'] at h
  simp only [refusedM, Bool.or_eq_true]
  right
  unfold State.recvPre
  rcases h with h | h
  · simp [h]
  · cases hi : m.instOk <;> simp [h]

/-- the errors with which `receiveOne` turns a message away before looking at it -/
theorem recvPre_reject_kind (s : State) (m : Msg) (k : ErrKind) (h : s.recvPre m = .reject k) :
    k = .wrongInstance ∨ k = .wrongSupp ∨ k = .wrongBase := by
  unfold State.recvPre at h
  repeat' split at h
  all_goals first
    | (injection h with h; subst h; simp)
    | cases h

/-- a refused delivery: the state is untouched and the one effect is a refusal error -/
theorem step_refusedOp {s : State} {op : Op} (h : refusedOp s op = true) :
    ∃ k, step s op = (s, [.err k]) ∧
      (k = .afterTermination ∨ k = .wrongInstance ∨ k = .wrongSupp ∨ k = .wrongBase) := by
  cases op with
  | recv now m =>
    simp only [refusedOp, refusedM, Bool.or_eq_true] at h
    unfold step
    by_cases ht : (s.phase == .terminated) = true
    · exact ⟨.afterTermination, by simp [ht], Or.inl rfl⟩
    · simp only [ht, Bool.false_eq_true, if_false]
      rcases h with h | h
      · exact absurd h ht
      · unfold State.receiveOne
        cases hp : s.recvPre m with
        | reject k => exact ⟨k, by simp, Or.inr (recvPre_reject_kind s m k hp)⟩
        | drop => rw [hp] at h; cases h
        | accept => rw [hp] at h; cases h
  | start _ => cases h
  | alarm _ => cases h

/-! ### one call -/

theorem step_recv_nfok {s : State} (now : Int) (m : Msg) (h : NFI s) (hq : DQ s) (hm : MsgValid WT s.tbl m)
    (hnr : refusedM s m = false) : NFOK (step s (.recv now m)) := by
  simp only [refusedM, Bool.or_eq_false_iff] at hnr
  have hst : s.phase ≠ .terminated := by simpa using hnr.1
  unfold step
  dsimp only
  rw [if_neg (by simpa using hst)]
  have hone := receiveOne_nf now m h hm
  have hterm := fun hnf => receiveOne_term now m hq hnf
  generalize s.receiveOne now m = ro at *
  obtain ⟨r, changed⟩ := ro
  dsimp only at *
  rcases hone with ⟨k, hk, _⟩ | ⟨hnf, hi⟩
  · rw [hk] at hnr; simp at hnr
  · rw [if_neg (by simp [hnf])]
    split
    · apply andThen_nf hnf
      by_cases ht1 : r.1.phase = .terminated
      · rcases hterm hnf ht1 with h' | h'
        · exact absurd h' hst
        · have hr0 : m.round = 0 := (MsgValid.msgOk (W := WT) hm) h'
          rw [postReceive_noop _ _ _ (by omega)]
          exact NFOK.nil hi.2
      · exact postReceive_nf now m.round hi ht1
    · exact ⟨hnf, hi.2⟩

theorem step_nf {s : State} (op : Op) (h : NFI s) (hq : DQ s)
    (hop : foreignOp op = true ∨ OpValidG WT s.tbl op) (hns : op.isStart = false) :
    (refusedOp s op = true ∨ hasFailure (step s op).2 = false) ∧ NFI (step s op).1 ∧ DQ (step s op).1 := by
  by_cases hr : refusedOp s op = true
  · obtain ⟨k, hk, _⟩ := step_refusedOp hr
    rw [hk]
    exact ⟨Or.inl hr, h, hq⟩
  · have hv : OpValidG WT s.tbl op := by
      rcases hop with hf | hv
      · cases op with
        | recv now m => exact absurd (foreignM_refusedM s m hf) hr
        | start _ => cases hf
        | alarm _ => cases hf
      · exact hv
    have hok : NFOK (step s op) := by
      cases op with
      | start now => cases hns
      | alarm now => exact tryCurrentPhase_nf now h
      | recv now m => exact step_recv_nfok now m h hq hv (by simpa [refusedOp] using hr)
    have hmsg : OpOk op := by
      cases op with
      | recv now m => exact MsgValid.msgOk (W := WT) hv
      | start _ => trivial
      | alarm _ => trivial
    refine ⟨Or.inr hok.1, NFI.of_gok (step_gok (me := 0) op h.1 hq hv) hok, ?_⟩
    rcases step_ok s op hq hmsg with hf | ⟨_, hq'⟩
    · exact absurd (hf.symm.trans hok.1) (by decide)
    · exact hq'

/-! ### one micro-step (`F3.Proofs.ParticipantMicro`: every instance- or participant-level run is a micro-run) -/

/-- a micro-step other than `Start` on a started instance: `tryCurrentPhase`, `receiveOne` on a validated message
(refused at the door with the state untouched, or processed), `postReceive` on a non-terminated instance — no
failure other than the refusal, and the invariants are kept -/
theorem mstep_nf {s : State} (op : MOp) (h : NFI s) (hq : DQ s) (hop : MOpOK (MsgValid WT s.tbl) s op)
    (hns : ∀ now, op ≠ .start now) :
    ((∃ now m k, op = .one now m ∧ s.recvPre m = .reject k ∧ mstep s op = (s, [.err k])) ∨
      hasFailure (mstep s op).2 = false) ∧ NFI (mstep s op).1 ∧ DQ (mstep s op).1 := by
  have hdq : hasFailure (mstep s op).2 = false → DQ (mstep s op).1 := by
    intro hnf
    rcases mstep_ok s op hq (hop.mono (fun _ _ => trivial)) with hf | ⟨_, hq'⟩
    · exact absurd (hf.symm.trans hnf) (by decide)
    · exact hq'
  cases op with
  | start now => exact absurd rfl (hns now)
  | alarm now =>
    obtain ⟨h1, h2⟩ := tryCurrentPhase_nfi now h
    exact ⟨Or.inr h1, h2, hdq h1⟩
  | one now m =>
    rcases receiveOne_nf now m h hop with ⟨k, hk, heq⟩ | ⟨h1, h2⟩
    · refine ⟨Or.inl ⟨now, m, k, rfl, hk, heq⟩, ?_, ?_⟩
      · show NFI (s.receiveOne now m).1.1
        rw [heq]; exact h
      · show DQ (s.receiveOne now m).1.1
        rw [heq]; exact hq
    · exact ⟨Or.inr h1, h2, hdq h1⟩
  | post now r =>
    have hp := postReceive_nf now r h hop
    exact ⟨Or.inr hp.1, NFI.of_gok (postReceive_gok now r h.1 hop) hp, hdq hp.1⟩

/-! ### `Start` -/

theorem start_nf (cfg : Cfg) (t : Table) (input : Chain) (now : Int) (hin : input ≠ []) (hT : 0 < t.total) :
    hasFailure (step (init cfg t input) (.start now)).2 = false ∧ NFI (step (init cfg t input) (.start now)).1 ∧
      DQ (step (init cfg t input) (.start now)).1 := by
  have hok : NFOK (step (init cfg t input) (.start now)) := by
    unfold step State.beginQuality State.alarmAfter State.resetReb
    simp only [init]
    refine ⟨by simp, by simp, ?_, TallyDisj_empty, by simp [baseChain], fun hm => by simp [Phase.mid] at hm,
      fun hc => by simp at hc⟩
    intro e he
    simp at he
    subst he
    exact ⟨TallyDisj_empty, TallyDisj_empty⟩
  refine ⟨hok.1, NFI.of_gok (step_gok (me := 0) (.start now) (GInv_init WT 0 cfg t input hin hT) (DQ_init cfg t input)
    trivial) hok, ?_⟩
  rcases step_ok (init cfg t input) (.start now) (DQ_init cfg t input) trivial with hf | ⟨_, hq'⟩
  · exact absurd (hf.symm.trans hok.1) (by decide)
  · exact hq'

/-! ### runs -/

theorem runFrom_nf {s : State} (ops : List Op) (h : NFI s) (hq : DQ s)
    (hops : ∀ op ∈ ops, op.isStart = false ∧ (foreignOp op = true ∨ OpValidG WT s.tbl op)) :
    okRunI s ops = true ∧ NFI (runFrom s ops).1 ∧ DQ (runFrom s ops).1 := by
  induction ops generalizing s with
  | nil => exact ⟨rfl, h, hq⟩
  | cons op ops ih =>
    obtain ⟨hns, hop⟩ := hops op List.mem_cons_self
    obtain ⟨h1, h2, h3⟩ := step_nf op h hq hop hns
    have := ih h2 h3 (fun o ho => by rw [step_tbl]; exact hops o (List.mem_cons_of_mem _ ho))
    rw [runFrom_cons]
    refine ⟨?_, this.2⟩
    simp only [okRunI, Bool.and_eq_true, Bool.or_eq_true, Bool.not_eq_true']
    exact ⟨h1, this.1⟩

theorem OpValidG.top {W : Votes} {t : Table} {op : Op} (h : OpValidG W t op) : OpValidG WT t op := by
  cases op with
  | recv now m => exact MsgValid.top (W := W) h
  | start _ => trivial
  | alarm _ => trivial

/-- **No internal error or panic, run level.** One `Start` followed by any alarms and validated (or foreign)
deliveries: every call is a refusal at the door or reports no failure. -/
theorem run_nf (cfg : Cfg) (t : Table) (input : Chain) (W : Votes) (now0 : Int) (ops : List Op)
    (hin : input ≠ []) (hT : 0 < t.total)
    (hops : ∀ op ∈ ops, op.isStart = false ∧ (foreignOp op = true ∨ OpValidG W t op)) :
    okRunI (init cfg t input) (.start now0 :: ops) = true := by
  obtain ⟨h1, h2, h3⟩ := start_nf cfg t input now0 hin hT
  have htb : (step (init cfg t input) (.start now0)).1.tbl = t := by rw [step_tbl]; rfl
  have := runFrom_nf ops h2 h3 (fun o ho => ⟨(hops o ho).1, (hops o ho).2.imp id (fun hv => by rw [htb]; exact hv.top)⟩)
  simp only [okRunI, Bool.and_eq_true, Bool.or_eq_true, Bool.not_eq_true']
  exact ⟨Or.inr h1, this.1⟩

/-! ### what an `okRunI` run looks like, effect by effect -/

theorem mem_nofail {es : List Eff} (h : hasFailure es = false) {e : Eff} (he : e ∈ es) :
    (∀ p, e ≠ .panic p) ∧ (∀ k, e ≠ .err k) := by
  unfold hasFailure at h
  rw [List.any_eq_false] at h
  have := h e he
  constructor
  · intro p hp; subst hp; simp at this
  · intro k hk; subst hk; simp at this

/-- in a run all of whose calls are refusals or failure-free, no effect is a panic and every reported error is
one of the four refusals at the door -/
theorem okRunI_effects (s : State) (ops : List Op) (h : okRunI s ops = true) :
    ∀ e ∈ (runFrom s ops).2, (∀ p, e ≠ .panic p) ∧
      (∀ k, e = .err k → k = .afterTermination ∨ k = .wrongInstance ∨ k = .wrongSupp ∨ k = .wrongBase) := by
  induction ops generalizing s with
  | nil => intro e he; simp [runFrom] at he
  | cons op ops ih =>
    simp only [okRunI, Bool.and_eq_true, Bool.or_eq_true, Bool.not_eq_true'] at h
    intro e he
    rw [runFrom_cons] at he
    rcases List.mem_append.1 he with he | he
    · rcases h.1 with hr | hnf
      · obtain ⟨k, hk, hkind⟩ := step_refusedOp hr
        rw [hk] at he
        simp only [List.mem_singleton] at he
        subst he
        exact ⟨fun p hp => (by cases hp), fun k' hk' => (by injection hk' with hk'; subst hk'; exact hkind)⟩
      · obtain ⟨hp, hk⟩ := mem_nofail hnf he
        exact ⟨hp, fun k hk' => absurd hk' (hk k)⟩
    · exact ih _ h.2 e he

/-- the state is untouched by a refusal, so an `okRunI` run has the same final state and non-error effects as its
failure-free sub-run (`F3.Bridge.clean_run`); here: dropping the hypothesis from `runFrom_wp` -/
theorem okRunI_of_nofail (s : State) (ops : List Op) (h : hasFailure (runFrom s ops).2 = false) : okRunI s ops = true := by
  induction ops generalizing s with
  | nil => rfl
  | cons op ops ih =>
    rw [runFrom_cons] at h
    simp only [hasFailure_append, Bool.or_eq_false_iff] at h
    simp only [okRunI, Bool.and_eq_true, Bool.or_eq_true, Bool.not_eq_true']
    exact ⟨Or.inr h.1, ih _ h.2⟩

/-- dropping the refused calls of an `okRunI` run leaves a failure-free run with the same final state and the same
effects other than the refusals' errors (`F3.Bridge.clean_run`, with the effect lists related by `filter`) -/
theorem clean_runI (P : Op → Prop) (s : State) (ops : List Op) (h : okRunI s ops = true)
    (hP : ∀ op ∈ ops, foreignOp op = true ∨ P op) :
    ∃ ops', (∀ op ∈ ops', P op) ∧ hasFailure (runFrom s ops').2 = false ∧
      (runFrom s ops').1 = (runFrom s ops).1 ∧ (runFrom s ops').2 = (runFrom s ops).2.filter nonErr := by
  induction ops generalizing s with
  | nil => exact ⟨[], by simp, by simp [runFrom], rfl, by simp [runFrom]⟩
  | cons op ops ih =>
    simp only [okRunI, Bool.and_eq_true, Bool.or_eq_true, Bool.not_eq_true'] at h
    obtain ⟨hop, hrest⟩ := h
    have hP' : ∀ o ∈ ops, foreignOp o = true ∨ P o := fun o ho => hP o (List.mem_cons_of_mem _ ho)
    by_cases hr : refusedOp s op = true
    · obtain ⟨k, hk, _⟩ := step_refusedOp hr
      rw [hk] at hrest
      obtain ⟨ops', h1, h2, h3, h4⟩ := ih s hrest hP'
      refine ⟨ops', h1, h2, ?_, ?_⟩
      · rw [runFrom_cons, hk]; exact h3
      · rw [runFrom_cons, hk, h4]; simp [nonErr]
    · have hnf : hasFailure (step s op).2 = false := by
        rcases hop with h' | h'
        · exact absurd h' hr
        · exact h'
      obtain ⟨ops', h1, h2, h3, h4⟩ := ih _ hrest hP'
      refine ⟨op :: ops', ?_, ?_, ?_, ?_⟩
      · intro o ho
        rcases List.mem_cons.1 ho with rfl | ho
        · rcases hP o List.mem_cons_self with hf | hp
          · cases o with
            | recv now m => exact absurd (foreignM_refusedM s m hf) hr
            | start _ => cases hf
            | alarm _ => cases hf
          · exact hp
        · exact h1 o ho
      · rw [runFrom_cons]; simp only [hasFailure_append, hnf, h2, Bool.or_self]
      · rw [runFrom_cons, runFrom_cons]; exact h3
      · rw [runFrom_cons, runFrom_cons]
        simp only [List.filter_append, h4, filter_nonErr_of_nofail _ hnf]

/-- refusal errors are invisible to any projection of the effects that ignores errors -/
theorem filterMap_filter_nonErr {β : Type} (f : Eff → Option β) (hf : ∀ k, f (.err k) = none) (es : List Eff) :
    (es.filter nonErr).filterMap f = es.filterMap f := by
  induction es with
  | nil => rfl
  | cons e es ih =>
    cases e <;> simp only [List.filter_cons, nonErr, if_true, List.filterMap_cons, ih, Bool.false_eq_true, if_false]
    rw [hf]

end F3.Instance
