import F3.Gen.SkelStore
/-!
# Expected statement skeletons (SkelStore)

Hand-pinned expectations for the REGENERATED skeletons of `F3.Gen.SkelStore` (tools/go2lean/skel.go): the pre-order
list of the statements of a Go function as `<depth>:<kind>`. The expression-level tie theorems pin what single
conditions say; these pin that nothing was added around them (an extra early return, a cap, a dropped branch). A
structural change of the function — harmful or not — breaks the `rfl` below and with it the obligation of every
property importing this file; the check then searches for a failing input as for any broken obligation.
-/
namespace F3.SkelTie.SkelStore
open F3.Gen.SkelStore

/-- the structure the model of `StorePut` was written against -/
def skelStorePutExpected : List String :=
  ["0:if", "1:return1", "0:if", "1:return1", "0:elseif", "1:return1", "0:call:cs.mu.Lock", "0:defer",
   "0:assign:=", "0:if", "1:assign=", "0:if", "1:return1", "0:if", "1:return1", "0:assign:=", "0:if", "1:decl",
   "1:assign=", "1:if", "2:return1", "0:if", "1:return1", "0:elseif", "1:return1", "0:if", "1:return1",
   "0:decl", "0:if", "1:return1", "0:if", "1:return1", "0:if", "1:if", "2:return1", "0:if", "1:return1",
   "0:assign=", "0:assign=", "0:range", "1:select", "2:comm", "2:comm", "1:send",
   "0:call:metrics.latestInstance.Record", "0:call:metrics.tipsetsPerInstance.Record",
   "0:call:metrics.latestFinalizedEpoch.Record", "0:return1"]

theorem skelStorePut_expected : skelStorePut = skelStorePutExpected := rfl

/-- the structure the model of `StoreGetRange` was written against -/
def skelStoreGetRangeExpected : List String :=
  ["0:if", "1:return2", "0:if", "1:return2", "0:assign:=", "0:for", "1:assign:=", "1:if", "2:branch:break",
   "1:if", "2:return2", "1:assign=", "0:assign:=", "0:range", "1:assign:=", "1:if", "2:return2", "0:if",
   "1:return2", "0:return2"]

theorem skelStoreGetRange_expected : skelStoreGetRange = skelStoreGetRangeExpected := rfl

/-- the structure the model of `StoreOpen` was written against -/
def skelStoreOpenExpected : List String :=
  ["0:assign:=", "0:assign:=", "0:if", "1:return2", "0:if", "1:return2", "0:assign:=", "0:if", "1:return2",
   "0:elseif", "1:return2", "0:assign=", "0:if", "1:return2", "0:call:metrics.latestInstance.Record",
   "0:call:metrics.latestFinalizedEpoch.Record", "0:return2"]

theorem skelStoreOpen_expected : skelStoreOpen = skelStoreOpenExpected := rfl

/-- the structure the model of `ExportSnapshot` was written against -/
def skelExportSnapshotExpected : List String :=
  ["0:assign:=", "0:if", "1:return3", "0:assign:=", "0:assign:=", "0:if", "1:return3", "0:assign:=", "0:if",
   "1:return3", "0:for", "1:assign:=", "1:if", "2:return3", "1:assign:=", "1:if", "2:return3", "0:assign:=",
   "0:assign:=", "0:if", "1:return3", "0:return3"]

theorem skelExportSnapshot_expected : skelExportSnapshot = skelExportSnapshotExpected := rfl

/-- the structure the model of `ReadSnapshotBlock` was written against -/
def skelReadSnapshotBlockExpected : List String :=
  ["0:assign:=", "0:if", "1:return2", "0:assign:=", "0:assign:=", "0:if", "1:assign=", "0:if", "1:return2",
   "0:if", "1:return2", "0:return2"]

theorem skelReadSnapshotBlock_expected : skelReadSnapshotBlock = skelReadSnapshotBlockExpected := rfl

/-- the structure the model of `ImportSnapshot` was written against -/
def skelImportSnapshotExpected : List String :=
  ["0:return1"]

theorem skelImportSnapshot_expected : skelImportSnapshot = skelImportSnapshotExpected := rfl

end F3.SkelTie.SkelStore
