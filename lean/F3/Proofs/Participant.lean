import F3.Proofs.ParticipantMicro
import F3.Proofs.InstanceGuards3
/-!
# Micro-runs: the decision invariant and Layer B

Continues `F3.Proofs.ParticipantMicro`: `mrun_decinv` (`DecInv`) and `mrun_guarded` (`GInv`, `GuardL` for every
broadcast) over arbitrary sequences of micro-steps satisfying `MOK`.
-/
namespace F3.Instance

/-! ### the decision invariant -/

section Decision
variable {V : Pid → Chain → Prop}

theorem receiveOne_decinv (s : State) (now : Int) (m : Msg) (hi : DecInv V s) (hpos : 0 < s.tbl.power m.sender)
    (hv : m.phase = .decide → V m.sender m.value) : DecInv V (s.receiveOne now m).1.1 := by
  unfold State.receiveOne
  split
  · exact hi
  · exact hi
  · split
    · exact recvQuality_decinv s now m hi
    · split
      · exact hi
      · split
        · exact hi
        · exact recvConverge_decinv s now m _ hi
    · exact recvPrepare_decinv s now m hi
    · exact recvCommit_decinv s now m hi
    · rename_i hph; exact recvDecide_decinv s now m hi hpos (hv hph)
    · exact hi

/-- validity of a delivered message as far as the decision is concerned -/
def MsgValidD (V : Pid → Chain → Prop) (t : Table) (m : Msg) : Prop :=
  0 < t.power m.sender ∧ (m.phase = .decide → V m.sender m.value)

theorem mstep_tbl_input (s : State) (op : MOp) : (mstep s op).1.tbl = s.tbl ∧ (mstep s op).1.input = s.input := by
  cases op with
  | start now => exact ⟨by simp [mstep], by simp [mstep]⟩
  | alarm now => exact tryCurrentPhase_tbl_input s now
  | one now m => exact receiveOne_tbl_input s now m
  | post now r => exact ⟨by simp [mstep], by simp [mstep]⟩

theorem mrun_tbl_input (s : State) (ops : List MOp) : (mrun s ops).1.tbl = s.tbl ∧ (mrun s ops).1.input = s.input := by
  induction ops generalizing s with
  | nil => exact ⟨rfl, rfl⟩
  | cons op ops ih =>
    rw [mrun_cons]
    exact ⟨(ih _).1.trans (mstep_tbl_input s op).1, (ih _).2.trans (mstep_tbl_input s op).2⟩

theorem mstep_decinv (s : State) (op : MOp) (hi : DecInv V s) (hop : MOpOK (MsgValidD V s.tbl) s op) :
    DecInv V (mstep s op).1 := by
  cases op with
  | start now => exact DecInv_frame (beginQuality_frame s now) hi
  | alarm now => exact tryCurrentPhase_decinv s now hi
  | one now m => exact receiveOne_decinv s now m hi hop.1 hop.2
  | post now r => exact DecInv_frame (postReceive_frame s now r) hi

theorem mrun_decinv (s : State) (ops : List MOp) (hi : DecInv V s) (hok : MOK (MsgValidD V s.tbl) s ops) :
    DecInv V (mrun s ops).1 := by
  induction ops generalizing s with
  | nil => exact hi
  | cons op ops ih =>
    rw [mrun_cons]
    refine ih _ (mstep_decinv s op hi hok.1) ?_
    rw [(mstep_tbl_input s op).1]; exact hok.2

end Decision

/-! ### Layer B -/

section Guards
variable {W : Votes} {me : Pid}

theorem mstep_gok {s : State} (op : MOp) (h : GInv W me s) (hq : DQ s) (hop : MOpOK (MsgValid W s.tbl) s op) :
    GOK W me s (mstep s op) := by
  cases op with
  | start now => exact step_gok (.start now) h hq trivial
  | alarm now => exact tryCurrentPhase_gok now h
  | one now m => exact receiveOne_gok now m h hop
  | post now r => exact postReceive_gok now r h hop

/-- **Layer B for micro-runs.** -/
theorem mrun_guarded {s : State} (ops : List MOp) (h : GInv W me s) (hq : DQ s)
    (hok : MOK (MsgValid W s.tbl) s ops) (hown : OwnIn W me (mrun s ops).2)
    (hnf : hasFailure (mrun s ops).2 = false) :
    Guarded W s.tbl me s.input (mrun s ops).2 ∧ GInv W me (mrun s ops).1 := by
  induction ops generalizing s with
  | nil => exact ⟨by simpa using Guarded_nil, by simpa using h⟩
  | cons op ops ih =>
    rw [mrun_cons] at hown hnf ⊢
    simp only [hasFailure_append, Bool.or_eq_false_iff] at hnf
    obtain ⟨ho1, ho2⟩ := OwnIn_append hown
    rcases mstep_gok (me := me) op h hq hok.1 with hf | hk
    · exact absurd (hf.symm.trans hnf.1) (by decide)
    · obtain ⟨hi1, hg1⟩ := hk ho1
      have hq1 : DQ (mstep s op).1 := by
        rcases mstep_ok s op hq (hok.1.mono (fun _ _ => trivial)) with hf | ⟨_, hq'⟩
        · exact absurd (hf.symm.trans hnf.1) (by decide)
        · exact hq'
      obtain ⟨htb, hinp⟩ := mstep_tbl_input s op
      have := ih hi1 hq1 (by rw [htb]; exact hok.2) ho2 hnf.2
      rw [htb, hinp] at this
      exact ⟨Guarded_append hg1 this.1, this.2⟩

end Guards

end F3.Instance
