import F3.Proofs.SyncGeneralTally
/-!
# Multi-valued tallies of a run with arbitrary inputs

`GT t f H T`: the exact content of a single-vote tally (`prepared`, `committed`, `decision`) in which every sender
`x` heard so far voted `f x`. `QG`: the QUALITY tally when sender `x` voted its input `inp x`.
-/
namespace F3.SyncGeneral
open F3.Instance F3.Sync

/-! ## single-vote tallies -/

/-- the senders in `S` that voted `k` -/
def vfilter (f : Pid → Chain) (S : List Pid) (k : Chain) : List Pid := S.filter (fun x => f x == k)

def gEntry (t : Table) (f : Pid → Chain) (S : List Pid) (k : Chain) : Support :=
  { chain := k, power := sumP t (vfilter f S k), signers := vfilter f S k, strong := strongQ t (sumP t (vfilter f S k)) }

structure GT (t : Table) (f : Pid → Chain) (H : List Pid) (T : Tally) : Prop where
  nodup : T.senders.Nodup
  sub : ∀ x ∈ T.senders, x ∈ H
  pow : T.sendersPower = sumP t T.senders
  keys : (T.support.map (·.chain)).Nodup
  find : ∀ k, T.findSupport k = if vfilter f T.senders k = [] then none else some (gEntry t f T.senders k)

variable {t : Table} {f : Pid → Chain} {H : List Pid}

theorem GT_empty : GT t f H {} := ⟨by simp, by simp, rfl, by simp, by intro k; simp [Tally.findSupport, vfilter]⟩

theorem vfilter_snoc_same (f : Pid → Chain) (S : List Pid) (x : Pid) : vfilter f (S ++ [x]) (f x) = vfilter f S (f x) ++ [x] := by
  unfold vfilter
  rw [List.filter_append]
  simp

theorem vfilter_snoc_other (f : Pid → Chain) (S : List Pid) (x : Pid) (k : Chain) (hk : k ≠ f x) :
    vfilter f (S ++ [x]) k = vfilter f S k := by
  unfold vfilter
  rw [List.filter_append]
  have : (f x == k) = false := by simpa using fun h => hk h.symm
  simp [this]

theorem vfilter_sub (f : Pid → Chain) (S : List Pid) (k : Chain) : ∀ x ∈ vfilter f S k, x ∈ S ∧ f x = k := by
  intro x hx
  unfold vfilter at hx
  rw [List.mem_filter] at hx
  exact ⟨hx.1, by simpa using hx.2⟩

/-- the entry `receiveInner` writes for a signed vote of `x` -/
def votedEntry (t : Table) (cand : Support) (c : Chain) (x : Pid) (pw : Nat) : Support :=
  { chain := c, power := cand.power + pw, signers := cand.signers ++ [x], strong := strongQ t (cand.power + pw) }

theorem receiveInner_true_eq (t : Table) (Q : Tally) (x : Pid) (c : Chain) (pw : Nat) (cand : Support)
    (hc : (Q.findSupport c).getD { chain := c, power := 0, signers := [], strong := false } = cand)
    (hn : cand.signers.contains x = false) :
    Q.receiveInner t x c pw true = some { Q with support := upsertSupport Q.support (votedEntry t cand c x pw) } := by
  unfold Tally.receiveInner votedEntry
  dsimp only
  rw [hc, hn]
  simp

/-- a new vote of `x` (for `f x`) -/
theorem GT.receive_new {T : Tally} (h : GT t f H T) (x : Pid) (hx : x ∈ H) (hn : x ∉ T.senders) :
    ∃ T', T.receive t x (f x) = some T' ∧ GT t f H T' ∧ T'.senders = T.senders ++ [x] ∧ T'.justs = T.justs := by
  have hc : T.senders.contains x = false := by simpa using hn
  unfold Tally.receive
  simp only [hc, Bool.false_eq_true, if_false]
  -- the candidate entry
  have hcand : ∃ cand, (T.findSupport (f x)).getD { chain := f x, power := 0, signers := [], strong := false } = cand ∧
      cand.power = sumP t (vfilter f T.senders (f x)) ∧ cand.signers = vfilter f T.senders (f x) := by
    rw [h.find]
    by_cases he : vfilter f T.senders (f x) = []
    · rw [if_pos he, he]; exact ⟨_, rfl, rfl, rfl⟩
    · rw [if_neg he]; exact ⟨_, rfl, rfl, rfl⟩
  obtain ⟨cand, hc1, hc2, hc3⟩ := hcand
  have hnc : cand.signers.contains x = false := by
    rw [hc3]
    simp only [List.contains_eq_mem, decide_eq_false_iff_not]
    intro hm
    exact hn (vfilter_sub f _ _ x hm).1
  have hfs : Tally.findSupport ({ T with senders := T.senders ++ [x], sendersPower := T.sendersPower + t.power x } : Tally) (f x)
      = T.findSupport (f x) := rfl
  rw [receiveInner_true_eq t _ x (f x) (t.power x) cand (by rw [hfs]; exact hc1) hnc]
  have hent : votedEntry t cand (f x) x (t.power x) = gEntry t f (T.senders ++ [x]) (f x) := by
    unfold gEntry votedEntry
    rw [vfilter_snoc_same, sumP_append, sumP_single, hc2, hc3]
  rw [hent]
  refine ⟨_, rfl, ⟨?_, ?_, ?_, ?_, ?_⟩, rfl, rfl⟩
  · show (T.senders ++ [x]).Nodup
    rw [List.nodup_append]
    exact ⟨h.nodup, by simp, fun a ha b hb => by simp at hb; subst hb; intro e; subst e; exact hn ha⟩
  · intro y hy
    have hy' : y ∈ T.senders ++ [x] := hy
    simp only [List.mem_append, List.mem_singleton] at hy'
    rcases hy' with hy' | rfl
    · exact h.sub y hy'
    · exact hx
  · show T.sendersPower + t.power x = sumP t (T.senders ++ [x])
    rw [h.pow, sumP_append, sumP_single]
  · exact upsert_chains_nodup _ h.keys _
  · intro k
    show (upsertSupport T.support (gEntry t f (T.senders ++ [x]) (f x))).find? (fun e => e.chain == k) =
      if vfilter f (T.senders ++ [x]) k = [] then none else some (gEntry t f (T.senders ++ [x]) k)
    by_cases hk : k = f x
    · subst hk
      have := upsert_find_same T.support (gEntry t f (T.senders ++ [x]) (f x))
      rw [show (gEntry t f (T.senders ++ [x]) (f x)).chain = f x from rfl] at this
      rw [this, if_neg (by rw [vfilter_snoc_same]; simp)]
    · rw [upsert_find_other _ _ k hk, vfilter_snoc_other f _ x k hk]
      have := h.find k
      unfold Tally.findSupport at this
      rw [this]
      unfold gEntry
      rw [vfilter_snoc_other f _ x k hk]

theorem GT.receive_old {T : Tally} (x : Pid) (c : Chain) (hn : x ∈ T.senders) : T.receive t x c = some T := by
  have hc : T.senders.contains x = true := by simpa using hn
  unfold Tally.receive
  rw [if_pos hc]

/-- any vote of a member of `H` -/
theorem GT.receive {T : Tally} (h : GT t f H T) (x : Pid) (hx : x ∈ H) :
    ∃ T', T.receive t x (f x) = some T' ∧ GT t f H T' ∧ x ∈ T'.senders ∧ (∀ y ∈ T.senders, y ∈ T'.senders) ∧
      (∀ y ∈ T'.senders, y ∈ T.senders ∨ y = x) ∧ T'.justs = T.justs := by
  by_cases hn : x ∈ T.senders
  · exact ⟨T, GT.receive_old x _ hn, h, hn, fun _ hy => hy, fun _ hy => Or.inl hy, rfl⟩
  · obtain ⟨T', h1, h2, h3, h4⟩ := h.receive_new x hx hn
    refine ⟨T', h1, h2, by simp [h3], fun y hy => by simp [h3, hy], fun y hy => ?_, h4⟩
    rw [h3] at hy
    simpa using hy

theorem GT.receiveJust {T : Tally} (h : GT t f H T) (k : Chain) (j : Just) : GT t f H (T.receiveJust k j) := by
  unfold Tally.receiveJust
  split
  · exact h
  · exact ⟨h.nodup, h.sub, h.pow, h.keys, h.find⟩

theorem GT.hasStrongFor {T : Tally} (h : GT t f H T) (k : Chain) :
    T.hasStrongFor k = (decide (vfilter f T.senders k ≠ []) && strongQ t (sumP t (vfilter f T.senders k))) := by
  unfold Tally.hasStrongFor
  rw [h.find]
  by_cases he : vfilter f T.senders k = []
  · simp [he]
  · simp [he, gEntry]

theorem GT.mem {T : Tally} (h : GT t f H T) (e : Support) (he : e ∈ T.support) :
    e = gEntry t f T.senders e.chain ∧ vfilter f T.senders e.chain ≠ [] := by
  have h1 := find_of_mem_nodup T.support h.keys e he
  have h2 := h.find e.chain
  unfold Tally.findSupport at h2
  rw [h1] at h2
  by_cases hv : vfilter f T.senders e.chain = []
  · rw [if_pos hv] at h2; cases h2
  · rw [if_neg hv] at h2
    exact ⟨Option.some.inj h2, hv⟩

/-- in a list of entries with distinct keys of which only the one for `k` can be strong -/
theorem filter_strong_one (l : List Support) (k : Chain) (hnd : (l.map (·.chain)).Nodup)
    (ho : ∀ e ∈ l, e.strong = true → e.chain = k) :
    l.filter (·.strong) = match l.find? (fun e => e.chain == k) with
      | some e => if e.strong then [e] else []
      | none => [] := by
  induction l with
  | nil => rfl
  | cons a as ih =>
    simp only [List.map_cons, List.nodup_cons] at hnd
    have iha := ih hnd.2 (fun e he => ho e (List.mem_cons_of_mem _ he))
    by_cases hak : a.chain = k
    · have hnone : as.find? (fun e => e.chain == k) = none := by
        rw [List.find?_eq_none]
        intro e he
        simp only [beq_iff_eq]
        intro hek
        exact hnd.1 (List.mem_map.2 ⟨e, he, by rw [hek, hak]⟩)
      rw [hnone] at iha
      rw [List.find?_cons, show (a.chain == k) = true by simpa using hak]
      dsimp only
      by_cases hs : a.strong = true
      · rw [List.filter_cons_of_pos hs, iha, if_pos hs]
      · rw [List.filter_cons_of_neg hs, iha, if_neg hs]
    · have hs : ¬ a.strong = true := fun hs => hak (ho a List.mem_cons_self hs)
      rw [List.filter_cons_of_neg hs, List.find?_cons, show (a.chain == k) = false by simpa using hak]
      exact iha

/-- if no value other than `k` has a strong quorum, `FindStrongQuorumValue` is decided by `k` alone -/
theorem GT.fsqv {T : Tally} (h : GT t f H T) (k : Chain) (ho : ∀ k', k' ≠ k → T.hasStrongFor k' = false) :
    T.findStrongQuorumValue = if T.hasStrongFor k = true then .one k else .none := by
  have ho' : ∀ e ∈ T.support, e.strong = true → e.chain = k := by
    intro e he hs
    by_cases hk : e.chain = k
    · exact hk
    · exfalso
      have := ho e.chain hk
      unfold Tally.hasStrongFor Tally.findSupport at this
      rw [find_of_mem_nodup T.support h.keys e he] at this
      dsimp only at this
      rw [hs] at this; cases this
  unfold Tally.findStrongQuorumValue
  rw [filter_strong_one T.support k h.keys ho']
  unfold Tally.hasStrongFor Tally.findSupport
  cases hf : T.support.find? (fun e => e.chain == k) with
  | none => simp
  | some e =>
    dsimp only
    have hek : e.chain = k := by simpa using List.find?_some hf
    by_cases hs : e.strong = true
    · rw [if_pos hs, if_pos hs]
      show SQV.one e.chain = _
      rw [hek]
    · rw [if_neg hs, if_neg hs]

/-- `FindStrongQuorumFor` succeeds on a value with a strong quorum -/
theorem GT.fsqf {T : Tally} (h : GT t f H T) (hin : ∀ x ∈ H, ∃ i, t.index? x = some i) (k : Chain)
    (hs : T.hasStrongFor k = true) : ∃ sg, T.findStrongQuorumFor t k = .found sg := by
  rw [h.hasStrongFor] at hs
  simp only [Bool.and_eq_true, decide_eq_true_eq] at hs
  obtain ⟨hne, hst⟩ := hs
  unfold Tally.findStrongQuorumFor
  rw [h.find, if_neg hne]
  simp only [gEntry, hst, Bool.not_true, Bool.false_eq_true, if_false]
  obtain ⟨r, hr, hlen⟩ := mapM_some t.index? (vfilter f T.senders k)
    (fun x hx => hin x (h.sub x (vfilter_sub f _ _ x hx).1))
  rw [hr]
  dsimp only
  have hrne : sortNat r ≠ [] := by
    intro he
    cases hS : vfilter f T.senders k with
    | nil => exact hne hS
    | cons a as =>
      rw [hS] at hlen
      cases r with
      | nil => simp at hlen
      | cons b bs =>
        have : b ∈ sortNat (b :: bs) := (sortNat_mem _ _).2 List.mem_cons_self
        rw [he] at this; cases this
  have hst' : strongQ t (0 + sumPow t (sortNat r)) = true := by
    rw [Nat.zero_add, sumPow_sortNat, sumPow_mapM t _ _ hr]; exact hst
  obtain ⟨sg, hsg⟩ := takeUntilStrong_some t (sortNat r) 0 [] hrne hst'
  rw [hsg]
  exact ⟨sg, rfl⟩

/-! ### with the global picture: the proposers of the longest quorum prefix vote for it -/

section Maj
variable {inp : Pid → Chain} {b : Nat}

/-- in this phase every proposer of the longest quorum prefix votes for it -/
def Maj (t : Table) (H : List Pid) (inp : Pid → Chain) (f : Pid → Chain) : Prop :=
  ∀ x ∈ H, propOf t H inp x = longestQuorumPrefix t H inp → f x = longestQuorumPrefix t H inp

theorem maj_propOf : Maj t H inp (propOf t H inp) := fun _ _ h => h

theorem maj_cvOf : Maj t H inp (cvOf t H inp) := by
  intro x _ h
  unfold cvOf
  rw [if_pos h]

theorem maj_const : Maj t H inp (fun _ => longestQuorumPrefix t H inp) := fun _ _ _ => rfl

/-- the voters of a value other than the longest quorum prefix are no strong quorum -/
theorem GT.other_weak {T : Tally} (h : GT t f H T) (g : GCtx t H inp b) (hm : Maj t H inp f) (k : Chain)
    (hk : k ≠ longestQuorumPrefix t H inp) : 3 * sumP t (vfilter f T.senders k) + 2 * t.total ≤ 3 * t.total := by
  apply g.minority_weak _ (h.nodup.filter _)
  · intro x hx; exact h.sub x (vfilter_sub f _ _ x hx).1
  · intro x hx hp
    have hx' := vfilter_sub f _ _ x hx
    exact hk (by rw [← hx'.2]; exact hm x (h.sub x hx'.1) hp)

theorem GT.other_not_strong {T : Tally} (h : GT t f H T) (g : GCtx t H inp b) (hm : Maj t H inp f) (k : Chain)
    (hk : k ≠ longestQuorumPrefix t H inp) : T.hasStrongFor k = false := by
  rw [h.hasStrongFor]
  have := h.other_weak g hm k hk
  have hp := g.pos
  rw [strongQ_false_of t _ (by omega)]
  simp

/-- everybody heard ⇒ strong quorum for the longest quorum prefix -/
theorem GT.strong_of_all {T : Tally} (h : GT t f H T) (g : GCtx t H inp b) (hm : Maj t H inp f)
    (hall : ∀ x ∈ H, x ∈ T.senders) : T.hasStrongFor (longestQuorumPrefix t H inp) = true := by
  rw [h.hasStrongFor]
  have hle : sumP t (majority t H inp) ≤ sumP t (vfilter f T.senders (longestQuorumPrefix t H inp)) := by
    unfold majority vfilter
    apply sumP_filter_mono t H _ _ _ g.nodup
    intro x hx hp
    exact ⟨hall x hx, by rw [hm x hx (by simpa using hp)]; simp⟩
  have hs := strongQ_mono t hle g.majority_strong
  have hne : vfilter f T.senders (longestQuorumPrefix t H inp) ≠ [] := by
    apply sumP_pos_ne_nil t
    rw [strongQ_iff] at hs
    have := g.pos
    omega
  simp [hne, hs]

theorem GT.senders_le_total {T : Tally} (h : GT t f H T) (g : GCtx t H inp b) : sumP t T.senders ≤ t.total := by
  rw [← g.full]
  exact sumP_le_of_subset t _ _ h.nodup h.sub

theorem GT.senders_all {T : Tally} (h : GT t f H T) (g : GCtx t H inp b) (hall : ∀ x ∈ H, x ∈ T.senders) :
    sumP t T.senders = t.total := by
  rw [← g.full]
  exact sumP_eq_of_same t _ _ h.nodup g.nodup h.sub hall

theorem GT.couldReach_eq {T : Tally} (h : GT t f H T) (k : Chain) (adv : Bool) :
    T.couldReach t k adv = Spec.Quorum.couldReach adv (t.total : Int) (sumP t T.senders : Nat)
      (sumP t (vfilter f T.senders k) : Nat) := by
  unfold Tally.couldReach
  rw [h.find, h.pow]
  by_cases he : vfilter f T.senders k = []
  · rw [if_pos he, he]; rfl
  · rw [if_neg he]; rfl

/-- a quorum for the longest quorum prefix stays reachable whatever has been heard -/
theorem GT.couldReach_major {T : Tally} (h : GT t f H T) (g : GCtx t H inp b) (hm : Maj t H inp f) :
    T.couldReach t (longestQuorumPrefix t H inp) false = true := by
  rw [h.couldReach_eq]
  have hpart := sumP_filter_add t T.senders (fun x => f x == longestQuorumPrefix t H inp)
  have hmin : 3 * sumP t (T.senders.filter (fun x => !(f x == longestQuorumPrefix t H inp))) + 2 * t.total ≤ 3 * t.total := by
    apply g.minority_weak _ (h.nodup.filter _)
    · intro x hx; exact h.sub x (List.mem_filter.1 hx).1
    · intro x hx hp
      have hx' := List.mem_filter.1 hx
      have := hm x (h.sub x hx'.1) hp
      simp [this] at hx'
  have htot := h.senders_le_total g
  unfold vfilter
  unfold Spec.Quorum.couldReach Spec.Quorum.strong
  simp only [Bool.false_eq_true, if_false, decide_eq_true_eq]
  omega

/-- once everybody has been heard, no other value can reach a quorum -/
theorem GT.couldReach_minor_all {T : Tally} (h : GT t f H T) (g : GCtx t H inp b) (hm : Maj t H inp f) (k : Chain)
    (hk : k ≠ longestQuorumPrefix t H inp) (hall : ∀ x ∈ H, x ∈ T.senders) : T.couldReach t k false = false := by
  rw [h.couldReach_eq, h.senders_all g hall]
  have := h.other_weak g hm k hk
  have hp := g.pos
  unfold Spec.Quorum.couldReach Spec.Quorum.strong
  simp only [Bool.false_eq_true, if_false, decide_eq_false_iff_not]
  omega

theorem GT.fromStrong_all {T : Tally} (h : GT t f H T) (g : GCtx t H inp b) (hall : ∀ x ∈ H, x ∈ T.senders) :
    T.fromStrong t = true := by
  unfold Tally.fromStrong
  rw [h.pow, h.senders_all g hall]
  exact strongQ_total t

end Maj

/-! ## the QUALITY tally -/

/-- the senders in `S` whose input has prefix `k` -/
def qfilter (inp : Pid → Chain) (S : List Pid) (k : Chain) : List Pid := S.filter (fun x => k.isPrefixOf (inp x))

structure QG (t : Table) (inp : Pid → Chain) (H : List Pid) (Q : Tally) : Prop where
  nodup : Q.senders.Nodup
  sub : ∀ x ∈ Q.senders, x ∈ H
  cand : ∀ k, 2 ≤ k.length → candPower Q k = sumP t (qfilter inp Q.senders k)
  strongOk : ∀ k e, Q.findSupport k = some e → e.strong = strongQ t e.power

variable {inp : Pid → Chain}

theorem QG_empty : QG t inp H {} :=
  ⟨by simp, by simp, fun _ _ => rfl, by intro k e h; simp [Tally.findSupport] at h⟩

theorem mem_qualityPrefixes (c k : Chain) : k ∈ qualityPrefixes c ↔ k <+: c ∧ 2 ≤ k.length := by
  unfold qualityPrefixes
  simp only [List.mem_map, List.mem_range, prefixTo]
  constructor
  · rintro ⟨j, hj, rfl⟩
    refine ⟨List.take_prefix _ _, ?_⟩
    rw [List.length_take]; omega
  · rintro ⟨hp, hl⟩
    have hle := hp.length_le
    refine ⟨k.length - 2, by omega, ?_⟩
    rw [show k.length - 2 + 1 + 1 = k.length by omega]
    exact (List.prefix_iff_eq_take.1 hp).symm

theorem qualityPrefixes_nodup (c : Chain) : (qualityPrefixes c).Nodup := by
  unfold qualityPrefixes
  rw [List.Nodup, List.pairwise_map]
  refine List.Pairwise.imp_of_mem ?_ (List.nodup_range (n := c.length - 1))
  intro a b ha hb hne heq
  rw [List.mem_range] at ha hb
  have := congrArg List.length heq
  simp only [prefixTo, List.length_take] at this
  omega

/-- power of the entry after one QUALITY bump of key `a` -/
theorem candPower_bump (t : Table) (Q : Tally) (a k : Chain) (pw : Nat) :
    candPower { Q with support := upsertSupport Q.support (bump t Q a pw) } k =
      if k = a then candPower Q a + pw else candPower Q k := by
  unfold candPower Tally.findSupport
  by_cases hk : k = a
  · subst hk
    rw [if_pos rfl]
    have := upsert_find_same Q.support (bump t Q k pw)
    rw [show (bump t Q k pw).chain = k from rfl] at this
    show ((List.find? _ (upsertSupport Q.support (bump t Q k pw))).getD _).power = _
    rw [this]
    rfl
  · rw [if_neg hk]
    show ((List.find? _ (upsertSupport Q.support (bump t Q a pw))).getD _).power = _
    rw [upsert_find_other _ _ k hk]

theorem strongOk_bump (t : Table) (Q : Tally) (a : Chain) (pw : Nat)
    (h : ∀ k e, Q.findSupport k = some e → e.strong = strongQ t e.power) :
    ∀ k e, Tally.findSupport { Q with support := upsertSupport Q.support (bump t Q a pw) } k = some e →
      e.strong = strongQ t e.power := by
  intro k e he
  unfold Tally.findSupport at he
  by_cases hk : k = a
  · subst hk
    have := upsert_find_same Q.support (bump t Q k pw)
    rw [show (bump t Q k pw).chain = k from rfl] at this
    have he' : List.find? (fun x => x.chain == k) (upsertSupport Q.support (bump t Q k pw)) = some e := he
    rw [this] at he'
    cases he'
    rfl
  · have he' : List.find? (fun x => x.chain == k) (upsertSupport Q.support (bump t Q a pw)) = some e := he
    rw [upsert_find_other _ _ k hk] at he'
    exact h k e he'

/-- folding the QUALITY bumps over a duplicate-free list of keys -/
theorem fold_bumps (t : Table) (x : Pid) (pw : Nat) (l : List Chain) (hnd : l.Nodup) (Q : Tally)
    (hs : ∀ k e, Q.findSupport k = some e → e.strong = strongQ t e.power) :
    (∀ k, candPower (l.foldl (fun acc p => (acc.receiveInner t x p pw false).getD acc) Q) k =
        candPower Q k + if k ∈ l then pw else 0) ∧
    (l.foldl (fun acc p => (acc.receiveInner t x p pw false).getD acc) Q).senders = Q.senders ∧
    (∀ k e, (l.foldl (fun acc p => (acc.receiveInner t x p pw false).getD acc) Q).findSupport k = some e →
        e.strong = strongQ t e.power) := by
  induction l generalizing Q with
  | nil => exact ⟨fun k => by simp, rfl, hs⟩
  | cons a as ih =>
    simp only [List.foldl_cons]
    rw [receiveInner_false_some]
    simp only [Option.getD_some]
    have hnd' := List.nodup_cons.1 hnd
    obtain ⟨h1, h2, h3⟩ := ih hnd'.2 { Q with support := upsertSupport Q.support (bump t Q a pw) }
      (strongOk_bump t Q a pw hs)
    refine ⟨?_, h2, h3⟩
    intro k
    rw [h1 k, candPower_bump]
    by_cases hk : k = a
    · subst hk
      rw [if_pos rfl, if_neg hnd'.1, if_pos List.mem_cons_self]; omega
    · rw [if_neg hk]
      by_cases hm : k ∈ as
      · rw [if_pos hm, if_pos (List.mem_cons_of_mem _ hm)]
      · rw [if_neg hm, if_neg (by simp [hk, hm])]

theorem qfilter_snoc (inp : Pid → Chain) (S : List Pid) (x : Pid) (k : Chain) :
    qfilter inp (S ++ [x]) k = qfilter inp S k ++ (if k.isPrefixOf (inp x) then [x] else []) := by
  unfold qfilter
  rw [List.filter_append]
  by_cases h : k.isPrefixOf (inp x) = true
  · simp [h]
  · simp [h]

theorem QG.receive {Q : Tally} (h : QG t inp H Q) (x : Pid) (hx : x ∈ H) :
    QG t inp H (Q.receiveEachPrefix t x (inp x)) ∧ x ∈ (Q.receiveEachPrefix t x (inp x)).senders ∧
    (∀ y ∈ Q.senders, y ∈ (Q.receiveEachPrefix t x (inp x)).senders) := by
  unfold Tally.receiveEachPrefix
  by_cases hin : x ∈ Q.senders
  · have : Q.senders.contains x = true := by simpa using hin
    simp only [this, if_true]
    exact ⟨h, hin, fun _ hy => hy⟩
  · have hcf : Q.senders.contains x = false := by simpa using hin
    simp only [hcf, Bool.false_eq_true, if_false]
    obtain ⟨f1, f2, f3⟩ := fold_bumps t x (t.power x) (qualityPrefixes (inp x)) (qualityPrefixes_nodup _)
      ({ Q with senders := Q.senders ++ [x], sendersPower := Q.sendersPower + t.power x } : Tally) h.strongOk
    generalize ((qualityPrefixes (inp x)).foldl (fun (acc : Tally) p => (acc.receiveInner t x p (t.power x) false).getD acc)
        ({ Q with senders := Q.senders ++ [x], sendersPower := Q.sendersPower + t.power x } : Tally)) = Q1 at f1 f2 f3
    have f2' : Q1.senders = Q.senders ++ [x] := f2
    refine ⟨⟨?_, ?_, ?_, f3⟩, by rw [f2']; simp, fun y hy => by rw [f2']; simp [hy]⟩
    · rw [f2', List.nodup_append]
      exact ⟨h.nodup, by simp, fun a ha b hb => by simp at hb; subst hb; intro e; subst e; exact hin ha⟩
    · intro y hy
      rw [f2'] at hy
      simp only [List.mem_append, List.mem_singleton] at hy
      rcases hy with hy | rfl
      · exact h.sub y hy
      · exact hx
    · intro k hk
      rw [f1 k, f2', qfilter_snoc, sumP_append]
      have hc : candPower ({ Q with senders := Q.senders ++ [x], sendersPower := Q.sendersPower + t.power x } : Tally) k
          = candPower Q k := rfl
      rw [hc, h.cand k hk]
      by_cases hp : k.isPrefixOf (inp x) = true
      · rw [if_pos hp, if_pos ((mem_qualityPrefixes _ _).2 ⟨(isPrefixOf_iff _ _).1 hp, hk⟩), sumP_single]
      · rw [if_neg hp, if_neg (fun hm => hp ((isPrefixOf_iff _ _).2 ((mem_qualityPrefixes _ _).1 hm).1)), sumP_nil]

section QGlobal
variable {b : Nat}

theorem QG.hasStrongFor {Q : Tally} (h : QG t inp H Q) (g : GCtx t H inp b) (k : Chain) (hk : 2 ≤ k.length) :
    Q.hasStrongFor k = strongQ t (sumP t (qfilter inp Q.senders k)) := by
  have hc := h.cand k hk
  unfold candPower at hc
  unfold Tally.hasStrongFor
  cases hf : Q.findSupport k with
  | none =>
    rw [hf] at hc
    simp only [Option.getD_none] at hc
    rw [← hc]
    have := g.pos
    exact (strongQ_false_of t 0 (by omega)).symm
  | some e =>
    rw [hf] at hc
    simp only [Option.getD_some] at hc
    show e.strong = _
    rw [h.strongOk k e hf, hc]

/-- a quorum seen in a QUALITY tally is a quorum of input power -/
theorem QG.strong_imp_sq {Q : Tally} (h : QG t inp H Q) (g : GCtx t H inp b) (k : Chain) (hk : 2 ≤ k.length)
    (hs : Q.hasStrongFor k = true) : SQ t H inp k = true := by
  rw [h.hasStrongFor g k hk] at hs
  unfold SQ supp
  refine strongQ_mono t ?_ hs
  unfold qfilter
  exact sumP_filter_mono t _ _ _ _ h.nodup (fun x hx hp => ⟨h.sub x hx, hp⟩)

/-- with every QUALITY vote in, the tally shows exactly the quorums of input power -/
theorem QG.all {Q : Tally} (h : QG t inp H Q) (g : GCtx t H inp b) (hall : ∀ x ∈ H, x ∈ Q.senders) (k : Chain)
    (hk : 2 ≤ k.length) : Q.hasStrongFor k = SQ t H inp k := by
  rw [h.hasStrongFor g k hk]
  unfold SQ supp qfilter
  congr 1
  apply sumP_eq_of_same t _ _ (h.nodup.filter _) (g.nodup.filter _)
  · intro x hx
    rw [List.mem_filter] at hx ⊢
    exact ⟨h.sub x hx.1, hx.2⟩
  · intro x hx
    rw [List.mem_filter] at hx ⊢
    exact ⟨hall x hx.1, hx.2⟩

/-- QUALITY ended by a quorum for the own input: the proposal is the input, which is `propOf` -/
theorem QG.lpq_found {Q : Tally} (h : QG t inp H Q) (g : GCtx t H inp b) {p : Pid} (hp : p ∈ H)
    (hs : Q.hasStrongFor (inp p) = true) : Q.longestPrefixWithQuorum (inp p) = propOf t H inp p := by
  rw [lpq_eq_lpOf, lpOf_self _ _ hs]
  unfold propOf
  by_cases hl : 2 ≤ (inp p).length
  · rw [lpOf_self _ _ (h.strong_imp_sq g _ hl hs)]
  · obtain ⟨j, hj, he⟩ := lpOf_take (SQ t H inp) (inp p) (g.inp_ne hp)
    rw [he, List.take_of_length_le (by omega)]

/-- QUALITY ended by the timer with every vote in: the proposal is `propOf` -/
theorem QG.lpq_all {Q : Tally} (h : QG t inp H Q) (g : GCtx t H inp b) {p : Pid} (hp : p ∈ H)
    (hall : ∀ x ∈ H, x ∈ Q.senders) : Q.longestPrefixWithQuorum (inp p) = propOf t H inp p := by
  rw [lpq_eq_lpOf]
  unfold propOf
  exact lpOf_congr _ _ _ (g.inp_ne hp) (fun k _ hk => h.all g hall k hk)

end QGlobal

end F3.SyncGeneral
