import F3.Proofs.RestartWire
import F3.Proofs.BridgeEx
/-!
# The hypotheses of the restart theorems are satisfiable: a network in which the filter drops a request

Four members of equal power, all honest.  Member 1 starts, sends QUALITY `[7,8]`, hears QUALITY `[7,8]` from a strong
quorum and publishes PREPARE(0, `[7,8]`) — then crashes.  Its second incarnation is rebuilt from scratch, asks for
QUALITY `[7,8]` again (a repeat: passes the filter), hears no QUALITY before the timeout and therefore *requests
PREPARE(0, `[7]`)* for the base chain — a second value for a slot already taken: the filter drops it.  It then hears
the PREPAREs for `[7,8]` of members 1 (its own first incarnation), 2 and 3, finds that its proposal `[7]` cannot reach
a quorum and publishes COMMIT(0, ⊥) — a COMMIT ⊥ whose own PREPARE never reached the wire, the case rule
`commit_bottom` of `RulesR` is weakened for.  Members 2, 3, 4 commit `[7,8]`; everybody decides `[7,8]`.
-/
namespace F3.Restart
open F3 F3.Instance F3.Bridge

section Example

def rTbl : Table := { entries := [(1, 1), (2, 1), (3, 1), (4, 1)] }
def rCfg : Cfg := { maxLookahead := 2, rebImmediateAfter := 3, timeout2 := [100], qualityTimeout2 := 100, rebAfter := [50] }
/-- PREPARE quorum for `[7,8]` by members 1, 2, 3 -/
def rJp : Just := { round := 0, phase := .prepare, value := [7,8], signers := [0,1,2] }
/-- COMMIT quorum for `[7,8]` by members 2, 3, 4 -/
def rJc : Just := { round := 0, phase := .commit, value := [7,8], signers := [1,2,3] }

/-- the votes in existence; member 1's are what its two incarnations published, in order -/
def rVotes : List Vote :=
  [(1,0,.quality,[7,8]), (1,0,.prepare,[7,8]), (1,0,.quality,[7,8]), (1,0,.commit,[]), (1,0,.decide,[7,8]),
   (2,0,.quality,[7,8]), (2,0,.prepare,[7,8]), (2,0,.commit,[7,8]), (2,0,.decide,[7,8]),
   (3,0,.quality,[7,8]), (3,0,.prepare,[7,8]), (3,0,.commit,[7,8]), (3,0,.decide,[7,8]),
   (4,0,.quality,[7,8]), (4,0,.prepare,[7,8]), (4,0,.commit,[7,8]), (4,0,.decide,[7,8])]

abbrev rW : Votes := Wof rVotes

/-- member 1, first incarnation: crashes after publishing PREPARE(0, `[7,8]`) -/
def rOps1a : List Op :=
  [.start 0,
   .recv 1 { sender := 1, round := 0, phase := .quality, value := [7,8] },
   .recv 2 { sender := 2, round := 0, phase := .quality, value := [7,8] },
   .recv 3 { sender := 3, round := 0, phase := .quality, value := [7,8] }]

/-- member 1, second incarnation -/
def rOps1b : List Op :=
  [.start 200,
   .alarm 300,
   .recv 301 { sender := 1, round := 0, phase := .prepare, value := [7,8] },
   .recv 302 { sender := 2, round := 0, phase := .prepare, value := [7,8] },
   .recv 303 { sender := 3, round := 0, phase := .prepare, value := [7,8] },
   .recv 304 { sender := 1, round := 0, phase := .commit, value := [] },
   .recv 305 { sender := 2, round := 0, phase := .commit, value := [7,8], just := some rJp },
   .recv 306 { sender := 3, round := 0, phase := .commit, value := [7,8], just := some rJp },
   .recv 307 { sender := 4, round := 0, phase := .commit, value := [7,8], just := some rJp },
   .recv 308 { sender := 2, round := 0, phase := .decide, value := [7,8], just := some rJc },
   .recv 309 { sender := 3, round := 0, phase := .decide, value := [7,8], just := some rJc },
   .recv 310 { sender := 4, round := 0, phase := .decide, value := [7,8], just := some rJc }]

/-- members 2, 3 and 4 (they happen to see the same delivery order) -/
def rOpsO : List Op :=
  [.start 0,
   .recv 1 { sender := 1, round := 0, phase := .quality, value := [7,8] },
   .recv 2 { sender := 2, round := 0, phase := .quality, value := [7,8] },
   .recv 3 { sender := 3, round := 0, phase := .quality, value := [7,8] },
   .recv 4 { sender := 4, round := 0, phase := .quality, value := [7,8] },
   .recv 11 { sender := 1, round := 0, phase := .prepare, value := [7,8] },
   .recv 12 { sender := 2, round := 0, phase := .prepare, value := [7,8] },
   .recv 13 { sender := 3, round := 0, phase := .prepare, value := [7,8] },
   .recv 14 { sender := 4, round := 0, phase := .prepare, value := [7,8] },
   .recv 15 { sender := 1, round := 0, phase := .commit, value := [] },
   .recv 16 { sender := 2, round := 0, phase := .commit, value := [7,8], just := some rJp },
   .recv 17 { sender := 3, round := 0, phase := .commit, value := [7,8], just := some rJp },
   .recv 18 { sender := 4, round := 0, phase := .commit, value := [7,8], just := some rJp },
   .recv 19 { sender := 2, round := 0, phase := .decide, value := [7,8], just := some rJc },
   .recv 20 { sender := 3, round := 0, phase := .decide, value := [7,8], just := some rJc },
   .recv 21 { sender := 1, round := 0, phase := .decide, value := [7,8], just := some rJc }]

/-- an incarnation with input `[7,8]` over `ops`, every hypothesis checked by evaluation -/
def rSeg (ops : List Op) (hv : ops.all (fun op => foreign op || opValidB rVotes rTbl op) = true)
    (hok : okRun (init rCfg rTbl [7, 8]) ops = true) : Segment rW rTbl where
  cfg := rCfg
  input := [7, 8]
  ops := ops
  inputNe := by decide
  valid := opValidB_sound rVotes rTbl ops hv
  ok := hok

def rSeg1a : Segment rW rTbl := rSeg rOps1a (by decide) (by decide)
def rSeg1b : Segment rW rTbl := rSeg rOps1b (by decide) (by decide)
def rSegO : Segment rW rTbl := rSeg rOpsO (by decide) (by decide)

/-- what the two incarnations of member 1 asked to broadcast -/
theorem rReq1 :
    requests rSeg1a.effs = [(0, .quality, [7,8]), (0, .prepare, [7,8])] ∧
    requests rSeg1b.effs = [(0, .quality, [7,8]), (0, .prepare, [7]), (0, .commit, []), (0, .decide, [7,8])] := by
  constructor <;> decide

/-- … and what passed the filter: PREPARE(0, `[7]`) of the second incarnation did not -/
theorem rPub1 : published [requests rSeg1a.effs, requests rSeg1b.effs] =
    [(0, .quality, [7,8]), (0, .prepare, [7,8]), (0, .quality, [7,8]), (0, .commit, []), (0, .decide, [7,8])] := by
  rw [rReq1.1, rReq1.2]; decide

theorem rReqO : requests rSegO.effs =
    [(0, .quality, [7,8]), (0, .prepare, [7,8]), (0, .commit, [7,8]), (0, .decide, [7,8])] := by decide

/-- member 1: two incarnations, the wire is the first-value-wins scan of their requests -/
def rRun1 : RestartingRun rW rTbl 1 :=
  RestartingRun.ofPublished 1 [rSeg1a, rSeg1b] (by
    intro r ph v
    show Wof rVotes 1 r ph v ↔ (r, ph, v) ∈ published [requests rSeg1a.effs, requests rSeg1b.effs]
    rw [votesOf_iff, rPub1]
    have : votesOf rVotes 1 =
        [(0, .quality, [7,8]), (0, .prepare, [7,8]), (0, .quality, [7,8]), (0, .commit, []), (0, .decide, [7,8])] := by
      decide
    rw [this])

/-- members 2, 3, 4: one incarnation -/
def rRunO (p : Pid) (hp : p = 2 ∨ p = 3 ∨ p = 4) : RestartingRun rW rTbl p :=
  RestartingRun.ofPublished p [rSegO] (by
    intro r ph v
    show Wof rVotes p r ph v ↔ (r, ph, v) ∈ published [requests rSegO.effs]
    rw [votesOf_iff, rReqO]
    have : votesOf rVotes p = published [[(0, .quality, [7,8]), (0, .prepare, [7,8]), (0, .commit, [7,8]), (0, .decide, [7,8])]] := by
      rcases hp with rfl | rfl | rfl <;> decide
    rw [this])

theorem r_ids : (ids rTbl).toFinset = {1, 2, 3, 4} := by decide

def rNet : NetworkR rTbl ∅ rW where
  base :=
    { idsNodup := by decide
      totalPos := by decide
      faultBound := by
        rw [total_eq rTbl ∅ rW (by decide)]
        show 3 * (∑ p ∈ (∅ : Finset Pid), rTbl.power p) < rTbl.total
        rw [Finset.sum_empty]
        decide
      nonMembers := by
        intro p hp r ph v hw
        rw [r_ids] at hp
        have hm : ∀ e ∈ rVotes, e.1 = 1 ∨ e.1 = 2 ∨ e.1 = 3 ∨ e.1 = 4 := by decide
        have := hm _ hw
        simp only [Finset.mem_insert, Finset.mem_singleton] at hp
        exact hp this }
  runs := fun p hp _ =>
    if h1 : p = 1 then h1 ▸ rRun1
    else rRunO p (by
      rw [r_ids] at hp
      simp only [Finset.mem_insert, Finset.mem_singleton] at hp
      rcases hp with h | h | h | h
      · exact absurd h h1
      · exact Or.inl h
      · exact Or.inr (Or.inl h)
      · exact Or.inr (Or.inr h))

theorem rNet_runs1 : (rNet.runs 1 (by decide) (by simp)).segs = [rSeg1a, rSeg1b] := rfl
theorem rNet_runs2 : (rNet.runs 2 (by decide) (by simp)).segs = [rSegO] := rfl

/-- In the example network the second incarnation of member 1 requested PREPARE(0, `[7]`), the filter dropped it
(member 1's only PREPARE in existence is the first incarnation's, for `[7,8]`), it published COMMIT(0, ⊥), and both
it and member 2 report the decision `[7,8]`. -/
theorem r_network_decides :
    rSeg1b.requested 0 .prepare [7] ∧ ¬ rW 1 0 .prepare [7] ∧ rW 1 0 .prepare [7, 8] ∧ rW 1 0 .commit [] ∧
    rSeg1a.final.termination = none ∧
    (∃ d, rSeg1b.final.termination = some d ∧ d.value = [7, 8]) ∧
    (∃ d, rSegO.final.termination = some d ∧ d.value = [7, 8]) := by
  refine ⟨?_, ?_, ?_, ?_, ?_, ?_, ?_⟩
  · rw [requested_iff, rReq1.2]; decide
  · show ¬ _ ∈ rVotes; decide
  · show _ ∈ rVotes; decide
  · show _ ∈ rVotes; decide
  · decide
  · exact ⟨{ round := 0, phase := .decide, value := [7, 8], signers := [1, 2, 3] }, by decide, rfl⟩
  · exact ⟨{ round := 0, phase := .decide, value := [7, 8], signers := [0, 1, 2] }, by decide, rfl⟩

/-- the same wire comes out of the C12 node model run on the crash-free history of the two incarnations
(signature of a vote := an injective code of its value) -/
theorem r_wire_is_c12 (sig : Req → Nat) (hsig : ∀ r ph x y, sig (r, ph, x) = sig (r, ph, y) → x = y) :
    Equiv.RunOk (fun x => x == 1) (Equiv.Sys.init 0)
      (history 5 1 sig [requests rSeg1a.effs, requests rSeg1b.effs]) ∧
    (Equiv.run (Equiv.Sys.init 0) (history 5 1 sig [requests rSeg1a.effs, requests rSeg1b.effs])).wire =
      [(0, .quality, [7,8]), (0, .prepare, [7,8]), (0, .quality, [7,8]), (0, .commit, []), (0, .decide, [7,8])].map
        (toMsg 5 1 sig) := by
  rw [← rPub1]
  exact wire_history 1 0 5 sig hsig _

/-- **The weakening is necessary**: the example network violates rule `commit_bottom` of the original rule set —
member 1 has COMMIT(0, ⊥) on the wire, its only PREPARE on the wire is for `[7,8]`, and no PREPARE for another value
exists at all (the dissenting PREPARE was its own, dropped by the filter). -/
theorem r_original_rules_fail : ¬ (world rTbl ∅ rW).Rules := by
  intro R
  obtain ⟨y, hy, s, z, hne, hz, _⟩ := R.commit_bottom 1 (by simp [world]) 0 (by show _ ∈ rVotes; decide)
  have hall : ∀ e ∈ rVotes, e.2.2.1 = Instance.Phase.prepare → e.2.2.2 = [7, 8] := by decide
  have h1 : y = [7, 8] := hall _ hy rfl
  have h2 : z = [7, 8] := hall _ hz rfl
  exact hne (h2.trans h1.symm)

end Example
end F3.Restart
