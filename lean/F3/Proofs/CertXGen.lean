import F3.Model.CertX
import F3.Proofs.GenTie
import F3.Gen.CertX
/-! Helper lemmas for `C16.serve_is_regenerated`: each regenerated piece of `handleRequest`
(`F3.Gen.CertX`, over `Int` with explicit wrap) equals the corresponding expression of the hand model. -/
namespace F3.Proofs.CertXGen
open F3.Certs F3.CertX F3.Proofs.GenTie

theorem serveLimit_eq (l : Nat) : F3.Gen.CertX.serveLimit (l : Int) = ((min l maxResponseLen : Nat) : Int) := by
  unfold F3.Gen.CertX.serveLimit maxResponseLen
  simp only [decide_eq_true_eq]
  split <;> omega

theorem servePending_eq (s : Store) (h : ∀ l, s.latest? = some l → l < 2 ^ 64) :
    F3.Gen.CertX.servePending ((s.latest?.getD 0 : Nat) : Int) s.latest?.isSome 0 = (s.pending : Int) := by
  unfold F3.Gen.CertX.servePending Store.pending
  cases hl : s.latest? with
  | none => simp
  | some l =>
    have := h l hl
    simp only [Option.isSome_some, if_true, Option.getD_some]
    unfold F3.GoInt.u64 F3.Certs.u64
    omega

theorem servePowerTableGuard_eq (first pending : Nat) (b : Bool) :
    F3.Gen.CertX.servePowerTableGuard first b pending = (decide (first ≤ pending) && b) := by
  unfold F3.Gen.CertX.servePowerTableGuard
  congr 1
  simp only [decide_eq_decide]; omega

theorem serveCertsGuard_eq (first pending limit : Nat) :
    F3.Gen.CertX.serveCertsGuard limit first pending = (decide (first < pending) && decide (0 < limit)) := by
  unfold F3.Gen.CertX.serveCertsGuard
  congr 1 <;> (simp only [decide_eq_decide]; omega)

theorem serveEnd_eq (first pending limit : Nat) (hf : first < 2 ^ 64) (hp : pending < 2 ^ 64) (hl : limit < 2 ^ 64)
    (h1 : first < pending) (h2 : 0 < limit) :
    F3.Gen.CertX.serveEnd limit first pending = ((serveEnd first limit pending : Nat) : Int) := by
  unfold F3.Gen.CertX.serveEnd serveEnd
  simp only [Bool.or_eq_true, decide_eq_true_eq]
  split <;> split <;> simp only [F3.GoInt.u64, F3.Certs.u64] at * <;> omega

end F3.Proofs.CertXGen
