import F3.Proofs.SyncNode
import F3.Proofs.RoundDecides
/-!
# Tallies of a round in which every vote is for one value (any round; helper lemmas for `round_r_decides`)

`UTally t c H T`: the exact shape of a PREPARE / COMMIT / DECIDE tally all of whose votes are for the one chain `c` and
come from members of `H` — `F3.Sync.UT` without the clause on the stored justifications (which hard-codes round 0 and
which the round-`r` proof does not need). The lemmas are those of `F3/Proofs/SyncTally.lean`.

Second part: the node-level COMMIT and DECIDE stages of any round from the run-level tally invariant `TallyWF`
(`strong_value_of_unanimous`, `round_commit_stage`, `round_decide_stage`).
-/
namespace F3.Liveness
open F3.Instance F3.Sync

structure UTally (t : Table) (c : Chain) (H : List Pid) (T : Tally) : Prop where
  nodup : T.senders.Nodup
  sub : ∀ x ∈ T.senders, x ∈ H
  pow : T.sendersPower = sumP t T.senders
  sup : T.support = if T.senders = [] then [] else [uEntry t c T.senders]

variable {t : Table} {c : Chain} {H : List Pid}

theorem UTally.findSupport {T : Tally} (h : UTally t c H T) :
    T.findSupport c = if T.senders = [] then none else some (uEntry t c T.senders) := by
  unfold Tally.findSupport
  rw [h.sup]
  split
  · rfl
  · simp [uEntry]

theorem UTally.hasStrongFor {T : Tally} (h : UTally t c H T) :
    T.hasStrongFor c = (decide (T.senders ≠ []) && strongQ t (sumP t T.senders)) := by
  unfold Tally.hasStrongFor
  rw [h.findSupport]
  by_cases he : T.senders = []
  · simp [he]
  · simp [he, uEntry]

theorem UTally.senders_ne_of_strong {T : Tally} (h : UTally t c H T) (hs : T.hasStrongFor c = true) : T.senders ≠ [] := by
  rw [h.hasStrongFor] at hs
  simp only [Bool.and_eq_true, decide_eq_true_eq] at hs
  exact hs.1

/-- a new vote for `c` -/
theorem UTally.receive_new {T : Tally} (h : UTally t c H T) (x : Pid) (hx : x ∈ H) (hn : x ∉ T.senders) :
    ∃ T', T.receive t x c = some T' ∧ UTally t c H T' ∧ T'.senders = T.senders ++ [x] ∧ T'.justs = T.justs := by
  have hc : T.senders.contains x = false := by simpa using hn
  unfold Tally.receive
  simp only [hc, Bool.false_eq_true, if_false]
  unfold Tally.receiveInner
  dsimp only
  have hfs : Tally.findSupport ({ T with senders := T.senders ++ [x], sendersPower := T.sendersPower + t.power x } : Tally) c = T.findSupport c := rfl
  rw [hfs, h.findSupport]
  by_cases he : T.senders = []
  · simp only [he, if_true, Option.getD_none, List.contains_nil, Bool.and_false, Bool.false_eq_true, if_false,
      List.nil_append]
    refine ⟨_, rfl, ⟨?_, ?_, ?_, ?_⟩, rfl, rfl⟩
    · simp
    · intro y hy; simp at hy; subst hy; exact hx
    · show T.sendersPower + t.power x = sumP t [x]
      rw [h.pow, he, sumP_single, sumP_nil]; omega
    · show upsertSupport T.support _ = _
      rw [h.sup]
      simp [he, upsertSupport, uEntry, sumP_single]
  · have hcs : (T.senders.contains x) = false := hc
    simp only [he, if_false, Option.getD_some, uEntry, hcs, Bool.and_false, Bool.false_eq_true, if_true]
    refine ⟨_, rfl, ⟨?_, ?_, ?_, ?_⟩, rfl, rfl⟩
    · show (T.senders ++ [x]).Nodup
      rw [List.nodup_append]
      exact ⟨h.nodup, by simp, fun a ha b hb => by simp at hb; subst hb; intro e; subst e; exact hn ha⟩
    · intro y hy
      have hy' : y ∈ T.senders ++ [x] := hy
      simp only [List.mem_append, List.mem_singleton] at hy'
      rcases hy' with hy' | rfl
      · exact h.sub y hy'
      · exact hx
    · show T.sendersPower + t.power x = sumP t (T.senders ++ [x])
      rw [h.pow, sumP_append, sumP_single]
    · show upsertSupport T.support _ = _
      rw [h.sup]
      have hne : T.senders ++ [x] ≠ [] := by simp
      simp only [he, if_false, hne, upsertSupport, uEntry, beq_self_eq_true, if_true, sumP_append, sumP_single]

theorem UTally.receive_old {T : Tally} (x : Pid) (hn : x ∈ T.senders) : T.receive t x c = some T := by
  have hc : T.senders.contains x = true := by simpa using hn
  unfold Tally.receive
  rw [if_pos hc]

/-- any vote for `c` by a member of `H` -/
theorem UTally.receive {T : Tally} (h : UTally t c H T) (x : Pid) (hx : x ∈ H) :
    ∃ T', T.receive t x c = some T' ∧ UTally t c H T' ∧ x ∈ T'.senders ∧ (∀ y ∈ T.senders, y ∈ T'.senders) ∧
      (∀ y ∈ T'.senders, y ∈ T.senders ∨ y = x) ∧ T'.justs = T.justs := by
  by_cases hn : x ∈ T.senders
  · exact ⟨T, UTally.receive_old x hn, h, hn, fun _ hy => hy, fun _ hy => Or.inl hy, rfl⟩
  · obtain ⟨T', h1, h2, h3, h4⟩ := h.receive_new x hx hn
    refine ⟨T', h1, h2, by simp [h3], fun y hy => by simp [h3, hy], fun y hy => ?_, h4⟩
    rw [h3] at hy
    simpa using hy


theorem UTally.fsqv {T : Tally} (h : UTally t c H T) :
    T.findStrongQuorumValue = if T.hasStrongFor c = true then .one c else .none := by
  unfold Tally.findStrongQuorumValue
  rw [h.hasStrongFor, h.sup]
  by_cases he : T.senders = []
  · simp [he]
  · by_cases hs : strongQ t (sumP t T.senders) = true
    · simp [he, hs, uEntry]
    · simp [he, hs, uEntry]


theorem UTally.couldReach {T : Tally} (h : UTally t c H T) : T.couldReach t c false = true := by
  unfold Tally.couldReach
  rw [h.findSupport, h.pow]
  unfold Spec.Quorum.couldReach Spec.Quorum.strong
  by_cases he : T.senders = []
  · simp only [he, if_true, sumP_nil]
    simp only [Bool.false_eq_true, if_false, decide_eq_true_eq]
    omega
  · simp only [he, if_false, uEntry]
    simp only [Bool.false_eq_true, if_false, decide_eq_true_eq]
    omega

/-- everybody in `H` has voted ⇒ strong quorum -/
theorem UTally.strong_of_all {T : Tally} (h : UTally t c H T) (hctx : Ctx t c H) (hne : H ≠ [])
    (hall : ∀ x ∈ H, x ∈ T.senders) : T.hasStrongFor c = true := by
  rw [h.hasStrongFor]
  have h1 : T.senders ≠ [] := by
    intro he
    cases H with
    | nil => exact hne rfl
    | cons a as => have := hall a List.mem_cons_self; rw [he] at this; cases this
  have h2 : sumP t H ≤ sumP t T.senders := sumP_le_of_subset t H T.senders hctx.nodup hall
  simp [h1, strongQ_mono t h2 hctx.strong]


theorem UTally.fsqf {T : Tally} (h : UTally t c H T) (hctx : Ctx t c H) (hs : T.hasStrongFor c = true) :
    ∃ sg, T.findStrongQuorumFor t c = .found sg := by
  have hne := h.senders_ne_of_strong hs
  rw [h.hasStrongFor] at hs
  simp only [Bool.and_eq_true, decide_eq_true_eq] at hs
  unfold Tally.findStrongQuorumFor
  rw [h.findSupport]
  simp only [hne, if_false, uEntry, hs.2, Bool.not_true, Bool.false_eq_true]
  obtain ⟨r, hr, hlen⟩ := mapM_some t.index? T.senders (fun x hx => hctx.inTbl x (h.sub x hx))
  rw [hr]
  dsimp only
  have hrne : sortNat r ≠ [] := by
    intro he
    cases hS : T.senders with
    | nil => exact hne hS
    | cons a as =>
      rw [hS] at hlen
      cases r with
      | nil => simp at hlen
      | cons b bs =>
        have : b ∈ sortNat (b :: bs) := (sortNat_mem _ _).2 List.mem_cons_self
        rw [he] at this; cases this
  have hst : strongQ t (0 + sumPow t (sortNat r)) = true := by
    rw [Nat.zero_add, sumPow_sortNat, sumPow_mapM t _ _ hr]; exact hs.2
  obtain ⟨sg, hsg⟩ := takeUntilStrong_some t (sortNat r) 0 [] hrne hst
  rw [hsg]
  exact ⟨sg, rfl⟩


theorem UTally_empty : UTally t c H {} := ⟨by simp, by simp, rfl, by simp⟩

theorem strongQ_zero (t : Table) (hpos : 0 < t.total) : strongQ t 0 = false := by
  unfold strongQ Spec.Quorum.strong
  simp only [decide_eq_false_iff_not]
  omega

/-- with positive total power, a strong quorum of *senders* of a one-value tally is a strong quorum for the value -/
theorem UTally.strong_of_fromStrong {T : Tally} (h : UTally t c H T) (hpos : 0 < t.total)
    (hs : T.fromStrong t = true) : T.hasStrongFor c = true := by
  rw [h.hasStrongFor]
  unfold Tally.fromStrong at hs
  rw [h.pow] at hs
  have hne : T.senders ≠ [] := by
    intro he
    rw [he, sumP_nil, strongQ_zero t hpos] at hs
    cases hs
  simp [hne, hs]

/-! ## node level, from the run-level tally invariant `TallyWF` -/

theorem filter_unique {l : List Support} (hnd : (l.map (·.chain)).Nodup) (p : Support → Bool) (a : Support)
    (ha : a ∈ l) (hpa : p a = true) (hu : ∀ b ∈ l, p b = true → b = a) : l.filter p = [a] := by
  induction l with
  | nil => cases ha
  | cons x xs ih =>
    simp only [List.map_cons, List.nodup_cons] at hnd
    by_cases hxa : x = a
    · subst hxa
      have hrest : xs.filter p = [] := by
        rw [List.filter_eq_nil_iff]
        intro b hb hpb
        have := hu b (List.mem_cons_of_mem _ hb) hpb
        subst this
        exact hnd.1 (List.mem_map.2 ⟨_, hb, rfl⟩)
      rw [List.filter_cons, if_pos hpa, hrest]
    · have ha' : a ∈ xs := by
        rcases List.mem_cons.1 ha with h | h
        · exact absurd h.symm hxa
        · exact h
      have hx : p x = false := by
        cases hpx : p x
        · rfl
        · exact absurd (hu x List.mem_cons_self hpx) hxa
      rw [List.filter_cons, if_neg (by simp [hx])]
      exact ih hnd.2 ha' (fun b hb => hu b (List.mem_cons_of_mem _ hb))

/-- the strong entry of a tally that has heard a whole strong quorum `H`, every heard vote being for `v` -/
theorem unanimous_entry {V : Pid → Chain → Prop} {t : Table} {q : Tally} (hwf : TallyWF V t q) (v : Chain)
    (H : List Pid) (hne : H ≠ []) (hnd : H.Nodup) (hq : strongQ t (sumP t H) = true)
    (hall : ∀ x ∈ H, x ∈ q.senders) (huni : ∀ x c, x ∈ q.senders → V x c → c = v) :
    ∃ sup ∈ q.support, sup.chain = v ∧ sup.strong = true ∧ q.findSupport v = some sup := by
  obtain ⟨x0, hx0⟩ := List.exists_mem_of_ne_nil H hne
  obtain ⟨sup, hsup, hx0s⟩ := hwf.covered x0 (hall x0 hx0)
  have hchain : sup.chain = v := huni x0 sup.chain (hall x0 hx0) (hwf.voted sup hsup x0 hx0s)
  have hsub : ∀ y ∈ H, y ∈ sup.signers := by
    intro y hy
    obtain ⟨sup', hsup', hys⟩ := hwf.covered y (hall y hy)
    have hc' : sup'.chain = v := huni y sup'.chain (hall y hy) (hwf.voted sup' hsup' y hys)
    have : sup' = sup := sup_eq_of_nodup hwf.chains hsup' hsup (hc'.trans hchain.symm)
    rw [this] at hys; exact hys
  have hpow : sumP t H ≤ sup.power := by
    rw [hwf.supPow sup hsup]; exact sumP_le_of_subset t H sup.signers hnd hsub
  have hstrong : sup.strong = true := by
    rw [hwf.strongOk sup hsup]; exact strongQ_mono' t hpow hq
  refine ⟨sup, hsup, hchain, hstrong, ?_⟩
  unfold Tally.findSupport
  rw [← hchain]; exact find_sup_of_nodup hwf.chains hsup

/-- **`findStrongQuorumValue = .one v` from `TallyWF` and unanimity** (total power positive: an entry without signers
has power 0 and is not strong). -/
theorem strong_value_of_unanimous {V : Pid → Chain → Prop} {t : Table} {q : Tally} (hwf : TallyWF V t q) (v : Chain)
    (hpos : 0 < t.total) (H : List Pid) (hne : H ≠ []) (hnd : H.Nodup) (hq : strongQ t (sumP t H) = true)
    (hall : ∀ x ∈ H, x ∈ q.senders) (huni : ∀ x c, x ∈ q.senders → V x c → c = v) :
    q.findStrongQuorumValue = .one v := by
  obtain ⟨sup, hsup, hchain, hstrong, _⟩ := unanimous_entry hwf v H hne hnd hq hall huni
  have hu : ∀ b ∈ q.support, b.strong = true → b = sup := by
    intro b hb hbs
    cases hsg : b.signers with
    | nil =>
      have hp := hwf.supPow b hb
      rw [hsg, sumP_nil] at hp
      rw [hwf.strongOk b hb, hp, strongQ_zero t hpos] at hbs
      cases hbs
    | cons y ys =>
      have hy : y ∈ b.signers := by rw [hsg]; exact List.mem_cons_self
      have hbc : b.chain = v := huni y b.chain (hwf.sub b hb y hy) (hwf.voted b hb y hy)
      exact sup_eq_of_nodup hwf.chains hb hsup (hbc.trans hchain.symm)
  unfold Tally.findStrongQuorumValue
  rw [filter_unique hwf.chains (·.strong) sup hsup hstrong hu]
  show SQV.one sup.chain = _
  rw [hchain]

theorem index_of_power_pos (t : Table) (x : Pid) (h : 0 < t.power x) : ∃ i, t.index? x = some i := by
  unfold Table.index?
  cases hf : t.entries.findIdx? (fun e => e.1 == x) with
  | some i => exact ⟨i, rfl⟩
  | none =>
    exfalso
    rw [List.findIdx?_eq_none_iff] at hf
    unfold Table.power at h
    cases hfd : t.entries.find? (fun e => e.1 == x) with
    | none => rw [hfd] at h; simp at h
    | some e =>
      have := hf e (List.mem_of_find?_eq_some hfd)
      have h2 := List.find?_some hfd
      rw [h2] at this
      cases this

/-- `FindStrongQuorumFor` succeeds on the strong entry of a well-formed tally -/
theorem TallyWF_fsqf {V : Pid → Chain → Prop} {t : Table} {q : Tally} (hwf : TallyWF V t q) (v : Chain) (sup : Support)
    (hsup : sup ∈ q.support) (hfind : q.findSupport v = some sup) (hstrong : sup.strong = true) (hpos : 0 < t.total) :
    ∃ sg, q.findStrongQuorumFor t v = .found sg := by
  unfold Tally.findStrongQuorumFor
  rw [hfind]
  simp only [hstrong, Bool.not_true, Bool.false_eq_true, if_false]
  obtain ⟨r, hr, hlen⟩ := mapM_some t.index? sup.signers
    (fun x hx => index_of_power_pos t x (hwf.pos x (hwf.sub sup hsup x hx)))
  rw [hr]
  dsimp only
  have hpw : strongQ t (sumP t sup.signers) = true := by
    rw [← hwf.supPow sup hsup, ← hwf.strongOk sup hsup]; exact hstrong
  have hsne : sup.signers ≠ [] := by
    intro he
    rw [he, sumP_nil, strongQ_zero t hpos] at hpw
    cases hpw
  have hrne : sortNat r ≠ [] := by
    intro he
    cases hS : sup.signers with
    | nil => exact hsne hS
    | cons a as =>
      rw [hS] at hlen
      cases r with
      | nil => simp at hlen
      | cons b bs =>
        have : b ∈ sortNat (b :: bs) := (sortNat_mem _ _).2 List.mem_cons_self
        rw [he] at this; cases this
  have hst : strongQ t (0 + sumPow t (sortNat r)) = true := by
    rw [Nat.zero_add, sumPow_sortNat, sumPow_mapM t _ _ hr]; exact hpw
  obtain ⟨sg, hsg⟩ := takeUntilStrong_some t (sortNat r) 0 [] hrne hst
  rw [hsg]
  exact ⟨sg, rfl⟩

/-- **Round `r`, COMMIT stage (node level).** A participant (in any phase before DECIDE — `tryCommit` is run on every
COMMIT delivery) whose COMMIT tally of round `s.round` satisfies the run-level tally invariant and has heard a whole
strong quorum `H`, every heard vote being for `v ≠ ⊥`, moves to DECIDE with value `v` and broadcasts DECIDE `v` justified
by COMMITs of that round; nothing fails. -/
theorem commit_stage_node (s : State) (now : Int) (V : Pid → Chain → Prop) (v : Chain) (H : List Pid) (hv : v ≠ [])
    (hpos : 0 < s.tbl.total) (hwf : TallyWF V s.tbl (s.getRound s.round).committed)
    (hne : H ≠ []) (hnd : H.Nodup) (hq : strongQ s.tbl (sumP s.tbl H) = true)
    (hall : ∀ x ∈ H, x ∈ (s.getRound s.round).committed.senders)
    (huni : ∀ x c, x ∈ (s.getRound s.round).committed.senders → V x c → c = v) :
    hasFailure (s.tryCommit now s.round).2 = false ∧
    (s.tryCommit now s.round).1.phase = .decide ∧ (s.tryCommit now s.round).1.value = v ∧
    (s.tryCommit now s.round).1.round = s.round ∧
    ∃ sg, Eff.broadcast 0 .decide v false (some { round := s.round, phase := .commit, value := v, signers := sg }) ∈
      (s.tryCommit now s.round).2 := by
  have hone := strong_value_of_unanimous hwf v hpos H hne hnd hq hall huni
  obtain ⟨sup, hsup, _, hstrong, hfind⟩ := unanimous_entry hwf v H hne hnd hq hall huni
  obtain ⟨sg, hsg⟩ := TallyWF_fsqf hwf v sup hsup hfind hstrong hpos
  rw [tryCommit_one s now s.round v (isEmpty_false_of_ne hv) hone]
  have hsg' : (State.getRound ({ s with value := v } : State) s.round).committed.findStrongQuorumFor
      ({ s with value := v } : State).tbl ({ s with value := v } : State).value = .found sg := hsg
  rw [beginDecide_eq _ s.round sg hsg']
  exact ⟨rfl, rfl, rfl, rfl, sg, by simp⟩

/-- **Round `r`, DECIDE stage (node level).** A participant in DECIDE whose DECIDE tally satisfies the run-level tally
invariant and has heard a whole strong quorum `H`, all for `v`, terminates with decision `v`; nothing fails. -/
theorem decide_stage_node (s : State) (now : Int) (V : Pid → Chain → Prop) (v : Chain) (H : List Pid)
    (hpos : 0 < s.tbl.total) (hwf : TallyWF V s.tbl s.decision)
    (hne : H ≠ []) (hnd : H.Nodup) (hq : strongQ s.tbl (sumP s.tbl H) = true)
    (hall : ∀ x ∈ H, x ∈ s.decision.senders)
    (huni : ∀ x c, x ∈ s.decision.senders → V x c → c = v) :
    hasFailure (s.tryDecide now).2 = false ∧ (s.tryDecide now).1.phase = .terminated ∧
    ∃ d, (s.tryDecide now).1.termination = some d ∧ d.value = v ∧ d.phase = .decide := by
  have hone := strong_value_of_unanimous hwf v hpos H hne hnd hq hall huni
  obtain ⟨sup, hsup, _, hstrong, hfind⟩ := unanimous_entry hwf v H hne hnd hq hall huni
  obtain ⟨sg, hsg⟩ := TallyWF_fsqf hwf v sup hsup hfind hstrong hpos
  rw [tryDecide_one s now v sg hone hsg]
  exact ⟨rfl, rfl, _, rfl, rfl, rfl⟩

end F3.Liveness
