import F3.Proofs.NoFailureBridge
import F3.Proofs.NoFailureParticipant
import F3.Proofs.ParticipantBridge
/-!
# Failure-freedom and the bridge to Layer A, participant API

`ValidRunP` is `HonestRunP` without the `ok` field (`okRunP`), which `F3.Instance.prun_ok` proves; the hypothesis
on delivered messages is `PMsgOK` (of this instance; validated unless the supplemental data differ).
-/
namespace F3.Bridge
open F3 F3.Instance

/-- one honest participant's execution at the participant API, without any assumption on reported errors -/
structure ValidRunP (W : Votes) (t : Table) (p : Pid) where
  cfg : Cfg
  input : Chain
  order : List Pid
  ops : List POp
  inputNe : input ≠ []
  /-- the participant hands the instance (and its pre-start queue) messages of this instance only, validated (C05)
  unless their supplemental data are not the instance's -/
  valid : ∀ op ∈ ops, POpP (PMsgOK W t) op
  own : ∀ r ph v, W p r ph v ↔ ∃ tk j, Eff.broadcast r ph v tk j ∈ (prun order (pinit cfg t input) ops).2

def ValidRunP.toHonest {W : Votes} {t : Table} {p : Pid} (vr : ValidRunP W t p) (hT : 0 < t.total) : HonestRunP W t p where
  cfg := vr.cfg
  input := vr.input
  order := vr.order
  ops := vr.ops
  inputNe := vr.inputNe
  valid := by
    intro op hop
    have := vr.valid op hop
    cases op with
    | recv now m => exact PMsgOK.foreign_or this
    | alarm _ => exact Or.inr trivial
  ok := prun_ok vr.cfg t vr.input W vr.order vr.ops vr.inputNe hT vr.valid
  own := vr.own

structure NetworkVP (t : Table) (F : Finset Pid) (W : Votes) where
  idsNodup : (ids t).Nodup
  totalPos : 0 < t.total
  faultBound : 3 * (world t F W).power F < (world t F W).T
  nonMembers : ∀ p, p ∉ (ids t).toFinset → ∀ r ph v, ¬ W p r ph v
  runs : ∀ p, p ∈ (ids t).toFinset → p ∉ F → ValidRunP W t p

def NetworkVP.toNetworkP {t : Table} {F : Finset Pid} {W : Votes} (N : NetworkVP t F W) : NetworkP t F W where
  idsNodup := N.idsNodup
  totalPos := N.totalPos
  faultBound := N.faultBound
  nonMembers := N.nonMembers
  runs := fun p hp hF => (N.runs p hp hF).toHonest N.totalPos

/-! ### the participant-level example network, without the `ok` fields -/

def pmsgOKB (votes : List Vote) (t : Table) : POp → Bool
  | .recv _ m => m.instOk && (!m.suppOk || msgValidB votes t m)
  | _ => true

theorem pmsgOKB_sound (votes : List Vote) (t : Table) (ops : List POp)
    (h : ops.all (pmsgOKB votes t) = true) : ∀ op ∈ ops, POpP (PMsgOK (Wof votes) t) op := by
  intro op hop
  have := List.all_eq_true.1 h op hop
  cases op with
  | recv now m =>
    simp only [pmsgOKB, Bool.and_eq_true, Bool.or_eq_true, Bool.not_eq_true'] at this
    exact ⟨this.1, this.2.imp id (msgValidB_sound votes t m)⟩
  | alarm _ => trivial

def exRunVP (p : Pid) (hp : p = 1 ∨ p = 2 ∨ p = 3) : ValidRunP exW exTbl p where
  cfg := exCfg
  input := [7, 8]
  order := exOrder
  ops := exPOps
  inputNe := by decide
  valid := pmsgOKB_sound exVotes exTbl exPOps (by decide)
  own := (exRunP p hp).own

def exNetVP : NetworkVP exTbl exF exW where
  idsNodup := exNet.idsNodup
  totalPos := exNet.totalPos
  faultBound := exNet.faultBound
  nonMembers := exNet.nonMembers
  runs := fun p hp hF => exRunVP p (by
    rw [ex_ids] at hp
    simp only [Finset.mem_insert, Finset.mem_singleton, exF] at hp hF
    rcases hp with h | h | h | h
    · exact Or.inl h
    · exact Or.inr (Or.inl h)
    · exact Or.inr (Or.inr h)
    · exact absurd h hF)

theorem ex_networkVP_decides :
    ∃ d, (prun (exNetVP.runs 1 (by decide) (by decide)).order
        (pinit (exNetVP.runs 1 (by decide) (by decide)).cfg exTbl (exNetVP.runs 1 (by decide) (by decide)).input)
        (exNetVP.runs 1 (by decide) (by decide)).ops).1.inst.termination = some d ∧ d.value = [7, 8] :=
  ⟨{ round := 0, phase := .decide, value := [7, 8], signers := [0, 1, 2] }, by decide, rfl⟩

end F3.Bridge
