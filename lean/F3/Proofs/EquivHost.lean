import F3.Model.EquivHost
import F3.Proofs.EquivSys
/-!
# The floor hypothesis of C12 discharged from the model of the caller

`HInv` is the invariant of `F3/Model/EquivHost.lean` that carries the argument: the purge epoch is at
least six below the instance the store expects next (`purged + 6 ≤ next`, or no purge yet), the
participant's instance and every outstanding builder are at or above the purge epoch as of the last
restart (`floor`).  From it, every `Model/Equiv.lean` history induced by a host history satisfies
`RunOk` (`runOk_trace`) under `HostOk` alone.  Core-only.
-/
namespace F3.EquivHost
open F3.Equiv

/-! ## `run` and `RunOk` over concatenation -/

theorem run_append (s : Sys) (a b : List Op) : run s (a ++ b) = run (run s a) b := by
  induction a generalizing s with
  | nil => rfl
  | cons op a ih => exact ih (step s op)

theorem runOk_append {own : Nat → Bool} {s : Sys} {a b : List Op} :
    RunOk own s (a ++ b) ↔ RunOk own s a ∧ RunOk own (run s a) b := by
  induction a generalizing s with
  | nil => exact ⟨fun h => ⟨trivial, h⟩, fun h => h.2⟩
  | cons op a ih =>
    show OpOk own s op ∧ RunOk own (step s op) (a ++ b) ↔ (OpOk own s op ∧ RunOk own (step s op) a) ∧ _
    rw [ih]
    exact ⟨fun ⟨h1, h2, h3⟩ => ⟨⟨h1, h2⟩, h3⟩, fun ⟨⟨h1, h2⟩, h3⟩ => ⟨h1, h2, h3⟩⟩

/-! ## What an operation of `Model/Equiv.lean` does to `floor` and `purged` -/

theorem step_broadcast_fp (s : Sys) (m : Msg) (c : Nat) :
    (step s (.broadcast m c)).floor = s.floor ∧ (step s (.broadcast m c)).purged = s.purged := by
  simp only [step]
  repeat' split
  all_goals exact ⟨rfl, rfl⟩

theorem step_rebroadcast_fp (s : Sys) (i r p : Nat) :
    (step s (.rebroadcast i r p)).floor = s.floor ∧ (step s (.rebroadcast i r p)).purged = s.purged := by
  simp only [step]
  repeat' split
  all_goals exact ⟨rfl, rfl⟩

theorem step_receive_fp (s : Sys) (p : Peer) (m : Msg) :
    (step s (.receive p m)).floor = s.floor ∧ (step s (.receive p m)).purged = s.purged := by
  simp only [step]
  repeat' split
  all_goals exact ⟨rfl, rfl⟩

theorem step_trim_fp (s : Sys) (c : Nat) :
    (step s (.trim c)).floor = s.floor ∧ (step s (.trim c)).purged = s.purged := by
  simp only [step]
  repeat' split
  all_goals exact ⟨rfl, rfl⟩

theorem step_stop_fp (s : Sys) :
    (step s .stop).floor = s.floor ∧ (step s .stop).purged = s.purged := ⟨rfl, rfl⟩

theorem step_restart_fp (s : Sys) :
    (step s .restart).floor = s.purged ∧ (step s .restart).purged = s.purged := ⟨rfl, rfl⟩

theorem step_purge_fp (s : Sys) (k : Nat) (keep : List Msg) :
    (step s (.purge k keep)).floor = s.floor ∧
    ((step s (.purge k keep)).purged = s.purged ∨ (step s (.purge k keep)).purged = max s.purged k) := by
  simp only [step]
  split
  · exact ⟨rfl, Or.inl rfl⟩
  · exact ⟨rfl, Or.inr rfl⟩


theorem run_one_fp (s : Sys) (op : Op) (hr : op ≠ .restart) (hp : ∀ k keep, op ≠ .purge k keep) :
    (step s op).floor = s.floor ∧ (step s op).purged = s.purged := by
  cases op with
  | broadcast m c => exact step_broadcast_fp s m c
  | rebroadcast i r p => exact step_rebroadcast_fp s i r p
  | receive p m => exact step_receive_fp s p m
  | restart => exact absurd rfl hr
  | stop => exact step_stop_fp s
  | purge k keep => exact absurd rfl (hp k keep)
  | trim c => exact step_trim_fp s c

/-! ## The invariant -/

structure HInv (s : HState) : Prop where
  /-- the participant is at or above the purge epoch as of the last restart -/
  floor_cur : s.sys.floor ≤ s.cur
  /-- so is every outstanding builder … -/
  out_ge : ∀ b ∈ s.out, s.sys.floor ≤ b.inst
  /-- … and none is ahead of the participant -/
  out_le : ∀ b ∈ s.out, b.inst ≤ s.cur
  /-- every purge was at `k - 5` for a stored certificate `k` -/
  purged_next : s.sys.purged = 0 ∨ s.sys.purged + 6 ≤ s.next
  /-- the participant is never ahead of the instance the store expects next -/
  cur_next : s.cur ≤ s.next
  first_le : s.first ≤ s.next

theorem hinv_init (l : Peer) (first : Nat) : HInv (HState.init l first) where
  floor_cur := Nat.zero_le _
  out_ge := by intro b hb; cases hb
  out_le := by intro b hb; cases hb
  purged_next := Or.inl rfl
  cur_next := Nat.le_refl _
  first_le := Nat.le_refl _

/-- a step that leaves everything but the `Sys` alone, and `floor`/`purged` inside it -/
theorem HInv.frame {s : HState} (h : HInv s) (sys' : Sys) (hf : sys'.floor = s.sys.floor)
    (hp : sys'.purged = s.sys.purged) : HInv { s with sys := sys' } where
  floor_cur := by show sys'.floor ≤ s.cur; rw [hf]; exact h.floor_cur
  out_ge := by intro b hb; show sys'.floor ≤ b.inst; rw [hf]; exact h.out_ge b hb
  out_le := h.out_le
  purged_next := by
    show sys'.purged = 0 ∨ sys'.purged + 6 ≤ s.next
    rw [hp]; exact h.purged_next
  cur_next := h.cur_next
  first_le := h.first_le

theorem HInv.frame_one {s : HState} (h : HInv s) (op : Op) (hr : op ≠ .restart)
    (hp : ∀ k keep, op ≠ .purge k keep) : HInv { s with sys := run s.sys [op] } :=
  h.frame _ (run_one_fp s.sys op hr hp).1 (run_one_fp s.sys op hr hp).2

theorem hstep_inv {own : Nat → Bool} {s : HState} (h : HInv s) (op : HostOp) (hop : HostOpOk own op) :
    HInv (hstep s op) := by
  cases op with
  | storePut k =>
    simp only [hstep, hstepWith]
    split
    · next hk =>
      have hfl := h.first_le
      have hcn := h.cur_next
      refine { floor_cur := h.floor_cur, out_ge := h.out_ge, out_le := h.out_le,
               purged_next := ?_, cur_next := ?_, first_le := ?_ }
      · show s.sys.purged = 0 ∨ s.sys.purged + 6 ≤ k + 1
        rcases h.purged_next with h0 | h0
        · exact Or.inl h0
        · exact Or.inr (by omega)
      · show s.cur ≤ k + 1
        omega
      · show s.first ≤ k + 1
        omega
    · exact h
  | certToRunner k =>
    simp only [hstep, hstepWith]
    split
    · next hk =>
      obtain ⟨_, ⟨_, hk2⟩, hk3⟩ := hk
      have hfc := h.floor_cur
      refine { floor_cur := ?_, out_ge := h.out_ge, out_le := ?_,
               purged_next := h.purged_next, cur_next := ?_, first_le := h.first_le }
      · show s.sys.floor ≤ k + 1
        omega
      · intro b hb
        show b.inst ≤ k + 1
        have := h.out_le b hb
        omega
      · show k + 1 ≤ s.next
        omega
    · exact h
  | finalizePurge k keep =>
    simp only [hstep, hstepWith, lower]
    split
    · next hk =>
      obtain ⟨⟨_, hk2⟩, hk5⟩ := hk
      obtain ⟨hf, hp⟩ := step_purge_fp s.sys (k - 5) keep
      refine { floor_cur := ?_, out_ge := ?_, out_le := h.out_le,
               purged_next := ?_, cur_next := h.cur_next, first_le := h.first_le }
      · show (step s.sys (.purge (k - 5) keep)).floor ≤ s.cur
        rw [hf]; exact h.floor_cur
      · intro b hb
        show (step s.sys (.purge (k - 5) keep)).floor ≤ b.inst
        rw [hf]; exact h.out_ge b hb
      · show (step s.sys (.purge (k - 5) keep)).purged = 0 ∨
          (step s.sys (.purge (k - 5) keep)).purged + 6 ≤ s.next
        rcases hp with hp | hp
        · rw [hp]; exact h.purged_next
        · rw [hp]
          rcases h.purged_next with h0 | h0
          · right; rw [h0]; omega
          · right; omega
    · exact h.frame _ rfl rfl
  | finalizeTrim k =>
    simp only [hstep, hstepWith, lower]
    split
    · exact h.frame_one _ (by intro h'; cases h') (by intro _ _ h'; cases h')
    · exact h.frame _ rfl rfl
  | decide =>
    simp only [hstep, hstepWith]
    split
    · next hk =>
      obtain ⟨_, hk2⟩ := hk
      have hfc := h.floor_cur
      have hfl := h.first_le
      by_cases hcn : s.cur = s.next
      · simp only [hcn, if_true]
        refine { floor_cur := ?_, out_ge := h.out_ge, out_le := ?_,
                 purged_next := ?_, cur_next := ?_, first_le := ?_ }
        · show s.sys.floor ≤ s.next + 1
          omega
        · intro b hb
          show b.inst ≤ s.next + 1
          have := h.out_le b hb
          omega
        · show s.sys.purged = 0 ∨ s.sys.purged + 6 ≤ s.next + 1
          rcases h.purged_next with h0 | h0
          · exact Or.inl h0
          · exact Or.inr (by omega)
        · show s.next + 1 ≤ s.next + 1
          exact Nat.le_refl _
        · show s.first ≤ s.next + 1
          omega
      · simp only [hcn, if_false]
        refine { floor_cur := ?_, out_ge := h.out_ge, out_le := ?_,
                 purged_next := h.purged_next, cur_next := ?_, first_le := h.first_le }
        · show s.sys.floor ≤ s.cur + 1
          omega
        · intro b hb
          show b.inst ≤ s.cur + 1
          have := h.out_le b hb
          omega
        · show s.cur + 1 ≤ s.next
          omega
    · exact h
  | request r p =>
    simp only [hstep, hstepWith]
    split
    · refine { floor_cur := h.floor_cur, out_ge := ?_, out_le := ?_,
               purged_next := h.purged_next, cur_next := h.cur_next, first_le := h.first_le }
      · intro b hb
        rcases List.mem_append.mp hb with hb | hb
        · exact h.out_ge b hb
        · simp only [List.mem_singleton] at hb; subst hb; exact h.floor_cur
      · intro b hb
        rcases List.mem_append.mp hb with hb | hb
        · exact h.out_le b hb
        · simp only [List.mem_singleton] at hb; subst hb; exact Nat.le_refl _
    · exact h
  | sign j sender sig crash =>
    simp only [hstep, hstepWith, lower]
    split
    · exact h.frame_one _ (by intro h'; cases h') (by intro _ _ h'; cases h')
    · exact h.frame _ rfl rfl
  | rebroadcast r p =>
    exact h.frame_one _ (by intro h'; cases h') (by intro _ _ h'; cases h')
  | peerMsg p m =>
    exact h.frame_one _ (by intro h'; cases h') (by intro _ _ h'; cases h')
  | stop =>
    exact h.frame_one _ (by intro h'; cases h') (by intro _ _ h'; cases h')
  | restart keep =>
    have hk : keep = false := hop
    subst hk
    have hcn := h.cur_next
    refine { floor_cur := ?_, out_ge := ?_, out_le := ?_,
             purged_next := h.purged_next, cur_next := Nat.le_refl _, first_le := h.first_le }
    · show s.sys.purged ≤ s.next
      rcases h.purged_next with h0 | h0 <;> omega
    · intro b hb; cases hb
    · intro b hb; cases hb

theorem hrun_inv {own : Nat → Bool} {s : HState} (h : HInv s) (ops : List HostOp) (hok : HostOk own ops) :
    HInv (hrun s ops) := by
  induction ops generalizing s with
  | nil => exact h
  | cons op ops ih =>
    exact ih (hstep_inv h op (hok op (List.mem_cons_self ..))) (fun o ho => hok o (List.mem_cons_of_mem _ ho))

/-! ## The induced history satisfies `RunOk` -/

/-- The `Model/Equiv.lean` operations of one host step are admissible: this is where `floor ≤ m.inst`
is *derived* (from `out_ge` for signed builders, from `floor_cur` for rebroadcasts). -/
theorem lower_ok {own : Nat → Bool} {s : HState} (h : HInv s) (op : HostOp) (hop : HostOpOk own op) :
    RunOk own s.sys (lower s op) := by
  cases op with
  | storePut k => exact trivial
  | certToRunner k => exact trivial
  | finalizePurge k keep =>
    simp only [lower]; split
    · exact ⟨trivial, trivial⟩
    · exact trivial
  | finalizeTrim k =>
    simp only [lower]; split
    · exact ⟨trivial, trivial⟩
    · exact trivial
  | decide => exact trivial
  | request r p => exact trivial
  | sign j sender sig crash =>
    simp only [lower]; split
    · next b hb => exact ⟨⟨h.out_ge b (List.mem_of_getElem? hb), hop⟩, trivial⟩
    · exact trivial
  | rebroadcast r p => exact ⟨h.floor_cur, trivial⟩
  | peerMsg p m => exact ⟨hop, trivial⟩
  | stop => exact ⟨trivial, trivial⟩
  | restart keep => exact ⟨trivial, trivial⟩

theorem hstep_sys (s : HState) (op : HostOp) : (hstep s op).sys = run s.sys (lower s op) := by
  cases op with
  | storePut k => simp only [hstep, hstepWith, lower]; split <;> rfl
  | certToRunner k => simp only [hstep, hstepWith, lower]; split <;> rfl
  | decide => simp only [hstep, hstepWith, lower]; split <;> rfl
  | request r p => simp only [hstep, hstepWith, lower]; split <;> rfl
  | finalizePurge k keep => rfl
  | finalizeTrim k => rfl
  | sign j sender sig crash => rfl
  | rebroadcast r p => rfl
  | peerMsg p m => rfl
  | stop => rfl
  | restart keep => rfl

/-- the `Sys` component of a host run is the `Model/Equiv.lean` run of the induced history -/
theorem hrun_sys (s : HState) (ops : List HostOp) : (hrun s ops).sys = run s.sys (trace s ops) := by
  induction ops generalizing s with
  | nil => rfl
  | cons op ops ih =>
    show (hrun (hstep s op) ops).sys = run s.sys (lower s op ++ trace (hstep s op) ops)
    rw [run_append, ih, hstep_sys]

/-- **The floor hypothesis discharged.**  Whatever the host does, the induced history is admissible for
the theorems of `Props/C12.lean`; the only hypotheses left are those of `HostOk`. -/
theorem runOk_trace {own : Nat → Bool} {s : HState} (h : HInv s) (ops : List HostOp) (hok : HostOk own ops) :
    RunOk own s.sys (trace s ops) := by
  induction ops generalizing s with
  | nil => exact trivial
  | cons op ops ih =>
    have hop := hok op (List.mem_cons_self ..)
    show RunOk own s.sys (lower s op ++ trace (hstep s op) ops)
    rw [runOk_append]
    refine ⟨lower_ok h op hop, ?_⟩
    rw [← hstep_sys]
    exact ih (hstep_inv h op hop) (fun o ho => hok o (List.mem_cons_of_mem _ ho))

/-- from the first start: the induced history is a history of `Sys.init` -/
theorem runOk_trace_init (own : Nat → Bool) (l : Peer) (first : Nat) (ops : List HostOp) (hok : HostOk own ops) :
    RunOk own (Sys.init l) (trace (HState.init l first) ops) :=
  runOk_trace (hinv_init l first) ops hok

theorem hrun_sys_init (l : Peer) (first : Nat) (ops : List HostOp) :
    (hrun (HState.init l first) ops).sys = run (Sys.init l) (trace (HState.init l first) ops) :=
  hrun_sys _ ops

/-- the system invariant of `Proofs/EquivSys.lean` along every host run -/
theorem sysInv_hrun (own : Nat → Bool) (l : Peer) (first : Nat) (ops : List HostOp) (hok : HostOk own ops) :
    SysInv own (hrun (HState.init l first) ops).sys := by
  rw [hrun_sys_init]
  exact inv_run (sysInv_init own l) _ (runOk_trace_init own l first ops hok)

end F3.EquivHost
