import F3.Gen.SkelCerts
/-!
# Expected statement skeletons (SkelCerts)

Hand-pinned expectations for the REGENERATED skeletons of `F3.Gen.SkelCerts` (tools/go2lean/skel.go): the pre-order
list of the statements of a Go function as `<depth>:<kind>`. The expression-level tie theorems pin what single
conditions say; these pin that nothing was added around them (an extra early return, a cap, a dropped branch). A
structural change of the function — harmful or not — breaks the `rfl` below and with it the obligation of every
property importing this file; the check then searches for a failing input as for any broken obligation.
-/
namespace F3.SkelTie.SkelCerts
open F3.Gen.SkelCerts

/-- the structure the model of `ValidateCerts` was written against -/
def skelValidateCertsExpected : List String :=
  ["0:range", "1:if", "2:return4", "1:if", "2:return4", "1:if", "2:return4", "1:if", "2:return4", "1:if",
   "2:return4", "1:assign=", "1:if", "2:return4", "1:assign:=", "1:if", "2:return4", "1:if", "2:return4",
   "1:incdec++", "1:assign=", "1:assign=", "1:assign=", "0:return4"]

theorem skelValidateCerts_expected : skelValidateCerts = skelValidateCertsExpected := rfl

/-- the structure the model of `ApplyDiffs` was written against -/
def skelApplyDiffsExpected : List String :=
  ["0:range", "1:decl", "1:range", "2:if", "3:return2", "2:if", "3:return2", "2:assign=", "2:assign:=", "2:if",
   "3:if", "4:return2", "3:if", "4:assign=", "3:if", "4:if", "5:return2", "4:assign=", "2:else", "3:if",
   "4:return2", "3:if", "4:return2", "3:assign=", "2:switch", "3:case1", "4:call:delete", "3:case1",
   "4:assign=", "3:default", "4:return2", "0:return2"]

theorem skelApplyDiffs_expected : skelApplyDiffs = skelApplyDiffsExpected := rfl

/-- the structure the model of `DeltaIsZero` was written against -/
def skelDeltaIsZeroExpected : List String :=
  ["0:return1"]

theorem skelDeltaIsZero_expected : skelDeltaIsZero = skelDeltaIsZeroExpected := rfl

end F3.SkelTie.SkelCerts
