import F3.Proofs.CertsAlgebra
/-! Assembly: `applyDiff`/`makeDiff` on whole tables. -/
namespace F3.Certs
open F3.SMap

theorem applyDiff_eq (a : Table) (d : Diff) :
    applyDiff a d = match applyLoop (toMap a) none d with
      | .error e => .error e
      | .ok m => .ok (canon m) := by
  unfold applyDiff applyDiffs applyDiffsMap
  cases applyLoop (toMap a) none d with
  | error e => rfl
  | ok m => rfl

theorem ssorted_toMap (a : Table) : SSorted Entry.id (toMap a) := ssorted_ofList Entry.id a

/-- the fold over the canonical delta of two well-formed tables turns the first map into the second -/
theorem applyLoop_makeDiff {a b : Table} (ha : WF a) (hb : WF b) :
    applyLoop (toMap a) none (makeDiff a b) = .ok (toMap b) := by
  obtain ⟨hs, hl⟩ := makeDiff_spec ha.1 hb.1
  have hstep : ∀ δ ∈ makeDiff a b, δ.isZero = false ∧ stepSpec (L (toMap a) δ.id) δ = .ok (L b δ.id) := by
    intro δ hδ
    have h1 : LD (makeDiff a b) δ.id = some δ := lookup_of_mem Delta.id hs hδ
    rw [hl] at h1
    rw [lookup_toMap ha.1]
    exact stepSpec_dspec (entOK_of_wf ha _) (entOK_of_wf hb _) h1
  have hg : Good (toMap a) none (makeDiff a b) :=
    ⟨hs, fun _ _ => trivial, fun δ hδ => ⟨(hstep δ hδ).1, _, (hstep δ hδ).2⟩⟩
  obtain ⟨m', hm', hs', hl'⟩ := applyLoop_ok_of_good (m := toMap a) (ssorted_toMap a) hg
  have : m' = toMap b := by
    apply ext Entry.id hs' (ssorted_toMap b)
    intro i
    show L m' i = L (toMap b) i
    rw [hl' i, lookup_toMap hb.1]
    unfold after
    cases hld : LD (makeDiff a b) i with
    | none =>
      simp only
      rw [hl] at hld
      rw [lookup_toMap ha.1]
      exact dspec_none (entOK_of_wf ha i) (entOK_of_wf hb i) hld
    | some δ =>
      simp only
      have hmem := lookup_mem Delta.id hld
      have hid : δ.id = i := lookup_key Delta.id hld
      have := (hstep δ hmem).2
      rw [hid] at this
      rw [this]
  rw [hm', this]

/-- what an accepted delta does, pointwise; the result is well-formed -/
theorem applyLoop_wf {a : Table} {d : Diff} {m' : Table} (ha : WF a)
    (h : applyLoop (toMap a) none d = .ok m') :
    SSorted Entry.id m' ∧ (∀ i, EntOK i (L m' i)) ∧ SSorted Delta.id d ∧
    ∀ i, LD d i = dspec (L a i) (L m' i) := by
  have hg := good_of_applyLoop_ok h
  obtain ⟨m'', hm'', hs', hl'⟩ := applyLoop_ok_of_good (m := toMap a) (ssorted_toMap a) hg
  rw [h] at hm''
  cases hm''
  -- pointwise: after = result of stepSpec
  have hpt : ∀ i, dspec (L a i) (L m' i) = LD d i ∧ EntOK i (L m' i) := by
    intro i
    rw [hl' i]
    unfold after
    cases hld : LD d i with
    | none =>
      simp only
      rw [lookup_toMap ha.1]
      exact ⟨dspec_self _, entOK_of_wf ha i⟩
    | some δ =>
      simp only
      have hmem := lookup_mem Delta.id hld
      have hid : δ.id = i := lookup_key Delta.id hld
      obtain ⟨hz, r, hr⟩ := hg.2.2 δ hmem
      rw [hid] at hr
      rw [hr]
      simp only
      rw [lookup_toMap ha.1] at hr
      exact dspec_stepSpec (entOK_of_wf ha i) hid hz hr
  exact ⟨hs', fun i => (hpt i).2, hg.1, fun i => (hpt i).1.symm⟩

theorem wf_of_sorted_entOK {m : Table} (hs : SSorted Entry.id m) (h : ∀ i, EntOK i (L m i)) : WF m := by
  refine ⟨nodup_of_ssorted Entry.id hs, ?_⟩
  intro e he
  have := h e.id e (lookup_of_mem Entry.id hs he)
  exact this.2

theorem applyLoop_sorted {m : Table} {prev : Option Nat} {d : Diff} {m' : Table}
    (hs : SSorted Entry.id m) (h : applyLoop m prev d = .ok m') : SSorted Entry.id m' := by
  obtain ⟨m'', hm'', hs', _⟩ := applyLoop_ok_of_good hs (good_of_applyLoop_ok h)
  rw [h] at hm''; cases hm''; exact hs'

theorem applyDiffsMap_sorted {m : Table} {ds : List Diff} {m' : Table}
    (hs : SSorted Entry.id m) (h : applyDiffsMap m ds = .ok m') : SSorted Entry.id m' := by
  induction ds generalizing m with
  | nil => simp only [applyDiffsMap, Except.ok.injEq] at h; rw [← h]; exact hs
  | cons d ds ih =>
    unfold applyDiffsMap at h
    cases hl : applyLoop m none d with
    | error e => rw [hl] at h; cases h
    | ok m1 => rw [hl] at h; exact ih (applyLoop_sorted hs hl) h

theorem applyDiffsMap_append (m : Table) (ds₁ ds₂ : List Diff) :
    applyDiffsMap m (ds₁ ++ ds₂) = match applyDiffsMap m ds₁ with
      | .error e => .error e
      | .ok m' => applyDiffsMap m' ds₂ := by
  induction ds₁ generalizing m with
  | nil => rfl
  | cons d ds ih =>
    simp only [List.cons_append, applyDiffsMap]
    cases applyLoop m none d with
    | error e => rfl
    | ok m1 => exact ih m1

/-- a sorted map survives the round trip through its canonical array form -/
theorem toMap_canon {m : Table} (hs : SSorted Entry.id m) : toMap (canon m) = m := by
  have hnd := nodup_of_ssorted Entry.id hs
  have hp := canon_perm m
  have hnd' : ((canon m).map Entry.id).Nodup := (hp.map Entry.id).nodup_iff.mpr hnd
  apply ext Entry.id (ssorted_toMap _) hs
  intro i
  show L (toMap (canon m)) i = L m i
  rw [lookup_toMap hnd']
  exact lookup_perm Entry.id hp hnd' i

/-- applying one more diff to the result of a sequence = the sequence extended by it -/
theorem applyDiffs_snoc {t lt : Table} {ds : List Diff} (d : Diff) (h : applyDiffs t ds = .ok lt) :
    applyDiffs t (ds ++ [d]) = applyDiff lt d := by
  unfold applyDiffs at h
  cases hm : applyDiffsMap (toMap t) ds with
  | error e => rw [hm] at h; cases h
  | ok m =>
    rw [hm] at h
    simp only [Except.ok.injEq] at h
    have hs : SSorted Entry.id m := applyDiffsMap_sorted (ssorted_toMap t) hm
    unfold applyDiff applyDiffs
    rw [applyDiffsMap_append, hm, ← h, toMap_canon hs]

/-- the output of `ApplyPowerTableDiffs` is a fixed point of applying the empty diff -/
theorem applyDiff_fixed {t nt : Table} {d : Diff} (h : applyDiff t d = .ok nt) :
    applyDiff nt [] = .ok nt := by
  rw [applyDiff_eq] at h
  cases hm : applyLoop (toMap t) none d with
  | error e => rw [hm] at h; cases h
  | ok m =>
    rw [hm] at h
    simp only [Except.ok.injEq] at h
    have hs : SSorted Entry.id m := applyLoop_sorted (ssorted_toMap t) hm
    rw [applyDiff_eq, ← h, toMap_canon hs]
    rfl

end F3.Certs
