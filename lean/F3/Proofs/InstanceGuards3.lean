import F3.Proofs.InstanceGuards2
/-! Layer B, continued: `tryDecide`, `tryCurrentPhase`, the receive handlers, `postReceive`, `step`, runs. -/
namespace F3.Instance

variable {W : Votes} {me : Pid}

theorem GOK.of_eq {s s1 : State} {r : R} (ht : s1.tbl = s.tbl) (hi : s1.input = s.input) (h : GOK W me s1 r) :
    GOK W me s r := by
  unfold GOK at *
  rw [ht, hi] at h; exact h

/-! ### tryDecide, tryCurrentPhase -/

theorem tryDecide_gok {s : State} (now : Int) (h : GInv W me s) (hd : s.phase = .decide) :
    GOK W me s (s.tryDecide now) := by
  unfold State.tryDecide
  split
  · exact GOK.fail (by simp)
  · split
    · refine Or.inr fun _ => ⟨?_, by intro r ph v tk j hm; simp [State.terminate, State.resetReb] at hm⟩
      unfold State.terminate State.resetReb
      refine ⟨h.core.mono rfl rfl rfl rfl ?_ (fun c hc => Or.inl hc) h.core.propNe, ?_, ?_⟩
      · right
        exact ⟨Or.inr ⟨rfl, by simp [State.pt, hd, Phase.toNat]⟩, fun _ => rfl⟩
      · intro hp; cases hp
      · intro he; simp [Phase.toNat] at he
    · exact GOK.fail (by simp)
    · exact GOK.fail (by simp)
  · exact tryRebroadcast_gok now h

theorem tryCurrentPhase_gok {s : State} (now : Int) (h : GInv W me s) : GOK W me s (s.tryCurrentPhase now) := by
  unfold State.tryCurrentPhase
  split
  · exact tryQuality_gok now h
  · exact tryConverge_gok now h
  · exact tryPrepare_gok now h
  · rename_i hp; exact tryCommit_gok now s.round h (by simp [hp, Phase.toNat])
  · rename_i hp; exact tryDecide_gok now h hp
  · exact GOK.nil h
  · exact GOK.fail (by simp)

/-! ### receive handlers -/

/-- a state that differs only in fields outside the invariant keeps it -/
theorem GInv.of_fields {s s' : State} (h : GInv W me s) (ht : s'.tbl = s.tbl) (hi : s'.input = s.input)
    (hr : s'.rounds = s.rounds) (hd : s'.decision = s.decision) (hc : s'.candidates = s.candidates)
    (hp : s'.proposal = s.proposal) (hph : s'.phase = s.phase) (hrd : s'.round = s.round) : GInv W me s' := by
  refine ⟨h.core.mono ht hi hr hd (by simp [State.pt, hph, hrd]; exact ptLe_refl _)
    (fun c hc' => Or.inl (by rw [hc] at hc'; exact hc')) (by rw [hp]; exact h.core.propNe), ?_, ?_⟩
  · intro hpp; rw [hph] at hpp; rw [hrd, hp]; exact h.ownPrep hpp
  · intro he; rw [hph] at he; rw [hrd]; exact h.early he

/-- a state whose round tallies were updated consistently keeps the invariant -/
theorem GInv.of_rounds {s s' : State} (h : GInv W me s) (ht : s'.tbl = s.tbl) (hi : s'.input = s.input)
    (hr : RoundsOK W s'.tbl s'.rounds) (hd : s'.decision = s.decision) (hc : s'.candidates = s.candidates)
    (hp : s'.proposal = s.proposal) (hph : s'.phase = s.phase) (hrd : s'.round = s.round) : GInv W me s' := by
  refine ⟨h.core.mono_rounds ht hi hr hd (by simp [State.pt, hph, hrd]; exact ptLe_refl _)
    (fun c hc' => Or.inl (by rw [hc] at hc'; exact hc')) (by rw [hp]; exact h.core.propNe), ?_, ?_⟩
  · intro hpp; rw [hph] at hpp; rw [hrd, hp]; exact h.ownPrep hpp
  · intro he; rw [hph] at he; rw [hrd]; exact h.early he

theorem recvQuality_gok {s : State} (now : Int) (m : Msg) (h : GInv W me s) : GOK W me s (s.recvQuality now m) := by
  unfold State.recvQuality
  dsimp only
  have h1 : GInv W me ({ s with quality := s.quality.receiveEachPrefix s.tbl m.sender m.value } : State) :=
    h.of_fields rfl rfl rfl rfl rfl rfl rfl rfl
  split
  · refine Or.inr fun _ => ⟨?_, Guarded_nil⟩
    unfold State.updateCandidatesFromQuality
    refine ⟨h.core.mono (by simp) (by simp) (by simp) (by simp) (by simp [State.pt]; exact ptLe_refl _) ?_
      (by simpa using h.core.propNe), ?_, ?_⟩
    · intro c hc
      rcases addCandidatePrefixes_mem _ _ _ hc with hold | hnew
      · exact Or.inl hold
      · have := quality_cands_ok ({ s with quality := s.quality.receiveEachPrefix s.tbl m.sender m.value } : State)
          h.core.inputNe c hnew
        exact Or.inr ⟨this.1, Or.inl (by simpa using this.2)⟩
    · intro hp; simp at hp; simpa using h.ownPrep hp
    · intro he; simp at he; simpa using h.early he
  · exact GOK.of_eq rfl rfl (tryCurrentPhase_gok now h1)

theorem recvConverge_gok {s : State} (now : Int) (m : Msg) (j : Just) (h : GInv W me s)
    (hne : m.value ≠ []) (hj : ConvJust W s.tbl m.round m.value j) : GOK W me s (s.recvConverge now m j) := by
  unfold State.recvConverge
  dsimp only
  have hro := getRound_ok h.core.rounds m.round
  have h1 : GInv W me (s.setRound m.round { (s.getRound m.round) with
      converged := (s.getRound m.round).converged.receive m.sender m.value m.rank j }) :=
    h.of_rounds rfl rfl (setRound_ok h.core.rounds m.round _ ⟨hro.conv.receive _ _ _ _ hne hj, hro.prep, hro.comm⟩)
      rfl rfl rfl rfl rfl
  exact GOK.of_eq rfl rfl (tryCurrentPhase_gok now h1)

theorem recvPrepare_gok {s : State} (now : Int) (m : Msg) (h : GInv W me s) (hm : MsgValid W s.tbl m)
    (hph : m.phase = .prepare) : GOK W me s (s.recvPrepare now m) := by
  unfold State.recvPrepare
  dsimp only
  split
  · exact GOK.fail (by simp)
  · rename_i q hq
    have hro := getRound_ok h.core.rounds m.round
    obtain ⟨hw, hpos, hrest⟩ := hm
    rw [hph] at hrest hw
    simp only at hrest
    obtain ⟨hr0, hrpos⟩ := hrest
    have hv : VoteEv W s.tbl m.round .prepare m.sender m.value := by
      refine ⟨hw, fun _ => ?_⟩
      by_cases h0 : m.round = 0
      · exact Or.inl h0
      · obtain ⟨j, _, hcj⟩ := hrpos (by omega)
        exact Or.inr hcj.jl
    have hj : ∀ j, m.just = some j → ConvJust W s.tbl m.round m.value j := by
      intro j hmj
      by_cases h0 : m.round = 0
      · rw [hr0 h0] at hmj; cases hmj
      · obtain ⟨j', hj', hcj⟩ := hrpos (by omega)
        rw [hmj] at hj'; cases hj'; exact hcj
    have h1 : GInv W me (s.setRound m.round { (s.getRound m.round) with prepared := storePrepareJust q m }) :=
      h.of_rounds rfl rfl (setRound_ok h.core.rounds m.round _
        ⟨hro.conv, hro.prep.recvPrepare m hpos hv hj hq, hro.comm⟩) rfl rfl rfl rfl rfl
    exact GOK.of_eq rfl rfl (tryCurrentPhase_gok now h1)

theorem recvCommit_gok {s : State} (now : Int) (m : Msg) (h : GInv W me s) (hm : MsgValid W s.tbl m)
    (hph : m.phase = .commit) (hnt : s.phase ≠ .terminated) : GOK W me s (s.recvCommit now m) := by
  unfold State.recvCommit
  dsimp only
  split
  · exact GOK.fail (by simp)
  · rename_i q hq
    split
    · exact GOK.fail (by simp)
    · have hro := getRound_ok h.core.rounds m.round
      obtain ⟨hw, hpos, hrest⟩ := hm
      rw [hph] at hrest hw
      simp only at hrest
      have hv : VoteEv W s.tbl m.round .commit m.sender m.value := ⟨hw, fun hc => Phase.noConfusion hc⟩
      have h1 : GInv W me (s.setRound m.round { (s.getRound m.round) with committed := storeCommitJust q m }) :=
        h.of_rounds rfl rfl (setRound_ok h.core.rounds m.round _
          ⟨hro.conv, hro.prep, hro.comm.recvCommit m hpos hv hrest.2 hq⟩) rfl rfl rfl rfl rfl
      split
      · rename_i hd
        have hnd : s.phase ≠ .decide := by simpa using hd
        have h5 : s.phase.toNat < 5 := by cases hp : s.phase <;> simp_all [Phase.toNat]
        have hg1 : GOK W me s ((s.setRound m.round { (s.getRound m.round) with committed := storeCommitJust q m }).tryCommit now m.round) :=
          GOK.of_eq rfl rfl (tryCommit_gok now m.round h1 (by simpa using h5))
        split
        · exact andThen_gok hg1 (by rw [tryCommit_tbl]; rfl) (by rw [tryCommit_input]; rfl)
            (fun hi => tryCurrentPhase_gok now hi)
        · exact hg1
      · exact GOK.of_eq rfl rfl (tryCurrentPhase_gok now h1)

theorem skipToDecide_gok {s : State} (m : Msg) (h : GInv W me s) (h5 : s.phase.toNat < 5) (hne : m.value ≠ [])
    (hev : ∃ r', QL W s.tbl r' .commit m.value) : GOK W me s (s.skipToDecide m.value m.just) := by
  refine Or.inr fun _ => ?_
  unfold State.skipToDecide State.resetReb
  refine ⟨⟨h.core.mono rfl rfl rfl rfl ?_ (fun c hc => Or.inl hc) hne, ?_, ?_⟩, ?_⟩
  · right
    exact ⟨Or.inr ⟨rfl, by simpa [State.pt, Phase.toNat] using h5⟩, fun h' => by simp only [State.pt] at h'; omega⟩
  · intro hp; cases hp
  · intro he; simp [Phase.toNat] at he
  · intro r ph v tk j hm
    simp at hm
    obtain ⟨rfl, rfl, rfl, _⟩ := hm
    exact fun _ => ⟨hne, hev⟩

theorem recvDecide_gok {s : State} (now : Int) (m : Msg) (h : GInv W me s) (hm : MsgValid W s.tbl m)
    (hph : m.phase = .decide) (hnt : s.phase ≠ .terminated) : GOK W me s (s.recvDecide now m) := by
  unfold State.recvDecide
  dsimp only
  split
  · exact GOK.fail (by simp)
  · rename_i q hq
    obtain ⟨hw, hpos, hrest⟩ := hm
    rw [hph] at hrest hw
    simp only at hrest
    obtain ⟨hr0, hne, j, hmj, hok, hjp, hjv⟩ := hrest
    rw [hr0] at hw
    have h1 : GInv W me ({ s with decision := q } : State) := by
      refine ⟨⟨h.core.rounds, receive_wf s.tbl s.decision q _ _ h.core.decision hpos hw hq, h.core.cands,
        h.core.inputNe, h.core.propNe, h.core.totalPos⟩, h.ownPrep, h.early⟩
    split
    · rename_i hd
      have hnd : s.phase ≠ .decide := by simpa using hd
      have h5 : s.phase.toNat < 5 := by cases hp : s.phase <;> simp_all [Phase.toNat]
      have hev : ∃ r', QL W s.tbl r' .commit m.value := by
        have := hok.ql; rw [hjp, hjv] at this; exact ⟨j.round, this⟩
      have hg1 : GOK W me s (({ s with decision := q } : State).skipToDecide m.value m.just) :=
        GOK.of_eq rfl rfl (skipToDecide_gok (s := ({ s with decision := q } : State)) m h1 (by simpa using h5) hne hev)
      exact andThen_gok hg1 (by simp) (by simp) (fun hi => tryCurrentPhase_gok now hi)
    · exact GOK.of_eq rfl rfl (tryCurrentPhase_gok now h1)


/-! ### postReceive (skip to a future round) -/

/-- the state in which `postReceive` calls `beginConverge` -/
def skipState (s : State) (round : Nat) (p : ConvVal) : State :=
  let s1 := { s with round := round }
  let s1 := if s1.phase == .quality then
      let q := s1.quality.longestPrefixWithQuorum s1.input
      (({ s1 with proposal := q }).addCandidatePrefixes q).1
    else s1
  if p.just.phase == .prepare then { (s1.addCandidate p.chain).1 with proposal := p.chain } else s1

theorem skipState_fields (s : State) (round : Nat) (p : ConvVal) :
    (skipState s round p).tbl = s.tbl ∧ (skipState s round p).input = s.input ∧
    (skipState s round p).rounds = s.rounds ∧ (skipState s round p).decision = s.decision ∧
    (skipState s round p).round = round ∧ (skipState s round p).phase = s.phase := by
  unfold skipState
  dsimp only
  split <;> split <;> simp

theorem skipState_proposal (s : State) (round : Nat) (p : ConvVal) :
    (p.just.phase = .prepare ∧ (skipState s round p).proposal = p.chain) ∨
    (p.just.phase ≠ .prepare ∧ ((skipState s round p).proposal = s.proposal ∨
      (skipState s round p).proposal = s.quality.longestPrefixWithQuorum s.input)) := by
  unfold skipState
  dsimp only
  split
  · rename_i hp; left; exact ⟨by simpa using hp, rfl⟩
  · rename_i hp
    right
    refine ⟨by simpa using hp, ?_⟩
    split
    · right; simp
    · left; rfl

theorem skipState_cands (s : State) (round : Nat) (p : ConvVal) (c : Chain) (hc : c ∈ (skipState s round p).candidates) :
    c ∈ s.candidates ∨ (∃ l, 0 < l ∧ c = prefixTo (s.quality.longestPrefixWithQuorum s.input) l) ∨
      (p.just.phase = .prepare ∧ c = p.chain) := by
  unfold skipState at hc
  dsimp only at hc
  split at hc
  · rename_i hp
    have hpp : p.just.phase = .prepare := by simpa using hp
    simp only at hc
    rcases addCandidate_mem _ _ _ hc with hold | rfl
    · split at hold
      · rcases addCandidatePrefixes_mem _ _ _ hold with h1 | h2
        · exact Or.inl h1
        · exact Or.inr (Or.inl h2)
      · exact Or.inl hold
    · exact Or.inr (Or.inr ⟨hpp, rfl⟩)
  · split at hc
    · rcases addCandidatePrefixes_mem _ _ _ hc with h1 | h2
      · exact Or.inl h1
      · exact Or.inr (Or.inl h2)
    · exact Or.inl hc

theorem postReceive_eq (s : State) (now : Int) (round : Nat) :
    s.postReceive now round = (s, []) ∨
    ∃ p, (s.getRound round).converged.findBest (fun _ => true) = some p ∧ p.chain ≠ [] ∧ s.round < round ∧
      s.phase ≠ .decide ∧ s.postReceive now round = (skipState s round p).beginConverge now p.just := by
  unfold State.postReceive
  dsimp only
  split
  · exact Or.inl rfl
  · rename_i hg
    split
    · exact Or.inl rfl
    · split
      · exact Or.inl rfl
      · rename_i p hp
        split
        · exact Or.inl rfl
        · rename_i hne
          right
          simp only [Bool.or_eq_true, decide_eq_true_eq, beq_iff_eq, not_or, Nat.not_le] at hg
          exact ⟨p, hp, by simpa using hne, hg.1, hg.2, rfl⟩

theorem postReceive_gok {s : State} (now : Int) (round : Nat) (h : GInv W me s) (hnt : s.phase ≠ .terminated) :
    GOK W me s (s.postReceive now round) := by
  rcases postReceive_eq s now round with heq | ⟨p, hp, hpne, hlt, hnd, heq⟩
  · rw [heq]; exact GOK.nil h
  · rw [heq]
    obtain ⟨ht, hi, hr, hd, hrd, hph⟩ := skipState_fields s round p
    obtain ⟨hmem, _⟩ := findBest_mem _ _ _ hp
    have hro := getRound_ok h.core.rounds round
    obtain ⟨_, hcj⟩ := hro.conv p hmem
    have h5 : s.phase.toNat < 5 := by cases hpp : s.phase <;> simp_all [Phase.toNat]
    by_cases hfail : hasFailure ((skipState s round p).beginConverge now p.just).2 = true
    · exact Or.inl hfail
    · refine Or.inr fun _ => ?_
      have hle : ptLe s.pt ((skipState s round p).round, Phase.converge.toNat) := by
        right
        rw [hrd]
        exact ⟨Or.inl hlt, fun h' => by simp only [State.pt] at h'; omega⟩
      obtain ⟨hql, hqne⟩ := longest_prefix_facts s.quality s.input h.core.inputNe
      have hres := beginConverge_core (W := W) (s0 := s) (s := skipState s round p) now p.just h.core ht hi
        (by rw [ht, hr]; exact h.core.rounds) hd hle
        (by
          intro c hc
          rcases skipState_cands s round p c hc with hold | hq | ⟨hpp, rfl⟩
          · exact Or.inl hold
          · obtain ⟨hne, hpre⟩ := quality_cands_ok s h.core.inputNe c hq
            exact Or.inr ⟨hne, Or.inl (by rw [hi]; exact hpre)⟩
          · refine Or.inr ⟨hpne, Or.inr ⟨p.just.round, ?_, ?_⟩⟩
            · obtain ⟨hok, _, hcase⟩ := hcj
              rcases hcase with ⟨_, hv⟩ | ⟨hc', _⟩
              · have := hok.ql; rw [hpp, hv] at this; rw [ht]; exact this
              · rw [hpp] at hc'; cases hc'
            · rw [hrd]; have := hcj.2.1; omega)
        (by
          rcases skipState_proposal s round p with ⟨_, hpr⟩ | ⟨_, hpr | hpr⟩
          · rw [hpr]; exact hpne
          · rw [hpr]; exact h.core.propNe
          · rw [hpr]; exact hqne)
        (by
          rw [ht, hrd]
          rcases skipState_proposal s round p with ⟨_, hpr⟩ | ⟨hnp, _⟩
          · rw [hpr]; exact hcj
          · obtain ⟨hok, hjr, hcase⟩ := hcj
            rcases hcase with ⟨hpp, _⟩ | hc'
            · exact absurd hpp hnp
            · exact ⟨hok, hjr, Or.inr hc'⟩)
        (by simpa using hfail)
      obtain ⟨hc', hp', hr'⟩ := hres
      refine ⟨⟨hc', ?_, ?_⟩, ?_⟩
      · intro hpp; rw [hp'] at hpp; cases hpp
      · intro he; rw [hp'] at he; simp [Phase.toNat] at he
      · intro r ph v tk j' hm
        have := beginConverge_bc _ _ _ _ _ _ _ _ hm
        subst this
        trivial


/-! ### receiveOne, step, runs -/

theorem tryCurrentPhase_tbl_input (st : State) (now : Int) :
    (st.tryCurrentPhase now).1.tbl = st.tbl ∧ (st.tryCurrentPhase now).1.input = st.input := by
  unfold State.tryCurrentPhase
  split <;> try (constructor <;> simp)
  · unfold State.tryDecide State.terminate State.resetReb
    constructor <;> (repeat' split) <;> simp

theorem receiveOne_tbl_input (s : State) (now : Int) (m : Msg) :
    (s.receiveOne now m).1.1.tbl = s.tbl ∧ (s.receiveOne now m).1.1.input = s.input := by
  have key := fun st => tryCurrentPhase_tbl_input st now
  unfold State.receiveOne
  split
  · exact ⟨rfl, rfl⟩
  · exact ⟨rfl, rfl⟩
  · split
    · unfold State.recvQuality State.updateCandidatesFromQuality
      dsimp only
      split
      · constructor <;> simp
      · exact ⟨(key _).1, (key _).2⟩
    · split
      · exact ⟨rfl, rfl⟩
      · split
        · exact ⟨rfl, rfl⟩
        · unfold State.recvConverge; exact ⟨(key _).1, (key _).2⟩
    · unfold State.recvPrepare
      dsimp only
      split
      · exact ⟨rfl, rfl⟩
      · exact ⟨(key _).1, (key _).2⟩
    · unfold State.recvCommit
      dsimp only
      split
      · exact ⟨rfl, rfl⟩
      · split
        · exact ⟨rfl, rfl⟩
        · split
          · split
            · unfold andThen; split
              · constructor <;> simp <;> rfl
              · constructor
                · rw [(key _).1]; simp; rfl
                · rw [(key _).2]; simp; rfl
            · constructor <;> simp <;> rfl
          · exact ⟨(key _).1, (key _).2⟩
    · unfold State.recvDecide
      dsimp only
      split
      · exact ⟨rfl, rfl⟩
      · split
        · unfold andThen; split
          · constructor <;> simp
          · constructor
            · rw [(key _).1]; simp
            · rw [(key _).2]; simp
        · exact ⟨(key _).1, (key _).2⟩
    · exact ⟨rfl, rfl⟩

/-- validity of what is delivered, in the vocabulary of the guards -/
def OpValidG (W : Votes) (t : Table) : Op → Prop
  | .recv _ m => MsgValid W t m
  | _ => True

theorem MsgValid.msgOk {t : Table} {m : Msg} (h : MsgValid W t m) : MsgOk m := by
  intro hp
  obtain ⟨_, _, hrest⟩ := h
  rw [hp] at hrest
  exact hrest.1

theorem receiveOne_gok {s : State} (now : Int) (m : Msg) (h : GInv W me s) (hm : MsgValid W s.tbl m) :
    GOK W me s (s.receiveOne now m).1 := by
  unfold State.receiveOne
  split
  · exact GOK.fail (by simp)
  · exact GOK.nil h
  · rename_i hacc
    have hnt := recvPre_accept_not_terminated s m hacc
    split
    · exact recvQuality_gok now m h
    · rename_i hph
      split
      · exact GOK.fail (by simp)
      · split
        · exact GOK.fail (by simp)
        · rename_i j hj
          obtain ⟨_, _, hrest⟩ := hm
          rw [hph] at hrest
          simp only at hrest
          obtain ⟨_, hne, j', hj', hcj⟩ := hrest
          rw [hj] at hj'; cases hj'
          exact recvConverge_gok now m j h hne hcj
    · rename_i hph; exact recvPrepare_gok now m h hm hph
    · rename_i hph; exact recvCommit_gok now m h hm hph hnt
    · rename_i hph; exact recvDecide_gok now m h hm hph hnt
    · exact GOK.fail (by simp)

/-- the shape of `receiveOne`'s result -/
theorem receiveOne_cases (s : State) (now : Int) (m : Msg) :
    (∃ es, (s.receiveOne now m).1 = (s, es) ∧ (es = [] ∨ hasFailure es = true)) ∨
    (m.phase = .quality ∧ (s.receiveOne now m).1 = s.recvQuality now m) ∨
    (∃ j, m.phase = .converge ∧ (s.receiveOne now m).1 = s.recvConverge now m j) ∨
    (m.phase = .prepare ∧ (s.receiveOne now m).1 = s.recvPrepare now m) ∨
    (m.phase = .commit ∧ (s.receiveOne now m).1 = s.recvCommit now m) ∨
    (m.phase = .decide ∧ (s.receiveOne now m).1 = s.recvDecide now m) := by
  unfold State.receiveOne
  split
  · exact Or.inl ⟨_, rfl, Or.inr (by simp)⟩
  · exact Or.inl ⟨_, rfl, Or.inl rfl⟩
  · split
    · rename_i hph; exact Or.inr (Or.inl ⟨hph, rfl⟩)
    · rename_i hph
      split
      · exact Or.inl ⟨_, rfl, Or.inr (by simp)⟩
      · split
        · exact Or.inl ⟨_, rfl, Or.inr (by simp)⟩
        · rename_i j _; exact Or.inr (Or.inr (Or.inl ⟨j, hph, rfl⟩))
    · rename_i hph; exact Or.inr (Or.inr (Or.inr (Or.inl ⟨hph, rfl⟩)))
    · rename_i hph; exact Or.inr (Or.inr (Or.inr (Or.inr (Or.inl ⟨hph, rfl⟩))))
    · rename_i hph; exact Or.inr (Or.inr (Or.inr (Or.inr (Or.inr ⟨hph, rfl⟩))))
    · exact Or.inl ⟨_, rfl, Or.inr (by simp)⟩

/-- termination inside `receiveOne` only happens on DECIDE messages (quiet-decision invariant) -/
theorem receiveOne_term {s : State} (now : Int) (m : Msg) (hq : DQ s)
    (hnf : hasFailure (s.receiveOne now m).1.2 = false) (hterm : (s.receiveOne now m).1.1.phase = .terminated) :
    s.phase = .terminated ∨ m.phase = .decide := by
  by_cases ht : s.phase = .terminated
  · exact Or.inl ht
  · right
    rcases receiveOne_cases s now m with ⟨es, heq, _⟩ | ⟨_, heq⟩ | ⟨j, _, heq⟩ | ⟨_, heq⟩ | ⟨_, heq⟩ | ⟨hph, _⟩
    · rw [heq] at hterm; exact absurd hterm ht
    · rw [heq] at hterm hnf
      rcases recvQuality_nt s now m hq ht with h' | h'
      · exact absurd (h'.symm.trans hnf) (by decide)
      · exact absurd hterm h'
    · rw [heq] at hterm hnf
      rcases recvConverge_nt s now m j hq ht with h' | h'
      · exact absurd (h'.symm.trans hnf) (by decide)
      · exact absurd hterm h'
    · rw [heq] at hterm hnf
      rcases recvPrepare_nt s now m hq ht with h' | h'
      · exact absurd (h'.symm.trans hnf) (by decide)
      · exact absurd hterm h'
    · rw [heq] at hterm hnf
      rcases recvCommit_nt s now m hq ht with h' | h'
      · exact absurd (h'.symm.trans hnf) (by decide)
      · exact absurd hterm h'
    · exact hph

theorem step_gok {s : State} (op : Op) (h : GInv W me s) (hq : DQ s) (hop : OpValidG W s.tbl op) :
    GOK W me s (step s op) := by
  cases op with
  | start now =>
    unfold step State.beginQuality State.alarmAfter State.resetReb
    dsimp only
    split
    · exact GOK.fail (by simp)
    · rename_i hph
      have hi : s.phase = .initial := by simpa using hph
      refine Or.inr fun _ => ⟨⟨h.core.mono rfl rfl rfl rfl ?_ (fun c hc => Or.inl hc) h.core.propNe, ?_, ?_⟩, ?_⟩
      · right
        exact ⟨Or.inr ⟨rfl, by simp [State.pt, hi, Phase.toNat]⟩, fun h' => by simp [State.pt, hi, Phase.toNat] at h'⟩
      · intro hp; cases hp
      · intro _; exact h.early (by simp [hi, Phase.toNat])
      · intro r ph v tk j hm
        simp at hm
        obtain ⟨_, rfl, _⟩ := hm
        trivial
  | alarm now => exact tryCurrentPhase_gok now h
  | recv now m =>
    unfold step
    dsimp only
    split
    · exact GOK.fail (by simp)
    · have hg := receiveOne_gok (me := me) now m h hop
      have hti := receiveOne_tbl_input s now m
      have hterm := fun hnf => receiveOne_term now m hq hnf
      generalize s.receiveOne now m = ro at *
      obtain ⟨r, changed⟩ := ro
      dsimp only at *
      split
      · exact Or.inl (by assumption)
      · rename_i hnf
        have hnf' : hasFailure r.2 = false := by simpa using hnf
        split
        · refine andThen_gok hg hti.1 hti.2 (fun hi => ?_)
          by_cases ht1 : r.1.phase = .terminated
          · rename_i hst _
            have hst' : s.phase ≠ .terminated := by simpa using hst
            rcases hterm hnf' ht1 with h' | h'
            · exact absurd h' hst'
            · have hr0 : m.round = 0 := (MsgValid.msgOk (W := W) hop) h'
              rw [postReceive_noop _ _ _ (by omega)]
              exact GOK.nil hi
          · exact postReceive_gok now m.round hi ht1
        · exact hg

theorem GInv_init (W : Votes) (me : Pid) (cfg : Cfg) (tbl : Table) (input : Chain) (hin : input ≠ [])
    (hT : 0 < tbl.total) : GInv W me (init cfg tbl input) := by
  refine ⟨⟨?_, TallyWF_empty _ tbl, ?_, hin, hin, hT⟩, ?_, ?_⟩
  · intro e he
    simp [init] at he
    subst he
    exact RoundOK_empty W tbl 0
  · intro c hc
    simp [init] at hc
    subst hc
    refine ⟨?_, Or.inl (List.take_prefix _ _)⟩
    cases input with
    | nil => exact absurd rfl hin
    | cons a as => simp
  · intro hp; simp [init] at hp
  · intro _; rfl

/-- **Layer B.** For every run of the instance model over validated messages that reports no failure, and whose
broadcasts are the participant's own votes in `W`: every broadcast satisfies the guard of the abstract protocol. -/
theorem runFrom_guarded {s : State} (ops : List Op) (h : GInv W me s) (hq : DQ s)
    (hops : ∀ op ∈ ops, OpValidG W s.tbl op) (hown : OwnIn W me (runFrom s ops).2)
    (hnf : hasFailure (runFrom s ops).2 = false) :
    Guarded W s.tbl me s.input (runFrom s ops).2 ∧ GInv W me (runFrom s ops).1 := by
  induction ops generalizing s with
  | nil => exact ⟨by simpa [runFrom] using Guarded_nil, by simpa [runFrom] using h⟩
  | cons op ops ih =>
    rw [runFrom_cons] at hown hnf ⊢
    simp only [hasFailure_append, Bool.or_eq_false_iff] at hnf
    obtain ⟨ho1, ho2⟩ := OwnIn_append hown
    have hopv := hops op (by simp)
    have hmsg : OpOk op := by
      cases op with
      | recv now m => exact MsgValid.msgOk (W := W) hopv
      | start _ => trivial
      | alarm _ => trivial
    rcases step_gok (me := me) op h hq hopv with hf | hk
    · exact absurd (hf.symm.trans hnf.1) (by decide)
    · obtain ⟨hi1, hg1⟩ := hk ho1
      have hq1 : DQ (step s op).1 := by
        rcases step_ok s op hq hmsg with hf | ⟨_, hq'⟩
        · exact absurd (hf.symm.trans hnf.1) (by decide)
        · exact hq'
      have htb := step_tbl s op
      have hinp : (step s op).1.input = s.input := by
        have := (runFrom_wp s [op] hq (by intro o ho; simp at ho; subst ho; exact hmsg) (by simpa [runFrom] using hnf.1))
        -- input is preserved by every step (frame)
        cases op with
        | start now => simp [step]
        | alarm now => exact (tryCurrentPhase_tbl_input s now).2
        | recv now m =>
          unfold step
          dsimp only
          split
          · rfl
          · have hti := receiveOne_tbl_input s now m
            generalize s.receiveOne now m = ro at *
            obtain ⟨r, changed⟩ := ro
            dsimp only at *
            split
            · exact hti.2
            · split
              · unfold andThen; split
                · exact hti.2
                · simp; exact hti.2
              · exact hti.2
      have := ih hi1 hq1 (fun o ho => by rw [htb]; exact hops o (by simp [ho])) ho2 hnf.2
      rw [htb, hinp] at this
      exact ⟨Guarded_append hg1 this.1, this.2⟩

end F3.Instance
