import F3.Model.GoInt
/-!
# Helper lemmas for the `*_is_regenerated` / `*_is_the_codes` theorems

The generated definitions (`F3/Gen/*.lean`) are over `Int` with the explicit `F3.GoInt.u64` wrap; most
hand models are over `Nat`. These lemmas move the wrap across the cast. Core-only.
-/
namespace F3.Proofs.GenTie
open F3.GoInt

/-- the `Int` wrap of a cast natural number is the cast of the `Nat` remainder -/
theorem u64_natCast (n : Nat) : u64 (n : Int) = ((n % 18446744073709551616 : Nat) : Int) := by
  unfold u64; omega

/-- … with `2 ^ 64` written as a power -/
theorem u64_natCast_pow (n : Nat) : u64 (n : Int) = ((n % 2 ^ 64 : Nat) : Int) := by
  unfold u64; omega

/-- no wrap below `2 ^ 64` -/
theorem u64_of_lt (x : Int) (h0 : 0 ≤ x) (h1 : x < 2 ^ 64) : u64 x = x := by
  unfold u64; omega

/-- wrap of a difference that went below zero once -/
theorem u64_sub_wrap (x : Int) (h0 : -(2 ^ 64) ≤ x) (h1 : x < 0) : u64 x = x + 2 ^ 64 := by
  unfold u64; omega

end F3.Proofs.GenTie
