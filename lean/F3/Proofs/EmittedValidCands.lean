import F3.Proofs.EmittedValid
/-!
# The longest-prefix spec made tight, and completeness of the candidate set

* `longest_prefix_maximal`: nothing longer than `longestPrefixWithQuorum` has a strong quorum in the tally;
  `longest_prefix_unique`: with that clause the spec determines the function.
* `CCI`: after `Start`, in CONVERGE / PREPARE / COMMIT every prefix of the proposal formed from the QUALITY votes
  delivered so far (late ones included) is a candidate; `PrepOK`: every prefix of the value of a justification-free
  PREPARE (the round-0 PREPARE) is a candidate of every later state. Both are invariants of runs (`runFrom_cci`).
* `findBest_of_overall_best`, `tryConverge_adopts`: the best ticket overall is adopted as soon as it is a candidate.

Core-only.
-/
namespace F3.EmittedValid
open F3.Instance

/-! ## `longestPrefixWithQuorum` -/

/-- scanning `f (n-1), …, f 0` for the first hit -/
theorem find_rev_range {α} (f : Nat → α) (S : α → Bool) (n : Nat) :
    (∃ j, j < n ∧ ((List.range n).reverse.map f).find? S = some (f j) ∧ S (f j) = true ∧
        ∀ i, j < i → i < n → S (f i) = false) ∨
    (((List.range n).reverse.map f).find? S = none ∧ ∀ i, i < n → S (f i) = false) := by
  induction n with
  | zero => exact Or.inr ⟨rfl, fun i hi => absurd hi (Nat.not_lt_zero _)⟩
  | succ n ih =>
    rw [List.range_succ, List.reverse_append]
    simp only [List.reverse_cons, List.reverse_nil, List.nil_append, List.singleton_append, List.map_cons,
      List.find?_cons]
    cases hS : S (f n) with
    | true =>
      exact Or.inl ⟨n, Nat.lt_succ_self _, rfl, hS, fun i h1 h2 => by omega⟩
    | false =>
      rcases ih with ⟨j, hj, h1, h2, h3⟩ | ⟨h1, h2⟩
      · refine Or.inl ⟨j, by omega, h1, h2, ?_⟩
        intro i hi1 hi2
        by_cases hin : i = n
        · rw [hin]; exact hS
        · exact h3 i hi1 (by omega)
      · refine Or.inr ⟨h1, ?_⟩
        intro i hi
        by_cases hin : i = n
        · rw [hin]; exact hS
        · exact h2 i (by omega)

theorem prefix_eq_prefixTo {x c : Chain} (hx : x <+: c) (hne : x ≠ []) : x = prefixTo c (x.length - 1) := by
  have hkl : 0 < x.length := List.length_pos_iff.2 hne
  unfold prefixTo
  rw [show x.length - 1 + 1 = x.length by omega]
  exact List.prefix_iff_eq_take.1 hx

theorem prefixTo_length (c : Chain) (i : Nat) (hi : i < c.length) : (prefixTo c i).length = i + 1 := by
  unfold prefixTo; rw [List.length_take]; omega

/-- **Maximality.** No prefix of the preferred chain that is longer than the result has a strong quorum. -/
theorem longest_prefix_maximal (q : Tally) (c x : Chain) (hx : x <+: c)
    (hl : (q.longestPrefixWithQuorum c).length < x.length) : q.hasStrongFor x = false := by
  have hne : x ≠ [] := by intro h; rw [h] at hl; simp at hl
  have hle := hx.length_le
  have hkl : 0 < x.length := List.length_pos_iff.2 hne
  have hkt := prefix_eq_prefixTo hx hne
  unfold Tally.longestPrefixWithQuorum at hl
  split at hl
  · omega
  · rcases find_rev_range (prefixTo c) q.hasStrongFor c.length with ⟨j, hj, h1, _, h3⟩ | ⟨h1, h2⟩
    · simp only [h1] at hl
      rw [prefixTo_length c j hj] at hl
      have := h3 (x.length - 1) (by omega) (by omega)
      rw [← hkt] at this; exact this
    · have := h2 (x.length - 1) (by omega)
      rw [← hkt] at this; exact this

/-- the same, indexed as in `ECChain.Prefix` -/
theorem longest_prefix_maximal_idx (q : Tally) (c : Chain) (i : Nat)
    (h1 : (q.longestPrefixWithQuorum c).length ≤ i) (h2 : i < c.length) :
    q.hasStrongFor (prefixTo c i) = false :=
  longest_prefix_maximal q c _ (prefixTo_prefix c i) (by rw [prefixTo_length c i h2]; omega)

theorem longest_prefix_sat (q : Tally) (c : Chain) :
    q.longestPrefixWithQuorum c = baseChain c ∨ q.hasStrongFor (q.longestPrefixWithQuorum c) = true := by
  unfold Tally.longestPrefixWithQuorum
  split
  · rename_i h; exact Or.inr h
  · rcases find_rev_range (prefixTo c) q.hasStrongFor c.length with ⟨j, _, h1, h2, _⟩ | ⟨h1, _⟩
    · simp only [h1]; exact Or.inr h2
    · simp only [h1]; exact Or.inl trivial

theorem baseChain_length (c : Chain) (hc : c ≠ []) : (baseChain c).length = 1 := by
  cases c with
  | nil => exact absurd rfl hc
  | cons a as => simp [baseChain]

/-- **The spec is tight.** A non-empty prefix of `c` that is the base or has a strong quorum, and beyond which no
prefix of `c` has a strong quorum, *is* `longestPrefixWithQuorum c`. -/
theorem longest_prefix_unique (q : Tally) (c L' : Chain) (hc : c ≠ []) (hp : L' <+: c) (hne : L' ≠ [])
    (hs : L' = baseChain c ∨ q.hasStrongFor L' = true)
    (hmax : ∀ x, x <+: c → L'.length < x.length → q.hasStrongFor x = false) :
    L' = q.longestPrefixWithQuorum c := by
  obtain ⟨hpL, hneL⟩ := longest_prefix_facts q c hc
  have hl' : 0 < L'.length := List.length_pos_iff.2 hne
  have hl : 0 < (q.longestPrefixWithQuorum c).length := List.length_pos_iff.2 hneL
  have hb := baseChain_length c hc
  have heq : L'.length = (q.longestPrefixWithQuorum c).length := by
    rcases Nat.lt_trichotomy L'.length (q.longestPrefixWithQuorum c).length with h | h | h
    · exfalso
      rcases longest_prefix_sat q c with hbL | hsL
      · rw [hbL, hb] at h; omega
      · have := hmax _ hpL h; rw [hsL] at this; cases this
    · exact h
    · exfalso
      rcases hs with hbL | hsL
      · rw [hbL, hb] at h; omega
      · have := longest_prefix_maximal q c L' hp h; rw [hsL] at this; cases this
  have h1 : L' <+: q.longestPrefixWithQuorum c := List.prefix_of_prefix_length_le hp hpL (by omega)
  exact h1.eq_of_length heq

/-! ## completeness of the candidate set -/

/-- the proposal formed from the QUALITY votes delivered so far -/
def LP (s : State) : Chain := s.quality.longestPrefixWithQuorum s.input

/-- all prefixes, from the base and the prefixes `1 … len-1` (what `addCandidatePrefixes` adds) -/
theorem all_prefixes_mem (p : Chain) (C : List Chain) (hb : baseChain p ∈ C)
    (ha : ∀ l, 1 ≤ l → l ≤ p.length - 1 → prefixTo p l ∈ C) : ∀ l, prefixTo p l ∈ C := by
  intro l
  by_cases h0 : l = 0
  · subst h0; exact hb
  · by_cases hl : l ≤ p.length - 1
    · exact ha l (by omega) hl
    · have hfull : prefixTo p l = p := by
        unfold prefixTo; exact List.take_of_length_le (by omega)
      rw [hfull]
      by_cases h2 : 2 ≤ p.length
      · have := ha (p.length - 1) (by omega) (Nat.le_refl _)
        have hp : prefixTo p (p.length - 1) = p := by
          unfold prefixTo; exact List.take_of_length_le (by omega)
        rw [hp] at this; exact this
      · have : baseChain p = p := by
          unfold baseChain; exact List.take_of_length_le (by omega)
        rw [this] at hb; exact hb

theorem addCandidatePrefixes_adds (s : State) (c : Chain) (l : Nat) (h1 : 1 ≤ l) (h2 : l ≤ c.length - 1) :
    prefixTo c l ∈ (s.addCandidatePrefixes c).1.candidates := by
  have hk : l ∈ (List.range (c.length - 1)).reverse.map (· + 1) := by
    simp only [List.mem_map, List.mem_reverse, List.mem_range]
    exact ⟨l - 1, by omega, by omega⟩
  unfold State.addCandidatePrefixes
  exact addCandidatePrefixes_has_aux c _ (s, false) _ hk

theorem baseChain_lp (q : Tally) (c : Chain) : baseChain (q.longestPrefixWithQuorum c) = baseChain c := by
  by_cases hc : c = []
  · subst hc; simp [Tally.longestPrefixWithQuorum, baseChain]
  · obtain ⟨⟨tl, htl⟩, hne⟩ := longest_prefix_facts q c hc
    generalize q.longestPrefixWithQuorum c = L at *
    cases L with
    | nil => exact absurd rfl hne
    | cons a as => rw [← htl]; rfl

/-- `addCandidatePrefixes p` over a candidate set holding the base makes every prefix of `p` a candidate -/
theorem addCandidatePrefixes_complete (s : State) (p : Chain) (hb : baseChain p ∈ s.candidates) :
    ∀ l, prefixTo p l ∈ (s.addCandidatePrefixes p).1.candidates :=
  all_prefixes_mem p _ (addCandidatePrefixes_sub _ _ _ hb) (fun l h1 h2 => addCandidatePrefixes_adds s p l h1 h2)

/-- after `Start`; the base is a candidate; in CONVERGE / PREPARE / COMMIT every prefix of the QUALITY proposal
(over the QUALITY votes delivered so far) is a candidate -/
structure CCI (s : State) : Prop where
  started : s.phase ≠ .initial
  base : baseChain s.input ∈ s.candidates
  complete : s.phase.mid = true → ∀ l, prefixTo (LP s) l ∈ s.candidates

/-- every prefix of the value of a justification-free PREPARE is a candidate of `s'` (run level: monotone) -/
def PrepC (s' : State) (es : List Eff) : Prop :=
  ∀ r v tk, Eff.broadcast r .prepare v tk none ∈ es → ∀ l, prefixTo v l ∈ s'.candidates

/-- step level: a justification-free PREPARE is broadcast only by a call that starts in QUALITY and leaves it; its
value is the proposal formed from the QUALITY tally as it stands after the call; all its prefixes are candidates -/
def PrepOK (s s' : State) (es : List Eff) : Prop :=
  ∀ r v tk, Eff.broadcast r .prepare v tk none ∈ es →
    s.phase = .quality ∧ v = LP s' ∧ s'.phase ≠ .quality ∧ ∀ l, prefixTo v l ∈ s'.candidates

theorem PrepOK.toC {s s' : State} {es : List Eff} (h : PrepOK s s' es) : PrepC s' es :=
  fun r v tk hm => (h r v tk hm).2.2.2

def NoPrepNone (es : List Eff) : Prop := ∀ r v tk, Eff.broadcast r .prepare v tk none ∉ es

structure Grow (s s' : State) : Prop where
  input : s'.input = s.input
  quality : s'.quality = s.quality
  cands : ∀ c ∈ s.candidates, c ∈ s'.candidates

theorem Grow.refl (s : State) : Grow s s := ⟨rfl, rfl, fun _ h => h⟩

theorem Grow.trans {a b c : State} (h1 : Grow a b) (h2 : Grow b c) : Grow a c :=
  ⟨h2.input.trans h1.input, h2.quality.trans h1.quality, fun x hx => h2.cands x (h1.cands x hx)⟩

def PhaseRel (a b : Phase) : Prop :=
  (a ≠ .initial → b ≠ .initial) ∧ (b.mid = true → a.mid = true) ∧ (b = .quality → a = .quality)

theorem PhaseRel.refl (a : Phase) : PhaseRel a a := And.intro id (And.intro id id)
theorem PhaseRel.trans {a b c : Phase} (h1 : PhaseRel a b) (h2 : PhaseRel b c) : PhaseRel a c :=
  And.intro (fun h => h2.1 (h1.1 h)) (And.intro (fun h => h1.2.1 (h2.2.1 h)) (fun h => h1.2.2 (h2.2.2 h)))
theorem PhaseRel.of_eq {a b : Phase} (h : b = a) : PhaseRel a b := h ▸ PhaseRel.refl a
theorem PhaseRel.to_decide (a : Phase) : PhaseRel a .decide := by
  unfold PhaseRel
  exact And.intro (fun _ => by decide) (And.intro (fun h => by simp [Phase.mid] at h) (fun h => by cases h))
theorem PhaseRel.to_terminated (a : Phase) : PhaseRel a .terminated := by
  unfold PhaseRel
  exact And.intro (fun _ => by decide) (And.intro (fun h => by simp [Phase.mid] at h) (fun h => by cases h))
theorem PhaseRel.mid {a b : Phase} (ha : a.mid = true) (hb : b.mid = true) : PhaseRel a b := by
  unfold PhaseRel
  refine And.intro (fun _ h => ?_) (And.intro (fun _ => ha) (fun h => ?_))
  · rw [h] at hb; simp [Phase.mid] at hb
  · rw [h] at hb; simp [Phase.mid] at hb

theorem CCI.grow {s s' : State} (h : CCI s) (g : Grow s s') (hp : PhaseRel s.phase s'.phase) : CCI s' := by
  refine ⟨hp.1 h.started, by rw [g.input]; exact g.cands _ h.base, fun hm l => ?_⟩
  have : LP s' = LP s := by unfold LP; rw [g.input, g.quality]
  rw [this]
  exact g.cands _ (h.complete (hp.2.1 hm) l)

/-- what one function of the model guarantees for the candidate set -/
structure CStepQ (s : State) (r : R) : Prop where
  input : r.1.input = s.input
  cands : ∀ c ∈ s.candidates, c ∈ r.1.candidates
  cci : CCI s → CCI r.1
  qphase : CCI s → r.1.phase = .quality → s.phase = .quality
  prep : CCI s → PrepOK s r.1 r.2

/-- … and leaves the QUALITY tally alone (everything but the delivery of a QUALITY vote) -/
structure CStep (s : State) (r : R) : Prop extends CStepQ s r where
  quality : r.1.quality = s.quality

/-- a function that leaves the QUALITY tally alone, only adds candidates, does not enter CONVERGE / PREPARE / COMMIT
from outside and broadcasts no justification-free PREPARE -/
structure Plain (s : State) (r : R) : Prop where
  grow : Grow s r.1
  phase : PhaseRel s.phase r.1.phase
  noPrep : NoPrepNone r.2

theorem Plain.cstep {s : State} {r : R} (h : Plain s r) : CStep s r :=
  ⟨⟨h.grow.input, h.grow.cands, fun hc => hc.grow h.grow h.phase, fun _ hq => h.phase.2.2 hq,
    fun _ r' v tk hm => absurd hm (h.noPrep r' v tk)⟩, h.grow.quality⟩

theorem NoPrepNone_nil : NoPrepNone [] := fun _ _ _ h => by simp at h
theorem NoPrepNone_append {a b : List Eff} (ha : NoPrepNone a) (hb : NoPrepNone b) : NoPrepNone (a ++ b) := by
  intro r v tk hm
  rcases List.mem_append.1 hm with hm | hm
  · exact ha r v tk hm
  · exact hb r v tk hm

theorem NoPrepNone_of_evs_nil {es : List Eff} (h : evs es = []) : NoPrepNone es :=
  fun _ _ _ hm => not_bc_of_evs_nil h hm

theorem Plain.same {s : State} {es : List Eff} (h : NoPrepNone es) : Plain s (s, es) :=
  ⟨Grow.refl s, PhaseRel.refl _, h⟩

theorem Plain.of_fields {s s1 : State} {r : R} (h : Plain s1 r) (hi : s1.input = s.input) (hq : s1.quality = s.quality)
    (hc : s1.candidates = s.candidates) (hph : s1.phase = s.phase) : Plain s r :=
  ⟨⟨h.grow.input.trans hi, h.grow.quality.trans hq, fun c hcm => h.grow.cands c (by rw [hc]; exact hcm)⟩,
    by rw [← hph]; exact h.phase, h.noPrep⟩

theorem CStep.of_fields {s s1 : State} {r : R} (h : CStep s1 r) (hi : s1.input = s.input) (hq : s1.quality = s.quality)
    (hc : s1.candidates = s.candidates) (hph : s1.phase = s.phase) : CStep s r := by
  have hcci : CCI s → CCI s1 := fun hcs =>
    hcs.grow ⟨hi, hq, fun c hcm => by rw [hc]; exact hcm⟩ (PhaseRel.of_eq hph)
  exact ⟨⟨h.input.trans hi, fun c hcm => h.cands c (by rw [hc]; exact hcm), fun hcs => h.cci (hcci hcs),
    fun hcs hqq => by rw [← hph]; exact h.qphase (hcci hcs) hqq,
    fun hcs r' v tk hm => by rw [← hph]; exact h.prep (hcci hcs) r' v tk hm⟩, h.quality.trans hq⟩

theorem PrepC_mono {s s' : State} {es : List Eff} (h : PrepC s es) (hc : ∀ c ∈ s.candidates, c ∈ s'.candidates) :
    PrepC s' es := fun r v tk hm l => hc _ (h r v tk hm l)

theorem PrepC_append {s : State} {a b : List Eff} (ha : PrepC s a) (hb : PrepC s b) : PrepC s (a ++ b) := by
  intro r v tk hm
  rcases List.mem_append.1 hm with hm | hm
  · exact ha r v tk hm
  · exact hb r v tk hm

/-- sequencing: the second function leaves the QUALITY tally alone -/
theorem CStepQ.andThen {s : State} {r : R} {f : State → R} (h1 : CStepQ s r) (h2 : CStep r.1 (f r.1)) :
    CStepQ s (andThen r f) := by
  unfold Instance.andThen
  split
  · exact h1
  · refine ⟨h2.input.trans h1.input, fun c hc => h2.cands c (h1.cands c hc), fun hc => h2.cci (h1.cci hc),
      fun hc hq => h1.qphase hc (h2.qphase (h1.cci hc) hq), fun hc r' v tk hm => ?_⟩
    have hc1 := h1.cci hc
    rcases List.mem_append.1 hm with hm | hm
    · obtain ⟨a1, a2, a3, a4⟩ := h1.prep hc r' v tk hm
      refine ⟨a1, ?_, fun hq => a3 (h2.qphase hc1 hq), fun l => h2.cands _ (a4 l)⟩
      rw [a2]; unfold LP; rw [h2.input, h2.quality]
    · obtain ⟨a1, a2, a3, a4⟩ := h2.prep hc1 r' v tk hm
      exact ⟨h1.qphase hc a1, a2, a3, a4⟩

theorem CStep.andThen {s : State} {r : R} {f : State → R} (h1 : CStep s r) (h2 : CStep r.1 (f r.1)) :
    CStep s (andThen r f) := by
  refine ⟨CStepQ.andThen h1.toCStepQ h2, ?_⟩
  unfold Instance.andThen
  split
  · exact h1.quality
  · exact h2.quality.trans h1.quality

/-! ### the plain functions -/

theorem tryRebroadcast_plain (s : State) (now : Int) : Plain s (s.tryRebroadcast now) :=
  ⟨⟨by simp, by simp, fun c hc => by simpa using hc⟩, PhaseRel.of_eq (tryRebroadcast_phase s now),
    NoPrepNone_of_evs_nil (tryRebroadcast_evs s now)⟩

theorem beginPrepare_phase (s : State) (now : Int) (j : Option Just) : (s.beginPrepare now j).1.phase = .prepare := by
  unfold State.beginPrepare State.alarmAfter State.resetReb; rfl

theorem beginPrepare_plain (s : State) (now : Int) (j : Just) (hm : s.phase.mid = true) :
    Plain s (s.beginPrepare now (some j)) := by
  refine ⟨⟨by simp, by simp, fun c hc => by simpa using hc⟩,
    PhaseRel.mid hm (by rw [beginPrepare_phase]; decide), ?_⟩
  intro r v tk hmem
  obtain ⟨_, _, _, h⟩ := beginPrepare_bc' _ _ _ _ _ _ _ _ hmem
  cases h

theorem beginCommit_plain (s : State) (now : Int) (hm : s.phase.mid = true) : Plain s (s.beginCommit now) := by
  refine ⟨⟨by simp, by simp, fun c hc => by simpa using hc⟩,
    PhaseRel.mid hm (by rw [(beginCommit_phase_round s now).1]; decide), ?_⟩
  intro r v tk hmem
  obtain ⟨_, h, _⟩ := beginCommit_bc _ _ _ _ _ _ _ hmem
  cases h

theorem beginConverge_phase (s : State) (now : Int) (j : Just) :
    (s.beginConverge now j).1.phase = s.phase ∨ (s.beginConverge now j).1.phase = .converge := by
  unfold State.beginConverge State.alarmAfter State.resetReb State.setRound
  dsimp only
  split
  · exact Or.inl rfl
  · exact Or.inr rfl

theorem beginConverge_noPrep (s : State) (now : Int) (j : Just) : NoPrepNone (s.beginConverge now j).2 := by
  intro r v tk hmem
  have := beginConverge_bc _ _ _ _ _ _ _ _ hmem
  cases this

theorem beginConverge_plain (s : State) (now : Int) (j : Just) (hm : s.phase.mid = true) :
    Plain s (s.beginConverge now j) := by
  refine ⟨⟨by simp, by simp, fun c hc => by simpa using hc⟩, ?_, beginConverge_noPrep s now j⟩
  rcases beginConverge_phase s now j with h | h
  · exact PhaseRel.of_eq h
  · exact PhaseRel.mid hm (by rw [h]; decide)

theorem beginDecide_plain (s : State) (round : Nat) : Plain s (s.beginDecide round) := by
  refine ⟨⟨by simp, by simp, fun c hc => by simpa using hc⟩, ?_, ?_⟩
  · rw [(beginDecide_res s round).1]; exact PhaseRel.to_decide _
  · intro r v tk hmem
    obtain ⟨_, h, _⟩ := beginDecide_bc _ _ _ _ _ _ _ hmem
    cases h

theorem skipToDecide_plain (s : State) (v : Chain) (j : Option Just) : Plain s (s.skipToDecide v j) := by
  refine ⟨⟨by simp, by simp, fun c hc => by simpa using hc⟩, ?_, ?_⟩
  · rw [skipToDecide_phase]; exact PhaseRel.to_decide _
  · intro r v' tk hmem
    simp [State.skipToDecide, State.resetReb] at hmem

theorem beginNextRound_plain (s : State) (now : Int) (hm : s.phase.mid = true) : Plain s (s.beginNextRound now) := by
  unfold State.beginNextRound
  dsimp only
  split
  · exact Plain.of_fields (beginConverge_plain _ now _ hm) rfl rfl rfl rfl
  · exact ⟨⟨rfl, rfl, fun _ h => h⟩, PhaseRel.refl _, fun r v tk hmem => by simp at hmem⟩

theorem tryConverge_plain (s : State) (now : Int) : Plain s (s.tryConverge now) := by
  unfold State.tryConverge
  dsimp only
  split
  · exact Plain.same (fun r v tk hm => by simp at hm)
  · rename_i hph
    have hq : s.phase = .converge := by simpa using hph
    split
    · split
      · exact tryRebroadcast_plain s now
      · exact Plain.same NoPrepNone_nil
    · split
      · exact Plain.same (fun r v tk hm => by simp at hm)
      · rename_i w hw
        split
        · exact Plain.same (fun r v tk hm => by simp at hm)
        · have hp := beginPrepare_plain ({ (s.addCandidate w.chain).1 with proposal := w.chain, value := w.chain } : State)
            now w.just (by simp [hq, Phase.mid])
          refine ⟨⟨by simp, by simp, fun c hc => ?_⟩, ?_, hp.noPrep⟩
          · exact hp.grow.cands c (addCandidate_sub _ _ _ hc)
          · have := hp.phase
            simpa using this

theorem tryPrepare_plain (s : State) (now : Int) : Plain s (s.tryPrepare now) := by
  unfold State.tryPrepare
  dsimp only
  split
  · exact Plain.same (fun r v tk hm => by simp at hm)
  · rename_i hph
    have hq : s.phase = .prepare := by simpa using hph
    split
    · exact Plain.of_fields (beginCommit_plain (s.prepareValue now) now (by simp [hq, Phase.mid]))
        (by simp) (by simp) (by simp) (by simp)
    · split
      · exact Plain.of_fields (tryRebroadcast_plain (s.prepareValue now) now)
          (by simp) (by simp) (by simp) (by simp)
      · exact ⟨⟨by simp, by simp, fun c hc => by simpa using hc⟩, PhaseRel.of_eq (by simp),
          NoPrepNone_nil⟩

theorem commitSway_grow (s : State) (q : Tally) : Grow s (s.commitSway q) := by
  refine ⟨by simp, by simp, fun c hc => ?_⟩
  rcases commitSway_cases s q with ⟨_, heq⟩ | ⟨v, _, hcands, _⟩
  · rw [heq]; exact hc
  · rw [hcands]; exact addCandidate_sub _ _ _ hc

theorem tryCommit_plain (s : State) (now : Int) (round : Nat) : Plain s (s.tryCommit now round) := by
  unfold State.tryCommit
  dsimp only
  split
  · exact Plain.same (fun r v tk hm => by simp at hm)
  · split
    · exact Plain.of_fields (beginDecide_plain _ round) rfl rfl rfl rfl
    · split
      · exact Plain.same NoPrepNone_nil
      · rename_i hg
        simp only [Bool.or_eq_true, bne_iff_ne, ne_eq, not_or, Decidable.not_not] at hg
        exact beginNextRound_plain s now (by simp [hg.2, Phase.mid])
  · split
    · exact Plain.same NoPrepNone_nil
    · rename_i hg
      simp only [Bool.or_eq_true, bne_iff_ne, ne_eq, not_or, Decidable.not_not] at hg
      have hmid : s.phase.mid = true := by simp [hg.2, Phase.mid]
      split
      · exact beginNextRound_plain s now hmid
      · split
        · have hp := beginNextRound_plain (s.commitSway (s.getRound round).committed) now (by simpa using hmid)
          have hgw := commitSway_grow s (s.getRound round).committed
          exact ⟨hgw.trans hp.grow, by have := hp.phase; simpa using this, hp.noPrep⟩
        · split
          · exact tryRebroadcast_plain s now
          · exact Plain.same NoPrepNone_nil

theorem tryDecide_plain (s : State) (now : Int) : Plain s (s.tryDecide now) := by
  unfold State.tryDecide
  split
  · exact Plain.same (fun r v tk hm => by simp at hm)
  · split
    · exact ⟨⟨rfl, rfl, fun _ h => h⟩, PhaseRel.to_terminated _,
        fun r v tk hm => by simp [State.terminate, State.resetReb] at hm⟩
    · exact Plain.same (fun r v tk hm => by simp at hm)
    · exact Plain.same (fun r v tk hm => by simp at hm)
  · exact tryRebroadcast_plain s now

/-! ### the end of QUALITY -/

theorem tryQuality_cstep (s : State) (now : Int) : CStep s (s.tryQuality now) := by
  unfold State.tryQuality
  dsimp only
  split
  · exact (Plain.same (fun r v tk hm => by simp at hm)).cstep
  · rename_i hph
    have hq : s.phase = .quality := by simpa using hph
    split
    · -- the state in which PREPARE begins
      have hcomp : CCI s → ∀ l, prefixTo (LP s) l ∈
          (({ s with proposal := s.quality.longestPrefixWithQuorum s.input } : State).addCandidatePrefixes
            (s.quality.longestPrefixWithQuorum s.input)).1.candidates := by
        intro hc
        exact addCandidatePrefixes_complete _ _ (by rw [baseChain_lp]; exact hc.base)
      have hlp : LP ((({ (({ s with proposal := s.quality.longestPrefixWithQuorum s.input } : State).addCandidatePrefixes
            (s.quality.longestPrefixWithQuorum s.input)).1 with
            value := (({ s with proposal := s.quality.longestPrefixWithQuorum s.input } : State).addCandidatePrefixes
              (s.quality.longestPrefixWithQuorum s.input)).1.proposal } : State).beginPrepare now none).1) = LP s := by
        unfold LP; simp
      refine ⟨⟨by simp, fun c hc => ?_, fun hc => ⟨?_, ?_, fun _ l => ?_⟩, fun _ hqq => ?_, fun hc r v tk hm => ?_⟩, by simp⟩
      · simpa using addCandidatePrefixes_sub ({ s with proposal := s.quality.longestPrefixWithQuorum s.input } : State) _ c hc
      · rw [beginPrepare_phase]; decide
      · simpa using addCandidatePrefixes_sub ({ s with proposal := s.quality.longestPrefixWithQuorum s.input } : State) _ _ hc.base
      · rw [hlp]
        simpa using hcomp hc l
      · rw [beginPrepare_phase] at hqq; cases hqq
      · obtain ⟨_, _, hv, _⟩ := beginPrepare_bc' _ _ _ _ _ _ _ _ hm
        have hv' : v = LP s := by rw [hv]; simp [LP]
        refine ⟨hq, by rw [hlp]; exact hv', by rw [beginPrepare_phase]; decide, fun l => ?_⟩
        rw [hv']
        simpa using hcomp hc l
    · exact (Plain.same NoPrepNone_nil).cstep

theorem tryCurrentPhase_cstep (s : State) (now : Int) : CStep s (s.tryCurrentPhase now) := by
  unfold State.tryCurrentPhase
  split
  · exact tryQuality_cstep s now
  · exact (tryConverge_plain s now).cstep
  · exact (tryPrepare_plain s now).cstep
  · exact (tryCommit_plain s now s.round).cstep
  · exact (tryDecide_plain s now).cstep
  · exact (Plain.same NoPrepNone_nil).cstep
  · exact (Plain.same (fun r v tk hm => by simp at hm)).cstep

/-! ### receive handlers -/

theorem recvQuality_cstep (s : State) (now : Int) (m : Msg) : CStepQ s (s.recvQuality now m) := by
  unfold State.recvQuality
  dsimp only
  split
  · rename_i hph
    -- a late QUALITY vote: the candidates are brought up to date
    refine ⟨by simp [State.updateCandidatesFromQuality], fun c hc => ?_, fun hc => ⟨?_, ?_, fun _ l => ?_⟩,
      fun _ hqq => ?_, fun _ r v tk hm => by simp at hm⟩
    · exact addCandidatePrefixes_sub ({ s with quality := s.quality.receiveEachPrefix s.tbl m.sender m.value } : State) _ c hc
    · simpa [State.updateCandidatesFromQuality] using hc.started
    · simpa [State.updateCandidatesFromQuality] using
        addCandidatePrefixes_sub ({ s with quality := s.quality.receiveEachPrefix s.tbl m.sender m.value } : State) _ _ hc.base
    · have : LP (({ s with quality := s.quality.receiveEachPrefix s.tbl m.sender m.value } : State).updateCandidatesFromQuality) =
          (s.quality.receiveEachPrefix s.tbl m.sender m.value).longestPrefixWithQuorum s.input := by
        unfold LP State.updateCandidatesFromQuality; simp
      rw [this]
      exact addCandidatePrefixes_complete ({ s with quality := s.quality.receiveEachPrefix s.tbl m.sender m.value } : State) _
        (by rw [baseChain_lp]; exact hc.base) l
    · simpa [State.updateCandidatesFromQuality] using hqq
  · rename_i hph
    have hq : s.phase = .quality := by simpa using hph
    have h1 := tryCurrentPhase_cstep ({ s with quality := s.quality.receiveEachPrefix s.tbl m.sender m.value } : State) now
    have hcci : CCI s → CCI ({ s with quality := s.quality.receiveEachPrefix s.tbl m.sender m.value } : State) :=
      fun hc => ⟨hc.started, hc.base, fun hm => by simp [hq, Phase.mid] at hm⟩
    exact ⟨h1.input, h1.cands, fun hc => h1.cci (hcci hc), fun _ _ => hq,
      fun hc r v tk hm => by
        obtain ⟨_, a2, a3, a4⟩ := h1.prep (hcci hc) r v tk hm
        exact ⟨hq, a2, a3, a4⟩⟩

theorem recvConverge_cstep (s : State) (now : Int) (m : Msg) (j : Just) : CStep s (s.recvConverge now m j) := by
  unfold State.recvConverge
  dsimp only
  exact CStep.of_fields (tryCurrentPhase_cstep _ now) rfl rfl rfl rfl

theorem recvPrepare_cstep (s : State) (now : Int) (m : Msg) : CStep s (s.recvPrepare now m) := by
  unfold State.recvPrepare
  dsimp only
  split
  · exact (Plain.same (fun r v tk hm => by simp at hm)).cstep
  · exact CStep.of_fields (tryCurrentPhase_cstep _ now) rfl rfl rfl rfl

theorem recvCommit_cstep (s : State) (now : Int) (m : Msg) : CStep s (s.recvCommit now m) := by
  unfold State.recvCommit
  dsimp only
  split
  · exact (Plain.same (fun r v tk hm => by simp at hm)).cstep
  · split
    · exact (Plain.same (fun r v tk hm => by simp at hm)).cstep
    · split
      · split
        · exact CStep.of_fields
            (CStep.andThen (tryCommit_plain _ now m.round).cstep (tryCurrentPhase_cstep _ now)) rfl rfl rfl rfl
        · exact CStep.of_fields (tryCommit_plain _ now m.round).cstep rfl rfl rfl rfl
      · exact CStep.of_fields (tryCurrentPhase_cstep _ now) rfl rfl rfl rfl

theorem recvDecide_cstep (s : State) (now : Int) (m : Msg) : CStep s (s.recvDecide now m) := by
  unfold State.recvDecide
  dsimp only
  split
  · exact (Plain.same (fun r v tk hm => by simp at hm)).cstep
  · split
    · exact CStep.of_fields
        (CStep.andThen (skipToDecide_plain _ m.value m.just).cstep (tryCurrentPhase_cstep _ now)) rfl rfl rfl rfl
    · exact CStep.of_fields (tryCurrentPhase_cstep _ now) rfl rfl rfl rfl

theorem receiveOne_cstep (s : State) (now : Int) (m : Msg) : CStepQ s (s.receiveOne now m).1 := by
  rcases receiveOne_cases' s now m with ⟨k, heq⟩ | heq | ⟨_, heq⟩ | ⟨j, _, _, _, heq⟩ | ⟨_, heq⟩ | ⟨_, _, heq⟩ | ⟨_, _, heq⟩
  · rw [heq]; exact (Plain.same (fun r v tk hm => by simp at hm)).cstep.toCStepQ
  · rw [heq]; exact (Plain.same NoPrepNone_nil).cstep.toCStepQ
  · rw [heq]; exact recvQuality_cstep s now m
  · rw [heq]; exact (recvConverge_cstep s now m j).toCStepQ
  · rw [heq]; exact (recvPrepare_cstep s now m).toCStepQ
  · rw [heq]; exact (recvCommit_cstep s now m).toCStepQ
  · rw [heq]; exact (recvDecide_cstep s now m).toCStepQ

/-! ### postReceive: QUALITY cut short by a skip to a future round -/

theorem skipState_quality_input (s : State) (round : Nat) (p : ConvVal) :
    (skipState s round p).quality = s.quality ∧ (skipState s round p).input = s.input := by
  unfold skipState
  dsimp only
  split <;> split <;> simp

theorem skipState_complete (s : State) (round : Nat) (p : ConvVal) (hq : s.phase = .quality)
    (hb : baseChain s.input ∈ s.candidates) : ∀ l, prefixTo (LP s) l ∈ (skipState s round p).candidates := by
  intro l
  have hcomp := addCandidatePrefixes_complete
    ({ s with round := round, proposal := s.quality.longestPrefixWithQuorum s.input } : State)
    (s.quality.longestPrefixWithQuorum s.input) (by rw [baseChain_lp]; exact hb) l
  unfold skipState
  dsimp only
  split
  · simp only
    apply addCandidate_sub
    rw [if_pos (by simp [hq])]
    exact hcomp
  · rw [if_pos (by simp [hq])]
    exact hcomp

theorem postReceive_cstep (s : State) (now : Int) (round : Nat) (hnt : s.phase ≠ .terminated) :
    CStep s (s.postReceive now round) := by
  rcases postReceive_eq s now round with heq | ⟨p, _, _, _, hnd, heq⟩
  · rw [heq]; exact (Plain.same NoPrepNone_nil).cstep
  · rw [heq]
    obtain ⟨hqual, hinp⟩ := skipState_quality_input s round p
    obtain ⟨_, _, _, _, _, hph⟩ := skipState_fields s round p
    have hcands : ∀ c ∈ s.candidates, c ∈ ((skipState s round p).beginConverge now p.just).1.candidates := by
      intro c hc; simpa using skipState_sub s round p c hc
    refine ⟨⟨by simpa using hinp, hcands, fun hc => ⟨?_, ?_, fun hm l => ?_⟩, fun _ hqq => ?_,
      fun _ r v tk hm => absurd hm (beginConverge_noPrep _ now _ r v tk)⟩, by simpa using hqual⟩
    · rcases beginConverge_phase (skipState s round p) now p.just with h | h
      · rw [h, hph]; exact hc.started
      · rw [h]; decide
    · have := hcands _ hc.base
      simpa [hinp] using this
    · have hlp : LP ((skipState s round p).beginConverge now p.just).1 = LP s := by
        unfold LP; simp [hqual, hinp]
      rw [hlp]
      by_cases hq : s.phase = .quality
      · simpa using skipState_complete s round p hq hc.base l
      · -- already past QUALITY: the phase was CONVERGE / PREPARE / COMMIT
        have hmid : s.phase.mid = true := by
          have h0 := hc.started
          cases hp : s.phase <;> simp_all [Phase.mid]
        exact hcands _ (hc.complete hmid l)
    · rcases beginConverge_phase (skipState s round p) now p.just with h | h
      · rw [h, hph] at hqq; exact hqq
      · rw [h] at hqq; cases hqq

/-! ### step, runs -/

theorem step_cstep (s : State) (op : Op) (hq : DQ s) (hop : OpOk op) : CStepQ s (step s op) := by
  cases op with
  | start now =>
    unfold step State.beginQuality State.alarmAfter State.resetReb
    dsimp only
    split
    · exact (Plain.same (fun r v tk hm => by simp at hm)).cstep.toCStepQ
    · rename_i hph
      have hi : s.phase = .initial := by simpa using hph
      exact ⟨rfl, fun _ h => h, fun hc => absurd hi hc.started, fun hc => absurd hi hc.started,
        fun hc => absurd hi hc.started⟩
  | alarm now => exact (tryCurrentPhase_cstep s now).toCStepQ
  | recv now m =>
    unfold step
    dsimp only
    split
    · exact (Plain.same (fun r v tk hm => by simp at hm)).cstep.toCStepQ
    · rename_i hst
      have hst' : s.phase ≠ .terminated := by simpa using hst
      have h1 := receiveOne_cstep s now m
      have hterm := fun hnf => receiveOne_term now m hq hnf
      generalize s.receiveOne now m = ro at *
      obtain ⟨r, changed⟩ := ro
      dsimp only at *
      split
      · exact h1
      · rename_i hnf
        have hnf' : hasFailure r.2 = false := by simpa using hnf
        split
        · refine CStepQ.andThen h1 ?_
          by_cases ht1 : r.1.phase = .terminated
          · rcases hterm hnf' ht1 with h' | h'
            · exact absurd h' hst'
            · have hr0 : m.round = 0 := hop h'
              rw [postReceive_noop _ _ _ (by omega)]
              exact (Plain.same NoPrepNone_nil).cstep
          · exact postReceive_cstep r.1 now m.round ht1
        · exact h1

/-- the state right after the one `Start` -/
theorem start_cci (cfg : Cfg) (t : Table) (input : Chain) (now : Int) :
    CCI (step (init cfg t input) (.start now)).1 ∧ PrepC (step (init cfg t input) (.start now)).1
      (step (init cfg t input) (.start now)).2 := by
  refine ⟨⟨by simp [step, State.beginQuality, init, State.alarmAfter, State.resetReb], ?_,
    fun hm => by simp [step, State.beginQuality, init, Phase.mid, State.alarmAfter, State.resetReb] at hm⟩, ?_⟩
  · simp [step, State.beginQuality, init, State.alarmAfter, State.resetReb, baseChain]
  · intro r v tk hm
    simp [step, State.beginQuality, init, State.alarmAfter, State.resetReb] at hm

/-- **Run level, failure-free runs.** `CCI` and `PrepC` are invariants of runs over validated messages. -/
theorem runFrom_cci {s : State} (ops : List Op) (pre : List Eff) (h : CCI s) (hp : PrepC s pre) (hq : DQ s)
    (hops : ∀ op ∈ ops, OpOk op) (hnf : hasFailure (runFrom s ops).2 = false) :
    CCI (runFrom s ops).1 ∧ PrepC (runFrom s ops).1 (pre ++ (runFrom s ops).2) ∧
      (∀ c ∈ s.candidates, c ∈ (runFrom s ops).1.candidates) := by
  induction ops generalizing s pre with
  | nil => exact ⟨by simpa [runFrom] using h, by simpa [runFrom] using hp, fun c hc => by simpa [runFrom] using hc⟩
  | cons op ops ih =>
    rw [runFrom_cons] at hnf ⊢
    simp only [hasFailure_append, Bool.or_eq_false_iff] at hnf
    have hmsg := hops op (by simp)
    have hcs := step_cstep s op hq hmsg
    have hq1 : DQ (step s op).1 := by
      rcases step_ok s op hq hmsg with hf | ⟨_, hq'⟩
      · exact absurd (hf.symm.trans hnf.1) (by decide)
      · exact hq'
    have hp1 : PrepC (step s op).1 (pre ++ (step s op).2) :=
      PrepC_append (PrepC_mono hp hcs.cands) (hcs.prep h).toC
    obtain ⟨i1, i2, i3⟩ := ih (pre ++ (step s op).2) (hcs.cci h) hp1 hq1 (fun o ho => hops o (by simp [ho])) hnf.2
    exact ⟨i1, by simpa [List.append_assoc] using i2, fun c hc => i3 c (hcs.cands c hc)⟩

/-! ### CONVERGE adoption -/

theorem rankLt_trans' {a t x : Option Nat} (h1 : rankLt a t = true) (h2 : rankLt x t = false) : rankLt a x = true := by
  cases a <;> cases t <;> cases x <;> simp_all [rankLt] <;> omega

theorem rankLt_irrefl' (a : Option Nat) : rankLt a a = false := by
  cases a <;> simp [rankLt]

theorem rankLt_trans'' {x c t : Option Nat} (h1 : rankLt x c = true) (h2 : rankLt c t = true) : rankLt x t = true := by
  cases x <;> cases c <;> cases t <;> simp_all [rankLt] <;> omega

/-- one step of `findBest`'s fold -/
def fbStep (f : ConvVal → Bool) (best : Option ConvVal) (cv : ConvVal) : Option ConvVal :=
  let better := match best with
    | none => true
    | some b => rankLt cv.rank b.rank
  if better && f cv then some cv else best

theorem findBest_eq_fold (c : Conv) (f : ConvVal → Bool) : c.findBest f = c.values.foldl (fbStep f) none := rfl

/-- coupling of the unfiltered and the filtered scan: the unfiltered best is at least as good; when it passes the
filter the two agree -/
def FBInv (f : ConvVal → Bool) (T F : Option ConvVal) : Prop :=
  match T with
  | none => F = none
  | some t => (f t = true → F = some t) ∧ ∀ x, F = some x → rankLt x.rank t.rank = false

theorem FBInv_step (f : ConvVal → Bool) (T F : Option ConvVal) (cv : ConvVal) (h : FBInv f T F) :
    FBInv f (fbStep (fun _ => true) T cv) (fbStep f F cv) := by
  cases T with
  | none =>
    have hF : F = none := h
    subst hF
    by_cases hf : f cv = true
    · simp [fbStep, FBInv, hf, rankLt_irrefl']
    · simp [fbStep, FBInv, hf]
  | some t =>
    obtain ⟨h1, h2⟩ := h
    by_cases hb : rankLt cv.rank t.rank = true
    · -- the new value beats the unfiltered best
      have hT : fbStep (fun _ => true) (some t) cv = some cv := by simp [fbStep, hb]
      rw [hT]
      by_cases hf : f cv = true
      · have hF : fbStep f F cv = some cv := by
          cases F with
          | none => simp [fbStep, hf]
          | some x => simp [fbStep, hf, rankLt_trans' hb (h2 x rfl)]
        rw [hF]
        exact ⟨fun _ => rfl, fun x hx => by cases hx; exact rankLt_irrefl' _⟩
      · have hF : fbStep f F cv = F := by
          cases F <;> simp [fbStep, hf]
        rw [hF]
        refine ⟨fun hc => absurd hc hf, fun x hx => ?_⟩
        have hxt := h2 x hx
        cases hxr : rankLt x.rank cv.rank with
        | false => rfl
        | true =>
          have := rankLt_trans'' hxr hb
          rw [hxt] at this; cases this
    · have hb' : rankLt cv.rank t.rank = false := by simpa using hb
      have hT : fbStep (fun _ => true) (some t) cv = some t := by simp [fbStep, hb']
      rw [hT]
      by_cases hft : f t = true
      · have hFt := h1 hft
        subst hFt
        have : fbStep f (some t) cv = some t := by simp [fbStep, hb']
        rw [this]
        exact ⟨fun _ => rfl, fun x hx => by cases hx; exact rankLt_irrefl' _⟩
      · refine ⟨fun hc => absurd hc hft, fun x hx => ?_⟩
        cases F with
        | none =>
          by_cases hf : f cv = true
          · simp [fbStep, hf] at hx; subst hx; exact hb'
          · simp [fbStep, hf] at hx
        | some y =>
          by_cases hc : (rankLt cv.rank y.rank && f cv) = true
          · simp [fbStep, hc] at hx; subst hx; exact hb'
          · simp [fbStep, hc] at hx; subst hx; exact h2 _ rfl

/-- **The best ticket overall wins whenever it is admissible.** If the first lowest-rank value among *all* CONVERGE
values passes the filter, it is also the first lowest-rank value among those passing the filter. -/
theorem findBest_of_overall_best (c : Conv) (f : ConvVal → Bool) (b : ConvVal)
    (hb : c.findBest (fun _ => true) = some b) (hf : f b = true) : c.findBest f = some b := by
  rw [findBest_eq_fold] at hb ⊢
  have key : ∀ (l : List ConvVal) (T F : Option ConvVal), FBInv f T F →
      FBInv f (l.foldl (fbStep (fun _ => true)) T) (l.foldl (fbStep f) F) := by
    intro l
    induction l with
    | nil => intro T F h; exact h
    | cons x xs ih => intro T F h; exact ih _ _ (FBInv_step f T F x h)
  have := key c.values none none rfl
  rw [hb] at this
  exact this.1 hf

/-- `tryConverge` adopts the best ticket overall as soon as its value is a candidate -/
theorem tryConverge_adopts (s : State) (now : Int) (b : ConvVal) (hph : s.phase = .converge)
    (hto : s.phaseTimeoutElapsed now = true)
    (hb : (s.getRound s.round).converged.findBest (fun _ => true) = some b) (hne : b.chain ≠ [])
    (hc : s.isCandidate b.chain = true) :
    Eff.broadcast s.round .prepare b.chain false (some b.just) ∈ (s.tryConverge now).2 := by
  have hfb := findBest_of_overall_best (s.getRound s.round).converged
    (fun cv => s.isCandidate cv.chain ||
      (cv.just.phase == .prepare && (s.getRound (s.round - 1)).committed.couldReach s.tbl cv.chain true)) b hb
    (by simp [hc])
  have hemp : b.chain.isEmpty = false := by cases hcb : b.chain <;> simp_all
  unfold State.tryConverge
  simp only [hph, hto, hfb, hemp, bne_self_eq_false, Bool.false_eq_true, if_false, Bool.not_true]
  unfold State.beginPrepare State.alarmAfter State.resetReb
  simp

/-! ### validated runs (no failure hypothesis) -/

theorem prepC_filter {s : State} {es : List Eff} : PrepC s (es.filter nonErr) ↔ PrepC s es := by
  constructor
  · intro h r v tk hm; exact h r v tk (bc_mem_filter_nonErr.2 hm)
  · intro h r v tk hm; exact h r v tk (bc_mem_filter_nonErr.1 hm)

/-- **`CCI` and `PrepC` hold along every validated run**: one `Start`, then alarms and validated (or foreign)
deliveries; no failure hypothesis. Also the Layer-B invariant (w.r.t. the trivial vote set) at the final state. -/
theorem run_cci (cfg : Cfg) (t : Table) (input : Chain) (W : Votes) (now0 : Int) (ops : List Op)
    (hin : input ≠ []) (hT : 0 < t.total)
    (hstart : ∀ op ∈ ops, op.isStart = false)
    (hvalid : ∀ op ∈ ops, foreignOp op = true ∨ OpValidG W t op) :
    CCI (run (init cfg t input) (.start now0 :: ops)).1 ∧
    PrepC (run (init cfg t input) (.start now0 :: ops)).1 (run (init cfg t input) (.start now0 :: ops)).2 ∧
    NFI (run (init cfg t input) (.start now0 :: ops)).1 ∧ DQ (run (init cfg t input) (.start now0 :: ops)).1 := by
  obtain ⟨h1, h2, h3⟩ := start_nf cfg t input now0 hin hT
  have htb : (step (init cfg t input) (.start now0)).1.tbl = t := by rw [step_tbl]; rfl
  have hnf := runFrom_nf ops h2 h3
    (fun o ho => ⟨hstart o ho, (hvalid o ho).imp id (fun hv => by rw [htb]; exact hv.top)⟩)
  obtain ⟨ops', p1, p2, p3, p4⟩ := clean_runI (OpValidG W t) _ _ hnf.1 hvalid
  obtain ⟨c0, c1⟩ := start_cci cfg t input now0
  have hops' : ∀ op ∈ ops', OpOk op := by
    intro op hop
    have := p1 op hop
    cases op with
    | recv now m => exact MsgValid.msgOk (W := W) this
    | start _ => trivial
    | alarm _ => trivial
  obtain ⟨i1, i2, _⟩ := runFrom_cci ops' _ c0 c1 h3 hops' p2
  rw [run_eq_runFrom, runFrom_cons]
  rw [p3] at i1 i2
  refine ⟨i1, ?_, hnf.2.1, hnf.2.2⟩
  rw [p4] at i2
  intro r v tk hm
  rcases List.mem_append.1 hm with hm | hm
  · exact i2 r v tk (List.mem_append_left _ hm)
  · exact i2 r v tk (List.mem_append_right _ (bc_mem_filter_nonErr.2 hm))

theorem mem_of_prefix_all {p x : Chain} {C : List Chain} (h : ∀ l, prefixTo p l ∈ C) (hx : x <+: p) (hne : x ≠ []) :
    x ∈ C := by
  rw [prefix_eq_prefixTo hx hne]; exact h _

end F3.EmittedValid
