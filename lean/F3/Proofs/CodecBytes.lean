import F3.Model.CodecBytes
import Mathlib.Tactic.Ring
import Mathlib.Tactic.Linarith
/-! Lemmas about the byte helpers of the encoding models (C14). -/
namespace F3.Codec

theorem beN_length (k n : Nat) : (beN k n).length = k := by
  induction k generalizing n with
  | zero => rfl
  | succ k ih => simp [beN, ih]

theorem beN_lt (k n : Nat) : ∀ x ∈ beN k n, x < 256 := by
  induction k generalizing n with
  | zero => intro x hx; simp [beN] at hx
  | succ k ih =>
    intro x hx
    simp only [beN, List.mem_append, List.mem_singleton] at hx
    rcases hx with hx | hx
    · exact ih _ x hx
    · subst hx; exact Nat.mod_lt _ (by decide)

theorem beN_inj (k : Nat) : ∀ a b : Nat, a < 256 ^ k → b < 256 ^ k → beN k a = beN k b → a = b := by
  induction k with
  | zero => intro a b ha hb _; simp at ha hb; omega
  | succ k ih =>
    intro a b ha hb h
    simp only [beN] at h
    have hl : (beN k (a / 256)).length = (beN k (b / 256)).length := by simp [beN_length]
    obtain ⟨h1, h2⟩ := List.append_inj h hl
    have h2' : a % 256 = b % 256 := by simpa using h2
    have ha' : a / 256 < 256 ^ k := by
      rw [Nat.div_lt_iff_lt_mul (by decide)]; rw [Nat.pow_succ] at ha; exact ha
    have hb' : b / 256 < 256 ^ k := by
      rw [Nat.div_lt_iff_lt_mul (by decide)]; rw [Nat.pow_succ] at hb; exact hb
    have h3 := ih _ _ ha' hb' h1
    omega

theorem fromBE_append_singleton (b : Bytes) (x : Nat) : fromBE (b ++ [x]) = fromBE b * 256 + x := by
  simp [fromBE, List.foldl_append]

theorem fromBE_beN (k : Nat) : ∀ n, n < 256 ^ k → fromBE (beN k n) = n := by
  induction k with
  | zero => intro n hn; simp at hn; subst hn; rfl
  | succ k ih =>
    intro n hn
    have hn' : n / 256 < 256 ^ k := by
      rw [Nat.div_lt_iff_lt_mul (by decide)]; rw [Nat.pow_succ] at hn; exact hn
    simp only [beN, fromBE_append_singleton, ih _ hn']
    omega

theorem be64_length (n : Nat) : (be64 n).length = 8 := beN_length _ _

theorem be64_inj {a b : Nat} (ha : a < 2 ^ 64) (hb : b < 2 ^ 64) (h : be64 a = be64 b) : a = b := by
  unfold be64 at h
  rw [Nat.mod_eq_of_lt ha, Nat.mod_eq_of_lt hb] at h
  exact beN_inj 8 a b (by norm_num at ha ⊢; exact ha) (by norm_num at hb ⊢; exact hb) h

/-- the model of a Go `uint64` field: two naturals are the same `uint64` iff equal mod 2^64 -/
theorem be64_eq_iff (a b : Nat) : be64 a = be64 b ↔ a % 2 ^ 64 = b % 2 ^ 64 := by
  constructor
  · intro h
    have := be64_inj (a := a % 2 ^ 64) (b := b % 2 ^ 64) (Nat.mod_lt _ (by norm_num)) (Nat.mod_lt _ (by norm_num))
      (by simpa [be64] using h)
    exact this
  · intro h; unfold be64; rw [h]

theorem i64bits_lt (e : Int) : i64bits e < 2 ^ 64 := by
  unfold i64bits
  have h1 : 0 ≤ e % 2 ^ 64 := Int.emod_nonneg _ (by norm_num)
  have h2 : e % 2 ^ 64 < 2 ^ 64 := Int.emod_lt_of_pos _ (by norm_num)
  omega

theorem i64bits_inj {a b : Int} (ha : -(2 ^ 63) ≤ a ∧ a < 2 ^ 63) (hb : -(2 ^ 63) ≤ b ∧ b < 2 ^ 63)
    (h : i64bits a = i64bits b) : a = b := by
  unfold i64bits at h
  have h1 : 0 ≤ a % 2 ^ 64 := Int.emod_nonneg _ (by norm_num)
  have h2 : 0 ≤ b % 2 ^ 64 := Int.emod_nonneg _ (by norm_num)
  have h3 : a % 2 ^ 64 = b % 2 ^ 64 := by omega
  omega

theorem be64i_length (e : Int) : (be64i e).length = 8 := be64_length _

theorem be64i_inj {a b : Int} (ha : -(2 ^ 63) ≤ a ∧ a < 2 ^ 63) (hb : -(2 ^ 63) ≤ b ∧ b < 2 ^ 63)
    (h : be64i a = be64i b) : a = b :=
  i64bits_inj ha hb (be64_inj (i64bits_lt a) (i64bits_lt b) h)

/-- two concatenations with equally long heads are equal only if heads and tails are -/
theorem append_inj_len {a b c d : Bytes} (h : a ++ b = c ++ d) (hl : a.length = c.length) : a = c ∧ b = d :=
  List.append_inj h hl

/-- equal concatenations with equally long *tails* -/
theorem append_inj_len_right {a b c d : Bytes} (h : a ++ b = c ++ d) (hl : b.length = d.length) : a = c ∧ b = d :=
  List.append_inj' h hl

end F3.Codec
