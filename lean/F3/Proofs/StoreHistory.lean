import F3.Proofs.StoreObserve
/-! Whole histories of handle operations refine the abstract history. -/
namespace F3.Store

/-- Operations on an open store. -/
inductive HOp where
  | put (c : Cert)
  | reopen (o : Orders)        -- drop the handle, `OpenStore`
  | sub
  | recv (i : Nat)
  | unsub (i : Nat)

/-- One operation of the model on (datastore, handle). -/
def stepH (cfg : Cfg) (w : DS × Mem) : HOp → DS × Mem
  | .put c =>
    match (put cfg w.2 c).res with
    | .ok m' => (applyWs w.1 (put cfg w.2 c).ws, m')
    | .error _ => (applyWs w.1 (put cfg w.2 c).ws, w.2)
  | .reopen o =>
    match (openStore cfg w.1 o).res with
    | .ok m' => (applyWs w.1 (openStore cfg w.1 o).ws, m')
    | .error _ => (applyWs w.1 (openStore cfg w.1 o).ws, w.2)
  | .sub => (w.1, (subscribe w.2).1)
  | .recv i => (w.1, match recv w.2 i with | some (m', _) => m' | none => w.2)
  | .unsub i => (w.1, unsubscribe w.2 i)

/-- The same operation on the abstract history. -/
def specStepH (sp : Spec) : HOp → Spec
  | .put c => sp.put c
  | _ => sp

/-- The refinement invariant. -/
structure Inv (cfg : Cfg) (w : DS × Mem) (sp : Spec) : Prop where
  repr : Repr cfg.freq w.1 sp
  mem : MemOk w.2 sp
  subs : SubsOk w.2

theorem put_length_le (sp : Spec) (c : Cert) : (sp.put c).certs.length ≤ sp.certs.length + 1 := by
  unfold Spec.put
  split
  · rw [Spec.push_certs]; simp
  · omega

theorem subsOk_subscribe {m : Mem} (hs : SubsOk m) : SubsOk (subscribe m).1 := by
  intro s hs'
  simp only [subscribe, List.mem_append, List.mem_singleton] at hs'
  rcases hs' with h | h
  · exact hs s h
  · subst h
    cases m.latest <;> simp

theorem subsOk_recv {m m' : Mem} {i : Nat} {c : Option Cert} (hs : SubsOk m) (h : recv m i = some (m', c)) : SubsOk m' := by
  unfold recv at h
  split at h
  · cases h
  · cases h
    intro s hs'
    simp only [List.mem_map] at hs'
    obtain ⟨s0, hs0, rfl⟩ := hs'
    have h0 := hs s0 hs0
    split
    · simp only [chanDrain, List.length_drop]; omega
    · exact h0

theorem subsOk_unsubscribe {m : Mem} (hs : SubsOk m) (i : Nat) : SubsOk (unsubscribe m i) := by
  intro s hs'
  exact hs s (List.mem_filter.1 hs').1

theorem memOk_of_fields {m m' : Mem} {sp : Spec} (h : MemOk m sp) (h1 : m'.first = m.first) (h2 : m'.latest = m.latest)
    (h3 : m'.latestTable = m.latestTable) : MemOk m' sp :=
  ⟨h1.trans h.first, h2.trans h.latest, by rw [h3]; exact h.table⟩

theorem inv_step (cfg : Cfg) (hu : cfg.openFreq = cfg.freq) {w : DS × Mem} {sp : Spec} (h : Inv cfg w sp)
    (hsmall : sp.certs.length + 1 < maxInt) (op : HOp) : Inv cfg (stepH cfg w op) (specStepH sp op) := by
  cases op with
  | put c =>
    have hp := put_refines' cfg h.repr h.mem h.subs hsmall c
    cases hres : (put cfg w.2 c).res with
    | ok m' =>
      rw [hres] at hp
      simp only [stepH, specStepH, hres]
      exact ⟨hp.1, hp.2.1, hp.2.2⟩
    | error e =>
      rw [hres] at hp
      simp only at hp
      simp only [stepH, specStepH, hres]
      refine ⟨hp.1, ?_, h.subs⟩
      rw [hp.2]; exact h.mem
  | reopen o =>
    obtain ⟨T, hT, hopen⟩ := openStore_repr cfg o h.repr (Or.inl hu)
    simp only [stepH, specStepH, hopen, applyWs_nil]
    exact ⟨h.repr, memOk_memOf hT, by intro s hs; simp [memOf] at hs⟩
  | sub =>
    exact ⟨h.repr, memOk_of_fields h.mem rfl rfl rfl, subsOk_subscribe h.subs⟩
  | recv i =>
    simp only [stepH, specStepH]
    cases hr : recv w.2 i with
    | none => exact h
    | some p =>
      obtain ⟨m', c⟩ := p
      refine ⟨h.repr, ?_, subsOk_recv h.subs hr⟩
      unfold recv at hr
      split at hr
      · cases hr
      · cases hr; exact memOk_of_fields h.mem rfl rfl rfl
  | unsub i =>
    exact ⟨h.repr, memOk_of_fields h.mem rfl rfl rfl, subsOk_unsubscribe h.subs i⟩

theorem specStep_length (sp : Spec) (op : HOp) : (specStepH sp op).certs.length ≤ sp.certs.length + 1 := by
  cases op with
  | put c => exact put_length_le sp c
  | _ => simp [specStepH]

theorem inv_run (cfg : Cfg) (hu : cfg.openFreq = cfg.freq) (ops : List HOp) {w : DS × Mem} {sp : Spec} (h : Inv cfg w sp)
    (hsmall : sp.certs.length + ops.length < maxInt) :
    Inv cfg (ops.foldl (stepH cfg) w) (ops.foldl specStepH sp) := by
  induction ops generalizing w sp with
  | nil => exact h
  | cons op r ih =>
    simp only [List.foldl_cons, List.length_cons] at hsmall ⊢
    refine ih (inv_step cfg hu h (by omega) op) ?_
    have := specStep_length sp op
    omega

end F3.Store
