import F3.Proofs.SyncNet
/-!
# Arbitrary inputs sharing the base: quorum-supported prefixes and multi-valued tallies

Generalisation of `SyncTally.lean` (one common input chain) to one input chain per participant.

* `supp t H inp k`: the power of the participants whose input has prefix `k`; `SQ`: that power is a strong quorum
  (the model's own predicate `strongQ`).
* `lpOf S c`: the model's `Tally.longestPrefixWithQuorum` with the tally abstracted to a predicate `S`
  (`lpq_eq_lpOf` is `rfl`); `propOf h = lpOf SQ (inp h)`: the value participant `h` PREPAREs.
* `longestQuorumPrefix t H inp`: the longest of these. `Global`: quorum-supported prefixes are totally ordered
  (`sq_comparable`), `longestQuorumPrefix` is the greatest (`sq_le_pstar`), it is supported by a strong quorum
  (`pstar_sq`) and exactly its supporters propose it (`propOf_eq_pstar`).
* `GT`: the exact shape of a single-vote tally (`prepared`, `committed`, `decision`) in which sender `x` votes `f x`.
* `QG`: the QUALITY tally.
-/
namespace F3.SyncGeneral
open F3.Instance F3.Sync

/-! ## power sums over filtered lists -/

theorem sumP_filter_add (t : Table) (l : List Pid) (p : Pid → Bool) :
    sumP t (l.filter p) + sumP t (l.filter (fun x => !p x)) = sumP t l := by
  induction l with
  | nil => rfl
  | cons a as ih =>
    by_cases h : p a = true
    · rw [List.filter_cons_of_pos h, List.filter_cons_of_neg (by simp [h]), sumP_cons, sumP_cons]; omega
    · rw [List.filter_cons_of_neg h, List.filter_cons_of_pos (by simp [h]), sumP_cons, sumP_cons]; omega

/-- inclusion–exclusion, the half that is needed -/
theorem sumP_filter_inter (t : Table) (l : List Pid) (p q : Pid → Bool) :
    sumP t (l.filter p) + sumP t (l.filter q) ≤ sumP t l + sumP t (l.filter (fun x => p x && q x)) := by
  induction l with
  | nil => simp [sumP_nil]
  | cons a as ih =>
    by_cases hp : p a = true <;> by_cases hq : q a = true
    · rw [List.filter_cons_of_pos hp, List.filter_cons_of_pos hq, List.filter_cons_of_pos (by simp [hp, hq])]
      simp only [sumP_cons]; omega
    · rw [List.filter_cons_of_pos hp, List.filter_cons_of_neg hq, List.filter_cons_of_neg (by simp [hq])]
      simp only [sumP_cons]; omega
    · rw [List.filter_cons_of_neg hp, List.filter_cons_of_pos hq, List.filter_cons_of_neg (by simp [hp])]
      simp only [sumP_cons]; omega
    · rw [List.filter_cons_of_neg hp, List.filter_cons_of_neg hq, List.filter_cons_of_neg (by simp [hp])]
      simp only [sumP_cons]; omega

theorem sumP_pos_ne_nil (t : Table) (l : List Pid) (h : 0 < sumP t l) : l ≠ [] := by
  intro he; rw [he, sumP_nil] at h; exact Nat.lt_irrefl _ h

theorem sumP_filter_mono (t : Table) (a b : List Pid) (p q : Pid → Bool) (ha : a.Nodup)
    (hsub : ∀ x ∈ a, p x = true → x ∈ b ∧ q x = true) : sumP t (a.filter p) ≤ sumP t (b.filter q) := by
  apply sumP_le_of_subset t _ _ (ha.filter _)
  intro x hx
  rw [List.mem_filter] at hx ⊢
  exact hsub x hx.1 hx.2

/-- two lists with the same members, both without duplicates, have the same power -/
theorem sumP_eq_of_same (t : Table) (a b : List Pid) (ha : a.Nodup) (hb : b.Nodup)
    (h1 : ∀ x ∈ a, x ∈ b) (h2 : ∀ x ∈ b, x ∈ a) : sumP t a = sumP t b :=
  Nat.le_antisymm (sumP_le_of_subset t a b ha h1) (sumP_le_of_subset t b a hb h2)

/-! ## strong quorums -/

theorem strongQ_iff (t : Table) (p : Nat) : strongQ t p = true ↔ 2 * t.total ≤ 3 * p := by
  unfold strongQ Spec.Quorum.strong
  simp only [decide_eq_true_eq]
  omega

theorem strongQ_total (t : Table) : strongQ t t.total = true := by
  rw [strongQ_iff]; omega

theorem strongQ_false_of (t : Table) (p : Nat) (h : 3 * p < 2 * t.total) : strongQ t p = false := by
  cases hs : strongQ t p
  · rfl
  · rw [strongQ_iff] at hs; omega

/-! ## the longest prefix of a chain satisfying a predicate (`longestPrefixWithQuorum`, abstractly) -/

def lpOf (S : Chain → Bool) (c : Chain) : Chain :=
  if S c then c
  else
    match ((List.range c.length).reverse.map (prefixTo c)).find? S with
    | some p => p
    | none => baseChain c

theorem lpq_eq_lpOf (Q : Tally) (c : Chain) : Q.longestPrefixWithQuorum c = lpOf Q.hasStrongFor c := rfl

/-- scanning `f (n-1), …, f 0` for the first hit -/
theorem find_rev_range {α} (f : Nat → α) (S : α → Bool) (n : Nat) :
    (∃ j, j < n ∧ ((List.range n).reverse.map f).find? S = some (f j) ∧ S (f j) = true ∧
        ∀ i, j < i → i < n → S (f i) = false) ∨
    (((List.range n).reverse.map f).find? S = none ∧ ∀ i, i < n → S (f i) = false) := by
  induction n with
  | zero => exact Or.inr ⟨rfl, fun i hi => absurd hi (Nat.not_lt_zero _)⟩
  | succ n ih =>
    rw [List.range_succ, List.reverse_append]
    simp only [List.reverse_cons, List.reverse_nil, List.nil_append, List.singleton_append, List.map_cons,
      List.find?_cons]
    cases hS : S (f n) with
    | true =>
      exact Or.inl ⟨n, Nat.lt_succ_self _, rfl, hS, fun i h1 h2 => by omega⟩
    | false =>
      rcases ih with ⟨j, hj, h1, h2, h3⟩ | ⟨h1, h2⟩
      · refine Or.inl ⟨j, by omega, h1, h2, ?_⟩
        intro i hi1 hi2
        by_cases hin : i = n
        · rw [hin]; exact hS
        · exact h3 i hi1 (by omega)
      · refine Or.inr ⟨h1, ?_⟩
        intro i hi
        by_cases hin : i = n
        · rw [hin]; exact hS
        · exact h2 i (by omega)

theorem take_length_self_succ (c : Chain) (hc : c ≠ []) : c.take (c.length - 1 + 1) = c := by
  apply List.take_of_length_le
  have : 0 < c.length := List.length_pos_iff.2 hc
  omega

/-- the result is `c.take (j+1)` for some `j < c.length` -/
theorem lpOf_take (S : Chain → Bool) (c : Chain) (hc : c ≠ []) : ∃ j, j < c.length ∧ lpOf S c = c.take (j + 1) := by
  have hpos : 0 < c.length := List.length_pos_iff.2 hc
  unfold lpOf
  split
  · exact ⟨c.length - 1, by omega, (take_length_self_succ c hc).symm⟩
  · rcases find_rev_range (prefixTo c) S c.length with ⟨j, hj, h1, _, _⟩ | ⟨h1, _⟩
    · rw [h1]; exact ⟨j, hj, rfl⟩
    · rw [h1]; exact ⟨0, hpos, rfl⟩

theorem lpOf_prefix (S : Chain → Bool) (c : Chain) (hc : c ≠ []) : lpOf S c <+: c := by
  obtain ⟨j, _, hj⟩ := lpOf_take S c hc
  rw [hj]; exact List.take_prefix _ _

theorem lpOf_head (S : Chain → Bool) (c : Chain) (hc : c ≠ []) : (lpOf S c).head? = c.head? := by
  obtain ⟨j, _, hj⟩ := lpOf_take S c hc
  rw [hj]
  cases c with
  | nil => exact absurd rfl hc
  | cons a as => rfl

theorem lpOf_ne_nil (S : Chain → Bool) (c : Chain) (hc : c ≠ []) : lpOf S c ≠ [] := by
  intro h
  have := lpOf_head S c hc
  rw [h] at this
  cases c with
  | nil => exact hc rfl
  | cons a as => cases this

/-- the result satisfies the predicate, or it is the base -/
theorem lpOf_sat (S : Chain → Bool) (c : Chain) : S (lpOf S c) = true ∨ lpOf S c = baseChain c := by
  unfold lpOf
  split
  · rename_i h; exact Or.inl h
  · rcases find_rev_range (prefixTo c) S c.length with ⟨j, _, h1, h2, _⟩ | ⟨h1, _⟩
    · rw [h1]; exact Or.inl h2
    · rw [h1]; exact Or.inr rfl

/-- every non-empty prefix of `c` satisfying the predicate is a prefix of the result -/
theorem lpOf_max (S : Chain → Bool) (c k : Chain) (hk : k <+: c) (hne : k ≠ []) (hS : S k = true) :
    k <+: lpOf S c := by
  have hkl : 0 < k.length := List.length_pos_iff.2 hne
  have hle : k.length ≤ c.length := hk.length_le
  have hkt : k = prefixTo c (k.length - 1) := by
    unfold prefixTo
    rw [show k.length - 1 + 1 = k.length by omega]
    exact List.prefix_iff_eq_take.1 hk
  unfold lpOf
  split
  · exact hk
  · rcases find_rev_range (prefixTo c) S c.length with ⟨j, hj, h1, _, h3⟩ | ⟨h1, h2⟩
    · rw [h1]
      have hjk : k.length - 1 ≤ j := by
        by_cases hlt : j < k.length - 1
        · have := h3 (k.length - 1) hlt (by omega)
          rw [← hkt, hS] at this; cases this
        · omega
      rw [hkt]
      unfold prefixTo
      exact (List.take_prefix_take_left (by omega))
    · have := h2 (k.length - 1) (by omega)
      rw [← hkt, hS] at this; cases this

theorem prefix_antisymm {a b : Chain} (h1 : a <+: b) (h2 : b <+: a) : a = b :=
  h1.eq_of_length (Nat.le_antisymm h1.length_le h2.length_le)

theorem baseChain_length (c : Chain) (hc : c ≠ []) : (baseChain c).length = 1 := by
  cases c with
  | nil => exact absurd rfl hc
  | cons a as => simp [baseChain]

theorem baseChain_prefix_of (c k : Chain) (hk : k <+: c) (hne : k ≠ []) : baseChain c <+: k := by
  obtain ⟨r, rfl⟩ := hk
  cases k with
  | nil => exact absurd rfl hne
  | cons a as => simp [baseChain]

/-- two predicates that agree on the prefixes of `c` with at least one tipset beyond the base give the same result -/
theorem lpOf_congr (S S' : Chain → Bool) (c : Chain) (hc : c ≠ [])
    (h : ∀ k, k <+: c → 2 ≤ k.length → S k = S' k) : lpOf S c = lpOf S' c := by
  have key : ∀ (A B : Chain → Bool), (∀ k, k <+: c → 2 ≤ k.length → A k = B k) → lpOf A c <+: lpOf B c := by
    intro A B hAB
    have hp := lpOf_prefix A c hc
    have hn := lpOf_ne_nil A c hc
    rcases lpOf_sat A c with hs | hb
    · by_cases hl : 2 ≤ (lpOf A c).length
      · exact lpOf_max B c _ hp hn (by rw [← hAB _ hp hl]; exact hs)
      · have h1 : (lpOf A c).length = 1 := by
          have : 0 < (lpOf A c).length := List.length_pos_iff.2 hn
          omega
        have hb : lpOf A c = baseChain c := by
          apply List.IsPrefix.eq_of_length
          · obtain ⟨j, hjl, hj⟩ := lpOf_take A c hc
            rw [hj, List.length_take] at h1
            have hj0 : j = 0 := by omega
            rw [hj, hj0]
            exact List.prefix_rfl
          · rw [h1, baseChain_length c hc]
        rw [hb]
        exact baseChain_prefix_of c _ (lpOf_prefix B c hc) (lpOf_ne_nil B c hc)
    · rw [hb]
      exact baseChain_prefix_of c _ (lpOf_prefix B c hc) (lpOf_ne_nil B c hc)
  exact prefix_antisymm (key S S' h) (key S' S (fun k h1 h2 => (h k h1 h2).symm))

theorem lpOf_self (S : Chain → Bool) (c : Chain) (h : S c = true) : lpOf S c = c := by
  unfold lpOf; rw [if_pos h]

/-! ## the global picture: supports, proposals, the longest quorum-supported prefix -/

section Global
variable (t : Table) (H : List Pid) (inp : Pid → Chain)

/-- the power of the participants whose input has prefix `k` -/
def supp (k : Chain) : Nat := sumP t (H.filter (fun h => k.isPrefixOf (inp h)))

/-- `k` is supported by a strong quorum (the model's `strongQ`) -/
def SQ (k : Chain) : Bool := strongQ t (supp t H inp k)

/-- the longest quorum-supported prefix of `h`'s own input (the base if none): what `h` PREPAREs -/
def propOf (h : Pid) : Chain := lpOf (SQ t H inp) (inp h)

def longer (a b : Chain) : Chain := if a.length < b.length then b else a

/-- the longest prefix supported by a strong quorum of input power -/
def longestQuorumPrefix : Chain := (H.map (propOf t H inp)).foldl longer []

/-- what `h` COMMITs: the longest quorum prefix if it proposed it, bottom otherwise -/
def cvOf (h : Pid) : Chain :=
  if propOf t H inp h = longestQuorumPrefix t H inp then longestQuorumPrefix t H inp else []

end Global

theorem foldl_longer_spec (l : List Chain) (a : Chain) :
    (l.foldl longer a = a ∨ l.foldl longer a ∈ l) ∧ a.length ≤ (l.foldl longer a).length ∧
    ∀ x ∈ l, x.length ≤ (l.foldl longer a).length := by
  induction l generalizing a with
  | nil => exact ⟨Or.inl rfl, Nat.le_refl _, fun x hx => by cases hx⟩
  | cons b bs ih =>
    simp only [List.foldl_cons]
    obtain ⟨h1, h2, h3⟩ := ih (longer a b)
    have hl : a.length ≤ (longer a b).length ∧ b.length ≤ (longer a b).length ∧ (longer a b = a ∨ longer a b = b) := by
      unfold longer
      split
      · exact ⟨by omega, Nat.le_refl _, Or.inr rfl⟩
      · exact ⟨Nat.le_refl _, by omega, Or.inl rfl⟩
    refine ⟨?_, by omega, ?_⟩
    · rcases h1 with h1 | h1
      · rcases hl.2.2 with h | h
        · exact Or.inl (h1.trans h)
        · exact Or.inr (by rw [h1, h]; exact List.mem_cons_self)
      · exact Or.inr (List.mem_cons_of_mem _ h1)
    · intro x hx
      rcases List.mem_cons.1 hx with rfl | hx
      · omega
      · exact h3 x hx

/-- standing hypotheses of the general run: the participants `H` are exactly the (distinct) members of the
table, the table has positive total power, all inputs start at the base `b` -/
structure GCtx (t : Table) (H : List Pid) (inp : Pid → Chain) (b : Nat) : Prop where
  nodup : H.Nodup
  inTbl : ∀ x ∈ H, ∃ i, t.index? x = some i
  full : sumP t H = t.total
  pos : 0 < t.total
  base : ∀ h ∈ H, (inp h).head? = some b

section Facts
variable {t : Table} {H : List Pid} {inp : Pid → Chain} {b : Nat}

theorem GCtx.inp_ne (g : GCtx t H inp b) {h : Pid} (hh : h ∈ H) : inp h ≠ [] := by
  intro he
  have := g.base h hh
  rw [he] at this; cases this

theorem GCtx.H_ne (g : GCtx t H inp b) : H ≠ [] := by
  intro he
  have h1 := g.full
  have h2 := g.pos
  rw [he, sumP_nil] at h1
  omega

theorem isPrefixOf_iff (a c : Chain) : a.isPrefixOf c = true ↔ a <+: c := List.isPrefixOf_iff_prefix

/-- the base is supported by everybody -/
theorem GCtx.sq_base (g : GCtx t H inp b) : SQ t H inp [b] = true := by
  unfold SQ supp
  have : H.filter (fun h => [b].isPrefixOf (inp h)) = H := by
    rw [List.filter_eq_self]
    intro h hh
    have := g.base h hh
    rw [isPrefixOf_iff]
    cases hi : inp h with
    | nil => rw [hi] at this; cases this
    | cons a as =>
      rw [hi] at this
      simp only [List.head?_cons, Option.some.injEq] at this
      rw [this]
      exact ⟨as, rfl⟩
  rw [this, g.full]
  exact strongQ_total t

theorem GCtx.baseChain_inp (g : GCtx t H inp b) {h : Pid} (hh : h ∈ H) : baseChain (inp h) = [b] := by
  have := g.base h hh
  cases hi : inp h with
  | nil => rw [hi] at this; cases this
  | cons a as =>
    rw [hi] at this
    simp only [List.head?_cons, Option.some.injEq] at this
    simp [baseChain, this]

theorem GCtx.propOf_prefix (g : GCtx t H inp b) {h : Pid} (hh : h ∈ H) : propOf t H inp h <+: inp h :=
  lpOf_prefix _ _ (g.inp_ne hh)

theorem GCtx.propOf_ne (g : GCtx t H inp b) {h : Pid} (hh : h ∈ H) : propOf t H inp h ≠ [] :=
  lpOf_ne_nil _ _ (g.inp_ne hh)

theorem GCtx.propOf_head (g : GCtx t H inp b) {h : Pid} (hh : h ∈ H) : (propOf t H inp h).head? = some b := by
  unfold propOf
  rw [lpOf_head _ _ (g.inp_ne hh)]
  exact g.base h hh

theorem GCtx.propOf_sq (g : GCtx t H inp b) {h : Pid} (hh : h ∈ H) : SQ t H inp (propOf t H inp h) = true := by
  rcases lpOf_sat (SQ t H inp) (inp h) with hs | hb
  · exact hs
  · unfold propOf
    rw [hb, g.baseChain_inp hh]
    exact g.sq_base

/-- two strong quorums of supporters share a participant -/
theorem GCtx.sq_common (g : GCtx t H inp b) {k1 k2 : Chain} (h1 : SQ t H inp k1 = true) (h2 : SQ t H inp k2 = true) :
    ∃ h ∈ H, k1 <+: inp h ∧ k2 <+: inp h := by
  unfold SQ supp at h1 h2
  rw [strongQ_iff] at h1 h2
  have hi := sumP_filter_inter t H (fun h => k1.isPrefixOf (inp h)) (fun h => k2.isPrefixOf (inp h))
  have hpos := g.pos
  rw [g.full] at hi
  have : 0 < sumP t (H.filter (fun x => k1.isPrefixOf (inp x) && k2.isPrefixOf (inp x))) := by omega
  have hne := sumP_pos_ne_nil t _ this
  obtain ⟨x, hx⟩ := List.exists_mem_of_ne_nil _ hne
  rw [List.mem_filter] at hx
  simp only [Bool.and_eq_true, isPrefixOf_iff] at hx
  exact ⟨x, hx.1, hx.2.1, hx.2.2⟩

/-- **quorum-supported prefixes are totally ordered** -/
theorem GCtx.sq_comparable (g : GCtx t H inp b) {k1 k2 : Chain} (h1 : SQ t H inp k1 = true) (h2 : SQ t H inp k2 = true) :
    k1 <+: k2 ∨ k2 <+: k1 := by
  obtain ⟨h, _, p1, p2⟩ := g.sq_common h1 h2
  by_cases hl : k1.length ≤ k2.length
  · exact Or.inl (List.prefix_of_prefix_length_le p1 p2 hl)
  · exact Or.inr (List.prefix_of_prefix_length_le p2 p1 (by omega))

theorem GCtx.pstar_mem (g : GCtx t H inp b) : ∃ h0 ∈ H, longestQuorumPrefix t H inp = propOf t H inp h0 := by
  obtain ⟨h1, h2, h3⟩ := foldl_longer_spec (H.map (propOf t H inp)) []
  obtain ⟨x, hx⟩ := List.exists_mem_of_ne_nil _ g.H_ne
  rcases h1 with h1 | h1
  · exfalso
    have hle := h3 (propOf t H inp x) (List.mem_map.2 ⟨x, hx, rfl⟩)
    rw [h1] at hle
    have hpos : 0 < (propOf t H inp x).length := List.length_pos_iff.2 (g.propOf_ne hx)
    have h0 : ([] : Chain).length = 0 := rfl
    omega
  · obtain ⟨h0, hh0, he⟩ := List.mem_map.1 h1
    exact ⟨h0, hh0, he.symm⟩

theorem GCtx.pstar_sq (g : GCtx t H inp b) : SQ t H inp (longestQuorumPrefix t H inp) = true := by
  obtain ⟨h0, hh0, he⟩ := g.pstar_mem
  rw [he]; exact g.propOf_sq hh0

theorem GCtx.pstar_ne (g : GCtx t H inp b) : longestQuorumPrefix t H inp ≠ [] := by
  obtain ⟨h0, hh0, he⟩ := g.pstar_mem
  rw [he]; exact g.propOf_ne hh0

theorem GCtx.pstar_head (g : GCtx t H inp b) : (longestQuorumPrefix t H inp).head? = some b := by
  obtain ⟨h0, hh0, he⟩ := g.pstar_mem
  rw [he]; exact g.propOf_head hh0

/-- every proposal is a prefix of the longest one -/
theorem GCtx.propOf_le_pstar (g : GCtx t H inp b) {h : Pid} (hh : h ∈ H) :
    propOf t H inp h <+: longestQuorumPrefix t H inp := by
  have hlen : (propOf t H inp h).length ≤ (longestQuorumPrefix t H inp).length :=
    (foldl_longer_spec (H.map (propOf t H inp)) []).2.2 _ (List.mem_map.2 ⟨h, hh, rfl⟩)
  rcases g.sq_comparable (g.propOf_sq hh) g.pstar_sq with h1 | h1
  · exact h1
  · have := h1.eq_of_length (Nat.le_antisymm h1.length_le hlen)
    rw [this]; exact List.prefix_rfl

/-- **the longest quorum prefix is the greatest quorum-supported chain** -/
theorem GCtx.sq_le_pstar (g : GCtx t H inp b) {k : Chain} (hne : k ≠ []) (hk : SQ t H inp k = true) :
    k <+: longestQuorumPrefix t H inp := by
  obtain ⟨h, hh, p1, _⟩ := g.sq_common hk hk
  exact (lpOf_max (SQ t H inp) (inp h) k p1 hne hk).trans (g.propOf_le_pstar hh)

/-- exactly the participants whose input extends the longest quorum prefix propose it -/
theorem GCtx.propOf_eq_pstar (g : GCtx t H inp b) {h : Pid} (hh : h ∈ H)
    (hp : longestQuorumPrefix t H inp <+: inp h) : propOf t H inp h = longestQuorumPrefix t H inp :=
  prefix_antisymm (g.propOf_le_pstar hh) (lpOf_max _ _ _ hp g.pstar_ne g.pstar_sq)

theorem GCtx.propOf_eq_pstar_iff (g : GCtx t H inp b) {h : Pid} (hh : h ∈ H) :
    propOf t H inp h = longestQuorumPrefix t H inp ↔ longestQuorumPrefix t H inp <+: inp h :=
  ⟨fun he => he ▸ g.propOf_prefix hh, g.propOf_eq_pstar hh⟩

/-- the proposers of the longest quorum prefix -/
def majority (t : Table) (H : List Pid) (inp : Pid → Chain) : List Pid :=
  H.filter (fun h => propOf t H inp h == longestQuorumPrefix t H inp)

/-- **the proposers of the longest quorum prefix hold a strong quorum** -/
theorem GCtx.majority_strong (g : GCtx t H inp b) : strongQ t (sumP t (majority t H inp)) = true := by
  have h1 := g.pstar_sq
  unfold SQ supp at h1
  refine strongQ_mono t ?_ h1
  unfold majority
  apply sumP_filter_mono t H H _ _ g.nodup
  intro x hx hp
  rw [isPrefixOf_iff] at hp
  exact ⟨hx, by rw [g.propOf_eq_pstar hx hp]; simp⟩

/-- a set of participants none of whom proposes the longest quorum prefix is no strong quorum -/
theorem GCtx.minority_weak (g : GCtx t H inp b) (S : List Pid) (hnd : S.Nodup) (hsub : ∀ x ∈ S, x ∈ H)
    (hmin : ∀ x ∈ S, propOf t H inp x ≠ longestQuorumPrefix t H inp) : 3 * sumP t S + 2 * t.total ≤ 3 * t.total := by
  have hm := g.majority_strong
  rw [strongQ_iff] at hm
  have hpart := sumP_filter_add t H (fun h => propOf t H inp h == longestQuorumPrefix t H inp)
  rw [g.full] at hpart
  have hle : sumP t S ≤ sumP t (H.filter (fun x => !(propOf t H inp x == longestQuorumPrefix t H inp))) := by
    apply sumP_le_of_subset t _ _ hnd
    intro x hx
    rw [List.mem_filter]
    exact ⟨hsub x hx, by simpa using hmin x hx⟩
  unfold majority at hm
  omega

theorem GCtx.minority_not_strong (g : GCtx t H inp b) (S : List Pid) (hnd : S.Nodup) (hsub : ∀ x ∈ S, x ∈ H)
    (hmin : ∀ x ∈ S, propOf t H inp x ≠ longestQuorumPrefix t H inp) : strongQ t (sumP t S) = false := by
  have := g.minority_weak S hnd hsub hmin
  have hp := g.pos
  exact strongQ_false_of t _ (by omega)

theorem GCtx.cvOf_cases (h : Pid) :
    (propOf t H inp h = longestQuorumPrefix t H inp ∧ cvOf t H inp h = longestQuorumPrefix t H inp) ∨
    (propOf t H inp h ≠ longestQuorumPrefix t H inp ∧ cvOf t H inp h = []) := by
  unfold cvOf
  by_cases he : propOf t H inp h = longestQuorumPrefix t H inp
  · exact Or.inl ⟨he, by rw [if_pos he]⟩
  · exact Or.inr ⟨he, by rw [if_neg he]⟩

end Facts

end F3.SyncGeneral
