import F3.Proofs.Restart
import F3.Props.C12
/-!
# Discharging `PublishedOK` — the interface `F3.Restart` takes from C12

Three ways to obtain the two fields of `PublishedOK`:

* `RestartingRun.ofPublished` — from the vote-level scan `published` (first value per slot wins), proved directly;
* `RestartingRun.ofWire` — from **any** history of the C12 node model `F3.Equiv` (requests with crash points after
  the filter / the WAL append / the publish, rebroadcasts, receives, stops, restarts, purges, trims) satisfying
  C12's `RunOk`, whose broadcast requests for this instance are requests of the incarnations: field `single` is
  `F3.Props.C12.wire_no_equivocation`, field `requested` is `F3.Props.C12.record_before_publish` followed by
  `ever_requested` (what was appended to the WAL was the argument of a `BroadcastMessage` call);
  `RestartingRun`s can also be built from `publishedOK_of_ever`, which reads "exists" as "recorded in the WAL";
* `wire_history` — the scan *is* the wire of the C12 model on the crash-free history of the incarnations.
-/
namespace F3.Restart
open F3 F3.Instance F3.Bridge

/-! ### the vote-level scan -/

/-- at most one value per slot -/
def Single (l : List Req) : Prop := ∀ a ∈ l, ∀ b ∈ l, a.1 = b.1 → a.2.1 = b.2.1 → a.2.2 = b.2.2

theorem allowed_iff (seen : List Req) (q : Req) :
    allowed seen q = true ↔ ∀ s ∈ seen, s.1 = q.1 → s.2.1 = q.2.1 → s.2.2 = q.2.2 := by
  unfold allowed
  rw [List.all_eq_true]
  constructor
  · intro h s hs h1 h2
    have := h s hs
    simp only [sameSlot, h1, h2, beq_self_eq_true, Bool.and_self, Bool.not_true, Bool.false_or, beq_iff_eq] at this
    exact this
  · intro h s hs
    by_cases hc : sameSlot s q = true
    · have hc' := hc
      simp only [sameSlot, Bool.and_eq_true, beq_iff_eq] at hc'
      simp [hc, h s hs hc'.1 hc'.2]
    · simp [hc]

theorem single_nil : Single [] := by intro a ha; cases ha

theorem single_snoc {seen : List Req} {q : Req} (h : Single seen) (ha : allowed seen q = true) :
    Single (seen ++ [q]) := by
  rw [allowed_iff] at ha
  intro a hm b hb h1 h2
  rcases List.mem_append.1 hm with ha1 | ha1 <;> rcases List.mem_append.1 hb with hb1 | hb1
  · exact h a ha1 b hb1 h1 h2
  · have hbq : b = q := by simpa using hb1
    rw [hbq] at h1 h2 ⊢; exact ha a ha1 h1 h2
  · have haq : a = q := by simpa using ha1
    rw [haq] at h1 h2 ⊢; exact (ha b hb1 h1.symm h2.symm).symm
  · have hbq : b = q := by simpa using hb1
    have haq : a = q := by simpa using ha1
    rw [haq, hbq]

theorem scan_single : ∀ (qs seen : List Req), Single seen → Single (scan seen qs)
  | [], _, h => h
  | q :: qs, seen, h => by
    unfold scan
    by_cases ha : allowed seen q = true
    · rw [if_pos ha]; exact scan_single qs _ (single_snoc h ha)
    · rw [if_neg ha]; exact scan_single qs _ h

theorem scan_sub : ∀ (qs seen : List Req) (x : Req), x ∈ scan seen qs → x ∈ seen ∨ x ∈ qs
  | [], _, _, h => Or.inl h
  | q :: qs, seen, x, h => by
    unfold scan at h
    rcases scan_sub qs _ x h with h' | h'
    · split at h'
      · rcases List.mem_append.1 h' with h'' | h''
        · exact Or.inl h''
        · simp only [List.mem_singleton] at h''; subst h''; exact Or.inr List.mem_cons_self
      · exact Or.inl h'
    · exact Or.inr (List.mem_cons_of_mem _ h')

theorem scan_mono : ∀ (qs seen : List Req) (x : Req), x ∈ seen → x ∈ scan seen qs
  | [], _, _, h => h
  | q :: qs, seen, x, h => by
    unfold scan
    apply scan_mono qs
    split
    · exact List.mem_append_left _ h
    · exact h

theorem scan_append (a b seen : List Req) : scan seen (a ++ b) = scan (scan seen a) b := by
  induction a generalizing seen with
  | nil => rfl
  | cons q a ih => simp only [List.cons_append, scan]; exact ih _

/-- **The scan is first-value-wins**: a request is published iff it was allowed against everything published
before it was made. -/
theorem mem_scan_iff (qs seen : List Req) (x : Req) :
    x ∈ scan seen qs ↔ x ∈ seen ∨ ∃ pre post, qs = pre ++ x :: post ∧ allowed (scan seen pre) x = true := by
  constructor
  · induction qs generalizing seen with
    | nil => exact Or.inl
    | cons q qs ih =>
      intro h
      unfold scan at h
      rcases ih _ h with h' | ⟨pre, post, he, ha⟩
      · by_cases hq : allowed seen q = true
        · rw [if_pos hq] at h'
          rcases List.mem_append.1 h' with h'' | h''
          · exact Or.inl h''
          · simp only [List.mem_singleton] at h''; subst h''
            exact Or.inr ⟨[], qs, rfl, hq⟩
        · rw [if_neg hq] at h'; exact Or.inl h'
      · exact Or.inr ⟨q :: pre, post, by rw [he]; rfl, by simpa only [scan] using ha⟩
  · rintro (h | ⟨pre, post, rfl, ha⟩)
    · exact scan_mono _ _ _ h
    · rw [scan_append]
      unfold scan
      rw [if_pos ha]
      exact scan_mono _ _ _ (List.mem_append_right _ (List.mem_singleton.2 rfl))

variable {W : Votes} {t : Table}

/-- `PublishedOK` for the vote-level scan -/
theorem publishedOK_of_published (p : Pid) (segs : List (Segment W t))
    (hown : ∀ r ph v, W p r ph v ↔ (r, ph, v) ∈ published (segs.map (fun s => requests s.effs))) :
    PublishedOK W t p segs where
  single := by
    intro r ph x y hx hy
    exact scan_single _ _ single_nil _ ((hown r ph x).1 hx) _ ((hown r ph y).1 hy) rfl rfl
  requested := by
    intro r ph v hv
    rcases scan_sub _ _ _ ((hown r ph v).1 hv) with h | h
    · cases h
    · obtain ⟨l, hl, hq⟩ := List.mem_flatten.1 h
      obtain ⟨s, hs, rfl⟩ := List.mem_map.1 hl
      exact ⟨s, hs, (requested_iff s r ph v).2 hq⟩

/-- a restarting participant whose wire is the first-value-wins scan of its incarnations' requests -/
def RestartingRun.ofPublished (p : Pid) (segs : List (Segment W t))
    (hown : ∀ r ph v, W p r ph v ↔ (r, ph, v) ∈ published (segs.map (fun s => requests s.effs))) :
    RestartingRun W t p := ⟨segs, publishedOK_of_published p segs hown⟩

/-! ### from the node model of C12 -/

theorem phase_toNat_inj {a b : Instance.Phase} (h : a.toNat = b.toNat) : a = b := by
  cases a <;> cases b <;> first | rfl | (simp [Instance.Phase.toNat] at h)

/-- equal messages stand for equal requests, when the signature determines the value -/
theorem toMsg_inj (inst sender : Nat) (sig : Req → Nat)
    (hsig : ∀ r ph x y, sig (r, ph, x) = sig (r, ph, y) → x = y) {a b : Req}
    (h : toMsg inst sender sig a = toMsg inst sender sig b) : a = b := by
  obtain ⟨r, ph, x⟩ := a
  obtain ⟨r', ph', y⟩ := b
  simp only [toMsg, Equiv.Msg.mk.injEq, true_and] at h
  obtain ⟨h1, h2, h3⟩ := h
  have hp := phase_toNat_inj h2
  subst h1; subst hp
  rw [hsig r ph x y h3]

theorem step_ever (s : Equiv.Sys) (op : Equiv.Op) :
    ∀ e ∈ (Equiv.step s op).ever, e ∈ s.ever ∨ ∃ c, op = .broadcast e c := by
  intro e he
  cases op with
  | broadcast m c =>
    unfold Equiv.step at he
    dsimp only at he
    generalize s.filter.processBroadcast m = r at he
    obtain ⟨f1, ok⟩ := r
    dsimp only at he
    split_ifs at he
    all_goals first
      | exact Or.inl he
      | (rcases List.mem_append.1 he with h | h
         · exact Or.inl h
         · simp only [List.mem_singleton] at h; subst h; exact Or.inr ⟨c, rfl⟩)
  | rebroadcast i r p =>
    unfold Equiv.step at he
    dsimp only at he
    split_ifs at he
    · exact Or.inl he
    · generalize List.foldl Equiv.rebroadcastOne _ _ = r at he
      obtain ⟨f, w⟩ := r
      exact Or.inl he
  | receive p m =>
    unfold Equiv.step at he
    dsimp only at he
    split_ifs at he <;> exact Or.inl he
  | restart => exact Or.inl he
  | stop => exact Or.inl he
  | purge k keep =>
    unfold Equiv.step at he
    dsimp only at he
    split_ifs at he <;> exact Or.inl he
  | trim c =>
    unfold Equiv.step at he
    dsimp only at he
    split_ifs at he <;> exact Or.inl he

/-- whatever was appended to the WAL was the argument of a `BroadcastMessage` call -/
theorem ever_requested (ops : List Equiv.Op) (s : Equiv.Sys) :
    ∀ e ∈ (Equiv.run s ops).ever, e ∈ s.ever ∨ ∃ c, Equiv.Op.broadcast e c ∈ ops := by
  induction ops generalizing s with
  | nil => intro e he; exact Or.inl he
  | cons op ops ih =>
    intro e he
    rcases ih (Equiv.step s op) e he with h | ⟨c, h⟩
    · rcases step_ever s op e h with h' | ⟨c, h'⟩
      · exact Or.inl h'
      · exact Or.inr ⟨c, by rw [h']; exact List.mem_cons_self⟩
    · exact Or.inr ⟨c, List.mem_cons_of_mem _ h⟩

/-- C12 (ii): everything on the wire was requested (`record_before_publish`, then `ever_requested`) -/
theorem wire_requested (own : Nat → Bool) (l : Equiv.Peer) (hist : List Equiv.Op)
    (hok : Equiv.RunOk own (Equiv.Sys.init l) hist) :
    ∀ m ∈ (Equiv.run (Equiv.Sys.init l) hist).wire, ∃ c, Equiv.Op.broadcast m c ∈ hist := by
  intro m hm
  rcases ever_requested hist _ m ((F3.Props.C12.record_before_publish own l hist hok).1 m hm) with h | h
  · cases h
  · exact h

/-- C12 (i): at most one value per slot on the wire (`wire_no_equivocation`) -/
theorem wire_single (own : Nat → Bool) (l : Equiv.Peer) (hist : List Equiv.Op)
    (hok : Equiv.RunOk own (Equiv.Sys.init l) hist) (inst sender : Nat) (sig : Req → Nat)
    (hsig : ∀ r ph x y, sig (r, ph, x) = sig (r, ph, y) → x = y) (r : Nat) (ph : Instance.Phase) (x y : Chain)
    (hx : toMsg inst sender sig (r, ph, x) ∈ (Equiv.run (Equiv.Sys.init l) hist).wire)
    (hy : toMsg inst sender sig (r, ph, y) ∈ (Equiv.run (Equiv.Sys.init l) hist).wire) : x = y :=
  hsig r ph x y ((F3.Props.C12.wire_no_equivocation own l hist hok).1 _ hx _ hy rfl)

/-- **`PublishedOK` from C12.**  `hist` is the whole life of the node's broadcast path (any `F3.Equiv` history
admissible for C12); `sig` is the signature of a vote under `p`'s key, which determines the value (`hsig`);
`hreq`: the node calls `BroadcastMessage` for a vote of `p` in this instance only on request of an incarnation;
`hown`: the votes of `p` in existence are on the node's wire. -/
theorem publishedOK_of_wire (p : Pid) (segs : List (Segment W t))
    (own : Nat → Bool) (l : Equiv.Peer) (hist : List Equiv.Op) (hok : Equiv.RunOk own (Equiv.Sys.init l) hist)
    (inst : Nat) (sig : Req → Nat) (hsig : ∀ r ph x y, sig (r, ph, x) = sig (r, ph, y) → x = y)
    (hreq : ∀ m c, Equiv.Op.broadcast m c ∈ hist → m.inst = inst → m.sender = p →
      ∃ s ∈ segs, ∃ q ∈ requests s.effs, m = toMsg inst p sig q)
    (hown : ∀ r ph v, W p r ph v → toMsg inst p sig (r, ph, v) ∈ (Equiv.run (Equiv.Sys.init l) hist).wire) :
    PublishedOK W t p segs where
  single := fun r ph x y hx hy =>
    wire_single own l hist hok inst p sig hsig r ph x y (hown r ph x hx) (hown r ph y hy)
  requested := by
    intro r ph v hv
    obtain ⟨c, hc⟩ := wire_requested own l hist hok _ (hown r ph v hv)
    obtain ⟨s, hs, q, hq, he⟩ := hreq _ c hc rfl rfl
    have := toMsg_inj inst p sig hsig he
    subst this
    exact ⟨s, hs, (requested_iff s r ph v).2 hq⟩

/-- The same with "in existence" read as *recorded in the WAL at some time* (`ever`, a superset of the wire:
`record_before_publish`).  This is the reading to use when a recorded-but-not-yet-published message counts as
existing: `startInstanceAt` replays the WAL's own messages to the rebuilt participant, including one whose publish
was cut off by the crash.  Field `single` is then the invariant behind `wire_no_equivocation`
(`SysInv.cons`: the record itself never holds two signatures for one slot), field `requested` is `ever_requested`. -/
theorem publishedOK_of_ever (p : Pid) (segs : List (Segment W t))
    (own : Nat → Bool) (l : Equiv.Peer) (hist : List Equiv.Op) (hok : Equiv.RunOk own (Equiv.Sys.init l) hist)
    (inst : Nat) (sig : Req → Nat) (hsig : ∀ r ph x y, sig (r, ph, x) = sig (r, ph, y) → x = y)
    (hreq : ∀ m c, Equiv.Op.broadcast m c ∈ hist → m.inst = inst → m.sender = p →
      ∃ s ∈ segs, ∃ q ∈ requests s.effs, m = toMsg inst p sig q)
    (hown : ∀ r ph v, W p r ph v → toMsg inst p sig (r, ph, v) ∈ (Equiv.run (Equiv.Sys.init l) hist).ever) :
    PublishedOK W t p segs where
  single := fun r ph x y hx hy =>
    hsig r ph x y ((Equiv.inv_run (Equiv.sysInv_init own l) hist hok).cons _ (hown r ph x hx) _ (hown r ph y hy) rfl)
  requested := by
    intro r ph v hv
    rcases ever_requested hist _ _ (hown r ph v hv) with h | ⟨c, hc⟩
    · cases h
    · obtain ⟨s, hs, q, hq, he⟩ := hreq _ c hc rfl rfl
      have := toMsg_inj inst p sig hsig he
      subst this
      exact ⟨s, hs, (requested_iff s r ph v).2 hq⟩

def RestartingRun.ofWire (p : Pid) (segs : List (Segment W t))
    (own : Nat → Bool) (l : Equiv.Peer) (hist : List Equiv.Op) (hok : Equiv.RunOk own (Equiv.Sys.init l) hist)
    (inst : Nat) (sig : Req → Nat) (hsig : ∀ r ph x y, sig (r, ph, x) = sig (r, ph, y) → x = y)
    (hreq : ∀ m c, Equiv.Op.broadcast m c ∈ hist → m.inst = inst → m.sender = p →
      ∃ s ∈ segs, ∃ q ∈ requests s.effs, m = toMsg inst p sig q)
    (hown : ∀ r ph v, W p r ph v → toMsg inst p sig (r, ph, v) ∈ (Equiv.run (Equiv.Sys.init l) hist).wire) :
    RestartingRun W t p := ⟨segs, publishedOK_of_wire p segs own l hist hok inst sig hsig hreq hown⟩

/-! ### the scan is the wire of the C12 model on the crash-free history -/

/-- invariant of the crash-free history: the node is up, nothing was purged, WAL record and wire coincide and
are the scan so far -/
structure HInv (own : Nat → Bool) (inst sender : Nat) (sig : Req → Nat) (s : Equiv.Sys) (seen : List Req) : Prop where
  inv : Equiv.SysInv own s
  up : s.up = true
  floor : s.floor = 0
  purged : s.purged = 0
  wire : s.wire = seen.map (toMsg inst sender sig)
  ever : s.ever = s.wire

variable {own : Nat → Bool} {inst sender : Nat} {sig : Req → Nat}

theorem HInv.restart {s : Equiv.Sys} {seen : List Req} (inv : Equiv.SysInv own s) (floor : s.purged = 0)
    (wire : s.wire = seen.map (toMsg inst sender sig)) (ever : s.ever = s.wire) :
    HInv own inst sender sig (Equiv.step s .restart) seen :=
  ⟨Equiv.inv_restart inv, rfl, floor, floor, wire, ever⟩

theorem slot_toMsg (a b : Req) :
    (toMsg inst sender sig a).slot = (toMsg inst sender sig b).slot ↔ a.1 = b.1 ∧ a.2.1 = b.2.1 := by
  simp only [Equiv.Msg.slot, toMsg, Prod.mk.injEq, true_and]
  constructor
  · rintro ⟨h1, h2⟩; exact ⟨h1, phase_toNat_inj h2⟩
  · rintro ⟨h1, h2⟩; exact ⟨h1, by rw [h2]⟩

theorem HInv.broadcast (hown : own sender = true) (hsig : ∀ r ph x y, sig (r, ph, x) = sig (r, ph, y) → x = y)
    {s : Equiv.Sys} {seen : List Req} (h : HInv own inst sender sig s seen) (q : Req) :
    Equiv.OpOk own s (.broadcast (toMsg inst sender sig q) 0) ∧
    HInv own inst sender sig (Equiv.step s (.broadcast (toMsg inst sender sig q) 0))
      (if allowed seen q then seen ++ [q] else seen) := by
  have hF : s.floor ≤ (toMsg inst sender sig q).inst := by rw [h.floor]; exact Nat.zero_le _
  have hop : Equiv.OpOk own s (.broadcast (toMsg inst sender sig q) 0) := ⟨hF, hown⟩
  refine ⟨hop, ?_⟩
  have hinv' := Equiv.inv_broadcast h.inv (toMsg inst sender sig q) 0 hF hown
  have hfi := h.inv.finv h.up
  have hnu : (!s.up) = false := by simp [h.up]
  have hall : (∀ e ∈ s.ever, e.slot = (toMsg inst sender sig q).slot → e.sig = (toMsg inst sender sig q).sig) ↔
      allowed seen q = true := by
    rw [allowed_iff, h.ever, h.wire]
    constructor
    · intro hh a ha h1 h2
      have := hh _ (List.mem_map.2 ⟨a, ha, rfl⟩) ((slot_toMsg a q).2 ⟨h1, h2⟩)
      obtain ⟨r, ph, x⟩ := a
      obtain ⟨r', ph', y⟩ := q
      simp only at h1 h2; subst h1; subst h2
      exact hsig r ph x y this
    · intro hh e he hs
      obtain ⟨a, ha, rfl⟩ := List.mem_map.1 he
      obtain ⟨h1, h2⟩ := (slot_toMsg a q).1 hs
      have h3 := hh a ha h1 h2
      obtain ⟨r, ph, x⟩ := a
      obtain ⟨r', ph', y⟩ := q
      simp only at h1 h2 h3; subst h1; subst h2; subst h3; rfl
  rcases hfi.pb_cases (toMsg inst sender sig q) hF hown with ⟨hrej, hwhy⟩ | ⟨f', hacc, _, hnc, _, _, _⟩
  · have hna : allowed seen q = false := by
      rcases hwhy with hlt | ⟨e, he, hs, hne⟩
      · exfalso
        rcases hfi.cur_wit with h0 | ⟨e, he, hc⟩
        · omega
        · rw [h.ever, h.wire] at he
          obtain ⟨a, _, rfl⟩ := List.mem_map.1 he
          have : (toMsg inst sender sig a).inst = (toMsg inst sender sig q).inst := rfl
          omega
      · cases hq : allowed seen q with
        | false => rfl
        | true => exact absurd (hall.2 hq e he hs) hne
    have hst : Equiv.step s (.broadcast (toMsg inst sender sig q) 0) = { s with up := true } := by
      simp only [Equiv.step, hnu, Bool.false_eq_true, if_false, hrej, Bool.not_false, if_true]
      rfl
    rw [hna]
    simp only [Bool.false_eq_true, if_false]
    refine ⟨hinv', ?_, ?_, ?_, ?_, ?_⟩ <;> rw [hst]
    · exact h.floor
    · exact h.purged
    · exact h.wire
    · exact h.ever
  · have hya : allowed seen q = true := hall.1 hnc
    have hst : Equiv.step s (.broadcast (toMsg inst sender sig q) 0) =
        { s with filter := f', wal := s.wal ++ [toMsg inst sender sig q], ever := s.ever ++ [toMsg inst sender sig q],
                 self := s.self ++ [toMsg inst sender sig q], wire := s.wire ++ [toMsg inst sender sig q], up := true } := by
      simp only [Equiv.step, hnu, Bool.false_eq_true, if_false, hacc, Bool.not_true]
      rfl
    rw [hya]
    simp only [if_true]
    refine ⟨hinv', ?_, ?_, ?_, ?_, ?_⟩ <;> rw [hst]
    · exact h.floor
    · exact h.purged
    · show s.wire ++ _ = _
      rw [h.wire, List.map_append]; rfl
    · show s.ever ++ _ = s.wire ++ _
      rw [h.ever]


theorem equiv_run_append (s : Equiv.Sys) (a b : List Equiv.Op) :
    Equiv.run s (a ++ b) = Equiv.run (Equiv.run s a) b := by
  induction a generalizing s with
  | nil => rfl
  | cons op a ih => exact ih _

theorem runOk_append (own : Nat → Bool) (s : Equiv.Sys) (a b : List Equiv.Op) :
    Equiv.RunOk own s (a ++ b) ↔ Equiv.RunOk own s a ∧ Equiv.RunOk own (Equiv.run s a) b := by
  induction a generalizing s with
  | nil => exact ⟨fun h => ⟨trivial, h⟩, fun h => h.2⟩
  | cons op a ih =>
    simp only [List.cons_append, Equiv.RunOk, Equiv.run, ih, and_assoc]

/-- the requests of one incarnation, all completing -/
theorem run_requests (hown : own sender = true) (hsig : ∀ r ph x y, sig (r, ph, x) = sig (r, ph, y) → x = y)
    (qs : List Req) {s : Equiv.Sys} {seen : List Req} (h : HInv own inst sender sig s seen) :
    Equiv.RunOk own s (qs.map (fun q => Equiv.Op.broadcast (toMsg inst sender sig q) 0)) ∧
    HInv own inst sender sig (Equiv.run s (qs.map (fun q => Equiv.Op.broadcast (toMsg inst sender sig q) 0)))
      (scan seen qs) := by
  induction qs generalizing s seen with
  | nil => exact ⟨trivial, h⟩
  | cons q qs ih =>
    obtain ⟨h1, h2⟩ := h.broadcast hown hsig q
    obtain ⟨h3, h4⟩ := ih h2
    exact ⟨⟨h1, h3⟩, h4⟩

theorem run_history (hown : own sender = true) (hsig : ∀ r ph x y, sig (r, ph, x) = sig (r, ph, y) → x = y)
    (segs : List (List Req)) {s : Equiv.Sys} {seen : List Req} (inv : Equiv.SysInv own s) (purged : s.purged = 0)
    (wire : s.wire = seen.map (toMsg inst sender sig)) (ever : s.ever = s.wire) :
    Equiv.RunOk own s (history inst sender sig segs) ∧
    Equiv.SysInv own (Equiv.run s (history inst sender sig segs)) ∧
    (Equiv.run s (history inst sender sig segs)).purged = 0 ∧
    (Equiv.run s (history inst sender sig segs)).wire = (scan seen segs.flatten).map (toMsg inst sender sig) ∧
    (Equiv.run s (history inst sender sig segs)).ever = (Equiv.run s (history inst sender sig segs)).wire := by
  induction segs generalizing s seen with
  | nil => exact ⟨trivial, inv, purged, wire, ever⟩
  | cons qs segs ih =>
    have h0 : HInv own inst sender sig (Equiv.step s .restart) seen := HInv.restart inv purged wire ever
    obtain ⟨h1, h2⟩ := run_requests hown hsig qs h0
    obtain ⟨h3, h4⟩ := ih h2.inv h2.purged h2.wire h2.ever
    have hh : history inst sender sig (qs :: segs) =
        (Equiv.Op.restart :: qs.map (fun q => Equiv.Op.broadcast (toMsg inst sender sig q) 0)) ++
          history inst sender sig segs := by
      simp [history]
    rw [hh, runOk_append, equiv_run_append, List.flatten_cons, scan_append]
    exact ⟨⟨⟨trivial, h1⟩, h3⟩, h4⟩

/-- **The vote-level scan is the wire of the C12 node model** on the crash-free history of the incarnations
(each starts by re-arming the filter from the WAL, then makes its requests): the history is admissible for
C12, and what it publishes is `published`. -/
theorem wire_history (sender l : Nat) (inst : Nat) (sig : Req → Nat)
    (hsig : ∀ r ph x y, sig (r, ph, x) = sig (r, ph, y) → x = y) (segs : List (List Req)) :
    Equiv.RunOk (fun x => x == sender) (Equiv.Sys.init l) (history inst sender sig segs) ∧
    (Equiv.run (Equiv.Sys.init l) (history inst sender sig segs)).wire =
      (published segs).map (toMsg inst sender sig) := by
  have h := run_history (own := fun x => x == sender) (inst := inst) (sender := sender) (sig := sig)
    (by simp) hsig segs (s := Equiv.Sys.init l) (seen := []) (Equiv.sysInv_init _ l) rfl rfl rfl
  exact ⟨h.1, h.2.2.2.1⟩

end F3.Restart
