import F3.Proofs.MultiParticipantProj
/-!
# A concrete two-instance execution of the multi-instance participant (no Mathlib)

Four members of equal power. Instance 0: four messages queued, begun by the alarm at 5, decides `[7,8]` at 21.
Meanwhile a QUALITY vote for instance 1 arrives at 7 and is queued; a DECIDE for instance 0 arrives at 22, after it
finished, and is dropped; two more messages for instance 1 are queued before the alarm at 30 begins instance 1
(proposal `[8,5]`) and drains its queue; instance 1 decides `[8,5]` at 41. Everything is checked by evaluation.
(`F3.Proofs.MultiParticipantNet` turns it into a `MultiNetwork`; the definitions coincide with those of
`F3.Proofs.BridgeEx`.)
-/
namespace F3.Instance

deriving instance DecidableEq for POp
deriving instance DecidableEq for Table

def mxTbl : Table := { entries := [(1, 1), (2, 1), (3, 1), (4, 1)] }
def mxCfg : Cfg := { maxLookahead := 2, rebImmediateAfter := 3, timeout2 := [100], qualityTimeout2 := 100, rebAfter := [50] }
def mxOrder : List Pid := [2, 4, 1]
def mxJp : Just := { round := 0, phase := .prepare, value := [7,8], signers := [0,1,2] }
def mxJc : Just := { round := 0, phase := .commit, value := [7,8], signers := [0,1,2] }
def mxJp1 : Just := { round := 0, phase := .prepare, value := [8,5], signers := [0,1,2] }
def mxJc1 : Just := { round := 0, phase := .commit, value := [8,5], signers := [0,1,2] }

/-- Two consecutive instances at one participant. Instance 0 : four messages queued, begun by the alarm at
5, decides `[7,8]` at 21. Meanwhile a QUALITY vote for instance 1 arrives at 7 and is queued; a DECIDE for instance 0
arrives at 22, after it finished, and is dropped; two more messages for instance 1 are queued before the alarm at 30
begins instance 1 (proposal `[8,5]`) and drains its queue; instance 1 decides `[8,5]` at 41. -/
def exMOps : List MPOp :=
  [.recv 1 ⟨0, { sender := 4, round := 0, phase := .prepare, value := [7,9] }⟩,
   .recv 2 ⟨0, { sender := 3, round := 0, phase := .prepare, value := [9,9], suppOk := false }⟩,
   .recv 3 ⟨0, { sender := 1, round := 0, phase := .quality, value := [7,8] }⟩,
   .recv 4 ⟨0, { sender := 2, round := 0, phase := .quality, value := [7,8] }⟩,
   .alarm 5 mxTbl [7,8] mxOrder,
   .recv 6 ⟨0, { sender := 3, round := 0, phase := .quality, value := [7,8] }⟩,
   .recv 7 ⟨1, { sender := 2, round := 0, phase := .quality, value := [8,5] }⟩,
   .recv 12 ⟨0, { sender := 4, round := 0, phase := .prepare, value := [7,8] }⟩,
   .recv 13 ⟨0, { sender := 1, round := 0, phase := .prepare, value := [7,8] }⟩,
   .recv 14 ⟨0, { sender := 2, round := 0, phase := .prepare, value := [7,8] }⟩,
   .recv 15 ⟨0, { sender := 3, round := 0, phase := .prepare, value := [7,8] }⟩,
   .recv 16 ⟨0, { sender := 1, round := 0, phase := .commit, value := [7,8], just := some mxJp }⟩,
   .recv 17 ⟨0, { sender := 2, round := 0, phase := .commit, value := [7,8], just := some mxJp }⟩,
   .recv 18 ⟨0, { sender := 3, round := 0, phase := .commit, value := [7,8], just := some mxJp }⟩,
   .recv 19 ⟨0, { sender := 1, round := 0, phase := .decide, value := [7,8], just := some mxJc }⟩,
   .recv 20 ⟨0, { sender := 2, round := 0, phase := .decide, value := [7,8], just := some mxJc }⟩,
   .recv 21 ⟨0, { sender := 3, round := 0, phase := .decide, value := [7,8], just := some mxJc }⟩,
   .recv 22 ⟨0, { sender := 1, round := 0, phase := .decide, value := [7,8], just := some mxJc }⟩,
   .recv 23 ⟨1, { sender := 1, round := 0, phase := .quality, value := [8,5] }⟩,
   .recv 24 ⟨1, { sender := 4, round := 0, phase := .prepare, value := [8,6] }⟩,
   .alarm 30 mxTbl [8,5] [1, 4, 2],
   .recv 31 ⟨1, { sender := 3, round := 0, phase := .quality, value := [8,5] }⟩,
   .recv 32 ⟨1, { sender := 4, round := 0, phase := .prepare, value := [8,5] }⟩,
   .recv 33 ⟨1, { sender := 1, round := 0, phase := .prepare, value := [8,5] }⟩,
   .recv 34 ⟨1, { sender := 2, round := 0, phase := .prepare, value := [8,5] }⟩,
   .recv 35 ⟨1, { sender := 3, round := 0, phase := .prepare, value := [8,5] }⟩,
   .recv 36 ⟨1, { sender := 1, round := 0, phase := .commit, value := [8,5], just := some mxJp1 }⟩,
   .recv 37 ⟨1, { sender := 2, round := 0, phase := .commit, value := [8,5], just := some mxJp1 }⟩,
   .recv 38 ⟨1, { sender := 3, round := 0, phase := .commit, value := [8,5], just := some mxJp1 }⟩,
   .recv 39 ⟨1, { sender := 1, round := 0, phase := .decide, value := [8,5], just := some mxJc1 }⟩,
   .recv 40 ⟨1, { sender := 2, round := 0, phase := .decide, value := [8,5], just := some mxJc1 }⟩,
   .recv 41 ⟨1, { sender := 3, round := 0, phase := .decide, value := [8,5], just := some mxJc1 }⟩]

/-- the calls of `exMOps` that concern instance 1 -/
def exPOps1 : List POp :=
  [.recv 7 { sender := 2, round := 0, phase := .quality, value := [8,5] },
   .recv 23 { sender := 1, round := 0, phase := .quality, value := [8,5] },
   .recv 24 { sender := 4, round := 0, phase := .prepare, value := [8,6] },
   .alarm 30,
   .recv 31 { sender := 3, round := 0, phase := .quality, value := [8,5] },
   .recv 32 { sender := 4, round := 0, phase := .prepare, value := [8,5] },
   .recv 33 { sender := 1, round := 0, phase := .prepare, value := [8,5] },
   .recv 34 { sender := 2, round := 0, phase := .prepare, value := [8,5] },
   .recv 35 { sender := 3, round := 0, phase := .prepare, value := [8,5] },
   .recv 36 { sender := 1, round := 0, phase := .commit, value := [8,5], just := some mxJp1 },
   .recv 37 { sender := 2, round := 0, phase := .commit, value := [8,5], just := some mxJp1 },
   .recv 38 { sender := 3, round := 0, phase := .commit, value := [8,5], just := some mxJp1 },
   .recv 39 { sender := 1, round := 0, phase := .decide, value := [8,5], just := some mxJc1 },
   .recv 40 { sender := 2, round := 0, phase := .decide, value := [8,5], just := some mxJc1 },
   .recv 41 { sender := 3, round := 0, phase := .decide, value := [8,5], just := some mxJc1 }]


/-- the calls of `exMOps` that concern instance 0: everything for instance 0 but the DECIDE that came too late -/
def exPOps0 : List POp :=
  [.recv 1 { sender := 4, round := 0, phase := .prepare, value := [7,9] },
   .recv 2 { sender := 3, round := 0, phase := .prepare, value := [9,9], suppOk := false },
   .recv 3 { sender := 1, round := 0, phase := .quality, value := [7,8] },
   .recv 4 { sender := 2, round := 0, phase := .quality, value := [7,8] },
   .alarm 5,
   .recv 6 { sender := 3, round := 0, phase := .quality, value := [7,8] },
   .recv 12 { sender := 4, round := 0, phase := .prepare, value := [7,8] },
   .recv 13 { sender := 1, round := 0, phase := .prepare, value := [7,8] },
   .recv 14 { sender := 2, round := 0, phase := .prepare, value := [7,8] },
   .recv 15 { sender := 3, round := 0, phase := .prepare, value := [7,8] },
   .recv 16 { sender := 1, round := 0, phase := .commit, value := [7,8], just := some mxJp },
   .recv 17 { sender := 2, round := 0, phase := .commit, value := [7,8], just := some mxJp },
   .recv 18 { sender := 3, round := 0, phase := .commit, value := [7,8], just := some mxJp },
   .recv 19 { sender := 1, round := 0, phase := .decide, value := [7,8], just := some mxJc },
   .recv 20 { sender := 2, round := 0, phase := .decide, value := [7,8], just := some mxJc },
   .recv 21 { sender := 3, round := 0, phase := .decide, value := [7,8], just := some mxJc }]

theorem ex_forward : noStartAt exMOps = true ∧ noBackward (minit mxCfg) exMOps = true ∧
    forwardOnly (minit mxCfg) exMOps = true := by
  decide +kernel

/-- the calls that concern instance 0 are `exPOps0`, those that concern instance 1 are `exPOps1`; both instances were
begun with what the host supplied to the alarms at 5 and at 30; instance 2 was not begun -/
theorem ex_opsOf :
    opsOf mxCfg 0 0 exMOps = exPOps0 ∧ opsOf mxCfg 0 1 exMOps = exPOps1 ∧
    begunWith mxCfg 0 0 exMOps = some (mxTbl, [7, 8], mxOrder) ∧
    begunWith mxCfg 0 1 exMOps = some (mxTbl, [8, 5], [1, 4, 2]) ∧ begunWith mxCfg 0 2 exMOps = none := by
  decide +kernel

/-- the life of the two instances, step by step -/
theorem ex_two_instances :
    -- while instance 0 is running, the message for instance 1 is queued, and only that
    (mprun (minit mxCfg) (exMOps.take 7)).1.cur = 0 ∧
    (mprun (minit mxCfg) (exMOps.take 7)).1.active.isSome = true ∧
    (mprun (minit mxCfg) (exMOps.take 7)).1.queues =
      [(1, [{ sender := 2, round := 0, phase := .quality, value := [8,5] }])] ∧
    (mprun (minit mxCfg) (exMOps.take 6)).2 = (mprun (minit mxCfg) (exMOps.take 7)).2 ∧
    -- instance 0 decides at the 17th call: recorded, instance 1 current and not begun, its queue kept
    (mprun (minit mxCfg) (exMOps.take 17)).1.cur = 1 ∧
    (mprun (minit mxCfg) (exMOps.take 17)).1.active.isNone = true ∧
    (mprun (minit mxCfg) (exMOps.take 17)).1.decisions =
      [(0, { round := 0, phase := .decide, value := [7,8], signers := [0,1,2] })] ∧
    (queueOf (mprun (minit mxCfg) (exMOps.take 17)).1.queues 1).length = 1 ∧
    -- the late message for instance 0 is dropped: no queue, no effect
    (mprun (minit mxCfg) (exMOps.take 18)).1.queues = (mprun (minit mxCfg) (exMOps.take 17)).1.queues ∧
    (mprun (minit mxCfg) (exMOps.take 18)).2 = (mprun (minit mxCfg) (exMOps.take 17)).2 ∧
    -- three messages are queued for instance 1 when it begins; the alarm drains them
    (queueOf (mprun (minit mxCfg) (exMOps.take 20)).1.queues 1).map (·.sender) = [2, 1, 4] ∧
    (mprun (minit mxCfg) (exMOps.take 21)).1.queues = [] ∧
    (mprun (minit mxCfg) (exMOps.take 21)).1.active.isSome = true ∧
    (effsOf 1 (mprun (minit mxCfg) (exMOps.take 21)).2).length = 3 ∧
    -- instance 1 decides
    (mprun (minit mxCfg) exMOps).1.cur = 2 ∧
    (mprun (minit mxCfg) exMOps).1.decisions =
      [(0, { round := 0, phase := .decide, value := [7,8], signers := [0,1,2] }),
       (1, { round := 0, phase := .decide, value := [8,5], signers := [0,1,2] })] := by
  decide +kernel

/-- the projection theorem, checked by evaluation on the example; no call reported a failure -/
theorem ex_projection :
    effsOf 0 (mprun (minit mxCfg) exMOps).2 = (prun mxOrder (pinit mxCfg mxTbl [7, 8]) (opsOf mxCfg 0 0 exMOps)).2 ∧
    effsOf 1 (mprun (minit mxCfg) exMOps).2 = (prun [1, 4, 2] (pinit mxCfg mxTbl [8, 5]) (opsOf mxCfg 0 1 exMOps)).2 ∧
    (prun mxOrder (pinit mxCfg mxTbl [7, 8]) (opsOf mxCfg 0 0 exMOps)).1.inst.termination =
      some { round := 0, phase := .decide, value := [7,8], signers := [0,1,2] } ∧
    (prun [1, 4, 2] (pinit mxCfg mxTbl [8, 5]) (opsOf mxCfg 0 1 exMOps)).1.inst.termination =
      some { round := 0, phase := .decide, value := [8,5], signers := [0,1,2] } ∧
    hasFailure ((mprun (minit mxCfg) exMOps).2.map (·.2)) = false := by
  decide +kernel

/-- `StartInstanceAt 0` after instance 0 was decided (the Go code accepts any instance): instance 0 runs again —
here with another proposal — and decides again -/
def exBackOps : List MPOp :=
  exMOps.take 17 ++ [.startAt 0] ++
    exPOps1.map (fun op => match op with
      | .recv now m => MPOp.recv now ⟨0, m⟩
      | .alarm now => MPOp.alarm now mxTbl [8, 5] [1, 4, 2])

/-- … so two decisions, for different values, are recorded for instance 0: with a backward `StartInstanceAt` the
recorded ids are not increasing and a participant may hand the host several decisions for one instance. (The
message for instance 1 queued during the first incarnation of instance 0 was discarded when instance 0 finished.) -/
theorem ex_backward :
    noBackward (minit mxCfg) exBackOps = false ∧
    (mprun (minit mxCfg) exBackOps).1.decisions.map (fun e => (e.1, e.2.value)) = [(0, [7, 8]), (0, [8, 5])] ∧
    (mprun (minit mxCfg) exBackOps).1.cur = 1 := by
  decide +kernel

/-- `StartInstanceAt 0` while instance 0 is running (not backwards, but a restart — excluded by `forwardOnly`): the
running instance is dropped and the next alarm begins instance 0 afresh, here with another proposal -/
def exRestartOps : List MPOp :=
  exMOps.take 6 ++ [.startAt 0, .alarm 8 mxTbl [7, 9] []]

/-- … so the participant broadcasts QUALITY twice for instance 0, for two different chains: the effects tagged 0 are
not those of one single-instance run -/
theorem ex_restart :
    noBackward (minit mxCfg) exRestartOps = true ∧ forwardOnly (minit mxCfg) exRestartOps = false ∧
    (effsOf 0 (mprun (minit mxCfg) exRestartOps).2).filter (fun e => match e with | .broadcast .. => true | _ => false) =
      [.broadcast 0 .quality [7, 8] false none, .broadcast 0 .prepare [7, 8] false none,
       .broadcast 0 .quality [7, 9] false none] := by
  decide +kernel

/-- every message of the example is for round 0, hence `MsgOk` -/
theorem ex_msgs_ok : ∀ op ∈ exMOps, MPOpP MsgOk op := by
  have h : exMOps.all (fun op => match op with | .recv _ m => m.msg.round == 0 | _ => true) = true := by
    decide +kernel
  intro op hop
  have := List.all_eq_true.1 h op hop
  cases op with
  | recv now m => exact fun _ => by simpa using this
  | alarm _ _ _ _ => trivial
  | startAt _ => trivial

end F3.Instance
