import F3.Model.Wal
/-! Helper lemmas for C11: the decode loop on well-formed / torn files. Core-only. -/
namespace F3.Wal
variable {α β : Type}

theorem Codec.Ok.dec1_nil {c : Codec α β} (h : c.Ok) : c.dec1 [] = none := by
  cases hd : c.dec1 [] with
  | none => rfl
  | some p =>
    have := h.torn p.1 0 (List.length_pos_iff.mpr (h.nonempty p.1))
    simp [hd] at this

theorem encAll_nil (c : Codec α β) : encAll c [] = [] := rfl

theorem encAll_cons (c : Codec α β) (e : α) (es : List α) : encAll c (e :: es) = c.enc e ++ encAll c es := by
  simp [encAll]

theorem encAll_append (c : Codec α β) (es fs : List α) : encAll c (es ++ fs) = encAll c es ++ encAll c fs := by
  simp [encAll]

theorem encAll_singleton (c : Codec α β) (e : α) : encAll c [e] = c.enc e := by
  simp [encAll]

theorem encAll_length_ge {c : Codec α β} (h : c.Ok) (es : List α) : es.length ≤ (encAll c es).length := by
  induction es with
  | nil => simp
  | cons e es ih =>
    rw [encAll_cons, List.length_append, List.length_cons]
    have := List.length_pos_iff.mpr (h.nonempty e)
    omega

/-- The decode loop consumes a well-formed prefix record by record. -/
theorem decAll_append {c : Codec α β} (h : c.Ok) (es : List α) (t : List β) (n : Nat) :
    decAll c (es.length + n) (encAll c es ++ t) = es ++ decAll c n t := by
  induction es with
  | nil => simp [encAll]
  | cons e es ih =>
    have : (e :: es).length + n = (es.length + n) + 1 := by simp; omega
    rw [this, encAll_cons, List.append_assoc]
    simp only [decAll, h.roundtrip]
    rw [ih]; rfl

theorem decAll_nil {c : Codec α β} (h : c.Ok) (n : Nat) : decAll c n [] = [] := by
  cases n with
  | zero => rfl
  | succ n => simp [decAll, h.dec1_nil]

theorem decAll_torn {c : Codec α β} (h : c.Ok) (e : α) (k n : Nat) (hk : k < (c.enc e).length) :
    decAll c n ((c.enc e).take k) = [] := by
  cases n with
  | zero => rfl
  | succ n => simp [decAll, h.torn e k hk]

/-- A file holding complete records reads back exactly those records. -/
theorem readFile_encAll {c : Codec α β} (h : c.Ok) (es : List α) : readFile c (encAll c es) = es := by
  unfold readFile
  have hl := encAll_length_ge h es
  obtain ⟨n, hn⟩ : ∃ n, (encAll c es).length + 1 = es.length + n := ⟨(encAll c es).length + 1 - es.length, by omega⟩
  have := decAll_append h es [] n
  rw [List.append_nil] at this
  rw [hn, this, decAll_nil h, List.append_nil]

/-- A file holding complete records followed by a torn record reads back the complete records. -/
theorem readFile_encAll_torn {c : Codec α β} (h : c.Ok) (es : List α) (e : α) (k : Nat)
    (hk : k < (c.enc e).length) : readFile c (encAll c es ++ (c.enc e).take k) = es := by
  unfold readFile
  have hl := encAll_length_ge h es
  obtain ⟨n, hn⟩ : ∃ n, (encAll c es ++ (c.enc e).take k).length + 1 = es.length + n :=
    ⟨(encAll c es ++ (c.enc e).take k).length + 1 - es.length, by rw [List.length_append]; omega⟩
  rw [hn, decAll_append h, decAll_torn h e k n hk, List.append_nil]

/-- `take n` of an encoding is either a strict prefix or the whole encoding. -/
theorem readFile_encAll_take {c : Codec α β} (h : c.Ok) (es : List α) (e : α) (k : Nat) :
    readFile c (encAll c es ++ (c.enc e).take k) = if k < (c.enc e).length then es else es ++ [e] := by
  split
  · next hk => exact readFile_encAll_torn h es e k hk
  · next hk =>
    rw [List.take_of_length_le (by omega)]
    have := readFile_encAll h (es ++ [e])
    rwa [encAll_append, encAll_singleton] at this

theorem maxEpochOf_append (cfg : Cfg α β) (es : List α) (e : α) :
    maxEpochOf cfg (es ++ [e]) = max (maxEpochOf cfg es) (cfg.epoch e) := by
  simp [maxEpochOf, List.foldl_append]

theorem foldl_max_ge (f : α → Nat) (es : List α) (a : Nat) : a ≤ es.foldl (fun a e => max a (f e)) a := by
  induction es generalizing a with
  | nil => simp
  | cons e es ih => simp only [List.foldl_cons]; exact Nat.le_trans (Nat.le_max_left _ _) (ih _)

theorem foldl_max_mem (f : α → Nat) (es : List α) (a : Nat) (e : α) (he : e ∈ es) :
    f e ≤ es.foldl (fun a e => max a (f e)) a := by
  induction es generalizing a with
  | nil => cases he
  | cons x es ih =>
    simp only [List.foldl_cons]
    cases he with
    | head => exact Nat.le_trans (Nat.le_max_right _ _) (foldl_max_ge f es _)
    | tail _ h => exact ih _ h

theorem foldl_max_lt (f : α → Nat) (es : List α) (a k : Nat) (ha : a < k) (h : ∀ e ∈ es, f e < k) :
    es.foldl (fun a e => max a (f e)) a < k := by
  induction es generalizing a with
  | nil => simpa
  | cons x es ih =>
    simp only [List.foldl_cons]
    apply ih
    · have := h x (by simp); omega
    · intro e he; exact h e (by simp [he])

/-- The per-file maximum is below `k` exactly when every record is (for `k > 0`). -/
theorem maxEpochOf_lt_iff (cfg : Cfg α β) (es : List α) (k : Nat) (hk : 0 < k) :
    maxEpochOf cfg es < k ↔ ∀ e ∈ es, cfg.epoch e < k := by
  constructor
  · intro h e he
    exact Nat.lt_of_le_of_lt (foldl_max_mem cfg.epoch es 0 e he) h
  · intro h
    exact foldl_max_lt cfg.epoch es 0 k hk h

theorem le_maxEpochOf (cfg : Cfg α β) (es : List α) (e : α) (he : e ∈ es) : cfg.epoch e ≤ maxEpochOf cfg es :=
  foldl_max_mem cfg.epoch es 0 e he

end F3.Wal
