import F3.Proofs.SyncTimedStep
/-!
# Real-time synchrony implies the untimed synchrony order (proof of `C02.timed_sync_ordered`)

Joint induction along the execution: the network invariant `NInv` of `SyncNet` (which needs the untimed synchrony
condition `syncOpOk` of the current event) and the timing invariant `TInv` (from which, with the real-time
conditions T1–T3 at the current event, `syncOpOk` follows — `syncAt_of_timed`).
-/
namespace F3.Sync
open F3.Instance F3.Net

section
variable {t : Table} {c : Chain} {H : List Pid} {Δ : Int} {cfg : Pid → Cfg}

/-- an event that runs the model on node `p` (state `s`, result `r`, broadcasts stamped `now`) -/
theorem TInv.step (hlen : 2 ≤ c.length) (hΔ : 0 ≤ Δ)
    (hT4 : ∀ q ∈ H, 2 * Δ ≤ (cfg q).qualityTimeout2 ∧ 2 * Δ ≤ tableGet (cfg q).timeout2 0)
    {tn tn' : TNet} (hn : NInv t c H tn.net) (ht : TInv t Δ cfg tn) {p : Pid} {s : State}
    (hp : (p, s) ∈ tn.net.nodes) (r : R) (om : Option Msg) (now : Int)
    (g : Good t c H p s r) (sx : SX c now om s r) (hom : ∀ m, om = some m → m ∈ tn.net.pool)
    (hT1 : tn.clock ≤ now) (hT3 : T3 Δ tn now)
    (hnodes : tn'.net.nodes = setNode tn.net.nodes p r.1)
    (hpool : tn'.net.pool = tn.net.pool ++ sent p r.2)
    (hst : tn'.stamps = tn.stamps ++ (sent p r.2).map (fun m => (m, now)))
    (hclock : tn'.clock = now)
    (hcase : (s.phase ≠ .initial ∧ tn'.starts = tn.starts ∧ tn'.net.started = tn.net.started ∧ p ∈ tn.net.started) ∨
      (s.phase = .initial ∧ tn'.starts = tn.starts ++ [(p, now)] ∧ tn'.net.started = tn.net.started ++ [p] ∧
        r.1.phaseTimeout = now + s.cfg.qualityTimeout2 ∧ ∀ q s', (q, s') ∈ tn.starts → now ≤ s' + Δ)) :
    TInv t Δ cfg tn' := by
  have hpH := hn.mem_H hp
  have htn := ht.node p s hp
  have hsentp : ∀ m ∈ sent p r.2, m.sender = p := fun m hm => (g.trans.facts.1 m hm).1
  have hconv0 := conv_step ht hp sx hom
  have hsts : ∀ d ∈ tn.starts, d ∈ tn'.starts := by
    intro d hd
    rcases hcase with ⟨_, h, _⟩ | ⟨_, h, _⟩ <;> rw [h]
    · exact hd
    · exact List.mem_append_left _ hd
  have hpst : ∃ s', (p, s') ∈ tn'.starts ∧ s' ≤ now := by
    rcases hcase with ⟨_, h, _, hin⟩ | ⟨_, h, _⟩
    · obtain ⟨s', hs'⟩ := (ht.started p).1 hin
      exact ⟨s', by rw [h]; exact hs', Int.le_trans (ht.sts_clock p s' hs') hT1⟩
    · exact ⟨now, by rw [h]; simp, Int.le_refl _⟩
  have hnew : ∀ m τ, (m, τ) ∈ (sent p r.2).map (fun m => (m, now)) → m ∈ sent p r.2 ∧ τ = now := by
    intro m τ h
    obtain ⟨m', hm', he⟩ := List.mem_map.1 h
    simp only [Prod.mk.injEq] at he
    exact ⟨he.1 ▸ hm', he.2.symm⟩
  have hstle : ∀ m τ, (m, τ) ∈ tn.stamps → τ ≤ now := fun m τ h => Int.le_trans (ht.st_clock m τ h) hT1
  have hsub : ∀ d ∈ tn.stamps, d ∈ tn.stamps ++ (sent p r.2).map (fun m => (m, now)) :=
    fun d hd => List.mem_append_left _ hd
  -- a tallied sender has broadcast by `now`
  have hsentby : ∀ ph y, y ∈ sendersOf r.1 ph →
      SentBy (tn.stamps ++ (sent p r.2).map (fun m => (m, now))) y ph now := by
    intro ph y hy
    obtain ⟨my, hmy, h1, h2⟩ := hconv0 ph y hy
    obtain ⟨τy, hτy⟩ := ht.pool_st my hmy
    exact ⟨my, τy, hsub _ hτy, h1, h2, hstle my τy hτy⟩
  refine ⟨?_, ?_, ?_, ?_, ?_, ?_, ?_, ?_, ?_, ?_, ?_⟩
  · intro m hm
    rw [hpool] at hm
    rw [hst]
    rcases List.mem_append.1 hm with h | h
    · obtain ⟨τ, hτ⟩ := ht.pool_st m h
      exact ⟨τ, hsub _ hτ⟩
    · exact ⟨now, List.mem_append_right _ (List.mem_map.2 ⟨m, h, rfl⟩)⟩
  · intro m τ h
    rw [hst] at h
    rw [hpool]
    rcases List.mem_append.1 h with h | h
    · exact List.mem_append_left _ (ht.st_pool m τ h)
    · exact List.mem_append_right _ (hnew m τ h).1
  · intro m τ h
    rw [hst] at h
    rw [hclock]
    rcases List.mem_append.1 h with h | h
    · exact hstle m τ h
    · rw [(hnew m τ h).2]; exact Int.le_refl _
  · intro q s' h
    rw [hclock]
    rcases hcase with ⟨_, he, _⟩ | ⟨_, he, _⟩ <;> rw [he] at h
    · exact Int.le_trans (ht.sts_clock q s' h) hT1
    · rcases List.mem_append.1 h with h | h
      · exact Int.le_trans (ht.sts_clock q s' h) hT1
      · simp only [List.mem_singleton, Prod.mk.injEq] at h
        rw [h.2]; exact Int.le_refl _
  · intro q
    rcases hcase with ⟨_, he, hs, _⟩ | ⟨_, he, hs, _⟩ <;> rw [he, hs]
    · exact ht.started q
    · constructor
      · intro h
        rcases List.mem_append.1 h with h | h
        · obtain ⟨s', hs'⟩ := (ht.started q).1 h
          exact ⟨s', List.mem_append_left _ hs'⟩
        · simp only [List.mem_singleton] at h
          exact ⟨now, by rw [h]; simp⟩
      · rintro ⟨s', h⟩
        rcases List.mem_append.1 h with h | h
        · exact List.mem_append_left _ ((ht.started q).2 ⟨s', h⟩)
        · simp only [List.mem_singleton, Prod.mk.injEq] at h
          rw [h.1]; simp
  · intro q s1 q' s2 h1 h2
    rcases hcase with ⟨_, he, _⟩ | ⟨_, he, _, _, h2a⟩ <;> rw [he] at h1 h2
    · exact ht.stagger q s1 q' s2 h1 h2
    · rcases List.mem_append.1 h1 with h1 | h1 <;> rcases List.mem_append.1 h2 with h2 | h2
      · exact ht.stagger q s1 q' s2 h1 h2
      · simp only [List.mem_singleton, Prod.mk.injEq] at h2
        rw [h2.2]; exact h2a q s1 h1
      · simp only [List.mem_singleton, Prod.mk.injEq] at h1
        have := Int.le_trans (ht.sts_clock q' s2 h2) hT1
        rw [h1.2]; omega
      · simp only [List.mem_singleton, Prod.mk.injEq] at h1 h2
        rw [h1.2, h2.2]; omega
  · intro m τ h hq
    rw [hst] at h
    rcases List.mem_append.1 h with h | h
    · exact hsts _ (ht.qstamp m τ h hq)
    · obtain ⟨hm, rfl⟩ := hnew m τ h
      have ha := g.trans.newQ hm hq
      rw [hsentp m hm]
      rcases hcase with ⟨hni, _⟩ | ⟨_, he, _⟩
      · exact absurd ha hni
      · rw [he]; simp
  · intro m τ h
    rw [hst] at h
    rcases List.mem_append.1 h with h | h
    · obtain ⟨s', h1, h2⟩ := ht.sender_started m τ h
      exact ⟨s', hsts _ h1, h2⟩
    · obtain ⟨hm, rfl⟩ := hnew m τ h
      rw [hsentp m hm]
      exact hpst
  · intro m e h hph
    rw [hst] at h ⊢
    rcases List.mem_append.1 h with h | h
    · exact (ht.qlp m e h hph).mono hsub (Int.le_refl _)
    · obtain ⟨hm, rfl⟩ := hnew m e h
      obtain ⟨ha, hb⟩ := g.trans.newP hm hph
      have hstr := g.sinv.qt.strong_imp hlen (sx.toP ha hb).2
      exact ⟨r.1.quality.senders, sx.qn htn.qn, hstr, fun y hy => hsentby .quality y hy⟩
  · intro m e h hph
    rw [hst] at h ⊢
    rcases List.mem_append.1 h with h | h
    · exact (ht.qlc m e h hph).mono hsub (Int.le_refl _)
    · obtain ⟨hm, rfl⟩ := hnew m e h
      obtain ⟨ha, hb⟩ := g.trans.newC hm hph
      rcases (sx.toC ha hb).2 with hs | hj
      · exact ⟨(r.1.getRound 0).prepared.senders, g.sinv.prep.nodup, g.sinv.prep.strong_imp hs,
          fun y hy => hsentby .prepare y hy⟩
      · have hne := sx.js htn.js hj
        obtain ⟨y, hy⟩ := List.exists_mem_of_ne_nil _ hne
        obtain ⟨my, hmy, _, h2⟩ := hconv0 .commit y hy
        obtain ⟨τy, hτy⟩ := ht.pool_st my hmy
        exact (ht.qlc my τy hτy h2).mono hsub (hstle my τy hτy)
  · intro q x hq
    rw [hnodes] at hq
    rw [hst, hpool]
    rcases mem_setNode hq with ⟨rfl, rfl⟩ | ⟨hne, hmem⟩
    · refine TNode.step hlen hΔ hn ht hp r om now g sx hom hT1 hT3 (hT4 q hpH) tn'.starts hsts ?_
      intro hi
      rcases hcase with ⟨hni, _⟩ | ⟨_, he, _, hto, _⟩
      · exact absurd hi hni
      · exact ⟨hto, by rw [he]; simp⟩
    · exact (ht.node q x hmem).mono hΔ now
        (by intro d hd; obtain ⟨m', _, rfl⟩ := List.mem_map.1 hd; rfl)
        hstle hsts (fun m hm => List.mem_append_left _ hm)

/-- an event that does not run the model (unknown node, or delivery to a terminated instance) -/
theorem TInv.idle {tn tn' : TNet} (ht : TInv t Δ cfg tn) (hT1 : tn.clock ≤ tn'.clock)
    (hnodes : tn'.net.nodes = tn.net.nodes) (hpool : tn'.net.pool = tn.net.pool)
    (hstarted : tn'.net.started = tn.net.started) (hst : tn'.stamps = tn.stamps) (hsts : tn'.starts = tn.starts) :
    TInv t Δ cfg tn' := by
  refine ⟨?_, ?_, ?_, ?_, ?_, ?_, ?_, ?_, ?_, ?_, ?_⟩
  · rw [hpool, hst]; exact ht.pool_st
  · rw [hpool, hst]; exact ht.st_pool
  · rw [hst]; exact fun m τ h => Int.le_trans (ht.st_clock m τ h) hT1
  · rw [hsts]; exact fun q s h => Int.le_trans (ht.sts_clock q s h) hT1
  · rw [hstarted, hsts]; exact ht.started
  · rw [hsts]; exact ht.stagger
  · rw [hst, hsts]; exact ht.qstamp
  · rw [hst, hsts]; exact ht.sender_started
  · rw [hst]; exact ht.qlp
  · rw [hst]; exact ht.qlc
  · rw [hnodes, hst, hsts, hpool]; exact ht.node


/-! ## the real-time conditions of one event, as propositions -/

theorem timed_T1 {tn : TNet} {op : NetOp} (h : timedOpOk Δ tn op = true) : tn.clock ≤ opTime op := by
  unfold timedOpOk at h
  simp only [Bool.and_eq_true, decide_eq_true_eq] at h
  exact h.1.1

theorem timed_T3 {tn : TNet} {op : NetOp} (h : timedOpOk Δ tn op = true) : T3 Δ tn (opTime op) := by
  unfold timedOpOk at h
  simp only [Bool.and_eq_true] at h
  have h3 := h.2
  intro m τ q s hm hq h1 h2
  have ha := List.all_eq_true.1 h3 (m, τ) hm
  have hb := List.all_eq_true.1 ha (q, s) hq
  simp only [h1, h2, decide_true, Bool.and_self, Bool.not_true, Bool.false_or, List.contains_eq_mem,
    decide_eq_true_eq] at hb
  exact hb

theorem timed_T2a {tn : TNet} {p : Pid} {now : Int} (h : timedOpOk Δ tn (.start p now) = true) :
    ∀ q s, (q, s) ∈ tn.starts → now ≤ s + Δ := by
  unfold timedOpOk at h
  simp only [Bool.and_eq_true] at h
  have h2 := h.1.2
  intro q s hq
  have := List.all_eq_true.1 h2 (q, s) hq
  exact of_decide_eq_true this

theorem timed_T2b {tn : TNet} {op : NetOp} (h : timedOpOk Δ tn op = true) (hop : ∀ p now, op ≠ .start p now) :
    (∃ q s, (q, s) ∈ tn.starts ∧ s + Δ ≤ opTime op) → allStarted tn.net = true := by
  unfold timedOpOk at h
  simp only [Bool.and_eq_true] at h
  have h2 := h.1.2
  rintro ⟨q, s, hq, hs⟩
  have hany : tn.starts.any (fun e => decide (e.2 + Δ ≤ opTime op)) = true :=
    List.any_eq_true.2 ⟨(q, s), hq, by simpa using hs⟩
  cases op with
  | start p now => exact absurd rfl (hop p now)
  | deliver p now m =>
    rw [hany] at h2
    simpa using h2
  | alarm p now =>
    rw [hany] at h2
    simpa using h2

/-! ## `tstep`, unfolded -/

theorem tstep_start_some {tn : TNet} {p : Pid} {now : Int} {s : State} (hnode : tn.net.node? p = some s) :
    (tstep tn (.start p now)).net.nodes = setNode tn.net.nodes p (step s (.start now)).1 ∧
    (tstep tn (.start p now)).net.pool = tn.net.pool ++ sent p (step s (.start now)).2 ∧
    (tstep tn (.start p now)).stamps = tn.stamps ++ (sent p (step s (.start now)).2).map (fun m => (m, now)) ∧
    (tstep tn (.start p now)).clock = now ∧
    (tstep tn (.start p now)).starts = tn.starts ++ [(p, now)] ∧
    (tstep tn (.start p now)).net.started = tn.net.started ++ [p] := by
  unfold tstep
  simp only [netStep, hnode, Net.apply, opTime, Option.isSome_some, if_true, List.drop_left, and_self]

theorem tstep_deliver_some {tn : TNet} {p : Pid} {now : Int} {m : Msg} {s : State} (hnode : tn.net.node? p = some s)
    (hterm : s.phase ≠ .terminated) :
    (tstep tn (.deliver p now m)).net.nodes = setNode tn.net.nodes p (step s (.recv now m)).1 ∧
    (tstep tn (.deliver p now m)).net.pool = tn.net.pool ++ sent p (step s (.recv now m)).2 ∧
    (tstep tn (.deliver p now m)).stamps = tn.stamps ++ (sent p (step s (.recv now m)).2).map (fun m => (m, now)) ∧
    (tstep tn (.deliver p now m)).clock = now ∧
    (tstep tn (.deliver p now m)).starts = tn.starts ∧
    (tstep tn (.deliver p now m)).net.started = tn.net.started := by
  have hb : (s.phase == Phase.terminated) = false := by simp [hterm]
  unfold tstep
  simp only [netStep, hnode, hb, Net.apply, opTime, Bool.false_eq_true, if_false, List.drop_left, and_self]

theorem tstep_alarm_some {tn : TNet} {p : Pid} {now : Int} {s : State} (hnode : tn.net.node? p = some s) :
    (tstep tn (.alarm p now)).net.nodes = setNode tn.net.nodes p (step s (.alarm now)).1 ∧
    (tstep tn (.alarm p now)).net.pool = tn.net.pool ++ sent p (step s (.alarm now)).2 ∧
    (tstep tn (.alarm p now)).stamps = tn.stamps ++ (sent p (step s (.alarm now)).2).map (fun m => (m, now)) ∧
    (tstep tn (.alarm p now)).clock = now ∧
    (tstep tn (.alarm p now)).starts = tn.starts ∧
    (tstep tn (.alarm p now)).net.started = tn.net.started := by
  unfold tstep
  by_cases hf : (s.phase == .quality && s.phaseTimeoutElapsed now) = true
  · simp only [netStep, hnode, hf, Net.apply, opTime, if_true, List.drop_left, and_self]
  · simp only [netStep, hnode, hf, Net.apply, opTime, Bool.false_eq_true, if_false, List.drop_left, and_self]

/-- the events that leave nodes, pool, started and the ghost stamps alone -/
theorem tstep_idle {tn : TNet} {op : NetOp}
    (h : (netStep tn.net op).nodes = tn.net.nodes ∧ (netStep tn.net op).pool = tn.net.pool ∧
      (netStep tn.net op).started = tn.net.started)
    (hs : ∀ p now, op = .start p now → tn.net.node? p = none) (ht : TInv t Δ cfg tn) (hT1 : tn.clock ≤ opTime op) :
    TInv t Δ cfg (tstep tn op) := by
  refine ht.idle hT1 h.1 h.2.1 h.2.2 ?_ ?_
  · show tn.stamps ++ ((netStep tn.net op).pool.drop tn.net.pool.length).map (fun m => (m, opTime op)) = tn.stamps
    rw [h.2.1, List.drop_length]
    simp
  · cases op with
    | start p now =>
      show (if (tn.net.node? p).isSome then tn.starts ++ [(p, now)] else tn.starts) = tn.starts
      rw [hs p now rfl]; rfl
    | deliver p now m => rfl
    | alarm p now => rfl

/-! ## one event -/

theorem deliver_facts (hctx : Ctx t c H) (hlen : 2 ≤ c.length) {n : Net} (hn : NInv t c H n) {p : Pid} {s : State}
    (hnode : n.node? p = some s) (now : Int) (m : Msg) (hok : opOk n (.deliver p now m) = true)
    (hsy : syncOpOk n (.deliver p now m) = true) (hterm : s.phase ≠ .terminated) :
    Good t c H p s (step s (.recv now m)) ∧ SX c now (some m) s (step s (.recv now m)) := by
  have hp := node?_mem hnode
  have hno := hn.node p s hp
  have hpH := hn.mem_H hp
  unfold opOk at hok
  simp only [Bool.and_eq_true, List.contains_eq_mem, decide_eq_true_eq] at hok
  have hni : s.phase ≠ .initial := hno.started.1 hok.1
  obtain ⟨hm, hmH⟩ := hn.pool m hok.2
  have hself : m.phase = .prepare → m.sender = p → s.phase ≠ .quality := by
    intro h1 h2
    exact (hno.prepSelf ⟨m, hok.2, h2, h1⟩).2
  have hsm : SyncedM H s now m := by
    intro htp hel h hh
    unfold syncOpOk at hsy
    obtain ⟨m', hm', h1, h2⟩ := sync_handed hn hnode _ now hsy htp hel h hh
    rcases List.mem_append.1 hm' with hin | hin
    · left
      have := hno.deliv m' hin hterm
      rw [h2, h1] at this
      exact this
    · right
      simp only [List.mem_singleton, Prod.mk.injEq] at hin
      rw [← hin.2]
      exact ⟨h2, h1⟩
  exact ⟨(step_recv_good hctx hpH now m hno.sinv hno.pi hni hterm hm hmH hself hsm).1,
    step_recv_sx hctx hlen hpH now m hno.sinv hno.pi hni hterm hm hmH hself hsm⟩

theorem alarm_facts (hctx : Ctx t c H) (hlen : 2 ≤ c.length) {n : Net} (hn : NInv t c H n) {p : Pid} {s : State}
    (hnode : n.node? p = some s) (now : Int) (hok : opOk n (.alarm p now) = true)
    (hsy : syncOpOk n (.alarm p now) = true) :
    Good t c H p s (step s (.alarm now)) ∧ SX c now none s (step s (.alarm now)) := by
  have hp := node?_mem hnode
  have hno := hn.node p s hp
  have hpH := hn.mem_H hp
  unfold opOk at hok
  simp only [List.contains_eq_mem, decide_eq_true_eq] at hok
  have hni : s.phase ≠ .initial := hno.started.1 hok
  have hsd : Synced H s now := by
    intro htp hel h hh
    unfold syncOpOk at hsy
    obtain ⟨m', hm', h1, h2⟩ := sync_handed hn hnode _ now hsy htp hel h hh
    have hnt : s.phase ≠ .terminated := by
      intro ht; rw [ht] at htp; cases htp
    have := hno.deliv m' hm' hnt
    rw [h2, h1] at this
    exact this
  exact ⟨step_alarm_good hctx hpH now hno.sinv hno.pi hni hsd, step_alarm_sx hctx hlen hpH now hno.sinv hno.pi hni hsd⟩

/-- **one event**: the real-time conditions give the untimed synchrony condition, and both invariants carry over -/
theorem tstep_inv (hctx : Ctx t c H) (hlen : 2 ≤ c.length) (hΔ : 0 ≤ Δ)
    (hT4 : ∀ q ∈ H, 2 * Δ ≤ (cfg q).qualityTimeout2 ∧ 2 * Δ ≤ tableGet (cfg q).timeout2 0)
    {tn : TNet} (hn : NInv t c H tn.net) (ht : TInv t Δ cfg tn) (op : NetOp)
    (hok : opOk tn.net op = true) (htm : timedOpOk Δ tn op = true) :
    syncOpOk tn.net op = true ∧ NInv t c H (tstep tn op).net ∧ TInv t Δ cfg (tstep tn op) := by
  have hT1 := timed_T1 htm
  have hT3 := timed_T3 htm
  have hsy : syncOpOk tn.net op = true := by
    cases op with
    | start p now => rfl
    | deliver p now m =>
      have hT2 := timed_T2b htm (by intro _ _ h; cases h)
      show syncAt tn.net (tn.net.delivered ++ [(p, m)]) p now = true
      cases hnode : tn.net.node? p with
      | none => unfold syncAt; rw [hnode]
      | some s =>
        exact syncAt_of_timed hlen hΔ hn ht hnode now hT3 hT2 _ (fun d hd => List.mem_append_left _ hd)
    | alarm p now =>
      have hT2 := timed_T2b htm (by intro _ _ h; cases h)
      show syncAt tn.net tn.net.delivered p now = true
      cases hnode : tn.net.node? p with
      | none => unfold syncAt; rw [hnode]
      | some s => exact syncAt_of_timed hlen hΔ hn ht hnode now hT3 hT2 _ (fun d hd => hd)
  have hn' : NInv t c H (tstep tn op).net := netStep_inv hctx hn op hok hsy
  refine ⟨hsy, hn', ?_⟩
  cases op with
  | start p now =>
    cases hnode : tn.net.node? p with
    | none =>
      refine tstep_idle ?_ (fun _ _ h => by cases h; exact hnode) ht hT1
      simp only [netStep, hnode, and_self]
    | some s =>
      have hp := node?_mem hnode
      have hno := hn.node p s hp
      have hok' := hok
      unfold opOk at hok'
      simp only [Bool.and_eq_true, Bool.not_eq_true', List.contains_eq_mem, decide_eq_false_iff_not] at hok'
      have hph : s.phase = .initial := by
        by_cases hne : s.phase = .initial
        · exact hne
        · exact absurd (hno.started.2 hne) hok'.2
      obtain ⟨e1, e2, e3, e4, e5, e6⟩ := tstep_start_some (tn := tn) (now := now) hnode
      obtain ⟨sx, hto⟩ := step_start_sx (c := c) (s := s) now hph
      exact TInv.step hlen hΔ hT4 hn ht hp _ none now (step_start_good now hno.sinv hno.pi hph) sx
        (fun _ h => by cases h) hT1 hT3 e1 e2 e3 e4 (Or.inr ⟨hph, e5, e6, hto, timed_T2a htm⟩)
  | deliver p now m =>
    cases hnode : tn.net.node? p with
    | none =>
      refine tstep_idle ?_ (fun _ _ h => by cases h) ht hT1
      simp only [netStep, hnode, and_self]
    | some s =>
      by_cases hterm : s.phase = .terminated
      · refine tstep_idle ?_ (fun _ _ h => by cases h) ht hT1
        have hb : (s.phase == Phase.terminated) = true := by simp [hterm]
        simp only [netStep, hnode, hb, if_true, and_self]
      · have hp := node?_mem hnode
        obtain ⟨g, sx⟩ := deliver_facts hctx hlen hn hnode now m hok hsy hterm
        obtain ⟨e1, e2, e3, e4, e5, e6⟩ := tstep_deliver_some (tn := tn) (now := now) (m := m) hnode hterm
        have hok' := hok
        unfold opOk at hok'
        simp only [Bool.and_eq_true, List.contains_eq_mem, decide_eq_true_eq] at hok'
        have hni : s.phase ≠ .initial := (hn.node p s hp).started.1 hok'.1
        exact TInv.step hlen hΔ hT4 hn ht hp _ (some m) now g sx
          (fun m' h => by cases h; exact hok'.2) hT1 hT3 e1 e2 e3 e4 (Or.inl ⟨hni, e5, e6, hok'.1⟩)
  | alarm p now =>
    cases hnode : tn.net.node? p with
    | none =>
      refine tstep_idle ?_ (fun _ _ h => by cases h) ht hT1
      simp only [netStep, hnode, and_self]
    | some s =>
      have hp := node?_mem hnode
      obtain ⟨g, sx⟩ := alarm_facts hctx hlen hn hnode now hok hsy
      obtain ⟨e1, e2, e3, e4, e5, e6⟩ := tstep_alarm_some (tn := tn) (now := now) hnode
      have hok' := hok
      unfold opOk at hok'
      simp only [List.contains_eq_mem, decide_eq_true_eq] at hok'
      have hni : s.phase ≠ .initial := (hn.node p s hp).started.1 hok'
      exact TInv.step hlen hΔ hT4 hn ht hp _ none now g sx
        (fun _ h => by cases h) hT1 hT3 e1 e2 e3 e4 (Or.inl ⟨hni, e5, e6, hok'⟩)

/-! ## the whole execution -/

theorem trun_sync (hctx : Ctx t c H) (hlen : 2 ≤ c.length) (hΔ : 0 ≤ Δ)
    (hT4 : ∀ q ∈ H, 2 * Δ ≤ (cfg q).qualityTimeout2 ∧ 2 * Δ ≤ tableGet (cfg q).timeout2 0)
    (ops : List NetOp) {tn : TNet} (hn : NInv t c H tn.net) (ht : TInv t Δ cfg tn)
    (hok : execOk tn.net ops = true) (htm : timedOk Δ tn ops = true) : syncOk tn.net ops = true := by
  induction ops generalizing tn with
  | nil => rfl
  | cons op ops ih =>
    unfold execOk at hok
    unfold timedOk at htm
    unfold syncOk
    simp only [Bool.and_eq_true] at hok htm ⊢
    obtain ⟨hsy, hn', ht'⟩ := tstep_inv hctx hlen hΔ hT4 hn ht op hok.1 htm.1
    exact ⟨hsy, ih (tn := tstep tn op) hn' ht' hok.2 htm.2⟩

theorem initT_inv (t : Table) (c : Chain) (H : List Pid) (Δ : Int) (cfg : Pid → Cfg) (ops : List NetOp) :
    TInv t Δ cfg (initT (initNet t H cfg (fun _ => c)) ops) := by
  refine ⟨?_, ?_, ?_, ?_, ?_, ?_, ?_, ?_, ?_, ?_, ?_⟩
  · intro m hm; cases hm
  · intro m τ hm; cases hm
  · intro m τ hm; cases hm
  · intro q s hq; cases hq
  · intro q
    constructor
    · intro h; cases h
    · rintro ⟨s, h⟩; cases h
  · intro q s q' s' h; cases h
  · intro m τ hm; cases hm
  · intro m τ hm; cases hm
  · intro m τ hm; cases hm
  · intro m τ hm; cases hm
  · intro q x hq
    have hq' : (q, x) ∈ H.map (fun p => (p, init (cfg p) t c)) := hq
    obtain ⟨p, _, hpe⟩ := List.mem_map.1 hq'
    simp only [Prod.mk.injEq] at hpe
    obtain ⟨rfl, rfl⟩ := hpe
    refine ⟨rfl, List.nodup_nil, ?_, ?_, ?_, ?_, ?_, ?_, ?_⟩
    · intro h; exact absurd rfl h
    · intro ph y hy
      cases ph <;> cases hy
    · intro h; cases h
    · intro h; cases h
    · intro h; cases h
    · intro h; exact absurd rfl h
    · intro h; rcases h with h | h | h <;> cases h

theorem timeouts_of_ok {t : Table} {H : List Pid} {Δ : Int} {cfg : Pid → Cfg} {input : Pid → Chain}
    (h : timeoutsOk Δ (initNet t H cfg input) = true) :
    ∀ q ∈ H, 2 * Δ ≤ (cfg q).qualityTimeout2 ∧ 2 * Δ ≤ tableGet (cfg q).timeout2 0 := by
  intro q hq
  unfold timeoutsOk at h
  have := List.all_eq_true.1 h (q, init (cfg q) t (input q)) (List.mem_map.2 ⟨q, hq, rfl⟩)
  simp only [init, Bool.and_eq_true] at this
  exact ⟨of_decide_eq_true this.1, of_decide_eq_true this.2⟩

/-- **real-time synchrony implies the untimed synchrony order**, for a unanimous run whose common input has at
least one tipset beyond the base -/
theorem timed_sync_ordered_core (hctx : Ctx t c H) (hlen : 2 ≤ c.length) (ops : List NetOp)
    (hexec : execOk (initNet t H cfg (fun _ => c)) ops = true)
    (htimed : TimedSync Δ (initNet t H cfg (fun _ => c)) ops) :
    SyncOrdered (initNet t H cfg (fun _ => c)) ops := by
  obtain ⟨hΔ, h4, htm⟩ := htimed
  exact trun_sync (tn := initT (initNet t H cfg (fun _ => c)) ops) hctx hlen hΔ (timeouts_of_ok h4) ops
    (initNet_inv t c H cfg) (initT_inv t c H Δ cfg ops) hexec htm

end

end F3.Sync
