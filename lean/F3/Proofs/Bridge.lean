import F3.Spec.GraniteNet
import F3.Proofs.InstanceGuards3
import Mathlib.Algebra.BigOperators.Group.Finset.Basic
/-!
# Bridge: runs of the executable instance model form a world satisfying the abstract rules

`F3.Instance.runFrom_guarded` (Layer B) says every broadcast of a model run satisfies the list-level guard
`GuardL`. Here the list-level quorum evidence `QL` is turned into the `Finset`-level `Q` of `F3.Granite`, and a
family of honest runs (one per honest committee member, arbitrary op sequences of validated messages) is shown
to be a `World` satisfying `Rules` — so Layer A's agreement and validity apply to the executable model.
-/
namespace F3.Bridge
open F3 F3.Instance F3.Granite

/-- the member at table index `i` -/
def idAt (t : Table) (i : Nat) : Pid := (t.entries[i]?.map (·.1)).getD 0

def ids (t : Table) : List Pid := t.entries.map (·.1)

def gphase : Granite.Phase → Instance.Phase
  | .quality => .quality | .converge => .converge | .prepare => .prepare | .commit => .commit | .decide => .decide

/-- the abstract world induced by a table, a faulty set and the set of existing votes -/
def world (t : Table) (F : Finset Pid) (W : Votes) : World Pid Chain :=
  { committee := (ids t).toFinset, pw := t.power, faulty := F, bot := [],
    signed := fun p r ph v => W p r (gphase ph) v }

theorem idAt_index (t : Table) (hnd : (ids t).Nodup) (i : Nat) (hi : i < t.entries.length) :
    t.index? (idAt t i) = some i := by
  unfold Table.index? idAt
  rw [List.findIdx?_eq_some_iff_getElem]
  refine ⟨hi, by simp [List.getElem?_eq_getElem hi], ?_⟩
  intro j hj hcontra
  simp only [List.getElem?_eq_getElem hi, Option.map_some, Option.getD_some, beq_iff_eq] at hcontra
  unfold ids at hnd
  rw [List.Nodup, List.pairwise_iff_getElem] at hnd
  have := hnd j i (by simp; omega) (by simpa using hi) hj
  simp at this
  exact this hcontra

theorem power_idAt (t : Table) (hnd : (ids t).Nodup) (i : Nat) (hi : i < t.entries.length) :
    t.power (idAt t i) = t.powerAt i := by
  obtain ⟨_, _, hp⟩ := index_spec t _ _ (idAt_index t hnd i hi)
  exact hp.symm

theorem idAt_of_index (t : Table) (x : Pid) (i : Nat) (h : t.index? x = some i) : idAt t i = x := by
  obtain ⟨hi, hx, _⟩ := index_spec t x i h
  unfold idAt
  simp [List.getElem?_eq_getElem hi, hx]

theorem ids_eq_map_idAt (t : Table) : ids t = (List.range t.entries.length).map (idAt t) := by
  unfold ids
  apply List.ext_getElem
  · simp
  · intro n h1 h2
    have hn : n < t.entries.length := by simpa using h1
    simp [idAt, List.getElem?_eq_getElem hn]

theorem total_eq (t : Table) (F : Finset Pid) (W : Votes) (hnd : (ids t).Nodup) : (world t F W).T = t.total := by
  unfold World.T World.power world Table.total
  simp only
  rw [List.sum_toFinset _ hnd, List.sum_eq_foldl.symm]
  congr 1
  apply List.ext_getElem
  · simp [ids]
  · intro n h1 h2
    have hn : n < t.entries.length := by simpa [ids] using h1
    simp only [ids, List.getElem_map]
    have := power_idAt t hnd n hn
    unfold idAt Table.powerAt at this
    simpa [List.getElem?_eq_getElem hn] using this

theorem sumPow_eq_sum (t : Table) (sg : List Nat) : sumPow t sg = (sg.map t.powerAt).sum := by
  unfold sumPow; rw [List.sum_eq_foldl]

/-- list-level quorum evidence gives a `Finset` quorum of the abstract world -/
theorem ql_to_Q (t : Table) (F : Finset Pid) (W : Votes) (hnd : (ids t).Nodup) (r : Nat) (ph : Granite.Phase) (v : Chain)
    (h : QL W t r (gphase ph) v) : (world t F W).Q ph r v := by
  obtain ⟨sg, hsorted, hmem, hstrong, hvotes⟩ := h
  refine ⟨(sg.map (idAt t)).toFinset, ⟨?_, ?_⟩, ?_⟩
  · intro x hx
    simp only [List.mem_toFinset, List.mem_map] at hx
    obtain ⟨i, hi, rfl⟩ := hx
    simp only [world, List.mem_toFinset]
    rw [ids_eq_map_idAt]
    exact List.mem_map.2 ⟨i, List.mem_range.2 (hmem i hi).1, rfl⟩
  · rw [total_eq t F W hnd]
    -- the mapped list is nodup: strictly increasing valid indices, distinct ids
    have hnd' : (sg.map (idAt t)).Nodup := by
      rw [List.Nodup, List.pairwise_map]
      refine hsorted.imp_of_mem ?_
      intro a b ha hb hlt heq
      have h1 := idAt_index t hnd a (hmem a ha).1
      have h2 := idAt_index t hnd b (hmem b hb).1
      rw [heq] at h1
      rw [h1] at h2
      cases h2
      omega
    have hpow : (world t F W).power (sg.map (idAt t)).toFinset = sumPow t sg := by
      unfold World.power world
      simp only
      rw [List.sum_toFinset _ hnd', sumPow_eq_sum, List.map_map]
      congr 1
      apply List.map_congr_left
      intro i hi
      exact power_idAt t hnd i (hmem i hi).1
    rw [hpow]
    unfold strongQ Spec.Quorum.strong at hstrong
    simp only [decide_eq_true_eq] at hstrong
    exact_mod_cast hstrong
  · intro x hx
    simp only [List.mem_toFinset, List.mem_map] at hx
    obtain ⟨i, hi, rfl⟩ := hx
    obtain ⟨y, hy, hw⟩ := hvotes i hi
    rw [idAt_of_index t y i hy]
    exact hw

theorem jl_to_J (t : Table) (F : Finset Pid) (W : Votes) (hnd : (ids t).Nodup) (r : Nat) (v : Chain)
    (h : JL W t r v) : (world t F W).J r v := by
  rcases h with h | h
  · exact Or.inl (ql_to_Q t F W hnd (r - 1) .prepare v h)
  · exact Or.inr (ql_to_Q t F W hnd (r - 1) .commit [] h)


/-! ### failure-free executions -/

/-- an execution of the instance model in which no call reported an error -/
structure CleanRun (W : Votes) (t : Table) (p : Pid) where
  cfg : Cfg
  input : Chain
  ops : List Op
  inputNe : input ≠ []
  /-- everything delivered to it passed validation (C05): signatures and justifications verify, i.e. the votes
  they stand for exist in `W` -/
  valid : ∀ op ∈ ops, OpValidG W t op
  /-- the run reported no internal error or panic (C07's oracle on the implementation) -/
  nofail : hasFailure (run (init cfg t input) ops).2 = false
  /-- unforgeability: the votes of `p` in existence are exactly those it broadcast -/
  own : ∀ r ph v, W p r ph v ↔ ∃ tk j, Eff.broadcast r ph v tk j ∈ (run (init cfg t input) ops).2

theorem nodup_filterMap_inj {α β : Type} (f : α → Option β) (l : List α) (h : (l.filterMap f).Nodup)
    (a b : α) (ha : a ∈ l) (hb : b ∈ l) (k : β) (hfa : f a = some k) (hfb : f b = some k) : a = b := by
  induction l with
  | nil => simp at ha
  | cons x xs ih =>
    rcases List.mem_cons.1 ha with rfl | ha' <;> rcases List.mem_cons.1 hb with rfl | hb'
    · rfl
    · exfalso
      rw [List.filterMap_cons, hfa] at h
      simp only [List.nodup_cons] at h
      exact h.1 (List.mem_filterMap.2 ⟨b, hb', hfb⟩)
    · exfalso
      rw [List.filterMap_cons, hfb] at h
      simp only [List.nodup_cons] at h
      exact h.1 (List.mem_filterMap.2 ⟨a, ha', hfa⟩)
    · apply ih _ ha' hb'
      rw [List.filterMap_cons] at h
      cases hfx : f x with
      | none => simpa [hfx] using h
      | some y => rw [hfx] at h; exact (List.nodup_cons.1 h).2

def bcSlot : Eff → Option (Nat × Instance.Phase)
  | .broadcast r ph _ _ _ => some (r, ph)
  | _ => none

theorem evs_bc' (es : List Eff) :
    (evs es).filter Ev.isBc = (es.filterMap bcSlot).map (fun p => Ev.bc p.1 p.2) := by
  induction es with
  | nil => rfl
  | cons e es ih => cases e <;> simp [Ev.isBc, bcSlot, ih, List.filterMap_cons, List.filter_cons]

variable {W : Votes} {t : Table}

theorem CleanRun.opOk {p : Pid} (hr : CleanRun W t p) : ∀ op ∈ hr.ops, OpOk op := by
  intro op hop
  have := hr.valid op hop
  cases op with
  | recv now m => exact MsgValid.msgOk (W := W) this
  | start _ => trivial
  | alarm _ => trivial

/-- one vote per slot -/
theorem CleanRun.one_vote {p : Pid} (hr : CleanRun W t p) (r : Nat) (ph : Instance.Phase) (x y : Chain)
    (hx : W p r ph x) (hy : W p r ph y) : x = y := by
  obtain ⟨tk1, j1, h1⟩ := (hr.own r ph x).1 hx
  obtain ⟨tk2, j2, h2⟩ := (hr.own r ph y).1 hy
  have hwp := (runFrom_wp (init hr.cfg t hr.input) hr.ops (DQ_init _ _ _) hr.opOk hr.nofail).1
  have hn := hwp.bc_nodup
  rw [evs_bc'] at hn
  have hn' : ((run (init hr.cfg t hr.input) hr.ops).2.filterMap bcSlot).Nodup :=
    (List.pairwise_map.1 hn).imp (fun h heq => h (by rw [heq]))
  have := nodup_filterMap_inj bcSlot _ hn' _ _ h1 h2 (r, ph) rfl rfl
  cases this; rfl

/-- every broadcast of an honest run is guarded -/
theorem CleanRun.guarded {p : Pid} (hr : CleanRun W t p) (hT : 0 < t.total) :
    Guarded W t p hr.input (run (init hr.cfg t hr.input) hr.ops).2 := by
  have hown : OwnIn W p (runFrom (init hr.cfg t hr.input) hr.ops).2 := by
    intro r ph v tk j hm
    exact (hr.own r ph v).2 ⟨tk, j, hm⟩
  exact (runFrom_guarded (W := W) (me := p) hr.ops (GInv_init W p hr.cfg t hr.input hr.inputNe hT) (DQ_init _ _ _)
    hr.valid hown hr.nofail).1

/-- the decision reported by a failure-free run is backed by a strong DECIDE quorum in the world -/
theorem CleanRun.decision_Q {p : Pid} (hr : CleanRun W t p) (F : Finset Pid) (hnd : (ids t).Nodup) (d : Just)
    (hd : (run (init hr.cfg t hr.input) hr.ops).1.termination = some d) : (world t F W).Q .decide 0 d.value := by
  have hops : ∀ op ∈ hr.ops, OpValid (fun x c => W x 0 .decide c) (init hr.cfg t hr.input).tbl op := by
    intro op hop
    have hv := hr.valid op hop
    cases op with
    | recv now m =>
      refine ⟨MsgValid.msgOk (W := W) hv, hv.2.1, fun hph => ?_⟩
      have hw := hv.1
      have hr0 := MsgValid.msgOk (W := W) hv hph
      rw [hph, hr0] at hw; exact hw
    | start _ => trivial
    | alarm _ => trivial
  have hdec := runFrom_decinv (V := fun x c => W x 0 .decide c) (init hr.cfg t hr.input) hr.ops (DecInv_init _ _ _) hops
  have htb := runFrom_tbl (init hr.cfg t hr.input) hr.ops
  have hok := hdec.2 d hd
  rw [htb] at hok
  exact ql_to_Q t F W hnd 0 .decide d.value ⟨d.signers, hok.increasing, hok.members, hok.strong, hok.signed⟩



/-! ### refusals at the door

`Receive` refuses a message for another instance, with other supplemental data or on another base, and any
message after termination, by returning an error and leaving the instance untouched. These are the only errors
an honest execution may report. -/

def refused (s : State) : Op → Bool
  | .recv _ m => s.phase == .terminated || (match s.recvPre m with | .reject _ => true | _ => false)
  | _ => false

theorem step_refused {s : State} {op : Op} (h : refused s op = true) : ∃ k, step s op = (s, [.err k]) := by
  cases op with
  | recv now m =>
    simp only [refused, Bool.or_eq_true] at h
    unfold step
    by_cases ht : (s.phase == .terminated) = true
    · exact ⟨.afterTermination, by simp [ht]⟩
    · simp only [ht, Bool.false_eq_true, if_false]
      rcases h with h | h
      · exact absurd h ht
      · unfold State.receiveOne
        cases hp : s.recvPre m with
        | reject k => exact ⟨k, by simp⟩
        | drop => rw [hp] at h; cases h
        | accept => rw [hp] at h; cases h
  | start _ => cases h
  | alarm _ => cases h

/-- every call either is a refusal or reports no error -/
def okRun : State → List Op → Bool
  | _, [] => true
  | s, op :: ops => (refused s op || !hasFailure (step s op).2) && okRun (step s op).1 ops

/-- a message of another instance or with other supplemental data -/
def foreign : Op → Bool
  | .recv _ m => !m.instOk || !m.suppOk
  | _ => false

theorem foreign_refused (s : State) (op : Op) (h : foreign op = true) : refused s op = true := by
  cases op with
  | recv now m =>
    simp only [foreign, Bool.or_eq_true, Bool.not_eq_true'] at h
    simp only [refused, Bool.or_eq_true]
    right
    unfold State.recvPre
    rcases h with h | h
    · simp [h]
    · cases hi : m.instOk <;> simp [h]
  | start _ => cases h
  | alarm _ => cases h

theorem okRun_of_nofail (s : State) (ops : List Op) (h : hasFailure (runFrom s ops).2 = false) : okRun s ops = true := by
  induction ops generalizing s with
  | nil => rfl
  | cons op ops ih =>
    rw [runFrom_cons] at h
    simp only [hasFailure_append, Bool.or_eq_false_iff] at h
    simp only [okRun, Bool.and_eq_true, Bool.or_eq_true, Bool.not_eq_true']
    exact ⟨Or.inr h.1, ih _ h.2⟩

/-- dropping the refused calls of an honest execution leaves a failure-free execution with the same final
state and the same effects other than the refusals' errors -/
theorem clean_run (P : Op → Prop) (s : State) (ops : List Op) (h : okRun s ops = true)
    (hP : ∀ op ∈ ops, foreign op = true ∨ P op) :
    ∃ ops', (∀ op ∈ ops', P op) ∧ hasFailure (runFrom s ops').2 = false ∧
      (runFrom s ops').1 = (runFrom s ops).1 ∧
      ∀ e, (∀ k, e ≠ Eff.err k) → (e ∈ (runFrom s ops').2 ↔ e ∈ (runFrom s ops).2) := by
  induction ops generalizing s with
  | nil => exact ⟨[], by simp, by simp [runFrom], rfl, fun _ _ => Iff.rfl⟩
  | cons op ops ih =>
    simp only [okRun, Bool.and_eq_true, Bool.or_eq_true, Bool.not_eq_true'] at h
    obtain ⟨hop, hrest⟩ := h
    have hP' : ∀ o ∈ ops, foreign o = true ∨ P o := fun o ho => hP o (List.mem_cons_of_mem _ ho)
    by_cases hr : refused s op = true
    · obtain ⟨k, hk⟩ := step_refused hr
      rw [hk] at hrest
      obtain ⟨ops', h1, h2, h3, h4⟩ := ih s hrest hP'
      refine ⟨ops', h1, h2, ?_, ?_⟩
      · rw [runFrom_cons, hk]; exact h3
      · intro e he
        rw [runFrom_cons, hk, h4 e he]
        simp only [List.mem_append, List.mem_singleton]
        constructor
        · exact Or.inr
        · rintro (h' | h')
          · exact absurd h' (he k)
          · exact h'
    · have hnf : hasFailure (step s op).2 = false := by
        rcases hop with h' | h'
        · exact absurd h' hr
        · exact h'
      obtain ⟨ops', h1, h2, h3, h4⟩ := ih _ hrest hP'
      refine ⟨op :: ops', ?_, ?_, ?_, ?_⟩
      · intro o ho
        rcases List.mem_cons.1 ho with rfl | ho
        · rcases hP o List.mem_cons_self with hf | hp
          · exact absurd (foreign_refused s o hf) hr
          · exact hp
        · exact h1 o ho
      · rw [runFrom_cons]; simp only [hasFailure_append, hnf, h2, Bool.or_self]
      · rw [runFrom_cons, runFrom_cons]; exact h3
      · intro e he
        rw [runFrom_cons, runFrom_cons]
        simp only [List.mem_append, h4 e he]

/-! ### honest executions -/

/-- one honest participant's execution of the instance model: any sequence of `Start`, alarms and deliveries -/
structure HonestRun (W : Votes) (t : Table) (p : Pid) where
  cfg : Cfg
  input : Chain
  ops : List Op
  inputNe : input ≠ []
  /-- every delivered message of this instance passed validation (C05: `validMsg_MsgValid`): the vote and the
  votes its justification aggregates exist in `W`; messages of other instances / supplemental data are refused -/
  valid : ∀ op ∈ ops, foreign op = true ∨ OpValidG W t op
  /-- no call reported an error other than a refusal at the door (the C07 oracle on the implementation) -/
  ok : okRun (init cfg t input) ops = true
  /-- unforgeability: the votes of `p` in existence are exactly those it broadcast -/
  own : ∀ r ph v, W p r ph v ↔ ∃ tk j, Eff.broadcast r ph v tk j ∈ (run (init cfg t input) ops).2

theorem HonestRun.exists_clean {p : Pid} (hr : HonestRun W t p) :
    ∃ ops', (∀ op ∈ ops', OpValidG W t op) ∧ hasFailure (runFrom (init hr.cfg t hr.input) ops').2 = false ∧
      (runFrom (init hr.cfg t hr.input) ops').1 = (runFrom (init hr.cfg t hr.input) hr.ops).1 ∧
      ∀ e, (∀ k, e ≠ Eff.err k) → (e ∈ (runFrom (init hr.cfg t hr.input) ops').2 ↔ e ∈ (runFrom (init hr.cfg t hr.input) hr.ops).2) :=
  clean_run (OpValidG W t) _ _ hr.ok hr.valid

/-- the failure-free execution obtained by dropping the refused deliveries -/
noncomputable def HonestRun.clean {p : Pid} (hr : HonestRun W t p) : CleanRun W t p where
  cfg := hr.cfg
  input := hr.input
  ops := Classical.choose hr.exists_clean
  inputNe := hr.inputNe
  valid := (Classical.choose_spec hr.exists_clean).1
  nofail := (Classical.choose_spec hr.exists_clean).2.1
  own := by
    intro r ph v
    rw [hr.own r ph v]
    constructor
    · rintro ⟨tk, j, hm⟩
      exact ⟨tk, j, ((Classical.choose_spec hr.exists_clean).2.2.2 _ (fun k => by simp)).2 hm⟩
    · rintro ⟨tk, j, hm⟩
      exact ⟨tk, j, ((Classical.choose_spec hr.exists_clean).2.2.2 _ (fun k => by simp)).1 hm⟩

theorem HonestRun.clean_state {p : Pid} (hr : HonestRun W t p) :
    (run (init hr.clean.cfg t hr.clean.input) hr.clean.ops).1 = (run (init hr.cfg t hr.input) hr.ops).1 :=
  (Classical.choose_spec hr.exists_clean).2.2.1

theorem HonestRun.clean_bc {p : Pid} (hr : HonestRun W t p) (r : Nat) (ph : Instance.Phase) (v : Chain) (tk : Bool) (j : Option Just) :
    Eff.broadcast r ph v tk j ∈ (run (init hr.clean.cfg t hr.clean.input) hr.clean.ops).2 ↔
      Eff.broadcast r ph v tk j ∈ (run (init hr.cfg t hr.input) hr.ops).2 :=
  (Classical.choose_spec hr.exists_clean).2.2.2 _ (fun k => by simp)

theorem HonestRun.one_vote {p : Pid} (hr : HonestRun W t p) (r : Nat) (ph : Instance.Phase) (x y : Chain)
    (hx : W p r ph x) (hy : W p r ph y) : x = y := hr.clean.one_vote r ph x y hx hy

theorem HonestRun.guarded {p : Pid} (hr : HonestRun W t p) (hT : 0 < t.total) :
    Guarded W t p hr.input (run (init hr.cfg t hr.input) hr.ops).2 := by
  intro r ph v tk j hm
  exact hr.clean.guarded hT r ph v tk j ((hr.clean_bc r ph v tk j).2 hm)

theorem HonestRun.decision_Q {p : Pid} (hr : HonestRun W t p) (F : Finset Pid) (hnd : (ids t).Nodup) (d : Just)
    (hd : (run (init hr.cfg t hr.input) hr.ops).1.termination = some d) : (world t F W).Q .decide 0 d.value :=
  hr.clean.decision_Q F hnd d (by rw [hr.clean_state]; exact hd)

/-- **The honest rules hold of the executable model.** -/
theorem rules_of_runs (t : Table) (F : Finset Pid) (W : Votes) (hnd : (ids t).Nodup) (hT : 0 < t.total)
    (hF : 3 * (world t F W).power F < (world t F W).T)
    (hnon : ∀ p, p ∉ (ids t).toFinset → ∀ r ph v, ¬ W p r ph v)
    (runs : ∀ p, p ∈ (ids t).toFinset → p ∉ F → HonestRun W t p) : (world t F W).Rules := by
  refine ⟨hF, ?_, ?_, ?_, ?_, ?_⟩
  · intro p hp r ph x y hx hy
    by_cases hc : p ∈ (ids t).toFinset
    · exact (runs p hc hp).one_vote r (gphase ph) x y hx hy
    · exact absurd hx (hnon p hc _ _ _)
  · intro p hp r x hx
    by_cases hc : p ∈ (ids t).toFinset
    · obtain ⟨tk, j, hm⟩ := ((runs p hc hp).own r .prepare x).1 hx
      have hg := (runs p hc hp).guarded hT r .prepare x tk j hm
      exact ⟨hg.1, hg.2.1.imp id (jl_to_J t F W hnd r x)⟩
    · exact absurd hx (hnon p hc _ _ _)
  · intro p hp r x hx
    by_cases hc : p ∈ (ids t).toFinset
    · obtain ⟨tk, j, hm⟩ := ((runs p hc hp).own r .commit x).1 hx
      have hg := (runs p hc hp).guarded hT r .commit x tk j hm
      by_cases hb : x = []
      · exact Or.inl hb
      · exact Or.inr (ql_to_Q t F W hnd r .prepare x (hg.2 hb))
    · exact absurd hx (hnon p hc _ _ _)
  · intro p hp r hx
    by_cases hc : p ∈ (ids t).toFinset
    · obtain ⟨tk, j, hm⟩ := ((runs p hc hp).own r .commit []).1 hx
      have hg := (runs p hc hp).guarded hT r .commit [] tk j hm
      obtain ⟨y, hy, s', z, hne, hz, hjz⟩ := hg.1 rfl
      exact ⟨y, hy, s', z, hne, hz, hjz.imp id (jl_to_J t F W hnd r z)⟩
    · exact absurd hx (hnon p hc _ _ _)
  · intro p hp x hx
    by_cases hc : p ∈ (ids t).toFinset
    · obtain ⟨tk, j, hm⟩ := ((runs p hc hp).own 0 .decide x).1 hx
      have hg := (runs p hc hp).guarded hT 0 .decide x tk j hm rfl
      obtain ⟨hne, r', hq⟩ := hg
      exact ⟨hne, r', ql_to_Q t F W hnd r' .commit x hq⟩
    · exact absurd hx (hnon p hc _ _ _)

/-- the standing assumptions about one instance of the network of model participants -/
structure Network (t : Table) (F : Finset Pid) (W : Votes) where
  idsNodup : (ids t).Nodup
  totalPos : 0 < t.total
  /-- Byzantine members hold less than a third of the scaled power -/
  faultBound : 3 * (world t F W).power F < (world t F W).T
  /-- only committee members' votes count (the validator rejects everybody else: C05) -/
  nonMembers : ∀ p, p ∉ (ids t).toFinset → ∀ r ph v, ¬ W p r ph v
  /-- every honest committee member runs the model -/
  runs : ∀ p, p ∈ (ids t).toFinset → p ∉ F → HonestRun W t p

theorem Network.rules {t : Table} {F : Finset Pid} {W : Votes} (N : Network t F W) : (world t F W).Rules :=
  rules_of_runs t F W N.idsNodup N.totalPos N.faultBound N.nonMembers N.runs

/-- **Agreement of the executable model.** Any two honest participants running `Instance.step` on arbitrary
validated inputs in arbitrary order, with Byzantine members below a third, report equal decisions. -/
theorem model_agreement {t : Table} {F : Finset Pid} {W : Votes} (N : Network t F W)
    (p q : Pid) (hp : p ∈ (ids t).toFinset) (hpF : p ∉ F) (hq : q ∈ (ids t).toFinset) (hqF : q ∉ F) (dp dq : Just)
    (hdp : (run (init (N.runs p hp hpF).cfg t (N.runs p hp hpF).input) (N.runs p hp hpF).ops).1.termination = some dp)
    (hdq : (run (init (N.runs q hq hqF).cfg t (N.runs q hq hqF).input) (N.runs q hq hqF).ops).1.termination = some dq) :
    dp.value = dq.value :=
  F3.Granite.World.decide_quorums_agree N.rules
    ((N.runs p hp hpF).decision_Q F N.idsNodup dp hdp) ((N.runs q hq hqF).decision_Q F N.idsNodup dq hdq)

/-- **Validity of the executable model.** A decision reported by an honest participant is a non-empty prefix of
the input chain of some honest committee member. -/
theorem model_validity {t : Table} {F : Finset Pid} {W : Votes} (N : Network t F W)
    (p : Pid) (hp : p ∈ (ids t).toFinset) (hpF : p ∉ F) (d : Just)
    (hd : (run (init (N.runs p hp hpF).cfg t (N.runs p hp hpF).input) (N.runs p hp hpF).ops).1.termination = some d) :
    d.value ≠ [] ∧ ∃ h, ∃ hh : h ∈ (ids t).toFinset, ∃ hF : h ∉ F, d.value <+: (N.runs h hh hF).input := by
  have hQ := (N.runs p hp hpF).decision_Q F N.idsNodup d hd
  refine F3.Granite.World.decided_good N.rules
    (fun x => ∃ h, ∃ hh : h ∈ (ids t).toFinset, ∃ hF : h ∉ F, x <+: (N.runs h hh hF).input) ?_ hQ
  intro h hhF r x hx
  by_cases hc : h ∈ (ids t).toFinset
  · obtain ⟨tk, j, hm⟩ := ((N.runs h hc hhF).own r .prepare x).1 hx
    have hg := (N.runs h hc hhF).guarded N.totalPos r .prepare x tk j hm
    rcases hg.2.2 with hpre | ⟨r', hlt, hq⟩
    · exact Or.inl ⟨h, hc, hhF, hpre⟩
    · exact Or.inr ⟨r', hlt, ql_to_Q t F W N.idsNodup r' .prepare x hq⟩
  · exact absurd hx (N.nonMembers h hc _ _ _)

/-- the decided chain starts at the common base when all honest inputs do -/
theorem model_validity_base {t : Table} {F : Finset Pid} {W : Votes} (N : Network t F W) (b : Nat)
    (hbase : ∀ h (hh : h ∈ (ids t).toFinset) (hF : h ∉ F), (N.runs h hh hF).input.head? = some b)
    (p : Pid) (hp : p ∈ (ids t).toFinset) (hpF : p ∉ F) (d : Just)
    (hd : (run (init (N.runs p hp hpF).cfg t (N.runs p hp hpF).input) (N.runs p hp hpF).ops).1.termination = some d) :
    d.value.head? = some b := by
  obtain ⟨hne, h, hh, hF, ⟨tl, htl⟩⟩ := model_validity N p hp hpF d hd
  have hb := hbase h hh hF
  rw [← htl] at hb
  cases hv : d.value with
  | nil => exact absurd hv hne
  | cons a l => rw [hv] at hb; simpa using hb

end F3.Bridge
